#!/bin/bash
# try_seeded.sh <seeded dir> <profile/property> [...]: apply the seeded change to /repo, run the checks, undo the change.
D=$(realpath "$1"); shift
cd /verif
git -C /repo apply $D/patch.diff || exit 2
trap "git -C /repo checkout -- . ; /verif/tools/build.sh > /dev/null" EXIT
for P in "$@"; do
  if grep -q "\"$P\"" tools/props.py && [ -f coq/Properties_$P.v ]; then
    python3 tools/check.py $P 2>&1 | grep -v "^build ok" | tail -4
  else
    tools/build.sh > /dev/null
    python3 - <<PY
import sys; sys.path.insert(0,'tools'); import gen_cases, compare, subprocess, collections
st, mt = gen_cases.generate("$P", 1, 150, "work/seed.case")
subprocess.run("./build/rbdl_driver work/seed.case > work/seed.impl; ./build/model_driver work/seed.case > work/seed.model", shell=True)
r = compare.compare("work/seed.impl", "work/seed.model", same=[(m["case"],) + tuple(sm) for m in mt for sm in m.get("same", [])], unchanged_on_reject=True)
print("raw profile $P:", r["cases"], "cases; corr mismatches", dict(collections.Counter(m["label"] for m in r["corr_mismatch"])), "; oracle mismatches", dict(collections.Counter(m["label"] for m in r["oracle_mismatch"])), "; crashed", len(r["crashed"]))
PY
  fi
done
