#!/usr/bin/env python3
"""check.py Cxx [--tier quick|thorough] [--replay FILE]

Decides one property (DESIGN.md section 4.1):
  1 build   : incremental build of rbdl + drivers from /repo's working tree; translator -> coq/Gen/*.v
  2 prove   : coq/Properties_Cxx.v (and GenBridge.v) re-checked by coqc; Print Assumptions parsed
  3 corresp : corpus, then generated cases: implementation vs extracted L2 model
  4 oracle  : the same cases: implementation vs extracted L3 specification / property residuals
  5 verdict : exit 0, or exit 1 with "VIOLATION property=Cxx replay=<path>[ no-failing-input-found]"
"""
import sys, os, json, time, subprocess, hashlib, re, glob, shutil

V = "/verif"
sys.path.insert(0, os.path.join(V, "tools"))
import gen_cases, compare
from props import PROPS

def sh(cmd, timeout=3600, cwd=V):
    p = subprocess.run(cmd, shell=True, cwd=cwd, stdout=subprocess.PIPE, stderr=subprocess.STDOUT, timeout=timeout, text=True, errors="replace")
    return p.returncode, p.stdout

# ------------------------------------------------------------------ step 2: proofs
def prove(pid, tier):
    """returns dict(obligations, discharged, broken[], axioms[], theorems[], checker_cmd)"""
    cfg = PROPS[pid]
    res = {"obligations": 0, "discharged": 0, "broken": [], "axioms": [], "theorems": [], "bridge": []}
    coqdir = os.path.join(V, "coq")
    # bridge lemmas this property relies on (generated files are re-translated and re-compiled by build.sh)
    bridge = cfg.get("bridge", [])
    if bridge:
        rep = json.load(open(os.path.join(coqdir, "Gen", "translate_report.json")))
        lost = {l["function"] for l in rep["lost"]}
        ok_vo = os.path.exists(os.path.join(coqdir, "GenBridge.vo")) and \
            os.path.getmtime(os.path.join(coqdir, "GenBridge.vo")) >= os.path.getmtime(os.path.join(coqdir, "Gen", "GenSpatial.v")) - 1
        failing = set()
        if not ok_vo:
            # find out which lemma fails: compile and read the error position
            rc, out = sh("timeout 600 coqc -Q . RV GenBridge.v", cwd=coqdir)
            m = re.search(r'line (\d+)', out)
            if rc != 0 and m:
                ln = int(m.group(1)); txt = open(os.path.join(coqdir, "GenBridge.v")).read().split("\n")
                for k in range(ln - 1, -1, -1):
                    mm = re.match(r"\s*Lemma (B_\w+)", txt[k])
                    if mm: failing.add(mm.group(1)); break
            if rc != 0 and not failing: failing = {"B_" + b[2:] for b in bridge}
        for b in bridge:
            res["obligations"] += 1; name = "B_" + b[2:]
            if b in lost: res["broken"].append("bridge lemma %s: translator lost %s" % (name, b))
            elif name in failing or (not ok_vo and failing and bridge.index(b) >= 0 and name in failing): res["broken"].append("bridge lemma %s no longer checks (GenBridge.v)" % name)
            elif not ok_vo and failing:
                # lemmas after the first failing one were not reached: report only those the property needs
                order = re.findall(r"Lemma (B_\w+)", open(os.path.join(coqdir, "GenBridge.v")).read())
                first = min(order.index(f) for f in failing if f in order)
                if name in order and order.index(name) > first: res["broken"].append("bridge lemma %s not re-checked (GenBridge.v stops earlier)" % name)
                else: res["discharged"] += 1; res["bridge"].append(name)
            else: res["discharged"] += 1; res["bridge"].append(name)
    for f in cfg["coq"]:
        path = os.path.join(coqdir, f)
        src = open(path).read()
        thms = re.findall(r"^\s*Theorem\s+(\w+)", src, flags=re.M)
        res["obligations"] += len(thms); res["theorems"] += thms
        rc, out = sh("timeout 1800 coqc -Q . RV %s" % f, cwd=coqdir)
        if rc == 0:
            res["discharged"] += len(thms)
            for blk in re.findall(r"Axioms:\n((?:.+\n?)+?)(?:\n|$)", out):
                for m in re.finditer(r"^([A-Za-z_][\w.']*)\s*:", blk, flags=re.M):
                    if m.group(1) not in res["axioms"]: res["axioms"].append(m.group(1))
            res["closed"] = out.count("Closed under the global context")
        else:
            m = re.search(r'File "[^"]*", line (\d+)', out)
            where = "?"
            if m:
                ln = int(m.group(1)); lines = src.split("\n")
                for k in range(min(ln, len(lines)) - 1, -1, -1):
                    mm = re.match(r"\s*(?:Theorem|Lemma)\s+(\w+)", lines[k])
                    if mm: where = mm.group(1); break
            res["broken"].append("theorem %s in %s no longer checks: %s" % (where, f, out.strip().split("\n")[-1][:200]))
            # theorems before the failing one were accepted
            if where in thms: res["discharged"] += thms.index(where)
    res["checker_cmd"] = "cd /verif/coq && make -k -j16 && coqc -Q . RV " + " ".join(cfg["coq"])
    if tier == "thorough" and not res["broken"] and cfg.get("coqchk", True):
        mods = " ".join("RV." + f[:-2] for f in cfg["coq"])
        rc, out = sh("timeout 3000 coqchk -silent -o -Q . RV %s" % mods, cwd=coqdir, timeout=3100)
        res["coqchk"] = "ok" if rc == 0 else "FAILED: " + out[-300:]
        if rc != 0: res["broken"].append("coqchk rejects " + mods)
        else:
            for m in re.finditer(r"^\s+([A-Za-z_][\w.']*)\s*$", out.split("* Axioms:")[-1] if "* Axioms:" in out else "", flags=re.M):
                if m.group(1) not in res["axioms"] and "." in m.group(1): res["axioms"].append(m.group(1))
    return res

# ------------------------------------------------------------------ steps 3/4: run cases
def run_cases(casefile, tag):
    impl = os.path.join(V, "work", tag + ".impl"); model = os.path.join(V, "work", tag + ".model")
    rc1, o1 = sh("timeout 1800 %s/build/rbdl_driver %s > %s 2> %s.err" % (V, casefile, impl, impl))
    rc2, o2 = sh("timeout 1800 %s/build/model_driver %s %s > %s 2> %s.err" % (V, casefile, impl, model, model))
    return impl, model, (rc1, rc2)

def extract_case(casefile, name):
    out = []; on = False
    for l in open(casefile):
        if l.startswith("case "): on = (l.strip() == "case " + name)
        if on: out.append(l.rstrip("\n"))
    return out

def shrink(lines, pid, label, kind, tag):
    """drop call lines that are not needed to reproduce a mismatch of `label` (kind: 'corr'|'oracle')"""
    cfg = PROPS[pid]
    def still_fails(cand):
        f = os.path.join(V, "work", tag + ".shrink.case")
        open(f, "w").write("\n".join(cand) + "\n")
        impl, model, _ = run_cases(f, tag + ".shrink")
        rep = compare.compare(impl, model, skip_labels=cfg.get("skip_labels", ()), oracle_skip=cfg.get("oracle_skip", ()))
        mm = rep["oracle_mismatch"] if kind == "oracle" else rep["corr_mismatch"]
        return any(m["label"].split("#")[0] == label.split("#")[0] for m in mm) or (label == "crash" and rep["crashed"])
    structural = ("case ", "gravity", "add ", "set", "cset", "contact", "loop", "bind", "actuation", "luafile")
    cur = list(lines)
    idx = [i for i, l in enumerate(cur) if not l.startswith(structural)]
    # try removing calls from the end backwards, then from the start
    for i in reversed(idx):
        cand = cur[:i] + cur[i + 1:]
        try:
            if still_fails(cand): cur = cand
        except Exception: pass
        if len(cur) <= 3: break
    return cur

# ------------------------------------------------------------------ known findings
def load_known():
    out = []
    p = os.path.join(V, "known_findings.txt")
    if not os.path.exists(p): return out
    for l in open(p):
        l = l.strip()
        if not l or l.startswith("#"): continue
        m = re.match(r"open:\s+property=(\w+)\s+(.*?)\s+match=(\{.*\})\s*$", l)
        if m: out.append({"property": m.group(1), "what": m.group(2), "match": json.loads(m.group(3))})
    return out

def loop_rows(case_lines):
    """[(pred, succ, offset(3), axes indices)] of the loop / loopauto lines of a case"""
    out = []
    for l in case_lines:
        t = l.split()
        if not t or t[0] not in ("loop", "loopauto"): continue
        try:
            if t[0] == "loopauto": off = [float(x) for x in t[15:18]]; k = int(t[18]); base = 19
            else: off = [0.0] * 3; k = int(t[27]); base = 28
            axes = []
            for j in range(k):
                v = [float(x) for x in t[base + 6 * j: base + 6 * j + 6]]
                axes.append([i for i, x in enumerate(v) if x != 0.0])
            out.append((t[1], t[2], off, axes))
        except (ValueError, IndexError): out.append((t[1], t[2], None, None))
    return out
PREDS = {
  # D8a: a loop constraint row with a rotational axis component (the library shifts it by the frame origin)
  "loop_rot_axis": lambda cl: any(ax is None or any(i < 3 for a in ax for i in a) for (_, _, _, ax) in loop_rows(cl)),
  # D8b: translational loop rows that do not lock all three translations (moving-axis terms missing)
  "loop_partial_translation": lambda cl: any(ax is None or (0 < len({i for a in ax for i in a if i >= 3}) < 3) or
                                           (any(i < 3 for a in ax for i in a) and len({i for a in ax for i in a if i >= 3}) < 3)
                                           for (_, _, _, ax) in loop_rows(cl)),
}
def matches_known(kn, pid, label, case_lines):
    if kn["property"] != pid: return False
    mt = kn["match"]
    if "pred" in mt and not PREDS[mt["pred"]](case_lines): return False
    if "labels" in mt and label.split("#")[0] not in mt["labels"]: return False
    text = "\n".join(case_lines)
    for s in mt.get("case_contains", []):
        if s not in text: return False
    for s in mt.get("case_contains_any", [])[:1] and [mt.get("case_contains_any")]:
        if s and not any(x in text for x in s): return False
    return True

# ------------------------------------------------------------------ extra step of C20: threads and process-wide objects
def extra_threads(pid, tier, seed, tag):
    """returns (violations [(why, replay_text)], info dict)"""
    viol = []; info = {}
    rc, out = sh("make -C harness -j16 %s/build/thread_stress REPO=/repo B=%s/build" % (V, V), timeout=3600)
    if rc != 0: return [("the thread-stress binary does not build: " + out[-300:], out)], {"thread_stress": "build failed"}
    # (1) writable process-wide objects that nobody reviewed
    allow = set()
    for l in open(os.path.join(V, "tools", "globals_allow.txt")):
        if l.strip() and not l.startswith("#"): allow.add(l.split("\t")[0].strip())
    rc, out = sh("for f in build/core/*.o build/addons/*/*.o; do nm -C --defined-only $f | grep ' [BbDdCc] ' | sed \"s#^#$f #\"; done")
    syms = []
    for l in out.splitlines():
        t = l.split(None, 3)
        if len(t) < 4: continue
        name = t[3].strip()
        if name.startswith(("guard variable", "std::__ioinit", "__dso_handle")): continue
        syms.append((t[0], name))
    new = sorted({(f, n) for (f, n) in syms if n not in allow})
    info["process_wide_objects"] = len({n for _, n in syms}); info["unreviewed_objects"] = ["%s: %s" % x for x in new]
    if new:
        viol.append(("writable process-wide object(s) not on the reviewed list: " + "; ".join(n for _, n in new)[:300],
                     "# unreviewed writable process-wide objects (tools/globals_allow.txt)\n" + "\n".join("# %s: %s" % x for x in new) + "\n"))
    # (2) concurrent use of private instances under the thread sanitizer
    runs = [(8, 300, seed), (16, 200, seed + 1)] if tier == "quick" else [(8, 400, seed + k) for k in range(6)] + [(32, 150, seed + 100)]
    lua = "/repo/addons/luamodel/samplemodel.lua"
    nvals = 0; races = 0
    for (nt, rounds, sd) in runs:
        cmd = "TSAN_OPTIONS='halt_on_error=0 exitcode=66' timeout 900 %s/build/thread_stress %d %d %d %s" % (V, nt, rounds, sd, lua)
        rc, out = sh(cmd, timeout=1000)
        m = re.search(r"values (\d+) mismatching_threads (\d+)", out)
        if m: nvals += int(m.group(1))
        nr = out.count("WARNING: ThreadSanitizer")
        races += nr
        if rc != 0 or nr or not m or int(m.group(2)) != 0:
            viol.append(("concurrent use of private instances: %s" % ("data race reported by the thread sanitizer" if nr else ("results differ from running alone" if m else "the stress run failed")),
                         "# replay: " + cmd + "\n" + "\n".join("# " + x for x in out.splitlines()[:60]) + "\n"))
            break
    info["thread_runs"] = len(runs); info["thread_values_compared"] = nvals; info["sanitizer_reports"] = races
    return viol, info

# ------------------------------------------------------------------ main
def main():
    args = sys.argv[1:]
    if not args: print(__doc__); sys.exit(2)
    pid = args[0]; tier = os.environ.get("VERIF_TIER", "quick"); replay = None
    i = 1
    while i < len(args):
        if args[i] == "--tier": tier = args[i + 1]; i += 2
        elif args[i] == "--replay": replay = args[i + 1]; i += 2
        else: i += 1
    if tier not in ("quick", "thorough"): tier = "quick"
    seed = int(os.environ.get("VERIF_SEED", "1"))
    cfg = PROPS[pid]
    t0 = time.time()
    os.makedirs(os.path.join(V, "work"), exist_ok=True); os.makedirs(os.path.join(V, "evidence"), exist_ok=True)
    os.makedirs(os.path.join(V, "replays"), exist_ok=True)
    tag = "%s.%d.%d" % (pid, seed, os.getpid())
    rc, out = sh("tools/build.sh", timeout=7200)
    if rc != 0:
        print(out); print("check %s: build failed (not a verdict)" % pid); sys.exit(2)

    if replay:
        impl, model, _ = run_cases(replay, tag)
        rep = compare.compare(impl, model, skip_labels=cfg.get("skip_labels", ()))
        print(json.dumps({k: rep[k] for k in ("corr_mismatch", "oracle_mismatch", "crashed")}, indent=1))
        sys.exit(1 if (rep["corr_mismatch"] or rep["oracle_mismatch"] or rep["crashed"]) else 0)

    pr = prove(pid, tier)

    # cases: corpus first, then generated
    n = cfg["n_quick"] if tier == "quick" else cfg["n_thorough"]
    seeds = [seed] if tier == "quick" else [seed + k * 1000 for k in range(cfg.get("thorough_seeds", 3))]
    casefile = os.path.join(V, "work", tag + ".case")
    stats_all = []; metas = []
    with open(casefile, "w") as f:
        for cf in sorted(glob.glob(os.path.join(V, "corpus", pid, "*.case"))):
            f.write(open(cf).read().rstrip("\n") + "\n")
    ncorpus = sum(1 for l in open(casefile) if l.startswith("case "))
    for sd in seeds:
        tmp = casefile + ".gen"
        st, mt = gen_cases.generate(cfg["profile"], sd, n, tmp, prefix="s%d_" % sd)
        stats_all.append(st); metas += mt
        with open(casefile, "a") as f: f.write(open(tmp).read())
        os.remove(tmp)
    impl, model, rcs = run_cases(casefile, tag)
    rep = compare.compare(impl, model, skip_labels=cfg.get("skip_labels", ()), same=[(m["case"],) + tuple(sm) for m in metas for sm in m.get("same", [])], twin_tol=cfg.get("twin_tol"), oracle_skip=cfg.get("oracle_skip", ()),
                          unchanged_on_reject=cfg.get("unchanged_on_reject", False))

    violations = []      # (kind, label, case, why)
    for m in rep["oracle_mismatch"]: violations.append(("oracle", m["label"], m["case"], m["why"]))
    for c in rep["crashed"]: violations.append(("corr", "crash", c, "the implementation crashed"))
    corr_only = [m for m in rep["corr_mismatch"] if not any(v[2] == m["case"] for v in violations)]
    known = load_known()
    lines_out = []; nviol = 0; known_hit = {}
    reported_cases = set()
    def report(kind, label, cname, why, nofail=False):
        nonlocal nviol
        if cname in reported_cases and not nofail: return
        cl = extract_case(casefile, cname)
        try: cl = shrink(cl, pid, label, kind, tag)
        except Exception as e: pass
        for kn in known:
            if matches_known(kn, pid, label, cl):
                known_hit[kn["what"]] = known_hit.get(kn["what"], 0) + 1; reported_cases.add(cname); return
        reported_cases.add(cname)
        if nviol >= 5: nviol += 1; return
        h = hashlib.sha1(("\n".join(cl) + label).encode()).hexdigest()[:10]
        path = os.path.join(V, "replays", "%s-%s.case" % (pid, h))
        # files the case refers to (generated Lua descriptions) are kept beside the replay
        cl2 = []
        for l in cl:
            t = l.split()
            if t and t[0] in ("luaload", "luadecoy") and len(t) > 1 and os.path.exists(t[1]):
                dst = os.path.join(V, "replays", "%s-%s-%s" % (pid, h, os.path.basename(t[1])))
                try: shutil.copyfile(t[1], dst); t[1] = dst
                except OSError: pass
                l = " ".join(t)
            cl2.append(l)
        cl = cl2
        with open(path, "w") as f:
            f.write("# property %s: %s mismatch on observable '%s': %s\n" % (pid, "specification (L3 oracle)" if kind == "oracle" else "model correspondence (L2)", label, why))
            f.write("# replay: tools/check.py %s --replay %s\n" % (pid, path))
            f.write("\n".join(cl) + "\n")
        nviol += 1
        lines_out.append("VIOLATION property=%s replay=%s%s" % (pid, path, " no-failing-input-found" if nofail else ""))
    for (kind, label, cname, why) in violations: report(kind, label, cname, why)

    broken_notes = list(pr["broken"])
    if corr_only:
        byl = {}
        for m in corr_only: byl.setdefault(m["label"].split("#")[0], m)
        broken_notes += ["correspondence impl vs L2 model broken on observable '%s' (case %s seq %d: %s)" % (l, m["case"], m["seq"], m["why"]) for l, m in byl.items()]
    if broken_notes and nviol == 0:
        # a proof obligation or the correspondence broke and no input violating the property is known yet:
        # aimed search (more cases; the residual lines are evaluated on the implementation's results)
        found = False
        tmp = casefile + ".aim"
        for k in range(cfg.get("aim_rounds", 4)):
            gen_cases.generate(cfg["profile"], seed + 7777 + k, n * 3, tmp, prefix="aim%d_" % k)
            impl2, model2, _ = run_cases(tmp, tag + ".aim")
            rep2 = compare.compare(impl2, model2, skip_labels=cfg.get("skip_labels", ()), oracle_skip=cfg.get("oracle_skip", ()))
            for m in rep2["oracle_mismatch"][:40]:
                cl = extract_case(tmp, m["case"])
                open(casefile, "a").write("\n".join(cl) + "\n")
                before = nviol
                report("oracle", m["label"], m["case"], m["why"])
                if nviol > before: found = True; break
            if found: break
        if not found:
            # name what no longer checks; attach the first disagreeing case if there is one
            h = hashlib.sha1("\n".join(broken_notes).encode()).hexdigest()[:10]
            path = os.path.join(V, "replays", "%s-%s.txt" % (pid, h))
            with open(path, "w") as f:
                f.write("# property %s is no longer shown to hold; no input was found on which it fails\n" % pid)
                for b in broken_notes: f.write("# " + b + "\n")
                if corr_only:
                    f.write("# first input on which implementation and model disagree (replay: tools/check.py %s --replay <this file>)\n" % pid)
                    f.write("\n".join(extract_case(casefile, corr_only[0]["case"])) + "\n")
            nviol += 1
            lines_out.append("VIOLATION property=%s replay=%s no-failing-input-found" % (pid, path))

    extra_info = {}
    if cfg.get("extra") == "threads":
        ev_list, extra_info = extra_threads(pid, tier, seed, tag)
        for (why, text) in ev_list:
            h = hashlib.sha1(text.encode()).hexdigest()[:10]
            path = os.path.join(V, "replays", "%s-%s.txt" % (pid, h))
            open(path, "w").write("# property %s: %s\n%s" % (pid, why, text))
            nviol += 1
            lines_out.append("VIOLATION property=%s replay=%s%s" % (pid, path, "" if "concurrent use" in why else " no-failing-input-found"))
    for what, cnt in known_hit.items(): print("KNOWN-FINDING: property=%s %s (%d case(s) in this run)" % (pid, what, cnt))
    for l in lines_out: print(l)
    if nviol > len(lines_out): print("(%d further violating cases not written out)" % (nviol - len(lines_out)))

    # ---------------------------------------------------------------- evidence
    def merge(dicts):
        out = {}
        for d in dicts:
            for k, v in d.items():
                if isinstance(v, dict):
                    o = out.setdefault(k, {})
                    for kk, vv in v.items(): o[kk] = o.get(kk, 0) + vv
        return out
    dist = merge(stats_all)
    sigs = {}
    for m in metas:
        if m.get("nontrivial"): sigs[m["sig"]] = 1
    samples = []
    for l in open(casefile):
        if len(samples) >= 3: break
        if l.startswith(("add ", "call", "id ", "fd ", "jac", "com ", "cs", "fdc", "imp", "ssf", "lua")): samples.append(l.strip()[:400])
    ev = {
        "property_id": pid, "tier": tier, "seed": seed, "level": cfg.get("level", "proof"),
        "coverage": {
            "obligations": pr["obligations"], "discharged": pr["discharged"], "checker_cmd": pr["checker_cmd"],
            "trusted_base": ["Coq 8.16.1 kernel (coqc; coqchk in the thorough tier), vm_compute for Qc examples, no native_compute",
                             "axioms reported by Print Assumptions: " + (", ".join(pr["axioms"]) if pr["axioms"] else "none (all theorems closed under the global context)"),
                             "tools/translate.py for the L1 functions it translates; bridge lemmas checked: " + ", ".join(pr["bridge"]),
                             "extraction with ExtrOcamlBasic only (no Extract Constant); ocaml/driver.ml float dictionary; harness/rbdl_driver.cc; tools/compare.py tolerances",
                             "IEEE double arithmetic approximates the field operations within the comparison tolerances (no rounding theorem)"],
            "theorems": pr["theorems"], "broken_obligations": broken_notes,
            "evaluations": rep["cases"], "corpus_cases": ncorpus,
            "distinct_nontrivial": len(sigs),
            "rule": cfg.get("rule", "cases from tools/gen_cases.py profile %s; distinct = distinct (topology, joint-kind multiset, routine multiset) signatures among cases with a non-identity joint frame and a non-zero velocity" % cfg["profile"]),
            "samples": samples or ["(no case lines)"],
            "traces_validated_against_impl": rep["corr_lines"], "oracle_lines_checked": rep["oracle_lines"], "residual_checks": rep.get("residual_lines", 0),
            "same_pairs_checked": rep.get("same_checked", 0),
            "discarded_ill_conditioned": rep["discarded_ill_conditioned"], "max_condition_estimate": rep["max_cond"],
            "input_distribution": dist, "known_findings_hit": known_hit,
            "coqchk": pr.get("coqchk", "not run in this tier"), "extra": extra_info,
        },
        "assumptions": cfg.get("assumptions", []) + ["field / trigonometric / derivation laws are Section hypotheses of the theorems (FieldLaws, TrigLaws), instantiated at R and Qc"],
        "wall_s": round(time.time() - t0, 2), "violations": nviol,
    }
    json.dump(ev, open(os.path.join(V, "evidence", pid + ".json"), "w"), indent=1)
    for f in glob.glob(os.path.join(V, "work", "lua", "*_%d_*" % os.getpid())):
        try: os.remove(f)
        except OSError: pass
    for f in glob.glob(os.path.join(V, "work", tag + "*")):
        try: os.remove(f)
        except OSError: pass
    print("check %s tier=%s seed=%d: %d/%d obligations, %d cases, %d correspondence lines, %d oracle lines, %d violation(s), %.0fs"
          % (pid, tier, seed, pr["discharged"], pr["obligations"], rep["cases"], rep["corr_lines"], rep["oracle_lines"], nviol, time.time() - t0))
    sys.exit(1 if nviol else 0)

if __name__ == "__main__":
    main()
