#!/bin/bash
# seeded.sh <dir with patch.diff demo.cc>  : confirm a seeded change in a fresh scratch worktree
#   (compiles, 278 tests pass, demo FAILs with the change and PASSes without), then remove the worktree.
set -e
D=$(realpath "$1"); W=/tmp/sv-$$
git -C /repo worktree add -q $W HEAD
trap "git -C /repo worktree remove --force $W >/dev/null 2>&1 || true" EXIT
cd $W; mkdir -p $W/seeded
cmake -G Ninja -B _build -DCMAKE_BUILD_TYPE=RelWithDebInfo -DRBDL_BUILD_TESTS=ON . > /dev/null
build_demo() { if [ -f $D/build_demo.sh ]; then (cd $W && sed "s#/tmp/wt-C[0-9]*#$W#g; s#seeded/#$D/#g; s#-o $D/demo#-o $W/demo#g" $D/build_demo.sh | bash 2>&1 | tail -3); return; fi; g++ -std=c++11 -I$W/include -I$W/_build/include -I/usr/include/eigen3 $D/demo.cc -L$W/_build -lrbdl -Wl,-rpath,$W/_build -o $W/demo 2>&1 | tail -3; }
cmake --build _build > /dev/null 2>&1; build_demo
set +e; ./demo > /dev/null 2>&1; r0=$?; set -e
git apply $D/patch.diff
cmake --build _build 2>&1 | tail -1
t=$(./_build/tests/rbdl_tests | tail -2 | tr '\n' ' ')
build_demo
set +e; ./demo > /dev/null 2>&1; r1=$?; set -e
echo "unchanged: demo exit $r0 ; with change: tests [$t] demo exit $r1"
if [ $r0 -eq 0 ] && [ $r1 -ne 0 ] && echo "$t" | grep -q "All tests passed"; then echo "SEEDED-CONFIRMED"; else echo "SEEDED-NOT-CONFIRMED"; exit 1; fi
