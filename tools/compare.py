#!/usr/bin/env python3
"""Compare the outputs of the implementation driver and of the model driver.

  correspondence:  impl "o" lines  vs  model "o" lines   (is the L2 model the code?)
  oracle        :  impl "o" lines  vs  model "s" lines   (does the code meet the L3 specification?)

Numeric policy (DESIGN 2.4): |a-b| <= tol * (1 + scale), scale = largest magnitude in the line (both sides);
tol = 1e-9, or 1e-7 for outputs that contain a linear solve.  NaN/Inf on either side is a disagreement."""
import sys, math, json

SOLVE_LABELS = {"qdd", "lambda", "qdplus", "impulse", "tauc", "force", "ltlsolve", "fdc_motion", "fdc_constraint_acc", "imp_feasible", "imp_momentum", "imp_energy", "idc_motion", "idc_constraint_acc", "idc_unactuated_tau", "idc_actuated_acc", "asmqd", "asmqd_feasible", "asmqd_closest", "ikq", "ikerr", "asmq",
                "fpe_w0C0", "fpe_w0P0", "fpe_proj", "fpe_phi", "fpe_r0F0", "fpe_n", "fpe_u", "fpe_avg_angvel_com", "fpe_avg_angvel_proj", "fpe_point_offset"}

def parse(path):
    """-> {case: {(tag, seq, label): [tokens]}}, order list"""
    res = {}; cur = None; order = []
    with open(path, errors="replace") as f:
        for line in f:
            p = line.split()
            if not p: continue
            if p[0] == "case": cur = p[1]; res[cur] = {"_done": False}; order.append(cur)
            elif p[0] == "endcase":
                if cur is not None: res[cur]["_done"] = True
            elif p[0] in ("o", "s", "i", "c") and cur is not None and len(p) >= 3:
                key = (p[0], p[1], p[2]); k2 = key; n = 0
                while k2 in res[cur]: n += 1; k2 = (p[0], p[1], p[2] + "#%d" % n)
                res[cur][k2] = p[3:]
    return res, order

def tonum(t):
    try: return float(t)
    except ValueError: return None

def cmp_tokens(a, b, tol):
    """returns None if equal, else description"""
    if len(a) != len(b): return "length %d vs %d" % (len(a), len(b))
    na = [tonum(x) for x in a]; nb = [tonum(x) for x in b]
    scale = 0.0
    for x in na + nb:
        if x is not None and math.isfinite(x): scale = max(scale, abs(x))
    worst = None
    for i, (x, y) in enumerate(zip(na, nb)):
        if x is None or y is None:
            if a[i] != b[i]: return "token %d: %s vs %s" % (i, a[i], b[i])
            continue
        if not (math.isfinite(x) and math.isfinite(y)): return "token %d: non-finite %s vs %s" % (i, a[i], b[i])
        d = abs(x - y)
        if d > tol * (1.0 + scale):
            if worst is None or d > worst[0]: worst = (d, i, a[i], b[i])
    if worst: return "token %d: %s vs %s (|diff| %.3g, scale %.3g, tol %.1g)" % (worst[1], worst[2], worst[3], worst[0], scale, tol)
    return None

def compare(impl_path, model_path, tol=1e-9, tol_solve=1e-7, skip_labels=(), cond_max=1e6, same=(), unchanged_on_reject=False, twin_tol=None, oracle_skip=()):
    impl, order = parse(impl_path); model, _ = parse(model_path)
    rep = {"cases": len(order), "corr_lines": 0, "oracle_lines": 0, "corr_mismatch": [], "oracle_mismatch": [], "crashed": [], "incomplete": [],
           "discarded_ill_conditioned": 0, "max_cond": 0.0, "residual_lines": 0, "same_checked": 0}
    for c in order:
        I = impl[c]; M = model.get(c)
        if M is None: rep["incomplete"].append(c); continue
        if not I.get("_done") or not M.get("_done"): rep["incomplete"].append(c)
        for key, toks in I.items():
            if key == "_done": continue
            tag, seq, label = key
            base = label.split("#")[0]
            if base in skip_labels: continue
            if base == "crash": rep["crashed"].append(c); continue
            t = tol_solve if base in SOLVE_LABELS else tol
            if (base in SOLVE_LABELS or base == "LtL") and ("i", seq, "cond") in M:
                cnd = tonum(M[("i", seq, "cond")][0])
                if cnd is None or not math.isfinite(cnd) or cnd > cond_max:
                    rep["discarded_ill_conditioned"] += 1; continue
                rep["max_cond"] = max(rep["max_cond"], cnd)
                if base in SOLVE_LABELS: t = t * max(1.0, cnd / 100.0)
            mk = ("o", seq, label)
            if mk in M:
                # results of a (near-)singular solve, and workspace entries derived from them, are garbage on both
                # sides (inputs are O(1)): not compared
                def mag(tk):
                    b = 0.0
                    for x in tk:
                        v = tonum(x)
                        if v is not None: b = max(b, abs(v)) if math.isfinite(v) else float("inf")
                    return b
                if (base in SOLVE_LABELS and max(mag(toks), mag(M[mk])) > 1e7) or (mag(toks) > 1e7 and mag(M[mk]) > 1e7):
                    rep["discarded_ill_conditioned"] += 1; continue
            if mk in M and M[mk] == ["singular"]:
                rep["discarded_ill_conditioned"] += 1; continue
            if mk not in M and ("o", seq, "qdd") in M and M[("o", seq, "qdd")] == ["singular"]: continue
            if mk not in M and ("o", seq, "qdplus") in M and M[("o", seq, "qdplus")] == ["singular"]: continue
            if mk in M:
                rep["corr_lines"] += 1
                d = cmp_tokens(toks, M[mk], t)
                if d: rep["corr_mismatch"].append({"case": c, "seq": int(seq), "label": label, "why": d})
            else:
                rep["corr_mismatch"].append({"case": c, "seq": int(seq), "label": label, "why": "missing on the model side"})
            sk = ("s", seq, label)
            if sk in M and base not in oracle_skip:
                rep["oracle_lines"] += 1
                d = cmp_tokens(toks, M[sk], t)
                if d: rep["oracle_mismatch"].append({"case": c, "seq": int(seq), "label": label, "why": d})
        # property residuals computed on the model side:  c <seq> <label> <residual> <scale>
        for key, toks in M.items():
            if key == "_done" or key[0] != "c": continue
            if key[2].split("#")[0] in oracle_skip: continue
            rep["residual_lines"] += 1
            r = tonum(toks[0]) if toks else None; sc = tonum(toks[1]) if len(toks) > 1 else 0.0
            t = tol_solve
            if ("i", key[1], "cond") in M:
                cnd = tonum(M[("i", key[1], "cond")][0])
                if cnd is None or not math.isfinite(cnd) or cnd > cond_max: continue
                t = t * max(1.0, cnd / 100.0)
            if r is None or not math.isfinite(r) or abs(r) > t * (1.0 + abs(sc or 0.0)):
                rep["oracle_mismatch"].append({"case": c, "seq": int(key[1]), "label": key[2], "why": "property residual %s (scale %s, tol %.1g)" % (toks[0] if toks else "?", toks[1] if len(toks) > 1 else "?", t)})
        for key, toks in M.items():
            if key != "_done" and key[0] == "i" and key[2] == "wf" and toks and toks[0] != "1":
                rep["oracle_mismatch"].append({"case": c, "seq": int(key[1]), "label": "wf", "why": "well-formedness predicate false: " + " ".join(toks[1:])})
        if unchanged_on_reject:
            for key, toks in I.items():
                if key != "_done" and key[0] == "o" and key[2] == "add" and toks and toks[0] == "rejected":
                    k = int(key[1])
                    before = {kk[2]: v for kk, v in I.items() if kk != "_done" and kk[0] == "o" and kk[1] == str(k - 1)}
                    after = {kk[2]: v for kk, v in I.items() if kk != "_done" and kk[0] == "o" and kk[1] == str(k + 1)}
                    if "sizes" in before and "sizes" in after:
                        rep["same_checked"] += 1
                        for lab in before:
                            if lab in ("ids", "jframes", "names"): continue   # these also list the rejected op itself
                            if before[lab] != after.get(lab):
                                rep["oracle_mismatch"].append({"case": c, "seq": k, "label": "reject_changed_model", "why": "field '%s' differs after a rejected addition" % lab}); break
        for sm in same:
            (cs, a, b, lab) = sm[:4]; perm = sm[4] if len(sm) > 4 else None
            if cs != c: continue
            if lab == "*":
                # every observable of call a must be reproduced by call b
                for k0 in [k for k in I if k != "_done" and k[0] == "o" and k[1] == str(a)]:
                    rep["same_checked"] += 1
                    kb0 = ("o", str(b), k0[2])
                    if kb0 not in I:
                        rep["oracle_mismatch"].append({"case": c, "seq": int(b), "label": "same:" + k0[2], "why": "observable of call %d missing at call %d" % (a, b)}); continue
                    d = None if I[k0] == I[kb0] else cmp_tokens(I[k0], I[kb0], twin_tol if twin_tol is not None else tol)
                    if d: rep["oracle_mismatch"].append({"case": c, "seq": int(b), "label": "same:" + k0[2], "why": "results of call %d and call %d differ: %s" % (a, b, d)})
                continue
            ka = ("o", str(a), lab); kb = ("o", str(b), lab)
            if ka in I and kb in I:
                rep["same_checked"] += 1
                tb = I[kb]
                if perm is not None and len(tb) == len(perm): tb = [tb[perm[i]] for i in range(len(perm))]
                tl = tol_solve if lab in SOLVE_LABELS else tol
                if twin_tol is not None: tl = max(tl, twin_tol)
                def nonfinite(tk):
                    for x in tk:
                        v = tonum(x)
                        if v is not None and not math.isfinite(v): return True
                    return False
                if nonfinite(I[ka]) and nonfinite(tb):
                    # both calls produced non-finite numbers (singular system): nothing to compare
                    rep["discarded_ill_conditioned"] += 1; continue
                d = cmp_tokens(I[ka], tb, tl)
                if d: rep["oracle_mismatch"].append({"case": c, "seq": int(b), "label": "same:" + lab, "why": "results of call %d and call %d differ: %s" % (a, b, d)})
        for key in M:
            if key != "_done" and key[0] == "o" and key not in I and key[2].split("#")[0] not in skip_labels:
                rep["corr_mismatch"].append({"case": c, "seq": int(key[1]), "label": key[2], "why": "missing on the implementation side"})
    return rep

if __name__ == "__main__":
    r = compare(sys.argv[1], sys.argv[2])
    json.dump(r, sys.stdout, indent=1); print()
