#!/usr/bin/env python3
"""Translate the inline functions of rbdl's SpatialAlgebraOperators.h and
Quaternion.h (current working tree of /repo) into Gallina definitions over the
scalar dictionary `Ops T` (coq/Gen/GenSpatial.v, coq/Gen/GenQuat.v).

A typed recursive-descent translator for the expression subset those headers
use.  Functions that no longer parse are reported as lost (stderr + JSON) and
left out; GenBridge.v then fails for them, which the check reports.
"""
import re, sys, json, os

REPO = os.environ.get("RBDL_REPO", "/repo")

# ---------------------------------------------------------------- tokens
TOK = re.compile(r"""
   (?P<num>(?:\d+\.\d*|\.\d+|\d+)(?:[eE][-+]?\d+)?[fF]?)
 | (?P<id>[A-Za-z_][A-Za-z_0-9]*)
 | (?P<op>::|\*=|[-+*/=<>(),;\[\]{}.&!])
 | (?P<ws>\s+)
""", re.X)

def strip_comments(s):
    s = re.sub(r"/\*.*?\*/", lambda m: re.sub(r"[^\n]", " ", m.group(0)), s, flags=re.S)
    s = re.sub(r"//[^\n]*", "", s)
    # conditional compilation: the configuration that is built has RBDL_USE_CASADI_MATH undefined
    out = []; stack = []
    for line in s.split("\n"):
        t = line.strip()
        if t.startswith("#"):
            m = re.match(r"#\s*(ifdef|ifndef|if|else|elif|endif)\b\s*(.*)", t)
            if m:
                d, arg = m.group(1), m.group(2).strip()
                if d == "ifdef": stack.append(arg != "RBDL_USE_CASADI_MATH")
                elif d == "ifndef": stack.append(arg == "RBDL_USE_CASADI_MATH" or True if arg == "RBDL_USE_CASADI_MATH" else (not arg.startswith("RBDL_") or True))
                elif d == "if": stack.append(True)
                elif d == "else" and stack: stack[-1] = not stack[-1]
                elif d == "endif" and stack: stack.pop()
            out.append(""); continue
        out.append(line if all(stack) else "")
    return "\n".join(out)

def tokenize(s):
    out = []; i = 0
    while i < len(s):
        m = TOK.match(s, i)
        if not m: raise SyntaxError("bad char %r at %d" % (s[i], i))
        i = m.end()
        if m.lastgroup == "ws": continue
        out.append((m.lastgroup, m.group(m.lastgroup)))
    return out

class Lost(Exception): pass

# ---------------------------------------------------------------- typed terms
# a value is (type, payload); payload is a Coq term string, or for 'm43'/'v4'
# a python list of scalar Coq terms (these Eigen types have no model twin).
def sc(t): return ("sc", t)

def lit(txt):
    t = txt.rstrip("fF")
    if re.fullmatch(r"\d+\.?0*", t) or re.fullmatch(r"0*\d+\.?0*", t):
        n = int(float(t))
        if n == 0: return sc("0")
        if n == 1: return sc("1")
        return sc("(onat O %d)" % n)
    v = float(t)
    if v == 0.5: return sc("(ohalf O)")
    # decimal literal as quotient of naturals
    from fractions import Fraction
    fr = Fraction(t)
    return sc("(odiv O (onat O %d) (onat O %d))" % (fr.numerator, fr.denominator))

V3F = ["vx", "vy", "vz"]
SVF = ["s0", "s1", "s2", "s3", "s4", "s5"]
QF = ["qx", "qy", "qz", "qw"]

def idx1(v, k):
    ty, t = v
    if ty == "v3": return sc("(%s %s)" % (V3F[k], t))
    if ty == "sv": return sc("(%s %s)" % (SVF[k], t))
    if ty == "quat": return sc("(%s %s)" % (QF[k], t))
    if ty == "v4": return sc(t[k])
    raise Lost("index [] on %s" % ty)

def idx2(v, i, j):
    ty, t = v
    if ty == "m3": return sc("(m%d%d %s)" % (i, j, t))
    if ty == "m66":
        blk = ("bUL", "bUR", "bLL", "bLR")[(i // 3) * 2 + (j // 3)]
        return sc("(m%d%d (%s %s))" % (i % 3, j % 3, blk, t))
    if ty == "m43": return sc(t[i * 3 + j])
    raise Lost("index (,) on %s" % ty)

def neg(v):
    ty, t = v
    f = {"sc": "oopp O", "v3": "v3opp O", "m3": "m3opp O", "sv": "svopp O"}.get(ty)
    if not f: raise Lost("unary - on %s" % ty)
    return (ty, "(%s %s)" % (f, t))

def addsub(op, a, b):
    (ta, x), (tb, y) = a, b
    if ta != tb: raise Lost("%s on %s,%s" % (op, ta, tb))
    names = {"sc": ("oadd O", "osub O"), "v3": ("v3add O", "v3sub O"), "m3": ("m3add O", "m3sub O"),
             "sv": ("svadd O", "svsub O")}
    if ta not in names: raise Lost("%s on %s" % (op, ta))
    return (ta, "(%s %s %s)" % (names[ta][0 if op == "+" else 1], x, y))

def mul(a, b):
    (ta, x), (tb, y) = a, b
    k = (ta, tb)
    if k == ("sc", "sc"): return sc("(omul O %s %s)" % (x, y))
    if k == ("sc", "v3"): return ("v3", "(v3scale O %s %s)" % (x, y))
    if k == ("v3", "sc"): return ("v3", "(v3scale O %s %s)" % (y, x))
    if k == ("sc", "m3"): return ("m3", "(m3scale O %s %s)" % (x, y))
    if k == ("m3", "sc"): return ("m3", "(m3scale O %s %s)" % (y, x))
    if k == ("m3", "m3"): return ("m3", "(m3mul O %s %s)" % (x, y))
    if k == ("m3", "v3"): return ("v3", "(m3v O %s %s)" % (x, y))
    if k == ("quat", "quat"): return ("quat", "(G_quat_mul %s %s)" % (x, y))
    if k == ("sc", "m43"): return ("m43", ["(omul O %s %s)" % (x, e) for e in y])
    if k == ("m43", "v3"):
        rows = []
        for i in range(4):
            terms = ["(omul O %s (%s %s))" % (x[i * 3 + j], V3F[j], y) for j in range(3)]
            rows.append("(oadd O (oadd O %s %s) %s)" % tuple(terms))
        return ("v4", rows)
    raise Lost("* on %s,%s" % k)

def div(a, b):
    (ta, x), (tb, y) = a, b
    if (ta, tb) == ("sc", "sc"): return sc("(odiv O %s %s)" % (x, y))
    raise Lost("/ on %s,%s" % (ta, tb))

CTORS = {"Vector3d": ("v3", 3, "mkV3"), "Matrix3d": ("m3", 9, "mkM3"),
         "SpatialVector": ("sv", 6, "mkSV"), "SpatialMatrix": ("m66", 36, "m66of36"),
         "Quaternion": ("quat", 4, "mkQt")}
TYPES = {"Scalar": "sc", "double": "sc", "Vector3d": "v3", "Matrix3d": "m3", "SpatialVector": "sv",
         "SpatialMatrix": "m66", "Quaternion": "quat", "SpatialTransform": "st",
         "SpatialRigidBodyInertia": "rbi", "Matrix43": "m43", "Vector4d": "v4"}
MEMBERS = {"st": {"E": ("m3", "stE"), "r": ("v3", "str")},
           "rbi": {"m": ("sc", "rm"), "h": ("v3", "rh"), "Ixx": ("sc", "rIxx"), "Iyx": ("sc", "rIyx"),
                   "Iyy": ("sc", "rIyy"), "Izx": ("sc", "rIzx"), "Izy": ("sc", "rIzy"), "Izz": ("sc", "rIzz")}}
RBI_ORDER = ["m", "h", "Ixx", "Iyx", "Iyy", "Izx", "Izy", "Izz"]

class Parser:
    def __init__(self, toks, env, this_ty=None, this_term=None):
        self.t = toks; self.i = 0; self.env = env
        self.this_ty = this_ty; self.this_term = this_term
    def peek(self, k=0):
        return self.t[self.i + k][1] if self.i + k < len(self.t) else None
    def next(self):
        v = self.t[self.i]; self.i += 1; return v
    def expect(self, s):
        if self.peek() != s: raise Lost("expected %r got %r" % (s, self.peek()))
        self.i += 1
    def args(self):
        self.expect("("); out = []
        if self.peek() == ")": self.i += 1; return out
        while True:
            out.append(self.expr())
            if self.peek() == ",": self.i += 1; continue
            self.expect(")"); return out
    def expr(self):
        a = self.term()
        while self.peek() in ("+", "-"):
            op = self.next()[1]; b = self.term(); a = addsub(op, a, b)
        return a
    def term(self):
        a = self.unary()
        while self.peek() in ("*", "/"):
            op = self.next()[1]; b = self.unary()
            a = mul(a, b) if op == "*" else div(a, b)
        return a
    def unary(self):
        if self.peek() == "-": self.i += 1; return neg(self.unary())
        if self.peek() == "+": self.i += 1; return self.unary()
        return self.postfix(self.primary())
    def construct(self, name):
        ty, n, ctor = CTORS[name]; a = self.args()
        if name == "Quaternion" and len(a) == 1 and a[0][0] == "v4":
            return ("quat", "(mkQt %s)" % " ".join(a[0][1]))
        if name in ("Vector3d", "Matrix3d", "SpatialVector", "Quaternion") and len(a) == 1 and a[0][0] == ty:
            return a[0]
        if len(a) != n or any(x[0] != "sc" for x in a): raise Lost("ctor %s arity/type" % name)
        return (ty, "(%s %s)" % (ctor, " ".join(x[1] for x in a)))
    def primary(self):
        kind, v = self.next()
        if kind == "num": return lit(v)
        if v == "(":
            # (*this)
            if self.peek() == "*" and self.peek(1) == "this":
                self.i += 2; self.expect(")"); return (self.this_ty, self.this_term)
            e = self.expr(); self.expect(")"); return e
        if kind != "id": raise Lost("unexpected %r" % v)
        if v in ("std", "Math", "Eigen") and self.peek() == "::":
            self.i += 1; return self.primary()
        if v in ("sin", "cos", "sqrt"):
            a = self.args()
            if len(a) != 1 or a[0][0] != "sc": raise Lost(v)
            return sc("(%s O %s)" % ({"sin": "osin", "cos": "ocos", "sqrt": "osqrt"}[v], a[0][1]))
        if v in ("Matrix3d", "Vector3d") and self.peek() == "::":
            self.i += 1; f = self.next()[1]; self.expect("("); self.expect(")")
            r = {("Matrix3d", "Identity"): ("m3", "(m3id O)"), ("Matrix3d", "Zero"): ("m3", "(m3zero O)"),
                 ("Vector3d", "Zero"): ("v3", "(v3zero O)")}.get((v, f))
            if not r: raise Lost("%s::%s" % (v, f))
            return r
        if v == "Quaternion" and self.peek() == "::":
            self.i += 1; f = self.next()[1]; a = self.args()
            return self.call("quat", f, None, a)
        if v == "VectorCrossMatrix":
            a = self.args()
            if len(a) != 1 or a[0][0] != "v3": raise Lost("VectorCrossMatrix")
            return ("m3", "(G_VectorCrossMatrix %s)" % a[0][1])
        if v in CTORS and self.peek() == "(": return self.construct(v)
        if v == "SpatialTransform" and self.peek() == "(":
            a = self.args()
            if [x[0] for x in a] != ["m3", "v3"]: raise Lost("SpatialTransform ctor")
            return ("st", "(mkST %s %s)" % (a[0][1], a[1][1]))
        if v == "SpatialRigidBodyInertia" and self.peek() == "(":
            a = self.args(); tys = [x[0] for x in a]
            if tys == ["sc", "v3", "m3"]: return ("rbi", "(rbi_of %s %s %s)" % tuple(x[1] for x in a))
            if tys == ["sc", "v3"] + ["sc"] * 6: return ("rbi", "(mkRBI %s)" % " ".join(x[1] for x in a))
            raise Lost("rbi ctor")
        if v in self.env: return self.env[v]
        if self.this_ty and v in MEMBERS.get(self.this_ty, {}):
            ty, f = MEMBERS[self.this_ty][v]; return (ty, "(%s %s)" % (f, self.this_term))
        if self.this_ty == "quat" and self.peek() == "(":      # method of this
            a = self.args(); return self.call("quat", v, (self.this_ty, self.this_term), a)
        raise Lost("unknown identifier %s" % v)
    def call(self, cls, f, recv, a):
        if cls == "quat" and f == "conjugate" and recv and not a:
            return ("quat", "(G_quat_conjugate %s)" % recv[1])
        if cls == "quat" and f == "fromAxisAngle" and [x[0] for x in a] == ["v3", "sc"]:
            return ("quat", "(G_quat_fromAxisAngle %s %s)" % (a[0][1], a[1][1]))
        raise Lost("call %s.%s" % (cls, f))
    def postfix(self, v):
        while True:
            p = self.peek()
            if p == "[":
                self.i += 1; k = self.next()[1]; self.expect("]"); v = idx1(v, int(k.rstrip(".")))
            elif p == "(" and v[0] in ("m3", "m66", "m43"):
                self.i += 1; i = int(self.next()[1]); self.expect(","); j = int(self.next()[1]); self.expect(")")
                v = idx2(v, i, j)
            elif p == ".":
                self.i += 1; f = self.next()[1]
                if v[0] in MEMBERS and f in MEMBERS[v[0]] and self.peek() != "(":
                    ty, fn = MEMBERS[v[0]][f]; v = (ty, "(%s %s)" % (fn, v[1])); continue
                a = self.args()
                if f == "cross" and v[0] == "v3" and [x[0] for x in a] == ["v3"]:
                    v = ("v3", "(v3cross O %s %s)" % (v[1], a[0][1]))
                elif f == "dot" and v[0] == "v3" and [x[0] for x in a] == ["v3"]:
                    v = sc("(v3dot O %s %s)" % (v[1], a[0][1]))
                elif f == "transpose" and v[0] == "m3" and not a:
                    v = ("m3", "(m3T %s)" % v[1])
                elif f == "norm" and v[0] == "v3" and not a:
                    v = sc("(v3norm O %s)" % v[1])
                elif v[0] == "quat": v = self.call("quat", f, v, a)
                else: raise Lost("method .%s on %s" % (f, v[0]))
            else:
                return v

# ---------------------------------------------------------------- statements
def match_close(toks, i, op, cl):
    depth = 0
    while i < len(toks):
        if toks[i][1] == op: depth += 1
        elif toks[i][1] == cl:
            depth -= 1
            if depth == 0: return i
        i += 1
    raise Lost("unbalanced %s" % op)

def parse_stmts(toks):
    """-> list of ('simple', toks) | ('if', cond_toks, then_stmts, else_stmts)"""
    out = []; i = 0
    while i < len(toks):
        if toks[i][1] == "if":
            j = match_close(toks, i + 1, "(", ")")
            cond = toks[i + 2:j]
            if toks[j + 1][1] != "{": raise Lost("if without braces")
            k = match_close(toks, j + 1, "{", "}")
            then_s = parse_stmts(toks[j + 2:k]); else_s = []
            i = k + 1
            if i < len(toks) and toks[i][1] == "else":
                if toks[i + 1][1] == "if":
                    rest = parse_stmts(toks[i + 1:])
                    else_s = [rest[0]]; out.append(("if", cond, then_s, else_s)); out += rest[1:]; return out
                if toks[i + 1][1] != "{": raise Lost("else without braces")
                k2 = match_close(toks, i + 1, "{", "}")
                else_s = parse_stmts(toks[i + 2:k2]); i = k2 + 1
            out.append(("if", cond, then_s, else_s))
        else:
            depth = 0; j = i
            while j < len(toks):
                if toks[j][1] in "([{": depth += 1
                if toks[j][1] in ")]}": depth -= 1
                if toks[j][1] == ";" and depth == 0: break
                j += 1
            if j > i: out.append(("simple", toks[i:j]))
            i = j + 1
    return out

class M66Acc:
    """SpatialMatrix built by element / block assignment."""
    def __init__(self): self.e = {}
    def set(self, i, j, term): self.e[(i, j)] = term
    def setblock(self, bi, bj, m3term):
        for i in range(3):
            for j in range(3): self.e[(bi + i, bj + j)] = "(m%d%d %s)" % (i, j, m3term)
    def term(self):
        miss = [k for k in ((i, j) for i in range(6) for j in range(6)) if k not in self.e]
        if miss: raise Lost("SpatialMatrix entries never assigned: %s" % miss[:3])
        return "(m66of36 %s)" % " ".join(self.e[(i, j)] for i in range(6) for j in range(6))

def parse_cond(toks, env, this_ty, this_term):
    """conjunction of scalar comparisons -> Coq bool term"""
    parts = []; cur = []
    k = 0
    while k < len(toks):
        if toks[k][1] == "&" and k + 1 < len(toks) and toks[k + 1][1] == "&": parts.append(cur); cur = []; k += 2
        else: cur.append(toks[k]); k += 1
    parts.append(cur)
    terms = []
    for pt in parts:
        idx = [i for i, t in enumerate(pt) if t[1] in ("<", ">")]
        depth = 0; pos = None
        for i, t in enumerate(pt):
            if t[1] in "([": depth += 1
            if t[1] in ")]": depth -= 1
            if t[1] in ("<", ">") and depth == 0: pos = i
        if pos is None: raise Lost("condition is not a comparison")
        L = Parser(pt[:pos], env, this_ty, this_term); a = L.expr()
        R = Parser(pt[pos + 1:], env, this_ty, this_term); b = R.expr()
        if a[0] != "sc" or b[0] != "sc" or L.i != pos or R.i != len(pt) - pos - 1: raise Lost("comparison operands")
        terms.append("(oltb O %s %s)" % ((a[1], b[1]) if pt[pos][1] == "<" else (b[1], a[1])))
    t = terms[0]
    for x in terms[1:]: t = "(andb %s %s)" % (t, x)
    return t

import copy
def translate_body(body, params, this_ty, this_term, ret_ty, outparam=None):
    """returns Coq term (with let-bindings) of type ret_ty"""
    fresh = [0]
    want = "rbi" if ret_ty == "rbi_this" else ret_ty
    def finish(env, acc):
        if ret_ty == "rbi_this":
            a = acc.get("__this", {})
            if set(a) != set(RBI_ORDER): raise Lost("members not all assigned")
            return "(mkRBI %s)" % " ".join(a[k][1] for k in RBI_ORDER)
        if outparam: return acc[outparam].term()
        raise Lost("no return")
    def tr(stmts, env, acc):
        if not stmts: return finish(env, acc)
        st = stmts[0]; rest = stmts[1:]
        if st[0] == "if":
            c = parse_cond(st[1], env, this_ty, this_term)
            t1 = tr(st[2] + rest, dict(env), copy.deepcopy(acc))
            t2 = tr(st[3] + rest, dict(env), copy.deepcopy(acc))
            return "(if %s then\n    %s\n    else\n    %s)" % (c, t1, t2)
        toks = st[1]
        binds = []
        def bind(name, val):
            ty, t = val
            if ty in ("m43", "v4"): env[name] = val; return
            nm = "%s_%d" % (re.sub(r"\W", "", name), fresh[0]); fresh[0] += 1
            binds.append((nm, t)); env[name] = (ty, nm)
        def wrap(t):
            for nm, v in reversed(binds): t = "let %s := %s in\n    %s" % (nm, v, t)
            return t
        P = Parser(toks, env, this_ty, this_term)
        w = [x[1] for x in toks]
        if w[0] == "return":
            P.i = 1
            if len(toks) == 2 and w[1] in acc:
                a = acc[w[1]]
                if isinstance(a, M66Acc): result = ("m66", a.term())
                elif isinstance(a, dict): result = ("rbi", "(mkRBI %s)" % " ".join(a[k][1] for k in RBI_ORDER))
                else: raise Lost("return of accumulator")
            else:
                result = P.expr()
                if P.i != len(toks): raise Lost("trailing tokens after return")
            if result[0] != want: raise Lost("return type %s, expected %s" % (result[0], want))
            return result[1]
        if w[0] == "Math" and w[1] == "::": toks = toks[2:]; w = w[2:]; P = Parser(toks, env, this_ty, this_term)
        if w[0] in TYPES and len(w) >= 2 and toks[1][0] == "id":
            ty = TYPES[w[0]]; P.i = 1
            while True:
                name = P.next()[1]
                if P.peek() == "=":
                    P.i += 1; v = P.expr()
                    if v[0] != ty: raise Lost("decl %s: %s vs %s" % (name, ty, v[0]))
                    bind(name, v)
                elif P.peek() == "(":
                    if w[0] in CTORS: v = P.construct(w[0])
                    else: raise Lost("ctor decl of %s" % w[0])
                    bind(name, v)
                else:
                    if ty == "m66": acc[name] = M66Acc()
                    elif ty == "m43": acc[name] = [None] * 12
                    elif ty == "rbi": acc[name] = {}
                    else: env[name] = None
                if P.peek() == ",": P.i += 1; continue
                break
            if P.i != len(toks): raise Lost("trailing tokens in declaration")
            return wrap(tr(rest, env, acc))
        name = w[0]
        if name in acc and isinstance(acc[name], M66Acc):
            a = acc[name]
            if w[1] == "(":
                i, j = int(w[2]), int(w[4]); P.i = 7
                if w[6] != "=": raise Lost("m66 assign")
                v = P.expr()
                if v[0] != "sc": raise Lost("m66 elem type")
                a.set(i, j, v[1])
            elif w[1] == "." and w[2] == "block":
                k = w.index("(", 3); i, j = int(w[k + 1]), int(w[k + 3])
                if w[k + 5] != "=": raise Lost("block assign")
                P.i = k + 6; v = P.expr()
                if v[0] != "m3": raise Lost("block type")
                nm = "blk_%d" % fresh[0]; fresh[0] += 1; binds.append((nm, v[1]))
                a.setblock(i, j, nm)
            else: raise Lost("m66 statement")
            if P.i != len(toks): raise Lost("trailing tokens")
            return wrap(tr(rest, env, acc))
        if name in acc and isinstance(acc[name], list):
            i, j = int(w[2]), int(w[4]); P.i = 7; v = P.expr()
            acc[name][i * 3 + j] = v[1]
            if all(x is not None for x in acc[name]): env[name] = ("m43", acc[name])
            return tr(rest, env, acc)
        if name in acc and isinstance(acc[name], dict) and w[1] == ".":
            P.i = 4; v = P.expr(); acc[name][w[2]] = v; return tr(rest, env, acc)
        if this_ty == "rbi" and name in MEMBERS["rbi"] and ret_ty == "rbi_this":
            if w[1] == "=":
                P.i = 2; v = P.expr(); acc.setdefault("__this", {})[name] = v
            elif w[1] == "." and w[2] == "set":
                P.i = 3; a = P.args(); acc.setdefault("__this", {})[name] = ("v3", "(mkV3 %s)" % " ".join(x[1] for x in a))
            else: raise Lost("member statement")
            return tr(rest, env, acc)
        if name in env and w[1] == "=":
            P.i = 2; v = P.expr(); bind(name, v)
            if P.i != len(toks): raise Lost("trailing tokens")
            return wrap(tr(rest, env, acc))
        raise Lost("statement not understood: %s" % " ".join(w[:8]))
    acc0 = {}
    if outparam: acc0[outparam] = M66Acc()
    return tr(parse_stmts(tokenize(body)), dict(params), acc0)

# ---------------------------------------------------------------- function table
def find_body(src, pattern, start=0):
    m = re.compile(pattern, re.S).search(src, start)
    if not m: raise Lost("signature not found")
    i = src.index("{", m.end() - 1); depth = 0; j = i
    while True:
        if src[j] == "{": depth += 1
        elif src[j] == "}":
            depth -= 1
            if depth == 0: break
        j += 1
    return src[i + 1:j], m.start()

CTY = {"sc": "T", "v3": "V3 T", "m3": "M3 T", "sv": "SV", "m66": "M66", "quat": "Qt T", "st": "ST", "rbi": "RBI"}
CTYQ = dict(CTY)

# (coq name, file, class or None, regex of signature up to '{', params [(name, type)], this type, return type, outparam)
SPATIAL = [
 ("G_VectorCrossMatrix", None, r"inline\s+Matrix3d\s+VectorCrossMatrix\s*\(const Vector3d &vector\)\s*\{", [("vector", "v3")], None, "m3", None),
 ("G_rbi_mulv", "rbi", r"SpatialVector\s+operator\*\s*\(const SpatialVector &mv\)\s*\{", [("mv", "sv")], "rbi", "sv", None),
 ("G_rbi_add", "rbi", r"SpatialRigidBodyInertia\s+operator\+\s*\(const SpatialRigidBodyInertia &rbi\)\s*\{", [("rbi", "rbi")], "rbi", "rbi", None),
 ("G_rbi_createFromMatrix", "rbi", r"void\s+createFromMatrix\s*\(const SpatialMatrix &Ic\)\s*\{", [("Ic", "m66")], "rbi", "rbi_this", None),
 ("G_rbi_toMatrix", "rbi", r"SpatialMatrix\s+toMatrix\s*\(\)\s*const\s*\{", [], "rbi", "m66", None),
 ("G_rbi_setSpatialMatrix", "rbi", r"void\s+setSpatialMatrix\s*\(SpatialMatrix &mat\)\s*const\s*\{", [], "rbi", "m66", "mat"),
 ("G_rbi_createFromMassComInertiaC", None, r"static\s+SpatialRigidBodyInertia\s+createFromMassComInertiaC\s*\(Scalar mass, const Vector3d &com, const Matrix3d &inertia_C\)\s*\{",
      [("mass", "sc"), ("com", "v3"), ("inertia_C", "m3")], None, "rbi", None),
 ("G_st_apply", "st", r"SpatialVector\s+apply\s*\(const SpatialVector &v_sp\)\s*\{", [("v_sp", "sv")], "st", "sv", None),
 ("G_st_applyTranspose", "st", r"SpatialVector\s+applyTranspose\s*\(const SpatialVector &f_sp\)\s*\{", [("f_sp", "sv")], "st", "sv", None),
 ("G_st_apply_rbi", "st", r"SpatialRigidBodyInertia\s+apply\s*\(const SpatialRigidBodyInertia &rbi\)\s*\{", [("rbi", "rbi")], "st", "rbi", None),
 ("G_st_applyTranspose_rbi", "st", r"SpatialRigidBodyInertia\s+applyTranspose\s*\(const SpatialRigidBodyInertia &rbi\)\s*\{", [("rbi", "rbi")], "st", "rbi", None),
 ("G_st_applyAdjoint", "st", r"SpatialVector\s+applyAdjoint\s*\(const SpatialVector &f_sp\)\s*\{", [("f_sp", "sv")], "st", "sv", None),
 ("G_st_toMatrix", "st", r"SpatialMatrix\s+toMatrix\s*\(\)\s*const\s*\{", [], "st", "m66", None),
 ("G_st_toMatrixAdjoint", "st", r"SpatialMatrix\s+toMatrixAdjoint\s*\(\)\s*const\s*\{", [], "st", "m66", None),
 ("G_st_toMatrixTranspose", "st", r"SpatialMatrix\s+toMatrixTranspose\s*\(\)\s*const\s*\{", [], "st", "m66", None),
 ("G_st_inverse", "st", r"SpatialTransform\s+inverse\s*\(\)\s*const\s*\{", [], "st", "st", None),
 ("G_st_mul", "st", r"SpatialTransform\s+operator\*\s*\(const SpatialTransform &XT\)\s*const\s*\{", [("XT", "st")], "st", "st", None),
 ("G_Xrot", None, r"inline\s+SpatialTransform\s+Xrot\s*\(Scalar angle_rad, const Vector3d &axis\)\s*\{", [("angle_rad", "sc"), ("axis", "v3")], None, "st", None),
 ("G_Xrotx", None, r"inline\s+SpatialTransform\s+Xrotx\s*\(const Scalar &xrot\)\s*\{", [("xrot", "sc")], None, "st", None),
 ("G_Xroty", None, r"inline\s+SpatialTransform\s+Xroty\s*\(const Scalar &yrot\)\s*\{", [("yrot", "sc")], None, "st", None),
 ("G_Xrotz", None, r"inline\s+SpatialTransform\s+Xrotz\s*\(const Scalar &zrot\)\s*\{", [("zrot", "sc")], None, "st", None),
 ("G_Xtrans", None, r"inline\s+SpatialTransform\s+Xtrans\s*\(const Vector3d &r\)\s*\{", [("r", "v3")], None, "st", None),
 ("G_crossm_mat", None, r"inline\s+SpatialMatrix\s+crossm\s*\(const SpatialVector &v\)\s*\{", [("v", "sv")], None, "m66", None),
 ("G_crossm", None, r"inline\s+SpatialVector\s+crossm\s*\(const SpatialVector &v1, const SpatialVector &v2\)\s*\{", [("v1", "sv"), ("v2", "sv")], None, "sv", None),
 ("G_crossf_mat", None, r"inline\s+SpatialMatrix\s+crossf\s*\(const SpatialVector &v\)\s*\{", [("v", "sv")], None, "m66", None),
 ("G_crossf", None, r"inline\s+SpatialVector\s+crossf\s*\(const SpatialVector &v1, const SpatialVector &v2\)\s*\{", [("v1", "sv"), ("v2", "sv")], None, "sv", None),
]
QUAT = [
 ("G_quat_scale", "quat", r"Quaternion\s+operator\*\s*\(const double &s\)\s*const\s*\{", [("s", "sc")], "quat", "quat", None),
 ("G_quat_mul", "quat", r"Quaternion\s+operator\*\s*\(const Quaternion &q\)\s*const\s*\{", [("q", "quat")], "quat", "quat", None),
 ("G_quat_fromAxisAngle", None, r"static\s+Quaternion\s+fromAxisAngle\s*\(const Vector3d &axis, Scalar angle_rad\)\s*\{", [("axis", "v3"), ("angle_rad", "sc")], None, "quat", None),
 ("G_quat_fromMatrix", None, r"static\s+Quaternion\s+fromMatrix\s*\(const Matrix3d &mat\)\s*\{", [("mat", "m3")], None, "quat", None),
 ("G_quat_toMatrix", "quat", r"Matrix3d\s+toMatrix\s*\(\)\s*const\s*\{", [], "quat", "m3", None),
 ("G_quat_conjugate", "quat", r"Quaternion\s+conjugate\s*\(\)\s*const\s*\{", [], "quat", "quat", None),
 ("G_quat_rotate", "quat", r"Vector3d\s+rotate\s*\(const Vector3d &vec\)\s*const\s*\{", [("vec", "v3")], "quat", "v3", None),
 ("G_quat_omegaToQDot", "quat", r"Vector4d\s+omegaToQDot\s*\(const Vector3d& omega\)\s*const\s*\{", [("omega", "v3")], "quat", "quat", None),
]

HEADER = """(* GENERATED by tools/translate.py from %s -- do not edit, never committed *)
From Coq Require Import List Bool.
From RV Require Import Scalar LinAlg3 Spatial Quat.
Section Gen.
  Context {T : Type} (O : Ops T).
  Local Notation "0" := (o0 O). Local Notation "1" := (o1 O).
  Local Notation SV := (SV T). Local Notation ST := (ST T). Local Notation RBI := (RBI T). Local Notation M66 := (M66 T).
"""

def gen(table, path, srcfile, structs):
    src = strip_comments(open(srcfile).read())
    out = [HEADER % os.path.relpath(srcfile, REPO)]; lost = []; done = []
    for (name, cls, sig, params, this_ty, ret, outp) in table:
        try:
            start = 0
            if cls in structs: start = re.search(structs[cls], src).start()
            body, _ = find_body(src, sig, start)
            penv = {p: (ty, p) for p, ty in params}
            term = translate_body(body, penv, this_ty, "this" if this_ty else None, ret, outp)
            rt = "rbi" if ret == "rbi_this" else ret
            binders = ""
            if this_ty: binders += " (this : %s)" % CTY[this_ty]
            for p, ty in params: binders += " (%s : %s)" % (p, CTY[ty])
            out.append("  Definition %s%s : %s :=\n    %s.\n" % (name, binders, CTY[rt], term))
            done.append(name)
        except (Lost, SyntaxError, ValueError, IndexError, KeyError, TypeError) as e:
            lost.append({"function": name, "reason": "%s: %s" % (type(e).__name__, e)})
    out.append("End Gen.\n")
    os.makedirs(os.path.dirname(path), exist_ok=True)
    open(path, "w").write("\n".join(out))
    return done, lost

def main():
    outdir = sys.argv[1] if len(sys.argv) > 1 else "/verif/coq/Gen"
    structs = {"rbi": r"struct\s+RBDL_DLLAPI\s+SpatialRigidBodyInertia\s*\{", "st": r"struct\s+RBDL_DLLAPI\s+SpatialTransform\s*\{",
               "quat": r"class\s+Quaternion\s*:"}
    d1, l1 = gen(SPATIAL, os.path.join(outdir, "GenSpatial.v"), os.path.join(REPO, "include/rbdl/SpatialAlgebraOperators.h"), structs)
    d2, l2 = gen(QUAT, os.path.join(outdir, "GenQuat.v"), os.path.join(REPO, "include/rbdl/Quaternion.h"), structs)
    rep = {"translated": d1 + d2, "lost": l1 + l2}
    json.dump(rep, open(os.path.join(outdir, "translate_report.json"), "w"), indent=1)
    for l in rep["lost"]: print("translator lost %s (%s)" % (l["function"], l["reason"]), file=sys.stderr)
    print("translated %d functions, lost %d" % (len(rep["translated"]), len(rep["lost"])))

if __name__ == "__main__":
    main()
