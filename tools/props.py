"""Per-property configuration of tools/check.py."""
L1_SPATIAL = ["G_st_apply", "G_st_applyTranspose", "G_st_applyAdjoint", "G_st_inverse", "G_st_mul", "G_crossm", "G_crossf",
              "G_rbi_mulv", "G_rbi_add", "G_st_applyTranspose_rbi", "G_rbi_createFromMassComInertiaC"]
ALL_BRIDGE = ["G_VectorCrossMatrix", "G_rbi_mulv", "G_rbi_add", "G_rbi_createFromMatrix", "G_rbi_toMatrix", "G_rbi_setSpatialMatrix",
              "G_rbi_createFromMassComInertiaC", "G_st_apply", "G_st_applyTranspose", "G_st_apply_rbi", "G_st_applyTranspose_rbi",
              "G_st_applyAdjoint", "G_st_toMatrix", "G_st_toMatrixAdjoint", "G_st_toMatrixTranspose", "G_st_inverse", "G_st_mul",
              "G_Xrot", "G_Xrotx", "G_Xroty", "G_Xrotz", "G_Xtrans", "G_crossm_mat", "G_crossm", "G_crossf_mat", "G_crossf",
              "G_quat_scale", "G_quat_mul", "G_quat_toMatrix", "G_quat_conjugate", "G_quat_rotate", "G_quat_omegaToQDot",
              "G_quat_fromAxisAngle", "G_quat_fromMatrix"]
def P(profile, coq, nq, nt, bridge=(), **kw):
    d = dict(profile=profile, coq=coq, n_quick=nq, n_thorough=nt, bridge=list(bridge)); d.update(kw); return d
PROPS = {
 "C01": P("C01", ["Properties_C01.v"], 120, 1500, L1_SPATIAL + ["G_Xrot", "G_Xtrans", "G_quat_toMatrix", "G_st_toMatrixAdjoint"]),
 "C02": P("C02", ["Properties_C02.v"], 120, 1200, L1_SPATIAL + ["G_st_toMatrix", "G_st_toMatrixTranspose", "G_rbi_setSpatialMatrix"]),
 "C03": P("C03", ["Properties_C03.v"], 120, 1200, L1_SPATIAL),
 "C04": P("C04", ["Properties_C04.v"], 150, 2000, ["G_st_mul", "G_Xrot", "G_Xtrans", "G_quat_toMatrix", "G_st_inverse"]),
 "C05": P("C05", ["Properties_C05.v"], 150, 1500, ["G_st_apply", "G_st_inverse", "G_st_mul", "G_st_toMatrix"]),
 "C06": P("C06", ["Properties_C06.v"], 150, 1500, ["G_st_apply", "G_crossm", "G_st_mul"]),
 "C07": P("C07", ["Properties_C07.v"], 150, 1500, ["G_st_mul", "G_st_apply", "G_Xrotx", "G_Xroty", "G_Xrotz", "G_Xtrans"], twin_tol=1e-8),
 "C08": P("C08", ["Properties_C08.v"], 150, 1500, ["G_st_apply", "G_st_applyAdjoint", "G_crossm"]),
 "C09": P("C09", ["Properties_C09.v"], 150, 1500, ["G_st_apply", "G_crossm", "G_st_mul"]),
 "C10": P("C10", ["Properties_C10.v"], 150, 1500, ["G_st_apply"]),
 "C11": P("C11", ["Properties_C11.v"], 150, 1500, ["G_st_apply", "G_st_applyAdjoint", "G_crossm"]),
 "C12": P("C12", ["Properties_C12.v"], 120, 1200, ["G_st_applyTranspose", "G_st_applyTranspose_rbi", "G_st_applyAdjoint", "G_rbi_mulv", "G_rbi_add", "G_crossf", "G_Xtrans", "G_st_inverse"]),
 "C13": P("C13", ["Properties_C13.v"], 120, 1200, []),
 "C14": P("C14", ["Properties_C14.v"], 200, 3000, ["G_rbi_createFromMassComInertiaC", "G_st_mul"], unchanged_on_reject=True),
 "C15": P("C15", ["Properties_C15.v"], 150, 2000, ["G_rbi_createFromMassComInertiaC", "G_rbi_toMatrix", "G_VectorCrossMatrix"]),
 "C16": P("C16", ["Properties_C16.v"], 150, 3000, ALL_BRIDGE),
 "C17": P("C17", ["Properties_C17.v"], 150, 1200, ["G_quat_omegaToQDot", "G_st_apply", "G_st_mul"],
          skip_labels=("ikq_full", "ikok_full", "ikerr_full", "iksteps_full", "asmq_full", "asmok_full")),
 "C18": P("C18", ["Properties_C18.v"], 200, 2000, [],
          skip_labels=("curve", "nseg", "xcp", "ycp", "xcp_raw", "ycp_raw", "dom", "cinv", "tm_tau", "tm_act", "tm_mult", "tm_partials", "tm_fd"),
          rule="cases from tools/gen_cases.py profile C18; distinct = distinct (curve factory, routine multiset) signatures"),
 "C19": P("C19", ["Properties_C19.v"], 150, 1500, [], skip_labels=("luaload",), twin_tol=0.0, oracle_skip=("G", "gamma", "errd", "err"),
          rule="cases from tools/gen_cases.py profile C19: each case builds one mechanism through the API and from a generated Lua file"),
 "C20": P("C20", ["Properties_C20.v"], 120, 1000, [], twin_tol=0.0, extra="threads",
          oracle_skip=("G", "gamma", "errd", "err", "fdc_motion", "fdc_constraint_acc"),
          rule="cases from tools/gen_cases.py profile C20: 2-3 independent instances used interleaved and alone; plus thread-sanitizer stress runs"),
}
