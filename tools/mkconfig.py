#!/usr/bin/env python3
"""rbdl_config.h from the cmake template of /repo (what cmake's configure_file would produce
for a build with the luamodel, geometry and muscle addons)."""
import re, sys
src, dst = sys.argv[1], sys.argv[2]
on = {"RBDL_BUILD_ADDON_LUAMODEL", "RBDL_BUILD_ADDON_MUSCLE"}
vals = {"RBDL_VERSION_MAJOR": "3", "RBDL_VERSION_MINOR": "3", "RBDL_VERSION_PATCH": "1", "RBDL_SO_VERSION": "3.3.1",
        "RBDL_BUILD_COMMIT": "verif", "RBDL_BUILD_TYPE": "verif", "RBDL_BUILD_BRANCH": "verif",
        "RBDL_BUILD_COMPILER_ID": "GNU", "RBDL_BUILD_COMPILER_VERSION": "12"}
out = []
for line in open(src):
    m = re.match(r"#cmakedefine\s+(\w+)(.*)", line)
    if m:
        name, rest = m.group(1), m.group(2)
        if rest.strip():
            rest = re.sub(r"@(\w+)@", lambda k: vals.get(k.group(1), "unknown"), rest)
            out.append("#define %s%s\n" % (name, rest))
        elif name in on: out.append("#define %s\n" % name)
        else: out.append("/* #undef %s */\n" % name)
    else:
        out.append(re.sub(r"@(\w+)@", lambda k: vals.get(k.group(1), "0"), line))
open(dst, "w").write("".join(out))
