#!/bin/bash
# One-time build after a fresh restore (offline): Coq development (full .vo build), translator output,
# extraction, OCaml driver, rbdl + C++ driver from /repo's working tree.
set -e
cd /verif
mkdir -p build work evidence replays
python3 tools/translate.py coq/Gen
cd coq
coq_makefile -f _CoqProject -o Makefile > /dev/null
timeout 7000 make -j16 > ../build/coq.log 2>&1 || { tail -30 ../build/coq.log; echo "setup: Coq build failed"; exit 1; }
cd ..
tools/build.sh
echo "setup ok"
