#!/bin/bash
# Incremental build of everything a check needs, from /repo's current working tree:
#   rbdl + C++ driver (harness/Makefile), generated Coq files, Coq development, extraction, OCaml driver.
# Serialised with a lock so concurrent checks do not race.
set -e
cd /verif
mkdir -p build work
exec 9>build/.lock
flock 9
python3 tools/translate.py coq/Gen > build/translate.log 2>&1 || true
make -s -C harness -j16 > build/harness.log 2>&1 || { echo "BUILD-FAILED harness (see build/harness.log)"; tail -20 build/harness.log; exit 3; }
cd coq
if [ ! -f Makefile ] || [ _CoqProject -nt Makefile ]; then coq_makefile -f _CoqProject -o Makefile > /dev/null; fi
# -k: a broken proof must not stop the model files from being compiled
timeout 3000 make -k -j16 > ../build/coq.log 2>&1 || true
cd ../ocaml
if [ ../coq/Extract.v -nt model.ml ] || [ ! -f model.ml ] || [ -n "$(find ../coq -name '*Def.vo' -newer model.ml 2>/dev/null | head -1)" ]; then
  coqc -Q ../coq RV ../coq/Extract.v > ../build/extract.log 2>&1 || { echo "BUILD-FAILED extraction"; tail -20 ../build/extract.log; exit 3; }
fi
if [ ! -x ../build/model_driver ] || [ model.ml -nt ../build/model_driver ] || [ driver.ml -nt ../build/model_driver ] || [ -n "$(find . -name '*.ml' -newer ../build/model_driver | head -1)" ]; then
  ocamlfind ocamlopt -w -a -I . -o ../build/model_driver model.mli model.ml driver.ml $(ls ext_*.ml 2>/dev/null) main.ml > ../build/ocaml.log 2>&1 || { echo "BUILD-FAILED ocaml driver"; tail -20 ../build/ocaml.log; exit 3; }
fi
echo "build ok"
