#!/usr/bin/env python3
"""Writes /verif/MANIFEST.json from the table below (one entry per claimed property)."""
import json
TB = ("Trusted: Coq 8.16.1 kernel (coqchk in the thorough tier); tools/translate.py (L1 functions); extraction (ExtrOcamlBasic only) + "
      "ocaml/driver.ml float dictionary; harness/rbdl_driver.cc; tools/compare.py tolerances; IEEE doubles approximate the field laws "
      "within those tolerances (no rounding theorem). ")
E = {}
E["C01"] = dict(
 text="Theorems (closed under the global context, any field) about the workspace-passing Gallina model of InverseDynamics (DynDef.inverse_dynamics, tied to src/Dynamics.cc by differential runs): (1) for any workspace satisfying the construction invariant the outward pass leaves v_i = X_i v_parent + S_i qd_i, a_i = X_i a_parent + c_i + S_i qdd_i, f_i = I_i a_i + v_i x* I_i v_i with X_i, S_i the declared joint transform / motion subspace (loop invariant over the body list); (2) every joint's force is S_i^T Y_i with Y the subtree force (inward-sweep lemma, arbitrary topology and joint arities incl. custom); (3) d'Alembert in virtual-power form: for every virtual joint velocity qd', sum_i qd'_i.tau_i = sum_j v'_j.f_j (summation by parts over the tree from the apply/applyTranspose duality). Oracle: tau against the L3 specification (3-D Newton-Euler in the inertial frame, partial velocities by 2-jets of the pose composed from the construction calls; no spatial algebra).",
 note=TB + "The theorems are for f_ext = NULL; external forces are covered by correspondence and oracle only. That the spatial net force f_j is the classical (F, N) pair and that v' is the partial velocity of the pose is the oracle's job until the C06 derivative theorems are finished. The construction invariant on the workspace (Good) is a hypothesis, preserved by every modelled step (proved for jcalc) and respected by the scramble patterns.",
 tech="Coq proof: loop invariants (outward/inward sweep) + virtual-power theorem over an abstract tree; differential testing + independent L3 oracle for the tie")
E["C04"] = dict(
 text="Theorems (closed under the global context, any field with cos^2+sin^2=1): what jcalc writes into X_lambda is the declared joint transform (elementary rotations in the declared order; the four hand-expanded Euler matrices equal the products of three axis rotations) composed with the joint frame, for any workspace; by induction over the body list (parents precede children, C14) the position update leaves X_base[i] = (R_i^T, p_i) with (R_i, p_i) the pose composed from the base outward; body-to-base of movable and fixed ids is p + R pt; the orientation is a rotation matrix when axes/quaternions are unit and joint frames orthonormal; base-to-body inverts body-to-base; the result is independent of the incoming workspace. Correspondence: C++ driver vs extracted model on generated trees (all joint kinds, fixed-on-fixed/base); oracle: the L3 pose built directly from the construction calls.",
 note=TB + "The model-level pose is tied to the construction calls (emulated joints, floating base, fixed-body merging) by the oracle and correspondence, not by a theorem; base-to-body for fixed ids is checked by the oracle only.",
 tech="Coq proof: loop invariant by induction over the kinematic tree + per-joint algebraic lemmas (ring/nsatz); differential testing for the tie")
E["C13"] = dict(
 text="Theorems (closed under the global context) of the form forall ws1 ws2, Inv ws1 -> Inv ws2 -> out (R M ws1 a) = out (R M ws2 a) about the workspace-explicit model: jcalc's frame (fields it never writes, writes only at its own index), the values it writes are functions of model and state, the construction invariant is preserved; hence the position update, the 6-D point velocity (flag set) and every joint force of InverseDynamics are independent of the incoming workspace. All other public routines are decided by correspondence on poisoned workspaces (scramble patterns that respect the invariant, and random call histories) and by the documented-preceding-update pairs (flag cleared after the documented update must reproduce the flag-set result).",
 note=TB + "Closed theorems cover jcalc, UpdateKinematicsCustom(Q), (Q,QDot), point velocity and InverseDynamics (f_ext = NULL); the remaining routines (accelerations, CRBA, ABA, utilities, constraints) are covered by the differential history tests only. The invariant Good is assumed for the initial workspace (established by construction: checked at run time, not yet proved).",
 tech="Coq proof: workspace-independence via frame lemmas and loop invariants; differential testing with poisoned workspaces and random histories")
E["C14"] = dict(
 text="Theorems (Coq, closed under the global context) about the Gallina construction state machine ModelDef.add_body: a rejected addition returns the model unchanged; one addition preserves the well-formedness record WF; every sequence of AddBody/AppendBody calls from the empty model yields a WF model (induction over the op list). The model is tied to src/Model.cc by differential runs of generated op sequences (a rejected call injected at a random position, model dumped before and after every step) on the C++ driver built from /repo and the extracted model.",
 note=TB + "WF covers array lengths, parent order, q-index contiguity, dof/q/qdot sizes, fixed-body parents, lambda_q length, joint kinds; names<->ids, joint-frame queries and the w-index placement are checked by correspondence and the executable dump only. Parent ids are assumed valid and the number of bodies below 2^31-7 (the library has no check for the former).",
 tech="Coq proof: invariant by induction over construction sequences + rejection frame lemma; correspondence by differential testing")
E["C15"] = dict(
 text="Theorems over any field (FieldLaws, closed under the global context): Body::Join (ModelDef.body_join, the code's formula with VectorCrossMatrix products) equals the first-principles rigid union SpecDef.spec_union (mass, CoM, centroidal inertia by the parallel-axis theorem) for every orthonormal E and every r; Separate(Join(a,b),b) = a; with a massless remainder the left-over inertia is restored. Setter-vs-rebuild is decided by the L3 oracle: after setter calls the dynamics of the implementation must equal the specification built from scratch with the new parameters.",
 note=TB + "The setter clause has no closed theorem yet (it is the composition Separate-then-Join proved above plus UpdateInertiaMatrixForBody, checked by correspondence/oracle). Inertia matrices are assumed symmetric.",
 tech="Coq proof (field tactic) of Join/Separate laws + differential testing against the extracted model and the L3 oracle")
E["C16"] = dict(
 text="26 theorems about the GENERATED Gallina definitions that tools/translate.py re-derives from SpatialAlgebraOperators.h and Quaternion.h on every run (bridge lemmas G_f = hand model re-checked each run): compact apply/applyTranspose/applyAdjoint/inverse = 6x6 matrix definitions, inertia transforms X* I X^-1 and X^T I X as 6x6 products, associativity/identity/inverse of composition, crossf = -crossm^T, power invariance, quaternion product <-> matrix product, toMatrix of a unit quaternion is a rotation, rate map tangent and reproducing omega. All closed under the global context, for every input (ring/nsatz over an abstract field).",
 note=TB + "fromMatrix(toMatrix q) = +-q is proved for the header formula away from w = 0 (QuatLaws.fromMatrix_toMatrix_hdr); the four-branch conversion after the fix is tied by its bridge lemma and differential runs incl. exact half-turns; LinSolveGaussElimPivot is modelled and compared, not proved.",
 tech="Coq proof over a translator-generated model (re-generated from the headers on every run)")
checks = []
for pid in sorted(E):
    e = E[pid]
    checks.append({"property_id": pid, "quick_cmd": "python3 tools/check.py %s --tier quick" % pid,
        "thorough_cmd": "python3 tools/check.py %s --tier thorough" % pid,
        "evidence_file": "/verif/evidence/%s.json" % pid,
        "replay_cmd_template": "python3 tools/check.py %s --replay {path}" % pid,
        "engine": "coq-model+correspondence",
        "level_claimed": {"category": "proof", "text": e["text"], "design_ref": "DESIGN.md section 5 (%s)" % pid},
        "level_note": e["note"], "technique": e["tech"]})
ALL = ["C%02d" % k for k in range(1, 21)]
NA_REASON = "no check registered yet in this round: the model, theorems and drivers for this property are under construction (see DESIGN.md section 9 for the state); it is intended to be decided with the same technique"
man = {"version": 1, "setup_cmd": "tools/setup.sh",
  "hooks": {"guard": "RBDL_VERIF", "enable": "harness/Makefile compiles /repo/src/*.cc and the addons with -DRBDL_VERIF; no hook code is needed in /repo (all observables are public members), so no source commit carries the guard",
            "baseline_off_cmd": "cmake --build /repo/_build && /repo/_build/tests/rbdl_tests", "source_commits": [], "add_only": True},
  "engines": [{"name": "coq-model+correspondence", "path": "/verif/coq", "serves_properties": [c["property_id"] for c in checks],
               "kind_free_text": "Coq 8.16 development (polymorphic Gallina model over a scalar dictionary, theorems over abstract field laws), header translator, extraction to OCaml, C++/OCaml differential drivers, first-principles L3 oracle"}],
  "checks": checks,
  "notes": "See DESIGN.md. Checks rebuild rbdl and the drivers from /repo's working tree (tools/build.sh, incremental).",
  "not_applicable": [{"property_id": p, "reason": NA_REASON} for p in ALL if p not in E]}
json.dump(man, open('/verif/MANIFEST.json', 'w'), indent=1)
print("manifest:", [c["property_id"] for c in checks])
