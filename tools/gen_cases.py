#!/usr/bin/env python3
"""Case generator for the correspondence / oracle harness.  One PRNG
(random.Random(seed)); every choice derives from it.  Usage:
   gen_cases.py <profile> <seed> <ncases> <outfile>   (also importable)
Prints the input distribution as JSON on stdout."""
import sys, json, random
from fractions import Fraction as Fr

def fl(x):
    return repr(float(x))

class Gen:
    def __init__(self, seed, profile="core"):
        self.r = random.Random(seed); self.profile = profile
        self.stats = {"joint_kinds": {}, "root_kinds": {}, "fixed_class": {}, "topology": {}, "calls": {}, "bodies_hist": {}, "rejected_ops": {}}
    def count(self, table, key):
        t = self.stats[table]; t[key] = t.get(key, 0) + 1
    # ---- numbers
    def dy(self, lo, hi):
        """dyadic rational, multiple of 2^-10"""
        a, b = int(lo * 1024), int(hi * 1024)
        return Fr(self.r.randint(a, b), 1024)
    def rot(self):
        """exactly orthonormal rational rotation from a small-integer quaternion (x,y,z,w) -> rbdl E matrix"""
        r = self.r
        if r.random() < 0.15: return [[Fr(1), Fr(0), Fr(0)], [Fr(0), Fr(1), Fr(0)], [Fr(0), Fr(0), Fr(1)]]
        while True:
            x, y, z, w = [r.randint(-3, 3) for _ in range(4)]
            n = x * x + y * y + z * z + w * w
            if n: break
        x, y, z, w = [Fr(v) for v in (x, y, z, w)]
        n = Fr(n)
        return [[1 - 2 * (y * y + z * z) / n, 2 * (x * y + w * z) / n, 2 * (x * z - w * y) / n],
                [2 * (x * y - w * z) / n, 1 - 2 * (x * x + z * z) / n, 2 * (y * z + w * x) / n],
                [2 * (x * z + w * y) / n, 2 * (y * z - w * x) / n, 1 - 2 * (x * x + y * y) / n]]
    AXES = [((1, 0, 0), 1), ((0, 1, 0), 1), ((0, 0, 1), 1), ((2, 3, 6), 7), ((1, 2, 2), 3), ((3, 4, 0), 5), ((4, 4, 7), 9), ((2, 6, 9), 11), ((0, 3, 4), 5)]
    def axis(self, general=True):
        r = self.r
        (a, d) = r.choice(self.AXES if general else self.AXES[:3])
        a = list(a); r.shuffle(a)
        a = [Fr(v * r.choice((1, -1)), d) for v in a]
        return a
    def unit_quat(self):
        r = self.r
        while True:
            q = [r.randint(-4, 4) for _ in range(4)]
            n2 = sum(v * v for v in q)
            if n2: break
        n = float(n2) ** 0.5
        return [v / n for v in q]
    # ---- bodies
    def body(self, massless=False):
        if massless: return dict(m=Fr(0), c=[Fr(0)] * 3, I=[[Fr(0)] * 3 for _ in range(3)])
        m = self.dy(0.5, 3); c = [self.dy(-0.5, 0.5) for _ in range(3)]
        d = [self.dy(0.3, 2) for _ in range(3)]; o = [self.dy(-0.1, 0.1) for _ in range(3)]
        I = [[d[0], o[0], o[1]], [o[0], d[1], o[2]], [o[1], o[2], d[2]]]
        return dict(m=m, c=c, I=I)
    JOINTS = ["revx", "revy", "revz", "rev", "pris", "axis_hel", "axis_rot", "axis_tr", "sph", "ezyx", "exyz", "eyxz", "ezxy", "txyz",
              "float", "emu", "crevx", "cezyx", "crztx", "fixed"]
    def joint(self, kind):
        """returns (text, dof, list of coordinate kinds: 'a' angle, 'e' euler-middle, 't' translation, 's' spherical-xyz)"""
        r = self.r
        f6 = lambda v: " ".join(fl(x) for x in v)
        if kind in ("revx", "revy", "revz"): return kind, ["a"]
        if kind == "rev": return "rev " + f6(self.axis()), ["a"]
        if kind == "pris": return "pris " + f6(self.axis()), ["t"]
        if kind == "axis_rot": return "axis " + f6(self.axis() + [Fr(0)] * 3), ["a"]
        if kind == "axis_tr": return "axis " + f6([Fr(0)] * 3 + self.axis()), ["t"]
        if kind == "axis_hel":
            a = self.axis()
            h = [v * Fr(1, 4) for v in a] if r.random() < 0.5 else [v * Fr(1, 2) for v in self.axis()]
            return "axis " + f6(a + h), ["a"]
        if kind == "sph": return "sph", ["s", "s", "s"]
        if kind in ("ezyx", "exyz", "eyxz", "ezxy", "cezyx"): return kind, ["a", "e", "a"]
        if kind == "txyz": return "txyz", ["t", "t", "t"]
        if kind == "float": return "float", ["t", "t", "t", "s", "s", "s"]
        if kind == "crevx": return "crevx", ["a"]
        if kind == "crztx": return "crztx", ["a", "t"]
        if kind == "fixed": return "fixed", []
        if kind == "emu":
            k = r.randint(2, 6)
            # at most three rotations and three translations, each set mutually orthogonal (non-singular H);
            # the triples are the columns of an exactly orthonormal rational rotation
            Rr = self.rot() if r.random() < 0.5 else [[Fr(1), Fr(0), Fr(0)], [Fr(0), Fr(1), Fr(0)], [Fr(0), Fr(0), Fr(1)]]
            Rt = self.rot() if r.random() < 0.5 else [[Fr(1), Fr(0), Fr(0)], [Fr(0), Fr(1), Fr(0)], [Fr(0), Fr(0), Fr(1)]]
            rots = [[Rr[0][c], Rr[1][c], Rr[2][c]] for c in range(3)]; r.shuffle(rots)
            trs = [[Rt[0][c], Rt[1][c], Rt[2][c]] for c in range(3)]; r.shuffle(trs)
            nrot = r.randint(max(0, k - 3), min(3, k)); ntr = k - nrot
            slots = ["a"] * nrot + ["t"] * ntr; r.shuffle(slots)
            axes = []; kinds = []; seen_rot = 0
            for sl in slots:
                if sl == "a":
                    axes.append(rots.pop() + [Fr(0)] * 3); seen_rot += 1
                    kinds.append("e" if (nrot == 3 and seen_rot == 2) else "a")
                else:
                    axes.append([Fr(0)] * 3 + trs.pop()); kinds.append("t")
            return "emu %d " % k + " ".join(f6(a) for a in axes), kinds
        raise ValueError(kind)
    # ---- a model
    def model(self, nmin=1, nmax=6, allow_fixed=True, allow_custom=True, named=True, kinds=None):
        r = self.r; lines = []
        g = [self.dy(-10, 10) for _ in range(3)] if r.random() < 0.8 else [Fr(0), Fr(-981, 100), Fr(0)]
        lines.append("gravity " + " ".join(fl(x) for x in g))
        n = r.randint(nmin, nmax)
        ops = []          # dict(kind, parent, movable, coords, is_fixed, ref)
        coords = []       # coordinate kinds in q order
        sph = []          # q_index of spherical joints
        topo = r.choice(["chain", "star", "tree"])
        self.count("topology", topo)
        pool = kinds or self.JOINTS
        name_ctr = 2
        for k in range(n):
            kind = r.choice(pool)
            if kind == "fixed" and not allow_fixed: kind = "revz"
            if kind.startswith("c") and kind in ("crevx", "cezyx", "crztx") and not allow_custom: kind = "revx"
            if k == 0 or topo == "star": parent = "base" if (k == 0 or r.random() < 0.7) else str(r.randrange(k))
            elif topo == "chain": parent = str(k - 1) if r.random() < 0.9 else "prev"
            else: parent = "base" if r.random() < 0.15 else str(r.randrange(k))
            jt, ck = self.joint(kind)
            massless = (kind != "fixed" and r.random() < 0.08 and k < n - 1)
            b = self.body(massless)
            E = self.rot(); rr = [self.dy(-1, 1) for _ in range(3)]
            nm = 0
            if named and r.random() < 0.5: nm = name_ctr; name_ctr += 1
            line = "add %s %d E %s r %s body %s %s %s 0 joint %s" % (
                parent, nm, " ".join(fl(x) for row in E for x in row), " ".join(fl(x) for x in rr),
                fl(b["m"]), " ".join(fl(x) for x in b["c"]), " ".join(fl(x) for row in b["I"] for x in row), jt)
            lines.append(line)
            qi = len(coords)
            for j, c in enumerate(ck):
                if c == "s" and (j == 0 or ck[j - 1] != "s"): sph.append(qi + j)
            coords += ck
            ops.append(dict(kind=kind, parent=parent, dof=len(ck), massless=massless, fixed=(kind == "fixed"), q=qi))
            self.count("joint_kinds", kind)
            if parent == "base": self.count("root_kinds", kind)
            if kind == "fixed":
                pc = "on_base" if parent == "base" else ("on_fixed" if parent not in ("prev",) and parent.isdigit() and ops[int(parent)]["fixed"] else "on_movable")
                self.count("fixed_class", pc)
        self.count("bodies_hist", str(n))
        # make sure every leaf subtree carries mass: a massless body needs a massive descendant; cheap repair: append one
        for k, o in enumerate(ops):
            if o["massless"] and not any(p["parent"] == str(k) and not p["massless"] and not p["fixed"] for p in ops):
                b = self.body(); jt, ck = self.joint("revy")
                lines.append("add %d 0 E 1 0 0 0 1 0 0 0 1 r %s body %s %s %s 0 joint %s" % (
                    k, " ".join(fl(self.dy(-0.5, 0.5)) for _ in range(3)), fl(b["m"]), " ".join(fl(x) for x in b["c"]),
                    " ".join(fl(x) for row in b["I"] for x in row), jt))
                ops.append(dict(kind="revy", parent=str(k), dof=1, massless=False, fixed=False, q=len(coords))); coords += ck
                self.count("joint_kinds", "revy")
        return lines, ops, coords, sph
    # ---- states
    def state(self, coords, sph):
        r = self.r
        ndof = len(coords)
        q = [0.0] * (ndof + len(sph))
        for i, c in enumerate(coords):
            if c == "a": q[i] = float(self.dy(-2, 2))
            elif c == "e": q[i] = float(self.dy(-1.1, 1.1))
            elif c == "t": q[i] = float(self.dy(-1, 1))
        for o, qi in enumerate(sph):
            x, y, z, w = self.unit_quat()
            q[qi], q[qi + 1], q[qi + 2], q[ndof + o] = x, y, z, w
        zero_v = r.random() < 0.05
        qd = [0.0 if zero_v else float(self.dy(-2, 2)) for _ in range(ndof)]
        qdd = [float(self.dy(-3, 3)) for _ in range(ndof)]
        tau = [float(self.dy(-4, 4)) for _ in range(ndof)]
        return q, qd, qdd, tau
    def vec(self, v): return "%d %s" % (len(v), " ".join(repr(float(x)) for x in v)) if len(v) else "0"
    def fext(self, ops, nbodies_hint=None):
        """external forces on non-virtual movable bodies; needs the rbdl body count -> computed from ops"""
        r = self.r
        # rbdl movable body count: 1 (root) + per op: fixed 0; float 2; emu k; else 1
        ids = []; nb = 1
        for o in ops:
            if o["fixed"]: ids.append(None); continue
            extra = 2 if o["kind"] == "float" else (o["dof"] if o["kind"] == "emu" else 1)
            nb += extra; ids.append(nb - 1)
        if r.random() < 0.4: return "F 0"
        vals = [[0.0] * 6 for _ in range(nb)]
        for i in ids:
            if i is not None and r.random() < 0.6: vals[i] = [float(self.dy(-3, 3)) for _ in range(6)]
        return "F %d %s" % (nb, " ".join(repr(x) for v in vals for x in v))
    def pt(self): return " ".join(fl(self.dy(-1, 1)) for _ in range(3))

    def calls_core(self, ops, coords, sph, ncalls=10, routines=None, flags_off=True):
        r = self.r; out = []
        refs = [str(k) for k in range(len(ops))]
        allr = routines or ["b2b", "base2b", "orient", "jac", "jac6", "sjac", "pvel", "pvel6", "pacc", "pacc6", "updkin", "updkinc",
                            "id", "nle", "crba", "fd", "fdl", "minv", "com", "zmp", "ke", "pe", "scramble"]
        ndof = len(coords)
        for _ in range(ncalls):
            rt = r.choice(allr); self.count("calls", rt)
            q, qd, qdd, tau = self.state(coords, sph)
            Q, QD, QDD, TAU = self.vec(q), self.vec(qd), self.vec(qdd), self.vec(tau)
            ref = r.choice(refs + (["base"] if r.random() < 0.1 else []))
            if rt in ("b2b", "base2b"): out.append("%s %s %s 1 %s" % (rt, ref, self.pt(), Q))
            elif rt == "orient": out.append("orient %s 1 %s" % (ref, Q))
            elif rt in ("jac", "jac6"): out.append("%s %s %s 1 %s" % (rt, ref, self.pt(), Q))
            elif rt == "sjac": out.append("sjac %s 1 %s" % (ref, Q))
            elif rt in ("pvel", "pvel6"): out.append("%s %s %s 1 %s %s" % (rt, ref, self.pt(), Q, QD))
            elif rt in ("pacc", "pacc6"): out.append("%s %s %s 1 %s %s %s" % (rt, ref, self.pt(), Q, QD, QDD))
            elif rt == "updkin": out.append("updkin %s %s %s" % (Q, QD, QDD))
            elif rt == "updkinc": out.append("updkinc %d %s %s %s" % (r.choice([1, 3, 7]), Q, QD, QDD))
            elif rt == "id": out.append("id %s %s %s %s" % (Q, QD, QDD, self.fext(ops)))
            elif rt == "nle": out.append("nle %s %s %s" % (Q, QD, self.fext(ops)))
            elif rt == "crba": out.append("crba 1 %s" % Q)
            elif rt == "fd": out.append("fd %s %s %s %s" % (Q, QD, TAU, self.fext(ops)))
            elif rt == "fdl": out.append("fdl %d %s %s %s %s" % (r.randint(1, 4), Q, QD, TAU, self.fext(ops)))
            elif rt == "minv": out.append("minv 1 %s %s" % (Q, TAU))
            elif rt == "com": out.append("com 1 %s %s %s" % (Q, QD, ("1 " + QDD) if r.random() < 0.7 else "0"))
            elif rt == "zmp":
                n = [float(x) for x in self.axis()]
                out.append("zmp 1 %s %s %s %s %s" % (Q, QD, QDD, " ".join(repr(x) for x in n), self.pt()))
            elif rt == "ke": out.append("ke 1 %s %s" % (Q, QD))
            elif rt == "pe": out.append("pe 1 %s" % Q)
            elif rt == "scramble": out.append("scramble %d" % r.randint(0, 9))
        return out

    def case_core(self, idx):
        lines, ops, coords, sph = self.model()
        if not coords: lines2, ops2, coords, sph = self.model(kinds=["revz", "revx", "ezyx"]); lines, ops = lines2, ops2
        return ["case c%d" % idx] + lines + ["dump"] + self.calls_core(ops, coords, sph, ncalls=12)

def generate(profile, seed, ncases, outfile):
    g = Gen(seed, profile)
    with open(outfile, "w") as f:
        for i in range(ncases):
            lines = getattr(g, "case_" + profile)(i)
            f.write("\n".join(lines) + "\n")
    return g.stats

if __name__ == "__main__":
    profile, seed, n, out = sys.argv[1], int(sys.argv[2]), int(sys.argv[3]), sys.argv[4]
    print(json.dumps(generate(profile, seed, n, out)))
