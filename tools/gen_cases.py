#!/usr/bin/env python3
"""Case generator for the correspondence / oracle harness.  One PRNG
(random.Random(seed)); every choice derives from it.  Usage:
   gen_cases.py <profile> <seed> <ncases> <outfile>   (also importable)
Prints the input distribution as JSON on stdout."""
import sys, json, random, math
from fractions import Fraction as Fr

def fl(x):
    return repr(float(x))

class Gen:
    def __init__(self, seed, profile="core"):
        self.r = random.Random(seed); self.profile = profile
        self.stats = {"joint_kinds": {}, "root_kinds": {}, "fixed_class": {}, "topology": {}, "calls": {}, "bodies_hist": {}, "rejected_ops": {}}
    def count(self, table, key):
        t = self.stats[table]; t[key] = t.get(key, 0) + 1
    # ---- numbers
    def dy(self, lo, hi):
        """dyadic rational, multiple of 2^-10"""
        a, b = int(lo * 1024), int(hi * 1024)
        return Fr(self.r.randint(a, b), 1024)
    def rot(self):
        """exactly orthonormal rational rotation from a small-integer quaternion (x,y,z,w) -> rbdl E matrix"""
        r = self.r
        if r.random() < 0.15: return [[Fr(1), Fr(0), Fr(0)], [Fr(0), Fr(1), Fr(0)], [Fr(0), Fr(0), Fr(1)]]
        while True:
            x, y, z, w = [r.randint(-3, 3) for _ in range(4)]
            n = x * x + y * y + z * z + w * w
            if n: break
        x, y, z, w = [Fr(v) for v in (x, y, z, w)]
        n = Fr(n)
        return [[1 - 2 * (y * y + z * z) / n, 2 * (x * y + w * z) / n, 2 * (x * z - w * y) / n],
                [2 * (x * y - w * z) / n, 1 - 2 * (x * x + z * z) / n, 2 * (y * z + w * x) / n],
                [2 * (x * z + w * y) / n, 2 * (y * z - w * x) / n, 1 - 2 * (x * x + y * y) / n]]
    AXES = [((1, 0, 0), 1), ((0, 1, 0), 1), ((0, 0, 1), 1), ((2, 3, 6), 7), ((1, 2, 2), 3), ((3, 4, 0), 5), ((4, 4, 7), 9), ((2, 6, 9), 11), ((0, 3, 4), 5)]
    def axis(self, general=True):
        r = self.r
        (a, d) = r.choice(self.AXES if general else self.AXES[:3])
        a = list(a); r.shuffle(a)
        a = [Fr(v * r.choice((1, -1)), d) for v in a]
        return a
    def unit_quat(self):
        r = self.r
        while True:
            q = [r.randint(-4, 4) for _ in range(4)]
            n2 = sum(v * v for v in q)
            if n2: break
        n = float(n2) ** 0.5
        return [v / n for v in q]
    # ---- bodies
    def body(self, massless=False):
        if massless: return dict(m=Fr(0), c=[Fr(0)] * 3, I=[[Fr(0)] * 3 for _ in range(3)])
        m = self.dy(0.5, 3); c = [self.dy(-0.5, 0.5) for _ in range(3)]
        d = [self.dy(0.3, 2) for _ in range(3)]; o = [self.dy(-0.1, 0.1) for _ in range(3)]
        I = [[d[0], o[0], o[1]], [o[0], d[1], o[2]], [o[1], o[2], d[2]]]
        return dict(m=m, c=c, I=I)
    JOINTS = ["revx", "revy", "revz", "rev", "pris", "axis_hel", "axis_rot", "axis_tr", "sph", "ezyx", "exyz", "eyxz", "ezxy", "txyz",
              "float", "emu", "emu_canon", "crevx", "cezyx", "crztx", "fixed"]
    def joint(self, kind):
        """returns (text, dof, list of coordinate kinds: 'a' angle, 'e' euler-middle, 't' translation, 's' spherical-xyz)"""
        r = self.r
        f6 = lambda v: " ".join(fl(x) for x in v)
        if kind in ("revx", "revy", "revz"): return kind, ["a"]
        if kind == "rev": return "rev " + f6(self.axis()), ["a"]
        if kind == "pris": return "pris " + f6(self.axis()), ["t"]
        if kind == "axis_rot": return "axis " + f6(self.axis() + [Fr(0)] * 3), ["a"]
        if kind == "axis_tr": return "axis " + f6([Fr(0)] * 3 + self.axis()), ["t"]
        if kind == "axis_hel":
            a = self.axis()
            h = [v * Fr(1, 4) for v in a] if r.random() < 0.5 else [v * Fr(1, 2) for v in self.axis()]
            return "axis " + f6(a + h), ["a"]
        if kind == "sph": return "sph", ["s", "s", "s"]
        if kind in ("ezyx", "exyz", "eyxz", "ezxy", "cezyx"): return kind, ["a", "e", "a"]
        if kind == "txyz": return "txyz", ["t", "t", "t"]
        if kind == "float": return "float", ["t", "t", "t", "s", "s", "s"]
        if kind == "crevx": return "crevx", ["a"]
        if kind == "crztx": return "crztx", ["a", "t"]
        if kind == "fixed": return "fixed", []
        if kind == "emu":
            k = r.randint(2, 6)
            # at most three rotations and three translations, each set mutually orthogonal (non-singular H);
            # the triples are the columns of an exactly orthonormal rational rotation
            Rr = self.rot() if r.random() < 0.5 else [[Fr(1), Fr(0), Fr(0)], [Fr(0), Fr(1), Fr(0)], [Fr(0), Fr(0), Fr(1)]]
            Rt = self.rot() if r.random() < 0.5 else [[Fr(1), Fr(0), Fr(0)], [Fr(0), Fr(1), Fr(0)], [Fr(0), Fr(0), Fr(1)]]
            rots = [[Rr[0][c], Rr[1][c], Rr[2][c]] for c in range(3)]; r.shuffle(rots)
            trs = [[Rt[0][c], Rt[1][c], Rt[2][c]] for c in range(3)]; r.shuffle(trs)
            nrot = r.randint(max(0, k - 3), min(3, k)); ntr = k - nrot
            slots = ["a"] * nrot + ["t"] * ntr; r.shuffle(slots)
            axes = []; kinds = []; seen_rot = 0
            for sl in slots:
                if sl == "a":
                    axes.append(rots.pop() + [Fr(0)] * 3); seen_rot += 1
                    kinds.append("e" if (nrot == 3 and seen_rot == 2) else "a")
                else:
                    axes.append([Fr(0)] * 3 + trs.pop()); kinds.append("t")
            return "emu %d " % k + " ".join(f6(a) for a in axes), kinds
        if kind == "emu_canon":
            # axis lists made of the exact coordinate axes, in patterns a loader or AddBody might special-case:
            # a permuted translation or rotation triple, pairs, the floating-base pattern and a permutation of it
            E = [[Fr(1), Fr(0), Fr(0)], [Fr(0), Fr(1), Fr(0)], [Fr(0), Fr(0), Fr(1)]]
            tr = lambda i: [Fr(0)] * 3 + E[i]
            ro = lambda i: E[i] + [Fr(0)] * 3
            pat = r.choice(["t3", "r3", "t2", "r2", "float", "floatperm", "t3r1"])
            p3 = [0, 1, 2]; r.shuffle(p3)
            if pat == "t3": axes = [tr(i) for i in p3]; kinds = ["t"] * 3
            elif pat == "r3": axes = [ro(i) for i in p3]; kinds = ["a", "e", "a"]
            elif pat == "t2": axes = [tr(i) for i in p3[:2]]; kinds = ["t"] * 2
            elif pat == "r2": axes = [ro(i) for i in p3[:2]]; kinds = ["a", "a"]
            elif pat == "float": axes = [tr(0), tr(1), tr(2), ro(2), ro(1), ro(0)]; kinds = ["t"] * 3 + ["a", "e", "a"]
            elif pat == "floatperm": q3 = [0, 1, 2]; r.shuffle(q3); axes = [tr(i) for i in p3] + [ro(i) for i in q3]; kinds = ["t"] * 3 + ["a", "e", "a"]
            else: axes = [tr(i) for i in p3] + [ro(r.randrange(3))]; kinds = ["t"] * 3 + ["a"]
            return "emu %d " % len(axes) + " ".join(f6(a) for a in axes), kinds
        raise ValueError(kind)
    # ---- a model
    def model(self, nmin=1, nmax=6, allow_fixed=True, allow_custom=True, named=True, kinds=None):
        r = self.r; lines = []
        g = [self.dy(-10, 10) for _ in range(3)] if r.random() < 0.8 else [Fr(0), Fr(-981, 100), Fr(0)]
        lines.append("gravity " + " ".join(fl(x) for x in g))
        self.g_zero = all(x == 0 for x in g)
        n = r.randint(nmin, nmax)
        ops = []          # dict(kind, parent, movable, coords, is_fixed, ref)
        coords = []       # coordinate kinds in q order
        sph = []          # q_index of spherical joints
        topo = r.choice(["chain", "star", "tree"])
        self.count("topology", topo)
        pool = kinds or self.JOINTS
        name_ctr = 2
        for k in range(n):
            kind = r.choice(pool)
            if kind == "fixed" and not allow_fixed: kind = "revz"
            if kind.startswith("c") and kind in ("crevx", "cezyx", "crztx") and not allow_custom: kind = "revx"
            if k == 0 or topo == "star": parent = "base" if (k == 0 or r.random() < 0.7) else str(r.randrange(k))
            elif topo == "chain": parent = str(k - 1) if r.random() < 0.9 else "prev"
            else: parent = "base" if r.random() < 0.15 else str(r.randrange(k))
            jt, ck = self.joint(kind)
            if kind == "emu_canon": kind = "emu"     # same construction call, axes taken from the coordinate axes
            massless = (kind != "fixed" and r.random() < 0.08 and k < n - 1)
            b = self.body(massless)
            E = self.rot(); rr = [self.dy(-1, 1) for _ in range(3)]
            nm = 0
            if named and r.random() < 0.5: nm = name_ctr; name_ctr += 1
            line = "add %s %d E %s r %s body %s %s %s 0 joint %s" % (
                parent, nm, " ".join(fl(x) for row in E for x in row), " ".join(fl(x) for x in rr),
                fl(b["m"]), " ".join(fl(x) for x in b["c"]), " ".join(fl(x) for row in b["I"] for x in row), jt)
            lines.append(line)
            qi = len(coords)
            for j, c in enumerate(ck):
                if c == "s" and (j == 0 or ck[j - 1] != "s"): sph.append(qi + j)
            coords += ck
            ops.append(dict(kind=kind, parent=parent, dof=len(ck), massless=massless, fixed=(kind == "fixed"), q=qi))
            self.count("joint_kinds", kind)
            if parent == "base": self.count("root_kinds", kind)
            if kind == "fixed":
                pc = "on_base" if parent == "base" else ("on_fixed" if parent not in ("prev",) and parent.isdigit() and ops[int(parent)]["fixed"] else "on_movable")
                self.count("fixed_class", pc)
        self.count("bodies_hist", str(n))
        # make sure every leaf subtree carries mass: a massless body needs a massive descendant; cheap repair: append one
        for k, o in enumerate(ops):
            if o["massless"] and not any(p["parent"] == str(k) and not p["massless"] and not p["fixed"] for p in ops):
                b = self.body(); jt, ck = self.joint("revy")
                lines.append("add %d 0 E 1 0 0 0 1 0 0 0 1 r %s body %s %s %s 0 joint %s" % (
                    k, " ".join(fl(self.dy(-0.5, 0.5)) for _ in range(3)), fl(b["m"]), " ".join(fl(x) for x in b["c"]),
                    " ".join(fl(x) for row in b["I"] for x in row), jt))
                ops.append(dict(kind="revy", parent=str(k), dof=1, massless=False, fixed=False, q=len(coords))); coords += ck
                self.count("joint_kinds", "revy")
        return lines, ops, coords, sph
    # ---- states
    def state(self, coords, sph):
        r = self.r
        ndof = len(coords)
        q = [0.0] * (ndof + len(sph))
        for i, c in enumerate(coords):
            if c == "a": q[i] = float(self.dy(-2, 2))
            elif c == "e": q[i] = float(self.dy(-1.1, 1.1))
            elif c == "t": q[i] = float(self.dy(-1, 1))
        for o, qi in enumerate(sph):
            x, y, z, w = self.unit_quat()
            q[qi], q[qi + 1], q[qi + 2], q[ndof + o] = x, y, z, w
        zero_v = r.random() < 0.05
        qd = [0.0 if zero_v else float(self.dy(-2, 2)) for _ in range(ndof)]
        qdd = [float(self.dy(-3, 3)) for _ in range(ndof)]
        tau = [float(self.dy(-4, 4)) for _ in range(ndof)]
        return q, qd, qdd, tau
    def vec(self, v): return "%d %s" % (len(v), " ".join(repr(float(x)) for x in v)) if len(v) else "0"
    def fext(self, ops, nbodies_hint=None):
        """external forces on non-virtual movable bodies; needs the rbdl body count -> computed from ops"""
        r = self.r
        # rbdl movable body count: 1 (root) + per op: fixed 0; float 2; emu k; else 1
        ids = []; nb = 1; virt = []
        for o in ops:
            if o["fixed"]: ids.append(None); continue
            extra = 2 if o["kind"] == "float" else (o["dof"] if o["kind"] == "emu" else 1)
            for v in range(nb, nb + extra - 1): virt.append(v)        # massless intermediate bodies of multi-dof emulation
            nb += extra; ids.append(nb - 1)
        if r.random() < 0.4: return "F 0"
        vals = [[0.0] * 6 for _ in range(nb)]
        for i in ids:
            if i is not None and r.random() < 0.6: vals[i] = [float(self.dy(-3, 3)) for _ in range(6)]
        for i in virt:
            if r.random() < 0.25: vals[i] = [float(self.dy(-3, 3)) for _ in range(6)]
        return "F %d %s" % (nb, " ".join(repr(x) for v in vals for x in v))
    def pt(self): return " ".join(fl(self.dy(-1, 1)) for _ in range(3))

    ALLR = ["b2b", "base2b", "orient", "jac", "jac6", "sjac", "pvel", "pvel6", "pacc", "pacc6", "updkin", "updkinc",
            "id", "nle", "crba", "fd", "fdl", "minv", "com", "zmp", "ke", "pe", "scramble"]
    def make_call(self, rt, ops, coords, sph):
        r = self.r
        q, qd, qdd, tau = self.state(coords, sph)
        refs = [str(k) for k in range(len(ops))]
        d = dict(rt=rt, Q=self.vec(q), QD=self.vec(qd), QDD=self.vec(qdd), TAU=self.vec(tau), flag=1,
                 ref=r.choice(refs + (["base"] if r.random() < 0.1 else [])), pt=self.pt())
        if rt in ("id", "nle", "fd", "fdl"): d["F"] = self.fext(ops)
        if rt == "fdl": d["solver"] = r.randint(1, 4)
        if rt == "updkinc": d["mask"] = r.choice([1, 3, 7])
        if rt == "com": d["has"] = r.random() < 0.7
        if rt == "zmp": d["n"] = " ".join(repr(float(x)) for x in self.axis()); d["p"] = self.pt()
        if rt == "scramble": d["k"] = r.randint(0, 9)
        if rt == "fpe":
            d["p"] = self.pt(); d["sw"] = r.choice(["0.01", "1e-06", "0.5"])
            if r.random() < 0.15: d["QD"] = self.vec([Fr(0)] * len(qd))       # at rest: phi -> 0, n = u = 0
            if getattr(self, "g_zero", False): d["rt"] = "pe"                    # the routine divides by |gravity|
        return d
    def render(self, d):
        rt = d["rt"]; fl_ = d["flag"]
        if rt in ("b2b", "base2b", "jac", "jac6"): return "%s %s %s %d %s" % (rt, d["ref"], d["pt"], fl_, d["Q"])
        if rt in ("orient", "sjac"): return "%s %s %d %s" % (rt, d["ref"], fl_, d["Q"])
        if rt in ("pvel", "pvel6"): return "%s %s %s %d %s %s" % (rt, d["ref"], d["pt"], fl_, d["Q"], d["QD"])
        if rt in ("pacc", "pacc6"): return "%s %s %s %d %s %s %s" % (rt, d["ref"], d["pt"], fl_, d["Q"], d["QD"], d["QDD"])
        if rt == "updkin": return "updkin %s %s %s" % (d["Q"], d["QD"], d["QDD"])
        if rt == "updkinc": return "updkinc %d %s %s %s" % (d["mask"], d["Q"], d["QD"], d["QDD"])
        if rt == "updboth": return "updboth %s %s %s" % (d["Q"], d["QD"], d["QDD"])
        if rt == "id": return "id %s %s %s %s" % (d["Q"], d["QD"], d["QDD"], d["F"])
        if rt == "nle": return "nle %s %s %s" % (d["Q"], d["QD"], d["F"])
        if rt == "crba": return "crba %d %s" % (fl_, d["Q"])
        if rt == "fd": return "fd %s %s %s %s" % (d["Q"], d["QD"], d["TAU"], d["F"])
        if rt == "fdl": return "fdl %d %s %s %s %s" % (d["solver"], d["Q"], d["QD"], d["TAU"], d["F"])
        if rt == "minv": return "minv %d %s %s" % (fl_, d["Q"], d["TAU"])
        if rt == "com": return "com %d %s %s %s" % (fl_, d["Q"], d["QD"], ("1 " + d["QDD"]) if d["has"] else "0")
        if rt == "zmp": return "zmp %d %s %s %s %s %s" % (fl_, d["Q"], d["QD"], d["QDD"], d["n"], d["p"])
        if rt == "ke": return "ke %d %s %s" % (fl_, d["Q"], d["QD"])
        if rt == "pe": return "pe %d %s" % (fl_, d["Q"])
        if rt == "fpe": return "fpe %d %s %s %s %s" % (fl_, d["Q"], d["QD"], d["p"], d["sw"])
        if rt == "scramble": return "scramble %d" % d["k"]
        if rt == "ltl": return "ltl %s %s" % (d["Q"], d["TAU"])
        if rt == "hprops": return "hprops %s %s" % (d["Q"], d["QD"])
        raise ValueError(rt)
    def calls_core(self, ops, coords, sph, ncalls=10, routines=None, flags_off=True):
        out = []
        for _ in range(ncalls):
            rt = self.r.choice(routines or self.ALLR); self.count("calls", rt)
            out.append(self.render(self.make_call(rt, ops, coords, sph)))
        return out

    def case_core(self, idx):
        lines, ops, coords, sph = self.model()
        if not coords: lines2, ops2, coords, sph = self.model(kinds=["revz", "revx", "ezyx"]); lines, ops = lines2, ops2
        return ["case c%d" % idx] + lines + ["dump"] + self.calls_core(ops, coords, sph, ncalls=12)

    # ------------------------------------------------------------------ property profiles
    def _model_nonempty(self, **kw):
        for _ in range(20):
            lines, ops, coords, sph = self.model(**kw)
            if coords: return lines, ops, coords, sph
        return self.model(kinds=["revz", "revx", "ezyx"])
    def _with_calls(self, idx, routines, ncalls=10, scramble=0.2, **kw):
        lines, ops, coords, sph = self._model_nonempty(**kw)
        calls = []
        for cl in self.calls_core(ops, coords, sph, ncalls=ncalls, routines=routines):
            if self.r.random() < scramble: calls.append("scramble %d" % self.r.randint(0, 9))
            calls.append(cl)
        return ["case x"] + lines + ["dump"] + calls
    def case_C01(self, idx): return self._with_calls(idx, ["id"], ncalls=8)
    def case_C02(self, idx): return self._with_calls(idx, ["fd", "fd", "fdl", "minv"], ncalls=8)
    def case_C03(self, idx): return self._with_calls(idx, ["crba", "nle", "id", "ltl", "hprops", "minv"], ncalls=10)
    def case_C04(self, idx): return self._with_calls(idx, ["b2b", "base2b", "orient"], ncalls=10)
    def case_C05(self, idx): return self._with_calls(idx, ["jac", "jac6", "sjac"], ncalls=8)
    def case_C06(self, idx):
        out = self._with_calls(idx, ["pvel", "pvel6", "pacc", "pacc6", "updkin", "updkinc", "updboth"], ncalls=8)
        # the selective update followed by flag-cleared queries (the documented usage)
        lines = [l for l in out if l.startswith("add ")]
        # rebuild the layout information from a fresh parse is not needed: reuse the last generated state vectors
        tail = []
        for l in out:
            t = l.split()
            if t[0] in ("pacc", "pacc6") and self.r.random() < 0.6:
                # pacc ref p(3) flag Q.. QD.. QDD..
                k = 6; n = int(t[k]); Q = t[k:k + 1 + n]; k += 1 + n; n2 = int(t[k]); QD = t[k:k + 1 + n2]; k += 1 + n2; QDD = t[k:]
                tail.append("scramble %d" % self.r.randint(0, 9))
                tail.append("updkinc 7 %s %s %s" % (" ".join(Q), " ".join(QD), " ".join(QDD)))
                t2 = list(t); t2[5] = "0"; tail.append(" ".join(t2))
            if t[0] in ("pvel", "pvel6") and self.r.random() < 0.4:
                k = 6; n = int(t[k]); Q = t[k:k + 1 + n]; k += 1 + n; QD = t[k:]
                z = ["%d" % (len(QD) - 1)] + ["0.0"] * (len(QD) - 1)
                tail.append("scramble %d" % self.r.randint(0, 9))
                tail.append("updkinc 3 %s %s %s" % (" ".join(Q), " ".join(QD), " ".join(z)))
                t2 = list(t); t2[5] = "0"; tail.append(" ".join(t2))
        return out + tail
    def case_C12(self, idx): return self._with_calls(idx, ["com", "zmp", "ke", "pe", "fd", "fpe", "fpe"], ncalls=10)

    # documented preceding update for the flag-cleared form, and the observable to compare
    FLAGGED = {"b2b": ("q", "b2b"), "base2b": ("q", "base2b"), "orient": ("q", "orient"), "jac": ("q", "jac"), "jac6": ("q", "jac6"),
               "sjac": ("q", "sjac"), "pvel": ("qd", "pvel"), "pvel6": ("qd", "pvel6"), "pacc": ("full", "pacc"), "pacc6": ("full", "pacc6"),
               "com": ("com", "com"), "zmp": ("qdd", "zmp"), "ke": ("qd", "ke"), "crba": ("crba", "H"), "minv": ("minv", "qdd")}
    def case_C13(self, idx):
        """random histories: unrelated calls and scrambles, then the call under test; and the flag-cleared form after
        the documented preceding update, which must reproduce the flag-set result"""
        r = self.r
        lines, ops, coords, sph = self._model_nonempty()
        out = ["case x"] + lines
        allr = [x for x in self.ALLR if x != "scramble"]
        for _ in range(4):
            out += self.calls_core(ops, coords, sph, ncalls=r.randint(0, 3), routines=allr + ["scramble", "scramble"])
            rt = r.choice(allr); self.count("calls", rt)
            d = self.make_call(rt, ops, coords, sph)
            out.append(self.render(d)); seq_set = len(out) - 2
            if rt in self.FLAGGED and r.random() < 0.7:
                pre, lab = self.FLAGGED[rt]
                out.append("scramble %d" % r.randint(0, 9))
                if pre == "q": out.append("updkinc 1 %s %s %s" % (d["Q"], d["QD"], d["QDD"]))
                elif pre == "qd": out.append("updkinc 3 %s %s %s" % (d["Q"], d["QD"], d["QDD"]))
                elif pre == "qdd": out.append("updkinc 7 %s %s %s" % (d["Q"], d["QD"], d["QDD"]))
                elif pre == "com": out.append("updkinc %d %s %s %s" % (7 if d["has"] else 3, d["Q"], d["QD"], d["QDD"]))
                elif pre == "full": out.append("updkin %s %s %s" % (d["Q"], d["QD"], d["QDD"]))
                elif pre == "crba": out.append("crba 1 " + d["Q"])
                elif pre == "minv": out.append("minv 1 %s %s" % (d["Q"], d["TAU"]))
                d2 = dict(d); d2["flag"] = 0
                if rt == "minv": d2["TAU"] = self.vec(self.state(coords, sph)[3]); d["TAU"] = d2["TAU"]
                out.append(self.render(d2))
                if rt == "minv":
                    # M^-1 tau with another tau: compare against a fresh flag-set call with the same tau
                    out.append(self.render(d)); self.meta["same"].append((len(out) - 3, len(out) - 2, "qdd"))
                else:
                    labs = [lab] if rt != "com" else ["mass", "com", "comvel", "angmom"] + (["comacc", "dangmom"] if d["has"] else [])
                    for lb in labs: self.meta["same"].append((seq_set, len(out) - 2, lb))
        return out

    # ------------------------------------------------------------------ constraint sets
    def cset(self, ops, coords, sph, q0, allow_loops=True, allow_contacts=True, max_rows=None, clean_loops=False):
        """returns (lines, nrows, has_loop).  Contacts: 1-3 mutually orthogonal normals per point.  Loops: frames made
        coincident at q0 (loopauto), any subset of the six axes, offset along unconstrained translational axes."""
        r = self.r; lines = []; rows = 0
        ndof = len(coords); max_rows = max_rows or max(1, ndof - 1)
        f = lambda v: " ".join(fl(x) for x in v)
        refs = [str(k) for k in range(len(ops))]
        has_loop = False
        ngroups = r.randint(1, 3)
        for _ in range(ngroups):
            if rows >= max_rows: break
            kind = r.choice((["contact"] * 2 if allow_contacts else []) + (["loop"] if allow_loops else []))
            if kind == "contact":
                ref = r.choice(refs); pt = [self.dy(-1, 1) for _ in range(3)]
                R = self.rot(); k = min(r.randint(1, 3), max_rows - rows)
                for j in range(k):
                    lines.append("contact %s %s %s" % (ref, f(pt), f(R[j]))); rows += 1
                self.count("calls", "contact%d" % k)
            else:
                a = r.choice(refs); b = r.choice([x for x in refs if x != a] + ["base"])
                if r.random() < 0.5: a, b = b, a
                if a == "base" and b == "base": continue
                E = self.rot(); rp = [self.dy(-0.5, 0.5) for _ in range(3)]
                k = min(r.randint(1, 6), max_rows - rows)
                axes_idx = r.sample(range(6), k)
                if clean_loops and max_rows - rows < 3: continue
                if max_rows - rows >= 3 and (clean_loops or r.random() < 0.45):
                    # all three translations locked, no rotational row: outside the open findings D8a / D8b
                    k = 3; axes_idx = [3, 4, 5]; self.count("calls", "loop_translation_lock")
                off = [Fr(0)] * 3
                for t in range(3):
                    if (3 + t) not in axes_idx and r.random() < 0.5: off[t] = self.dy(-0.5, 0.5)
                axes = []
                for ai in sorted(axes_idx):
                    v = [Fr(0)] * 6; v[ai] = Fr(1); axes.append(v)
                baum = 1 if r.random() < 0.25 else 0
                lines.append("loopauto %s %s %s %s %s %d %s %d %s %s" % (a, b, f([x for row in E for x in row]), f(rp), f(off), k,
                             " ".join(f(v) for v in axes), baum, fl(self.dy(0.05, 0.5)), self.vec(q0)))
                rows += k; has_loop = True
                self.count("calls", "loop%d" % k)
        return lines, rows, has_loop

    def _cons_case(self, routines, ncalls=6, **kw):
        r = self.r
        lines, ops, coords, sph = self._model_nonempty(nmin=2, nmax=6, kinds=[k for k in self.JOINTS if k not in ("crztx",)] + ["float", "float"])
        q0, _, _, _ = self.state(coords, sph)
        cl, rows, has_loop = self.cset(ops, coords, sph, q0, **kw)
        out = ["case x"] + lines + cl
        if rows == 0: out.append("contact 0 0.25 -0.375 0.5 0.0 0.0 1.0"); rows = 1
        Q = self.vec(q0)
        for _ in range(ncalls):
            rt = r.choice(routines); self.count("calls", rt)
            _, qd, qdd, tau = self.state(coords, sph)
            QD, TAU = self.vec(qd), self.vec(tau)
            if rt == "cjac": out.append("cjac 1 %s" % Q)
            elif rt == "cerr": out.append("cerr 1 %s" % Q)
            elif rt == "cverr": out.append("cverr 1 %s %s" % (Q, QD))
            elif rt == "csys": out.append("csys feas %s %s %s %s" % (Q, QD, TAU, self.fext(ops)))
            elif rt == "fdc":
                out.append("csolver %d" % r.randint(1, 3))
                meth = r.choice(["direct", "range", "null"] + (["kokkevis"] if not has_loop else []))
                out.append("fdc %s feas %s %s %s %s" % (meth, Q, QD, TAU, self.fext(ops) if (r.random() < 0.5 and meth != "kokkevis") else "F 0"))
                self.count("calls", "fdc_" + meth)
            elif rt == "imp":
                vp = [0.0] * rows if r.random() < 0.6 else [float(self.dy(-1, 1)) for _ in range(rows)]
                out.append("csolver %d" % r.randint(1, 3))
                out.append("imp %s %s %s %s" % (r.choice(["direct", "range", "null"]), Q, QD, self.vec(vp)))
            elif rt == "scramble": out.append("scramble %d" % r.randint(0, 9))
        return out
    def case_C11(self, idx):
        """constrained inverse dynamics with an actuation map: exact operator with as many unactuated coordinates as
        constraint rows, relaxed operator with any map, full-actuation test with any map"""
        r = self.r
        for _t in range(20):
            lines, ops, coords, sph = self._model_nonempty(nmin=2, nmax=6, kinds=[k for k in self.JOINTS if k not in ("crztx",)] + ["float", "float"])
            if len(coords) >= 2: break     # the relaxed operator needs at least one direction left free by the constraints
        q0, _, _, _ = self.state(coords, sph)
        n = len(coords)
        cl, rows, has_loop = self.cset(ops, coords, sph, q0, clean_loops=True, max_rows=max(1, min(6, n - 1)))
        out = ["case x"] + lines + cl
        if rows == 0: out.append("contact 0 0.25 -0.375 0.5 0.0 0.0 1.0"); rows = 1
        Q = self.vec(q0)
        for _ in range(5):
            rt = r.choice(["exact", "exact", "relaxed", "fullact"]); self.count("calls", "idc_" + rt if rt != "fullact" else rt)
            _, qd, qdd, tau = self.state(coords, sph)
            if rt == "exact": nu = min(rows, n)
            else: nu = r.randint(0, n)
            un = set(r.sample(range(n), nu))
            if rt == "exact" and r.random() < 0.6:
                # prefer the first coordinates (floating-base style under-actuation)
                un = set(range(nu))
            act = [0 if i in un else 1 for i in range(n)]
            out.append("actuation %d %s" % (n, " ".join(str(a) for a in act)))
            out.append("csolver %d" % r.randint(1, 3))
            if rt == "fullact": out.append("fullact %s %s F 0" % (Q, self.vec(qd)))
            else: out.append("idc %s feas %s %s %s %s" % (rt, Q, self.vec(qd), self.vec(qdd), self.fext(ops) if r.random() < 0.4 else "F 0"))
            if r.random() < 0.2: out.append("scramble %d" % r.randint(0, 9))
        return out
    def _perturb(self, q, coords, sph, amp):
        """a configuration near q: angles / translations moved by at most amp, quaternions re-normalised"""
        ndof = len(coords); q2 = list(q)
        for i, c in enumerate(coords):
            if c != "s": q2[i] = q[i] + float(self.dy(-amp, amp))
        for o, qi in enumerate(sph):
            v = [q[qi] + float(self.dy(-amp, amp)) / 2, q[qi + 1] + float(self.dy(-amp, amp)) / 2, q[qi + 2] + float(self.dy(-amp, amp)) / 2, q[ndof + o]]
            n = sum(x * x for x in v) ** 0.5 or 1.0
            q2[qi], q2[qi + 1], q2[qi + 2], q2[ndof + o] = [x / n for x in v]
        return q2
    def case_C17(self, idx):
        """iterative solvers: both InverseKinematics overloads (targets = poses at a configuration Q*, optionally offset to be
        unreachable), CalcAssemblyQ from perturbed configurations, CalcAssemblyQDot"""
        r = self.r
        mode = r.choice(["ik", "ik", "asm"])
        f3 = lambda v: " ".join(fl(x) for x in v)
        if mode == "ik":
            lines, ops, coords, sph = self._model_nonempty(nmin=2, nmax=5, kinds=[k for k in self.JOINTS if k not in ("crztx", "fixed")] + ["fixed"])
            out = ["case x"] + lines
            refs = [str(k) for k in range(len(ops))]
            for _ in range(4):
                qs, _, _, _ = self.state(coords, sph)
                q0 = self._perturb(qs, coords, sph, float(r.choice([0.05, 0.2, 0.5])))
                unreachable = r.random() < 0.2
                nt = r.randint(1, 2)
                if r.random() < 0.45:
                    self.count("calls", "ik1" + ("_unreachable" if unreachable else ""))
                    tg = []
                    for _k in range(nt):
                        off = [self.dy(3, 6) * r.choice((1, -1)) for _ in range(3)] if unreachable else [Fr(0)] * 3
                        tg.append("%s %s %s" % (r.choice(refs), self.pt(), f3(off)))
                    tail = "%d %s %s %s %s %s %d" % (nt, " ".join(tg), self.vec(qs), self.vec(q0),
                               r.choice(["1e-12", "1e-9", "1e-6"]), r.choice(["0.01", "0.1", "0.001"]), r.choice([30, 55, 120]))
                    out.append("ik1 step " + tail); out.append("ik1 full " + tail)
                else:
                    self.count("calls", "ik2" + ("_unreachable" if unreachable else ""))
                    tg = []
                    for _k in range(nt):
                        kind = r.choice(["full", "orient", "pos", "pos", "posxy", "posz", "comxy"]); self.count("calls", "ik2_" + kind)
                        off = [self.dy(3, 6) * r.choice((1, -1)) for _ in range(3)] if (unreachable and kind != "orient") else [Fr(0)] * 3
                        tg.append("%s %s %s %s %s" % (kind, r.choice(refs), self.pt(), f3(off), r.choice(["1.0", "0.5", "2.0"])))
                    stol = r.choice(["1e-12", "1e-10"]); ctol = r.choice(["1e-12", "1e-8", "1e-4"])
                    if not unreachable and r.random() < 0.25:
                        # start within the constraint tolerance of a solution: must be returned as it is
                        self.count("calls", "ik2_start_within_tol")
                        q0 = [x + (r.uniform(-1e-7, 1e-7) if i < len(coords) and coords[i] != "s" else 0.0) for i, x in enumerate(qs)]
                        stol = "1e-12"; ctol = "1e-4"
                    tail = "%d %s %s %s %s %s %s %d" % (nt, " ".join(tg), self.vec(qs), self.vec(q0), stol, ctol,
                               r.choice(["1e-6", "1e-4", "1e-9"]), r.choice([50, 150, 300]))
                    out.append("ik2 step " + tail); out.append("ik2 full " + tail)
                if r.random() < 0.2: out.append("scramble %d" % r.randint(0, 9))
            return out
        lines, ops, coords, sph = self._model_nonempty(nmin=2, nmax=6, kinds=[k for k in self.JOINTS if k not in ("crztx",)] + ["float", "sph"])
        q0, _, _, _ = self.state(coords, sph)
        n = len(coords)
        cl, rows, has_loop = self.cset(ops, coords, sph, q0, allow_contacts=(r.random() < 0.3), max_rows=max(1, min(6, n - 1)))
        out = ["case x"] + lines + cl
        if rows == 0: out.append("contact 0 0.25 -0.375 0.5 0.0 0.0 1.0"); rows = 1
        for _ in range(4):
            wts = [float(r.choice([1, 1, 2, 0.5, 4])) for _ in range(n)]
            if r.random() < 0.6:
                self.count("calls", "asmq")
                qi = self._perturb(q0, coords, sph, float(r.choice([0.0, 0.02, 0.1, 0.3])))
                out.append("csolver %d" % r.randint(1, 3))
                tail = "%s %s %s %d" % (self.vec(qi), self.vec(wts), r.choice(["1e-10", "1e-8", "1e-6"]), r.choice([20, 50, 100]))
                out.append("asmq step " + tail); out.append("asmq full " + tail)
            else:
                self.count("calls", "asmqd")
                _, qd, _, _ = self.state(coords, sph)
                out.append("csolver %d" % r.randint(1, 3))
                out.append("asmqd %s %s %s" % (self.vec(q0), self.vec(qd), self.vec(wts)))
            if r.random() < 0.2: out.append("scramble %d" % r.randint(0, 9))
        return out
    def case_C18(self, idx):
        """quintic Bezier toolkit, curve factories with parameters inside the documented domains (incl. extremes of
        curviness), evaluation inside segments, exactly at junctions, in the extrapolation; shift / scale; inverse"""
        r = self.r; out = ["case x"]
        U = lambda a, b: r.uniform(a, b)
        g = lambda v: " ".join(repr(float(x)) for x in v)
        # ---- raw toolkit calls
        for _ in range(3):
            op = r.choice(["val", "du", "dydx", "corner", "calcu"]); self.count("calls", "bez_" + op)
            u = r.choice([0.0, 1.0, 0.5, U(0, 1), U(0, 1)])
            pts = sorted(U(-2, 2) for _ in range(6)); ypts = [U(-2, 2) for _ in range(6)]
            if op == "val": out.append("bez val %r %s" % (u, g(ypts)))
            elif op == "du": out.append("bez du %d %r %s" % (r.randint(1, 6), u, g(ypts)))
            elif op == "dydx":
                xs = [pts[0]] + [pts[i] + 0.05 * i for i in range(1, 6)]
                out.append("bez dydx %d %r %s %s" % (r.randint(1, 3), u, g(xs), g(ypts)))
            elif op == "corner":
                x0 = U(-1, 1); x1 = x0 + U(0.2, 2); d0 = U(-2, 2); d1 = d0 + r.choice([U(0.1, 3), -U(0.1, 3), 0.0])
                y0 = U(-1, 1)
                # y1 so that the tangent lines intersect between x0 and x1 (a C-shaped corner), sometimes not
                xc = x0 + U(0.15, 0.85) * (x1 - x0) if r.random() < 0.85 else x0 - 0.5
                y1 = y0 + d0 * (xc - x0) + d1 * (x1 - xc)
                out.append("bez corner %s %r" % (g([x0, y0, d0, x1, y1, d1]), r.choice([0.0, 1.0, 0.5, U(0, 1)])))
            else:
                xs = [pts[0]] + [pts[i] + 0.05 * i for i in range(1, 6)]
                ax = xs[0] + U(0, 1) * (xs[5] - xs[0])
                out.append("bez calcu %r %s %s %d" % (ax, g(xs), r.choice(["1e-9", "2.220446049250313e-10"]), 20))
        # ---- a factory curve
        cv = r.choice([0.0, 1.0, 0.5, U(0, 1), U(0, 1)])
        kind = r.choice(["fal", "fv", "fvinv", "fcphi", "fccos", "fcl", "fpe", "ft"]); self.count("calls", "curve_" + kind)
        if kind == "fal":
            l0 = U(0.3, 0.6); l1 = l0 + U(0.1, 0.3); l2 = l1 + U(0.1, 0.3); l3 = l2 + U(0.3, 0.8)
            par = [l0, l1, l2, l3, r.choice([0.0, 0.1, U(0, 0.2)]), U(0, 0.9) / (l3 - l2) * (l3 - l2) * min(1.0, 0.95 / (l3 - l2)), cv]
        elif kind in ("fv", "fvinv"):
            fmax = U(1.2, 1.8); dc = U(0.0, 0.3) if kind == "fv" else U(0.05, 0.3); dnc = dc + U(0.05, 0.4); diso = U(2, 8)
            de = U(0.0, 0.5 * (fmax - 1)) if kind == "fv" else U(0.02, 0.5 * (fmax - 1)); dne = de + U(0.01, 0.4 * (fmax - 1))
            par = [fmax, dc, dnc, diso, de, dne, r.choice([0.0, 1.0, U(0, 1)]), r.choice([0.0, 1.0, U(0, 1)])]
        elif kind == "fcphi":
            phi0 = U(0.3, 1.3); par = [phi0, 1.0 / (math.pi / 2 - phi0) * U(1.05, 3), cv]
        elif kind == "fccos":
            c0 = U(0.05, 0.6); par = [c0, -1.0 / c0 * U(1.05, 3), cv]
        elif kind == "fcl":
            l0 = U(0.2, 0.8); par = [l0, -1.0 / l0 * U(1.05, 3), cv]
        elif kind == "fpe":
            ez = r.choice([0.0, U(0, 0.2)]); ei = ez + U(0.3, 0.9); kiso = 1.0 / (ei - ez) * U(1.1, 3); par = [ez, ei, U(0.05, 0.98) / (ei - ez), kiso, cv]
        else:
            e0 = U(0.02, 0.1); par = [e0, 1.0 / e0 * U(1.1, 2), U(0.1, 0.9), cv]
        out.append("curve %s %s" % (kind, g(par)))
        def where():
            w = r.choice(["j", "j", "f", "f", "f", "e"])
            if w == "j": return "j %d" % r.randint(0, 5)
            if w == "f":
                if r.random() < 0.3:     # close to the ends of the whole domain (first / last segment)
                    e = r.choice([1e-9, 1e-7, 1e-6, 1e-5, 1e-4, 1e-3])
                    return r.choice(["f 0 %r" % e, "f 9 %r" % (1 - e)])
                return "f %d %r" % (r.randint(0, 4), r.choice([U(0, 1), U(0, 1), 1e-9, 1 - 1e-9, 0.5]))
            return "e %d %r" % (r.randint(0, 1), r.choice([U(0, 2), 1e-6, 0.5]))
        for _ in range(10):
            rt = r.choice(["cval", "cval", "cder", "cder", "cder", "cinv", "cshift", "cscale"]); self.count("calls", rt)
            if rt == "cval": out.append("cval " + where())
            elif rt == "cder": out.append("cder %d %s" % (r.randint(1, 3), where()))
            elif rt == "cinv": out.append("cinv %r %r" % (r.choice([U(0.02, 0.98), U(0.02, 0.98), U(1.0, 1.6), U(-0.6, 0.0)]), U(0, 1)))
            elif rt == "cshift": out.append("cshift %r %r" % (U(-1, 1), U(-1, 1)))
            else: out.append("cscale %r %r" % (r.choice([U(0.3, 3), -U(0.3, 3)]) if False else U(0.3, 3), U(0.3, 3)))
        # ---- torque muscles of the built-in data sets
        for _ in range(3):
            ds = r.randint(0, 1); self.count("calls", "tmuscle_ds%d" % ds)
            if ds == 0: gd, ag, jt = r.randint(0, 1), r.randint(0, 2), r.randint(0, 5)
            else: gd, ag, jt = 0, 0, r.randint(0, 23)
            out.append("tmuscle %d %d %d %d %r %r %r" % (ds, gd, ag, jt, U(-1.5, 1.5), U(-6, 6), r.choice([0.0, 1.0, U(0.05, 1), U(0.05, 1)])))
        self.meta["nontrivial"] = True
        return out
    def case_C09(self, idx): return self._cons_case(["cjac", "cerr", "cverr", "csys", "scramble"], ncalls=7)
    def case_C08(self, idx): return self._cons_case(["fdc", "fdc", "csys", "scramble"], ncalls=6)
    def case_C10(self, idx): return self._cons_case(["imp", "imp", "scramble"], ncalls=5)

    # ------------------------------------------------------------------ C07: twin descriptions of one mechanism
    EUL_AXES = {"ezyx": [2, 1, 0], "exyz": [0, 1, 2], "eyxz": [1, 0, 2], "ezxy": [2, 0, 1]}
    def _fmt_add(self, parent, nm, E, rr, b, jt, virt=0):
        return "add %s %d E %s r %s body %s %s %s %d joint %s" % (
            parent, nm, " ".join(fl(x) for row in E for x in row), " ".join(fl(x) for x in rr),
            fl(b["m"]), " ".join(fl(x) for x in b["c"]), " ".join(fl(x) for row in b["I"] for x in row), virt, jt)
    def _join(self, a, E, rr, b):
        """rigid union of body a and body b mounted at (E, rr) in a's frame (parallel-axis theorem, floats)"""
        F = lambda M: [[float(x) for x in row] for row in M]
        E = F(E); rr = [float(x) for x in rr]
        T3 = lambda M: [[M[j][i] for j in range(3)] for i in range(3)]
        mm = lambda A, B: [[sum(A[i][k] * B[k][j] for k in range(3)) for j in range(3)] for i in range(3)]
        mv = lambda A, v: [sum(A[i][k] * v[k] for k in range(3)) for i in range(3)]
        m1, m2 = float(a["m"]), float(b["m"])
        c1 = [float(x) for x in a["c"]]; c2 = [x + y for x, y in zip(mv(T3(E), [float(x) for x in b["c"]]), rr)]
        I1 = F(a["I"]); I2 = mm(mm(T3(E), F(b["I"])), E)
        m = m1 + m2; c = [(m1 * x + m2 * y) / m for x, y in zip(c1, c2)]
        def pa(ms, d):
            dd = sum(x * x for x in d)
            return [[ms * ((dd if i == j else 0.0) - d[i] * d[j]) for j in range(3)] for i in range(3)]
        P1 = pa(m1, [x - y for x, y in zip(c1, c)]); P2 = pa(m2, [x - y for x, y in zip(c2, c)])
        I = [[I1[i][j] + P1[i][j] + I2[i][j] + P2[i][j] for j in range(3)] for i in range(3)]
        return dict(m=m, c=c, I=I)
    def case_C07(self, idx):
        r = self.r
        var = r.choice(["emu", "chain", "floatsplit", "premerge", "custom", "reorder", "fixchain"])
        self.count("calls", "twin_" + var)
        I3 = [[Fr(1), Fr(0), Fr(0)], [Fr(0), Fr(1), Fr(0)], [Fr(0), Fr(0), Fr(1)]]
        special = {"emu": ["ezyx", "exyz", "eyxz", "ezxy", "txyz"], "chain": ["ezyx", "exyz", "eyxz", "ezxy", "txyz"], "floatsplit": ["float"],
                   "premerge": ["fixed"], "custom": ["revx", "ezyx"], "reorder": [], "fixchain": []}[var]
        filler = ["revx", "revy", "revz", "rev", "pris", "axis_hel", "ezyx", "txyz"] + ([] if var == "reorder" else ["sph"])
        n = r.randint(2, 5)
        sp_at = r.randrange(n) if special else -1
        if var == "premerge" and sp_at == 0: sp_at = 1 if n > 1 else 0
        nodes = []
        for k in range(n):
            kind = r.choice(special) if k == sp_at else r.choice(filler)
            parent = -1 if k == 0 else (r.randrange(k) if r.random() < 0.8 else -1)
            if var == "premerge" and k == sp_at: parent = r.randrange(k)
            if var == "premerge" and parent >= 0 and nodes[parent]["kind"] == "fixed": parent = nodes[parent]["parent"]
            jt, ck = self.joint(kind)
            nodes.append(dict(kind=kind, parent=parent, E=self.rot(), r=[self.dy(-1, 1) for _ in range(3)], body=self.body(), jt=jt, ck=ck))
            self.count("joint_kinds", kind)
        if var == "fixchain":
            # a chain of two fixed joints with rotated frames below a movable body, and a movable child hung on the last one
            anchor = r.randrange(n)
            for kk, kind in enumerate(["fixed", "fixed", r.choice(["revy", "rev", "ezyx", "pris"])]):
                jt, ck = self.joint(kind)
                E = self.rot()
                while kind == "fixed" and E[0][0] == 1 and E[1][1] == 1: E = self.rot()
                nodes.append(dict(kind=kind, parent=(anchor if kk == 0 else len(nodes) - 1), E=E, r=[self.dy(-1, 1) for _ in range(3)], body=self.body(), jt=jt, ck=ck))
            n = len(nodes)
        if var == "reorder":
            # make sure there are two sibling branches
            if not any(nodes[a]["parent"] == nodes[b]["parent"] for a in range(n) for b in range(a + 1, n)):
                jt, ck = self.joint("revy"); nodes.append(dict(kind="revy", parent=nodes[-1]["parent"], E=self.rot(), r=[self.dy(-1, 1) for _ in range(3)], body=self.body(), jt=jt, ck=ck)); n += 1
        g = [self.dy(-10, 10) for _ in range(3)]
        grav = "gravity " + " ".join(fl(x) for x in g)
        null = self.body(massless=True)

        def render(variant):
            """-> lines, opidx (node -> op index of its body, None if it has none), qpos (node -> first q index), ndof"""
            lines = []; opidx = {}; qpos = {}; nops = 0; nq = 0; sph = []
            order = list(range(n))
            if variant == "reorder":
                # a different topological order: children of a common parent visited in another order
                order = []; kids = {}
                for k, nd in enumerate(nodes): kids.setdefault(nd["parent"], []).append(k)
                def visit(p):
                    ch = list(kids.get(p, [])); ch.reverse()
                    for c in ch: order.append(c); visit(c)
                visit(-1)
            merged = {}
            if variant == "premerge":
                nd = nodes[sp_at]; par = nd["parent"]
                merged[par] = self._join(nodes[par]["body"], nd["E"], nd["r"], nd["body"])
            def compose(X2, X1):
                """child frame X2 = (E2, r2) given in the frame X1 = (E1, r1): (E2 E1, r1 + E1^T r2)"""
                (E2, r2), (E1, r1) = X2, X1
                E = [[sum(E2[i][k] * E1[k][j] for k in range(3)) for j in range(3)] for i in range(3)]
                rr = [r1[i] + sum(E1[k][i] * r2[k] for k in range(3)) for i in range(3)]
                return (E, rr)
            flat = {}
            if variant == "fixchain":
                # every body of the fixed chain (and the child below it) attached directly to the movable anchor
                for k in range(n - 3, n):
                    nd = nodes[k]; X = (nd["E"], nd["r"]); par = nd["parent"]
                    if par in flat: X = compose(X, flat[par][1]); par = flat[par][0]
                    flat[k] = (par, X)
            for k in order:
                nd = nodes[k]
                if k in flat: nd = dict(nd); nd["parent"] = flat[k][0]; nd["E"], nd["r"] = flat[k][1]
                pref = "base" if nd["parent"] < 0 else str(opidx[nd["parent"]])
                body = merged.get(k, nd["body"]); kind = nd["kind"]
                qpos[k] = nq
                if variant == "premerge" and k == sp_at: opidx[k] = None; continue
                if variant == "emu" and k == sp_at:
                    ax = []
                    if kind == "txyz": ax = [[Fr(0)] * 3 + [Fr(int(i == j)) for j in range(3)] for i in range(3)]
                    else: ax = [[Fr(int(a == j)) for j in range(3)] + [Fr(0)] * 3 for a in self.EUL_AXES[kind]]
                    jt = "emu 3 " + " ".join(" ".join(fl(x) for x in a) for a in ax)
                    lines.append(self._fmt_add(pref, 0, nd["E"], nd["r"], body, jt)); opidx[k] = nops; nops += 1
                elif variant == "chain" and k == sp_at:
                    names = ["revx", "revy", "revz"]
                    jts = ["pris 1.0 0.0 0.0", "pris 0.0 1.0 0.0", "pris 0.0 0.0 1.0"] if kind == "txyz" else [names[a] for a in self.EUL_AXES[kind]]
                    lines.append(self._fmt_add(pref, 0, nd["E"], nd["r"], null, jts[0], virt=1)); nops += 1
                    lines.append(self._fmt_add(str(nops - 1), 0, I3, [Fr(0)] * 3, null, jts[1], virt=1)); nops += 1
                    lines.append(self._fmt_add(str(nops - 1), 0, I3, [Fr(0)] * 3, body, jts[2])); opidx[k] = nops; nops += 1
                elif variant == "floatsplit" and k == sp_at:
                    lines.append(self._fmt_add(pref, 0, nd["E"], nd["r"], null, "txyz", virt=1)); nops += 1
                    lines.append(self._fmt_add(str(nops - 1), 0, I3, [Fr(0)] * 3, body, "sph")); opidx[k] = nops; nops += 1
                elif variant == "custom" and k == sp_at:
                    lines.append(self._fmt_add(pref, 0, nd["E"], nd["r"], body, {"revx": "crevx", "ezyx": "cezyx"}[kind])); opidx[k] = nops; nops += 1
                else:
                    lines.append(self._fmt_add(pref, 0, nd["E"], nd["r"], body, nd["jt"])); opidx[k] = nops; nops += 1
                for j, c in enumerate(nd["ck"]):
                    if c == "s" and (j == 0 or nd["ck"][j - 1] != "s"): sph.append(nq + j)
                nq += len(nd["ck"])
            return lines, opidx, qpos, nq, sph, order

        LA, opA, qpA, nq, sphA, _ = render("plain")
        LB, opB, qpB, nqB, sphB, orderB = render(var)
        coordsA = []
        for nd in nodes: coordsA += nd["ck"]
        # coordinate permutation A index -> B index
        perm = list(range(nq))
        for k, nd in enumerate(nodes):
            for j in range(len(nd["ck"])): perm[qpA[k] + j] = qpB[k] + j
        ident = perm == list(range(nq))
        out = ["case x", grav] + LA
        callsA = []; callsB = []
        usable = [k for k in range(n) if opB[k] is not None]
        for _ in range(6):
            rt = r.choice(["id", "fd", "nle", "crba", "com", "ke", "pe", "b2b", "pvel6", "pacc6", "jac6", "zmp", "minv"])
            if not ident and rt in ("crba", "jac6"): rt = "id"
            if sphA and not ident: rt = "ke"
            self.count("calls", rt)
            q, qd, qdd, tau = self.state(coordsA, sphA)
            def pv(v):   # permuted vector for B
                w = [0.0] * len(v)
                for i in range(nq): w[perm[i]] = v[i]
                for i in range(nq, len(v)): w[i] = v[i]
                return w
            k = r.choice(usable); pt = self.pt()
            dA = dict(rt=rt, Q=self.vec(q), QD=self.vec(qd), QDD=self.vec(qdd), TAU=self.vec(tau), flag=1, ref=str(opA[k]), pt=pt, F="F 0", has=True,
                      n="0.0 0.0 1.0", p="0.1 -0.2 0.3")
            dB = dict(dA); dB.update(Q=self.vec(pv(q)), QD=self.vec(pv(qd)), QDD=self.vec(pv(qdd)), TAU=self.vec(pv(tau)), ref=str(opB[k]))
            callsA.append(self.render(dA)); callsB.append((self.render(dB), rt))
        base = len(out) - 1          # seq of the first A call
        out += callsA + ["newmodel", grav] + LB
        baseB = len(out) - 1
        labs = {"id": ["tau"], "fd": ["qdd"], "nle": ["nle"], "crba": ["H"], "com": ["mass", "com", "comvel", "angmom", "comacc", "dangmom"], "ke": ["ke"],
                "pe": ["pe"], "b2b": ["b2b"], "pvel6": ["pvel6"], "pacc6": ["pacc6"], "jac6": ["jac6"], "zmp": ["zmp"], "minv": ["qdd"]}
        for i, (cl, rt) in enumerate(callsB):
            out.append(cl)
            for lb in labs[rt]:
                if rt in ("id", "fd", "nle", "minv") and not ident: self.meta["same"].append((base + i, baseB + i, lb, perm))
                else: self.meta["same"].append((base + i, baseB + i, lb))
        self.meta["nontrivial"] = True
        return out

    # ------------------------------------------------------------------ C19: Lua description vs API
    LUA_NAMED = {"sph": "JointTypeSpherical", "ezyx": "JointTypeEulerZYX", "exyz": "JointTypeEulerXYZ", "eyxz": "JointTypeEulerYXZ",
                 "txyz": "JointTypeTranslationXYZ", "float": "JointTypeFloatingBase"}
    def case_C19(self, idx):
        """one mechanism built through the API and loaded from a generated Lua description (in this order, in one
        process, optionally after another description was loaded): dumps and every routine must agree"""
        import os
        r = self.r
        R = lambda x: repr(float(x))
        v3 = lambda v: "{%s}" % ", ".join(R(x) for x in v)
        m3 = lambda M: "{%s}" % ", ".join(v3(row) for row in M)
        n = r.randint(1, 6)
        pool = ["axis_rot", "axis_tr", "axis_hel", "emu", "emu_canon", "sph", "ezyx", "exyz", "eyxz", "txyz", "float", "fixed", "axis_rot"]
        nodes = []
        for k in range(n):
            kind = r.choice(pool)
            if k == 0 and kind == "fixed" and n == 1: kind = "axis_rot"
            parent = -1 if k == 0 else (r.randrange(k) if r.random() < 0.85 else -1)
            jt, ck = self.joint(kind)
            if kind == "emu_canon": kind = "emu"
            nodes.append(dict(kind=kind, parent=parent, E=self.rot(), r=[self.dy(-1, 1) for _ in range(3)], body=self.body(), jt=jt, ck=ck, nm=2 + k))
            self.count("joint_kinds", kind)
        dangling = (r.random() < 0.15)          # one frame names a parent that this file does not define
        dang_at = r.randrange(n) if dangling else -1
        g = [self.dy(-10, 10) for _ in range(3)]
        coords = []; sph = []
        for nd in nodes:
            for j, c in enumerate(nd["ck"]):
                if c == "s" and (j == 0 or nd["ck"][j - 1] != "s"): sph.append(len(coords) + j)
            coords += nd["ck"]
        if not coords:
            jt, ck = self.joint("axis_rot"); nodes.append(dict(kind="axis_rot", parent=-1, E=self.rot(), r=[Fr(0)] * 3, body=self.body(), jt=jt, ck=ck, nm=2 + n)); coords += ck; n += 1
        # constraints: contacts and loops with explicit frames
        cons = []
        movable = [k for k, nd in enumerate(nodes)]
        if r.random() < 0.6:
            for _ in range(r.randint(1, 2)):
                if r.random() < 0.6:
                    k = r.choice(movable); Rn = self.rot(); nn = r.randint(1, 3)
                    cons.append(dict(t="contact", body=k, pt=[self.dy(-1, 1) for _ in range(3)], normals=[Rn[j] for j in range(nn)]))
                elif len(movable) >= 2:
                    a, b = r.sample(movable, 2)
                    ax = []
                    for ai in sorted(r.sample(range(6), r.randint(1, 3))):
                        v = [Fr(0)] * 6; v[ai] = Fr(1); ax.append(v)
                    cons.append(dict(t="loop", a=a, b=b, Xp=(self.rot(), [self.dy(-0.5, 0.5) for _ in range(3)]), Xs=(self.rot(), [self.dy(-0.5, 0.5) for _ in range(3)]),
                                     axes=ax, baum=r.random() < 0.3, ts=self.dy(0.05, 0.5)))
        # Bind refuses sets with more rows than degrees of freedom
        while cons and sum(len(c["normals"]) if c["t"] == "contact" else len(c["axes"]) for c in cons) > len(coords): cons.pop()
        def add_lines(mode):
            out = []
            for k, nd in enumerate(nodes):
                pref = "base" if nd["parent"] < 0 else str(nd["parent"])
                if k == dang_at: pref = "dangling" if mode == "lua" else "base"
                out.append(self._fmt_add(pref, nd["nm"], nd["E"], nd["r"], nd["body"], nd["jt"]))
            for c in cons:
                f = lambda v: " ".join(fl(x) for x in v)
                if c["t"] == "contact":
                    for nv in c["normals"]: out.append("contact %d %s %s" % (c["body"], f(c["pt"]), f(nv)))
                else:
                    out.append("loop %d %d %s %s %s %s %d %s %d %s" % (c["a"], c["b"], f([x for row in c["Xp"][0] for x in row]), f(c["Xp"][1]),
                               f([x for row in c["Xs"][0] for x in row]), f(c["Xs"][1]), len(c["axes"]), " ".join(f(a) for a in c["axes"]), 1 if c["baum"] else 0, fl(c["ts"])))
            return out
        # ---- the Lua text
        def joint_lua(nd):
            kind = nd["kind"]
            if kind == "fixed": return "{}"
            if kind in self.LUA_NAMED: return '{"%s"}' % self.LUA_NAMED[kind]
            t = nd["jt"].split()
            if t[0] == "axis": return "{{%s}}" % ", ".join(t[1:7])
            k = int(t[1]); vals = t[2:]
            return "{%s}" % ", ".join("{%s}" % ", ".join(vals[6 * i:6 * i + 6]) for i in range(k))
        def name(k): return "n%d" % nodes[k]["nm"]
        L = ["return {", "  gravity = %s," % v3(g), "  frames = {"]
        for k, nd in enumerate(nodes):
            par = "ROOT" if nd["parent"] < 0 else name(nd["parent"])
            if k == dang_at: par = "undefined_frame_%d" % r.randint(0, 3)
            b = nd["body"]
            L.append('    { name = "%s", parent = "%s", joint_frame = { r = %s, E = %s }, body = { mass = %s, com = %s, inertia = %s }, joint = %s },'
                     % (name(k), par, v3(nd["r"]), m3(nd["E"]), R(b["m"]), v3(b["c"]), m3(b["I"]), joint_lua(nd)))
        L.append("  },")
        if cons:
            L.append("  constraint_sets = { cs = {")
            for c in cons:
                if c["t"] == "contact":
                    L.append('    { constraint_type = "contact", name = "c", body = "%s", point = %s, normal_sets = {%s} },'
                             % (name(c["body"]), v3(c["pt"]), ", ".join(v3(nv) for nv in c["normals"])))
                else:
                    L.append('    { constraint_type = "loop", name = "l", predecessor_body = "%s", successor_body = "%s", predecessor_transform = { r = %s, E = %s }, successor_transform = { r = %s, E = %s }, axis_sets = {%s}, enable_stabilization = %s, stabilization_parameter = %s },'
                             % (name(c["a"]), name(c["b"]), v3(c["Xp"][1]), m3(c["Xp"][0]), v3(c["Xs"][1]), m3(c["Xs"][0]),
                                ", ".join("{%s}" % ", ".join(R(x) for x in a) for a in c["axes"]), "true" if c["baum"] else "false", R(c["ts"])))
            L.append("  } },")
        L.append("}")
        d = os.path.join("/verif/work", "lua"); os.makedirs(d, exist_ok=True)
        tag = "%s_%d_%d_%d" % (self.profile, os.getpid(), id(self) % 100000, idx)
        path = os.path.join(d, tag + ".lua")
        open(path, "w").write("\n".join(L) + "\n")
        decoy = None
        if r.random() < 0.5:
            # another description, loaded first: defines the names this one might leave dangling and re-uses its body names
            DL = ["return {", "  frames = {"]
            for k in range(r.randint(1, 4)):
                DL.append('    { name = "%s", parent = "ROOT", joint = {{0., 0., 1., 0., 0., 0.}}, body = { mass = 1.5, com = {0.1, 0., 0.}, inertia = {{1.,0.,0.},{0.,1.,0.},{0.,0.,1.}} } },'
                          % (r.choice(["undefined_frame_%d" % k, "n%d" % (2 + k), "extra%d" % k])))
            DL += ["  },", "}"]
            decoy = os.path.join(d, tag + "_decoy.lua"); open(decoy, "w").write("\n".join(DL) + "\n")
        # ---- the case
        grav = "gravity " + " ".join(fl(x) for x in g)
        calls = ["dump"]
        ops = [dict(kind=nd["kind"], parent=("base" if nd["parent"] < 0 else str(nd["parent"])), dof=len(nd["ck"]), massless=False, fixed=(nd["kind"] == "fixed"), q=0) for nd in nodes]
        for _ in range(4):
            rt = r.choice(["id", "fd", "crba", "b2b", "pvel6", "com", "jac6", "nle"]); self.count("calls", rt)
            dd = self.make_call(rt, ops, coords, sph); dd["F"] = "F 0"
            calls.append(self.render(dd))
        if cons:
            q, qd, _, tau = self.state(coords, sph)
            calls.append("cjac 1 " + self.vec(q)); calls.append("cerr 1 " + self.vec(q))
            calls.append("csys %s %s %s F 0" % (self.vec(q), self.vec(qd), self.vec(tau)))
        out = ["case x", grav] + add_lines("api")
        base = len(out) - 1
        out += calls + ["newmodel"]
        if decoy: out.append("luadecoy " + decoy)
        out += ["luamode", "luaload %s%s" % (path, " withcons" if cons else ""), grav] + add_lines("lua")
        baseB = len(out) - 1
        out += calls
        for i in range(len(calls)): self.meta["same"].append((base + i, baseB + i, "*"))
        self.meta["nontrivial"] = True
        self.meta.setdefault("files", []).extend([path] + ([decoy] if decoy else []))
        return out

    # ------------------------------------------------------------------ C20: independent instances, interleaved use
    def case_C20(self, idx):
        """two (or three) independent models with their own constraint sets: the routine sequences run interleaved on the
        live instances and again, each alone, on fresh instances; every observable must be bit-identical"""
        r = self.r
        ninst = r.randint(2, 3)
        insts = []
        # half of the cases: all instances have the same number of degrees of freedom (a scratch object sized by the
        # dof count would be shared unnoticed) and one routine is called on every instance
        same_dof = r.random() < 0.5; focus = r.choice([x for x in self.ALLR if x != "scramble"]) if same_dof else None
        want = None
        for k in range(ninst):
            for _try in range(30):
                lines, ops, coords, sph = self._model_nonempty(nmin=1, nmax=5)
                if not same_dof or want is None or len(coords) == want: break
            if want is None: want = len(coords)
            q0, _, _, _ = self.state(coords, sph)
            cl = []
            if r.random() < 0.5:
                cl, rows, _ = self.cset(ops, coords, sph, q0, max_rows=max(1, len(coords) - 1))
            calls = []
            for _c in range(r.randint(3, 6)):
                rt = r.choice([x for x in self.ALLR if x != "scramble"] + (["cjac", "csys", "fdc"] if cl else []))
                if focus and _c % 2 == 0: rt = focus
                self.count("calls", rt)
                if rt in ("cjac", "csys", "fdc"):
                    _, qd, _, tau = self.state(coords, sph); Q = self.vec(q0)
                    calls.append({"cjac": "cjac 1 %s" % Q, "csys": "csys %s %s %s F 0" % (Q, self.vec(qd), self.vec(tau)),
                                  "fdc": "fdc %s %s %s %s F 0" % (r.choice(["direct", "range", "null"]), Q, self.vec(qd), self.vec(tau))}[rt])
                else:
                    d = self.make_call(rt, ops, coords, sph)
                    calls.append(self.render(d))
                    if r.random() < 0.3 and rt in self.FLAGGED and rt not in ("com", "zmp", "crba", "minv"):
                        # the same query again with the update flag cleared: relies on this instance's own state, while
                        # calls on the other instances may run in between
                        d2 = dict(d); d2["flag"] = 0; calls.append(self.render(d2))
            insts.append(dict(build=lines + cl, calls=calls))
        out = ["case x"]
        for k, it in enumerate(insts): out += ["use %d" % k] + it["build"]
        # interleaved
        pos = [0] * ninst; seqs = [[] for _ in range(ninst)]
        while any(pos[k] < len(insts[k]["calls"]) for k in range(ninst)):
            k = r.choice([k for k in range(ninst) if pos[k] < len(insts[k]["calls"])])
            out.append("use %d" % k); out.append(insts[k]["calls"][pos[k]]); seqs[k].append(len(out) - 2); pos[k] += 1
        # alone, on fresh instances
        for k, it in enumerate(insts):
            out += ["use %d" % (ninst + k)] + it["build"]
            for j, cl in enumerate(it["calls"]):
                out.append(cl); self.meta["same"].append((seqs[k][j], len(out) - 2, "*"))
        self.meta["nontrivial"] = True
        return out

    def case_C14(self, idx):
        """construction sequences with a rejected call injected; dump before and after every add"""
        r = self.r
        lines, ops, coords, sph = self.model(nmin=2, nmax=8)
        out = ["case x", lines[0]]
        adds = lines[1:]
        inject_at = r.randrange(len(adds) + 1)
        used_names = []
        body = "body 1.5 0.1 0.0 -0.1 0.5 0.0 0.0 0.0 0.6 0.0 0.0 0.0 0.7 0"
        for k, a in enumerate(adds + [None]):
            if k == inject_at:
                kind = r.choice(["dupname", "dupname_fixed", "dupname_emu", "dupname_custom", "root", "bad", "dupname_float"])
                nm = r.choice(used_names) if used_names and kind.startswith("dup") else 1
                if kind == "bad": nm = 0
                jt = {"dupname": "revy", "dupname_fixed": "fixed", "dupname_emu": "emu 3 0.0 0.0 1.0 0.0 0.0 0.0 0.0 1.0 0.0 0.0 0.0 0.0 0.0 0.0 0.0 1.0 0.0 0.0",
                      "dupname_custom": "crztx", "root": "revz", "bad": "bad", "dupname_float": "float"}[kind]
                par = "base" if k == 0 else r.choice(["base", "prev", str(r.randrange(k))])
                out.append("dump")
                out.append("add %s %d E 1.0 0.0 0.0 0.0 1.0 0.0 0.0 0.0 1.0 r 0.25 0.0 -0.5 %s joint %s" % (par, nm, body, jt))
                out.append("dump")
                self.count("rejected_ops", kind)
                # the generator's op index shifts by one for later references
                adds = [self._shift_refs(x, k) if x else x for x in adds]
            if a is None: break
            a = adds[k]
            t = a.split(); nmv = int(t[2])
            if nmv > 1: used_names.append(nmv)
            out.append(a)
        out.append("dump")
        if coords:
            out += self.calls_core(ops, coords, sph, ncalls=3, routines=["id", "b2b", "crba", "fd"])
            # references in these calls also shift
            out = out[:-3] + [self._shift_call_ref(x, inject_at) for x in out[-3:]]
        return out
    def _shift_refs(self, line, k):
        t = line.split()
        if t[0] == "add" and t[1].isdigit() and int(t[1]) >= k: t[1] = str(int(t[1]) + 1)
        return " ".join(t)
    def _shift_call_ref(self, line, k):
        t = line.split()
        if t[0] in ("b2b", "base2b", "orient", "jac", "jac6", "sjac", "pvel", "pvel6", "pacc", "pacc6") and t[1].isdigit() and int(t[1]) >= k: t[1] = str(int(t[1]) + 1)
        return " ".join(t)

    def case_C15(self, idx):
        """setters on movable bodies without attachments and on fixed bodies, followed by dynamics; Join / Separate"""
        r = self.r
        lines, ops, coords, sph = self._model_nonempty(nmin=2, nmax=6, kinds=[k for k in self.JOINTS if k != "float"] + ["fixed", "fixed"])
        out = ["case x"] + lines
        has_child = set()
        for o in ops:
            if o["parent"].isdigit(): has_child.add(int(o["parent"]))
        prev_k = None
        for k, o in enumerate(ops):
            if o["parent"] == "prev" and k > 0: has_child.add(k - 1)
        cand = [k for k, o in enumerate(ops) if o["fixed"] or (k not in has_child and o["kind"] != "emu" and not o["massless"])]
        for _ in range(r.randint(1, 4)):
            if not cand: break
            k = r.choice(cand); b = self.body()
            which = r.choice(["setmass", "setcom", "setinertia", "setall"])
            I9 = " ".join(fl(x) for row in b["I"] for x in row); c3 = " ".join(fl(x) for x in b["c"])
            if which == "setmass": out.append("setmass %d %s" % (k, fl(b["m"])))
            elif which == "setcom": out.append("setcom %d %s" % (k, c3))
            elif which == "setinertia": out.append("setinertia %d %s" % (k, I9))
            else: out.append("setall %d %s %s %s" % (k, fl(b["m"]), I9, c3))
        out.append("dump")
        out += self.calls_core(ops, coords, sph, ncalls=4, routines=["id", "crba", "fd", "com"])
        for _ in range(3):
            a = self.body(); b = self.body(massless=r.random() < 0.1)
            E = self.rot(); rr = [self.dy(-1, 1) for _ in range(3)]
            f = lambda bb: "%s %s %s" % (fl(bb["m"]), " ".join(fl(x) for x in bb["c"]), " ".join(fl(x) for row in bb["I"] for x in row))
            out.append("join %s %s %s %s" % (" ".join(fl(x) for row in E for x in row), " ".join(fl(x) for x in rr), f(a), f(b)))
        return out

    def case_C16(self, idx):
        r = self.r; out = ["case x"]
        f = lambda v: " ".join(fl(x) for x in v)
        def st(): return f([x for row in self.rot() for x in row]) + " " + f([self.dy(-2, 2) for _ in range(3)])
        def sv(): return f([self.dy(-2, 2) for _ in range(6)])
        def rbi():
            b = self.body(); return "%s %s %s" % (fl(b["m"]), f(b["c"]), f([x for row in b["I"] for x in row]))
        def uq(): return " ".join(repr(x) for x in self.unit_quat())
        for _ in range(12):
            op = r.choice(["apply", "applyT", "applyAdj", "inv", "mul", "tomat", "tomatadj", "tomatT", "rbiapply", "rbiapplyT", "rbimulv",
                           "crossm", "crossf", "qmul", "qtomat", "qfrommat", "qrot", "qomega", "xrot", "gauss"])
            self.count("calls", op)
            if op in ("apply", "applyT", "applyAdj"): out.append("l1 %s %s %s" % (op, st(), sv()))
            elif op in ("inv", "tomat", "tomatadj", "tomatT"): out.append("l1 %s %s" % (op, st()))
            elif op == "mul": out.append("l1 mul %s %s" % (st(), st()))
            elif op in ("rbiapply", "rbiapplyT"): out.append("l1 %s %s %s" % (op, st(), rbi()))
            elif op == "rbimulv": out.append("l1 rbimulv %s %s" % (rbi(), sv()))
            elif op in ("crossm", "crossf"): out.append("l1 %s %s %s" % (op, sv(), sv()))
            elif op == "qmul": out.append("l1 qmul %s %s" % (uq(), uq()))
            elif op == "qtomat": out.append("l1 qtomat %s" % uq())
            elif op == "qfrommat":
                # rotation matrices incl. half-turns (trace -1) and rotations close to them
                E = self.rot()
                if r.random() < 0.3:
                    a = self.axis(); E = [[2 * a[i] * a[j] - (1 if i == j else 0) for j in range(3)] for i in range(3)]
                out.append("l1 qfrommat %s" % f([x for row in E for x in row]))
            elif op == "qrot": out.append("l1 qrot %s %s" % (uq(), f([self.dy(-2, 2) for _ in range(3)])))
            elif op == "qomega": out.append("l1 qomega %s %s" % (uq(), f([self.dy(-2, 2) for _ in range(3)])))
            elif op == "xrot": out.append("l1 xrot %s %s" % (fl(self.dy(-3, 3)), f(self.axis())))
            elif op == "gauss":
                n = r.randint(1, 5)
                A = [[self.dy(-2, 2) + (4 if i == j else 0) for j in range(n)] for i in range(n)]
                out.append("l1 gauss %d %s %d %s" % (n, f([x for row in A for x in row]), n, f([self.dy(-2, 2) for _ in range(n)])))
        self.meta["nontrivial"] = True
        return out

def generate(profile, seed, ncases, outfile, prefix="c"):
    g = Gen(seed, profile); metas = []
    with open(outfile, "w") as f:
        for i in range(ncases):
            g.meta = {"same": []}
            lines = getattr(g, "case_" + profile)(i)
            name = "%s%d" % (prefix, i)
            lines[0] = "case " + name
            g.meta["case"] = name
            text = "\n".join(lines)
            kinds = sorted(set(tok for l in lines if l.startswith("add ") for tok in [l[l.index("joint ") + 6:].split()[0]]))
            calls = sorted(set(l.split()[0] for l in lines if not l.startswith(("add ", "case ", "gravity", "dump", "set"))))
            g.meta["sig"] = "|".join(kinds) + "/" + "|".join(calls) + "/" + str(sum(1 for l in lines if l.startswith("add ")))
            g.meta["nontrivial"] = g.meta.get("nontrivial", any(l.startswith("add ") and " E 1.0 0.0 0.0 0.0 1.0 0.0 0.0 0.0 1.0 " not in l and " E 1 0 0 0 1 0 0 0 1 " not in l for l in lines))
            metas.append(g.meta)
            f.write(text + "\n")
    return g.stats, metas

if __name__ == "__main__":
    profile, seed, n, out = sys.argv[1], int(sys.argv[2]), int(sys.argv[3]), sys.argv[4]
    st, mt = generate(profile, seed, n, out)
    print(json.dumps(st))
