(* Correspondence driver, model side: runs the same case files through the
   extracted Gallina model (L2, lines "o ...") and the extracted first-principles
   specification (L3, lines "s ...") with IEEE doubles as the scalar instance. *)
open Model

let fo : float ops = { o0 = 0.; o1 = 1.; oadd = ( +. ); omul = ( *. ); osub = ( -. ); oopp = (fun x -> -. x);
  odiv = ( /. ); oinv = (fun x -> 1. /. x); osqrt = sqrt; ocos = cos; osin = sin; oatan2 = atan2;
  oltb = (fun a b -> a < b); oeqb = (fun a b -> a = b) }

let rec nat_of_int n = if n <= 0 then O else S (nat_of_int (n - 1))
let rec int_of_nat = function O -> 0 | S k -> 1 + int_of_nat k
let rec pos_of_int n = if n = 1 then XH else if n land 1 = 0 then XO (pos_of_int (n lsr 1)) else XI (pos_of_int (n lsr 1))
let n_of_int n = if n = 0 then N0 else Npos (pos_of_int n)
let rec int_of_pos = function XH -> 1 | XO p -> 2 * int_of_pos p | XI p -> 2 * int_of_pos p + 1
let int_of_n = function N0 -> 0 | Npos p -> int_of_pos p
let umax = 4294967295

(* ---------- tokens ---------- *)
type toks = { t : string array; mutable i : int }
let toks line = { t = Array.of_list (List.filter (fun s -> s <> "") (String.split_on_char ' ' (String.trim line))); i = 0 }
let more t = t.i < Array.length t.t
let str t = if t.i >= Array.length t.t then failwith "short line" else (let s = t.t.(t.i) in t.i <- t.i + 1; s)
let num t = float_of_string (str t)
let integer t = int_of_string (str t)
let v3 t = let a = num t in let b = num t in let c = num t in { vx = a; vy = b; vz = c }
let m3 t = let a = Array.init 9 (fun _ -> num t) in
  { m00 = a.(0); m01 = a.(1); m02 = a.(2); m10 = a.(3); m11 = a.(4); m12 = a.(5); m20 = a.(6); m21 = a.(7); m22 = a.(8) }
let sv t = let a = Array.init 6 (fun _ -> num t) in { s0 = a.(0); s1 = a.(1); s2 = a.(2); s3 = a.(3); s4 = a.(4); s5 = a.(5) }
let vec t = let n = integer t in List.init n (fun _ -> num t)

(* ---------- output ---------- *)
let buf = Buffer.create 65536
let pf fmt = Printf.bprintf buf fmt
let od x = pf " %.17g" x
let ou x = pf " %d" x
let os x = pf " %s" x
let ov3 v = od v.vx; od v.vy; od v.vz
let om3 m = od m.m00; od m.m01; od m.m02; od m.m10; od m.m11; od m.m12; od m.m20; od m.m21; od m.m22
let osv v = od v.s0; od v.s1; od v.s2; od v.s3; od v.s4; od v.s5
let ovec l = List.iter od l
let omat m = List.iter ovec m
let ost x = om3 x.stE; ov3 x.str
let beg tag seq label = pf "%s %d %s" tag seq label
let fin () = pf "\n"
(* a line whose value cannot be computed (exception inside f) leaves no partial output behind *)
let line tag seq label f =
  let n0 = Buffer.length buf in
  (try beg tag seq label; f (); fin () with e -> Buffer.truncate buf n0; raise e)
(* Results of the implementation (second command-line argument: the output file of the C++ driver on the same
   cases).  When present, the property residuals ("c" lines) are evaluated on the IMPLEMENTATION's results against
   the L3 specification, so that a residual line that fails is a concrete input on which the code breaks the property. *)
let impl_tbl : (string * int * string, float list) Hashtbl.t = Hashtbl.create 1024
let cur_case = ref ""
let load_impl path =
  let ic = open_in path in
  let cn = ref "" in
  (try while true do
      let l = input_line ic in
      match String.split_on_char ' ' (String.trim l) with
      | "case" :: n :: _ -> cn := n
      | "o" :: sq :: lab :: rest ->
        (try Hashtbl.replace impl_tbl (!cn, int_of_string sq, lab) (List.map float_of_string (List.filter (fun x -> x <> "") rest))
         with Failure _ -> (if rest = ["throw"] then try Hashtbl.replace impl_tbl (!cn, int_of_string sq, lab) [nan] with Failure _ -> ()))
      | _ -> ()
    done with End_of_file -> ());
  close_in ic
let impl_or seq label (dflt : float list) : float list =
  match Hashtbl.find_opt impl_tbl (!cur_case, seq, label) with
  | Some v when List.length v = List.length dflt && List.for_all (fun x -> Float.is_finite x) v -> v
  | _ -> dflt

let name_of nm = if nm = 0 then "" else if nm = 1 then "ROOT" else Printf.sprintf "n%d" nm

(* ---------- context ---------- *)
type ctx = {
  mutable m : float model;
  mutable ids : int list;             (* reversed; -1 = rejected *)
  mutable used_names : int list;      (* reversed *)
  mutable sp : float specState;
  mutable srefs : int list;           (* reversed; node index or -1 *)
  mutable crows : float cRow list;          (* constraint rows, in order *)
  mutable srows : float sRow list;
  mutable act : bool list;            (* actuation map *)
  mutable luamode : bool;             (* parents are resolved through body names, as the Lua loader does *)
  mutable opnames : int list;         (* reversed: name number of the k-th add *)
}
let new_ctx () = { m = model0 fo; ids = []; used_names = []; sp = spec0; srefs = []; crows = []; srows = []; act = []; luamode = false; opnames = [] }
let nth_rev l k = List.nth (List.rev l) k
let ref_id c s =
  if s = "base" then 0 else if s = "prev" then int_of_n c.m.prev_id
  else (let k = int_of_string s in if k < 0 || k >= List.length c.ids then umax else (let v = nth_rev c.ids k in if v < 0 then umax else v))
(* spec node for a reference: None = base;  raises Not_found for rejected refs *)
let ref_node c s : nat option =
  if s = "base" then None
  else if s = "prev" then (match List.filter (fun k -> k >= 0) c.srefs with [] -> None | k :: _ -> Some (nat_of_int k))
  else (let k = nth_rev c.srefs (int_of_string s) in if k < 0 then raise Not_found else Some (nat_of_int k))
let fext t : float sV list option =
  let _ = str t in let n = integer t in
  if n = 0 then None else Some (List.init n (fun _ -> sv t))

let jtype_num = function
  | JRoot -> 0 | JRevolute -> 1 | JPrismatic -> 2 | JRevX -> 3 | JRevY -> 4 | JRevZ -> 5 | JSpherical -> 6
  | JEulerZYX -> 7 | JEulerXYZ -> 8 | JEulerYXZ -> 9 | JEulerZXY -> 10 | JTransXYZ -> 11 | JHelical -> 14 | JCustom _ -> 21

let parse_joint t : float jSpec =
  match str t with
  | "fixed" -> SFixed | "revx" -> SRevX | "revy" -> SRevY | "revz" -> SRevZ
  | "rev" -> SRev (v3 t) | "pris" -> SPris (v3 t) | "axis" -> SAxis (sv t)
  | "sph" -> SSph | "ezyx" -> SEZYX | "exyz" -> SEXYZ | "eyxz" -> SEYXZ | "ezxy" -> SEZXY | "txyz" -> STXYZ
  | "float" -> SFloat
  | "emu" -> let k = integer t in SEmu (List.init k (fun _ -> sv t))
  | "crevx" -> SCustom CRevX | "cezyx" -> SCustom CEulerZYX | "crztx" -> SCustom CRzTx
  | _ -> SBad

(* ---------- scramble (free workspace entries only; same numbers as the C++ driver) ---------- *)
let scr k idx comp = float_of_int ((k * 7 + idx * 3 + comp * 5) mod 11) *. 0.125 -. 0.5
let scramble (m : float model) k =
  let w = m.ws in
  let n = List.length m.bodies in
  let svi f = List.init n (fun i -> let g c = f i c in { s0 = g 0; s1 = g 1; s2 = g 2; s3 = g 3; s4 = g 4; s5 = g 5 }) in
  let m3i i off = let g c e = scr k i (3 * c + e + off) in
    { m00 = g 0 0; m01 = g 0 1; m02 = g 0 2; m10 = g 1 0; m11 = g 1 1; m12 = g 1 2; m20 = g 2 0; m21 = g 2 1; m22 = g 2 2 } in
  let keep0 old nw = match old, nw with o :: _, _ :: t -> o :: t | _ -> nw in
  let m66i i = let blk r c = let g a b = scr k i (3 * r + a + 3 * c + b) in
      { m00 = g 0 0; m01 = g 0 1; m02 = g 0 2; m10 = g 1 0; m11 = g 1 1; m12 = g 1 2; m20 = g 2 0; m21 = g 2 1; m22 = g 2 2 } in
    { bUL = blk 0 0; bUR = blk 0 1; bLL = blk 1 0; bLR = blk 1 1 } in
  let w' = { w with
    wv = svi (fun i c -> scr k i c); wa = svi (fun i c -> scr k i (c + 1));
    wc = keep0 w.wc (svi (fun i c -> scr k i (c + 2)));
    wf = svi (fun i c -> scr k i (c + 3)); wpA = svi (fun i c -> scr k i (c + 4)); wU = svi (fun i c -> scr k i (c + 5));
    wIA = List.init n m66i;
    wmU = List.init n (fun i -> List.init 3 (fun e -> let g c = scr k i (c + e + 1) in { s0 = g 0; s1 = g 1; s2 = g 2; s3 = g 3; s4 = g 4; s5 = g 5 }));
    wd = List.init n (fun i -> scr k i 6 +. 2.); wu = List.init n (fun i -> scr k i 7);
    wmu = List.init n (fun i -> { vx = scr k i 8; vy = scr k i 9; vz = scr k i 10 });
    wmDinv = List.init n (fun i -> let g c e = scr k i (c + e + 2) in
      { m00 = g 0 0; m01 = g 0 1; m02 = g 0 2; m10 = g 1 0; m11 = g 1 1; m12 = g 1 2; m20 = g 2 0; m21 = g 2 1; m22 = g 2 2 });
    wIc = List.init n (fun i -> { rm = scr k i 1 +. 1.; rh = { vx = scr k i 2; vy = scr k i 3; vz = scr k i 4 };
      rIxx = scr k i 5; rIyx = scr k i 6; rIyy = scr k i 7; rIzx = scr k i 8; rIzy = scr k i 9; rIzz = scr k i 10 });
    wXl = keep0 w.wXl (List.init n (fun i -> { stE = m3i i 0; str = { vx = scr k i 9; vy = scr k i 10; vz = scr k i 11 } }));
    wXb = keep0 w.wXb (List.init n (fun i -> { stE = m3i i 1; str = { vx = scr k i 12; vy = scr k i 13; vz = scr k i 14 } }));
  } in
  set_ws m w'

(* ---------- spec helpers ---------- *)
let zero3 = { vx = 0.; vy = 0.; vz = 0. }
let zsv = { s0 = 0.; s1 = 0.; s2 = 0.; s3 = 0.; s4 = 0.; s5 = 0. }
let m3tv m v = { vx = m.m00 *. v.vx +. m.m10 *. v.vy +. m.m20 *. v.vz; vy = m.m01 *. v.vx +. m.m11 *. v.vy +. m.m21 *. v.vz;
                 vz = m.m02 *. v.vx +. m.m12 *. v.vy +. m.m22 *. v.vz }
let m3t m = { m00 = m.m00; m01 = m.m10; m02 = m.m20; m10 = m.m01; m11 = m.m11; m12 = m.m21; m20 = m.m02; m21 = m.m12; m22 = m.m22 }
let mm3 a b = { m00 = a.m00 *. b.m00 +. a.m01 *. b.m10 +. a.m02 *. b.m20; m01 = a.m00 *. b.m01 +. a.m01 *. b.m11 +. a.m02 *. b.m21; m02 = a.m00 *. b.m02 +. a.m01 *. b.m12 +. a.m02 *. b.m22;
              m10 = a.m10 *. b.m00 +. a.m11 *. b.m10 +. a.m12 *. b.m20; m11 = a.m10 *. b.m01 +. a.m11 *. b.m11 +. a.m12 *. b.m21; m12 = a.m10 *. b.m02 +. a.m11 *. b.m12 +. a.m12 *. b.m22;
              m20 = a.m20 *. b.m00 +. a.m21 *. b.m10 +. a.m22 *. b.m20; m21 = a.m20 *. b.m01 +. a.m21 *. b.m11 +. a.m22 *. b.m21; m22 = a.m20 *. b.m02 +. a.m21 *. b.m12 +. a.m22 *. b.m22 }
let v3sub a b = { vx = a.vx -. b.vx; vy = a.vy -. b.vy; vz = a.vz -. b.vz }
let v3add a b = { vx = a.vx +. b.vx; vy = a.vy +. b.vy; vz = a.vz +. b.vz }
let v3scale k a = { vx = k *. a.vx; vy = k *. a.vy; vz = k *. a.vz }
let v3cross a b = { vx = a.vy *. b.vz -. a.vz *. b.vy; vy = a.vz *. b.vx -. a.vx *. b.vz; vz = a.vx *. b.vy -. a.vy *. b.vx }
let v3dot a b = a.vx *. b.vx +. a.vy *. b.vy +. a.vz *. b.vz
let ndof c = int_of_nat c.sp.sndof
let zeros n = List.init n (fun _ -> 0.)
let unit n k = List.init n (fun i -> if i = k then 1. else 0.)
(* kinematic state of the node of reference s along (q, qd, qdd); base => identity at rest *)
let kstate_of c s q qd qdd : float kState =
  match ref_node c s with
  | None -> { kR = { m00 = 1.; m01 = 0.; m02 = 0.; m10 = 0.; m11 = 1.; m12 = 0.; m20 = 0.; m21 = 0.; m22 = 1. }; kp = zero3; kw = zero3; kdw = zero3;
              kRd = m3zero fo; kRdd = m3zero fo; kpd = zero3; kpdd = zero3 }
  | Some k -> List.nth (kstates fo c.sp.snodes c.sp.ssph c.sp.sndof q qd qdd) (int_of_nat k)
let spec_fext c (fe : float sV list option) : float sV list =
  let nodes = List.length c.sp.snodes in
  match fe with
  | None -> List.init nodes (fun _ -> zsv)
  | Some l ->
    (* node k <- f_ext[id of the k-th accepted add] when that id is a movable body *)
    let ids = List.rev c.ids and srefs = List.rev c.srefs in
    let tbl = Array.make nodes zsv in
    List.iter2 (fun id nk -> if nk >= 0 && id >= 0 && id < List.length l then tbl.(nk) <- List.nth l id) ids srefs;
    (* a force on a massless intermediate body of an emulated multi-DoF joint has no node in the specification:
       no oracle value for such a call (correspondence and the nle_is_id0 residual still apply) *)
    List.iteri (fun i f -> if i > 0 && f <> zsv && not (List.exists2 (fun id nk -> id = i && nk >= 0) ids srefs) then raise Not_found) l;
    Array.to_list tbl
let spec_tau c g q qd qdd fe = tau_np fo c.sp.snodes c.sp.ssph c.sp.sndof g q qd qdd (spec_fext c fe)
let spec_H c q = let n = ndof c in
  let cols = List.init n (fun k -> spec_tau c zero3 q (zeros n) (unit n k) None) in
  mTn fo cols (nat_of_int n)

(* condition estimate ||A||_inf ||A^-1||_inf (infinity when singular) *)
let cond_est (a : float list list) : float =
  let ninf m = List.fold_left (fun acc r -> max acc (List.fold_left (fun s x -> s +. abs_float x) 0. r)) 0. m in
  match minverse fo a with Some ai -> ninf a *. ninf ai | None -> infinity

(* extension hook: commands added by other modules (constraints, addons) *)
let ext_cmd : (ctx -> string -> toks -> int -> bool) ref = ref (fun _ _ _ _ -> false)

let dump c seq =
  let m = c.m in
  let len l = List.length l in
  line "o" seq "sizes" (fun () -> ou (int_of_nat m.dof_count); ou (int_of_nat m.q_size); ou (int_of_nat m.qdot_size);
    ou (len m.bodies); ou (len m.fixedb); ou (len m.lambda); ou (len m.joints); ou (len m.x_T); ou (len m.mI); ou (len m.ws.wv);
    ou (len m.ws.wXb); ou (len m.mu); ou (len m.w_index); ou (int_of_n m.prev_id); ou (len m.customs));
  line "o" seq "lambda" (fun () -> List.iter (fun x -> ou (int_of_nat x)) m.lambda);
  line "o" seq "lambda_q" (fun () -> List.iter (fun x -> ou (int_of_nat x)) m.lambda_q);
  line "o" seq "mu" (fun () -> List.iter (fun l -> os "|"; List.iter (fun x -> ou (int_of_nat x)) l) m.mu);
  line "o" seq "joints" (fun () -> List.iter (fun j -> ou (jtype_num j.jkind); ou (int_of_nat j.jdof); ou (int_of_nat j.jq)) m.joints);
  line "o" seq "w_index" (fun () -> List.iter2 (fun j w -> ou (match j.jkind with JSpherical -> int_of_nat w | _ -> 0)) m.joints m.w_index);
  line "o" seq "update_order" (fun () -> List.iter (fun x -> ou (int_of_nat x)) m.update_order);
  line "o" seq "virtual" (fun () -> List.iter (fun b -> ou (if b.bvirtual then 1 else 0)) m.bodies);
  line "o" seq "X_T" (fun () -> List.iter ost m.x_T);
  line "o" seq "axes" (fun () -> List.iter (fun j -> List.iter osv j.jaxes) m.joints);
  line "o" seq "I" (fun () -> List.iter (fun i -> od i.rm; ov3 i.rh; od i.rIxx; od i.rIyx; od i.rIyy; od i.rIzx; od i.rIzy; od i.rIzz) m.mI);
  line "o" seq "bodies" (fun () -> List.iter (fun b -> od b.bmass; ov3 b.bcom; om3 b.binertia) m.bodies);
  line "o" seq "fixed" (fun () -> List.iter (fun f -> ou (int_of_nat f.fparent); ost f.fxf; od f.fmass; ov3 f.fcom; om3 f.finertia) m.fixedb);
  line "o" seq "gravity" (fun () -> ov3 m.gravity);
  line "o" seq "names" (fun () -> List.iter (fun nm -> ou nm; ou (int_of_n (get_body_id m (n_of_int nm)))) (List.rev c.used_names));
  line "o" seq "ids" (fun () -> List.iter (fun id ->
    if id < 0 then os "rej" else begin
      let n = n_of_int id in
      ou id; ou (if is_fixed_id m n then 1 else 0); ou (if is_body_id m n then 1 else 0);
      ou (int_of_n (get_parent_body_id fo m n));
      os (match get_body_name m n with Some nm -> name_of (int_of_n nm) | None -> "-") end) (List.rev c.ids));
  line "o" seq "jframes" (fun () -> List.iter (fun id -> if id >= 0 then ost (get_joint_frame fo m (n_of_int id))) (List.rev c.ids))

let dump_kin c seq =
  let w = c.m.ws in let tl = function [] -> [] | _ :: t -> t in
  line "o" seq "v" (fun () -> List.iter osv (tl w.wv));
  line "o" seq "a" (fun () -> List.iter osv (tl w.wa));
  line "o" seq "X_base" (fun () -> List.iter ost (tl w.wXb))

let setw c w = c.m <- set_ws c.m w
let gzero n = mzeros 0. (nat_of_int n)

(* solve the consistent symmetric system A y = b by elimination with full pivoting; pivots below
   1e-9 * max|A| are treated as zero and their unknowns set to zero (same procedure as the C++ driver) *)
let solve_consistent (al : float list list) (bl : float list) : float list =
  let a = Array.of_list (List.map Array.of_list al) and b = Array.of_list bl in
  let n = Array.length b in
  let colp = Array.init n (fun i -> i) in
  let amax = ref 0. in
  for i = 0 to n - 1 do for j = 0 to n - 1 do amax := max !amax (abs_float a.(i).(j)) done done;
  let thr = max (1e-9 *. !amax) 1e-14 in
  let rank = ref 0 in
  (try
    for k = 0 to n - 1 do
      let pi = ref k and pj = ref k and best = ref (-1.) in
      for i = k to n - 1 do for j = k to n - 1 do
        if abs_float a.(i).(j) > !best then (best := abs_float a.(i).(j); pi := i; pj := j) done done;
      if !best <= thr then raise Exit;
      let tr = a.(k) in a.(k) <- a.(!pi); a.(!pi) <- tr;
      let tb = b.(k) in b.(k) <- b.(!pi); b.(!pi) <- tb;
      for i = 0 to n - 1 do let x = a.(i).(k) in a.(i).(k) <- a.(i).(!pj); a.(i).(!pj) <- x done;
      let tc = colp.(k) in colp.(k) <- colp.(!pj); colp.(!pj) <- tc;
      for i = k + 1 to n - 1 do
        let d = a.(i).(k) /. a.(k).(k) in
        for j = k to n - 1 do a.(i).(j) <- a.(i).(j) -. d *. a.(k).(j) done;
        b.(i) <- b.(i) -. d *. b.(k) done;
      rank := k + 1
    done with Exit -> ());
  let z = Array.make n 0. in
  for i = !rank - 1 downto 0 do
    let s = ref b.(i) in
    for j = i + 1 to !rank - 1 do s := !s -. a.(i).(j) *. z.(j) done;
    z.(i) <- !s /. a.(i).(i) done;
  let y = Array.make n 0. in
  for i = 0 to n - 1 do y.(colp.(i)) <- z.(i) done;
  Array.to_list y

(* numerical rank by elimination with full pivoting; pivots below 1e-9 * max|A| count as zero *)
let rank_of (a0 : float list list) : int =
  let r = List.length a0 in
  if r = 0 then 0 else
  let cdim = List.length (List.hd a0) in
  if cdim = 0 then 0 else
  let a = Array.of_list (List.map Array.of_list a0) in
  let amax = Array.fold_left (fun acc row -> Array.fold_left (fun acc x -> max acc (abs_float x)) acc row) 0. a in
  let thr = 1e-9 *. amax in
  let rank = ref 0 in
  (try for k = 0 to (min r cdim) - 1 do
      let best = ref (-1.) and pi = ref k and pj = ref k in
      for i = k to r - 1 do for j = k to cdim - 1 do
          if abs_float a.(i).(j) > !best then (best := abs_float a.(i).(j); pi := i; pj := j) done done;
      if !best <= thr then raise Exit;
      let tmp = a.(k) in a.(k) <- a.(!pi); a.(!pi) <- tmp;
      for i = 0 to r - 1 do let x = a.(i).(k) in a.(i).(k) <- a.(i).(!pj); a.(i).(!pj) <- x done;
      for i = k + 1 to r - 1 do
        let d = a.(i).(k) /. a.(k).(k) in
        for j = k to cdim - 1 do a.(i).(j) <- a.(i).(j) -. d *. a.(k).(j) done done;
      rank := k + 1
    done with Exit -> ());
  !rank
(* is the rank decision clear?  (no entry of the reduced matrix in the band between "zero up to rounding" and a pivot) *)
let rank_clear (a0 : float list list) : bool =
  let amax = List.fold_left (fun m row -> List.fold_left (fun m x -> max m (abs_float x)) m row) 0. a0 in
  if amax = 0. then true else begin
    let r = List.length a0 in let cdim = List.length (List.hd a0) in
    let a = Array.of_list (List.map Array.of_list a0) in
    let ok = ref true in
    (try for k = 0 to (min r cdim) - 1 do
        let best = ref (-1.) and pi = ref k and pj = ref k in
        for i = k to r - 1 do for j = k to cdim - 1 do
            if abs_float a.(i).(j) > !best then (best := abs_float a.(i).(j); pi := i; pj := j) done done;
        if !best <= 1e-6 *. amax then begin
          (* everything that is left must be exactly zero for the decision to be independent of thresholds *)
          if !best > 0. then ok := false; raise Exit end;
        let tmp = a.(k) in a.(k) <- a.(!pi); a.(!pi) <- tmp;
        for i = 0 to r - 1 do let x = a.(i).(k) in a.(i).(k) <- a.(i).(!pj); a.(i).(!pj) <- x done;
        for i = k + 1 to r - 1 do
          let d = a.(i).(k) /. a.(k).(k) in
          for j = k to cdim - 1 do a.(i).(j) <- a.(i).(j) -. d *. a.(k).(j) done done
      done with Exit -> ());
    !ok end

(* ---------- constraint commands ---------- *)
let baum_of (r : float cRow) err errd = match r with
  | RLoop (_, _, _, _, _, true, ts) -> let k = 1. /. ts in -. 2. *. k *. errd -. k *. k *. err
  | _ -> 0.
let dotl a b = List.fold_left2 (fun acc x y -> acc +. x *. y) 0. a b
let maxabs l = List.fold_left (fun a x -> max a (abs_float x)) 0. l
let cons_cmd c cmd t seq =
  let m = c.m in
  let n_qd = int_of_nat m.qdot_size in
  let nn = nat_of_int n_qd in
  let spec_ok = List.length c.srows = List.length c.crows in
  let jets q qd qdd = spec_phi_jets fo c.sp.snodes c.sp.ssph c.sp.sndof q qd qdd c.srows in
  let spec_G q = (* rows: d phi / d qd_k *)
    let cols = List.init n_qd (fun k -> List.map (fun j -> j.j1) (jets q (unit n_qd k) (zeros n_qd))) in
    mTn fo cols (nat_of_int (List.length c.crows)) in
  let spec_try f = if spec_ok then (try f () with Not_found | Failure _ | Invalid_argument _ -> ()) in
  (* velocity consistent with the constraints: qd - G^T (G G^T)^-1 G qd, with the model's own G *)
  (* the velocity made consistent with the constraints is an INPUT of the compared routines: both sides use the
     implementation's projection (an ill-conditioned projection would otherwise differ by 1e-7 between the two
     sides and the difference would be attributed to the library) *)
  let feas_qd seq (p : float list) : float list =
    let v = impl_or seq "qd_feas" p in line "o" seq "qd_feas" (fun () -> ovec v); v in
  let project q qd =
    let w = ukc_q fo c.m c.m.ws q in
    let g = cons_G fo c.m w c.crows in
    let mm = nat_of_int (List.length c.crows) in
    let a = mmmul fo g (mTn fo g nn) mm in
    let y = solve_consistent a (mvmul fo g qd) in
    List.map2 (fun x d -> x -. d) qd (mTvmul fo g nn y) in
  match cmd with
  | "cjac" ->
    let flag = integer t <> 0 in let q = vec t in
    let w = if flag then ukc_q fo m m.ws q else m.ws in
    setw c w; line "o" seq "G" (fun () -> omat (cons_G fo c.m w c.crows));
    spec_try (fun () -> line "s" seq "G" (fun () -> omat (spec_G q)))
  | "cerr" ->
    let flag = integer t <> 0 in let q = vec t in
    let w = if flag then ukc_q fo m m.ws q else m.ws in
    setw c w; line "o" seq "err" (fun () -> ovec (List.map (cons_row_err fo c.m w) c.crows));
    spec_try (fun () -> line "s" seq "err" (fun () ->
      List.iter2 (fun r j -> od (match r with RContact _ -> 0. | _ -> j.j0)) c.crows (jets q (zeros n_qd) (zeros n_qd))))
  | "cverr" ->
    let flag = integer t <> 0 in let q = vec t in let qd = vec t in
    (* CalcConstraintsVelocityError: Jacobian (with the position update when the flag is set); the contact rows read the
       body velocities of the workspace *)
    let w = if flag then ukc_q fo m m.ws q else m.ws in
    let w = if flag then ukc_qd fo c.m w q qd else w in
    setw c w;
    let g = cons_G fo c.m w c.crows in
    line "o" seq "errd" (fun () -> List.iteri (fun k r -> od (cons_row_errd fo c.m w qd g (nat_of_int k) r)) c.crows);
    spec_try (fun () -> line "s" seq "errd" (fun () -> List.iter (fun j -> od j.j1) (jets q qd (zeros n_qd))))
  | "csys" ->
    let feas = (t.t.(t.i) = "feas") in if feas then ignore (str t);
    let q = vec t in let qd0 = vec t in let _tau = vec t in let fe = fext t in
    let qd = if feas then feas_qd seq (project q qd0) else qd0 in
    let (w, sy) = calc_constrained_system_variables fo m m.ws q qd c.crows true fe in
    setw c w;
    line "o" seq "H" (fun () -> omat sy.cH); line "o" seq "C" (fun () -> ovec sy.cC);
    line "o" seq "G" (fun () -> omat sy.cG); line "o" seq "gamma" (fun () -> ovec sy.cgamma);
    line "o" seq "err" (fun () -> ovec sy.cerr); line "o" seq "errd" (fun () -> ovec sy.cerrd);
    spec_try (fun () ->
      let js = jets q qd (zeros n_qd) in
      line "s" seq "H" (fun () -> omat (spec_H c q));
      line "s" seq "C" (fun () -> ovec (spec_tau c m.gravity q qd (zeros n_qd) fe));
      line "s" seq "G" (fun () -> omat (spec_G q));
      line "s" seq "gamma" (fun () -> List.iter2 (fun r j -> od (-. j.j2 +. baum_of r (match r with RContact _ -> 0. | _ -> j.j0) j.j1)) c.crows js);
      line "s" seq "errd" (fun () -> List.iter (fun j -> od j.j1) js))
  | "fdc" ->
    let _meth = str t in
    let feas = (t.t.(t.i) = "feas") in if feas then ignore (str t);
    let q = vec t in let qd0 = vec t in let tau = vec t in let fe = fext t in
    let qd = if feas then feas_qd seq (project q qd0) else qd0 in
    let ((w, sy), sol) = forward_dynamics_constraints fo m m.ws q qd tau c.crows fe in
    setw c w;
    (match sol with
     | Some (qdd, lam) ->
       line "o" seq "qdd" (fun () -> ovec qdd); line "o" seq "force" (fun () -> ovec lam);
       line "i" seq "cond" (fun () -> od (max (cond_est sy.cH) (cond_est (kkt_matrix fo sy.cH sy.cG nn (nat_of_int (List.length c.crows))))));
       spec_try (fun () ->
         (* independent residuals: equation of motion with the L3 inverse dynamics, and the measured
            second derivative of every constraint function along the returned acceleration *)
         let qdd = impl_or seq "qdd" qdd and lam = impl_or seq "force" lam in
         let tn = spec_tau c m.gravity q qd qdd fe in
         let g = spec_G q in
         let gtl = mTvmul fo g nn lam in
         let res = List.map2 (fun a b -> a -. b) (List.map2 (fun a b -> a -. b) tn tau) gtl in
         line "c" seq "fdc_motion" (fun () -> od (maxabs res); od (maxabs (tau @ tn @ gtl)));
         let js = jets q qd qdd in
         let r2 = List.map2 (fun r j -> j.j2 -. baum_of r (match r with RContact _ -> 0. | _ -> j.j0) j.j1) c.crows js in
         line "c" seq "fdc_constraint_acc" (fun () -> od (maxabs r2); od (maxabs (List.map (fun j -> j.j2) js) +. maxabs qdd)))
     | None -> line "o" seq "qdd" (fun () -> os "singular"))
  | "actuation" ->
    let k = integer t in c.act <- List.init k (fun _ -> integer t <> 0)
  | "idc" ->
    let meth = str t in
    let feas = ref false and feasacc = ref false in
    while t.t.(t.i) = "feas" || t.t.(t.i) = "feasacc" do (if str t = "feas" then feas := true else feasacc := true) done;
    let q = vec t in let qd0 = vec t in let qdes0 = vec t in let fe = fext t in
    let qd = if !feas then feas_qd seq (project q qd0) else qd0 in
    let nc = List.length c.crows in
    let qdes = if !feasacc then begin
        let ((_, sy), _) = forward_dynamics_constraints fo m m.ws q qd (zeros n_qd) c.crows fe in
        let g = sy.cG in
        let a = mmmul fo g (mTn fo g nn) (nat_of_int nc) in
        let y = solve_consistent a (List.map2 (fun x y -> x -. y) (mvmul fo g qdes0) sy.cgamma) in
        List.map2 (fun x d -> x -. d) qdes0 (mTvmul fo g nn y) end else qdes0 in
    let relaxed = (meth <> "exact") in
    let ((w, sy), sol) = inverse_dynamics_constraints fo m m.ws q qd qdes c.crows c.act relaxed fe in
    setw c w;
    let nu = List.length (List.filter (fun b -> not b) c.act) in
    (match sol with
     | Some ((qdd, tau), lam) ->
       line "o" seq "qdd" (fun () -> ovec qdd);
       (* with more constraint rows than unactuated coordinates the multipliers (and hence tau) are not unique *)
       if (not relaxed) && nc <> nu then (line "o" seq "tauc" (fun () -> os "singular"); line "o" seq "force" (fun () -> os "singular"))
       else (line "o" seq "tauc" (fun () -> ovec tau); line "o" seq "force" (fun () -> ovec lam));
       line "i" seq "cond" (fun () -> od (max (cond_est sy.cH) (cond_est (idc_rows fo sy.cH sy.cG nn (nat_of_int nc) c.act relaxed))));
       spec_try (fun () ->
         (* property residuals on the implementation's results against the L3 specification *)
         let qdd = impl_or seq "qdd" qdd and tau = impl_or seq "tauc" tau and lam = impl_or seq "force" lam in
         let tn = spec_tau c m.gravity q qd qdd fe in
         let g = spec_G q in
         let gtl = mTvmul fo g nn lam in
         let res = List.map2 (fun a b -> a -. b) (List.map2 (fun a b -> a -. b) tn tau) gtl in
         line "c" seq "idc_motion" (fun () -> od (maxabs res); od (maxabs (tau @ tn @ gtl)));
         let js = jets q qd qdd in
         let r2 = List.map2 (fun r j -> j.j2 -. baum_of r (match r with RContact _ -> 0. | _ -> j.j0) j.j1) c.crows js in
         line "c" seq "idc_constraint_acc" (fun () -> od (maxabs r2); od (maxabs (List.map (fun j -> j.j2) js) +. maxabs qdd));
         let un = List.filter_map (fun x -> x) (List.map2 (fun a tv -> if a then None else Some tv) c.act tau) in
         line "c" seq "idc_unactuated_tau" (fun () -> od (maxabs un); od (maxabs tau));
         if not relaxed then begin
           let da = List.filter_map (fun x -> x) (List.map2 (fun a (x, y) -> if a then Some (x -. y) else None) c.act (List.combine qdd qdes)) in
           line "c" seq "idc_actuated_acc" (fun () -> od (maxabs da); od (maxabs (qdd @ qdes))) end)
     | None -> line "o" seq "qdd" (fun () -> os "singular"))
  | "fullact" ->
    let q = vec t in let qd = vec t in let fe = fext t in
    let ((w, sy), _) = forward_dynamics_constraints fo m m.ws q qd (zeros n_qd) c.crows fe in
    setw c w;
    let nu = List.length (List.filter (fun b -> not b) c.act) in
    line "o" seq "fullact_G" (fun () -> omat sy.cG);
    (* the rank decision is judged on the Jacobian the IMPLEMENTATION's test saw (rounding noise in it can turn a
       structurally zero pivot into one that Eigen's default threshold accepts); the model's Jacobian is compared
       with it entry by entry through the fullact_G line *)
    let nrows = List.length sy.cG in
    let gsrc = match Hashtbl.find_opt impl_tbl (!cur_case, seq, "fullact_G") with
      | Some l when nrows > 0 && List.length l = nrows * n_qd ->
        List.init nrows (fun i -> List.init n_qd (fun j -> List.nth l (i * n_qd + j)))
      | _ -> sy.cG in
    let gp = gpt gsrc c.act in
    let gmax = List.fold_left (fun m row -> List.fold_left (fun m x -> max m (abs_float x)) m row) 0. gp in
    if nu > 0 && gp <> [] && (gmax < 1e-9 || not (rank_clear gp)) then
      (* G P^T is zero up to rounding noise: a rank decision on noise is not compared *)
      line "o" seq "fullact" (fun () -> os "singular")
    else begin
      let r = rank_of gp in
      line "o" seq "fullact" (fun () -> ou (if r = nu then 1 else 0));
      spec_try (fun () -> line "s" seq "fullact" (fun () -> ou (if rank_of (gpt (spec_G q) c.act) = nu then 1 else 0))) end
  | "asmq" ->
    let step = (str t = "step") in let sfx = if step then "" else "_full" in
    let q0 = vec t in let wts = vec t in let tol = num t in let maxit = integer t in
    let maxit = if step then 1 else maxit in
    let ((w, ok), q) = assembly_q fo (nat_of_int maxit) m m.ws q0 c.crows wts tol in
    setw c w;
    let kcond () =
      let w0 = ukc_q fo c.m c.m.ws q0 in let g = cons_G fo c.m w0 c.crows in
      cond_est (kkt_matrix fo (List.mapi (fun i _ -> List.mapi (fun j _ -> if i = j then List.nth wts i else 0.) wts) wts) g nn (nat_of_int (List.length c.crows))) in
    if step then begin
      line "o" seq "asmok" (fun () -> ou (if ok then 1 else 0)); line "o" seq "asmq" (fun () -> ovec q);
      line "i" seq "cond" (fun () -> od (kcond ())) end
    else line "i" seq "asm_cond" (fun () -> od (kcond ()));
    spec_try (fun () ->
      let qi = impl_or seq ("asmq" ^ sfx) q in
      let okv = (match impl_or seq ("asmok" ^ sfx) [if ok then 1. else 0.] with [x] -> x | _ -> 0.) in
      let js = jets qi (zeros n_qd) (zeros n_qd) in
      let ph = List.map2 (fun r j -> match r with RContact _ -> 0. | _ -> j.j0) c.crows js in
      let pn = sqrt (dotl ph ph) in
      line "i" seq "asm_residual" (fun () -> od pn);
      if okv = 1. then begin
        line "c" seq "asm_success_residual" (fun () -> od (max 0. (pn -. tol)); od pn);
        (* unit quaternions *)
        let nq = List.length qi in
        let qa = Array.of_list qi in
        let dev = ref 0. and k = ref 0 in
        List.iteri (fun i (j : float joint) -> match j.jkind with
            | JSpherical -> let qi0 = int_of_nat j.jq in let wi = n_qd + !k in incr k;
              if wi < nq then dev := max !dev (abs_float (sqrt (qa.(qi0) ** 2. +. qa.(qi0 + 1) ** 2. +. qa.(qi0 + 2) ** 2. +. qa.(wi) ** 2.) -. 1.))
            | _ -> ignore i) m.joints;
        line "c" seq "asm_unit_quaternions" (fun () -> od !dev; od 1.) end)
  | "asmqd" ->
    let q = vec t in let qd0 = vec t in let wts = vec t in
    let (w, sol) = assembly_qdot fo m m.ws q qd0 c.crows wts in
    setw c w;
    (match sol with
     | Some (qd, _) ->
       line "o" seq "asmqd" (fun () -> ovec qd);
       spec_try (fun () ->
         let qdi = impl_or seq "asmqd" qd in
         let g = spec_G q in
         let mm = nat_of_int (List.length c.crows) in
         line "i" seq "cond" (fun () -> od (cond_est (kkt_matrix fo (List.mapi (fun i _ -> List.mapi (fun j _ -> if i = j then List.nth wts i else 0.) wts) wts) g nn mm)));
         let gq = mvmul fo g qdi in
         line "c" seq "asmqd_feasible" (fun () -> od (maxabs gq); od (maxabs qdi));
         (* weighted least squares: W (qd - qd0) lies in the range of G^T *)
         let r = List.map2 (fun wv (a, b) -> wv *. (a -. b)) wts (List.combine qdi qd0) in
         let a = mmmul fo g (mTn fo g nn) mm in
         let y = solve_consistent a (mvmul fo g r) in
         let rr = List.map2 (fun x d -> x -. d) r (mTvmul fo g nn y) in
         line "c" seq "asmqd_closest" (fun () -> od (maxabs rr); od (maxabs r +. maxabs qdi)))
     | None -> line "o" seq "asmqd" (fun () -> os "singular"))
  | "imp" ->
    let _meth = str t in let q = vec t in let qdm = vec t in let vp = vec t in
    let (w, sol) = constraint_impulses fo m m.ws q qdm c.crows vp in
    setw c w;
    (match sol with
     | Some (qdp, lam) ->
       line "o" seq "qdplus" (fun () -> ovec qdp); line "o" seq "impulse" (fun () -> ovec lam);
       spec_try (fun () ->
         let h = spec_H c q in let g = spec_G q in
         line "i" seq "cond" (fun () -> od (max (cond_est h) (cond_est (kkt_matrix fo h g nn (nat_of_int (List.length c.crows))))));
         let qdp = impl_or seq "qdplus" qdp and lam = impl_or seq "impulse" lam in
         let gq = mvmul fo g qdp in
         line "c" seq "imp_feasible" (fun () -> od (maxabs (List.map2 (fun a b -> a -. b) gq vp)); od (maxabs (gq @ vp)));
         let hd = mvmul fo h (List.map2 (fun a b -> a -. b) qdp qdm) in let gtl = mTvmul fo g nn lam in
         line "c" seq "imp_momentum" (fun () -> od (maxabs (List.map2 (fun a b -> a +. b) hd gtl)); od (maxabs (hd @ gtl)));
         let ke v = 0.5 *. dotl v (mvmul fo h v) in
         if maxabs vp = 0. then line "c" seq "imp_energy" (fun () -> od (max 0. (ke qdp -. ke qdm)); od (ke qdm)))
     | None -> line "o" seq "qdplus" (fun () -> os "singular"))
  | _ -> ()

(* ---------- curve commands (geometry / muscle addons) ---------- *)
let eps_d = epsilon_float
let cur_curve : float sSF option ref = ref None
let cur_kind = ref ""
let impl_get seq label = Hashtbl.find_opt impl_tbl (!cur_case, seq, label)
let p6_of a k = { p0 = a.(k); p1 = a.(k + 1); p2 = a.(k + 2); p3 = a.(k + 3); p4 = a.(k + 4); p5 = a.(k + 5) }
let curve_cmd cmd t seq =
  let six () = let a = Array.init 6 (fun _ -> num t) in p6_of a 0 in
  let utol = eps_d *. 1e6 and told = eps_d *. 1e2 and toli = eps_d *. 1e11 in
  let mi0 = nat_of_int 12 and mi = nat_of_int 20 in
  let value s x = ssf_value fo s x utol told toli mi0 mi 0.05 in
  let deriv s k x = ssf_deriv fo s (nat_of_int k) x utol told toli mi0 mi 0.05 in
  let where () =
    match !cur_curve with
    | None -> (match str t with "x" -> num t | _ -> nan)
    | Some s ->
      let xa = Array.of_list s.sX in let ns = Array.length xa in
      (match str t with
       | "x" -> num t
       | "j" -> let k = integer t in if k >= ns then xa.(ns - 1).p5 else xa.(k).p0
       | "f" -> let k = integer t in let fr = num t in let k = if k >= ns then ns - 1 else k in xa.(k).p0 +. fr *. (xa.(k).p5 -. xa.(k).p0)
       | _ -> let side = integer t in let d = num t in if side = 0 then s.sx0 -. d else s.sx1 +. d) in
  match cmd with
  | "bez" ->
    (match str t with
     | "val" -> let u = num t in let p = six () in line "o" seq "bezval" (fun () -> od (bez_val fo u p))
     | "du" -> let k = integer t in let u = num t in let p = six () in line "o" seq "bezdu" (fun () -> od (bez_du fo (nat_of_int k) u p))
     | "dydx" -> let k = integer t in let u = num t in let x = six () in let y = six () in
       line "o" seq "bezdydx" (fun () -> od (bez_dydx fo (nat_of_int k) u x y))
     | "corner" ->
       let x0 = num t in let y0 = num t in let d0 = num t in let x1 = num t in let y1 = num t in let d1 = num t in let cv = num t in
       let re = sqrt eps_d in
       if corner_ok fo x0 y0 d0 x1 y1 d1 cv re then begin
         let (xp, yp) = corner_cp fo x0 y0 d0 x1 y1 d1 cv re in
         line "o" seq "corner" (fun () -> List.iter od [xp.p0; xp.p1; xp.p2; xp.p3; xp.p4; xp.p5; yp.p0; yp.p1; yp.p2; yp.p3; yp.p4; yp.p5]);
         (* the corner theorems' conclusions, evaluated on the implementation's control points *)
         (match impl_get seq "corner" with
          | Some l when List.length l = 12 ->
            let a = Array.of_list l in let xi = p6_of a 0 and yi = p6_of a 6 in
            let sl u d = abs_float (bez_du fo (S O) u yi -. d *. bez_du fo (S O) u xi) in
            let cu u = abs_float (bez_du fo (S (S O)) u yi *. bez_du fo (S O) u xi -. bez_du fo (S O) u yi *. bez_du fo (S (S O)) u xi) in
            let sc = 1. +. List.fold_left (fun m v -> max m (abs_float v)) 0. l in
            if abs_float (d0 -. d1) > re then line "c" seq "corner_start_slope" (fun () -> od (sl 0. d0); od sc);
            line "c" seq "corner_end_slope" (fun () -> od (sl 1. d1); od sc);
            if abs_float (d0 -. d1) > re then line "c" seq "corner_start_curvature" (fun () -> od (cu 0.); od (sc *. sc));
            line "c" seq "corner_end_curvature" (fun () -> od (cu 1.); od (sc *. sc))
          | _ -> ()) end
       else line "o" seq "corner" (fun () -> os "throw")
     | "calcu" -> let ax = num t in let p = six () in let tol = num t in let m = integer t in
       (match calc_u fo ax p tol told toli mi0 (nat_of_int m) 0.05 with
        | Some u -> line "o" seq "calcu" (fun () -> od u);
          (match impl_get seq "calcu" with
           | Some [ui] -> line "c" seq "calcu_residual" (fun () -> od (max 0. (abs_float (bez_val fo ui p -. ax) -. tol)); od 1.)
           | _ -> ())
        | None -> line "o" seq "calcu" (fun () -> os "throw"))
     | _ -> ())
  | "curve" ->
    let kind = str t in cur_kind := kind; cur_curve := None;
    (match impl_get seq "xcp_raw", impl_get seq "ycp_raw", impl_get seq "dom" with
     | Some xl, Some yl, Some [x0; x1; y0; y1; d0; d1] when List.length xl = List.length yl && List.length xl mod 6 = 0 && xl <> [] ->
       let xa = Array.of_list xl and ya = Array.of_list yl in let ns = Array.length xa / 6 in
       let xs = List.init ns (fun s -> p6_of xa (6 * s)) and ys = List.init ns (fun s -> p6_of ya (6 * s)) in
       let s = { sX = xs; sY = ys; sx0 = x0; sx1 = x1; sy0 = y0; sy1 = y1; sd0 = d0; sd1 = d1 } in
       cur_curve := Some s;
       let sc = 1. +. List.fold_left (fun m v -> max m (abs_float v)) 0. (xl @ yl) in
       (* the getters report the stored control points *)
       (match impl_get seq "xcp", impl_get seq "ycp" with
        | Some gx, Some gy when List.length gx = List.length xl && List.length gy = List.length yl ->
          line "c" seq "curve_getters" (fun () -> od (List.fold_left2 (fun m a b -> max m (abs_float (a -. b))) 0. (gx @ gy) (xl @ yl)); od sc)
        | _ -> line "c" seq "curve_getters" (fun () -> od 1.; od 0.));
       (* hypotheses of the junction / extrapolation theorems, evaluated on the control points *)
       let du1 u p = bez_du fo (S O) u p and du2 u p = bez_du fo (S (S O)) u p in
       let slope u xp yp = du1 u yp /. du1 u xp in
       let curv u xp yp = let a = du1 u xp in (du2 u yp *. a -. du1 u yp *. du2 u xp) /. (a *. a *. a) in
       let xsa = Array.of_list xs and ysa = Array.of_list ys in
       let degenerate = ref false in
       Array.iter (fun xp -> if du1 0. xp = 0. || du1 1. xp = 0. then degenerate := true) xsa;
       let jv = ref 0. and js = ref 0. and jc = ref 0. in
       for k = 0 to ns - 2 do
         jv := max !jv (max (abs_float (xsa.(k).p5 -. xsa.(k + 1).p0)) (abs_float (ysa.(k).p5 -. ysa.(k + 1).p0)));
         if not !degenerate then begin
           js := max !js (abs_float (slope 1. xsa.(k) ysa.(k) -. slope 0. xsa.(k + 1) ysa.(k + 1)));
           jc := max !jc (abs_float (curv 1. xsa.(k) ysa.(k) -. curv 0. xsa.(k + 1) ysa.(k + 1))) end
       done;
       line "c" seq "curve_join_value" (fun () -> od !jv; od sc);
       line "i" seq "curve_degenerate_end" (fun () -> ou (if !degenerate then 1 else 0));
       if not !degenerate then begin
         let ssc = 1. +. abs_float d0 +. abs_float d1 in
         line "c" seq "curve_join_slope" (fun () -> od !js; od (1e3 *. ssc));
         line "c" seq "curve_join_curvature" (fun () -> od !jc; od (1e6 *. ssc));
         (* ends: value, slope, zero curvature -> the linear extrapolation joins C2 *)
         let e0 = max (abs_float (xsa.(0).p0 -. x0)) (abs_float (ysa.(0).p0 -. y0)) and e1 = max (abs_float (xsa.(ns - 1).p5 -. x1)) (abs_float (ysa.(ns - 1).p5 -. y1)) in
         line "c" seq "curve_end_values" (fun () -> od (max e0 e1); od sc);
         line "c" seq "curve_end_slopes" (fun () -> od (max (abs_float (slope 0. xsa.(0) ysa.(0) -. d0)) (abs_float (slope 1. xsa.(ns - 1) ysa.(ns - 1) -. d1))); od (1e3 *. ssc));
         line "c" seq "curve_end_curvature" (fun () -> od (max (abs_float (curv 0. xsa.(0) ysa.(0))) (abs_float (curv 1. xsa.(ns - 1) ysa.(ns - 1)))); od (1e6 *. ssc)) end;
       (* x control points non-decreasing (dx/du >= 0 on [0,1]); y control points monotone for curves documented as monotonic *)
       let mono l = let rec inc = function a :: (b :: _ as r) -> a <= b +. 1e-12 *. (1. +. abs_float a +. abs_float b) && inc r | _ -> true in inc l in
       let xmono = List.for_all (fun p -> mono [p.p0; p.p1; p.p2; p.p3; p.p4; p.p5]) xs in
       line "c" seq "curve_x_monotone" (fun () -> od (if xmono then 0. else 1.); od 0.);
       let yl6 p = [p.p0; p.p1; p.p2; p.p3; p.p4; p.p5] in
       let ymono_inc = List.for_all (fun p -> mono (yl6 p)) ys and ymono_dec = List.for_all (fun p -> mono (List.rev (yl6 p))) ys in
       (match kind with
        | "fv" | "fvinv" | "fpe" | "ft" | "fcphi" -> line "c" seq "curve_y_monotone" (fun () -> od (if ymono_inc then 0. else 1.); od 0.)
        | "fcl" | "fccos" -> line "c" seq "curve_y_monotone" (fun () -> od (if ymono_dec then 0. else 1.); od 0.)
        | _ -> ())
     | _ -> ())
  | "cval" ->
    let x = where () in
    (match impl_get seq "cval" with
     | Some [v] when Float.is_nan v -> line "c" seq "curve_value_defined" (fun () -> od 1.; od 0.)   (* the library threw inside its own domain *)
     | _ -> ());
    (match !cur_curve with
     | Some s -> (match value s x with Some v -> line "o" seq "cval" (fun () -> od v) | None -> line "o" seq "cval" (fun () -> os "throw"))
     | None -> line "o" seq "cval" (fun () -> os "nocurve"))
  | "cder" ->
    let k = integer t in let x = where () in
    (match impl_get seq "cder" with
     | Some [v] when Float.is_nan v -> line "c" seq "curve_derivative_defined" (fun () -> od 1.; od 0.)
     | _ -> ());
    (match !cur_curve with
     | Some s -> (match deriv s k x with Some v -> line "o" seq "cder" (fun () -> od v) | None -> line "o" seq "cder" (fun () -> os "throw"))
     | None -> line "o" seq "cder" (fun () -> os "nocurve"))
  | "cinv" ->
    let fr = num t in let _gf = num t in
    (match !cur_curve, impl_get seq "cinv" with
     | Some s, Some [xi] when not (Float.is_finite xi) ->
       (* no pre-image reported: a violation when y is attained by a segment or by the linear extrapolation *)
       let y = s.sy0 +. fr *. (s.sy1 -. s.sy0) in
       let in_seg = List.exists (fun p -> (y -. p.p0) *. (p.p5 -. y) >= 0.) s.sY in
       let right = abs_float s.sd1 > 1e-9 && (y -. s.sy1) /. s.sd1 >= 0. and left = abs_float s.sd0 > 1e-9 && (y -. s.sy0) /. s.sd0 <= 0. in
       if in_seg || right || left then line "c" seq "cinv_preimage" (fun () -> od 1.; od 0.)
     | Some s, Some [xi] when Float.is_finite xi ->
       let y = s.sy0 +. fr *. (s.sy1 -. s.sy0) in
       (match value s xi with
        | Some v -> line "c" seq "cinv_preimage" (fun () -> od (abs_float (v -. y)); od (1. +. abs_float y))
        | None -> ())
     | _ -> ())
  | "tmuscle" ->
    (* the torque muscle is not modelled: the residuals are computed from the implementation's own outputs *)
    let _ds = integer t in let _g = integer t in let _a = integer t in let _j = integer t in
    let _ang = num t in let _vel = num t in let act = num t in
    (match impl_get seq "tm_tau", impl_get seq "tm_act", impl_get seq "tm_mult", impl_get seq "tm_partials", impl_get seq "tm_fd" with
     | Some [tau; tau2], Some [a2], Some [ta; tv; _tp], Some [da; dq; dw], Some [ap; am; qp; qm; wp; wm] ->
       let h = 1e-6 in
       line "c" seq "tm_info_torque" (fun () -> od (abs_float (tau -. tau2)); od (abs_float tau));
       if abs_float (ta *. tv) > 1e-3 then line "c" seq "tm_activation_inverts" (fun () -> od (abs_float (a2 -. act)); od 1e2);
       let sc = 1e3 *. (1. +. abs_float tau) in
       line "c" seq "tm_partial_activation" (fun () -> od (abs_float (da -. (ap -. am) /. (2. *. h))); od (sc +. abs_float da));
       line "c" seq "tm_partial_angle" (fun () -> od (abs_float (dq -. (qp -. qm) /. (2. *. h))); od (sc +. abs_float dq));
       line "c" seq "tm_partial_velocity" (fun () -> od (abs_float (dw -. (wp -. wm) /. (2. *. h))); od (sc +. abs_float dw))
     | _ -> ())
  | "cshift" ->
    let dx = num t in let dy = num t in
    (match !cur_curve with Some s -> cur_curve := Some (ssf_shift fo s dx dy); line "o" seq "cshift" (fun () -> os "ok")
                         | None -> line "o" seq "cshift" (fun () -> os "nocurve"))
  | "cscale" ->
    let kx = num t in let ky = num t in
    (match !cur_curve with Some s -> cur_curve := Some (ssf_scale fo s kx ky); line "o" seq "cscale" (fun () -> os "ok")
                         | None -> line "o" seq "cscale" (fun () -> os "nocurve"))
  | _ -> ()

let run_line c (l : string) seq =
  let t = toks l in
  if more t then begin
    let cmd = str t in
    let m = c.m in
    let n_qd = int_of_nat m.qdot_size in
    let spec_try f = try f () with Not_found | Failure _ | Invalid_argument _ -> () in
    try
      match cmd with
      | "gravity" -> c.m <- set_gravity m (v3 t)
      | "add" ->
        let pref = str t in let nm = integer t in
        let _ = str t in let e = m3 t in let _ = str t in let r = v3 t in
        let _ = str t in let mass = num t in let com = v3 t in let inr = m3 t in let virt = integer t in
        let _ = str t in let js = parse_joint t in
        if nm >= 1 && not (List.mem nm c.used_names) then c.used_names <- nm :: c.used_names;
        let b = { bmass = mass; bcom = com; binertia = inr; bvirtual = virt <> 0 } in
        let x = { stE = e; str = r } in
        (* as the Lua loader: the parent is looked up by NAME in the name map of this model; unknown names give ROOT *)
        let parent =
          if c.luamode then begin
            if pref = "base" then 0
            else if pref = "dangling" then 0
            else (match int_of_string_opt pref with
                | Some k when k >= 0 && k < List.length c.opnames ->
                  let pn = nth_rev c.opnames k in int_of_n (lua_parent m (n_of_int pn))
                | _ -> 0) end
          else ref_id c pref in
        c.opnames <- nm :: c.opnames;
        let (m', res) = add_body fo m (n_of_int parent) x js b (n_of_int nm) in
        c.m <- m';
        (match res with
         | ROk id -> line "o" seq "add" (fun () -> os "ok"); line "o" seq "addid" (fun () -> ou (int_of_n id)); c.ids <- int_of_n id :: c.ids
         | RRejected -> line "o" seq "add" (fun () -> os "rejected"); c.ids <- (-1) :: c.ids);
        (* specification side *)
        (try
           let pn = ref_node c (if pref = "dangling" then "base" else pref) in
           let (sp', r) = spec_add fo c.sp pn x js b (n_of_int nm) in
           c.sp <- sp';
           (match r with
            | Some k -> line "s" seq "add" (fun () -> os "ok"); c.srefs <- int_of_nat k :: c.srefs
            | None -> line "s" seq "add" (fun () -> os "rejected"); c.srefs <- (-1) :: c.srefs)
         with Not_found -> c.srefs <- (-1) :: c.srefs)
      | "setmass" | "setcom" | "setinertia" | "setall" ->
        let rs = str t in
        let id = ref_id c rs in
        let chg : float body -> float body =
          (match cmd with
           | "setmass" -> let x = num t in (fun b -> { b with bmass = x })
           | "setcom" -> let x = v3 t in (fun b -> { b with bcom = x })
           | "setinertia" -> let x = m3 t in (fun b -> { b with binertia = x })
           | _ -> let ms = num t in let i = m3 t in let cm = v3 t in (fun b -> { b with bmass = ms; binertia = i; bcom = cm })) in
        (match set_params fo m (n_of_int id) chg with
         | Some m' -> c.m <- m'; line "o" seq cmd (fun () -> os "ok");
           spec_try (fun () -> match ref_node c rs with Some k -> c.sp <- spec_set c.sp k chg | None -> ())
         | None -> line "o" seq cmd (fun () -> os "throw"))
      | "dump" -> dump c seq
      | "scramble" -> c.m <- scramble m (integer t)
      | "updkin" -> let q = vec t in let qd = vec t in let qdd = vec t in
        setw c (update_kinematics fo m m.ws q qd qdd); dump_kin c seq
      | "updkinc" -> let mask = integer t in let q = vec t in let qd = vec t in let qdd = vec t in
        let o b x = if mask land b <> 0 then Some x else None in
        setw c (update_kinematics_custom fo m m.ws (o 1 q) (o 2 qd) (o 4 qdd)); dump_kin c seq
      | "b2b" | "base2b" ->
        let rs = str t in let id = ref_id c rs in let p = v3 t in let flag = integer t <> 0 in let q = vec t in
        let (w, r) = (if cmd = "b2b" then calc_b2b else calc_base2b) fo m m.ws q (n_of_int id) p flag in
        setw c w; line "o" seq cmd (fun () -> ov3 r);
        spec_try (fun () ->
          let k = kstate_of c rs q (zeros n_qd) (zeros n_qd) in
          line "s" seq cmd (fun () -> ov3 (if cmd = "b2b" then k_point fo k p else m3tv k.kR (v3sub p k.kp))))
      | "orient" ->
        let rs = str t in let id = ref_id c rs in let flag = integer t <> 0 in let q = vec t in
        let (w, r) = calc_orient fo m m.ws q (n_of_int id) flag in
        setw c w; line "o" seq cmd (fun () -> om3 r);
        spec_try (fun () -> let k = kstate_of c rs q (zeros n_qd) (zeros n_qd) in line "s" seq cmd (fun () -> om3 (m3t k.kR)))
      | "jac" | "jac6" | "sjac" ->
        let rs = str t in let id = ref_id c rs in let p = if cmd = "sjac" then zero3 else v3 t in
        let flag = integer t <> 0 in let q = vec t in
        let rows = if cmd = "jac" then 3 else 6 in
        let g0 = gzero rows (nat_of_int n_qd) in
        let (w, g) = (match cmd with
          | "jac" -> calc_point_jacobian fo m m.ws q (n_of_int id) p g0 flag
          | "jac6" -> calc_point_jacobian6 fo m m.ws q (n_of_int id) p g0 flag
          | _ -> calc_body_spatial_jacobian fo m m.ws q (n_of_int id) g0 flag) in
        setw c w; line "o" seq cmd (fun () -> omat g);
        spec_try (fun () ->
          let cols = List.init n_qd (fun k ->
            let ks = kstate_of c rs q (unit n_qd k) (zeros n_qd) in
            let vl = k_vel fo ks p in
            match cmd with
            | "jac" -> [vl.vx; vl.vy; vl.vz]
            | "jac6" -> [ks.kw.vx; ks.kw.vy; ks.kw.vz; vl.vx; vl.vy; vl.vz]
            | _ -> let wb = m3tv ks.kR ks.kw and vb = m3tv ks.kR ks.kpd in [wb.vx; wb.vy; wb.vz; vb.vx; vb.vy; vb.vz]) in
          line "s" seq cmd (fun () -> omat (mTn fo cols (nat_of_int rows))))
      | "pvel" | "pvel6" ->
        let rs = str t in let id = ref_id c rs in let p = v3 t in let flag = integer t <> 0 in let q = vec t in let qd = vec t in
        if cmd = "pvel" then (let (w, r) = calc_point_velocity fo m m.ws q qd (n_of_int id) p flag in setw c w; line "o" seq cmd (fun () -> ov3 r))
        else (let (w, r) = calc_point_velocity6 fo m m.ws q qd (n_of_int id) p flag in setw c w; line "o" seq cmd (fun () -> osv r));
        spec_try (fun () ->
          let ks = kstate_of c rs q qd (zeros n_qd) in
          line "s" seq cmd (fun () -> if cmd = "pvel6" then ov3 ks.kw; ov3 (k_vel fo ks p)))
      | "pacc" | "pacc6" ->
        let rs = str t in let id = ref_id c rs in let p = v3 t in let flag = integer t <> 0 in
        let q = vec t in let qd = vec t in let qdd = vec t in
        if cmd = "pacc" then (let (w, r) = calc_point_acceleration fo m m.ws q qd qdd (n_of_int id) p flag in setw c w; line "o" seq cmd (fun () -> ov3 r))
        else (let (w, r) = calc_point_acceleration6 fo m m.ws q qd qdd (n_of_int id) p flag in setw c w; line "o" seq cmd (fun () -> osv r));
        spec_try (fun () ->
          let ks = kstate_of c rs q qd qdd in
          line "s" seq cmd (fun () -> if cmd = "pacc6" then ov3 ks.kdw; ov3 (k_acc fo ks p)))
      | "id" ->
        let q = vec t in let qd = vec t in let qdd = vec t in let fe = fext t in
        let (w, tau) = inverse_dynamics fo m m.ws q qd qdd (zeros n_qd) fe in
        setw c w; line "o" seq "tau" (fun () -> ovec tau);
        spec_try (fun () -> line "s" seq "tau" (fun () -> ovec (spec_tau c m.gravity q qd qdd fe)))
      | "nle" ->
        let q = vec t in let qd = vec t in let fe = fext t in
        let (w, tau) = nonlinear_effects fo m m.ws q qd (zeros n_qd) fe in
        setw c w; line "o" seq "nle" (fun () -> ovec tau);
        line "i" seq "wf" (fun () -> if order_ok m then os "1" else (os "0"; os "update_order_does_not_list_every_movable_body"));
        spec_try (fun () -> line "s" seq "nle" (fun () -> ovec (spec_tau c m.gravity q qd (zeros n_qd) fe)));
        (* N(q, qd, f_ext) = InverseDynamics(q, qd, 0, f_ext): the implementation's bias vector against the model's
           inverse dynamics at zero acceleration (which corresponds to the implementation's InverseDynamics) *)
        (let (_, t0v) = inverse_dynamics fo m m.ws q qd (zeros n_qd) (zeros n_qd) fe in
         let iv = impl_or seq "nle" tau in
         let res = List.fold_left2 (fun a x y -> max a (abs_float (x -. y))) 0. iv t0v in
         let sc = List.fold_left (fun a x -> max a (abs_float x)) 1. t0v in
         line "c" seq "nle_is_id0" (fun () -> od res; od sc))
      | "crba" ->
        let flag = integer t <> 0 in let q = vec t in
        let (w, h) = crba fo m m.ws q (gzero n_qd (nat_of_int n_qd)) flag in
        setw c w; line "o" seq "H" (fun () -> omat h);
        if flag then spec_try (fun () -> line "s" seq "H" (fun () -> omat (spec_H c q)))
      | "fd" | "fdl" ->
        let _solver = if cmd = "fdl" then integer t else 0 in
        let q = vec t in let qd = vec t in let tau = vec t in let fe = fext t in
        (if cmd = "fd" then begin
            let (w, qdd) = forward_dynamics fo m m.ws q qd tau (zeros n_qd) fe in
            setw c w; line "o" seq "qdd" (fun () -> ovec qdd) end
         else begin
           let (((w, qdd), _), _) = forward_dynamics_lagrangian fo m m.ws q qd tau fe in
           setw c w; line "o" seq "qdd" (fun () -> match qdd with Some x -> ovec x | None -> os "singular") end);
        (* property residuals on the model side: the acceleration the model returns, put into the L3 inverse dynamics,
           reproduces tau; and the energy balance holds along it *)
        (spec_try (fun () ->
          let (_, qddm) = forward_dynamics fo c.m c.m.ws q qd tau (zeros n_qd) fe in
          let qddm = impl_or seq "qdd" qddm in
          let tn = spec_tau c m.gravity q qd qddm fe in
          let res = List.fold_left2 (fun a x y -> max a (abs_float (x -. y))) 0. tn tau in
          let sc = List.fold_left (fun a x -> max a (abs_float x)) 0. (tau @ tn) in
          line "c" seq "fd_inverts_id" (fun () -> od res; od sc);
          let (de, pext) = energy_rate fo c.sp.snodes c.sp.ssph c.sp.sndof m.gravity q qd qddm (spec_fext c fe) in
          let pq = List.fold_left2 (fun a x y -> a +. x *. y) 0. qd tau in
          line "c" seq "power_balance" (fun () -> od (de -. pq -. pext); od (abs_float de +. abs_float pq +. abs_float pext))));
        spec_try (fun () ->
          let h = spec_H c q in let nv = spec_tau c m.gravity q qd (zeros n_qd) fe in
          line "i" seq "cond" (fun () -> od (cond_est h));
          match solve_pp fo h (List.map2 (-.) tau nv) with
          | Some x -> line "s" seq "qdd" (fun () -> ovec x)
          | None -> ())
      | "minv" ->
        let flag = integer t <> 0 in let q = vec t in let tau = vec t in
        let (w, qdd) = minv_times_tau fo m m.ws q tau (zeros n_qd) flag in
        setw c w; line "o" seq "qdd" (fun () -> ovec qdd);
        if flag then spec_try (fun () -> let h = spec_H c q in line "i" seq "cond" (fun () -> od (cond_est h));
          match solve_pp fo h tau with Some x -> line "s" seq "qdd" (fun () -> ovec x) | None -> ())
      | "com" ->
        let flag = integer t <> 0 in let q = vec t in let qd = vec t in let has = integer t <> 0 in
        let qdd = if has then Some (vec t) else None in
        let (w, r) = calc_center_of_mass fo m m.ws q qd qdd flag in
        setw c w;
        line "o" seq "mass" (fun () -> od r.c_mass); line "o" seq "com" (fun () -> ov3 r.c_com);
        line "o" seq "comvel" (fun () -> ov3 r.c_vel); line "o" seq "angmom" (fun () -> ov3 r.c_angmom);
        if has then (line "o" seq "comacc" (fun () -> ov3 r.c_acc); line "o" seq "dangmom" (fun () -> ov3 r.c_dangmom));
        if flag then spec_try (fun () ->
          let wb = whole_body fo c.sp.snodes c.sp.ssph c.sp.sndof m.gravity q qd (match qdd with Some x -> x | None -> zeros n_qd) in
          line "s" seq "mass" (fun () -> od wb.wb_mass); line "s" seq "com" (fun () -> ov3 wb.wb_com);
          line "s" seq "comvel" (fun () -> ov3 wb.wb_vel); line "s" seq "angmom" (fun () -> ov3 wb.wb_L);
          if has then (line "s" seq "comacc" (fun () -> ov3 wb.wb_acc); line "s" seq "dangmom" (fun () -> ov3 wb.wb_dL)))
      | "zmp" ->
        let flag = integer t <> 0 in let q = vec t in let qd = vec t in let qdd = vec t in let nrm = v3 t in let pt = v3 t in
        let (w, z) = calc_zmp fo m m.ws q qd qdd nrm pt flag in
        setw c w; line "o" seq "zmp" (fun () -> ov3 z);
        if flag then spec_try (fun () ->
          (* definition: net contact wrench F = M (a_com - g), M_O = dL/dt + com x F; the ZMP is the point of the
             plane (nrm, pt) where the moment of that wrench has no component tangential to the plane *)
          let wb = whole_body fo c.sp.snodes c.sp.ssph c.sp.sndof m.gravity q qd qdd in
          let f = v3scale wb.wb_mass (v3sub wb.wb_acc m.gravity) in
          let mo = v3add wb.wb_dL (v3cross wb.wb_com f) in
          let nf = v3dot nrm f in
          let z = v3scale (1. /. nf) (v3add (v3cross nrm mo) (v3scale (v3dot nrm pt) f)) in
          line "s" seq "zmp" (fun () -> ov3 z))
      | "ke" ->
        let flag = integer t <> 0 in let q = vec t in let qd = vec t in
        let (w, e) = calc_kinetic_energy fo m m.ws q qd flag in
        setw c w; line "o" seq "ke" (fun () -> od e);
        if flag then spec_try (fun () -> let wb = whole_body fo c.sp.snodes c.sp.ssph c.sp.sndof m.gravity q qd (zeros n_qd) in line "s" seq "ke" (fun () -> od wb.wb_ke))
      | "pe" ->
        let flag = integer t <> 0 in let q = vec t in
        let (w, e) = calc_potential_energy fo m m.ws q flag in
        setw c w; line "o" seq "pe" (fun () -> od e);
        if flag then spec_try (fun () -> let wb = whole_body fo c.sp.snodes c.sp.ssph c.sp.sndof m.gravity q (zeros n_qd) (zeros n_qd) in line "s" seq "pe" (fun () -> od wb.wb_pe))
      | "fpe" ->
        let flag = integer t <> 0 in let q = vec t in let qd = vec t in let pt = v3 t in let smallw = num t in
        let (w, f) = fpe_state fo m m.ws q qd pt smallw flag in
        setw c w;
        let m3l a = [[a.m00; a.m01; a.m02]; [a.m10; a.m11; a.m12]; [a.m20; a.m21; a.m22]] in
        line "i" seq "cond" (fun () -> od (max (cond_est (m3l f.f_JC0)) (cond_est (m3l f.f_JP0))));
        line "o" seq "fpe_k" (fun () -> ov3 f.f_k); line "o" seq "fpe_r0C0" (fun () -> ov3 f.f_r0C0);
        line "o" seq "fpe_v0C0" (fun () -> ov3 f.f_v0C0); line "o" seq "fpe_HC0" (fun () -> ov3 f.f_HC0);
        line "o" seq "fpe_JC0" (fun () -> om3 f.f_JC0);
        (match f.f_w0C0 with Some x -> line "o" seq "fpe_w0C0" (fun () -> ov3 x) | None -> line "o" seq "fpe_w0C0" (fun () -> pf " singular"));
        line "o" seq "fpe_r0P0" (fun () -> ov3 f.f_r0P0); line "o" seq "fpe_HP0" (fun () -> ov3 f.f_HP0);
        line "o" seq "fpe_JP0" (fun () -> om3 f.f_JP0);
        (match f.f_w0P0 with Some x -> line "o" seq "fpe_w0P0" (fun () -> ov3 x) | None -> line "o" seq "fpe_w0P0" (fun () -> pf " singular"));
        line "o" seq "fpe_n" (fun () -> ov3 f.f_n); line "o" seq "fpe_u" (fun () -> ov3 f.f_u); line "o" seq "fpe_h" (fun () -> od f.f_h);
        (match f.f_w0C0n with
         | Some w0n -> line "o" seq "fpe_proj" (fun () -> od f.f_nJC0n; od f.f_v0C0u; od f.f_v0C0k; od w0n)
         | None -> line "o" seq "fpe_proj" (fun () -> pf " singular"));
        (match fpe_solve fo f (Float.pi *. 0.25) fpe_iters with
         | Some ((phi, fb), r0f0) ->
           line "o" seq "fpe_phi" (fun () -> od phi; od fb); line "o" seq "fpe_r0F0" (fun () -> ov3 r0f0)
         | None -> line "o" seq "fpe_phi" (fun () -> pf " singular"); line "o" seq "fpe_r0F0" (fun () -> pf " singular"));
        (* definitions (L3): whole-body inertia about the centre of mass as the sum over the bodies of
           R Ic R^T + m dx dx^T, d = com - c_i; angular momentum about the ground projection *)
        if flag then spec_try (fun () ->
          let nodes = c.sp.snodes in
          let wb = whole_body fo nodes c.sp.ssph c.sp.sndof m.gravity q qd (zeros n_qd) in
          let ks = kstates fo nodes c.sp.ssph c.sp.sndof q qd (zeros n_qd) in
          let idx = List.filter (fun i -> attached_movable nodes (nat_of_int (List.length nodes + 1)) (nat_of_int i)) (List.init (List.length nodes) (fun i -> i)) in
          let jc = List.fold_left (fun a i ->
            let nd = List.nth nodes i and k = List.nth ks i in
            let iw = m3mul fo (m3mul fo k.kR nd.ninertia) (m3T k.kR) in
            let d = v3sub wb.wb_com (k_point fo k nd.ncom) in
            let dx = v3crossm fo d in
            m3add fo a (m3add fo iw (m3scale fo nd.nmass (m3mul fo dx (m3T dx))))) (m3zero fo) idx in
          line "s" seq "fpe_r0C0" (fun () -> ov3 wb.wb_com); line "s" seq "fpe_v0C0" (fun () -> ov3 wb.wb_vel);
          line "s" seq "fpe_HC0" (fun () -> ov3 wb.wb_L); line "s" seq "fpe_JC0" (fun () -> om3 jc);
          let gn = sqrt (v3dot m.gravity m.gravity) in let k = v3scale (-1. /. gn) m.gravity in
          let hgt = v3dot k (v3sub wb.wb_com pt) in
          let r0p0 = v3sub wb.wb_com (v3scale hgt k) in
          line "s" seq "fpe_h" (fun () -> od hgt); line "s" seq "fpe_r0P0" (fun () -> ov3 r0p0);
          let rp = v3sub wb.wb_com r0p0 in
          line "s" seq "fpe_HP0" (fun () -> ov3 (v3add wb.wb_L (v3cross rp (v3scale wb.wb_mass wb.wb_vel))));
          let rx = v3crossm fo rp in
          line "s" seq "fpe_JP0" (fun () -> om3 (m3add fo jc (m3scale fo wb.wb_mass (m3mul fo rx (m3T rx))))));
        (* residuals on the implementation's results: J w = H at both points, the foot placement point on the
           caller's plane, at h tan(phi) from the projection along u, u and n perpendicular to k *)
        let g3 lab = match impl_get seq lab with Some [a; b; cc] -> Some { vx = a; vy = b; vz = cc } | _ -> None in
        let g9 lab = match impl_get seq lab with
          | Some [a0; a1; a2; a3; a4; a5; a6; a7; a8] -> Some { m00 = a0; m01 = a1; m02 = a2; m10 = a3; m11 = a4; m12 = a5; m20 = a6; m21 = a7; m22 = a8 } | _ -> None in
        let n3 v = sqrt (v3dot v v) in
        (match g3 "fpe_k", g3 "fpe_r0P0", g3 "fpe_r0F0", g3 "fpe_u", g3 "fpe_n", impl_get seq "fpe_h", impl_get seq "fpe_phi", g3 "fpe_r0C0" with
         | Some k, Some p0, Some f0, Some u, Some n, Some [h], Some [phi; _], Some c0 ->
           let sc = 1. +. n3 p0 +. n3 f0 +. n3 pt in
           line "c" seq "fpe_projection_on_plane" (fun () -> od (abs_float (v3dot (v3sub p0 pt) k)); od sc);
           line "c" seq "fpe_point_on_plane" (fun () -> od (abs_float (v3dot (v3sub f0 pt) k)); od sc);
           line "c" seq "fpe_projection_below_com" (fun () -> od (n3 (v3sub (v3sub c0 p0) (v3scale h k))); od sc);
           let off = v3sub (v3sub f0 p0) (v3scale (h *. tan phi) u) in
           line "c" seq "fpe_point_offset" (fun () -> od (n3 off); od (sc +. abs_float (h *. tan phi)));
           line "c" seq "fpe_frame" (fun () -> od (abs_float (v3dot u k) +. abs_float (v3dot n k) +. abs_float (v3dot u n)); od 1.)
         | _ -> ());
        (match g9 "fpe_JC0", g3 "fpe_w0C0", g3 "fpe_HC0", g9 "fpe_JP0", g3 "fpe_w0P0", g3 "fpe_HP0" with
         | Some jc, Some wc, Some hc, Some jp, Some wp, Some hp ->
           line "c" seq "fpe_avg_angvel_com" (fun () -> od (n3 (v3sub (m3v fo jc wc) hc)); od (1. +. n3 hc));
           line "c" seq "fpe_avg_angvel_proj" (fun () -> od (n3 (v3sub (m3v fo jp wp) hp)); od (1. +. n3 hp))
         | _ -> ())
      | "updboth" ->
        let q = vec t in let qd = vec t in let qdd = vec t in
        let w1 = update_kinematics fo m m.ws q qd qdd in
        let m2 = scramble (set_ws m w1) 3 in
        let w2 = update_kinematics_custom fo m2 m2.ws (Some q) (Some qd) (Some qdd) in
        setw c w2;
        let tl = function [] -> [] | _ :: x -> x in
        let d = ref 0. in
        let upd a b = d := max !d (abs_float (a -. b)) in
        List.iter2 (fun a b -> upd a.s0 b.s0; upd a.s1 b.s1; upd a.s2 b.s2; upd a.s3 b.s3; upd a.s4 b.s4; upd a.s5 b.s5) (tl w1.wv) (tl w2.wv);
        List.iter2 (fun a b -> upd a.s0 b.s0; upd a.s1 b.s1; upd a.s2 b.s2; upd a.s3 b.s3; upd a.s4 b.s4; upd a.s5 b.s5) (tl w1.wa) (tl w2.wa);
        List.iter2 (fun a b -> upd a.str.vx b.str.vx; upd a.str.vy b.str.vy; upd a.str.vz b.str.vz;
                     upd a.stE.m00 b.stE.m00; upd a.stE.m01 b.stE.m01; upd a.stE.m02 b.stE.m02; upd a.stE.m10 b.stE.m10; upd a.stE.m11 b.stE.m11;
                     upd a.stE.m12 b.stE.m12; upd a.stE.m20 b.stE.m20; upd a.stE.m21 b.stE.m21; upd a.stE.m22 b.stE.m22) (tl w1.wXb) (tl w2.wXb);
        line "o" seq "updiff" (fun () -> od !d);
        line "s" seq "updiff" (fun () -> od 0.)
      | "ltl" ->
        let q = vec t in let b = vec t in
        let nn = nat_of_int n_qd in
        let (w, h) = crba fo m m.ws q (gzero n_qd nn) true in
        setw c w;
        let l = sparse_factorize_ltl fo m.lambda_q nn h in
        line "o" seq "LtL" (fun () -> omat (mmmul fo (mTn fo l nn) l nn));
        let x = sparse_solve_lx fo m.lambda_q nn l (sparse_solve_ltx fo m.lambda_q nn l b) in
        line "o" seq "ltlsolve" (fun () -> ovec x);
        spec_try (fun () -> let hs = spec_H c q in
          line "s" seq "LtL" (fun () -> omat hs);
          line "i" seq "cond" (fun () -> od (cond_est hs));
          match solve_pp fo hs b with Some x -> line "s" seq "ltlsolve" (fun () -> ovec x) | None -> ())
      | "hprops" ->
        let q = vec t in let qd = vec t in
        let nn = nat_of_int n_qd in
        let (w, h) = crba fo m m.ws q (gzero n_qd nn) true in
        let asym = ref 0. in
        List.iteri (fun i r -> List.iteri (fun j x -> asym := max !asym (abs_float (x -. List.nth (List.nth h j) i))) r) h;
        line "o" seq "Hasym" (fun () -> od !asym);
        let hq = mvmul fo h qd in
        line "o" seq "halfqHq" (fun () -> od (0.5 *. List.fold_left2 (fun a x y -> a +. x *. y) 0. qd hq));
        let (w, e) = calc_kinetic_energy fo (set_ws m w) w q qd true in
        setw c w; line "o" seq "ke" (fun () -> od e);
        spec_try (fun () -> let wb = whole_body fo c.sp.snodes c.sp.ssph c.sp.sndof m.gravity q qd (zeros n_qd) in
          line "s" seq "Hasym" (fun () -> od 0.); line "s" seq "halfqHq" (fun () -> od wb.wb_ke); line "s" seq "ke" (fun () -> od wb.wb_ke))
      | "join" | "separate" ->
        let e = m3 t in let r = v3 t in
        let ma = num t in let ca = v3 t in let ia = m3 t in let mb = num t in let cb = v3 t in let ib = m3 t in
        let a = { bmass = ma; bcom = ca; binertia = ia; bvirtual = false } and b = { bmass = mb; bcom = cb; binertia = ib; bvirtual = false } in
        let x = { stE = e; str = r } in
        (match (if cmd = "join" then body_join else body_separate) fo a x b with
         | Some rb -> line "o" seq cmd (fun () -> od rb.bmass; ov3 rb.bcom; om3 rb.binertia)
         | None -> line "o" seq cmd (fun () -> os "throw"));
        let ((ms, cm), im) = spec_union fo (cmd = "separate") ma ca ia x mb cb ib in
        if ms <> 0. && not (mb = 0. && ib = m3zero fo) then line "s" seq cmd (fun () -> od ms; ov3 cm; om3 im)
      | "l1" ->
        let op = str t in
        let st () = let e = m3 t in let r = v3 t in { stE = e; str = r } in
        let q4 () = let a = num t in let b = num t in let cc = num t in let d = num t in { qx = a; qy = b; qz = cc; qw = d } in
        let oq q = od q.qx; od q.qy; od q.qz; od q.qw in
        let rbi () = let ms = num t in let cm = v3 t in let ic = m3 t in rbi_from_mci fo ms cm ic in
        let post = ref None in
        let spec_s : (unit -> unit) option ref = ref None in   (* the operator's matrix definition, evaluated independently *)
        line "o" seq ("l1_" ^ op) (fun () ->
          match op with
          | "apply" -> let x = st () in let v = sv t in osv (st_apply fo x v); spec_s := Some (fun () -> osv (m66v fo (st_toMatrix fo x) v))
          | "applyT" -> let x = st () in let v = sv t in osv (st_applyT fo x v); spec_s := Some (fun () -> osv (m66v fo (st_toMatrixTranspose fo x) v))
          | "applyAdj" -> let x = st () in let v = sv t in osv (st_applyAdj fo x v); spec_s := Some (fun () -> osv (m66v fo (st_toMatrixAdjoint fo x) v))
          | "inv" -> ost (st_inv fo (st ()))
          | "mul" -> let x = st () in let y = st () in ost (st_mul fo x y)
          | "tomat" -> ovec (m66list (st_toMatrix fo (st ())))
          | "tomatadj" -> ovec (m66list (st_toMatrixAdjoint fo (st ())))
          | "tomatT" -> ovec (m66list (st_toMatrixTranspose fo (st ())))
          | "rbiapply" -> let x = st () in ovec (m66list (rbi_toMatrix fo (st_apply_rbi fo x (rbi ()))))
          | "rbiapplyT" -> let x = st () in ovec (m66list (rbi_toMatrix fo (st_applyT_rbi fo x (rbi ()))))
          | "rbimat" -> let _ = st () in ovec (m66list (rbi_toMatrix fo (rbi ())))
          | "rbimulv" -> let i = rbi () in let v = sv t in osv (rbi_mulv fo i v); spec_s := Some (fun () -> osv (m66v fo (rbi_toMatrix fo i) v))
          | "crossm" -> let a = sv t in osv (crossm fo a (sv t))
          | "crossf" -> let a = sv t in osv (crossf fo a (sv t))
          | "qmul" -> let a = q4 () in oq (qmul fo a (q4 ()))
          | "qtomat" -> om3 (qtoMatrix fo (q4 ()))
          | "qfrommat" -> let e = m3 t in let qm = qfromMatrix fo e in oq qm; post := Some (e, qm)
          | "qrot" -> let a = q4 () in let v = v3 t in ov3 (qrotate fo a v); spec_s := Some (fun () -> ov3 (m3v fo (qtoMatrix fo a) v))
          | "qomega" -> let a = q4 () in oq (qomegaToQDot fo a (v3 t))
          | "xrot" -> let ang = num t in ost (xrot fo ang (v3 t))
          | "gauss" -> let n = integer t in let a = List.init n (fun _ -> List.init n (fun _ -> num t)) in let b = vec t in ovec (gauss_elim_pivot fo a b)
          | _ -> os "unknown-op");
        (match !spec_s with Some f -> line "s" seq ("l1_" ^ op) f | None -> ());
        (match !post with
         | Some (e, qm) ->
           (* round trip on the implementation's quaternion: unit norm and toMatrix (fromMatrix E) = E *)
           let qi = (match impl_or seq "l1_qfrommat" [qm.qx; qm.qy; qm.qz; qm.qw] with [a; b; cc; d] -> { qx = a; qy = b; qz = cc; qw = d } | _ -> qm) in
           let r = qtoMatrix fo qi in
           let dev = List.fold_left max 0. (List.map2 (fun a b -> abs_float (a -. b))
                       [r.m00; r.m01; r.m02; r.m10; r.m11; r.m12; r.m20; r.m21; r.m22] [e.m00; e.m01; e.m02; e.m10; e.m11; e.m12; e.m20; e.m21; e.m22]) in
           line "c" seq "qfrommat_roundtrip" (fun () -> od dev; od 1.)
         | None -> ())
      | "csolver" -> ignore (integer t)
      | "contact" ->
        let rs = str t in let id = ref_id c rs in let p = v3 t in let nr = v3 t in
        c.crows <- c.crows @ [RContact (n_of_int id, p, nr)];
        (try c.srows <- c.srows @ [SContact (ref_node c rs, p, nr)] with Not_found -> ())
      | "loop" | "loopauto" ->
        let rp = str t in let rsn = str t in let idp = ref_id c rp in let ids = ref_id c rsn in
        let ep = m3 t in let rpv = v3 t in
        let xp = { stE = ep; str = rpv } in
        let xs0 = if cmd = "loop" then (let es = m3 t in let rsv = v3 t in { stE = es; str = rsv }) else xp in
        let off = if cmd = "loopauto" then v3 t else zero3 in
        let nax = integer t in let axs = List.init nax (fun _ -> sv t) in
        let baum = integer t <> 0 in let ts = num t in
        let xs = if cmd = "loop" then xs0 else begin
            let q0 = vec t in
            let w = ukc_q fo m m.ws q0 in
            setw c w;
            let m3v a v = { vx = a.m00 *. v.vx +. a.m01 *. v.vy +. a.m02 *. v.vz; vy = a.m10 *. v.vx +. a.m11 *. v.vy +. a.m12 *. v.vz;
                            vz = a.m20 *. v.vx +. a.m21 *. v.vy +. a.m22 *. v.vz } in
            let m3mul a b = let col k = m3v a (match k with 0 -> { vx = b.m00; vy = b.m10; vz = b.m20 } | 1 -> { vx = b.m01; vy = b.m11; vz = b.m21 } | _ -> { vx = b.m02; vy = b.m12; vz = b.m22 }) in
              let c0 = col 0 and c1 = col 1 and c2 = col 2 in
              { m00 = c0.vx; m01 = c1.vx; m02 = c2.vx; m10 = c0.vy; m11 = c1.vy; m12 = c2.vy; m20 = c0.vz; m21 = c1.vz; m22 = c2.vz } in
            let rpm = m3t (world_orient fo c.m w (n_of_int idp)) and pp = b2b fo c.m w (n_of_int idp) zero3 in
            let rsm = m3t (world_orient fo c.m w (n_of_int ids)) and ps = b2b fo c.m w (n_of_int ids) zero3 in
            let ra_m = m3mul rpm ep in let ra = v3add pp (m3v rpm rpv) in
            { stE = m3mul (m3t rsm) ra_m; str = m3v (m3t rsm) (v3sub (v3add ra (m3v ra_m off)) ps) } end in
        List.iter (fun ax ->
          c.crows <- c.crows @ [RLoop (n_of_int idp, n_of_int ids, xp, xs, ax, baum, ts)];
          (try c.srows <- c.srows @ [SLoop (ref_node c rp, ref_node c rsn, xp, xs, ax)] with Not_found -> ())) axs
      | "luamode" -> c.luamode <- true
      | "luaload" | "luadecoy" -> ()
      | "bez" | "curve" | "cval" | "cder" | "cinv" | "cshift" | "cscale" | "tmuscle" -> curve_cmd cmd t seq
      | "ik1" ->
        let nn = nat_of_int n_qd in
        let step = (str t = "step") in let sfx = if step then "" else "_full" in
        let nt = integer t in
        let tg0 = List.init nt (fun _ -> let rs = str t in let p = v3 t in let off = v3 t in (rs, p, off)) in
        let qs = vec t in
        let q0 = vec t in let stol = num t in let lam = num t in let maxit = integer t in
        let maxit = if step then 1 else maxit in
        let ws = ukc_q fo m m.ws qs in
        let tg = List.map (fun (rs, p, off) -> (rs, p, v3add (b2b fo c.m ws (n_of_int (ref_id c rs)) p) off)) tg0 in
        let targets = List.map (fun (rs, p, tp) -> ((n_of_int (ref_id c rs), p), tp)) tg in
        let ((w, ok), qres) = ik1 fo (nat_of_int maxit) m m.ws q0 targets stol lam in
        setw c w;
        if step then begin
          line "o" seq "ikok" (fun () -> ou (if ok then 1 else 0)); line "o" seq "ikq" (fun () -> ovec qres);
          let (jm, e) = ik1_rows fo c.m (ukc_q fo c.m c.m.ws q0) targets in
          let mrows = nat_of_int (List.length e) in
          let a = madd fo (mmmul fo jm (mTn fo jm nn) mrows) (mscale fo (lam *. lam) (mident fo mrows)) in
          line "i" seq "cond" (fun () -> od (cond_est a)) end;
        spec_try (fun () ->
          (* independent residual of the implementation's result (L3 pose) *)
          let qi = impl_or seq ("ikq" ^ sfx) qres in
          let r = List.concat_map (fun (rs, p, off) -> let k = kstate_of c rs qi (zeros n_qd) (zeros n_qd) in
                                    let ks = kstate_of c rs qs (zeros n_qd) (zeros n_qd) in
                                    let d = v3sub (v3add (k_point fo ks p) off) (k_point fo k p) in [d.vx; d.vy; d.vz]) tg0 in
          line "i" seq "ik_residual" (fun () -> od (sqrt (dotl r r))))
      | "ik2" ->
        let nn = nat_of_int n_qd in
        let step = (str t = "step") in let sfx = if step then "" else "_full" in
        let nc = integer t in
        let raw0 = List.init nc (fun _ -> let kind = str t in let rs = str t in let p = v3 t in let off = v3 t in let wt = num t in
                                   (kind, rs, p, off, wt)) in
        let qs = vec t in
        let q0 = vec t in let stol = num t in let ctol = num t in let lam = num t in let maxit = integer t in
        let maxit = if step then 1 else maxit in
        let ws = ukc_q fo m m.ws qs in
        let comq qq w0 = (snd (calc_center_of_mass fo c.m w0 qq (zeros n_qd) None false)).c_com in
        let raw = List.map (fun (kind, rs, p, off, wt) ->
            let id = n_of_int (ref_id c rs) in
            let tp = if kind = "comxy" then v3add (comq qs ws) off else v3add (b2b fo c.m ws id p) off in
            (kind, rs, p, tp, world_orient fo c.m ws id, wt)) raw0 in
        let cs = List.map (fun (kind, rs, p, tp, tO, wt) ->
            let id = n_of_int (ref_id c rs) in
            match kind with
            | "full" -> IKFull (id, p, tp, tO, wt) | "orient" -> IKOrient (id, tO, wt) | "pos" -> IKPos (id, p, tp, wt)
            | "posxy" -> IKPosXY (id, p, tp, wt) | "posz" -> IKPosZ (id, p, tp, wt) | _ -> IKCoMXY (id, tp, wt)) raw in
        let pi_half = (atan 1.) *. 4. /. 2. in
        let (w, r) = ik2 fo (nat_of_int maxit) O m m.ws q0 cs stol ctol lam 1e-12 pi_half 0. 0. in
        setw c w;
        if step then begin
          line "o" seq "ikok" (fun () -> ou (if r.ik_ok then 1 else 0)); line "o" seq "ikq" (fun () -> ovec r.ik_Q);
          line "o" seq "ikerr" (fun () -> od r.ik_err);
          let w0 = ukc_q fo c.m c.m.ws q0 in
          let (jm, e) = ik2_rows fo c.m w0 q0 cs 1e-12 pi_half in
          let jt = mTn fo jm nn in let ek = mvmul fo jt e in
          let a = List.mapi (fun i row -> List.mapi (fun j x -> if i = j then x +. (List.nth ek i) *. (List.nth ek i) *. 0.5 +. lam else x) row) (mmmul fo jt jm nn) in
          line "i" seq "cond" (fun () -> od (cond_est a)) end;
        spec_try (fun () ->
          let qi = impl_or seq ("ikq" ^ sfx) r.ik_Q in
          let okv = (match impl_or seq ("ikok" ^ sfx) [if r.ik_ok then 1. else 0.] with [x] -> x | _ -> 0.) in
          let errv = (match impl_or seq ("ikerr" ^ sfx) [r.ik_err] with [x] -> x | _ -> r.ik_err) in
          let angvec rm tO =  (* rotation vector of R * tO^T, expressed in body coordinates: R^T * log(R tO^T) *)
            let a = mm3 rm (m3t tO) in
            let l = { vx = a.m21 -. a.m12; vy = a.m02 -. a.m20; vz = a.m10 -. a.m01 } in
            let ln = sqrt (l.vx *. l.vx +. l.vy *. l.vy +. l.vz *. l.vz) in
            if ln > 1e-12 then (let f = atan2 ln (a.m00 +. a.m11 +. a.m22 -. 1.) /. ln in m3tv rm { vx = f *. l.vx; vy = f *. l.vy; vz = f *. l.vz })
            else zero3 in
          let wbs = lazy (whole_body fo c.sp.snodes c.sp.ssph c.sp.sndof m.gravity qs (zeros n_qd) (zeros n_qd)) in
          let spec_res qi = List.concat_map (fun (kind, rs, p, off, wt) ->
              let k = kstate_of c rs qi (zeros n_qd) (zeros n_qd) in
              let ks = kstate_of c rs qs (zeros n_qd) (zeros n_qd) in
              let tp = v3add (k_point fo ks p) off in let tO = m3t ks.kR in
              let d = v3sub tp (k_point fo k p) in let rm = m3t k.kR in
              let av () = let a = angvec rm tO in [wt *. a.vx; wt *. a.vy; wt *. a.vz] in
              match kind with
              | "full" -> av () @ [wt *. d.vx; wt *. d.vy; wt *. d.vz] | "orient" -> av ()
              | "pos" -> [wt *. d.vx; wt *. d.vy; wt *. d.vz] | "posxy" -> [wt *. d.vx; wt *. d.vy] | "posz" -> [wt *. d.vz]
              | _ -> let wb = whole_body fo c.sp.snodes c.sp.ssph c.sp.sndof m.gravity qi (zeros n_qd) (zeros n_qd) in
                     let cs0 = (Lazy.force wbs).wb_com in
                     [wt *. (cs0.vx +. off.vx -. wb.wb_com.vx); wt *. (cs0.vy +. off.vy -. wb.wb_com.vy)]) raw0 in
          let res = spec_res qi in
          let rn = sqrt (dotl res res) in
          (* the documented constraint tolerance is honoured: a start configuration whose residual is already clearly
             below constraint_tol is returned unchanged with success *)
          (let r0 = spec_res q0 in let rn0 = sqrt (dotl r0 r0) in
           if step && rn0 < 0.5 *. ctol then
             line "c" seq "ik_tol_honoured" (fun () ->
               od (if okv = 1. && List.length qi = List.length q0 then maxabs (List.map2 (fun a b -> a -. b) qi q0) else 1.); od 1.));
          line "i" seq "ik_residual" (fun () -> od rn);
          (* a reported success: the independently computed residual is within the reported error norm *)
          if okv = 1. then line "c" seq "ik_success_residual" (fun () -> od (max 0. (rn -. errv)); od rn))
      | "cjac" | "cerr" | "cverr" | "csys" | "fdc" | "imp" | "actuation" | "idc" | "fullact" | "asmq" | "asmqd" -> cons_cmd c cmd t seq
      | _ -> if not (!ext_cmd c cmd t seq) then line "o" seq "unknown" (fun () -> os cmd)
    with Failure _ | Invalid_argument _ | Not_found -> line "o" seq "status" (fun () -> os "exception")
  end

let main () =
  if Array.length Sys.argv < 2 then (prerr_endline "usage: driver casefile"; exit 2);
  if Array.length Sys.argv >= 3 then load_impl Sys.argv.(2);
  let ic = open_in Sys.argv.(1) in
  let cases = ref [] and cur = ref [] and cname = ref "" in
  (try while true do
      let l = input_line ic in
      if String.length l >= 5 && String.sub l 0 5 = "case " then begin
        if !cname <> "" then cases := (!cname, List.rev !cur) :: !cases;
        cname := String.sub l 5 (String.length l - 5); cur := [] end
      else if String.length l > 0 && l.[0] <> '#' then cur := l :: !cur
    done with End_of_file -> ());
  if !cname <> "" then cases := (!cname, List.rev !cur) :: !cases;
  List.iter (fun (name, lines) ->
    Buffer.clear buf;
    pf "case %s\n" name; cur_case := name; cur_curve := None;
    let slots = Hashtbl.create 4 in
    let cur = ref 0 in
    Hashtbl.replace slots 0 (new_ctx ());
    let getc () = match Hashtbl.find_opt slots !cur with Some c -> c | None -> let c = new_ctx () in Hashtbl.replace slots !cur c; c in
    List.iteri (fun k l ->
      if l = "newmodel" then Hashtbl.replace slots !cur (new_ctx ())
      else if String.length l > 4 && String.sub l 0 4 = "use " then cur := int_of_string (String.sub l 4 (String.length l - 4))
      else run_line (getc ()) l k) lines;
    pf "endcase %s\n" name;
    print_string (Buffer.contents buf)) (List.rev !cases)
