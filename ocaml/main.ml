let () = Driver.main ()
