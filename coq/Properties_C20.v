(* C20 independent instances share no hidden state.  In the L2 model every routine is a function of the Model /
   ConstraintSet value it is given (the workspace is part of that value), so for any history interleaving operations
   on any number of instances, instance i's outputs and final state are those of its own operations run alone.
   That the C++ library behaves like this state-passing model is what the interleaved runs (each instance used
   interleaved and alone, bit-identical; both compared with the extracted model) and the thread-sanitizer stress
   runs decide; process-wide writable objects are enumerated from the object files and reviewed. *)
From Coq Require Import List.
From RV Require Import IsoThm.
Section P.
  Variables (St Op Out : Type) (step : St -> Op -> St * Out).
  Theorem C20_instances_do_not_interfere (h : list (nat * Op)) (s : nat -> St) (i : nat) :
    fst (run_hist St Op Out step s h) i = fst (run_alone St Op Out step (s i) (ops_of Op i h)) /\
    outs_of Out i (snd (run_hist St Op Out step s h)) = snd (run_alone St Op Out step (s i) (ops_of Op i h)).
  Proof. exact (instances_do_not_interfere St Op Out step h s i). Qed.
End P.
Print Assumptions C20_instances_do_not_interfere.
