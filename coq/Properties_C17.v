(* C17 iterative solvers.  Proved about the fuelled models of the loops (IkDef, the code as repaired by fixes
   7f5167f and 4568638): a reported success means the termination test was passed -- the residual norm (which is the
   reported error norm) is below the constraint tolerance at the returned configuration, or the last step was
   shorter than the step tolerance; position-level assembly reports success only with an error norm below the
   tolerance at the returned configuration; velocity-level assembly returns the unique solution of the KKT
   conditions of the weighted least-squares problem (G qd = 0, W (qd - qd0) in range G^T); outputs keep their
   size on success and on failure. *)
From Coq Require Import List.
From RV Require Import Scalar Laws LinAlg3 ListArr LinDef LinThm ModelDef KinDef ConsDef ConsThm IkDef IkThm.
Import ListNotations.
Section P.
  Context {T : Type} (O : Ops T) {FL : FieldLaws O}.
  Hypothesis oeqb_spec : forall x y : T, oeqb O x y = true <-> x = y.
  Theorem C17_ik_point_targets_success fuel (M : @Model T) w Q targets tol lam w' Q' :
    ik1 O fuel M w Q targets tol lam = (w', true, Q') ->
    exists w0 Q0, let wk := ukc_q O M w0 Q0 in let '(J, e) := ik1_rows O M wk targets in
      (Q' = Q0 /\ oltb O (vnorm O e) tol = true) \/
      (let A := madd O (mmmul O J (mTn O J (qdot_size M)) (length e)) (mscale O (omul O lam lam) (mident O (length e))) in
       let d := mTvmul O J (qdot_size M) (gauss_elim_pivot O A e) in
       Q' = apply_delta O M Q0 d /\ oltb O (vnorm O d) tol = true).
  Proof. exact (ik1_success O fuel M w Q targets tol lam w' Q'). Qed.
  Theorem C17_ik_constraint_set_success fuel steps (M : @Model T) w Q cs stol ctol lam t12 ph err dq w' R :
    ik2 O fuel steps M w Q cs stol ctol lam t12 ph err dq = (w', R) -> ik_ok R = true ->
    exists w0 Q0, let wk := ukc_q O M w0 Q0 in let '(J, e) := ik2_rows O M wk Q0 cs t12 ph in
      ik_err R = vnorm O e /\
      ((ik_Q R = Q0 /\ oltb O (vnorm O e) ctol = true) \/
       (exists d, ik_Q R = apply_delta O M Q0 d /\ ik_dq R = vnorm O d /\ oltb O (vnorm O d) stol = true)).
  Proof. exact (ik2_success O fuel steps M w Q cs stol ctol lam t12 ph err dq w' R). Qed.
  Theorem C17_ik_outputs_keep_size fuel steps (M : @Model T) w Q cs stol ctol lam t12 ph err dq w' R :
    ik2 O fuel steps M w Q cs stol ctol lam t12 ph err dq = (w', R) -> length (ik_Q R) = length Q.
  Proof. exact (ik2_size O fuel steps M w Q cs stol ctol lam t12 ph err dq w' R). Qed.
  Theorem C17_ik_point_targets_keep_size fuel (M : @Model T) w Q targets tol lam w' ok Q' :
    ik1 O fuel M w Q targets tol lam = (w', ok, Q') -> length Q' = length Q.
  Proof. exact (ik1_size O fuel M w Q targets tol lam w' ok Q'). Qed.
  Theorem C17_assembly_q_success max_iter (M : @Model T) w Qinit cs wts tol w' Q' :
    assembly_q O max_iter M w Qinit cs wts tol = (w', true, Q') ->
    exists w0, oltb O (vnorm O (snd (cons_errors O M w0 Q' cs))) tol = true.
  Proof. exact (assembly_q_success O max_iter M w Qinit cs wts tol w' Q'). Qed.
  Theorem C17_assembly_qdot_is_weighted_least_squares (M : @Model T) (w : @WS T) Q qd0 cs wts w' qd x :
    assembly_qdot O M w Q qd0 cs wts = (w', Some (qd, x)) ->
    let n := dof_count M in let m := length cs in
    let G := cons_G O M (ukc_q O M w Q) cs in
    length wts = n -> length qd0 = n -> (forall k, k < m -> length (nth k G []) = n) ->
    KKTeq O (diagm O wts) G n (map (fun p => omul O (fst p) (snd p)) (combine wts qd0)) (vzeros (o0 O) m) qd x /\
    forall qd' x', length qd' = n -> length x' = m ->
      KKTeq O (diagm O wts) G n (map (fun p => omul O (fst p) (snd p)) (combine wts qd0)) (vzeros (o0 O) m) qd' x' -> qd' = qd /\ x' = x.
  Proof. exact (assembly_qdot_kkt O oeqb_spec M w Q qd0 cs wts w' qd x). Qed.
End P.
Print Assumptions C17_ik_point_targets_success. Print Assumptions C17_ik_constraint_set_success.
Print Assumptions C17_ik_outputs_keep_size. Print Assumptions C17_ik_point_targets_keep_size.
Print Assumptions C17_assembly_q_success. Print Assumptions C17_assembly_qdot_is_weighted_least_squares.
