(* C11 constrained inverse dynamics with an actuation map: whenever the exact or the relaxed operator returns,
   G qdd = gamma, tau = 0 on every unactuated coordinate, H qdd + C = tau + G^T lambda row by row, and the exact
   operator reproduces the desired acceleration on every actuated coordinate. *)
From Coq Require Import List.
From RV Require Import Scalar Laws ListArr LinDef LinThm ModelDef DynDef ConsDef IdcThm C14Thm DimThm.
Import ListNotations.
Section P.
  Context {T : Type} (O : Ops T) {FL : FieldLaws O}.
  Hypothesis oeqb_spec : forall x y : T, oeqb O x y = true <-> x = y.
  Theorem C11_constrained_inverse_dynamics_equations (M : @Model T) (w : @WS T) q qd qdes cs act relaxed fext w' Sy qdd tau lam :
    inverse_dynamics_constraints O M w q qd qdes cs act relaxed fext = (w', Sy, Some (qdd, tau, lam)) ->
    let n := dof_count M in let nc := length cs in
    WFm n (cH Sy) -> length (cG Sy) = nc -> (forall k, k < nc -> length (nth k (cG Sy) []) = n) ->
    length (cC Sy) = n -> length (cgamma Sy) = nc -> length act = n -> length qdes = n ->
    mvmul O (cG Sy) qdd = cgamma Sy /\
    (forall i, i < n -> nth i act false = false -> vget (o0 O) tau i = o0 O) /\
    (forall i, i < n -> oadd O (odot O (nth i (cH Sy) []) qdd) (vget (o0 O) (cC Sy) i) =
                        oadd O (vget (o0 O) tau i) (odot O (nth i (mTn O (cG Sy) n) []) lam)) /\
    (relaxed = false -> forall i, i < n -> nth i act false = true -> vget (o0 O) qdd i = vget (o0 O) qdes i).
  Proof. exact (idc_equations O oeqb_spec M w q qd qdes cs act relaxed fext w' Sy qdd tau lam). Qed.
  Theorem C11_constrained_inverse_dynamics_equations_constructed_models (M : @Model T) (w : @WS T) q qd qdes cs act relaxed fext w' Sy qdd tau lam :
    WF M -> length act = dof_count M -> length qdes = dof_count M ->
    inverse_dynamics_constraints O M w q qd qdes cs act relaxed fext = (w', Sy, Some (qdd, tau, lam)) ->
    let n := dof_count M in
    mvmul O (cG Sy) qdd = cgamma Sy /\
    (forall i, i < n -> nth i act false = false -> vget (o0 O) tau i = o0 O) /\
    (forall i, i < n -> oadd O (odot O (nth i (cH Sy) []) qdd) (vget (o0 O) (cC Sy) i) =
                        oadd O (vget (o0 O) tau i) (odot O (nth i (mTn O (cG Sy) n) []) lam)) /\
    (relaxed = false -> forall i, i < n -> nth i act false = true -> vget (o0 O) qdd i = vget (o0 O) qdes i).
  Proof. intros W. exact (idc_equations_sized O oeqb_spec M w q qd qdes cs act relaxed fext w' Sy qdd tau lam (wf_qdot M W)). Qed.
End P.
Print Assumptions C11_constrained_inverse_dynamics_equations.
Print Assumptions C11_constrained_inverse_dynamics_equations_constructed_models.
