(* C11 constrained inverse dynamics with an actuation map: whenever the exact or the relaxed operator returns,
   G qdd = gamma, tau = 0 on every unactuated coordinate, H qdd + C = tau + G^T lambda row by row, and the exact
   operator reproduces the desired acceleration on every actuated coordinate. *)
From Coq Require Import List.
From RV Require Import Scalar Laws LinAlg3 Spatial ListArr LinDef LinThm ModelDef JointDef KinDef DynDef ConsDef IdcThm C14Thm DimThm KinThm C04Thm FdcThm.
Import ListNotations.
Section P.
  Context {T : Type} (O : Ops T) {FL : FieldLaws O}.
  Hypothesis oeqb_spec : forall x y : T, oeqb O x y = true <-> x = y.
  Theorem C11_constrained_inverse_dynamics_equations (M : @Model T) (w : @WS T) q qd qdes cs act relaxed fext w' Sy qdd tau lam :
    inverse_dynamics_constraints O M w q qd qdes cs act relaxed fext = (w', Sy, Some (qdd, tau, lam)) ->
    let n := dof_count M in let nc := length cs in
    WFm n (cH Sy) -> length (cG Sy) = nc -> (forall k, k < nc -> length (nth k (cG Sy) []) = n) ->
    length (cC Sy) = n -> length (cgamma Sy) = nc -> length act = n -> length qdes = n ->
    mvmul O (cG Sy) qdd = cgamma Sy /\
    (forall i, i < n -> nth i act false = false -> vget (o0 O) tau i = o0 O) /\
    (forall i, i < n -> oadd O (odot O (nth i (cH Sy) []) qdd) (vget (o0 O) (cC Sy) i) =
                        oadd O (vget (o0 O) tau i) (odot O (nth i (mTn O (cG Sy) n) []) lam)) /\
    (relaxed = false -> forall i, i < n -> nth i act false = true -> vget (o0 O) qdd i = vget (o0 O) qdes i).
  Proof. exact (idc_equations O oeqb_spec M w q qd qdes cs act relaxed fext w' Sy qdd tau lam). Qed.
  Theorem C11_constrained_inverse_dynamics_equations_constructed_models (M : @Model T) (w : @WS T) q qd qdes cs act relaxed fext w' Sy qdd tau lam :
    WF M -> length act = dof_count M -> length qdes = dof_count M ->
    inverse_dynamics_constraints O M w q qd qdes cs act relaxed fext = (w', Sy, Some (qdd, tau, lam)) ->
    let n := dof_count M in
    mvmul O (cG Sy) qdd = cgamma Sy /\
    (forall i, i < n -> nth i act false = false -> vget (o0 O) tau i = o0 O) /\
    (forall i, i < n -> oadd O (odot O (nth i (cH Sy) []) qdd) (vget (o0 O) (cC Sy) i) =
                        oadd O (vget (o0 O) tau i) (odot O (nth i (mTn O (cG Sy) n) []) lam)) /\
    (relaxed = false -> forall i, i < n -> nth i act false = true -> vget (o0 O) qdd i = vget (o0 O) qdes i).
  Proof. intros W. exact (idc_equations_sized O oeqb_spec M w q qd qdes cs act relaxed fext w' Sy qdd tau lam (wf_qdot M W)). Qed.
End P.
Section P2.
  Context {T : Type} (O : Ops T) {FL : FieldLaws O} {TL : TrigLaws O}.
  Hypothesis oeqb_spec : forall x y : T, oeqb O x y = true <-> x = y.
  (* the motion equation in terms of inverse dynamics: the returned acceleration put into InverseDynamics (from any
     well-formed workspace) gives the returned tau plus G^T lambda, component by component (either operator) *)
  Theorem C11_inverse_dynamics_of_the_returned_acceleration_is_tau_plus_constraint_forces
    (M : @Model T) q qd (w0 w1 : @WS T) (qdes : list T) cs act relaxed w' Sy qdd tau lam : WF M ->
    (forall i j, 0 < i < nbodies M -> 0 < j < nbodies M -> i <> j ->
       is_custom (jkind (getJ M i)) = true -> is_custom (jkind (getJ M j)) = true -> jcust (getJ M i) <> jcust (getJ M j)) ->
    (forall i u, 0 < i < nbodies M -> bvirtual (getbody O M i) = true -> rbi_mulv O (getI O M i) u = svzero O) ->
    jq (getJ M 0) + jdof (getJ M 0) = 0 ->
    (forall i, 0 < i < nbodies M -> joint_wf O M q i) -> o2 O <> o0 O -> order_ok M = true ->
    Good O M w0 -> Good O M w1 -> length act = dof_count M -> length qdes = dof_count M ->
    inverse_dynamics_constraints O M w0 q qd qdes cs act relaxed None = (w', Sy, Some (qdd, tau, lam)) ->
    forall r, r < dof_count M ->
      nth r (snd (inverse_dynamics O M w1 q qd qdd (vzeros (o0 O) (dof_count M)) None)) (o0 O) =
      oadd O (vget (o0 O) tau r) (odot O (nth r (mTn O (cG Sy) (dof_count M)) []) lam).
  Proof.
    intros W C V R J N2 Ord G0 G1 La Lq E.
    exact (idc_equations_of_motion O oeqb_spec M q qd W C V R J N2 Ord w0 w1 qdes cs act relaxed w' Sy qdd tau lam G0 G1 La Lq E).
  Qed.
End P2.
Print Assumptions C11_constrained_inverse_dynamics_equations.
Print Assumptions C11_constrained_inverse_dynamics_equations_constructed_models.
Print Assumptions C11_inverse_dynamics_of_the_returned_acceleration_is_tau_plus_constraint_forces.
