(* The KKT systems of constrained forward dynamics and of the impulse computation
   (ConsDef.kkt_solve): the returned pair satisfies both block equations and is the only
   pair that does; consequences for C02 (Lagrangian forward dynamics), C08 and C10. *)
From Coq Require Import List Bool Arith Lia Ring Field.
From RV Require Import Scalar Laws ListArr LinDef ListLemmas Tree LinThm LinAlg3 Spatial Quat ModelDef JointDef KinDef DynDef ConsDef.
Import ListNotations.

Section ConsThm.
  Context {T : Type} (O : Ops T) {FL : FieldLaws O}.
  Hypothesis oeqb_spec : forall x y : T, oeqb O x y = true <-> x = y.
  Add Field FlFcons : (@fl_field T O FL).
  Local Notation t0 := (o0 O).
  Local Notation Mat := (@Mat T). Local Notation Vec := (@Vec T).

  (* ---------- list algebra ---------- *)
  Lemma odot_app : forall (a b u v : list T), length a = length u ->
    odot O (a ++ b) (u ++ v) = oadd O (odot O a u) (odot O b v).
  Proof.
    induction a as [|x a IH]; intros b [|y u] v Hl; simpl in *; try lia.
    - ring.
    - rewrite IH by lia. ring.
  Qed.
  Lemma odot_zeros_l : forall m (v : list T), odot O (vzeros t0 m) v = t0.
  Proof.
    unfold vzeros. induction m as [|m IH]; intros [|y v]; simpl; try reflexivity.
    rewrite IH. ring.
  Qed.
  Lemma odot_zeros_r : forall (a : list T) m, odot O a (vzeros t0 m) = t0.
  Proof.
    unfold vzeros. induction a as [|x a IH]; intros [|m]; simpl; try reflexivity.
    rewrite IH. ring.
  Qed.
  Lemma odot_vneg_r : forall (a x : list T), odot O a (vneg O x) = oopp O (odot O a x).
  Proof.
    unfold vneg. induction a as [|y a IH]; intros [|b x]; simpl; try ring. rewrite IH. ring.
  Qed.
  Lemma nth_vadd : forall (a b : list T) k, k < length a -> k < length b ->
    nth k (vadd O a b) t0 = oadd O (nth k a t0) (nth k b t0).
  Proof.
    unfold vadd. induction a as [|x a IH]; intros [|y b] k Ha Hb; simpl in *; try lia.
    destruct k; [reflexivity|]. apply IH; lia.
  Qed.
  Lemma vadd_length (a b : list T) : length (vadd O a b) = Nat.min (length a) (length b).
  Proof. unfold vadd. rewrite map_length, combine_length. reflexivity. Qed.
  Lemma nth_vsub : forall (a b : list T) k, k < length a -> k < length b ->
    nth k (vsub O a b) t0 = osub O (nth k a t0) (nth k b t0).
  Proof.
    unfold vsub. induction a as [|x a IH]; intros [|y b] k Ha Hb; simpl in *; try lia.
    destruct k; [reflexivity|]. apply IH; lia.
  Qed.
  Lemma vsub_length (a b : list T) : length (vsub O a b) = Nat.min (length a) (length b).
  Proof. unfold vsub. rewrite map_length, combine_length. reflexivity. Qed.
  Lemma nth_vneg (a : list T) k : k < length a -> nth k (vneg O a) t0 = oopp O (nth k a t0).
  Proof.
    intros Hk. unfold vneg. rewrite (nth_indep _ t0 (oopp O t0)) by (rewrite map_length; exact Hk).
    apply map_nth.
  Qed.
  Lemma nth_mvmul (A : Mat) x k : k < length A -> nth k (mvmul O A x) t0 = odot O (nth k A []) x.
  Proof.
    intros Hk. unfold mvmul. rewrite (nth_indep _ t0 (odot O [] x)) by (rewrite map_length; exact Hk).
    apply (map_nth (fun r => odot O r x)).
  Qed.
  Lemma mvmul_length (A : Mat) x : length (mvmul O A x) = length A.
  Proof. unfold mvmul. apply map_length. Qed.
  Lemma mtn_length (G : Mat) : forall c, length (mtranspose_n t0 G c) = c.
  Proof. induction c as [|c IH]; cbn; [reflexivity|]. rewrite app_length, IH. cbn. lia. Qed.
  Lemma nth_mtn (G : Mat) : forall c i, i < c -> nth i (mtranspose_n t0 G c) [] = mcol t0 G i.
  Proof.
    induction c as [|c IH]; intros i Hi; [lia|]. cbn.
    destruct (Nat.eq_dec i c) as [->|N].
    - rewrite app_nth2 by (rewrite mtn_length; lia). rewrite mtn_length, Nat.sub_diag. reflexivity.
    - rewrite app_nth1 by (rewrite mtn_length; lia). apply IH. lia.
  Qed.
  Lemma mcol_length (G : Mat) i : length (mcol t0 G i) = length G.
  Proof. unfold mcol. apply map_length. Qed.
  Lemma split_slices (z : list T) n m : length z = n + m -> z = vslice t0 z 0 n ++ vslice t0 z n m.
  Proof.
    intros Hl. apply (list_ext t0).
    - rewrite app_length, !vslice_length. exact Hl.
    - intros k Hk. destruct (lt_dec k n) as [L|L].
      + rewrite app_nth1 by (rewrite vslice_length; exact L). rewrite vslice_nth by exact L. reflexivity.
      + rewrite app_nth2 by (rewrite vslice_length; lia). rewrite vslice_length.
        rewrite vslice_nth by lia. f_equal. lia.
  Qed.
  Lemma slices_app (u v : list T) : vslice t0 (u ++ v) 0 (length u) = u /\ vslice t0 (u ++ v) (length u) (length v) = v.
  Proof.
    split; apply (list_ext t0); rewrite ?vslice_length; try reflexivity; intros k Hk; rewrite vslice_nth by exact Hk.
    - apply app_nth1. exact Hk.
    - rewrite app_nth2 by lia. f_equal. lia.
  Qed.

  Ltac lens := unfold mTvmul, mTn; rewrite ?vadd_length, ?vsub_length, ?mvmul_length, ?mtn_length; lia.
  (* ---------- rows of the KKT matrix ---------- *)
  Section KKT.
    Variables (H G : Mat) (n m : nat).
    Hypothesis HH : WFm n H.
    Hypothesis HG : length G = m.
    Hypothesis HGr : forall k, k < m -> length (nth k G []) = n.

    Lemma kkt_length : length (kkt_matrix O H G n m) = n + m.
    Proof.
      unfold kkt_matrix. rewrite app_length, !map_length, combine_length. unfold mTn. rewrite mtn_length.
      destruct HH as [E _]. rewrite E, HG. lia.
    Qed.
    Lemma kkt_row_top i : i < n -> nth i (kkt_matrix O H G n m) [] = nth i H [] ++ mcol t0 G i.
    Proof.
      intros Hi. unfold kkt_matrix. destruct HH as [E _].
      rewrite app_nth1 by (rewrite map_length, combine_length; unfold mTn; rewrite mtn_length; lia).
      change (@nil T) with ((fun p : list T * list T => fst p ++ snd p) ([], [])) at 1.
      rewrite map_nth. rewrite combine_nth by lens. cbn [fst snd].
      unfold mTn. rewrite nth_mtn by exact Hi. reflexivity.
    Qed.
    Lemma kkt_row_bot k : k < m -> nth (n + k) (kkt_matrix O H G n m) [] = nth k G [] ++ vzeros t0 m.
    Proof.
      intros Hk. unfold kkt_matrix. destruct HH as [E _].
      rewrite app_nth2 by (rewrite map_length, combine_length; unfold mTn; rewrite mtn_length; lia).
      rewrite map_length, combine_length. unfold mTn. rewrite mtn_length, E, Nat.min_id.
      replace (n + k - n) with k by lia.
      rewrite (nth_indep _ [] ((fun r : list T => r ++ vzeros t0 m) [])) by (rewrite map_length; lia).
      apply (map_nth (fun r : list T => r ++ vzeros t0 m)).
    Qed.
    Lemma kkt_wf : WFm (n + m) (kkt_matrix O H G n m).
    Proof.
      split; [apply kkt_length|]. intros i Hi. destruct (lt_dec i n) as [L|L].
      - rewrite kkt_row_top by exact L. rewrite app_length, mcol_length, HG. destruct HH as [_ R]. rewrite R by exact L. reflexivity.
      - replace i with (n + (i - n)) by lia. rewrite kkt_row_bot by lia. rewrite app_length, HGr by lia.
        unfold vzeros. rewrite repeat_length. reflexivity.
    Qed.

    (* the two block equations, as a predicate on (u, x) *)
    Definition KKTeq (c gam u x : Vec) : Prop :=
      vadd O (mvmul O H u) (mTvmul O G n x) = c /\ mvmul O G u = gam.

    Lemma kkt_sol_iff c gam u x : length c = n -> length gam = m -> length u = n -> length x = m ->
      (Sol O (n + m) (kkt_matrix O H G n m) (c ++ gam) (u ++ x) <-> KKTeq c gam u x).
    Proof.
      intros Hc Hg Hu Hx. destruct HH as [EH RH]. unfold KKTeq, Sol. split.
      - intros S0. split.
        + apply (list_ext t0).
          * rewrite vadd_length, mvmul_length. unfold mTvmul. rewrite mvmul_length. unfold mTn. rewrite mtn_length. lia.
          * rewrite vadd_length, mvmul_length. unfold mTvmul. rewrite mvmul_length. unfold mTn. rewrite mtn_length, EH, Nat.min_id.
            intros k Hk. rewrite nth_vadd by lens.
            rewrite !nth_mvmul by lens. rewrite nth_mtn by exact Hk.
            pose proof (S0 k ltac:(lia)) as Q. rewrite kkt_row_top in Q by exact Hk.
            rewrite odot_app in Q by (rewrite RH by exact Hk; lia).
            unfold vg, vget in Q. rewrite app_nth1 in Q by lia. exact Q.
        + apply (list_ext t0); [rewrite mvmul_length; lia|]. rewrite mvmul_length. intros k Hk.
          rewrite nth_mvmul by exact Hk.
          pose proof (S0 (n + k) ltac:(lia)) as Q. rewrite kkt_row_bot in Q by lia.
          rewrite odot_app in Q by (rewrite HGr by lia; lia). rewrite odot_zeros_l in Q.
          unfold vg, vget in Q. rewrite app_nth2 in Q by lia. replace (n + k - length c) with k in Q by lia.
          rewrite <- Q. ring.
      - intros [E1 E2] i Hi. unfold vg, vget. destruct (lt_dec i n) as [L|L].
        + rewrite kkt_row_top by exact L. rewrite odot_app by (rewrite RH by exact L; lia).
          rewrite app_nth1 by lia. rewrite <- E1.
          rewrite nth_vadd by lens.
          unfold mTvmul. rewrite !nth_mvmul by lens.
          unfold mTn. rewrite nth_mtn by exact L. reflexivity.
        + replace i with (n + (i - n)) by lia. rewrite kkt_row_bot by lia.
          rewrite odot_app by (rewrite HGr by lia; lia). rewrite odot_zeros_l.
          rewrite app_nth2 by lia. replace (n + (i - n) - length c) with (i - n) by lia.
          rewrite <- E2. rewrite nth_mvmul by lia. ring.
    Qed.

    Theorem kkt_solve_sound c gam u x : length c = n -> length gam = m ->
      kkt_solve O H G c gam n m = Some (u, x) ->
      length u = n /\ length x = m /\ KKTeq c gam u x.
    Proof.
      intros Hc Hg. unfold kkt_solve.
      destruct (solve_pp O (kkt_matrix O H G n m) (c ++ gam)) as [z|] eqn:E; [|discriminate].
      intros Q. injection Q as <- <-.
      assert (Lb : length (c ++ gam) = n + m) by (rewrite app_length; lia).
      destruct (solve_pp_sound O oeqb_spec (n + m) _ _ z kkt_wf Lb E) as [Lz Sz].
      split; [apply vslice_length|]. split; [apply vslice_length|].
      apply kkt_sol_iff; try apply vslice_length; auto.
      rewrite <- (split_slices z n m Lz). exact Sz.
    Qed.

    Theorem kkt_solve_unique c gam u x u' x' : length c = n -> length gam = m ->
      kkt_solve O H G c gam n m = Some (u, x) ->
      length u' = n -> length x' = m -> KKTeq c gam u' x' -> u' = u /\ x' = x.
    Proof.
      intros Hc Hg. unfold kkt_solve.
      destruct (solve_pp O (kkt_matrix O H G n m) (c ++ gam)) as [z|] eqn:E; [|discriminate].
      intros Q Lu Lx K. injection Q as <- <-.
      assert (Z : u' ++ x' = z).
      { assert (Lb : length (c ++ gam) = n + m) by (rewrite app_length; lia).
        apply (solve_pp_unique O oeqb_spec (n + m) _ _ z (u' ++ x') kkt_wf Lb E).
        - rewrite app_length; lia.
        - apply kkt_sol_iff; auto. }
      rewrite <- Z. destruct (slices_app u' x') as [S1 S2]. rewrite Lu in S1, S2. rewrite Lx in S2.
      split; symmetry; assumption.
    Qed.
  End KKT.

  (* ---------- C02: the Lagrangian route solves H qdd = tau - C ---------- *)
  Theorem fd_lagrangian_solves (M : Model) (w : WS) q qd tau fext w' qdd Hm C :
    forward_dynamics_lagrangian O M w q qd tau fext = (w', Some qdd, Hm, C) ->
    WFm (dof_count M) Hm -> length C = dof_count M -> length tau = dof_count M ->
    vadd O (mvmul O Hm qdd) C = tau.
  Proof.
    unfold forward_dynamics_lagrangian. cbv zeta.
    destruct (inverse_dynamics O M w q qd _ _ fext) as [w1 C1].
    destruct (crba O M w1 q _ false) as [w2 H2].
    intros E WH LC Lt. injection E as <- E <- <-.
    assert (Lb : length (vsub O tau C1) = dof_count M) by (rewrite vsub_length; lia).
    pose proof (solve_pp_mvmul O oeqb_spec (dof_count M) H2 _ qdd WH Lb E) as Q.
    rewrite Q. apply (list_ext t0).
    - rewrite vadd_length, vsub_length. lia.
    - rewrite vadd_length, vsub_length. intros k Hk.
      rewrite nth_vadd by (rewrite ?vsub_length; lia). rewrite nth_vsub by lia. ring.
  Qed.

  (* ---------- C08: returned accelerations and forces satisfy the motion and constraint equations ---------- *)
  Theorem fdc_equations (M : Model) (w : WS) q qd tau cs fext w' Sy qdd lam :
    forward_dynamics_constraints O M w q qd tau cs fext = (w', Sy, Some (qdd, lam)) ->
    let n := dof_count M in let m := length cs in
    WFm n (cH Sy) -> length (cG Sy) = m -> (forall k, k < m -> length (nth k (cG Sy) []) = n) ->
    length (cC Sy) = n -> length tau = n -> length (cgamma Sy) = m ->
    vadd O (mvmul O (cH Sy) qdd) (cC Sy) = vadd O tau (mTvmul O (cG Sy) n lam) /\
    mvmul O (cG Sy) qdd = cgamma Sy.
  Proof.
    unfold forward_dynamics_constraints. cbv zeta.
    destruct (calc_constrained_system_variables O M w q qd cs true fext) as [w1 S1].
    destruct (kkt_solve O (cH S1) (cG S1) (vsub O tau (cC S1)) (cgamma S1) (dof_count M) (length cs)) as [[u x]|] eqn:E; [|discriminate].
    intros Q. injection Q as <- <- <- <-.
    intros WH LG LGr LC Lt Lg.
    assert (Lb : length (vsub O tau (cC S1)) = dof_count M) by (rewrite vsub_length; lia).
    destruct (kkt_solve_sound (cH S1) (cG S1) _ _ WH LG LGr _ _ u x Lb Lg E) as (Lu & Lx & [E1 E2]).
    split; [|exact E2].
    apply (list_ext t0).
    - rewrite !vadd_length, mvmul_length. unfold mTvmul. rewrite mvmul_length. unfold mTn. rewrite mtn_length.
      destruct WH as [e _]. lia.
    - rewrite vadd_length, mvmul_length. destruct WH as [eH rH]. rewrite eH, LC, Nat.min_id. intros k Hk.
      assert (Q : nth k (vadd O (mvmul O (cH S1) u) (mTvmul O (cG S1) (dof_count M) x)) t0 = nth k (vsub O tau (cC S1)) t0) by (rewrite E1; reflexivity).
      rewrite nth_vadd in Q by lens.
      rewrite nth_vsub in Q by lia.
      rewrite !nth_vadd by lens.
      assert (R : nth k (mTvmul O (cG S1) (dof_count M) (vneg O x)) t0 = oopp O (nth k (mTvmul O (cG S1) (dof_count M) x) t0)).
      { unfold mTvmul. rewrite !nth_mvmul by lens.
        apply odot_vneg_r. }
      rewrite R.
      transitivity (oadd O (osub O (nth k tau t0) (nth k (cC S1) t0)) (oadd O (nth k (cC S1) t0) (oopp O (nth k (mTvmul O (cG S1) (dof_count M) x) t0)))); [|ring].
      rewrite <- Q. ring.
  Qed.

  (* all solution methods solve the same non-singular KKT system: any other pair satisfying the two
     equations is the returned pair *)
  Theorem fdc_unique (M : Model) (w : WS) q qd tau cs fext w' Sy qdd lam qdd' x' :
    forward_dynamics_constraints O M w q qd tau cs fext = (w', Sy, Some (qdd, lam)) ->
    let n := dof_count M in let m := length cs in
    WFm n (cH Sy) -> length (cG Sy) = m -> (forall k, k < m -> length (nth k (cG Sy) []) = n) ->
    length (cC Sy) = n -> length tau = n -> length (cgamma Sy) = m ->
    length qdd' = n -> length x' = m ->
    KKTeq (cH Sy) (cG Sy) n (vsub O tau (cC Sy)) (cgamma Sy) qdd' x' ->
    qdd' = qdd /\ vneg O x' = lam.
  Proof.
    unfold forward_dynamics_constraints. cbv zeta.
    destruct (calc_constrained_system_variables O M w q qd cs true fext) as [w1 S1].
    destruct (kkt_solve O (cH S1) (cG S1) (vsub O tau (cC S1)) (cgamma S1) (dof_count M) (length cs)) as [[u x]|] eqn:E; [|discriminate].
    intros Q. injection Q as <- <- <- <-.
    intros WH LG LGr LC Lt Lg Lq Lx K.
    assert (Lb : length (vsub O tau (cC S1)) = dof_count M) by (rewrite vsub_length; lia).
    destruct (kkt_solve_unique (cH S1) (cG S1) _ _ WH LG LGr _ _ u x qdd' x' Lb Lg E Lq Lx K) as [-> ->].
    split; reflexivity.
  Qed.

  (* ---------- C10 ---------- *)
  Theorem impulses_equations (M : Model) (w : WS) q qdm cs vplus w' qdp Lam Hm G :
    constraint_impulses O M w q qdm cs vplus = (w', Some (qdp, Lam)) ->
    let n := dof_count M in let m := length cs in
    Hm = snd (crba O M (ukc_q O M w q) q (zerosM O n n) false) ->
    G = cons_G O M (fst (crba O M (ukc_q O M w q) q (zerosM O n n) false)) cs ->
    WFm n Hm -> (forall k, k < m -> length (nth k G []) = n) -> length vplus = m ->
    vadd O (mvmul O Hm qdp) (mTvmul O G n Lam) = mvmul O Hm qdm /\ mvmul O G qdp = vplus.
  Proof.
    unfold constraint_impulses. cbv zeta.
    destruct (crba O M (ukc_q O M w q) q (zerosM O (dof_count M) (dof_count M)) false) as [w1 H1] eqn:EC.
    cbn [fst snd]. intros Q -> -> WH LGr Lv. injection Q as <- Q.
    assert (LG : length (cons_G O M w1 cs) = length cs) by (unfold cons_G; apply map_length).
    assert (Lb : length (mvmul O H1 qdm) = dof_count M) by (rewrite mvmul_length; exact (proj1 WH)).
    destruct (kkt_solve_sound H1 _ _ _ WH LG LGr _ _ qdp Lam Lb Lv Q) as (_ & _ & K).
    exact K.
  Qed.

  Lemma vadd_zeros_r (a : list T) : vadd O a (vzeros t0 (length a)) = a.
  Proof.
    apply (list_ext t0).
    - rewrite vadd_length. unfold vzeros. rewrite repeat_length. lia.
    - rewrite vadd_length. unfold vzeros. rewrite repeat_length, Nat.min_id. intros k Hk.
      rewrite nth_vadd by (rewrite ?repeat_length; lia). rewrite nth_repeat. ring.
  Qed.
  Lemma mvmul_zeros (A : Mat) m : mvmul O A (vzeros t0 m) = vzeros t0 (length A).
  Proof.
    unfold mvmul, vzeros. induction A as [|r A IH]; cbn; [reflexivity|].
    rewrite IH. f_equal. apply odot_zeros_r.
  Qed.

  (* a pre-impact velocity that is already feasible is returned unchanged, with zero impulses *)
  Theorem impulses_feasible_unchanged (M : Model) (w : WS) q qdm cs vplus w' qdp Lam Hm G :
    constraint_impulses O M w q qdm cs vplus = (w', Some (qdp, Lam)) ->
    let n := dof_count M in let m := length cs in
    Hm = snd (crba O M (ukc_q O M w q) q (zerosM O n n) false) ->
    G = cons_G O M (fst (crba O M (ukc_q O M w q) q (zerosM O n n) false)) cs ->
    WFm n Hm -> (forall k, k < m -> length (nth k G []) = n) -> length vplus = m -> length qdm = n ->
    mvmul O G qdm = vplus -> qdp = qdm /\ Lam = vzeros t0 m.
  Proof.
    unfold constraint_impulses. cbv zeta.
    destruct (crba O M (ukc_q O M w q) q (zerosM O (dof_count M) (dof_count M)) false) as [w1 H1] eqn:EC.
    cbn [fst snd]. intros Q -> -> WH LGr Lv Lq Feas. injection Q as <- Q.
    assert (LG : length (cons_G O M w1 cs) = length cs) by (unfold cons_G; apply map_length).
    assert (Lb : length (mvmul O H1 qdm) = dof_count M) by (rewrite mvmul_length; exact (proj1 WH)).
    assert (Lz : length (vzeros t0 (length cs)) = length cs) by (unfold vzeros; apply repeat_length).
    destruct (kkt_solve_unique H1 _ _ _ WH LG LGr _ _ qdp Lam qdm (vzeros t0 (length cs)) Lb Lv Q Lq Lz) as [-> ->].
    - split; [|exact Feas].
      unfold mTvmul. rewrite mvmul_zeros. unfold mTn. rewrite mtn_length.
      rewrite <- Lb. apply vadd_zeros_r.
    - split; reflexivity.
  Qed.

  (* ---------- C09: what the error terms are ---------- *)
  Lemma contact_err_zero (M : Model) (w : WS) id pt nrm : cons_row_err O M w (RContact id pt nrm) = t0.
  Proof. reflexivity. Qed.
  Lemma contact_errd_normal_velocity (M : Model) (w : WS) qd G k id pt nrm :
    cons_row_errd O M w qd G k (RContact id pt nrm) = v3dot O (svlin (point_velocity6_nk O M (zero_v0 O w) id pt)) nrm.
  Proof. reflexivity. Qed.
  Lemma loop_errd_is_G_qd (M : Model) (w : WS) qd G k idp ids Xp Xs ax bm ts :
    cons_row_errd O M w qd G k (RLoop idp ids Xp Xs ax bm ts) = odot O (nth k G []) qd.
  Proof. reflexivity. Qed.
  (* the rotational error of a relative rotation by an angle about an axis a is sin(angle) * a *)
  Lemma rot_err_axis_angle (s c : T) (a : V3 T) : rot_err O (m3T (rot_axis O s c a)) = v3scale O s a.
  Proof.
    pose proof (@o2_neq0 T O FL) as H2. unfold o2 in H2.
    destruct a as [ax ay az]. unfold rot_err, rot_axis, m3T, v3scale, ohalf, o2. cbn.
    f_equal; field; exact H2.
  Qed.
  Lemma rot_err_identity : rot_err O (m3id O) = v3zero O.
  Proof.
    pose proof (@o2_neq0 T O FL) as H2. unfold o2 in H2.
    unfold rot_err, m3id, v3zero, ohalf, o2. cbn. f_equal; field; exact H2.
  Qed.
  (* the documented Baumgarte term *)
  Lemma baumgarte_term idp ids Xp Xs ax ts err errd : ts <> t0 ->
    baumgarte O (RLoop idp ids Xp Xs ax true ts) err errd =
    osub O (oopp O (omul O (omul O (o2 O) (oinv O ts)) errd)) (omul O (omul O (oinv O ts) (oinv O ts)) err).
  Proof. intros H. unfold baumgarte, o2. field. exact H. Qed.
  Lemma baumgarte_off (r : CRow T) err errd :
    match r with RLoop _ _ _ _ _ true _ => False | _ => True end -> baumgarte O r err errd = t0.
  Proof. destruct r as [| ? ? ? ? ? [|] ?]; cbn; intros H; [reflexivity|contradiction|reflexivity]. Qed.
End ConsThm.
