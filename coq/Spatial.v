(* L1: spatial algebra, hand model in vector form (the generated twin in
   Gen/GenSpatial.v is the header's scalar form; GenBridge.v proves them equal). *)
From Coq Require Import List Bool.
From RV Require Import Scalar LinAlg3.
Import ListNotations.

Section Spatial.
  Context {T : Type} (O : Ops T).
  Local Notation "0" := (o0 O). Local Notation "1" := (o1 O).
  Local Infix "+" := (oadd O). Local Infix "*" := (omul O). Local Infix "-" := (osub O).
  Local Notation "- x" := (oopp O x).

  (* spatial vector: angular part first (as rbdl) *)
  Record SV : Type := mkSV { s0 : T; s1 : T; s2 : T; s3 : T; s4 : T; s5 : T }.
  Definition svang (v : SV) : V3 T := mkV3 (s0 v) (s1 v) (s2 v).
  Definition svlin (v : SV) : V3 T := mkV3 (s3 v) (s4 v) (s5 v).
  Definition svof (w v : V3 T) : SV := mkSV (vx w) (vy w) (vz w) (vx v) (vy v) (vz v).
  Definition svzero : SV := mkSV 0 0 0 0 0 0.
  Definition svadd (a b : SV) : SV :=
    mkSV (s0 a + s0 b) (s1 a + s1 b) (s2 a + s2 b) (s3 a + s3 b) (s4 a + s4 b) (s5 a + s5 b).
  Definition svsub (a b : SV) : SV :=
    mkSV (s0 a - s0 b) (s1 a - s1 b) (s2 a - s2 b) (s3 a - s3 b) (s4 a - s4 b) (s5 a - s5 b).
  Definition svopp (a : SV) : SV := mkSV (- s0 a) (- s1 a) (- s2 a) (- s3 a) (- s4 a) (- s5 a).
  Definition svscale (k : T) (a : SV) : SV :=
    mkSV (k * s0 a) (k * s1 a) (k * s2 a) (k * s3 a) (k * s4 a) (k * s5 a).
  Definition svdot (a b : SV) : T :=
    s0 a * s0 b + s1 a * s1 b + s2 a * s2 b + s3 a * s3 b + s4 a * s4 b + s5 a * s5 b.
  Definition svnth (a : SV) (k : nat) : T :=
    match k with 0 => s0 a | 1 => s1 a | 2 => s2 a | 3 => s3 a | 4 => s4 a | _ => s5 a end.
  Definition svlist (a : SV) : list T := [s0 a; s1 a; s2 a; s3 a; s4 a; s5 a].
  Definition svoflist (l : list T) : SV :=
    mkSV (nth 0 l 0) (nth 1 l 0) (nth 2 l 0) (nth 3 l 0) (nth 4 l 0) (nth 5 l 0).
  Definition svunit (k : nat) : SV :=
    mkSV (if Nat.eqb k 0 then 1 else 0) (if Nat.eqb k 1 then 1 else 0) (if Nat.eqb k 2 then 1 else 0)
         (if Nat.eqb k 3 then 1 else 0) (if Nat.eqb k 4 then 1 else 0) (if Nat.eqb k 5 then 1 else 0).

  (* motion and force cross products *)
  Definition crossm (v1 v2 : SV) : SV :=
    svof (v3cross O (svang v1) (svang v2))
         (v3add O (v3cross O (svang v1) (svlin v2)) (v3cross O (svlin v1) (svang v2))).
  Definition crossf (v1 v2 : SV) : SV :=
    svof (v3add O (v3cross O (svang v1) (svang v2)) (v3cross O (svlin v1) (svlin v2)))
         (v3cross O (svang v1) (svlin v2)).

  (* compact spatial transform  X = [E 0; -E r~ E] *)
  Record ST : Type := mkST { stE : M3 T; str : V3 T }.
  Definition stid : ST := mkST (m3id O) (v3zero O).
  Definition st_apply (X : ST) (v : SV) : SV :=
    svof (m3v O (stE X) (svang v))
         (m3v O (stE X) (v3sub O (svlin v) (v3cross O (str X) (svang v)))).
  Definition st_applyT (X : ST) (f : SV) : SV :=
    let ETf := m3Tv O (stE X) (svlin f) in
    svof (v3add O (m3Tv O (stE X) (svang f)) (v3cross O (str X) ETf)) ETf.
  Definition st_applyAdj (X : ST) (f : SV) : SV :=
    svof (m3v O (stE X) (v3sub O (svang f) (v3cross O (str X) (svlin f))))
         (m3v O (stE X) (svlin f)).
  Definition st_inv (X : ST) : ST := mkST (m3T (stE X)) (v3opp O (m3v O (stE X) (str X))).
  Definition st_mul (X Y : ST) : ST :=
    mkST (m3mul O (stE X) (stE Y)) (v3add O (str Y) (m3Tv O (stE Y) (str X))).
  Definition Xtrans (r : V3 T) : ST := mkST (m3id O) r.

  (* rotations (rbdl convention: E maps parent coordinates to child coordinates) *)
  Definition rot_axis (s c : T) (a : V3 T) : M3 T :=
    let k := 1 - c in
    mkM3 (vx a * vx a * k + c) (vy a * vx a * k + vz a * s) (vx a * vz a * k - vy a * s)
         (vx a * vy a * k - vz a * s) (vy a * vy a * k + c) (vy a * vz a * k + vx a * s)
         (vx a * vz a * k + vy a * s) (vy a * vz a * k - vx a * s) (vz a * vz a * k + c).
  Definition rotx (s c : T) : M3 T := mkM3 1 0 0 0 c s 0 (- s) c.
  Definition roty (s c : T) : M3 T := mkM3 c 0 (- s) 0 1 0 s 0 c.
  Definition rotz (s c : T) : M3 T := mkM3 c s 0 (- s) c 0 0 0 1.
  Definition Xrot (q : T) (a : V3 T) : ST := mkST (rot_axis (osin O q) (ocos O q) a) (v3zero O).
  Definition Xrotx (q : T) : ST := mkST (rotx (osin O q) (ocos O q)) (v3zero O).
  Definition Xroty (q : T) : ST := mkST (roty (osin O q) (ocos O q)) (v3zero O).
  Definition Xrotz (q : T) : ST := mkST (rotz (osin O q) (ocos O q)) (v3zero O).

  (* compact rigid-body inertia: mass, h = m*com, inertia at the origin (lower triangle) *)
  Record RBI : Type := mkRBI { rm : T; rh : V3 T;
                               rIxx : T; rIyx : T; rIyy : T; rIzx : T; rIzy : T; rIzz : T }.
  Definition rbi_I (I : RBI) : M3 T :=
    mkM3 (rIxx I) (rIyx I) (rIzx I) (rIyx I) (rIyy I) (rIzy I) (rIzx I) (rIzy I) (rIzz I).
  (* the (mass, h, Matrix3d) constructor reads the lower triangle *)
  Definition rbi_of (m : T) (h : V3 T) (I : M3 T) : RBI :=
    mkRBI m h (m00 I) (m10 I) (m11 I) (m20 I) (m21 I) (m22 I).
  Definition rbi_zero : RBI := mkRBI 0 (v3zero O) 0 0 0 0 0 0.
  Definition rbi_add (a b : RBI) : RBI :=
    mkRBI (rm a + rm b) (v3add O (rh a) (rh b)) (rIxx a + rIxx b) (rIyx a + rIyx b)
          (rIyy a + rIyy b) (rIzx a + rIzx b) (rIzy a + rIzy b) (rIzz a + rIzz b).
  Definition rbi_mulv (I : RBI) (v : SV) : SV :=
    svof (v3add O (m3v O (rbi_I I) (svang v)) (v3cross O (rh I) (svlin v)))
         (v3sub O (v3scale O (rm I) (svlin v)) (v3cross O (rh I) (svang v))).
  Definition rbi_from_mci (m : T) (c : V3 T) (Ic : M3 T) : RBI :=
    let cx := v3crossm O c in
    rbi_of m (v3scale O m c) (m3add O Ic (m3scale O m (m3mul O cx (m3T cx)))).
  (* X^* I X^{-1} *)
  Definition st_apply_rbi (X : ST) (I : RBI) : RBI :=
    let E := stE X in let r := str X in
    let hmr := v3sub O (rh I) (v3scale O (rm I) r) in
    rbi_of (rm I) (m3v O E hmr)
      (m3mul O (m3mul O E
         (m3add O (m3add O (rbi_I I) (m3mul O (v3crossm O r) (v3crossm O (rh I))))
                  (m3mul O (v3crossm O hmr) (v3crossm O r))))
         (m3T E)).
  (* X^T I X *)
  Definition st_applyT_rbi (X : ST) (I : RBI) : RBI :=
    let E := stE X in let r := str X in
    let ETh := m3Tv O E (rh I) in
    let ETmr := v3add O ETh (v3scale O (rm I) r) in
    rbi_of (rm I) ETmr
      (m3sub O (m3sub O (m3mul O (m3mul O (m3T E) (rbi_I I)) E)
                        (m3mul O (v3crossm O r) (v3crossm O ETh)))
               (m3mul O (v3crossm O ETmr) (v3crossm O r))).

  (* 6x6 matrices as 2x2 blocks of 3x3 *)
  Record M66 : Type := mkM66 { bUL : M3 T; bUR : M3 T; bLL : M3 T; bLR : M3 T }.
  Definition m66zero : M66 := mkM66 (m3zero O) (m3zero O) (m3zero O) (m3zero O).
  Definition m66id : M66 := mkM66 (m3id O) (m3zero O) (m3zero O) (m3id O).
  Definition m66add (a b : M66) : M66 :=
    mkM66 (m3add O (bUL a) (bUL b)) (m3add O (bUR a) (bUR b)) (m3add O (bLL a) (bLL b)) (m3add O (bLR a) (bLR b)).
  Definition m66sub (a b : M66) : M66 :=
    mkM66 (m3sub O (bUL a) (bUL b)) (m3sub O (bUR a) (bUR b)) (m3sub O (bLL a) (bLL b)) (m3sub O (bLR a) (bLR b)).
  Definition m66scale (k : T) (a : M66) : M66 :=
    mkM66 (m3scale O k (bUL a)) (m3scale O k (bUR a)) (m3scale O k (bLL a)) (m3scale O k (bLR a)).
  Definition m66T (a : M66) : M66 :=
    mkM66 (m3T (bUL a)) (m3T (bLL a)) (m3T (bUR a)) (m3T (bLR a)).
  Definition m66mul (a b : M66) : M66 :=
    mkM66 (m3add O (m3mul O (bUL a) (bUL b)) (m3mul O (bUR a) (bLL b)))
          (m3add O (m3mul O (bUL a) (bUR b)) (m3mul O (bUR a) (bLR b)))
          (m3add O (m3mul O (bLL a) (bUL b)) (m3mul O (bLR a) (bLL b)))
          (m3add O (m3mul O (bLL a) (bUR b)) (m3mul O (bLR a) (bLR b))).
  Definition m66v (a : M66) (v : SV) : SV :=
    svof (v3add O (m3v O (bUL a) (svang v)) (m3v O (bUR a) (svlin v)))
         (v3add O (m3v O (bLL a) (svang v)) (m3v O (bLR a) (svlin v))).
  Definition m66Tv (a : M66) (v : SV) : SV := m66v (m66T a) v.
  (* outer product u w^T *)
  Definition m66outer (u w : SV) : M66 :=
    mkM66 (m3outer O (svang u) (svang w)) (m3outer O (svang u) (svlin w))
          (m3outer O (svlin u) (svang w)) (m3outer O (svlin u) (svlin w)).
  Definition m66row (a : M66) (k : nat) : SV :=
    if Nat.ltb k 3 then svof (m3row (bUL a) k) (m3row (bUR a) k)
    else svof (m3row (bLL a) (k - 3)) (m3row (bLR a) (k - 3)).
  Definition m66col (a : M66) (k : nat) : SV := m66row (m66T a) k.
  Definition m66get (a : M66) (i j : nat) : T := svnth (m66row a i) j.
  Definition m66list (a : M66) : list T :=
    svlist (m66row a 0) ++ svlist (m66row a 1) ++ svlist (m66row a 2) ++
    svlist (m66row a 3) ++ svlist (m66row a 4) ++ svlist (m66row a 5).

  Definition m66of36
     (a00 a01 a02 a03 a04 a05 a10 a11 a12 a13 a14 a15 a20 a21 a22 a23 a24 a25
      a30 a31 a32 a33 a34 a35 a40 a41 a42 a43 a44 a45 a50 a51 a52 a53 a54 a55 : T) : M66 :=
    mkM66 (mkM3 a00 a01 a02 a10 a11 a12 a20 a21 a22) (mkM3 a03 a04 a05 a13 a14 a15 a23 a24 a25)
          (mkM3 a30 a31 a32 a40 a41 a42 a50 a51 a52) (mkM3 a33 a34 a35 a43 a44 a45 a53 a54 a55).

  Definition st_toMatrix (X : ST) : M66 :=
    let Erx := m3mul O (stE X) (v3crossm O (str X)) in
    mkM66 (stE X) (m3zero O) (m3opp O Erx) (stE X).
  Definition st_toMatrixAdjoint (X : ST) : M66 :=
    let Erx := m3mul O (stE X) (v3crossm O (str X)) in
    mkM66 (stE X) (m3opp O Erx) (m3zero O) (stE X).
  Definition st_toMatrixTranspose (X : ST) : M66 :=
    let Erx := m3mul O (stE X) (v3crossm O (str X)) in
    mkM66 (m3T (stE X)) (m3opp O (m3T Erx)) (m3zero O) (m3T (stE X)).
  Definition rbi_toMatrix (I : RBI) : M66 :=
    mkM66 (rbi_I I) (v3crossm O (rh I)) (m3opp O (v3crossm O (rh I))) (m3scale O (rm I) (m3id O)).
  Definition rbi_fromMatrix (Ic : M66) : RBI :=
    mkRBI (m00 (bLR Ic)) (mkV3 (- m12 (bUR Ic)) (m02 (bUR Ic)) (- m01 (bUR Ic)))
          (m00 (bUL Ic)) (m10 (bUL Ic)) (m11 (bUL Ic)) (m20 (bUL Ic)) (m21 (bUL Ic)) (m22 (bUL Ic)).
  Definition crossm_mat (v : SV) : M66 :=
    mkM66 (v3crossm O (svang v)) (m3zero O) (v3crossm O (svlin v)) (v3crossm O (svang v)).
  Definition crossf_mat (v : SV) : M66 :=
    mkM66 (v3crossm O (svang v)) (v3crossm O (svlin v)) (m3zero O) (v3crossm O (svang v)).
End Spatial.

Arguments SV : clear implicits. Arguments ST : clear implicits. Arguments RBI : clear implicits. Arguments M66 : clear implicits.
Arguments mkSV {T}. Arguments s0 {T}. Arguments s1 {T}. Arguments s2 {T}.
Arguments s3 {T}. Arguments s4 {T}. Arguments s5 {T}.
Arguments mkST {T}. Arguments stE {T}. Arguments str {T}.
Arguments mkRBI {T}. Arguments rm {T}. Arguments rh {T}. Arguments rIxx {T}. Arguments rIyx {T}.
Arguments rIyy {T}. Arguments rIzx {T}. Arguments rIzy {T}. Arguments rIzz {T}.
Arguments mkM66 {T}. Arguments bUL {T}. Arguments bUR {T}. Arguments bLL {T}. Arguments bLR {T}.
