(* L2: dense linear algebra on lists (MatrixNd / VectorNd), the library's own
   LinSolveGaussElimPivot, a plain partial-pivoting solver standing in for the
   Eigen solvers (its result is compared through residuals, see DESIGN 2.4),
   and the branch-sparse L^T L factorisation with its triangular solves
   (src/rbdl_mathutils.cc). *)
From Coq Require Import List Bool Arith.
From RV Require Import Scalar ListArr.
Import ListNotations.

Section Lin.
  Context {T : Type} (O : Ops T).
  Local Notation t0 := (o0 O). Local Notation t1 := (o1 O).
  Definition Vec := list T. Definition Mat := list (list T).

  Definition vadd (a b : Vec) : Vec := map (fun p => oadd O (fst p) (snd p)) (combine a b).
  Definition vsub (a b : Vec) : Vec := map (fun p => osub O (fst p) (snd p)) (combine a b).
  Definition vscale (k : T) (a : Vec) : Vec := map (omul O k) a.
  Definition vneg (a : Vec) : Vec := map (oopp O) a.
  Definition vnorm2 (a : Vec) : T := odot O a a.
  Definition vnorm (a : Vec) : T := osqrt O (vnorm2 a).
  Definition mvmul (A : Mat) (x : Vec) : Vec := map (fun r => odot O r x) A.
  Definition mT (A : Mat) : Mat := mtranspose t0 A.
  Definition mTn (A : Mat) (cols : nat) : Mat := mtranspose_n t0 A cols.
  Definition mTvmul (A : Mat) (cols : nat) (x : Vec) : Vec := mvmul (mTn A cols) x.
  Definition mmmul (A B : Mat) (bcols : nat) : Mat :=
    let BT := mTn B bcols in map (fun r => map (fun c => odot O r c) BT) A.
  Definition madd (A B : Mat) : Mat := map (fun p => vadd (fst p) (snd p)) (combine A B).
  Definition msub (A B : Mat) : Mat := map (fun p => vsub (fst p) (snd p)) (combine A B).
  Definition mscale (k : T) (A : Mat) : Mat := map (vscale k) A.
  Definition unitv (n k : nat) : Vec := map (fun i => if Nat.eqb i k then t1 else t0) (iota 0 n).
  Definition mident (n : nat) : Mat := map (unitv n) (iota 0 n).
  Definition mg := mget t0.
  Definition vg := vget t0.
  (* block write: rows of B into A at (r, c) *)
  Definition mset_block (A : Mat) (r c : nat) (B : Mat) : Mat :=
    fst (fold_left (fun (acc : Mat * nat) row =>
           (upd (fst acc) (snd acc) (vset_seg (nth (snd acc) (fst acc) []) c row), S (snd acc))) B (A, r)).
  Definition mblock (A : Mat) (r c nr nc : nat) : Mat :=
    map (fun i => vslice t0 (nth i A []) c nc) (iota r nr).

  (* ---- LinSolveGaussElimPivot, as written in rbdl_mathutils.cc ---- *)
  Definition gauss_elim_pivot (A : Mat) (b : Vec) : Vec :=
    let n := length A in
    let piv0 := iota 0 n in
    let pv (p : list nat) k := nth k p 0 in
    let '(A1, b1, piv1) :=
      fold_left (fun (st : Mat * Vec * list nat) j =>
        let '(A, b, piv) := st in
        (* pivot search with the in-loop swap of the original *)
        let '(piv, _) :=
          fold_left (fun (ps : list nat * T) k =>
            let '(piv, best) := ps in
            let pt := oabs O (mg A j (pv piv k)) in
            if oltb O best pt
            then (upd (upd piv j (pv piv k)) k (pv piv j), pt)
            else (piv, best)) (iota j (n - j)) (piv, oabs O (mg A j (pv piv j))) in
        let '(A, b) :=
          fold_left (fun (ab : Mat * Vec) i =>
            let '(A, b) := ab in
            let d := odiv O (mg A i (pv piv j)) (mg A j (pv piv j)) in
            let b := upd b i (osub O (vg b i) (omul O (vg b j) d)) in
            let A := fold_left (fun A k =>
                       mset A i (pv piv k) (osub O (mg A i (pv piv k)) (omul O (mg A j (pv piv k)) d)))
                     (iota j (n - j)) A in
            (A, b)) (iota (S j) (n - S j)) (A, b) in
        (A, b, piv)) (iota 0 n) (A, b, piv0) in
    let px :=
      fold_left (fun px i =>
        let s := fold_left (fun s j => oadd O s (omul O (mg A1 i (pv piv1 j)) (vg px j)))
                   (iota (S i) (n - S i)) (vg px i) in
        upd px i (odiv O (osub O (vg b1 i) s) (mg A1 i (pv piv1 i))))
      (rev (iota 0 n)) (vzeros t0 n) in
    fold_left (fun x i => upd x (pv piv1 i) (vg px i)) (iota 0 n) (vzeros t0 n).

  (* ---- plain Gaussian elimination with partial (row) pivoting ---- *)
  Fixpoint argmax_abs (A : Mat) (c : nat) (rows : list nat) (best : nat) : nat :=
    match rows with
    | [] => best
    | r :: t => if oltb O (oabs O (mg A best c)) (oabs O (mg A r c)) then argmax_abs A c t r
                else argmax_abs A c t best
    end.
  Definition swap_rows {X} (d : X) (l : list X) (i j : nat) : list X :=
    upd (upd l i (nth j l d)) j (nth i l d).
  (* None when a pivot is exactly zero *)
  Definition elim_row (j : nat) (piv : T) (ab : Mat * Vec) (i : nat) : Mat * Vec :=
    let d := odiv O (mg (fst ab) i j) piv in
    (upd (fst ab) i (vsub (nth i (fst ab) []) (vscale d (nth j (fst ab) []))),
     upd (snd ab) i (osub O (vg (snd ab) i) (omul O d (vg (snd ab) j)))).
  Definition elim_col (n : nat) (st : option (Mat * Vec)) (j : nat) : option (Mat * Vec) :=
    match st with
    | None => None
    | Some (A, b) =>
      let p := argmax_abs A j (iota j (n - j)) j in
      let A := swap_rows [] A j p in let b := swap_rows t0 b j p in
      let piv := mg A j j in
      if oeqb O piv t0 then None else
      Some (fold_left (elim_row j piv) (iota (S j) (n - S j)) (A, b))
    end.
  Definition back_row (n : nat) (U : Mat) (c x : Vec) (i : nat) : Vec :=
    let s := fold_left (fun s j => oadd O s (omul O (mg U i j) (vg x j))) (iota (S i) (n - S i)) t0 in
    upd x i (odiv O (osub O (vg c i) s) (mg U i i)).
  Definition back_subst (n : nat) (U : Mat) (c : Vec) : Vec :=
    fold_left (back_row n U c) (rev (iota 0 n)) (vzeros t0 n).
  Definition solve_pp (A : Mat) (b : Vec) : option Vec :=
    let n := length A in
    match fold_left (elim_col n) (iota 0 n) (Some (A, b)) with
    | None => None
    | Some (U, c) => Some (back_subst n U c)
    end.
  Definition minverse (A : Mat) : option Mat :=
    let n := length A in
    let cols := map (fun k => solve_pp A (unitv n k)) (iota 0 n) in
    if forallb (fun c => match c with Some _ => true | None => false end) cols
    then Some (mTn (map (fun c => match c with Some v => v | None => [] end) cols) n)
    else None.

  (* ---- SparseFactorizeLTL / SparseSolveLx / SparseSolveLTx ---- *)
  (* walk i, lambda_q[i], ... until 0 (fuel-bounded) *)
  Fixpoint lq_chain (lq : list nat) (fuel i : nat) : list nat :=
    match fuel with 0 => [] | S f => if Nat.eqb i 0 then [] else i :: lq_chain lq f (nth i lq 0) end.
  Definition sparse_factorize_ltl (lq : list nat) (n : nat) (H : Mat) : Mat :=
    let H := fold_left (fun H i => fold_left (fun H j => mset H i j t0) (iota (S i) (n - S i)) H) (iota 0 n) H in
    fold_left (fun H k =>
      let H := mset H (k-1) (k-1) (osqrt O (mg H (k-1) (k-1))) in
      let anc := lq_chain lq n (nth k lq 0) in
      let H := fold_left (fun H i => mset H (k-1) (i-1) (odiv O (mg H (k-1) (i-1)) (mg H (k-1) (k-1)))) anc H in
      fold_left (fun H i =>
        fold_left (fun H j =>
          mset H (i-1) (j-1) (osub O (mg H (i-1) (j-1)) (omul O (mg H (k-1) (i-1)) (mg H (k-1) (j-1)))))
          (lq_chain lq n i) H) anc H)
      (rev (iota 1 n)) H.
  Definition sparse_solve_lx (lq : list nat) (n : nat) (L : Mat) (x : Vec) : Vec :=
    fold_left (fun x i =>
      let x := fold_left (fun x j => upd x (i-1) (osub O (vg x (i-1)) (omul O (mg L (i-1) (j-1)) (vg x (j-1)))))
                 (lq_chain lq n (nth i lq 0)) x in
      upd x (i-1) (odiv O (vg x (i-1)) (mg L (i-1) (i-1)))) (iota 1 n) x.
  Definition sparse_solve_ltx (lq : list nat) (n : nat) (L : Mat) (x : Vec) : Vec :=
    fold_left (fun x i =>
      let x := upd x (i-1) (odiv O (vg x (i-1)) (mg L (i-1) (i-1))) in
      fold_left (fun x j => upd x (j-1) (osub O (vg x (j-1)) (omul O (mg L (i-1) (j-1)) (vg x (i-1)))))
        (lq_chain lq n (nth i lq 0)) x) (rev (iota 1 n)) x.
End Lin.
