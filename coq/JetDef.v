(* Second-order jets (value, first and second time-derivative) as a scalar
   instance: forward-mode differentiation of the position-level L3 spec.
   Executed over floats in the OCaml driver; JetLaws.v proves the ring laws. *)
From Coq Require Import List Bool.
From RV Require Import Scalar.

Section Jet.
  Context {T : Type} (O : Ops T).
  Local Infix "+" := (oadd O). Local Infix "*" := (omul O). Local Infix "-" := (osub O).
  Local Infix "/" := (odiv O). Local Notation "- x" := (oopp O x).
  Record Jet := mkJet { j0 : T; j1 : T; j2 : T }.
  Definition jconst (x : T) : Jet := mkJet x (o0 O) (o0 O).
  Definition jadd a b := mkJet (j0 a + j0 b) (j1 a + j1 b) (j2 a + j2 b).
  Definition jsub a b := mkJet (j0 a - j0 b) (j1 a - j1 b) (j2 a - j2 b).
  Definition jopp a := mkJet (- j0 a) (- j1 a) (- j2 a).
  Definition jmul a b :=
    mkJet (j0 a * j0 b) (j1 a * j0 b + j0 a * j1 b)
          (j2 a * j0 b + (o2 O) * (j1 a * j1 b) + j0 a * j2 b).
  Definition jinv b :=
    let i := oinv O (j0 b) in
    mkJet i (- (j1 b * i * i)) ((o2 O) * j1 b * j1 b * i * i * i - j2 b * i * i).
  Definition jdiv a b := jmul a (jinv b).
  Definition jsqrt a :=
    let s := osqrt O (j0 a) in
    let d := j1 a / ((o2 O) * s) in
    mkJet s d (j2 a / ((o2 O) * s) - d * d / s).
  Definition jcos a :=
    let c := ocos O (j0 a) in let s := osin O (j0 a) in
    mkJet c (- (s * j1 a)) (- (c * j1 a * j1 a) - s * j2 a).
  Definition jsin a :=
    let c := ocos O (j0 a) in let s := osin O (j0 a) in
    mkJet s (c * j1 a) (c * j2 a - s * j1 a * j1 a).
  Definition jet_ops : Ops Jet :=
    mkOps Jet (jconst (o0 O)) (jconst (o1 O)) jadd jmul jsub jopp jdiv jinv jsqrt jcos jsin
          (fun a b => jconst (oatan2 O (j0 a) (j0 b)))
          (fun a b => oltb O (j0 a) (j0 b)) (fun a b => oeqb O (j0 a) (j0 b)).
End Jet.
Arguments Jet : clear implicits.
Arguments mkJet {T}. Arguments j0 {T}. Arguments j1 {T}. Arguments j2 {T}.
