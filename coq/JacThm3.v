(* C05: G(q) qdot = velocity for the workspace left by the position update (instantiation of JacThm2). *)
From Coq Require Import List Bool Arith NArith Lia Ring Field.
From RV Require Import Scalar Laws Tac ListArr ListLemmas LinDef LinThm LinAlg3 Spatial Quat SpatialLaws QuatLaws ModelDef JointDef KinDef Tree
     C14Thm WsLemmas KinThm C04Thm DynThm ConsThm JacThm JacThm2.
Import ListNotations.

Section Inst.
  Context {T : Type} (O : Ops T) {FL : FieldLaws O} {TL : TrigLaws O}.
  Add Field FlFj4 : (@fl_field T O FL).
  Local Notation t0 := (o0 O).
  Local Notation Model := (@Model T). Local Notation WS := (@WS T).
  Variable M : Model.
  Variable q : list T.
  Hypothesis W : WF M.
  Hypothesis cust_inj : forall i j, 0 < i < nbodies M -> 0 < j < nbodies M -> i <> j ->
    is_custom (jkind (getJ M i)) = true -> is_custom (jkind (getJ M j)) = true -> jcust (getJ M i) <> jcust (getJ M j).
  Let NB := nbodies M.

  (* the position update leaves S = SF for every body *)
  Lemma ukc_q_S (w : WS) : Good O M w ->
    Good O M (ukc_q O M w q) /\ forall i, 0 < i < NB -> jS O M (ukc_q O M w q) i = SF O M q i.
  Proof.
    intros Hg. rewrite ukc_q_is_fold. unfold body_range.
    pose proof (wf_pos M W) as Hpos. fold NB in Hpos.
    pose proof (fold_iota_inv (ukc_q_step O M q) (fun w k => Good O M w /\ forall j, 0 < j < k -> jS O M w j = SF O M q j)
                  (Nat.pred NB) 1 w) as K.
    replace (1 + Nat.pred NB) with NB in K by lia. apply K; clear K.
    - split; [exact Hg|]. intros j Hj. lia.
    - intros w' i Hi [[Hlen Hg'] HI]. unfold ukc_q_step.
      set (w1 := jcalc O M w' i q (vzeros t0 (q_size M))).
      assert (Hi' : 0 < i < NB) by lia.
      assert (Hlen1 : ws_len w1 NB) by (apply jcalc_len; exact Hlen).
      destruct (jcalc_full_vals O M w' i q (vzeros t0 (q_size M)) NB Hlen (proj2 Hi') (proj1 (Hg' i Hi')) (proj2 (Hg' i Hi')))
        as (HSi & _ & _). fold w1 in HSi.
      assert (Hg1 : forall j, 0 < j < NB -> WsInvJ O M w1 j /\ kind_dof M w1 j).
      { intros j Hj. apply (jcalc_full_inv O M w' i q _ NB); auto; try lia; intros j' Hj'; apply Hg'; exact Hj'. }
      split; [split|].
      + unfold ws_len in *; cbn. rewrite !upd_length. decompose [and] Hlen1. repeat split; assumption.
      + intros j Hj. destruct (Hg1 j Hj) as [A B]. split.
        * revert A. apply WsInvJ_ext; reflexivity.
        * revert B. apply kind_dof_ext. reflexivity.
      + intros j Hj. rewrite (jS_ext O M w1) by reflexivity.
        destruct (Nat.eq_dec j i) as [->|Hne]; [exact HSi|].
        unfold w1, jcalc. rewrite (jS_frame O M cust_inj true w' i j q (vzeros t0 (q_size M))); auto; try (unfold NB in *; lia).
        apply HI. lia.
  Qed.

  Lemma jac_fill_length (w : WS) (G : list (list T)) b (f : SV T -> list T) : length (jac_fill O M w G b f) = length G.
  Proof.
    unfold jac_fill. generalize (path_to_base M (nbodies M) b) as P. intros P. revert G.
    induction P as [|j P IH]; intros G; cbn [fold_left]; [reflexivity|]. rewrite IH. apply mset_cols_length.
  Qed.

  Variable qd : list T.
  Hypothesis Hqd : length qd = dof_count M.
  Hypothesis Hjw : forall i, 0 < i < NB -> joint_wf O M q i.

  Section WithWS.
    Variable w0 : WS.
    Hypothesis Hg0 : Good O M w0.
    Let w := ukc_q O M w0 q.
    Lemma w_Xb i : 0 < i < NB -> gXb O w i = XbF O M q i.
    Proof. intros Hi. exact (proj2 (ukc_q_spec O M w0 q W (proj1 Hg0)) i Hi). Qed.
    Lemma w_rot i : 0 < i < NB -> m3rot O (stE (gXb O w i)).
    Proof.
      intros Hi. unfold w. rewrite (xbase_is_pose O M w0 q i W (proj1 Hg0) Hi). cbn [stE].
      apply (rotT O). unfold poseF. apply (poseFf_rot O M q W Hjw); [exact Hi|lia].
    Qed.
    Lemma w_S i : 0 < i < NB -> jS O M w i = SF O M q i.
    Proof. exact (proj2 (ukc_q_S w0 Hg0) i). Qed.
    Lemma w_Slen i : 0 < i < NB -> length (jS O M w i) = jdof (getJ M i).
    Proof.
      intros Hi. rewrite w_S by exact Hi. destruct (ukc_q_S w0 Hg0) as [[_ G] _].
      eapply SF_length. exact (proj2 (G i Hi)).
    Qed.
    Lemma w_HX i : 0 < i < NB ->
      gXb O w i = if Nat.eqb (getlam M i) 0 then XlF O M q i else st_mul O (XlF O M q i) (gXb O w (getlam M i)).
    Proof.
      intros Hi. rewrite w_Xb by exact Hi. rewrite (XbF_unfold O M q i W Hi).
      destruct (Nat.eqb_spec (getlam M i) 0); [reflexivity|].
      pose proof (wf_parent M W i Hi) as Hl. fold (getlam M i) in Hl. rewrite w_Xb by (unfold NB in *; lia). reflexivity.
    Qed.
    Definition vB (i : nat) : SV T := if Nat.eqb i 0 then svzero O else vF O M q qd i.
    Lemma w_Hv i : 0 < i < NB ->
      vB i = svadd O (st_apply O (XlF O M q i) (vB (getlam M i))) (cols_mulv O (jS O M w i) (qd_seg O M i qd)).
    Proof.
      intros Hi. unfold vB. destruct (Nat.eqb_spec i 0); [lia|].
      rewrite (vF_unfold O M q qd i W Hi). rewrite w_S by exact Hi. unfold vJF.
      destruct (Nat.eqb_spec (getlam M i) 0); [|reflexivity].
      assert (Z : st_apply O (XlF O M q i) (svzero O) = svzero O) by (l1_split; ring).
      rewrite Z. l1_split; ring.
    Qed.

    (* body spatial Jacobian of a movable body times qdot = the body's spatial velocity (body coordinates) *)
    Theorem spatial_jacobian_times_qd (id : N) : (id < fixed_disc)%N -> 0 < N.to_nat id < NB ->
      mvmul O (body_spatial_jacobian O M w id (mzeros t0 6 (dof_count M))) qd = svlist (vF O M q qd (N.to_nat id)).
    Proof.
      intros Hid Hb. set (b := N.to_nat id) in *.
      assert (Hfix : is_fixed_id M id = false).
      { unfold is_fixed_id. apply andb_false_iff. left. apply andb_false_iff. left. apply N.leb_gt. exact Hid. }
      unfold body_spatial_jacobian, ref_body. rewrite Hfix. fold b.
      apply (list_ext t0).
      - rewrite (mvmul_length O), jac_fill_length. unfold mzeros. rewrite repeat_length. destruct (vF O M q qd b); reflexivity.
      - rewrite (mvmul_length O), jac_fill_length. unfold mzeros at 1. rewrite repeat_length. intros r Hr6.
        assert (Hr : r < length (jac_fill O M w (mzeros t0 6 (dof_count M)) b (fun s => svlist (st_apply O (gXb O w b) s))))
          by (rewrite jac_fill_length; unfold mzeros; rewrite repeat_length; exact Hr6).
        rewrite (nth_mvmul O) by exact Hr.
        pose proof (jac_fill_times_qd O M W w qd Hqd w_Slen w_rot (XlF O M q) vB w_HX eq_refl w_Hv 6 (gXb O w b)
                      (fun x => svlist x) (fun x => match x with mkSV _ _ _ _ _ _ => eq_refl end) 0
                      (fun x r _ => eq_refl) b r Hb Hr6) as K.
        cbn [Nat.add] in K. rewrite K. unfold Vb. destruct (Nat.eqb_spec b 0); [lia|].
        rewrite (apply_apply_inv O) by (apply w_rot; exact Hb).
        unfold vB. destruct (Nat.eqb_spec b 0); [lia|]. reflexivity.
    Qed.
  End WithWS.
End Inst.
