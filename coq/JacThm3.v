(* C05: G(q) qdot = velocity for the workspace left by the position update (instantiation of JacThm2). *)
From Coq Require Import List Bool Arith NArith Lia Ring Field.
From RV Require Import Scalar Laws Tac ListArr ListLemmas LinDef LinThm LinAlg3 Spatial Quat SpatialLaws QuatLaws ModelDef JointDef KinDef Tree
     C14Thm WsLemmas KinThm C04Thm DynThm ConsThm JacThm JacThm2.
Import ListNotations.

Section Inst.
  Context {T : Type} (O : Ops T) {FL : FieldLaws O} {TL : TrigLaws O}.
  Add Field FlFj4 : (@fl_field T O FL).
  Local Notation t0 := (o0 O).
  Local Notation Model := (@Model T). Local Notation WS := (@WS T).
  Variable M : Model.
  Variable q : list T.
  Hypothesis W : WF M.
  Hypothesis cust_inj : forall i j, 0 < i < nbodies M -> 0 < j < nbodies M -> i <> j ->
    is_custom (jkind (getJ M i)) = true -> is_custom (jkind (getJ M j)) = true -> jcust (getJ M i) <> jcust (getJ M j).
  Let NB := nbodies M.

  (* the position update leaves S = SF for every body *)
  Lemma ukc_q_S (w : WS) : Good O M w ->
    Good O M (ukc_q O M w q) /\ forall i, 0 < i < NB -> jS O M (ukc_q O M w q) i = SF O M q i.
  Proof.
    intros Hg. rewrite ukc_q_is_fold. unfold body_range.
    pose proof (wf_pos M W) as Hpos. fold NB in Hpos.
    pose proof (fold_iota_inv (ukc_q_step O M q) (fun w k => Good O M w /\ forall j, 0 < j < k -> jS O M w j = SF O M q j)
                  (Nat.pred NB) 1 w) as K.
    replace (1 + Nat.pred NB) with NB in K by lia. apply K; clear K.
    - split; [exact Hg|]. intros j Hj. lia.
    - intros w' i Hi [[Hlen Hg'] HI]. unfold ukc_q_step.
      set (w1 := jcalc O M w' i q (vzeros t0 (q_size M))).
      assert (Hi' : 0 < i < NB) by lia.
      assert (Hlen1 : ws_len w1 NB) by (apply jcalc_len; exact Hlen).
      destruct (jcalc_full_vals O M w' i q (vzeros t0 (q_size M)) NB Hlen (proj2 Hi') (proj1 (Hg' i Hi')) (proj2 (Hg' i Hi')))
        as (HSi & _ & _). fold w1 in HSi.
      assert (Hg1 : forall j, 0 < j < NB -> WsInvJ O M w1 j /\ kind_dof M w1 j).
      { intros j Hj. apply (jcalc_full_inv O M w' i q _ NB); auto; try lia; intros j' Hj'; apply Hg'; exact Hj'. }
      split; [split|].
      + unfold ws_len in *; cbn. rewrite !upd_length. decompose [and] Hlen1. repeat split; assumption.
      + intros j Hj. destruct (Hg1 j Hj) as [A B]. split.
        * revert A. apply WsInvJ_ext; reflexivity.
        * revert B. apply kind_dof_ext. reflexivity.
      + intros j Hj. rewrite (jS_ext O M w1) by reflexivity.
        destruct (Nat.eq_dec j i) as [->|Hne]; [exact HSi|].
        unfold w1, jcalc. rewrite (jS_frame O M cust_inj true w' i j q (vzeros t0 (q_size M))); auto; try (unfold NB in *; lia).
        apply HI. lia.
  Qed.

  Lemma jac_fill_length (w : WS) (G : list (list T)) b (f : SV T -> list T) : length (jac_fill O M w G b f) = length G.
  Proof.
    unfold jac_fill. generalize (path_to_base M (nbodies M) b) as P. intros P. revert G.
    induction P as [|j P IH]; intros G; cbn [fold_left]; [reflexivity|]. rewrite IH. apply mset_cols_length.
  Qed.

  Variable qd : list T.
  Hypothesis Hqd : length qd = dof_count M.
  Hypothesis Hjw : forall i, 0 < i < NB -> joint_wf O M q i.

  Section WithWS.
    Variable w0 : WS.
    Hypothesis Hg0 : Good O M w0.
    Let w := ukc_q O M w0 q.
    Lemma w_Xb i : 0 < i < NB -> gXb O w i = XbF O M q i.
    Proof. intros Hi. exact (proj2 (ukc_q_spec O M w0 q W (proj1 Hg0)) i Hi). Qed.
    Lemma w_rot i : 0 < i < NB -> m3rot O (stE (gXb O w i)).
    Proof.
      intros Hi. unfold w. rewrite (xbase_is_pose O M w0 q i W (proj1 Hg0) Hi). cbn [stE].
      apply (rotT O). unfold poseF. apply (poseFf_rot O M q W Hjw); [exact Hi|lia].
    Qed.
    Lemma w_S i : 0 < i < NB -> jS O M w i = SF O M q i.
    Proof. exact (proj2 (ukc_q_S w0 Hg0) i). Qed.
    Lemma w_Slen i : 0 < i < NB -> length (jS O M w i) = jdof (getJ M i).
    Proof.
      intros Hi. rewrite w_S by exact Hi. destruct (ukc_q_S w0 Hg0) as [[_ G] _].
      eapply SF_length. exact (proj2 (G i Hi)).
    Qed.
    Lemma w_HX i : 0 < i < NB ->
      gXb O w i = if Nat.eqb (getlam M i) 0 then XlF O M q i else st_mul O (XlF O M q i) (gXb O w (getlam M i)).
    Proof.
      intros Hi. rewrite w_Xb by exact Hi. rewrite (XbF_unfold O M q i W Hi).
      destruct (Nat.eqb_spec (getlam M i) 0); [reflexivity|].
      pose proof (wf_parent M W i Hi) as Hl. fold (getlam M i) in Hl. rewrite w_Xb by (unfold NB in *; lia). reflexivity.
    Qed.
    Definition vB (i : nat) : SV T := if Nat.eqb i 0 then svzero O else vF O M q qd i.
    Lemma w_Hv i : 0 < i < NB ->
      vB i = svadd O (st_apply O (XlF O M q i) (vB (getlam M i))) (cols_mulv O (jS O M w i) (qd_seg O M i qd)).
    Proof.
      intros Hi. unfold vB. destruct (Nat.eqb_spec i 0); [lia|].
      rewrite (vF_unfold O M q qd i W Hi). rewrite w_S by exact Hi. unfold vJF.
      destruct (Nat.eqb_spec (getlam M i) 0); [|reflexivity].
      assert (Z : forall X : ST T, st_apply O X (svzero O) = svzero O) by (l1_split; ring).
      rewrite Z. generalize (cols_mulv O (SF O M q i) (qd_seg O M i qd)). intros y. destruct y. cbv_sc. f_equal; ring.
    Qed.

    (* body spatial Jacobian of a movable body times qdot = the body's spatial velocity (body coordinates) *)
    Theorem spatial_jacobian_times_qd (id : N) : (id < fixed_disc)%N -> 0 < N.to_nat id < NB ->
      mvmul O (body_spatial_jacobian O M w id (mzeros t0 6 (dof_count M))) qd = svlist (vF O M q qd (N.to_nat id)).
    Proof.
      intros Hid Hb. set (b := N.to_nat id) in *.
      assert (Hfix : is_fixed_id M id = false).
      { unfold is_fixed_id. apply andb_false_iff. left. apply andb_false_iff. left. apply N.leb_gt. exact Hid. }
      unfold body_spatial_jacobian, ref_body. rewrite Hfix. fold b.
      apply (list_ext t0).
      - rewrite (mvmul_length O), jac_fill_length. unfold mzeros. rewrite repeat_length. destruct (vF O M q qd b); reflexivity.
      - rewrite (mvmul_length O), jac_fill_length. unfold mzeros at 1. rewrite repeat_length. intros r Hr6.
        assert (Hr : r < length (jac_fill O M w (mzeros t0 6 (dof_count M)) b (fun s => svlist (st_apply O (gXb O w b) s))))
          by (rewrite jac_fill_length; unfold mzeros; rewrite repeat_length; exact Hr6).
        rewrite (nth_mvmul O) by exact Hr.
        pose proof (jac_fill_times_qd O M W w qd Hqd w_Slen w_rot (XlF O M q) vB w_HX eq_refl w_Hv 6 (gXb O w b)
                      (fun x => svlist x) (fun x => match x with mkSV _ _ _ _ _ _ => eq_refl end) 0
                      (fun x r _ => eq_refl) b r Hb Hr6) as K.
        cbn [Nat.add] in K. rewrite K. unfold Vb. destruct (Nat.eqb_spec b 0); [lia|].
        rewrite (apply_apply_inv O) by (apply w_rot; exact Hb).
        unfold vB. destruct (Nat.eqb_spec b 0); [lia|]. reflexivity.
    Qed.

    (* the point Jacobians: translating the base-frame velocity to the point = the point velocity of CalcPointVelocity *)
    Lemma point_frame_identity (X : ST T) (p : V3 T) (x : SV T) : m3rot O (stE X) ->
      st_apply O (mkST (m3id O) (v3add O (str X) (m3Tv O (stE X) p))) (st_apply O (st_inv O X) x) =
      st_apply O (mkST (m3T (stE X)) p) x.
    Proof.
      intros Hr. pose proof (proj1 Hr) as Ho.
      rewrite <- (@st_apply_mul T O FL) by (cbn [st_inv stE]; apply (rot_T O); exact Hr).
      f_equal. destruct X as [E r]. unfold st_mul, st_inv. cbn [stE str]. f_equal.
      - destruct E. cbv_sc. f_equal; ring.
      - pose proof (orth_vT O E p Ho) as Hv. set (qv := m3Tv O E p) in *.
        rewrite <- Hv. clearbody qv. clear Hv Ho Hr. destruct E, r, qv. cbv_sc. f_equal; ring.
    Qed.
    Lemma movable_not_fixed (id : N) : (id < fixed_disc)%N -> is_fixed_id M id = false.
    Proof. intros Hid. unfold is_fixed_id. apply N.leb_gt in Hid. rewrite Hid. reflexivity. Qed.
    Lemma point_X_movable (id : N) p : (id < fixed_disc)%N ->
      point_X O M w (N.to_nat id) p = mkST (m3T (stE (gXb O w (N.to_nat id)))) p.
    Proof.
      intros Hid. unfold point_X, world_orient.
      replace (N.leb fixed_disc (N.of_nat (N.to_nat id))) with false by (symmetry; apply N.leb_gt; lia).
      rewrite N2Nat.id. reflexivity.
    Qed.
    Theorem point_jacobian6_times_qd (id : N) (p : V3 T) : (id < fixed_disc)%N -> 0 < N.to_nat id < NB ->
      mvmul O (point_jacobian6 O M w id p (mzeros t0 6 (dof_count M))) qd =
      svlist (st_apply O (point_X O M w (N.to_nat id) p) (vF O M q qd (N.to_nat id))).
    Proof.
      intros Hid Hb. set (b := N.to_nat id) in *.
      pose proof (movable_not_fixed id Hid) as Hfix.
      unfold point_jacobian6, ref_body. rewrite Hfix. cbn [fst]. fold b.
      set (pt := mkST (m3id O) (b2b O M w id p)).
      apply (list_ext t0).
      - rewrite (mvmul_length O), jac_fill_length. unfold mzeros. rewrite repeat_length.
        destruct (st_apply O _ _); reflexivity.
      - rewrite (mvmul_length O), jac_fill_length. unfold mzeros at 1. rewrite repeat_length. intros r Hr6.
        assert (Hr : r < length (jac_fill O M w (mzeros t0 6 (dof_count M)) b (fun s => svlist (st_apply O pt s))))
          by (rewrite jac_fill_length; unfold mzeros; rewrite repeat_length; exact Hr6).
        rewrite (nth_mvmul O) by exact Hr.
        pose proof (jac_fill_times_qd O M W w qd Hqd w_Slen w_rot (XlF O M q) vB w_HX eq_refl w_Hv 6 pt
                      (fun x => svlist x) (fun x => match x with mkSV _ _ _ _ _ _ => eq_refl end) 0
                      (fun x r _ => eq_refl) b r Hb Hr6) as K.
        cbn [Nat.add] in K. rewrite K. unfold Vb. destruct (Nat.eqb_spec b 0); [lia|].
        unfold vB. destruct (Nat.eqb_spec b 0); [lia|].
        unfold pt, b2b. replace (N.leb fixed_disc id) with false by (symmetry; apply N.leb_gt; exact Hid). fold b.
        rewrite point_frame_identity by (apply w_rot; exact Hb).
        unfold b. rewrite (point_X_movable id p Hid). reflexivity.
    Qed.
    Theorem point_jacobian_times_qd (id : N) (p : V3 T) : (id < fixed_disc)%N -> 0 < N.to_nat id < NB ->
      mvmul O (point_jacobian O M w id p (mzeros t0 3 (dof_count M))) qd =
      v3list (svlin (st_apply O (point_X O M w (N.to_nat id) p) (vF O M q qd (N.to_nat id)))).
    Proof.
      intros Hid Hb. set (b := N.to_nat id) in *.
      pose proof (movable_not_fixed id Hid) as Hfix.
      unfold point_jacobian, ref_body. rewrite Hfix. cbn [fst]. fold b.
      set (pt := mkST (m3id O) (b2b O M w id p)).
      apply (list_ext t0).
      - rewrite (mvmul_length O), jac_fill_length. unfold mzeros. rewrite repeat_length. reflexivity.
      - rewrite (mvmul_length O), jac_fill_length. unfold mzeros at 1. rewrite repeat_length. intros r Hr3.
        assert (Hr : r < length (jac_fill O M w (mzeros t0 3 (dof_count M)) b (fun s => v3list (svlin (st_apply O pt s)))))
          by (rewrite jac_fill_length; unfold mzeros; rewrite repeat_length; exact Hr3).
        rewrite (nth_mvmul O) by exact Hr.
        pose proof (jac_fill_times_qd O M W w qd Hqd w_Slen w_rot (XlF O M q) vB w_HX eq_refl w_Hv 3 pt
                      (fun x => v3list (svlin x)) (fun x => eq_refl) 3
                      (fun x r Hr' => match x with mkSV _ _ _ _ _ _ =>
                         match r as r0 return r0 < 3 -> nth r0 (v3list (svlin (mkSV _ _ _ _ _ _))) t0 = _ with
                         | 0 => fun _ => eq_refl | 1 => fun _ => eq_refl | 2 => fun _ => eq_refl
                         | S (S (S k)) => fun H => match (Nat.nlt_0_r _ (proj2 (Nat.succ_lt_mono _ _) (proj2 (Nat.succ_lt_mono _ _) (proj2 (Nat.succ_lt_mono _ _) H)))) with end
                         end Hr' end) b r Hb Hr3) as K.
        rewrite K. unfold Vb. destruct (Nat.eqb_spec b 0); [lia|].
        unfold vB. destruct (Nat.eqb_spec b 0); [lia|].
        unfold pt, b2b. replace (N.leb fixed_disc id) with false by (symmetry; apply N.leb_gt; exact Hid). fold b.
        rewrite point_frame_identity by (apply w_rot; exact Hb).
        unfold b. rewrite (point_X_movable id p Hid).
        destruct (st_apply O _ _) as [a0 a1 a2 a3 a4 a5]. destruct r as [|[|[|r]]]; try reflexivity; lia.
    Qed.
  End WithWS.

  (* end to end: Jacobian from one workspace, CalcPointVelocity from any other *)
  Lemma good_zero_v0 (w : WS) : Good O M w -> Good O M (zero_v0 O w).
  Proof.
    intros [L G]. split.
    - unfold ws_len, zero_v0 in *; cbn. rewrite upd_length. exact L.
    - intros j Hj. destruct (G j Hj) as [A B]. split; [revert A; apply WsInvJ_ext; reflexivity | revert B; apply kind_dof_ext; reflexivity].
  Qed.
  Lemma point_velocity6_value (w1 : WS) (id : N) (p : V3 T) : Good O M w1 -> (id < fixed_disc)%N -> 0 < N.to_nat id < NB ->
    forall w0 : WS, Good O M w0 ->
    snd (calc_point_velocity6 O M w1 q qd id p true) =
    st_apply O (point_X O M (ukc_q O M w0 q) (N.to_nat id) p) (vF O M q qd (N.to_nat id)).
  Proof.
    intros G1 Hid Hi w0 G0.
    unfold calc_point_velocity6. cbn [snd]. unfold point_velocity6_nk, ref_point.
    rewrite (movable_not_fixed id Hid).
    pose proof (ukc_q_good O M _ q W (good_zero_v0 _ G1)) as Gq1.
    destruct (ukc_qd_spec O M _ q qd W Gq1) as (_ & X1 & V1).
    rewrite (V1 _ Hi). f_equal.
    unfold point_X, world_orient.
    replace (N.leb fixed_disc (N.of_nat (N.to_nat id))) with false by (symmetry; apply N.leb_gt; lia).
    rewrite !N2Nat.id. unfold gXb. rewrite X1.
    fold (gXb O (ukc_q O M (zero_v0 O w1) q) (N.to_nat id)). fold (gXb O (ukc_q O M w0 q) (N.to_nat id)).
    rewrite (ukc_q_ws_independent O M (zero_v0 O w1) w0 q _ W (proj1 (good_zero_v0 _ G1)) (proj1 G0) Hi).
    reflexivity.
  Qed.
  (* the three Jacobians with the update flag set do not depend on the incoming workspace *)
  Lemma jac_fill_ws (wa wb : WS) G b (f : SV T -> list T) :
    (forall j, 0 < j < NB -> gXb O wa j = gXb O wb j /\ jS O M wa j = jS O M wb j) ->
    b < NB -> jac_fill O M wa G b f = jac_fill O M wb G b f.
  Proof.
    intros H Hb. unfold jac_fill.
    pose proof (path_bound M W qd Hqd b Hb) as PB.
    revert G. unfold NB in *. induction (path_to_base M (nbodies M) b) as [|j P IH]; intros G; [reflexivity|]. cbn [fold_left].
    assert (Hj : 0 < j < nbodies M) by (specialize (PB j (or_introl eq_refl)); lia).
    destruct (H j Hj) as [e1 e2]. rewrite e1, e2. apply IH. intros x Hx. apply PB. right. exact Hx.
  Qed.
  Theorem jacobians_ws_independent (w1 w2 : WS) (id : N) (p : V3 T) G6 G3 : Good O M w1 -> Good O M w2 ->
    (id < fixed_disc)%N -> 0 < N.to_nat id < NB ->
    point_jacobian6 O M (ukc_q O M w1 q) id p G6 = point_jacobian6 O M (ukc_q O M w2 q) id p G6 /\
    point_jacobian O M (ukc_q O M w1 q) id p G3 = point_jacobian O M (ukc_q O M w2 q) id p G3 /\
    body_spatial_jacobian O M (ukc_q O M w1 q) id G6 = body_spatial_jacobian O M (ukc_q O M w2 q) id G6.
  Proof.
    intros G1 G2 Hid Hb.
    assert (E : forall j, 0 < j < NB -> gXb O (ukc_q O M w1 q) j = gXb O (ukc_q O M w2 q) j /\
                                        jS O M (ukc_q O M w1 q) j = jS O M (ukc_q O M w2 q) j).
    { intros j Hj. split.
      - rewrite (w_Xb w1 G1 j Hj), (w_Xb w2 G2 j Hj). reflexivity.
      - rewrite (w_S w1 G1 j Hj), (w_S w2 G2 j Hj). reflexivity. }
    pose proof (movable_not_fixed id Hid) as Hfix.
    assert (Eb : b2b O M (ukc_q O M w1 q) id p = b2b O M (ukc_q O M w2 q) id p).
    { unfold b2b. replace (N.leb fixed_disc id) with false by (symmetry; apply N.leb_gt; exact Hid).
      rewrite (proj1 (E _ Hb)). reflexivity. }
    unfold point_jacobian6, point_jacobian, body_spatial_jacobian, ref_body. rewrite Hfix. cbn [fst]. rewrite Eb.
    rewrite (proj1 (E _ Hb)).
    repeat split; apply jac_fill_ws; try exact E; unfold NB in *; lia.
  Qed.
  Theorem point_jacobian6_is_point_velocity (w0 w1 : WS) (id : N) (p : V3 T) : Good O M w0 -> Good O M w1 ->
    (id < fixed_disc)%N -> 0 < N.to_nat id < NB ->
    mvmul O (point_jacobian6 O M (ukc_q O M w0 q) id p (mzeros t0 6 (dof_count M))) qd =
    svlist (snd (calc_point_velocity6 O M w1 q qd id p true)).
  Proof.
    intros G0 G1 Hid Hi. rewrite (point_jacobian6_times_qd w0 G0 id p Hid Hi).
    rewrite (point_velocity6_value w1 id p G1 Hid Hi w0 G0). reflexivity.
  Qed.
  Theorem point_jacobian_is_point_velocity (w0 w1 : WS) (id : N) (p : V3 T) : Good O M w0 -> Good O M w1 ->
    (id < fixed_disc)%N -> 0 < N.to_nat id < NB ->
    mvmul O (point_jacobian O M (ukc_q O M w0 q) id p (mzeros t0 3 (dof_count M))) qd =
    v3list (snd (calc_point_velocity O M w1 q qd id p true)).
  Proof.
    intros G0 G1 Hid Hi. rewrite (point_jacobian_times_qd w0 G0 id p Hid Hi).
    unfold calc_point_velocity.
    pose proof (point_velocity6_value w1 id p G1 Hid Hi w0 G0) as K.
    destruct (calc_point_velocity6 O M w1 q qd id p true) as [w2 v]. cbn [snd] in *. rewrite K. reflexivity.
  Qed.
End Inst.
