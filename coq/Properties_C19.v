(* C19 loading a Lua description equals building through the API.  The loader (LuaDef, the code as repaired by fix
   f409a3e) adds the frames in file order with AddBody and resolves each parent by name in the name map of the model
   being built.  Proved: when the name resolves, the loader's call is the API call with the id registered for that
   name; a body added under a fresh name is found under that name afterwards and all other names keep their ids
   (so later frames resolve to the ids the API sequence would use).  Equality of the loaded and the API-built
   mechanism -- gravity, body parameters, joint types and axes, joint frames, order, names, ids, kinematics, dynamics,
   constraint sets -- is decided by the twin runs: the same mechanism is built through the API and loaded from a
   generated file in one process (optionally after another file was loaded) and every observable must be
   bit-identical. *)
From Coq Require Import List NArith.
From RV Require Import Scalar LinAlg3 Spatial ListArr ModelDef LuaDef LuaThm.
Section P.
  Context {T : Type} (O : Ops T).
  Theorem C19_loader_call_is_api_call (M : @Model T) (f : Frame) p :
    name_lookup M (f_parent f) = Some p -> f_parent f <> 0%N -> p <> uint_max ->
    lua_add O M f = add_body O M p (f_X f) (f_joint f) (f_body f) (f_name f).
  Proof. exact (lua_add_is_api_call O M f p). Qed.
  Theorem C19_added_name_resolves_to_new_id (M M' : @Model T) p X j b nm id other :
    nm <> 0%N -> name_lookup M nm = None ->
    add_movable O M p X j b nm = (M', ROk id) ->
    name_lookup M' nm = Some id /\ (other <> nm -> name_lookup M' other = name_lookup M other).
  Proof. exact (add_movable_registers_name O M M' p X j b nm id other). Qed.
End P.
Print Assumptions C19_loader_call_is_api_call. Print Assumptions C19_added_name_resolves_to_new_id.
