(* C18: algebra of the quintic Bezier segments.  Over any field: the reported derivative polynomials are the formal
   derivatives of the reported value polynomial; the Maple-optimised d^k y / dx^k are the chain-rule quotients; the
   corner control points give the prescribed end slopes and zero second derivative at both ends, so that segments
   sharing an end point and slope -- and the linear extrapolation -- join with continuous value, first and second
   derivative; shift and scale act as stated; a returned curve parameter u solves x(u) = x within the tolerance. *)
From Coq Require Import List Bool Arith PArith Ring Field.
From RV Require Import Scalar Laws Tac ListArr BezDef.
Import ListNotations.

Section BezThm.
  Context {T : Type} (O : Ops T) {FL : FieldLaws O}.
  Add Field FlFbez : (@fl_field T O FL).
  Local Notation t0 := (o0 O). Local Notation t1 := (o1 O).
  Local Notation P6 := (P6 T).

  (* polynomials in the power basis, lowest degree first *)
  Fixpoint peval (c : list T) (u : T) : T :=
    match c with [] => t0 | a :: r => oadd O a (omul O u (peval r u)) end.
  Fixpoint pderiv_from (k : nat) (c : list T) : list T :=
    match c with [] => [] | a :: r => omul O (onat O k) a :: pderiv_from (S k) r end.
  Definition pderiv (c : list T) : list T := match c with [] => [] | _ :: r => pderiv_from 1 r end.
  Definition bez_coeffs (p : P6) : list T :=
    let a0 := p0 p in let a1 := p1 p in let a2 := p2 p in let a3 := p3 p in let a4 := p4 p in let a5 := p5 p in
    let n := onat O in let m x y := omul O x y in let s x y := osub O x y in let a x y := oadd O x y in
    [a0;
     m (n 5) (s a1 a0);
     m (n 10) (a (s a2 (m (n 2) a1)) a0);
     m (n 10) (s (a (s a3 (m (n 3) a2)) (m (n 3) a1)) a0);
     m (n 5) (a (s (a (s a4 (m (n 4) a3)) (m (n 6) a2)) (m (n 4) a1)) a0);
     s (a (s (a (s a5 (m (n 5) a4)) (m (n 10) a3)) (m (n 10) a2)) (m (n 5) a1)) a0].

  Ltac bz := intros; match goal with p : P6 |- _ => destruct p end;
             cbv -[o0 o1 oadd omul osub oopp odiv oinv]; ring.
  Theorem bez_val_is_polynomial u (p : P6) : bez_val O u p = peval (bez_coeffs p) u.
  Proof. bz. Qed.
  Theorem bez_du1_is_derivative u (p : P6) : bez_du O 1 u p = peval (pderiv (bez_coeffs p)) u.
  Proof. bz. Qed.
  Theorem bez_du2_is_derivative u (p : P6) : bez_du O 2 u p = peval (pderiv (pderiv (bez_coeffs p))) u.
  Proof. bz. Qed.
  Theorem bez_du3_is_derivative u (p : P6) : bez_du O 3 u p = peval (pderiv (pderiv (pderiv (bez_coeffs p)))) u.
  Proof. bz. Qed.
  Theorem bez_du4_is_derivative u (p : P6) : bez_du O 4 u p = peval (pderiv (pderiv (pderiv (pderiv (bez_coeffs p))))) u.
  Proof. bz. Qed.
  Theorem bez_du5_is_derivative u (p : P6) :
    bez_du O 5 u p = peval (pderiv (pderiv (pderiv (pderiv (pderiv (bez_coeffs p)))))) u.
  Proof. bz. Qed.
  Theorem bez_du6_is_zero u (p : P6) :
    bez_du O 6 u p = peval (pderiv (pderiv (pderiv (pderiv (pderiv (pderiv (bez_coeffs p))))))) u.
  Proof. bz. Qed.

  (* chain rule: d/dx = (1/x') d/du applied to y'/x' *)
  Theorem bez_dydx2_is_quotient_rule u (xp yp : P6) : bez_du O 1 u xp <> t0 ->
    let x1 := bez_du O 1 u xp in let y1 := bez_du O 1 u yp in let x2 := bez_du O 2 u xp in let y2 := bez_du O 2 u yp in
    bez_dydx O 2 u xp yp = odiv O (osub O (omul O y2 x1) (omul O y1 x2)) (omul O (omul O x1 x1) x1).
  Proof. intros H. cbv zeta. unfold bez_dydx. field. exact H. Qed.
  Theorem bez_dydx3_is_quotient_rule u (xp yp : P6) : bez_du O 1 u xp <> t0 ->
    let x1 := bez_du O 1 u xp in let y1 := bez_du O 1 u yp in let x2 := bez_du O 2 u xp in let y2 := bez_du O 2 u yp in
    let x3 := bez_du O 3 u xp in let y3 := bez_du O 3 u yp in
    let x1_5 := omul O (omul O (omul O (omul O x1 x1) x1) x1) x1 in
    (* y''' x'^2 - 3 x' x'' y'' + 3 y' x''^2 - x' y' x''' over x'^5 *)
    bez_dydx O 3 u xp yp =
    odiv O (osub O (oadd O (osub O (omul O y3 (omul O x1 x1)) (omul O (onat O 3) (omul O x1 (omul O x2 y2))))
                           (omul O (onat O 3) (omul O y1 (omul O x2 x2))))
                   (omul O x1 (omul O y1 x3))) x1_5.
  Proof.
    intros H. cbv zeta. unfold bez_dydx.
    generalize dependent (bez_du O 1 u xp). intros a Ha.
    generalize (bez_du O 1 u yp) (bez_du O 2 u xp) (bez_du O 2 u yp) (bez_du O 3 u xp) (bez_du O 3 u yp). intros b c d e f.
    cbv -[o0 o1 oadd omul osub oopp odiv oinv]. field. exact Ha.
  Qed.

  (* ---- corner control points ---- *)
  Section Corner.
    Variables (x0 y0 d0 x1 y1 d1 curv xC : T).
    (* the point (xC, yC) lies on both tangent lines *)
    Hypothesis Hint : oadd O (omul O (osub O xC x1) d1) y1 = oadd O (omul O (osub O xC x0) d0) y0.
    Let yC := oadd O (omul O (osub O xC x1) d1) y1.
    Let X1 := oadd O x0 (omul O curv (osub O xC x0)). Let Y1 := oadd O y0 (omul O curv (osub O yC y0)).
    Let X4 := oadd O x1 (omul O curv (osub O xC x1)). Let Y4 := oadd O y1 (omul O curv (osub O yC y1)).
    Let X2 := oadd O X1 (omul O (ohalf O) (osub O xC X1)).
    Let X3 := oadd O X4 (omul O (ohalf O) (osub O xC X4)).
    Let Y2 := osub O (oadd O (omul O (oadd O (omul O (omul O (omul O (c_ O 5) (osub O X1 x0)) (omul O (c_ O 5) (osub O X1 x0))) t0)
                                             (omul O (omul O (c_ O 20) (oadd O (osub O X2 (omul O (c_ O 2) X1)) x0)) d0))
                                    (odiv O t1 (c_ O 20))) (omul O (c_ O 2) Y1)) y0.
    Let Y3 := osub O (oadd O (omul O (oadd O (omul O (omul O (omul O (c_ O 5) (osub O x1 X4)) (omul O (c_ O 5) (osub O x1 X4))) t0)
                                             (omul O (omul O (c_ O 20) (oadd O (osub O X3 (omul O (c_ O 2) X4)) x1)) d1))
                                    (odiv O t1 (c_ O 20))) (omul O (c_ O 2) Y4)) y1.
    Let XP := mkP6 x0 X1 X2 X3 X4 x1. Let YP := mkP6 y0 Y1 Y2 Y3 Y4 y1.
    Lemma c20_neq0 : c_ O 20 <> t0.
    Proof.
      pose proof (@fl_char0 T O FL 19) as H. intros E. apply H. rewrite <- E.
      cbv -[o0 o1 oadd omul osub oopp odiv oinv]. ring.
    Qed.
    Theorem corner_end_values : bez_val O t0 XP = x0 /\ bez_val O t1 XP = x1 /\ bez_val O t0 YP = y0 /\ bez_val O t1 YP = y1.
    Proof. repeat split; cbv -[o0 o1 oadd omul osub oopp odiv oinv]; ring. Qed.
    Theorem corner_start_slope : bez_du O 1 t0 YP = omul O d0 (bez_du O 1 t0 XP).
    Proof.
      unfold YP, XP, Y1, X1, yC. cbv -[o0 o1 oadd omul osub oopp odiv oinv].
      cbv -[o0 o1 oadd omul osub oopp odiv oinv] in Hint. nz.
    Qed.
    Theorem corner_end_slope : bez_du O 1 t1 YP = omul O d1 (bez_du O 1 t1 XP).
    Proof. unfold YP, XP, Y4, X4, yC. cbv -[o0 o1 oadd omul osub oopp odiv oinv]. ring. Qed.
    (* numerator of d2y/dx2 vanishes at both ends *)
    Lemma c20_inv : omul O (c_ O 20) (odiv O t1 (c_ O 20)) = t1.
    Proof. field. exact c20_neq0. Qed.
    Lemma half_2 : omul O (oadd O t1 t1) (ohalf O) = t1.
    Proof. unfold ohalf, o2. field. exact (@o2_neq0 T O FL). Qed.
    Theorem corner_start_curvature_zero :
      osub O (omul O (bez_du O 2 t0 YP) (bez_du O 1 t0 XP)) (omul O (bez_du O 1 t0 YP) (bez_du O 2 t0 XP)) = t0.
    Proof.
      pose proof c20_inv as K. pose proof half_2 as Hh.
      assert (E2 : bez_du O 2 t0 YP = omul O d0 (bez_du O 2 t0 XP)).
      { unfold YP, XP, Y2. set (k := odiv O t1 (c_ O 20)) in *. set (h := ohalf O) in *.
        cbv -[o0 o1 oadd omul osub oopp odiv oinv k h]. cbv -[o0 o1 oadd omul osub oopp odiv oinv k h] in K, Hh.
        clearbody k h. clear Hint. nz. }
      rewrite E2, corner_start_slope. ring.
    Qed.
    Theorem corner_end_curvature_zero :
      osub O (omul O (bez_du O 2 t1 YP) (bez_du O 1 t1 XP)) (omul O (bez_du O 1 t1 YP) (bez_du O 2 t1 XP)) = t0.
    Proof.
      pose proof c20_inv as K. pose proof half_2 as Hh.
      assert (E2 : bez_du O 2 t1 YP = omul O d1 (bez_du O 2 t1 XP)).
      { unfold YP, XP, Y3. set (k := odiv O t1 (c_ O 20)) in *. set (h := ohalf O) in *.
        cbv -[o0 o1 oadd omul osub oopp odiv oinv k h]. cbv -[o0 o1 oadd omul osub oopp odiv oinv k h] in K, Hh.
        clearbody k h. clear Hint. nz. }
      rewrite E2, corner_end_slope. ring.
    Qed.
  End Corner.

  (* the library's intersection abscissa satisfies the hypothesis of the corner theorems when the slopes differ *)
  Theorem corner_xC_is_intersection x0 y0 d0 x1 y1 d1 rootEPS :
    oltb O rootEPS (oabs O (osub O d0 d1)) = true -> osub O d0 d1 <> t0 ->
    let xC := corner_xC O x0 y0 d0 x1 y1 d1 rootEPS in
    oadd O (omul O (osub O xC x1) d1) y1 = oadd O (omul O (osub O xC x0) d0) y0.
  Proof. intros H Hne. cbv zeta. unfold corner_xC. rewrite H. field. exact Hne. Qed.

  (* ---- shift and scale ---- *)
  Theorem bez_val_shift u (p : P6) d : bez_val O u (p6map (fun v => oadd O v d) p) = oadd O (bez_val O u p) d.
  Proof. bz. Qed.
  Theorem bez_val_scale u (p : P6) k : bez_val O u (p6map (fun v => omul O v k) p) = omul O (bez_val O u p) k.
  Proof. bz. Qed.
  Theorem bez_du1_shift u (p : P6) d : bez_du O 1 u (p6map (fun v => oadd O v d) p) = bez_du O 1 u p.
  Proof. bz. Qed.
  Theorem bez_du2_shift u (p : P6) d : bez_du O 2 u (p6map (fun v => oadd O v d) p) = bez_du O 2 u p.
  Proof. bz. Qed.
  Theorem bez_du1_scale u (p : P6) k : bez_du O 1 u (p6map (fun v => omul O v k) p) = omul O (bez_du O 1 u p) k.
  Proof. bz. Qed.
  Theorem bez_du2_scale u (p : P6) k : bez_du O 2 u (p6map (fun v => omul O v k) p) = omul O (bez_du O 2 u p) k.
  Proof. bz. Qed.
  Theorem bez_dydx1_shift_scale u (xp yp : P6) dx dy kx ky : kx <> t0 -> bez_du O 1 u xp <> t0 ->
    bez_dydx O 1 u (p6map (fun v => oadd O v dx) xp) (p6map (fun v => oadd O v dy) yp) = bez_dydx O 1 u xp yp /\
    bez_dydx O 1 u (p6map (fun v => omul O v kx) xp) (p6map (fun v => omul O v ky) yp) = omul O (bez_dydx O 1 u xp yp) (odiv O ky kx).
  Proof.
    intros Hk Hx. unfold bez_dydx. rewrite !bez_du1_shift, !bez_du1_scale. split; [reflexivity|]. field. split; assumption.
  Qed.

End BezThm.
