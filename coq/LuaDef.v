(* L2: the Lua loader (addons/luamodel/luamodel.cc:427-474, as repaired by fix f409a3e): frames are added in file
   order with AddBody; the parent is looked up by NAME in the name map built during this load (unknown names and
   "ROOT" give the base). *)
From Coq Require Import List NArith.
From RV Require Import Scalar LinAlg3 Spatial ListArr ModelDef.
Import ListNotations.
Section Lua.
  Context {T : Type} (O : Ops T).
  Local Notation Model := (@Model T).
  Record Frame := mkFrame { f_name : N; f_parent : N; f_X : ST T; f_joint : @JSpec T; f_body : @Body T }.
  (* name 0 = no name; the base is registered as ROOT = 1 in model0 *)
  Definition lua_parent (M : Model) (pname : N) : N :=
    match name_lookup M pname with
    | Some id => if (N.eqb pname 0 || N.eqb id uint_max)%bool then 0%N else id
    | None => 0%N
    end.
  Definition lua_add (M : Model) (f : Frame) : Model * Res :=
    add_body O M (lua_parent M (f_parent f)) (f_X f) (f_joint f) (f_body f) (f_name f).
  Definition lua_load (M0 : Model) (fs : list Frame) : Model := fold_left (fun M f => fst (lua_add M f)) fs M0.
End Lua.
