(* C03 / C02: the CRBA theorems for ANY workspace that holds the declared joint transforms and motion subspaces
   (not only the one left by the position update), and forward dynamics by the Lagrangian route inverts inverse
   dynamics. *)
From Coq Require Import List Bool Arith NArith Lia Ring Field.
From RV Require Import Scalar Laws Tac LinAlg3 Spatial Quat SpatialLaws QuatLaws ListArr ListLemmas ModelDef JointDef KinDef LinDef DynDef ConsDef UtilDef
     Tree VPower C14Thm WsLemmas KinThm KinThm2 C04Thm DynThm NleThm LinThm ConsThm IdcThm JacThm JacThm2 JacThm3 DimThm EnergyThm SymThm QuadThm ComThm
     CrbaThm CrbaThm2 CrbaThm3 IdLinThm.
Import ListNotations.

Section Gen.
  Context {T : Type} (O : Ops T) {FL : FieldLaws O} {TL : TrigLaws O}.
  Add Field FlFgen : (@fl_field T O FL).
  Local Notation t0 := (o0 O).
  Local Notation Model := (@Model T). Local Notation WS := (@WS T).
  Local Notation Mat := (@Mat T).
  Variable M : Model.
  Variable q : list T.
  Hypothesis W : WF M.
  Hypothesis Hjw : forall i, 0 < i < nbodies M -> joint_wf O M q i.
  Hypothesis two_nz : o2 O <> t0.
  Let NB := nbodies M.
  Let n := dof_count M.

  (* a workspace that carries the declared kinematic data of configuration q *)
  Definition KinOK (w : WS) : Prop :=
    ws_len w NB /\ forall i, 0 < i < NB ->
      gXl O w i = XlF O M q i /\ jS O M w i = SF O M q i /\ length (SF O M q i) = jdof (getJ M i).

  Variable w : WS.
  Hypothesis K : KinOK w.
  Let H : Mat := snd (crba O M w q (zerosM O n n) false).

  Lemma vB_rec qd i : 0 < i < NB ->
    vB O M q qd i = svadd O (st_apply O (gXl O w i) (vB O M q qd (getlam M i))) (cols_mulv O (jS O M w i) (qd_seg O M i qd)).
  Proof.
    intros Hi. destruct (proj2 K i Hi) as (EX & ES & _). rewrite EX, ES.
    unfold vB. destruct (Nat.eqb_spec i 0); [lia|].
    rewrite (vF_unfold O M q qd i W Hi). unfold vJF.
    destruct (Nat.eqb_spec (getlam M i) 0) as [e|ne]; [|reflexivity].
    rewrite (@apply_zero T O FL). generalize (cols_mulv O (SF O M q i) (qd_seg O M i qd)). intros y. l1_split; ring.
  Qed.

  Theorem gen_quadratic (qd : list T) : length qd = n ->
    odot O qd (mvmul O H qd) = bsum O (fun j => svdot O (vF O M q qd j) (rbi_mulv O (getI O M j) (vF O M q qd j))) NB.
  Proof.
    intros Hqd. unfold H. rewrite (crba_false_phase2 O M).
    assert (LIc : length (wIc w) = NB) by (destruct K as [L _]; unfold ws_len in L; decompose [and] L; assumption).
    change (fold_left (fun w1 i => w_Ic w1 (upd (wIc w1) i (getI O M i))) (body_range M) w) with (com_reset O M w).
    destruct (com_reset_spec O M W w LIc) as (L1 & G1 & X1).
    assert (SK : SameKin M w (com_reset O M w)).
    { unfold SameKin. repeat split; try exact L1; try exact X1;
        unfold com_reset; apply (fold_left_inv_eq (fun w' => _ w')); intros; reflexivity. }
    pose proof (crba_energy O M W qd Hqd (fun j => gXl O w j) (fun j => jS O M w j)
                  (fun k Hk => eq_trans (f_equal (@length _) (proj1 (proj2 (proj2 K k Hk)))) (proj2 (proj2 (proj2 K k Hk))))
                  (fun k Hk => eq_ind_r (fun X => m3rot O (stE X)) (XlF_rot O M q Hjw k Hk) (proj1 (proj2 K k Hk)))
                  (vB O M q qd) eq_refl (vB_rec qd)
                  w (fun j => eq_refl) (fun j => eq_refl) (zerosM O n n) (com_reset O M w) SK G1 (zerosM_wf O n)
                  (fun r s => mget_zeros O n n r s)) as E.
    unfold Q in E. rewrite E. unfold energy. apply (bsum_ext O M). intros j Hj.
    unfold vB. destruct (Nat.eqb_spec j 0); [lia|reflexivity].
  Qed.

  Lemma gen_wf : WFm n H. Proof. apply crba_wf. Qed.
  Lemma gen_symmetric : symmetric O n H.
  Proof.
    unfold H. apply (crba_symmetric O M W). intros k Hk.
    destruct (proj2 K k Hk) as (_ & ES & EL). rewrite ES. exact EL.
  Qed.

  Theorem gen_bilinear (x y : list T) : length x = n -> length y = n ->
    odot O x (mvmul O H y) = cross O M q x y.
  Proof.
    intros Lx Ly.
    assert (Exy : length x = length y) by lia.
    pose proof gen_wf as WH. pose proof gen_symmetric as SH.
    assert (Lxy : length (vadd O x y) = n) by (rewrite (vadd_length O); assumption).
    pose proof (gen_quadratic (vadd O x y) Lxy) as Qxy.
    pose proof (gen_quadratic x Lx) as Qx. pose proof (gen_quadratic y Ly) as Qy.
    assert (L : odot O (vadd O x y) (mvmul O H (vadd O x y)) =
                oadd O (oadd O (odot O x (mvmul O H x)) (odot O y (mvmul O H y))) (omul O (o2 O) (odot O x (mvmul O H y)))).
    { rewrite (@mvmul_vadd T O FL) by exact Exy.
      assert (Lm : length (mvmul O H x) = length (mvmul O H y)) by (rewrite !(mvmul_length O); reflexivity).
      rewrite (odot_vadd_r O) by exact Lm. rewrite !(@odot_vadd_l T O FL) by exact Exy.
      rewrite (quad_sym O H n y x WH SH Ly Lx). unfold o2. ring. }
    assert (R : en O M q (vadd O x y) = oadd O (oadd O (en O M q x) (en O M q y)) (omul O (o2 O) (cross O M q x y))).
    { unfold en, cross. rewrite <- (@bsum_scale' T O FL), <- !(@bsum_add' T O FL). apply (bsum_ext O M). intros j Hj.
      rewrite (@vF_add T O FL M q W x y Exy j Hj).
      rewrite (@energy_expand T O FL).
      rewrite (rbi_mulv_sym O (getI O M j) (vF O M q y j) (vF O M q x j)). unfold o2. ring. }
    unfold en in R at 1. unfold NB in Qxy, Qx, Qy. rewrite <- Qxy, L in R. unfold en in R. rewrite <- Qx, <- Qy in R.
    set (h := odot O x (mvmul O H y)) in *. set (c := cross O M q x y) in *.
    set (A := oadd O (odot O x (mvmul O H x)) (odot O y (mvmul O H y))) in *.
    assert (C2 : omul O (o2 O) h = omul O (o2 O) c) by (clearbody h c A; nz).
    transitivity (odiv O (omul O (o2 O) h) (o2 O)); [field; exact two_nz|]. rewrite C2. field. exact two_nz.
  Qed.
  (* every entry of H is determined by q alone: H_rs = e_r^T H e_s = sum_i v_i(e_r) . I_i v_i(e_s) *)
  Theorem gen_entry r s : r < n -> s < n ->
    mget t0 H r s = cross O M q (unitv O n r) (unitv O n s).
  Proof.
    intros Hr Hs. rewrite <- (gen_bilinear (unitv O n r) (unitv O n s) (unitv_length O n r) (unitv_length O n s)).
    pose proof gen_wf as [LH RH].
    rewrite (odot_unitv O n) by (try rewrite (mvmul_length O); assumption).
    rewrite (nth_mvmul O) by (rewrite LH; exact Hr).
    rewrite (@odot_comm T O FL). rewrite (odot_unitv O n) by (try apply RH; assumption). reflexivity.
  Qed.
End Gen.

Section GenTwo.
  Context {T : Type} (O : Ops T) {FL : FieldLaws O} {TL : TrigLaws O}.
  Local Notation t0 := (o0 O).
  (* C13 for CRBA: with the flag cleared, the result is the same on any two workspaces that carry the kinematic data of q *)
  Theorem crba_ws_independent (M : @Model T) q (wa wb : @WS T) : WF M ->
    (forall i, 0 < i < nbodies M -> joint_wf O M q i) -> o2 O <> t0 -> KinOK O M q wa -> KinOK O M q wb ->
    let n := dof_count M in
    forall r s, r < n -> s < n ->
      mget t0 (snd (crba O M wa q (zerosM O n n) false)) r s = mget t0 (snd (crba O M wb q (zerosM O n n) false)) r s.
  Proof.
    intros W J N2 Ka Kb n r s Hr Hs. unfold n in *.
    rewrite (gen_entry O M q W J N2 wa Ka r s Hr Hs), (gen_entry O M q W J N2 wb Kb r s Hr Hs). reflexivity.
  Qed.
  Lemma ukc_q_kinok (M : @Model T) q (w0 : @WS T) : WF M ->
    (forall i j, 0 < i < nbodies M -> 0 < j < nbodies M -> i <> j ->
       is_custom (jkind (getJ M i)) = true -> is_custom (jkind (getJ M j)) = true -> jcust (getJ M i) <> jcust (getJ M j)) ->
    Good O M w0 -> KinOK O M q (ukc_q O M w0 q).
  Proof.
    intros W C Hg. split; [exact (proj1 (ukc_q_spec O M w0 q W (proj1 Hg)))|].
    intros i Hi. split; [exact (ukc_q_Xl O M q W (vzeros t0 (dof_count M)) (vzeros_length _ _) w0 (proj1 Hg) i Hi)|]. split.
    - exact (w_S O M q W C w0 Hg i Hi).
    - rewrite <- (w_S O M q W C w0 Hg i Hi). exact (w_Slen O M q W C w0 Hg i Hi).
  Qed.
  Theorem crba_after_position_update_ws_independent (M : @Model T) q (w1 w2 : @WS T) : WF M ->
    (forall i j, 0 < i < nbodies M -> 0 < j < nbodies M -> i <> j ->
       is_custom (jkind (getJ M i)) = true -> is_custom (jkind (getJ M j)) = true -> jcust (getJ M i) <> jcust (getJ M j)) ->
    (forall i, 0 < i < nbodies M -> joint_wf O M q i) -> o2 O <> t0 -> Good O M w1 -> Good O M w2 ->
    let n := dof_count M in
    forall r s, r < n -> s < n ->
      mget t0 (snd (crba O M (ukc_q O M w1 q) q (zerosM O n n) false)) r s =
      mget t0 (snd (crba O M (ukc_q O M w2 q) q (zerosM O n n) false)) r s.
  Proof.
    intros W C J N2 G1 G2. apply crba_ws_independent; try assumption; apply ukc_q_kinok; assumption.
  Qed.
End GenTwo.
