(* L2: quintic Bezier toolkit and smooth segmented functions of the geometry addon
   (addons/geometry/SegmentedQuinticBezierToolkit.cc, SmoothSegmentedFunction.cc). *)
From Coq Require Import List Bool Arith PArith.
From RV Require Import Scalar ListArr.
Import ListNotations.

Section Bez.
  Context {T : Type} (O : Ops T).
  Local Notation t0 := (o0 O). Local Notation t1 := (o1 O).
  Local Notation "a + b" := (oadd O a b). Local Notation "a * b" := (omul O a b).
  Local Notation "a - b" := (osub O a b). Local Notation "- a" := (oopp O a). Local Notation "a / b" := (odiv O a b).
  (* integer literals in binary (exact in floating point, small terms for ring) *)
  Fixpoint opos (p : positive) : T :=
    match p with
    | xH => t1
    | xO q => (t1 + t1) * opos q
    | xI q => t1 + (t1 + t1) * opos q
    end.
  Definition c_ (n : nat) : T := opos (Pos.of_nat n).

  (* six control points *)
  Record P6 := mkP6 { p0 : T; p1 : T; p2 : T; p3 : T; p4 : T; p5 : T }.
  Definition p6list (p : P6) : list T := [p0 p; p1 p; p2 p; p3 p; p4 p; p5 p].
  Definition p6map (f : T -> T) (p : P6) : P6 := mkP6 (f (p0 p)) (f (p1 p)) (f (p2 p)) (f (p3 p)) (f (p4 p)) (f (p5 p)).

  (* calcQuinticBezierCurveVal *)
  Definition bez_val (u1 : T) (p : P6) : T :=
    let u2 := u1 * u1 in let u3 := u2 * u1 in let u4 := u3 * u1 in let u5 := u4 * u1 in
    let v1 := t1 - u1 in let v2 := v1 * v1 in let v3 := v2 * v1 in let v4 := v3 * v1 in let v5 := v4 * v1 in
    p0 p * v5 * t1 + p1 p * u1 * v4 * c_ 5 + p2 p * u2 * v3 * c_ 10 + p3 p * u3 * v2 * c_ 10 + p4 p * u4 * v1 * c_ 5 + p5 p * u5 * t1.

  (* calcQuinticBezierCurveDerivU, orders 1..5 (0 above) *)
  Definition bez_du (order : nat) (u : T) (p : P6) : T :=
    match order with
    | 1 =>
      let t1_ := u * u in let t2 := t1_ * t1_ in let t4 := t1_ * u in
      let t5 := t4 * c_ 20 in let t6 := t1_ * c_ 30 in let t7 := u * c_ 20 in
      let t10 := t2 * c_ 25 in let t11 := t4 * c_ 80 in let t12 := t1_ * c_ 90 in let t16 := t2 * c_ 50 in
      p0 p * (t2 * (- c_ 5) + t5 - t6 + t7 - c_ 5)
      + p1 p * (t10 - t11 + t12 + u * (- c_ 40) + c_ 5)
      + p2 p * (- t16 + t4 * c_ 120 - t12 + t7)
      + p3 p * (t16 - t11 + t6)
      + p4 p * (- t10 + t5)
      + p5 p * t2 * c_ 5
    | 2 =>
      let t1_ := u * u in let t2 := t1_ * u in let t4 := t1_ * c_ 60 in let t5 := u * c_ 60 in
      let t8 := t2 * c_ 100 in let t9 := t1_ * c_ 240 in let t10 := u * c_ 180 in let t13 := t2 * c_ 200 in
      p0 p * (t2 * (- c_ 20) + t4 - t5 + c_ 20)
      + p1 p * (t8 - t9 + t10 - c_ 40)
      + p2 p * (- t13 + t1_ * c_ 360 - t10 + c_ 20)
      + p3 p * (t13 - t9 + t5)
      + p4 p * (- t8 + t4)
      + p5 p * t2 * c_ 20
    | 3 =>
      let t1_ := u * u in let t3 := u * c_ 120 in let t6 := t1_ * c_ 300 in let t7 := u * c_ 480 in let t10 := t1_ * c_ 600 in
      p0 p * (t1_ * (- c_ 60) + t3 - c_ 60)
      + p1 p * (t6 - t7 + c_ 180)
      + p2 p * (- t10 + u * c_ 720 - c_ 180)
      + p3 p * (t10 - t7 + c_ 60)
      + p4 p * (- t6 + t3)
      + p5 p * t1_ * c_ 60
    | 4 =>
      let t4 := u * c_ 600 in let t7 := u * c_ 1200 in
      p0 p * (u * (- c_ 120) + c_ 120) + p1 p * (t4 - c_ 480) + p2 p * (- t7 + c_ 720)
      + p3 p * (t7 - c_ 480) + p4 p * (- t4 + c_ 120) + p5 p * u * c_ 120
    | 5 => p0 p * (- c_ 120) + p1 p * c_ 600 + p2 p * (- c_ 1200) + p3 p * c_ 1200 + p4 p * (- c_ 600) + p5 p * c_ 120
    | _ => t0
    end.

  (* calcQuinticBezierCurveDerivDYDX, orders 1..3 as written (Maple-optimised forms) *)
  Definition bez_dydx (order : nat) (u : T) (xp yp : P6) : T :=
    let dxdu := bez_du 1 u xp in let dydu := bez_du 1 u yp in
    match order with
    | 1 => dydu / dxdu
    | 2 =>
      let d2xdu2 := bez_du 2 u xp in let d2ydu2 := bez_du 2 u yp in
      let t1_ := t1 / dxdu in let t3 := dxdu * dxdu in
      (d2ydu2 * t1_ - dydu / t3 * d2xdu2) * t1_
    | 3 =>
      let d2xdu2 := bez_du 2 u xp in let d2ydu2 := bez_du 2 u yp in
      let d3xdu3 := bez_du 3 u xp in let d3ydu3 := bez_du 3 u yp in
      let t1_ := t1 / dxdu in let t3 := dxdu * dxdu in let t4 := t1 / t3 in
      let t11 := d2xdu2 * d2xdu2 in let t14 := dydu * t4 in
      ((d3ydu3 * t1_ - c_ 2 * d2ydu2 * t4 * d2xdu2 + c_ 2 * dydu / t3 / dxdu * t11 - t14 * d3xdu3) * t1_
       - (d2ydu2 * t1_ - t14 * d2xdu2) * t4 * d2xdu2) * t1_
    | _ => t0
    end.

  (* calcQuinticBezierCornerControlPoints (the checks that throw are the guard `corner_ok`) *)
  Definition corner_xC (x0 y0 dydx0 x1 y1 dydx1 rootEPS : T) : T :=
    if oltb O rootEPS (oabs O (dydx0 - dydx1))
    then (y1 - y0 - x1 * dydx1 + x0 * dydx0) / (dydx0 - dydx1)
    else (x1 + x0) / c_ 2.
  Definition corner_cp (x0 y0 dydx0 x1 y1 dydx1 curv rootEPS : T) : P6 * P6 :=
    let xC := corner_xC x0 y0 dydx0 x1 y1 dydx1 rootEPS in
    let yC := (xC - x1) * dydx1 + y1 in
    let X1 := x0 + curv * (xC - x0) in let Y1 := y0 + curv * (yC - y0) in
    let X4 := x1 + curv * (xC - x1) in let Y4 := y1 + curv * (yC - y1) in
    let dxdu0 := c_ 5 * (X1 - x0) in
    let X2 := X1 + ohalf O * (xC - X1) in
    let d2xdu20 := c_ 20 * (X2 - c_ 2 * X1 + x0) in
    let d2ydu20 := dxdu0 * dxdu0 * t0 + d2xdu20 * dydx0 in
    let Y2 := d2ydu20 * (t1 / c_ 20) + c_ 2 * Y1 - y0 in
    let dxdu1 := c_ 5 * (x1 - X4) in
    let X3 := X4 + ohalf O * (xC - X4) in
    let d2xdu21 := c_ 20 * (X3 - c_ 2 * X4 + x1) in
    let d2ydu21 := dxdu1 * dxdu1 * t0 + d2xdu21 * dydx1 in
    let Y3 := d2ydu21 * (t1 / c_ 20) + c_ 2 * Y4 - y1 in
    (mkP6 x0 X1 X2 X3 X4 x1, mkP6 y0 Y1 Y2 Y3 Y4 y1).
  Definition corner_ok (x0 y0 dydx0 x1 y1 dydx1 curv rootEPS : T) : bool :=
    let xC := corner_xC x0 y0 dydx0 x1 y1 dydx1 rootEPS in
    let yC := (xC - x1) * dydx1 + y1 in
    let a := (xC - x0) * (xC - x0) + (yC - y0) * (yC - y0) in
    let b := (xC - x1) * (xC - x1) + (yC - y1) * (yC - y1) in
    let c := (x1 - x0) * (x1 - x0) + (y1 - y0) * (y1 - y0) in
    (negb (oltb O curv t0) && negb (oltb O t1 curv) && oltb O a c && oltb O b c)%bool.

  (* calcU: bisection start, then Newton; None = not converged (the library throws); `perturb` stands for rand() *)
  Definition clampU (u : T) : T := if oltb O u t0 then t0 else if oltb O t1 u then t1 else u.
  Definition omin (a b : T) : T := if oltb O a b then a else b.
  Fixpoint bisect (fuel : nat) (ax : T) (xp : P6) (tolI : T) (uL uR fL fR u f : T) : T * T * T * T :=
    match fuel with
    | 0 => (uL, uR, fL, fR)
    | S k =>
      if oltb O tolI (omin (oabs O fL) (oabs O fR)) then
        let u := ohalf O * (uL + uR) in
        let f := bez_val u xp - ax in
        if Bool.eqb (oltb O f t0) (oltb O fL t0) then bisect k ax xp tolI u uR f fR u f
        else bisect k ax xp tolI uL u fL f u f
      else (uL, uR, fL, fR)
    end.
  Fixpoint newton (fuel : nat) (ax : T) (xp : P6) (tolN : T) (u f : T) (perturb : T) : T * T :=
    match fuel with
    | 0 => (u, f)
    | S k =>
      if oltb O tolN (oabs O f) then
        let df := bez_du 1 u xp in
        if oltb O t0 (oabs O df) then
          let u' := clampU (u + (- f / df)) in newton k ax xp tolN u' (bez_val u' xp - ax) perturb
        else newton k ax xp tolN (clampU (u + perturb)) f perturb
      else (u, f)
    end.
  Definition calc_u (ax : T) (xp : P6) (tol tolDesired tolInit : T) (maxIterInit maxIter : nat) (perturb : T) : option T :=
    let l := p6list xp in
    let big := fold_left (fun m x => if oltb O m x then x else m) l (p0 xp) in
    let small := fold_left (fun m x => if oltb O x m then x else m) l (p0 xp) in
    if (oltb O ax small || oltb O big ax)%bool then None else
    let u := clampU (ax / (big - small)) in
    let f := bez_val u xp - ax in
    let '(u, f) :=
      if oltb O tol (oabs O f) then
        let fL := bez_val t0 xp - ax in let fR := bez_val t1 xp - ax in
        let '(uL, uR, fL, fR) := bisect maxIterInit ax xp tolInit t0 t1 fL fR u f in
        if oltb O (oabs O fL) (oabs O fR) then (uL, fL) else (uR, fR)
      else (u, f) in
    let '(u, f) := newton maxIter ax xp (omin tol tolDesired) u f perturb in
    if oltb O tol (oabs O f) then None else Some u.

  (* ---------- SmoothSegmentedFunction ---------- *)
  Record SSF := mkSSF { sX : list P6; sY : list P6; sx0 : T; sx1 : T; sy0 : T; sy1 : T; sd0 : T; sd1 : T }.
  Definition dP6 : P6 := mkP6 t0 t0 t0 t0 t0 t0.
  Fixpoint calc_index_from (x : T) (xs : list P6) (i : nat) : option nat :=
    match xs with
    | [] => None
    | p :: rest => if (negb (oltb O x (p0 p)) && oltb O x (p5 p))%bool then Some i else calc_index_from x rest (S i)
    end.
  Definition calc_index (x : T) (xs : list P6) : option nat :=
    match calc_index_from x xs 0 with
    | Some i => Some i
    | None => if oeqb O x (p5 (last xs dP6)) then Some (Nat.pred (length xs)) else None
    end.
  Definition in_domain (s : SSF) (x : T) : bool := (negb (oltb O x (sx0 s)) && negb (oltb O (sx1 s) x))%bool.
  Definition ssf_value (s : SSF) (x utol tolD tolI : T) (mi0 mi : nat) (pert : T) : option T :=
    if in_domain s x then
      match calc_index x (sX s) with
      | Some idx =>
        match calc_u x (nth idx (sX s) dP6) utol tolD tolI mi0 mi pert with
        | Some u => Some (bez_val u (nth idx (sY s) dP6))
        | None => None
        end
      | None => None
      end
    else if oltb O x (sx0 s) then Some (sy0 s + sd0 s * (x - sx0 s)) else Some (sy1 s + sd1 s * (x - sx1 s)).
  Definition ssf_deriv (s : SSF) (order : nat) (x utol tolD tolI : T) (mi0 mi : nat) (pert : T) : option T :=
    match order with
    | 0 => ssf_value s x utol tolD tolI mi0 mi pert
    | _ =>
      if in_domain s x then
        match calc_index x (sX s) with
        | Some idx =>
          match calc_u x (nth idx (sX s) dP6) utol tolD tolI mi0 mi pert with
          | Some u => Some (bez_dydx order u (nth idx (sX s) dP6) (nth idx (sY s) dP6))
          | None => None
          end
        | None => None
        end
      else if Nat.eqb order 1 then (if oltb O x (sx0 s) then Some (sd0 s) else Some (sd1 s)) else Some t0
    end.
  Definition ssf_shift (s : SSF) (dx dy : T) : SSF :=
    mkSSF (map (p6map (fun v => v + dx)) (sX s)) (map (p6map (fun v => v + dy)) (sY s))
          (sx0 s + dx) (sx1 s + dx) (sy0 s + dy) (sy1 s + dy) (sd0 s) (sd1 s).
  Definition ssf_scale (s : SSF) (kx ky : T) : SSF :=
    mkSSF (map (p6map (fun v => v * kx)) (sX s)) (map (p6map (fun v => v * ky)) (sY s))
          (sx0 s * kx) (sx1 s * kx) (sy0 s * ky) (sy1 s * ky) (sd0 s * (ky / kx)) (sd1 s * (ky / kx)).
End Bez.
Arguments P6 : clear implicits. Arguments mkP6 {T}. Arguments SSF : clear implicits. Arguments mkSSF {T}.
