(* L2: iterative solvers -- InverseKinematics (both overloads, src/Kinematics.cc:605-1000, as repaired: steps are
   applied through the quaternion update on spherical joints and the residual test reads constraint_tol),
   CalcAssemblyQ and CalcAssemblyQDot (src/Constraints.cc:946-1092).  Loops carry explicit fuel = max_iter. *)
From Coq Require Import List Bool Arith NArith.
From RV Require Import Scalar LinAlg3 Spatial Quat ListArr ModelDef JointDef KinDef LinDef DynDef UtilDef ConsDef.
Import ListNotations.

Section Ik.
  Context {T : Type} (O : Ops T).
  Local Notation t0 := (o0 O). Local Notation t1 := (o1 O).
  Local Notation Model := (@Model T). Local Notation WS := (@WS T).
  Local Notation V3 := (V3 T). Local Notation M3 := (M3 T).

  (* Q (+) d : d lives in the tangent space (size qdot_size); spherical joints through the quaternion update *)
  Definition set_quat (M : Model) (i : nat) (qt : Qt T) (Q : list T) : list T :=
    let qi := jq (getJ M i) in
    upd (upd (upd (upd Q qi (qx qt)) (S qi) (qy qt)) (S (S qi)) (qz qt)) (nth i (w_index M) 0) (qw qt).
  Definition apply_delta (M : Model) (Q d : list T) : list T :=
    fold_left (fun Q i =>
      let J := getJ M i in let qi := jq J in
      match jkind J with
      | JSpherical =>
          let qt := get_quat O M i Q in
          let om := mkV3 (vget t0 d qi) (vget t0 d (S qi)) (vget t0 d (S (S qi))) in
          let dq := qomegaToQDot O qt om in
          let q1 := mkQt (oadd O (qx qt) (qx dq)) (oadd O (qy qt) (qy dq)) (oadd O (qz qt) (qz dq)) (oadd O (qw qt) (qw dq)) in
          set_quat M i (qnormalize O q1) Q
      | _ => fold_left (fun Q j => upd Q (qi + j) (oadd O (vget t0 Q (qi + j)) (vget t0 d (qi + j)))) (iota 0 (jdof J)) Q
      end) (body_range M) Q.

  (* CalcAngularVelocityfromMatrix *)
  Definition ang_vel_from_matrix (R : M3) (tol pi_half : T) : V3 :=
    let l := mkV3 (osub O (m21 R) (m12 R)) (osub O (m02 R) (m20 R)) (osub O (m10 R) (m01 R)) in
    let ln := v3norm O l in
    if oltb O tol ln then v3scale O (odiv O (oatan2 O ln (osub O (oadd O (oadd O (m00 R) (m11 R)) (m22 R)) t1)) ln) l
    else if ((oltb O t0 (m00 R) && oltb O t0 (m11 R) && oltb O t0 (m22 R)) || oltb O ln tol)%bool then v3zero O
    else mkV3 (omul O pi_half (oadd O (m00 R) t1)) (omul O pi_half (oadd O (m11 R) t1)) (omul O pi_half (oadd O (m22 R) t1)).

  (* ---------- first overload: point targets, damped least squares with the library's own elimination ---------- *)
  Definition ik1_rows (M : Model) (w : WS) (targets : list (N * V3 * V3)) : Mat (T:=T) * list T :=
    let n := qdot_size M in
    fold_left (fun (acc : Mat (T:=T) * list T) t =>
      let '(id, pt, tp) := t in
      let G := point_jacobian O M w id pt (mzeros t0 3 n) in
      let pb := b2b O M w id pt in
      (fst acc ++ G, snd acc ++ v3list (v3sub O tp pb))) targets ([], []).
  Fixpoint ik1 (fuel : nat) (M : Model) (w : WS) (Q : list T) (targets : list (N * V3 * V3)) (step_tol lam : T)
    : WS * bool * list T :=
    match fuel with
    | 0 => (w, false, Q)
    | S f =>
      let w := ukc_q O M w Q in
      let '(J, e) := ik1_rows M w targets in
      let n := qdot_size M in let m := length e in
      if oltb O (vnorm O e) step_tol then (w, true, Q) else
      let A := madd O (mmmul O J (mTn O J n) m) (mscale O (omul O lam lam) (mident O m)) in
      let z := gauss_elim_pivot O A e in
      let d := mTvmul O J n z in
      let Q := apply_delta M Q d in
      if oltb O (vnorm O d) step_tol then (w, true, Q) else ik1 f M w Q targets step_tol lam
    end.

  (* ---------- second overload: weighted constraint kinds ---------- *)
  Inductive IKC :=
  | IKFull (id : N) (pt tp : V3) (tO : M3) (wt : T)
  | IKOrient (id : N) (tO : M3) (wt : T)
  | IKPos (id : N) (pt tp : V3) (wt : T)
  | IKPosXY (id : N) (pt tp : V3) (wt : T)
  | IKPosZ (id : N) (pt tp : V3) (wt : T)
  | IKCoMXY (id : N) (tp : V3) (wt : T).
  Definition ik2_rows (M : Model) (w : WS) (Q : list T) (cs : list IKC) (tol12 pi_half : T) : Mat (T:=T) * list T :=
    let n := qdot_size M in
    let rowsc (G : Mat (T:=T)) (k : T) (idx : list nat) := map (fun i => vscale O k (nth i G [])) idx in
    fold_left (fun (acc : Mat (T:=T) * list T) c =>
      let G6 id pt := point_jacobian6 O M w id pt (mzeros t0 6 n) in
      let perr id pt tp k idx := map (fun i => omul O k (osub O (nth i (v3list tp) t0) (nth i (v3list (b2b O M w id pt)) t0))) idx in
      let av id tO := let R := world_orient O M w id in m3Tv O R (ang_vel_from_matrix (m3mul O R (m3T tO)) tol12 pi_half) in
      match c with
      | IKFull id pt tp tO k =>
          (fst acc ++ rowsc (G6 id pt) k [0; 1; 2; 3; 4; 5], snd acc ++ map (omul O k) (v3list (av id tO)) ++ perr id pt tp k [0; 1; 2])
      | IKOrient id tO k =>
          (fst acc ++ rowsc (G6 id (v3zero O)) k [0; 1; 2], snd acc ++ map (omul O k) (v3list (av id tO)))
      | IKPos id pt tp k => (fst acc ++ rowsc (G6 id pt) k [3; 4; 5], snd acc ++ perr id pt tp k [0; 1; 2])
      | IKPosXY id pt tp k => (fst acc ++ rowsc (G6 id pt) k [3; 4], snd acc ++ perr id pt tp k [0; 1])
      | IKPosZ id pt tp k => (fst acc ++ rowsc (G6 id pt) k [5], snd acc ++ perr id pt tp k [2])
      | IKCoMXY id tp k =>
          let com := c_com (snd (calc_center_of_mass O M w Q Q None false)) in
          let G := point_jacobian6 O M w id com (mzeros t0 6 n) in
          (fst acc ++ rowsc G k [3; 4],
           snd acc ++ map (fun i => omul O k (osub O (nth i (v3list tp) t0) (nth i (v3list com) t0))) [0; 1])
      end) cs ([], []).
  Record IK2Out := mkIK2 { ik_ok : bool; ik_Q : list T; ik_err : T; ik_dq : T; ik_steps : nat }.
  Fixpoint ik2 (fuel steps : nat) (M : Model) (w : WS) (Q : list T) (cs : list IKC)
           (step_tol constraint_tol lam tol12 pi_half : T) (err dq : T) : WS * IK2Out :=
    match fuel with
    | 0 => (w, mkIK2 false Q err dq steps)
    | S f =>
      let w := ukc_q O M w Q in
      let '(J, e) := ik2_rows M w Q cs tol12 pi_half in
      let n := qdot_size M in
      let en := vnorm O e in
      if oltb O en constraint_tol then (w, mkIK2 true Q en dq steps) else
      let JT := mTn O J n in
      let ek := mvmul O JT e in
      let Wn := map (fun i => map (fun j => if Nat.eqb i j then oadd O (omul O (omul O (vget t0 ek i) (vget t0 ek i)) (ohalf O)) lam else t0)
                                      (iota 0 n)) (iota 0 n) in
      let A := madd O (mmmul O JT J n) Wn in
      match solve_pp O A ek with
      | None => (w, mkIK2 false Q en dq steps)
      | Some d =>
        let Q := apply_delta M Q d in
        let dn := vnorm O d in
        if oltb O dn step_tol then (w, mkIK2 true Q en dn steps) else ik2 f (S steps) M w Q cs step_tol constraint_tol lam tol12 pi_half en dn
      end
    end.

  (* ---------- assembly ---------- *)
  Definition diagm (wts : list T) : Mat (T:=T) :=
    map (fun i => map (fun j => if Nat.eqb i j then vget t0 wts i else t0) (iota 0 (length wts))) (iota 0 (length wts)).
  Definition cons_errors (M : Model) (w : WS) (Q : list T) (cs : list (CRow T)) : WS * list T :=
    let w := ukc_q O M w Q in (w, map (cons_row_err O M w) cs).
  Fixpoint assembly_q_loop (fuel : nat) (M : Model) (w : WS) (Q : list T) (e : list T) (cs : list (CRow T)) (wts : list T) (tol : T)
    : WS * bool * list T :=
    match fuel with
    | 0 => (w, false, Q)
    | S f =>
      let n := dof_count M in let m := length cs in
      let w := ukc_q O M w Q in
      let G := cons_G O M w cs in
      match kkt_solve O (diagm wts) G (vzeros t0 n) (vneg O e) n m with
      | None => (w, false, Q)
      | Some (d, _) =>
        let Q := apply_delta M Q d in
        let '(w, e) := cons_errors M w Q cs in
        if (oltb O (vnorm O e) tol && oltb O (vnorm O d) tol)%bool then (w, true, Q)
        else assembly_q_loop f M w Q e cs wts tol
      end
    end.
  Definition assembly_q (max_iter : nat) (M : Model) (w : WS) (Qinit : list T) (cs : list (CRow T)) (wts : list T) (tol : T)
    : WS * bool * list T :=
    let '(w, e) := cons_errors M w Qinit cs in
    if oltb O (vnorm O e) tol then (w, true, Qinit) else assembly_q_loop max_iter M w Qinit e cs wts tol.
  Definition assembly_qdot (M : Model) (w : WS) (Q qd0 : list T) (cs : list (CRow T)) (wts : list T) : WS * option (list T * list T) :=
    let n := dof_count M in let m := length cs in
    let w := ukc_q O M w Q in
    let G := cons_G O M w cs in
    (w, kkt_solve O (diagm wts) G (map (fun p => omul O (fst p) (snd p)) (combine wts qd0)) (vzeros t0 m) n m).
End Ik.
Arguments IKC : clear implicits.
Arguments IKFull {T}. Arguments IKOrient {T}. Arguments IKPos {T}. Arguments IKPosXY {T}. Arguments IKPosZ {T}. Arguments IKCoMXY {T}.
