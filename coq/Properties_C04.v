(* C04 Forward kinematics: positions and orientations follow the joint definitions. *)
From Coq Require Import List NArith.
From RV Require Import Scalar LinAlg3 Spatial Quat Laws ListArr ModelDef JointDef KinDef C14Thm WsLemmas KinThm C04Thm.
Section P.
  Context {T : Type} (O : Ops T) {FL : FieldLaws O} {TL : TrigLaws O}.
  (* what jcalc writes into X_lambda[i] is the declared joint transform (elementary rotations about the
     declared axes in the declared order, translation along the declared axes, unit quaternion) composed
     with the joint frame given at construction -- for both jcalc variants and ANY workspace *)
  Theorem C04_joint_transform_is_declared_motion full (M : @Model T) (w : @WS T) i q qd :
    i < length (wXl w) -> jkind (getJ M i) <> JRoot ->
    gXl O (jcalc_gen O full M w i q qd) i = st_mul O (joint_XJ O M q i) (getXT O M i).
  Proof. exact (jcalc_Xl O full M w i q qd). Qed.
  (* after the position update X_base[i] is the pose composed from the base outward *)
  Theorem C04_xbase_is_pose (M : @Model T) (w : @WS T) q i : WF M -> ws_len w (nbodies M) -> 0 < i < nbodies M ->
    gXb O (ukc_q O M w q) i = mkST (m3T (fst (poseF O M q i))) (snd (poseF O M q i)).
  Proof. exact (xbase_is_pose O M w q i). Qed.
  Theorem C04_body_to_base_movable (M : @Model T) (w : @WS T) q (id : N) pt : WF M -> ws_len w (nbodies M) ->
    (id < fixed_disc)%N -> 0 < N.to_nat id < nbodies M ->
    snd (calc_b2b O M w q id pt true) = v3add O (snd (poseF O M q (N.to_nat id))) (m3v O (fst (poseF O M q (N.to_nat id))) pt).
  Proof. exact (b2b_movable O M w q id pt). Qed.
  Theorem C04_body_to_base_fixed (M : @Model T) (w : @WS T) q (id : N) pt : WF M -> ws_len w (nbodies M) ->
    (fixed_disc <= id)%N -> 0 < fparent (getfixed O M (fidx id)) < nbodies M ->
    let f := getfixed O M (fidx id) in let P := poseF O M q (fparent f) in
    snd (calc_b2b O M w q id pt true) = v3add O (snd P) (m3v O (fst P) (v3add O (str (fxf f)) (m3Tv O (stE (fxf f)) pt))).
  Proof. exact (b2b_fixed O M w q id pt). Qed.
  Theorem C04_orientation_movable (M : @Model T) (w : @WS T) q (id : N) : WF M -> ws_len w (nbodies M) ->
    (id < fixed_disc)%N -> 0 < N.to_nat id < nbodies M ->
    snd (calc_orient O M w q id true) = m3T (fst (poseF O M q (N.to_nat id))).
  Proof. exact (orient_movable O M w q id). Qed.
  (* unit axes, unit quaternions and orthonormal joint frames give an orthonormal right-handed orientation *)
  Theorem C04_orientation_is_rotation (M : @Model T) (w : @WS T) q (id : N) : WF M -> ws_len w (nbodies M) ->
    (forall i, 0 < i < nbodies M -> joint_wf O M q i) ->
    (id < fixed_disc)%N -> 0 < N.to_nat id < nbodies M ->
    m3rot O (snd (calc_orient O M w q id true)).
  Proof. exact (orient_is_rotation O M w q id). Qed.
  Theorem C04_base_to_body_inverts_body_to_base (M : @Model T) (w : @WS T) (id : N) pt :
    (id < fixed_disc)%N -> m3orth O (stE (gXb O w (N.to_nat id))) ->
    base2b O M w id (b2b O M w id pt) = pt /\ b2b O M w id (base2b O M w id pt) = pt.
  Proof. exact (base2b_b2b_movable O M w id pt). Qed.
  (* the position-level state does not depend on what the workspace held before *)
  Theorem C04_position_update_ignores_workspace (M : @Model T) (w1 w2 : @WS T) q i : WF M ->
    ws_len w1 (nbodies M) -> ws_len w2 (nbodies M) -> 0 < i < nbodies M ->
    gXb O (ukc_q O M w1 q) i = gXb O (ukc_q O M w2 q) i.
  Proof. exact (ukc_q_ws_independent O M w1 w2 q i). Qed.
End P.
Print Assumptions C04_joint_transform_is_declared_motion. Print Assumptions C04_xbase_is_pose.
Print Assumptions C04_body_to_base_movable. Print Assumptions C04_body_to_base_fixed.
Print Assumptions C04_orientation_is_rotation. Print Assumptions C04_base_to_body_inverts_body_to_base.
Print Assumptions C04_position_update_ignores_workspace.
