(* C12, balance addon: geometry of the foot-placement estimator and the parallel-axis form of the per-body term
   of the whole-body inertia. *)
From Coq Require Import List Ring Field.
From Coq Require Import NsatzTactic.
From RV Require Import Scalar LinAlg3 Spatial Laws Tac SpatialLaws ListArr ModelDef JointDef KinDef UtilDef BalDef.
Section BalThm.
  Context {T : Type} (O : Ops T) {FL : FieldLaws O}.
  Add Field FlFbal : (@fl_field T O FL).
  Local Notation V3 := (V3 T). Local Notation M3 := (M3 T).
  Local Notation t0 := (o0 O). Local Notation t1 := (o1 O).

  (* the ground projection of the centre of mass lies on the plane through `point` with unit normal k ... *)
  Lemma projection_on_plane (r0C0 point k : V3) : v3dot O k k = t1 ->
    v3dot O (v3sub O (fpe_ground_projection O r0C0 point k) point) k = t0.
  Proof.
    destruct r0C0 as [cx cy cz], point as [px py pz], k as [kx ky kz].
    unfold fpe_ground_projection, v3dot, v3sub, v3scale. cbn. intros Hk. nz.
  Qed.
  (* ... directly below it at the reported height ... *)
  Lemma projection_height (r0C0 point k : V3) :
    v3sub O r0C0 (fpe_ground_projection O r0C0 point k) = v3scale O (v3dot O k (v3sub O r0C0 point)) k.
  Proof.
    destruct r0C0 as [cx cy cz], point as [px py pz], k as [kx ky kz].
    unfold fpe_ground_projection, v3dot, v3sub, v3scale. cbn. f_equal; ring.
  Qed.
  (* ... u = n x k is perpendicular to k, so the foot placement point stays on the plane, at distance h tan(phi)
     from the projection in direction u *)
  Lemma u_perp_k (n k : V3) : v3dot O (v3cross O n k) k = t0.
  Proof. destruct n, k. unfold v3dot, v3cross. cbn. ring. Qed.
  Lemma u_perp_n (n k : V3) : v3dot O (v3cross O n k) n = t0.
  Proof. destruct n, k. unfold v3dot, v3cross. cbn. ring. Qed.
  Lemma point_on_plane (r0C0 point k n : V3) (h tanphi : T) : v3dot O k k = t1 ->
    v3dot O (v3sub O (fpe_point O (fpe_ground_projection O r0C0 point k) (v3cross O n k) h tanphi) point) k = t0.
  Proof.
    destruct r0C0 as [cx cy cz], point as [px py pz], k as [kx ky kz], n as [nx ny nz0].
    unfold fpe_point, fpe_ground_projection, v3dot, v3sub, v3add, v3scale, v3cross. cbn. intros Hk. nz.
  Qed.
  Lemma point_offset (r0P0 u : V3) (h tanphi : T) :
    v3sub O (fpe_point O r0P0 u h tanphi) r0P0 = v3scale O (omul O h tanphi) u.
  Proof. destruct r0P0, u. unfold fpe_point, v3sub, v3add, v3scale. cbn. f_equal; ring. Qed.

  (* the normal the routine uses is a unit vector when sqrt behaves on |gravity|^2 *)
  Lemma k_unit (g : V3) : let g2 := v3norm2 O g in omul O (osqrt O g2) (osqrt O g2) = g2 -> g2 <> t0 ->
    let k := v3scale O (odiv O (oopp O t1) (v3norm O g)) g in v3dot O k k = t1.
  Proof.
    destruct g as [gx gy gz]. unfold v3norm, v3norm2, v3dot, v3scale. cbn. intros Hs Hn.
    set (s := osqrt O _) in *.
    assert (s <> t0) by (intro Z; rewrite Z in Hs; apply Hn; rewrite <- Hs; ring).
    transitivity (odiv O (oadd O (oadd O (omul O gx gx) (omul O gy gy)) (omul O gz gz)) (omul O s s)); [field; assumption|].
    rewrite Hs. field. exact Hn.
  Qed.

  (* per-body term of the whole-body inertia: for a body with mass m, centre of mass c and (symmetric) inertia Ic
     about it, seen through X = (E, r) with E a rotation, the inertia about P is E^T Ic E + m dx dx^T with
     d = P - r - E^T c -- the expression of BalanceToolkit.cc:108-118 *)
  Ltac rot_hyps H :=
    let c0 := fresh "c" in let c1 := fresh "c" in let c2 := fresh "c" in let c3 := fresh "c" in
    let c4 := fresh "c" in let c5 := fresh "c" in let c6 := fresh "c" in let c7 := fresh "c" in
    let c8 := fresh "c" in
    let A := fresh "A" in let B := fresh "B" in let C := fresh "C" in let D := fresh "D" in
    let F := fresh "F" in let G := fresh "G" in
    pose proof (cof_eqs_of O _ H) as (c0 & c1 & c2 & c3 & c4 & c5 & c6 & c7 & c8);
    pose proof (orth_eqs_of O _ (orth_T O _ (proj1 H))) as (A & B & C & D & F & G); clear H.

  Lemma rbi_about_parallel_axis (m : T) (c : V3) (Ic : M3) (X : ST T) (P : V3) :
    m3rot O (stE X) -> m3T Ic = Ic ->
    let d := v3sub O (v3sub O P (str X)) (m3Tv O (stE X) c) in
    rbi_about O (st_applyT_rbi O X (rbi_from_mci O m c Ic)) P =
    m3add O (m3mul O (m3mul O (m3T (stE X)) Ic) (stE X)) (m3scale O m (m3mul O (v3crossm O d) (m3T (v3crossm O d)))).
  Proof.
    intros H Hs. rot_hyps H.
    destruct X as [E r]; destruct E, r as [rx ry rz], c as [cx cy cz], P as [px py pz],
             Ic as [i00 i01 i02 i10 i11 i12 i20 i21 i22].
    unfold m3T in Hs. cbn in Hs. injection Hs as H1 H2 H3 H4 H5 H6. subst.
    cbv_sc_all. ext_rec; cbv_sc; try ring; nz.
  Qed.

  (* the estimator's output: both points on the caller's ground plane, the centre of mass a height h above its
     projection, the foot placement point at h tan(phi) from the projection along u, u perpendicular to k *)
  Theorem fpe_geometry (M : @Model T) (w : @WS T) q qd point smallw b pi4 iters w' F phi fb r0F0 :
    let g2 := v3norm2 O (gravity M) in
    (omul O (osqrt O g2) (osqrt O g2) = g2) -> (g2 <> t0) ->
    (fpe_state O M w q qd point smallw b = (w', F)) ->
    (fpe_solve O F pi4 iters = Some (phi, fb, r0F0)) ->
    v3dot O (v3sub O (f_r0P0 F) point) (f_k F) = t0 /\
    v3dot O (v3sub O r0F0 point) (f_k F) = t0 /\
    v3sub O (f_r0C0 F) (f_r0P0 F) = v3scale O (f_h F) (f_k F) /\
    v3sub O r0F0 (f_r0P0 F) = v3scale O (omul O (f_h F) (odiv O (osin O phi) (ocos O phi))) (f_u F) /\
    v3dot O (f_u F) (f_k F) = t0.
  Proof.
    intros g2 Hs Hn E S.
    pose proof (k_unit (gravity M) Hs Hn) as Hk. cbv zeta in Hk.
    unfold fpe_state in E. destruct (calc_center_of_mass O M w q qd None b) as [w1 c]. inversion E; subst F; clear E.
    unfold fpe_solve in S. cbn [f_w0C0n f_g f_mass f_h f_nJC0n f_v0C0k f_v0C0u f_r0P0 f_u] in S.
    destruct (solve3 O _ _) as [x|]; [|discriminate].
    destruct (fpe_search O _ _ _ _ _) as [ph fbb]. inversion S; subst; clear S.
    cbn [f_r0P0 f_k f_r0C0 f_h f_u].
    repeat split.
    - apply projection_on_plane. exact Hk.
    - apply point_on_plane. exact Hk.
    - apply projection_height.
    - apply point_offset.
    - apply u_perp_k.
  Qed.
End BalThm.
