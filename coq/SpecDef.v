(* L3: first-principles specification.  3-D vectors and rotation matrices
   only: the pose of every physical body is the product, from the base outward,
   of the joint frames given at construction and the declared joint motions;
   velocities and accelerations are time-derivatives of those poses (evaluated
   with jets); forces come from the per-body Newton-Euler balance in the
   inertial frame projected on the partial velocities (d'Alembert).
   Shares no formula with the spatial-algebra recursions of rbdl. *)
From Coq Require Import List Bool Arith NArith.
From RV Require Import Scalar LinAlg3 Spatial Quat ListArr ModelDef JetDef.
Import ListNotations.

Section Spec.
  Context {T : Type} (O : Ops T).
  Local Notation t0 := (o0 O). Local Notation t1 := (o1 O).
  Local Notation V3 := (V3 T). Local Notation M3 := (M3 T).

  (* primitive joint motions, in the order they act from the parent outward *)
  Inductive Prim :=
  | PRot (a : V3) (qi : nat)               (* rotation about unit axis a by q[qi] *)
  | PTrans (d : V3) (qi : nat)             (* translation along d by q[qi], in the current frame *)
  | PHel (a h : V3) (qi : nat)             (* translate q h, then rotate about a by q *)
  | PQuat (qi ord : nat).                  (* unit quaternion (q[qi..qi+2], w stored after all dofs) *)

  Record Node := mkNode {
    nparent : option nat;                  (* None = the base *)
    nframe : ST T;                         (* joint frame as passed to AddBody (E,r) *)
    nprims : list Prim;
    nmass : T; ncom : V3; ninertia : M3;   (* about the centre of mass, body coordinates *)
    nmovable : bool                        (* false: attached by a fixed joint *)
  }.

  (* active rotation matrix (body -> parent) about a unit axis: transpose of rbdl's E *)
  Definition Rot (a : V3) (th : T) : M3 := m3T (rot_axis O (osin O th) (ocos O th) a).
  Definition quat_R (q : Qt T) : M3 := m3T (qtoMatrix O q).

  Definition Pose := (M3 * V3)%type.       (* R : body -> base,  p : origin in base coordinates *)
  Definition pose_id : Pose := (m3id O, v3zero O).

  (* q : generalized positions incl. quaternion w entries; ndof = dof count *)
  Definition apply_prim (q : list T) (ndof : nat) (P : Pose) (pr : Prim) : Pose :=
    let '(R, p) := P in
    match pr with
    | PRot a qi => (m3mul O R (Rot a (vget t0 q qi)), p)
    | PTrans d qi => (R, v3add O p (m3v O R (v3scale O (vget t0 q qi) d)))
    | PHel a h qi => let th := vget t0 q qi in
                     (m3mul O R (Rot a th), v3add O p (m3v O R (v3scale O th h)))
    | PQuat qi ord =>
        let qq := mkQt (vget t0 q qi) (vget t0 q (S qi)) (vget t0 q (S (S qi))) (vget t0 q (ndof + ord)) in
        (m3mul O R (quat_R qq), p)
    end.

  Definition node_pose (q : list T) (ndof : nat) (parent : Pose) (nd : Node) : Pose :=
    let '(Rp, pp) := parent in
    let X := nframe nd in
    let P0 := (m3mul O Rp (m3T (stE X)), v3add O pp (m3v O Rp (str X))) in
    fold_left (apply_prim q ndof) (nprims nd) P0.

  (* poses of all nodes (parents precede children) *)
  Definition poses (nodes : list Node) (q : list T) (ndof : nat) : list Pose :=
    fold_left (fun acc nd =>
      let par := match nparent nd with Some k => nth k acc pose_id | None => pose_id end in
      acc ++ [node_pose q ndof par nd]) nodes [].

  Definition point_of (P : Pose) (pt : V3) : V3 := v3add O (snd P) (m3v O (fst P) pt).
  Definition node_com (P : Pose) (nd : Node) : V3 := point_of P (ncom nd).
  (* inertia about the CoM in base coordinates *)
  Definition node_Iworld (P : Pose) (nd : Node) : M3 := m3mul O (m3mul O (fst P) (ninertia nd)) (m3T (fst P)).

  (* does node k have a joint freedom between it and the base? (whole-body interpretation) *)
  Fixpoint attached_movable (nodes : list Node) (fuel k : nat) : bool :=
    match fuel with
    | 0 => false
    | S f => match nth_error nodes k with
             | None => false
             | Some nd => if nmovable nd then true
                          else match nparent nd with Some p => attached_movable nodes f p | None => false end
             end
    end.
End Spec.
Arguments Prim : clear implicits. Arguments Node : clear implicits.
Arguments PRot {T}. Arguments PTrans {T}. Arguments PHel {T}. Arguments PQuat {T}.
Arguments mkNode {T}. Arguments nparent {T}. Arguments nframe {T}. Arguments nprims {T}.
Arguments nmass {T}. Arguments ncom {T}. Arguments ninertia {T}. Arguments nmovable {T}.

(* ---------- quantities that need time-derivatives: evaluated over jets ---------- *)
Section SpecJet.
  Context {T : Type} (O : Ops T).
  Local Notation J := (Jet T). Local Notation OJ := (jet_ops O).
  Local Notation t0 := (o0 O). Local Notation t1 := (o1 O).

  Definition v3_j (f : T -> T) (v : V3 T) : V3 J := mkV3 (jconst O (vx v)) (jconst O (vy v)) (jconst O (vz v)).
  Definition lift_v3 (v : V3 T) : V3 J := mkV3 (jconst O (vx v)) (jconst O (vy v)) (jconst O (vz v)).
  Definition lift_m3 (m : M3 T) : M3 J :=
    mkM3 (jconst O (m00 m)) (jconst O (m01 m)) (jconst O (m02 m)) (jconst O (m10 m)) (jconst O (m11 m))
         (jconst O (m12 m)) (jconst O (m20 m)) (jconst O (m21 m)) (jconst O (m22 m)).
  Definition lift_prim (p : Prim T) : Prim J :=
    match p with
    | PRot a qi => PRot (lift_v3 a) qi | PTrans d qi => PTrans (lift_v3 d) qi
    | PHel a h qi => PHel (lift_v3 a) (lift_v3 h) qi | PQuat qi ord => PQuat qi ord
    end.
  Definition lift_node (n : Node T) : Node J :=
    mkNode (nparent n) (mkST (lift_m3 (stE (nframe n))) (lift_v3 (str (nframe n))))
           (map lift_prim (nprims n)) (jconst O (nmass n)) (lift_v3 (ncom n)) (lift_m3 (ninertia n)) (nmovable n).

  Definition v3_part (k : nat) (v : V3 J) : V3 T :=
    let g := match k with 0 => j0 | 1 => j1 | _ => j2 end in mkV3 (g (vx v)) (g (vy v)) (g (vz v)).
  Definition m3_part (k : nat) (m : M3 J) : M3 T :=
    let g := match k with 0 => j0 | 1 => j1 | _ => j2 end in
    mkM3 (g (m00 m)) (g (m01 m)) (g (m02 m)) (g (m10 m)) (g (m11 m)) (g (m12 m)) (g (m20 m)) (g (m21 m)) (g (m22 m)).
  (* axial vector of the skew part of a matrix *)
  Definition vee (A : M3 T) : V3 T :=
    let h := ohalf O in
    mkV3 (omul O h (osub O (m21 A) (m12 A))) (omul O h (osub O (m02 A) (m20 A))) (omul O h (osub O (m10 A) (m01 A))).

  (* jets of the generalized coordinates along the trajectory (q, qd, qdd);
     for a spherical joint the coordinates are the quaternion, qd = body-frame omega *)
  Definition quat_jets (qq : Qt T) (w dw : V3 T) : Qt J :=
    let d1 := qomegaToQDot O qq w in
    (* second derivative: 1/2 (q' * (w,0) + q * (dw,0)) *)
    let d2a := qomegaToQDot O d1 w in let d2b := qomegaToQDot O qq dw in
    mkQt (mkJet (qx qq) (qx d1) (oadd O (qx d2a) (qx d2b))) (mkJet (qy qq) (qy d1) (oadd O (qy d2a) (qy d2b)))
         (mkJet (qz qq) (qz d1) (oadd O (qz d2a) (qz d2b))) (mkJet (qw qq) (qw d1) (oadd O (qw d2a) (qw d2b))).

  (* sph : list of (q_index, ordinal) of the spherical joints *)
  Definition q_jets (sph : list (nat * nat)) (ndof : nat) (q qd qdd : list T) : list J :=
    let base := map (fun i => mkJet (vget t0 q i) (vget t0 qd i) (vget t0 qdd i)) (iota 0 (length q)) in
    fold_left (fun acc (s : nat * nat) =>
      let '(qi, ord) := s in
      let qq := mkQt (vget t0 q qi) (vget t0 q (S qi)) (vget t0 q (S (S qi))) (vget t0 q (ndof + ord)) in
      let w := mkV3 (vget t0 qd qi) (vget t0 qd (S qi)) (vget t0 qd (S (S qi))) in
      let dw := mkV3 (vget t0 qdd qi) (vget t0 qdd (S qi)) (vget t0 qdd (S (S qi))) in
      let qj := quat_jets qq w dw in
      upd (upd (upd (upd acc qi (qx qj)) (S qi) (qy qj)) (S (S qi)) (qz qj)) (ndof + ord) (qw qj))
      sph base.

  (* kinematic state of one node from its jet pose *)
  Record KState := mkKS { kR : M3 T; kp : V3 T; kw : V3 T; kdw : V3 T; kRd : M3 T; kRdd : M3 T; kpd : V3 T; kpdd : V3 T }.
  Definition kstate (P : Pose (T:=J)) : KState :=
    let R := m3_part 0 (fst P) in let Rd := m3_part 1 (fst P) in let Rdd := m3_part 2 (fst P) in
    mkKS R (v3_part 0 (snd P)) (vee (m3mul O Rd (m3T R))) (vee (m3mul O Rdd (m3T R)))
         Rd Rdd (v3_part 1 (snd P)) (v3_part 2 (snd P)).
  (* position / velocity / acceleration of a body-fixed point *)
  Definition k_point (k : KState) (pt : V3 T) : V3 T := v3add O (kp k) (m3v O (kR k) pt).
  Definition k_vel (k : KState) (pt : V3 T) : V3 T := v3add O (kpd k) (m3v O (kRd k) pt).
  Definition k_acc (k : KState) (pt : V3 T) : V3 T := v3add O (kpdd k) (m3v O (kRdd k) pt).

  Definition kstates (nodes : list (Node T)) (sph : list (nat * nat)) (ndof : nat) (q qd qdd : list T) : list KState :=
    map kstate (poses OJ (map lift_node nodes) (q_jets sph ndof q qd qdd) ndof).

  (* ---- Newton-Euler / d'Alembert ---- *)
  (* fext: per node, spatial force (moment about the base origin n, force f) in base coordinates *)
  Definition ne_force (g : V3 T) (nd : Node T) (k : KState) (fe : SV T) : V3 T * V3 T :=
    let xc := k_point k (ncom nd) in
    let F := v3sub O (v3scale O (nmass nd) (v3sub O (k_acc k (ncom nd)) g)) (svlin fe) in
    let Iw := m3mul O (m3mul O (kR k) (ninertia nd)) (m3T (kR k)) in
    let N := v3sub O (v3add O (m3v O Iw (kdw k)) (v3cross O (kw k) (m3v O Iw (kw k))))
                     (v3sub O (svang fe) (v3cross O xc (svlin fe))) in
    (F, N).

  (* generalized forces: sum_j  d(v_com_j)/d(qd_k) . F_j + d(w_j)/d(qd_k) . N_j *)
  Definition tau_np (nodes : list (Node T)) (sph : list (nat * nat)) (ndof : nat) (g : V3 T)
             (q qd qdd : list T) (fext : list (SV T)) : list T :=
    let ks := kstates nodes sph ndof q qd qdd in
    let FN := map (fun i => ne_force g (nth i nodes (mkNode None (stid O) [] t0 (v3zero O) (m3zero O) false))
                                      (nth i ks (kstate (pose_id OJ))) (nth i fext (svzero O)))
                  (iota 0 (length nodes)) in
    map (fun kq =>
      let ek := map (fun i => if Nat.eqb i kq then t1 else t0) (iota 0 ndof) in
      let kse := kstates nodes sph ndof q ek (vzeros t0 ndof) in
      fold_left (fun acc i =>
        let nd := nth i nodes (mkNode None (stid O) [] t0 (v3zero O) (m3zero O) false) in
        let ke := nth i kse (kstate (pose_id OJ)) in
        let '(F, N) := nth i FN (v3zero O, v3zero O) in
        oadd O acc (oadd O (v3dot O (k_vel ke (ncom nd)) F) (v3dot O (kw ke) N)))
        (iota 0 (length nodes)) t0) (iota 0 ndof).

  (* ---- whole-body quantities (bodies with a joint freedom towards the base) ---- *)
  Record WB := mkWB { wb_mass : T; wb_com : V3 T; wb_vel : V3 T; wb_acc : V3 T; wb_L : V3 T; wb_dL : V3 T;
                      wb_ke : T; wb_pe : T }.
  Definition whole_body (nodes : list (Node T)) (sph : list (nat * nat)) (ndof : nat) (g : V3 T)
             (q qd qdd : list T) : WB :=
    let ks := kstates nodes sph ndof q qd qdd in
    let idx := filter (fun i => attached_movable nodes (S (length nodes)) i) (iota 0 (length nodes)) in
    let nd i := nth i nodes (mkNode None (stid O) [] t0 (v3zero O) (m3zero O) false) in
    let k i := nth i ks (kstate (pose_id OJ)) in
    let sumT f := fold_left (fun a i => oadd O a (f i)) idx t0 in
    let sumV f := fold_left (fun a i => v3add O a (f i)) idx (v3zero O) in
    let m := sumT (fun i => nmass (nd i)) in
    let im := odiv O t1 m in
    let com := v3scale O im (sumV (fun i => v3scale O (nmass (nd i)) (k_point (k i) (ncom (nd i))))) in
    let vel := v3scale O im (sumV (fun i => v3scale O (nmass (nd i)) (k_vel (k i) (ncom (nd i))))) in
    let acc := v3scale O im (sumV (fun i => v3scale O (nmass (nd i)) (k_acc (k i) (ncom (nd i))))) in
    let Iw i := m3mul O (m3mul O (kR (k i)) (ninertia (nd i))) (m3T (kR (k i))) in
    let L := sumV (fun i => v3add O (m3v O (Iw i) (kw (k i)))
                     (v3scale O (nmass (nd i)) (v3cross O (v3sub O (k_point (k i) (ncom (nd i))) com)
                                                          (k_vel (k i) (ncom (nd i)))))) in
    let dL := sumV (fun i => v3add O (v3add O (m3v O (Iw i) (kdw (k i)))
                                            (v3cross O (kw (k i)) (m3v O (Iw i) (kw (k i)))))
                     (v3scale O (nmass (nd i)) (v3cross O (v3sub O (k_point (k i) (ncom (nd i))) com)
                                                          (k_acc (k i) (ncom (nd i)))))) in
    let ke := sumT (fun i => omul O (ohalf O)
                     (oadd O (omul O (nmass (nd i)) (v3norm2 O (k_vel (k i) (ncom (nd i)))))
                             (v3dot O (kw (k i)) (m3v O (Iw i) (kw (k i)))))) in
    let pe := sumT (fun i => oopp O (omul O (nmass (nd i)) (v3dot O g (k_point (k i) (ncom (nd i)))))) in
    mkWB m com vel acc L dL ke pe.
End SpecJet.

(* ---------- constraints (C08-C11): position-level functions phi(q); their time-derivatives by jets ---------- *)
Section SpecCons.
  Context {T : Type} (O : Ops T).
  Local Notation t0 := (o0 O).
  Inductive SRow :=
  | SContact (node : option nat) (pt : V3 T) (nrm : V3 T)
  | SLoop (np ns : option nat) (Xp Xs : ST T) (axis : SV T).
  Definition pose_of (ps : list (Pose (T:=T))) (k : option nat) : Pose (T:=T) :=
    match k with Some i => nth i ps (pose_id O) | None => pose_id O end.
  (* frame fixed in a body: (rotation frame -> base, origin in base coordinates) *)
  Definition frame_of (P : Pose (T:=T)) (X : ST T) : M3 T * V3 T :=
    (m3mul O (fst P) (stE X), v3add O (snd P) (m3v O (fst P) (str X))).
  Definition spec_phi (ps : list (Pose (T:=T))) (r : SRow) : T :=
    match r with
    | SContact k pt nrm => v3dot O nrm (point_of O (pose_of ps k) pt)
    | SLoop kp ks Xp Xs ax =>
        let '(Ra, ra) := frame_of (pose_of ps kp) Xp in
        let '(Rb, rb) := frame_of (pose_of ps ks) Xs in
        let R := m3mul O (m3T Ra) Rb in
        let h := oopp O (ohalf O) in
        let rot := mkV3 (omul O h (osub O (m12 R) (m21 R))) (omul O h (osub O (m20 R) (m02 R))) (omul O h (osub O (m01 R) (m10 R))) in
        let lin := m3Tv O Ra (v3sub O rb ra) in
        svdot O ax (svof rot lin)
    end.
End SpecCons.
Arguments SRow : clear implicits. Arguments SContact {T}. Arguments SLoop {T}.
Section SpecConsJet.
  Context {T : Type} (O : Ops T).
  Definition lift_st (X : ST T) : ST (Jet T) := mkST (lift_m3 O (stE X)) (lift_v3 O (str X)).
  Definition lift_srow (r : SRow T) : SRow (Jet T) :=
    match r with
    | SContact k pt n => SContact k (lift_v3 O pt) (lift_v3 O n)
    | SLoop kp ks Xp Xs ax => SLoop kp ks (lift_st Xp) (lift_st Xs)
        (mkSV (jconst O (s0 ax)) (jconst O (s1 ax)) (jconst O (s2 ax)) (jconst O (s3 ax)) (jconst O (s4 ax)) (jconst O (s5 ax)))
    end.
  (* value, first and second time-derivative of every phi along (q, qd, qdd) *)
  Definition spec_phi_jets (nodes : list (Node T)) (sph : list (nat * nat)) (ndof : nat) (q qd qdd : list T)
             (rows : list (SRow T)) : list (Jet T) :=
    let ps := poses (jet_ops O) (map (lift_node O) nodes) (q_jets O sph ndof q qd qdd) ndof in
    map (fun r => spec_phi (jet_ops O) ps (lift_srow r)) rows.
End SpecConsJet.

(* ---------- rigid union / difference of two bodies (C15), from the definitions ---------- *)
Section SpecUnion.
  Context {T : Type} (O : Ops T).
  (* parallel-axis term  (d.d) 1 - d d^T *)
  Definition par_axis (d : V3 T) : M3 T :=
    m3sub O (m3scale O (v3dot O d d) (m3id O)) (m3outer O d d).
  (* body b is given in its own frame; X = (E, r) places that frame in a's frame *)
  Definition spec_union (sub : bool) (ma : T) (ca : V3 T) (Ia : M3 T) (X : ST T) (mb : T) (cb : V3 T) (Ib : M3 T)
    : T * V3 T * M3 T :=
    let cb' := v3add O (m3Tv O (stE X) cb) (str X) in
    let Ib' := m3mul O (m3mul O (m3T (stE X)) Ib) (stE X) in
    let sg := if sub then oopp O (o1 O) else o1 O in
    let m := oadd O ma (omul O sg mb) in
    let com := v3scale O (odiv O (o1 O) m) (v3add O (v3scale O ma ca) (v3scale O (omul O sg mb) cb')) in
    let I := m3add O (m3add O Ia (m3scale O ma (par_axis (v3sub O ca com))))
                     (m3scale O sg (m3add O Ib' (m3scale O mb (par_axis (v3sub O cb' com))))) in
    (m, com, I).
End SpecUnion.

(* ---------- energy balance (C12): d(KE+PE)/dt minus the power of the external forces ---------- *)
Section SpecPower.
  Context {T : Type} (O : Ops T).
  Local Notation t0 := (o0 O).
  Definition energy_rate (nodes : list (Node T)) (sph : list (nat * nat)) (ndof : nat) (g : V3 T)
             (q qd qdd : list T) (fext : list (SV T)) : T * T :=
    let ks := kstates O nodes sph ndof q qd qdd in
    let dn := mkNode None (stid O) [] t0 (v3zero O) (m3zero O) false in
    fold_left (fun (acc : T * T) i =>
      let nd := nth i nodes dn in let k := nth i ks (kstate O (pose_id (jet_ops O))) in
      let vc := k_vel O k (ncom nd) in let ac := k_acc O k (ncom nd) in
      let Iw := m3mul O (m3mul O (kR k) (ninertia nd)) (m3T (kR k)) in
      let dE := oadd O (osub O (omul O (nmass nd) (v3dot O vc ac)) (omul O (nmass nd) (v3dot O g vc)))
                       (v3dot O (kw k) (m3v O Iw (kdw k))) in
      let fe := nth i fext (svzero O) in
      let vO := v3sub O (kpd k) (v3cross O (kw k) (kp k)) in
      let P := oadd O (v3dot O (kw k) (svang fe)) (v3dot O vO (svlin fe)) in
      (oadd O (fst acc) dE, oadd O (snd acc) P)) (iota 0 (length nodes)) (t0, t0).
End SpecPower.

(* ---------- building the spec-level tree directly from the construction calls ---------- *)
Section SpecBuild.
  Context {T : Type} (O : Ops T).
  Local Notation t0 := (o0 O). Local Notation t1 := (o1 O).
  Record SpecState := mkSS { snodes : list (Node T); sndof : nat; ssph : list (nat * nat); snames : list N }.
  Definition spec0 : SpecState := mkSS [] 0 [] [1%N].
  Definition X3 : V3 T := mkV3 t1 t0 t0. Definition Y3 : V3 T := mkV3 t0 t1 t0. Definition Z3 : V3 T := mkV3 t0 t0 t1.
  Definition prim_of_axis (a : SV T) (qi : nat) : Prim T :=
    if v3_is_zero O (svang a) then PTrans (svlin a) qi
    else if v3_is_zero O (svlin a) then PRot (svang a) qi
    else PHel (svang a) (svlin a) qi.
  Fixpoint prims_of_axes (l : list (SV T)) (qi : nat) : list (Prim T) :=
    match l with [] => [] | a :: t => prim_of_axis a qi :: prims_of_axes t (S qi) end.
  (* (prims, dofs, spherical joints added: list of q_index) ; None = rejected *)
  Definition spec_prims (sp : @JSpec T) (qi : nat) (nsph : nat) : option (list (Prim T) * nat * list nat) :=
    match sp with
    | SFixed => Some ([], 0, [])
    | SRevX => Some ([PRot X3 qi], 1, []) | SRevY => Some ([PRot Y3 qi], 1, []) | SRevZ => Some ([PRot Z3 qi], 1, [])
    | SRev a => Some ([PRot a qi], 1, []) | SPris d => Some ([PTrans d qi], 1, [])
    | SAxis a => Some ([prim_of_axis a qi], 1, [])
    | SSph => Some ([PQuat qi nsph], 3, [qi])
    | SEZYX => Some ([PRot Z3 qi; PRot Y3 (S qi); PRot X3 (S (S qi))], 3, [])
    | SEXYZ => Some ([PRot X3 qi; PRot Y3 (S qi); PRot Z3 (S (S qi))], 3, [])
    | SEYXZ => Some ([PRot Y3 qi; PRot X3 (S qi); PRot Z3 (S (S qi))], 3, [])
    | SEZXY => Some ([PRot Z3 qi; PRot X3 (S qi); PRot Y3 (S (S qi))], 3, [])
    | STXYZ => Some ([PTrans X3 qi; PTrans Y3 (S qi); PTrans Z3 (S (S qi))], 3, [])
    | SFloat => Some ([PTrans X3 qi; PTrans Y3 (S qi); PTrans Z3 (S (S qi)); PQuat (qi + 3) nsph], 6, [qi + 3])
    | SEmu axes => if (Nat.leb 2 (length axes) && Nat.leb (length axes) 6)%bool
                   then Some (prims_of_axes axes qi, length axes, []) else None
    | SCustom CRevX => Some ([PRot X3 qi], 1, [])
    | SCustom CEulerZYX => Some ([PRot Z3 qi; PRot Y3 (S qi); PRot X3 (S (S qi))], 3, [])
    | SCustom CRzTx => Some ([PRot Z3 qi; PTrans X3 (S qi)], 2, [])
    | SBad => None
    end.
  (* parent: None = base, Some k = node k.  Result: new state and Some node-index, or unchanged and None *)
  Definition spec_add (S : SpecState) (parent : option nat) (X : ST T) (sp : @JSpec T) (b : @Body T) (nm : N)
    : SpecState * option nat :=
    if (negb (N.eqb nm 0) && existsb (N.eqb nm) (snames S))%bool then (S, None) else
    match spec_prims sp (sndof S) (length (ssph S)) with
    | None => (S, None)
    | Some (pr, d, sphs) =>
      let nd := mkNode parent X pr (bmass b) (bcom b) (binertia b) (negb (Nat.eqb d 0)) in
      (mkSS (snodes S ++ [nd]) (sndof S + d)
            (ssph S ++ map (fun qi => (qi, length (ssph S))) sphs)
            (if N.eqb nm 0 then snames S else snames S ++ [nm]),
       Some (length (snodes S)))
    end.
  (* a setter call replaces the inertial parameters of one node *)
  Definition spec_set (S : SpecState) (k : nat) (chg : @Body T -> @Body T) : SpecState :=
    match nth_error (snodes S) k with
    | None => S
    | Some nd =>
      let b := chg (mkBody (nmass nd) (ncom nd) (ninertia nd) false) in
      mkSS (upd (snodes S) k (mkNode (nparent nd) (nframe nd) (nprims nd) (bmass b) (bcom b) (binertia b) (nmovable nd)))
           (sndof S) (ssph S) (snames S)
    end.
End SpecBuild.
