(* C02: forward dynamics by the Lagrangian route inverts inverse dynamics.  Whenever ForwardDynamicsLagrangian
   (the model: C = ID(q, qd, 0), H = CRBA, qdd = solve (H, tau - C)) returns an acceleration, inverse dynamics at
   that acceleration -- run from any well-formed workspace -- returns tau, component by component (f_ext = NULL). *)
From Coq Require Import List Bool Arith NArith Lia Ring Field.
From RV Require Import Scalar Laws Tac LinAlg3 Spatial Quat SpatialLaws QuatLaws ListArr ListLemmas ModelDef JointDef KinDef LinDef DynDef ConsDef UtilDef
     Tree VPower C14Thm WsLemmas KinThm KinThm2 C04Thm DynThm NleThm LinThm ConsThm IdcThm JacThm JacThm2 JacThm3 DimThm EnergyThm SymThm QuadThm ComThm
     CrbaThm CrbaThm2 CrbaThm3 IdLinThm CrbaGen.
Import ListNotations.

Section Fdl.
  Context {T : Type} (O : Ops T) {FL : FieldLaws O} {TL : TrigLaws O}.
  Add Field FlFfdl : (@fl_field T O FL).
  Hypothesis oeqb_spec : forall x y : T, oeqb O x y = true <-> x = y.
  Local Notation t0 := (o0 O).
  Local Notation Model := (@Model T). Local Notation WS := (@WS T).
  Variable M : Model.
  Variables q qd : list T.
  Hypothesis W : WF M.
  Hypothesis cust_inj : forall i j, 0 < i < nbodies M -> 0 < j < nbodies M -> i <> j ->
    is_custom (jkind (getJ M i)) = true -> is_custom (jkind (getJ M j)) = true -> jcust (getJ M i) <> jcust (getJ M j).
  Hypothesis virtual_massless : forall i u, 0 < i < nbodies M -> bvirtual (getbody O M i) = true -> rbi_mulv O (getI O M i) u = svzero O.
  Hypothesis root_joint_empty : jq (getJ M 0) + jdof (getJ M 0) = 0.
  Hypothesis Hjw : forall i, 0 < i < nbodies M -> joint_wf O M q i.
  Hypothesis two_nz : o2 O <> t0.
  Let NB := nbodies M.
  Let n := dof_count M.
  Let z := vzeros t0 n.

  (* the workspace that inverse dynamics leaves carries the declared kinematic data *)
  Lemma id_leaves_kinok (w : WS) qdd tau0 : Good O M w -> KinOK O M q (fst (inverse_dynamics O M w q qd qdd tau0 None)).
  Proof.
    intros Hg. rewrite (id_unfold O M q qd qdd).
    pose proof (id_forward_spec O M q qd qdd W cust_inj w Hg) as F.
    set (w1 := fold_left (id_fwd_step O M q qd qdd) (body_range M) (id_init O M w)) in *.
    destruct F as ((L1 & G1) & _ & _ & F).
    assert (P : let r := inward_tau O M w1 tau0 in
                wXl (fst r) = wXl w1 /\ wS (fst r) = wS w1 /\ wmS (fst r) = wmS w1 /\ wcS (fst r) = wcS w1 /\ ws_len (fst r) NB).
    { cbv zeta. rewrite (inward_unfold O M).
      apply (fold_left_inv (fun st : WS * list T =>
               wXl (fst st) = wXl w1 /\ wS (fst st) = wS w1 /\ wmS (fst st) = wmS w1 /\ wcS (fst st) = wcS w1 /\ ws_len (fst st) NB)).
      - cbn [fst]. exact (conj eq_refl (conj eq_refl (conj eq_refl (conj eq_refl L1)))).
      - intros [wx tx] i (A & B & C & D & L). unfold id_bwd_step. cbn [fst].
        destruct (Nat.eqb (getlam M i) 0); cbn [fst]; [exact (conj A (conj B (conj C (conj D L))))|].
        cbn [wXl wS wmS wcS w_f].
        split; [exact A|]. split; [exact B|]. split; [exact C|]. split; [exact D|].
        unfold ws_len in *. cbn [wXl wXb wv wa wc wvJ wcJ wS wf wpA wU wmS wmU wmDinv wmu wIc wIA wd wu wcS wcU wcDinv wcu w_f].
        rewrite upd_length. exact L. }
    cbv zeta in P. destruct P as (A & B & C & D & L).
    split; [exact L|]. intros i Hi. destruct (F i Hi) as (_ & _ & _ & EX & ES).
    split; [unfold gXl; rewrite A; exact EX|]. split.
    - rewrite (jS_ext O M w1 _ i B C D). exact ES.
    - eapply (SF_length O). exact (proj2 (G1 i Hi)).
  Qed.

  Theorem fdl_inverts_inverse_dynamics (w0 w1 : WS) (tau : list T) w' qdd H C : Good O M w0 -> Good O M w1 ->
    length tau = n ->
    forward_dynamics_lagrangian O M w0 q qd tau None = (w', Some qdd, H, C) ->
    forall r, r < n -> nth r (snd (inverse_dynamics O M w1 q qd qdd z None)) t0 = nth r tau t0.
  Proof.
    intros G0 G1 Lt E.
    unfold forward_dynamics_lagrangian in E. fold n in E. fold z in E.
    pose proof (id_leaves_kinok w0 z z G0) as KO.
    pose proof (id_length O M w0 q qd z z None) as LC.
    destruct (inverse_dynamics O M w0 q qd z z None) as [wi Ci] eqn:EI. cbn [fst snd] in KO, LC.
    assert (Lz : length z = n) by (unfold z; apply vzeros_length).
    rewrite Lz in LC.
    change (mzeros t0 n n) with (zerosM O n n) in E.
    pose proof (gen_wf O M q wi) as WH. pose proof (gen_bilinear O M q W Hjw two_nz wi KO) as BL.
    cbv zeta in WH, BL. fold n in WH, BL.
    destruct (crba O M wi q (zerosM O n n) false) as [wc Hc] eqn:EC. cbn [snd] in WH, BL.
    destruct (solve_pp O Hc (vsub O tau Ci)) as [x|] eqn:ES; [|discriminate].
    injection E as _ <- _ _.
    assert (Lv : length (vsub O tau Ci) = n).
    { unfold vsub. rewrite map_length, combine_length, Lt, LC. apply Nat.min_id. }
    pose proof (solve_pp_mvmul O oeqb_spec n Hc (vsub O tau Ci) x WH Lv ES) as MV.
    destruct (solve_pp_sound O oeqb_spec n Hc (vsub O tau Ci) x WH Lv ES) as [Lx _].
    intros r Hr.
    pose proof (id_affine_gen O M q qd W cust_inj virtual_massless root_joint_empty Hc w1 w0 x WH BL G1 G0 Lx r Hr) as A.
    cbv zeta in A. fold n in A. fold z in A. rewrite EI in A. cbn [snd] in A.
    rewrite A, MV. rewrite (nth_vsub O) by lia. ring.
  Qed.
End Fdl.
