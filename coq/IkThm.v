(* C17: post-conditions of the iterative solvers (fuelled loops): a reported success means that the termination
   test was passed on the returned configuration (or on the configuration one small step before it); the
   velocity-level assembly returns the solution of the KKT system of the weighted least-squares problem;
   the outputs keep their size. *)
From Coq Require Import List Bool Arith NArith Lia.
From RV Require Import Scalar Laws LinAlg3 Spatial Quat ListArr ListLemmas ModelDef JointDef KinDef LinDef LinThm DynDef UtilDef ConsDef ConsThm IdcThm IkDef.
Import ListNotations.

Section IkThm.
  Context {T : Type} (O : Ops T).
  Local Notation t0 := (o0 O).
  Local Notation Model := (@Model T). Local Notation WS := (@WS T).

  (* ---- sizes ---- *)
  Lemma set_quat_length (M : Model) i qt Q : length (set_quat M i qt Q) = length Q.
  Proof. unfold set_quat. rewrite !upd_length. reflexivity. Qed.
  Lemma apply_delta_length (M : Model) (Q d : list T) : length (apply_delta O M Q d) = length Q.
  Proof.
    unfold apply_delta. generalize (body_range M) as L. intros L. revert Q.
    induction L as [|i L IH]; intros Q; cbn [fold_left]; [reflexivity|].
    rewrite IH. destruct (jkind (getJ M i)); try apply set_quat_length;
      (generalize (iota 0 (jdof (getJ M i))) as K; intros K; revert Q; induction K as [|j K IHK]; intros Q; cbn [fold_left];
       [reflexivity|rewrite IHK; apply upd_length]).
  Qed.

  (* ---- first overload ---- *)
  Theorem ik1_success : forall fuel (M : Model) w Q targets tol lam w' Q',
    ik1 O fuel M w Q targets tol lam = (w', true, Q') ->
    exists w0 Q0, let wk := ukc_q O M w0 Q0 in let '(J, e) := ik1_rows O M wk targets in
      (Q' = Q0 /\ oltb O (vnorm O e) tol = true) \/
      (let A := madd O (mmmul O J (mTn O J (qdot_size M)) (length e)) (mscale O (omul O lam lam) (mident O (length e))) in
       let d := mTvmul O J (qdot_size M) (gauss_elim_pivot O A e) in
       Q' = apply_delta O M Q0 d /\ oltb O (vnorm O d) tol = true).
  Proof.
    induction fuel as [|f IH]; intros M w Q targets tol lam w' Q' H; cbn [ik1] in H; [discriminate|].
    destruct (ik1_rows O M (ukc_q O M w Q) targets) as [J e] eqn:ER.
    destruct (oltb O (vnorm O e) tol) eqn:E1.
    - injection H as <- <-. exists w, Q. cbv zeta. rewrite ER. left. split; [reflexivity|exact E1].
    - cbv zeta in H.
      destruct (oltb O (vnorm O (mTvmul O J (qdot_size M) (gauss_elim_pivot O _ e))) tol) eqn:E2.
      + injection H as <- <-. exists w, Q. cbv zeta. rewrite ER. right. split; [reflexivity|exact E2].
      + apply IH in H. exact H.
  Qed.
  Theorem ik1_size : forall fuel (M : Model) w Q targets tol lam w' ok Q',
    ik1 O fuel M w Q targets tol lam = (w', ok, Q') -> length Q' = length Q.
  Proof.
    induction fuel as [|f IH]; intros M w Q targets tol lam w' ok Q' H; cbn [ik1] in H; [injection H as _ _ <-; reflexivity|].
    destruct (ik1_rows O M (ukc_q O M w Q) targets) as [J e].
    destruct (oltb O (vnorm O e) tol); [injection H as _ _ <-; reflexivity|]. cbv zeta in H.
    destruct (oltb O _ tol).
    - injection H as _ _ <-. apply apply_delta_length.
    - apply IH in H. rewrite H. apply apply_delta_length.
  Qed.

  (* ---- second overload: the reported error norm is the residual norm at the configuration the last test saw,
          and success means it is below constraint_tol there, or the last step was shorter than step_tol ---- *)
  Theorem ik2_success : forall fuel steps (M : Model) w Q cs stol ctol lam t12 ph err dq w' R,
    ik2 O fuel steps M w Q cs stol ctol lam t12 ph err dq = (w', R) -> ik_ok R = true ->
    exists w0 Q0, let wk := ukc_q O M w0 Q0 in let '(J, e) := ik2_rows O M wk Q0 cs t12 ph in
      ik_err R = vnorm O e /\
      ((ik_Q R = Q0 /\ oltb O (vnorm O e) ctol = true) \/
       (exists d, ik_Q R = apply_delta O M Q0 d /\ ik_dq R = vnorm O d /\ oltb O (vnorm O d) stol = true)).
  Proof.
    induction fuel as [|f IH]; intros steps M w Q cs stol ctol lam t12 ph err dq w' R H Hok; cbn [ik2] in H.
    - injection H as _ <-. discriminate.
    - destruct (ik2_rows O M (ukc_q O M w Q) Q cs t12 ph) as [J e] eqn:ER.
      destruct (oltb O (vnorm O e) ctol) eqn:E1.
      + injection H as _ <-. exists w, Q. cbv zeta. rewrite ER. cbn. split; [reflexivity|]. left. split; [reflexivity|exact E1].
      + cbv zeta in H. destruct (solve_pp O _ _) as [d|]; [|injection H as _ <-; discriminate].
        destruct (oltb O (vnorm O d) stol) eqn:E2.
        * injection H as _ <-. exists w, Q. cbv zeta. rewrite ER. cbn. split; [reflexivity|]. right.
          exists d. split; [reflexivity|]. split; [reflexivity|exact E2].
        * apply IH in H; [exact H|exact Hok].
  Qed.
  Theorem ik2_size : forall fuel steps (M : Model) w Q cs stol ctol lam t12 ph err dq w' R,
    ik2 O fuel steps M w Q cs stol ctol lam t12 ph err dq = (w', R) -> length (ik_Q R) = length Q.
  Proof.
    induction fuel as [|f IH]; intros steps M w Q cs stol ctol lam t12 ph err dq w' R H; cbn [ik2] in H.
    - injection H as _ <-. reflexivity.
    - destruct (ik2_rows O M (ukc_q O M w Q) Q cs t12 ph) as [J e].
      destruct (oltb O (vnorm O e) ctol); [injection H as _ <-; reflexivity|].
      cbv zeta in H. destruct (solve_pp O _ _) as [d|]; [|injection H as _ <-; reflexivity].
      destruct (oltb O (vnorm O d) stol).
      + injection H as _ <-. apply apply_delta_length.
      + apply IH in H. rewrite H. apply apply_delta_length.
  Qed.

  (* ---- position-level assembly: success means the error norm at the returned configuration is below the tolerance ---- *)
  Lemma assembly_loop_success : forall fuel (M : Model) w Q e cs wts tol w' Q',
    assembly_q_loop O fuel M w Q e cs wts tol = (w', true, Q') ->
    exists w0, oltb O (vnorm O (snd (cons_errors O M w0 Q' cs))) tol = true.
  Proof.
    induction fuel as [|f IH]; intros M w Q e cs wts tol w' Q' H; cbn [assembly_q_loop] in H; [discriminate|].
    cbv zeta in H. destruct (kkt_solve O _ _ _ _ _ _) as [[d x]|]; [|discriminate].
    destruct (cons_errors O M (ukc_q O M w Q) (apply_delta O M Q d) cs) as [w1 e1] eqn:EC.
    destruct (oltb O (vnorm O e1) tol && oltb O (vnorm O d) tol)%bool eqn:E.
    - injection H as _ <-. apply andb_true_iff in E. destruct E as [E1 _].
      exists (ukc_q O M w Q). rewrite EC. exact E1.
    - apply IH in H. exact H.
  Qed.
  Theorem assembly_q_success (max_iter : nat) (M : Model) w Qinit cs wts tol w' Q' :
    assembly_q O max_iter M w Qinit cs wts tol = (w', true, Q') ->
    exists w0, oltb O (vnorm O (snd (cons_errors O M w0 Q' cs))) tol = true.
  Proof.
    unfold assembly_q. destruct (cons_errors O M w Qinit cs) as [w1 e] eqn:EC.
    destruct (oltb O (vnorm O e) tol) eqn:E.
    - intros H. injection H as _ <-. exists w. rewrite EC. exact E.
    - apply assembly_loop_success.
  Qed.
  Lemma assembly_loop_size : forall fuel (M : Model) w Q e cs wts tol w' ok Q',
    assembly_q_loop O fuel M w Q e cs wts tol = (w', ok, Q') -> length Q' = length Q.
  Proof.
    induction fuel as [|f IH]; intros M w Q e cs wts tol w' ok Q' H; cbn [assembly_q_loop] in H; [injection H as _ _ <-; reflexivity|].
    cbv zeta in H. destruct (kkt_solve O _ _ _ _ _ _) as [[d x]|]; [|injection H as _ _ <-; reflexivity].
    destruct (cons_errors O M (ukc_q O M w Q) (apply_delta O M Q d) cs) as [w1 e1].
    destruct (oltb O (vnorm O e1) tol && oltb O (vnorm O d) tol)%bool.
    - injection H as _ _ <-. apply apply_delta_length.
    - apply IH in H. rewrite H. apply apply_delta_length.
  Qed.
End IkThm.

Section Asm.
  Context {T : Type} (O : Ops T) {FL : FieldLaws O}.
  Hypothesis oeqb_spec : forall x y : T, oeqb O x y = true <-> x = y.
  Local Notation t0 := (o0 O).
  Lemma diagm_wf (wts : list T) : WFm (length wts) (diagm O wts).
  Proof.
    unfold diagm. split; [rewrite map_length, iota_length; reflexivity|].
    intros i Hi. rewrite (nth_map_iota _ [] (length wts) 0 i Hi). rewrite map_length, iota_length. reflexivity.
  Qed.
  (* velocity-level assembly: G qd = 0 and W (qd - qd0) + G^T x = 0 -- the KKT conditions of
     min 1/2 (qd - qd0)^T W (qd - qd0) subject to G qd = 0 -- and no other pair satisfies them *)
  Theorem assembly_qdot_kkt (M : @Model T) (w : @WS T) Q qd0 cs wts w' qd x :
    assembly_qdot O M w Q qd0 cs wts = (w', Some (qd, x)) ->
    let n := dof_count M in let m := length cs in
    let G := cons_G O M (ukc_q O M w Q) cs in
    length wts = n -> length qd0 = n -> (forall k, k < m -> length (nth k G []) = n) ->
    KKTeq O (diagm O wts) G n (map (fun p => omul O (fst p) (snd p)) (combine wts qd0)) (vzeros t0 m) qd x /\
    forall qd' x', length qd' = n -> length x' = m ->
      KKTeq O (diagm O wts) G n (map (fun p => omul O (fst p) (snd p)) (combine wts qd0)) (vzeros t0 m) qd' x' -> qd' = qd /\ x' = x.
  Proof.
    unfold assembly_qdot. cbv zeta. intros H. injection H as _ H. intros Lw Lq LGr.
    assert (WH : WFm (dof_count M) (diagm O wts)) by (rewrite <- Lw; apply diagm_wf).
    assert (LG : length (cons_G O M (ukc_q O M w Q) cs) = length cs) by (unfold cons_G; apply map_length).
    assert (Lc : length (map (fun p : T * T => omul O (fst p) (snd p)) (combine wts qd0)) = dof_count M)
      by (rewrite map_length, combine_length; lia).
    assert (Lz : length (vzeros t0 (length cs)) = length cs) by (unfold vzeros; apply repeat_length).
    split.
    - destruct (kkt_solve_sound O oeqb_spec _ _ _ _ WH LG LGr _ _ qd x Lc Lz H) as (_ & _ & K). exact K.
    - intros qd' x' L1 L2 K. exact (kkt_solve_unique O oeqb_spec _ _ _ _ WH LG LGr _ _ qd x qd' x' Lc Lz H L1 L2 K).
  Qed.
End Asm.
