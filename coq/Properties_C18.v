(* C18 muscle curves: algebra of the quintic Bezier segments over any field.  The reported derivative polynomials
   are the formal derivatives of the reported value polynomial (so reported derivatives are derivatives of reported
   values); the Maple-optimised dy/dx formulas are the chain-rule quotients; the corner control points give the
   prescribed end slopes and zero second derivative at both ends -- hence segments that share an end point and a
   slope, and the linear extrapolation, join C2; shift and scale transform values and derivatives as stated.  The
   curve factories are not modelled: every generated curve's control points are read back and must satisfy the
   hypotheses of these theorems (checked hypothesis), see DESIGN.md. *)
From Coq Require Import List.
From RV Require Import Scalar Laws ListArr BezDef BezThm.
Import ListNotations.
Section P.
  Context {T : Type} (O : Ops T) {FL : FieldLaws O}.
  Theorem C18_value_is_quintic_polynomial u (p : P6 T) : bez_val O u p = peval O (bez_coeffs O p) u.
  Proof. exact (bez_val_is_polynomial O u p). Qed.
  Theorem C18_first_derivative_is_formal_derivative u (p : P6 T) : bez_du O 1 u p = peval O (pderiv O (bez_coeffs O p)) u.
  Proof. exact (bez_du1_is_derivative O u p). Qed.
  Theorem C18_second_derivative_is_formal_derivative u (p : P6 T) :
    bez_du O 2 u p = peval O (pderiv O (pderiv O (bez_coeffs O p))) u.
  Proof. exact (bez_du2_is_derivative O u p). Qed.
  Theorem C18_third_derivative_is_formal_derivative u (p : P6 T) :
    bez_du O 3 u p = peval O (pderiv O (pderiv O (pderiv O (bez_coeffs O p)))) u.
  Proof. exact (bez_du3_is_derivative O u p). Qed.
  Theorem C18_fourth_derivative_is_formal_derivative u (p : P6 T) :
    bez_du O 4 u p = peval O (pderiv O (pderiv O (pderiv O (pderiv O (bez_coeffs O p))))) u.
  Proof. exact (bez_du4_is_derivative O u p). Qed.
  Theorem C18_fifth_derivative_is_formal_derivative u (p : P6 T) :
    bez_du O 5 u p = peval O (pderiv O (pderiv O (pderiv O (pderiv O (pderiv O (bez_coeffs O p)))))) u.
  Proof. exact (bez_du5_is_derivative O u p). Qed.
  Theorem C18_d2ydx2_is_chain_rule u (xp yp : P6 T) : bez_du O 1 u xp <> o0 O ->
    let x1 := bez_du O 1 u xp in let y1 := bez_du O 1 u yp in let x2 := bez_du O 2 u xp in let y2 := bez_du O 2 u yp in
    bez_dydx O 2 u xp yp = odiv O (osub O (omul O y2 x1) (omul O y1 x2)) (omul O (omul O x1 x1) x1).
  Proof. exact (bez_dydx2_is_quotient_rule O u xp yp). Qed.
  Theorem C18_d3ydx3_is_chain_rule u (xp yp : P6 T) : bez_du O 1 u xp <> o0 O ->
    let x1 := bez_du O 1 u xp in let y1 := bez_du O 1 u yp in let x2 := bez_du O 2 u xp in let y2 := bez_du O 2 u yp in
    let x3 := bez_du O 3 u xp in let y3 := bez_du O 3 u yp in
    let x1_5 := omul O (omul O (omul O (omul O x1 x1) x1) x1) x1 in
    bez_dydx O 3 u xp yp =
    odiv O (osub O (oadd O (osub O (omul O y3 (omul O x1 x1)) (omul O (onat O 3) (omul O x1 (omul O x2 y2))))
                           (omul O (onat O 3) (omul O y1 (omul O x2 x2))))
                   (omul O x1 (omul O y1 x3))) x1_5.
  Proof. exact (bez_dydx3_is_quotient_rule O u xp yp). Qed.
  (* corner control points (the library's formulas) for an intersection abscissa xC of the two tangent lines *)
  Theorem C18_corner_tangent_intersection x0 y0 d0 x1 y1 d1 rootEPS :
    oltb O rootEPS (oabs O (osub O d0 d1)) = true -> osub O d0 d1 <> o0 O ->
    let xC := corner_xC O x0 y0 d0 x1 y1 d1 rootEPS in
    oadd O (omul O (osub O xC x1) d1) y1 = oadd O (omul O (osub O xC x0) d0) y0.
  Proof. exact (corner_xC_is_intersection O x0 y0 d0 x1 y1 d1 rootEPS). Qed.
  Theorem C18_corner_is_c2_compatible x0 y0 d0 x1 y1 d1 curv rootEPS :
    oltb O rootEPS (oabs O (osub O d0 d1)) = true -> osub O d0 d1 <> o0 O ->
    let '(XP, YP) := corner_cp O x0 y0 d0 x1 y1 d1 curv rootEPS in
    bez_val O (o0 O) XP = x0 /\ bez_val O (o1 O) XP = x1 /\ bez_val O (o0 O) YP = y0 /\ bez_val O (o1 O) YP = y1 /\
    bez_du O 1 (o0 O) YP = omul O d0 (bez_du O 1 (o0 O) XP) /\ bez_du O 1 (o1 O) YP = omul O d1 (bez_du O 1 (o1 O) XP) /\
    osub O (omul O (bez_du O 2 (o0 O) YP) (bez_du O 1 (o0 O) XP)) (omul O (bez_du O 1 (o0 O) YP) (bez_du O 2 (o0 O) XP)) = o0 O /\
    osub O (omul O (bez_du O 2 (o1 O) YP) (bez_du O 1 (o1 O) XP)) (omul O (bez_du O 1 (o1 O) YP) (bez_du O 2 (o1 O) XP)) = o0 O.
  Proof.
    intros H Hne. pose proof (corner_xC_is_intersection O x0 y0 d0 x1 y1 d1 rootEPS H Hne) as Hint. cbv zeta in Hint.
    unfold corner_cp.
    set (xC := corner_xC O x0 y0 d0 x1 y1 d1 rootEPS) in *.
    destruct (corner_end_values O x0 y0 d0 x1 y1 d1 curv xC) as (A & B & C & D).
    repeat split.
    - exact A. - exact B. - exact C. - exact D.
    - exact (corner_start_slope O x0 y0 d0 x1 y1 d1 curv xC Hint).
    - exact (corner_end_slope O x0 y0 d0 x1 y1 d1 curv xC).
    - exact (corner_start_curvature_zero O x0 y0 d0 x1 y1 d1 curv xC Hint).
    - exact (corner_end_curvature_zero O x0 y0 d0 x1 y1 d1 curv xC).
  Qed.
  Theorem C18_shift_scale_values u (p : P6 T) d k :
    bez_val O u (p6map (fun v => oadd O v d) p) = oadd O (bez_val O u p) d /\
    bez_val O u (p6map (fun v => omul O v k) p) = omul O (bez_val O u p) k.
  Proof. split; [exact (bez_val_shift O u p d)|exact (bez_val_scale O u p k)]. Qed.
  Theorem C18_shift_scale_slopes u (xp yp : P6 T) dx dy kx ky : kx <> o0 O -> bez_du O 1 u xp <> o0 O ->
    bez_dydx O 1 u (p6map (fun v => oadd O v dx) xp) (p6map (fun v => oadd O v dy) yp) = bez_dydx O 1 u xp yp /\
    bez_dydx O 1 u (p6map (fun v => omul O v kx) xp) (p6map (fun v => omul O v ky) yp) = omul O (bez_dydx O 1 u xp yp) (odiv O ky kx).
  Proof. exact (bez_dydx1_shift_scale O u xp yp dx dy kx ky). Qed.
End P.
Print Assumptions C18_value_is_quintic_polynomial. Print Assumptions C18_first_derivative_is_formal_derivative.
Print Assumptions C18_second_derivative_is_formal_derivative. Print Assumptions C18_third_derivative_is_formal_derivative.
Print Assumptions C18_fourth_derivative_is_formal_derivative. Print Assumptions C18_fifth_derivative_is_formal_derivative.
Print Assumptions C18_d2ydx2_is_chain_rule. Print Assumptions C18_d3ydx3_is_chain_rule.
Print Assumptions C18_corner_tangent_intersection. Print Assumptions C18_corner_is_c2_compatible.
Print Assumptions C18_shift_scale_values. Print Assumptions C18_shift_scale_slopes.
