(* L2: src/Kinematics.cc -- UpdateKinematics, UpdateKinematicsCustom, coordinate
   queries, Jacobians, point velocities / accelerations (workspace-passing). *)
From Coq Require Import List Bool Arith NArith.
From RV Require Import Scalar LinAlg3 Spatial Quat ListArr ModelDef JointDef.
Import ListNotations.

Section K.
  Context {T : Type} (O : Ops T).
  Local Notation t0 := (o0 O). Local Notation t1 := (o1 O).
  Local Notation SV := (SV T). Local Notation ST := (ST T). Local Notation V3 := (V3 T).
  Local Notation Model := (@Model T). Local Notation WS := (@WS T).

  Definition body_range (M : Model) : list nat := iota 1 (Nat.pred (nbodies M)).
  Definition qdd_seg (M : Model) (i : nat) (qdd : list T) : list T :=
    vslice t0 qdd (jq (getJ M i)) (jdof (getJ M i)).

  (* UpdateKinematics *)
  Definition update_kinematics (M : Model) (w : WS) (q qd qdd : list T) : WS :=
    let w := w_a w (upd (wa w) 0 (svzero O)) in
    fold_left (fun w i =>
      let lam := getlam M i in
      let w := jcalc O M w i q qd in
      let w := if Nat.eqb lam 0
               then w_v (w_Xb w (upd (wXb w) i (gXl O w i))) (upd (wv w) i (gvJ O w i))
               else w_v (w_Xb w (upd (wXb w) i (st_mul O (gXl O w i) (gXb O w lam))))
                        (upd (wv w) i (svadd O (st_apply O (gXl O w i) (gv O w lam)) (gvJ O w i))) in
      let w := w_c w (upd (wc w) i (svadd O (gcJ O w i) (crossm O (gv O w i) (gvJ O w i)))) in
      let a1 := svadd O (st_apply O (gXl O w i) (ga O w lam)) (gc O w i) in
      w_a w (upd (wa w) i (svadd O a1 (cols_mulv O (jS O M w i) (qdd_seg M i qdd))))
    ) (body_range M) w.

  (* UpdateKinematicsCustom (Q, QDot, QDDot optional; QDot requires Q) *)
  Definition ukc_q (M : Model) (w : WS) (q : list T) : WS :=
    fold_left (fun w i =>
      let lam := getlam M i in
      let w := jcalc O M w i q (vzeros t0 (q_size M)) in
      w_Xb w (upd (wXb w) i (if Nat.eqb lam 0 then gXl O w i else st_mul O (gXl O w i) (gXb O w lam)))
    ) (body_range M) w.
  Definition ukc_qd (M : Model) (w : WS) (q qd : list T) : WS :=
    fold_left (fun w i =>
      let lam := getlam M i in
      let w := jcalc O M w i q qd in
      let w := w_v w (upd (wv w) i (if Nat.eqb lam 0 then gvJ O w i
                                    else svadd O (st_apply O (gXl O w i) (gv O w lam)) (gvJ O w i))) in
      w_c w (upd (wc w) i (svadd O (gcJ O w i) (crossm O (gv O w i) (gvJ O w i))))
    ) (body_range M) w.
  Definition ukc_qdd (M : Model) (w : WS) (qdd : list T) : WS :=
    fold_left (fun w i =>
      let lam := getlam M i in
      let a1 := if Nat.eqb lam 0 then gc O w i
                else svadd O (st_apply O (gXl O w i) (ga O w lam)) (gc O w i) in
      w_a w (upd (wa w) i (svadd O a1 (cols_mulv O (jS O M w i) (qdd_seg M i qdd))))
    ) (body_range M) w.
  Definition update_kinematics_custom (M : Model) (w : WS) (q qd qdd : option (list T)) : WS :=
    let w := match q with Some q' => ukc_q M w q' | None => w end in
    let w := match qd, q with Some qd', Some q' => ukc_qd M w q' qd' | _, _ => w end in
    match qdd with Some qdd' => ukc_qdd M w qdd' | None => w end.

  (* body id resolution: (movable reference body, transform reference body -> this body) *)
  Definition ref_body (M : Model) (id : N) : nat * option ST :=
    if is_fixed_id M id then let f := getfixed O M (fidx id) in (fparent f, Some (fxf f))
    else (N.to_nat id, None).

  (* CalcBodyToBaseCoordinates / CalcBaseToBodyCoordinates / CalcBodyWorldOrientation, flag = false *)
  Definition b2b (M : Model) (w : WS) (id : N) (p : V3) : V3 :=
    if N.leb fixed_disc id then
      let f := getfixed O M (fidx id) in
      let Xp := gXb O w (fparent f) in
      v3add O (str Xp) (m3Tv O (stE Xp) (v3add O (str (fxf f)) (m3Tv O (stE (fxf f)) p)))
    else let X := gXb O w (N.to_nat id) in v3add O (str X) (m3Tv O (stE X) p).
  Definition base2b (M : Model) (w : WS) (id : N) (p : V3) : V3 :=
    if N.leb fixed_disc id then
      let f := getfixed O M (fidx id) in
      let Xp := gXb O w (fparent f) in
      m3v O (stE (fxf f)) (v3sub O (v3opp O (str (fxf f))) (m3v O (stE Xp) (v3sub O (str Xp) p)))
    else let X := gXb O w (N.to_nat id) in m3v O (stE X) (v3sub O p (str X)).
  Definition world_orient (M : Model) (w : WS) (id : N) : M3 T :=
    if N.leb fixed_disc id then
      let f := getfixed O M (fidx id) in stE (st_mul O (fxf f) (gXb O w (fparent f)))
    else stE (gXb O w (N.to_nat id)).

  (* walk from body j to the base (fuel = number of bodies) *)
  Fixpoint path_to_base (M : Model) (fuel j : nat) : list nat :=
    match fuel with
    | 0 => []
    | S k => if Nat.eqb j 0 then [] else j :: path_to_base M k (getlam M j)
    end.

  (* write `cols` (each a list of row entries) into G at column q_index.. *)
  Fixpoint mset_cols (G : list (list T)) (c : nat) (cols : list (list T)) : list (list T) :=
    match cols with
    | [] => G
    | col :: t =>
        let G' := fst (fold_left (fun (acc : list (list T) * nat) x =>
                          (mset (fst acc) (snd acc) c x, S (snd acc))) col (G, 0)) in
        mset_cols G' (S c) t
    end.

  (* generic Jacobian fill: for every joint j on the path, columns  f (X_base[j]^-1 S_jk) *)
  Definition jac_fill (M : Model) (w : WS) (G : list (list T)) (refb : nat) (f : SV -> list T) : list (list T) :=
    fold_left (fun G j =>
      let Xinv := st_inv O (gXb O w j) in
      mset_cols G (jq (getJ M j)) (map (fun s => f (st_apply O Xinv s)) (jS O M w j))
    ) (path_to_base M (nbodies M) refb) G.

  Definition point_jacobian (M : Model) (w : WS) (id : N) (p : V3) (G : list (list T)) : list (list T) :=
    let pt := mkST (m3id O) (b2b M w id p) in
    jac_fill M w G (fst (ref_body M id)) (fun s => v3list (svlin (st_apply O pt s))).
  Definition point_jacobian6 (M : Model) (w : WS) (id : N) (p : V3) (G : list (list T)) : list (list T) :=
    let pt := mkST (m3id O) (b2b M w id p) in
    jac_fill M w G (fst (ref_body M id)) (fun s => svlist (st_apply O pt s)).
  Definition body_spatial_jacobian (M : Model) (w : WS) (id : N) (G : list (list T)) : list (list T) :=
    let '(rb, fx) := ref_body M id in
    let b2 := match fx with Some X => st_mul O X (gXb O w rb) | None => gXb O w rb end in
    jac_fill M w G rb (fun s => svlist (st_apply O b2 s)).

  (* reference point of a (possibly fixed) body in its movable parent's coordinates *)
  Definition ref_point (M : Model) (w : WS) (id : N) (p : V3) : nat * V3 :=
    if is_fixed_id M id then
      let rb := fparent (getfixed O M (fidx id)) in
      (rb, base2b M w (N.of_nat rb) (b2b M w id p))
    else (N.to_nat id, p).
  Definition point_X (M : Model) (w : WS) (rb : nat) (rp : V3) : ST :=
    mkST (m3T (world_orient M w (N.of_nat rb))) rp.

  (* CalcPointVelocity6D with flag=false on workspace w (after v[0] := 0) *)
  Definition point_velocity6_nk (M : Model) (w : WS) (id : N) (p : V3) : SV :=
    let '(rb, rp) := ref_point M w id p in st_apply O (point_X M w rb rp) (gv O w rb).
  Definition point_acceleration6_nk (M : Model) (w : WS) (id : N) (p : V3) : SV :=
    let '(rb, rp) := ref_point M w id p in
    let X := point_X M w rb rp in
    let pv := st_apply O X (gv O w rb) in
    let adash := v3cross O (svang pv) (svlin pv) in
    svadd O (st_apply O X (ga O w rb)) (svof (v3zero O) adash).

  Definition zero_v0 (w : WS) : WS := w_v w (upd (wv w) 0 (svzero O)).
  Definition zero_a0 (w : WS) : WS := w_a w (upd (wa w) 0 (svzero O)).

  (* the public routines: (workspace, result) *)
  Definition calc_b2b (M : Model) (w : WS) (q : list T) (id : N) (p : V3) (upd_kin : bool) : WS * V3 :=
    let w := if upd_kin then ukc_q M w q else w in (w, b2b M w id p).
  Definition calc_base2b (M : Model) (w : WS) (q : list T) (id : N) (p : V3) (upd_kin : bool) : WS * V3 :=
    let w := if upd_kin then ukc_q M w q else w in (w, base2b M w id p).
  Definition calc_orient (M : Model) (w : WS) (q : list T) (id : N) (upd_kin : bool) : WS * M3 T :=
    let w := if upd_kin then ukc_q M w q else w in (w, world_orient M w id).
  Definition calc_point_jacobian (M : Model) (w : WS) (q : list T) (id : N) (p : V3) (G : list (list T)) (upd_kin : bool) :=
    let w := if upd_kin then ukc_q M w q else w in (w, point_jacobian M w id p G).
  Definition calc_point_jacobian6 (M : Model) (w : WS) (q : list T) (id : N) (p : V3) (G : list (list T)) (upd_kin : bool) :=
    let w := if upd_kin then ukc_q M w q else w in (w, point_jacobian6 M w id p G).
  Definition calc_body_spatial_jacobian (M : Model) (w : WS) (q : list T) (id : N) (G : list (list T)) (upd_kin : bool) :=
    let w := if upd_kin then ukc_q M w q else w in (w, body_spatial_jacobian M w id G).
  Definition calc_point_velocity6 (M : Model) (w : WS) (q qd : list T) (id : N) (p : V3) (upd_kin : bool) : WS * SV :=
    let w := zero_v0 w in
    let w := if upd_kin then ukc_qd M (ukc_q M w q) q qd else w in (w, point_velocity6_nk M w id p).
  Definition calc_point_velocity (M : Model) (w : WS) (q qd : list T) (id : N) (p : V3) (upd_kin : bool) : WS * V3 :=
    let '(w, v) := calc_point_velocity6 M w q qd id p upd_kin in (w, svlin v).
  Definition calc_point_acceleration6 (M : Model) (w : WS) (q qd qdd : list T) (id : N) (p : V3) (upd_kin : bool) : WS * SV :=
    let w := zero_a0 (zero_v0 w) in
    let w := if upd_kin then update_kinematics M w q qd qdd else w in (w, point_acceleration6_nk M w id p).
  Definition calc_point_acceleration (M : Model) (w : WS) (q qd qdd : list T) (id : N) (p : V3) (upd_kin : bool) : WS * V3 :=
    let '(w, a) := calc_point_acceleration6 M w q qd qdd id p upd_kin in (w, svlin a).
End K.
