(* C04: forward kinematics.  X_base[i] = (R_i^T, p_i) where (R_i, p_i) is the pose obtained by
   composing, from the base outward, the joint frames and the declared joint motions;
   rotations stay rotations; base-to-body inverts body-to-base. *)
From Coq Require Import List Bool Arith NArith Lia Ring Field.
From RV Require Import Scalar LinAlg3 Spatial Quat Tac Laws SpatialLaws QuatLaws ListArr ModelDef JointDef KinDef C14Thm WsLemmas KinThm.
Import ListNotations.

Section C04.
  Context {T : Type} (O : Ops T) {FL : FieldLaws O} {TL : TrigLaws O}.
  Add Field FlF : (@fl_field T O FL).
  Local Notation Model := (@Model T). Local Notation WS := (@WS T).
  Local Notation t0 := (o0 O). Local Notation t1 := (o1 O).

  (* ---- 3x3 matrix algebra ---- *)
  Lemma m3T_mul A B : m3T (m3mul O A B) = m3mul O (m3T B) (m3T A).
  Proof. l1_split; ring. Qed.
  Lemma m3mul_assoc A B C : m3mul O (m3mul O A B) C = m3mul O A (m3mul O B C).
  Proof. l1_split; ring. Qed.
  Lemma m3mul_id_l A : m3mul O (m3id O) A = A. Proof. l1_split; ring. Qed.
  Lemma m3mul_id_r A : m3mul O A (m3id O) = A. Proof. l1_split; ring. Qed.
  Lemma m3T_T (A : M3 T) : m3T (m3T A) = A. Proof. destruct A; reflexivity. Qed.
  Lemma m3det_mul A B : m3det O (m3mul O A B) = omul O (m3det O A) (m3det O B).
  Proof. destruct A, B; cbv_sc; ring. Qed.
  Lemma m3Tv_T A v : m3Tv O (m3T A) v = m3v O A v. Proof. l1_split; ring. Qed.
  Lemma m3v_mul' A B v : m3v O (m3mul O A B) v = m3v O A (m3v O B v). Proof. l1_split; ring. Qed.
  Lemma m3Tv_mul A B v : m3Tv O (m3mul O A B) v = m3Tv O B (m3Tv O A v). Proof. l1_split; ring. Qed.
  Lemma m3rot_id : m3rot O (m3id O).
  Proof. split; [unfold m3orth; l1_split; ring | cbv_sc; ring]. Qed.
  Lemma m3rot_mul A B : m3rot O A -> m3rot O B -> m3rot O (m3mul O A B).
  Proof.
    intros [Ha Da] [Hb Db]. split.
    - unfold m3orth in *. rewrite m3T_mul, m3mul_assoc, <- (m3mul_assoc B), Hb, m3mul_id_l. exact Ha.
    - rewrite m3det_mul, Da, Db. ring.
  Qed.

  (* ---- the elementary joint matrices are rotations ---- *)
  Lemma trig x : oadd O (omul O (ocos O x) (ocos O x)) (omul O (osin O x) (osin O x)) = t1.
  Proof. apply tl_cs. Qed.
  Lemma rotx_rot x : m3rot O (rotx O (osin O x) (ocos O x)).
  Proof. pose proof (trig x) as H. set (s := osin O x) in *. set (c := ocos O x) in *. clearbody s c.
    split; [unfold m3orth; ext_rec; cbv_sc; nz | cbv_sc; nz]. Qed.
  Lemma roty_rot x : m3rot O (roty O (osin O x) (ocos O x)).
  Proof. pose proof (trig x) as H. set (s := osin O x) in *. set (c := ocos O x) in *. clearbody s c.
    split; [unfold m3orth; ext_rec; cbv_sc; nz | cbv_sc; nz]. Qed.
  Lemma rotz_rot x : m3rot O (rotz O (osin O x) (ocos O x)).
  Proof. pose proof (trig x) as H. set (s := osin O x) in *. set (c := ocos O x) in *. clearbody s c.
    split; [unfold m3orth; ext_rec; cbv_sc; nz | cbv_sc; nz]. Qed.
  Lemma rot_axis_rot x a : v3norm2 O a = t1 -> m3rot O (rot_axis O (osin O x) (ocos O x) a).
  Proof.
    intro Ha. pose proof (trig x) as H. set (s := osin O x) in *. set (c := ocos O x) in *. clearbody s c.
    destruct a as [ax ay az]. cbv_sc_all.
    split; [unfold m3orth; ext_rec; cbv_sc; nz | cbv_sc; nz].
  Qed.

  (* ---- poses in 3-D terms ---- *)
  (* the joint's own motion: rotation (child -> parent) and translation, read off X_J *)
  Definition joint_R (M : Model) q i : M3 T := m3T (stE (joint_XJ O M q i)).
  Definition joint_d (M : Model) q i : V3 T := str (joint_XJ O M q i).
  (* pose recursion from the base outward: (R_i : body -> base, p_i : origin) *)
  Fixpoint poseFf (M : Model) (q : list T) (fuel i : nat) : M3 T * V3 T :=
    match fuel with
    | 0 => (m3id O, v3zero O)
    | S f =>
      let '(Rp, pp) := if Nat.eqb (getlam M i) 0 then (m3id O, v3zero O) else poseFf M q f (getlam M i) in
      let XT := getXT O M i in
      let Rf := m3mul O Rp (m3T (stE XT)) in                 (* joint frame *)
      (m3mul O Rf (joint_R M q i),
       v3add O pp (m3v O Rp (v3add O (str XT) (m3v O (m3T (stE XT)) (joint_d M q i)))))
    end.
  Definition poseF (M : Model) q i := poseFf M q i i.

  Lemma XbFf_pose (M : Model) q : WF M -> forall f i, 0 < i < nbodies M -> i <= f ->
    XbFf O M q f i = mkST (m3T (fst (poseFf M q f i))) (snd (poseFf M q f i)).
  Proof.
    intro W. induction f as [|f IH]; intros i [Hi Hn] Hf; [lia|].
    cbn [XbFf poseFf]. unfold XlF. 
    destruct (Nat.eqb (getlam M i) 0) eqn:E.
    - unfold joint_R, joint_d. destruct (joint_XJ O M q i) as [EJ rJ], (getXT O M i) as [ET rT].
      cbn [fst snd stE str]. destruct EJ, ET, rJ, rT. unfold st_mul; cbn [stE str]. ext_rec; cbv_sc; ring.
    - apply Nat.eqb_neq in E. pose proof (wf_parent M W i (conj Hi Hn)) as Hl. unfold getlam in *.
      rewrite IH by lia.
      destruct (poseFf M q f (nth i (lambda M) 0)) as [Rp pp]. cbn [fst snd].
      unfold joint_R, joint_d. destruct (joint_XJ O M q i) as [EJ rJ], (getXT O M i) as [ET rT].
      destruct EJ, ET, rJ, rT, Rp, pp. unfold st_mul; cbn [stE str]. ext_rec; cbv_sc; ring.
  Qed.

  (* X_base[i] after the position update is the pose *)
  Theorem xbase_is_pose (M : Model) (w : WS) q i : WF M -> ws_len w (nbodies M) -> 0 < i < nbodies M ->
    gXb O (ukc_q O M w q) i = mkST (m3T (fst (poseF M q i))) (snd (poseF M q i)).
  Proof.
    intros W L Hi. rewrite (proj2 (ukc_q_spec O M w q W L) i Hi). unfold XbF, poseF.
    apply XbFf_pose; auto.
  Qed.

  (* body-to-base coordinates of a movable body: p_i + R_i pt *)
  Theorem b2b_movable (M : Model) (w : WS) q (id : N) pt : WF M -> ws_len w (nbodies M) ->
    (id < fixed_disc)%N -> 0 < N.to_nat id < nbodies M ->
    snd (calc_b2b O M w q id pt true) =
    v3add O (snd (poseF M q (N.to_nat id))) (m3v O (fst (poseF M q (N.to_nat id))) pt).
  Proof.
    intros W L Hid Hi. unfold calc_b2b, b2b; cbn [snd].
    apply N.leb_gt in Hid. rewrite Hid. rewrite (xbase_is_pose M w q _ W L Hi). cbn [stE str].
    rewrite m3Tv_T. reflexivity.
  Qed.
  Theorem orient_movable (M : Model) (w : WS) q (id : N) : WF M -> ws_len w (nbodies M) ->
    (id < fixed_disc)%N -> 0 < N.to_nat id < nbodies M ->
    snd (calc_orient O M w q id true) = m3T (fst (poseF M q (N.to_nat id))).
  Proof.
    intros W L Hid Hi. unfold calc_orient, world_orient; cbn [snd].
    apply N.leb_gt in Hid. rewrite Hid. rewrite (xbase_is_pose M w q _ W L Hi). reflexivity.
  Qed.
  (* a body attached by a fixed joint: the parent's pose composed with the stored transform *)
  Theorem b2b_fixed (M : Model) (w : WS) q (id : N) pt : WF M -> ws_len w (nbodies M) ->
    (fixed_disc <= id)%N -> 0 < fparent (getfixed O M (fidx id)) < nbodies M ->
    let f := getfixed O M (fidx id) in let P := poseF M q (fparent f) in
    snd (calc_b2b O M w q id pt true) =
    v3add O (snd P) (m3v O (fst P) (v3add O (str (fxf f)) (m3Tv O (stE (fxf f)) pt))).
  Proof.
    intros W L Hid Hi. cbv zeta. unfold calc_b2b, b2b; cbn [snd].
    apply N.leb_le in Hid. rewrite Hid. rewrite (xbase_is_pose M w q _ W L Hi). cbn [stE str].
    rewrite m3Tv_T. reflexivity.
  Qed.

  (* base-to-body inverts body-to-base when X_base is orthonormal *)
  Theorem base2b_b2b_movable (M : Model) (w : WS) (id : N) pt :
    (id < fixed_disc)%N -> m3orth O (stE (gXb O w (N.to_nat id))) ->
    base2b O M w id (b2b O M w id pt) = pt /\ b2b O M w id (base2b O M w id pt) = pt.
  Proof.
    intros Hid Ho. unfold base2b, b2b. apply N.leb_gt in Hid. rewrite Hid.
    pose proof (orth_eqs_of O _ Ho) as (A & B & C & D & F & G).
    pose proof (orth_eqs_of O _ (orth_T O _ Ho)) as (A' & B' & C' & D' & F' & G'). clear Ho.
    destruct (gXb O w (N.to_nat id)) as [E r]; destruct E, r, pt. cbv_sc_all.
    split; ext_rec; cbv_sc; nz.
  Qed.

  (* ---- rotations stay rotations ---- *)
  Definition joint_wf (M : Model) (q : list T) (i : nat) : Prop :=
    m3rot O (stE (getXT O M i)) /\
    match jkind (getJ M i) with
    | JRevolute | JHelical => v3norm2 O (svang (jaxis O M i)) = t1
    | JSpherical => qunit O (get_quat O M i q)
    | _ => True
    end.

  Lemma Xrot_E x a : stE (Xrot O x a) = rot_axis O (osin O x) (ocos O x) a. Proof. reflexivity. Qed.
  Lemma st_mul_E X Y : stE (st_mul O X Y) = m3mul O (stE X) (stE Y). Proof. reflexivity. Qed.

  (* the hand-expanded Euler ZYX matrix of the custom joint: equal to the product of three axis rotations *)
  Lemma cezyx_E_rot qq : m3rot O (stE (fst (fst (custom_lit O CEulerZYX qq [])))).
  Proof.
    assert (E : stE (fst (fst (custom_lit O CEulerZYX qq []))) =
                m3mul O (rotx O (osin O (vget t0 qq 2)) (ocos O (vget t0 qq 2)))
                  (m3mul O (roty O (osin O (vget t0 qq 1)) (ocos O (vget t0 qq 1)))
                           (rotz O (osin O (vget t0 qq 0)) (ocos O (vget t0 qq 0))))).
    { cbn. ext_rec; cbv_sc; ring. }
    rewrite E. repeat apply m3rot_mul; [apply rotx_rot|apply roty_rot|apply rotz_rot].
  Qed.

  Lemma joint_XJ_rot (M : Model) q i : joint_wf M q i -> m3rot O (stE (joint_XJ O M q i)).
  Proof.
    intros [_ Hk]. unfold joint_XJ, jcalc_XJ.
    destruct (jkind (getJ M i)) as [| | | | | | | | | | | | |c].
    14:{ destruct c; [apply rotx_rot | apply cezyx_E_rot |].
         cbn [custom_lit fst]. rewrite st_mul_E. cbn [stE Xtrans Xrotz]. apply m3rot_mul; [apply m3rot_id|apply rotz_rot]. }
    all: cbn [stE Xrotx Xroty Xrotz Xtrans]; rewrite ?st_mul_E; cbn [stE Xrotx Xroty Xrotz Xtrans Xrot stid];
      repeat apply m3rot_mul; try apply rotx_rot; try apply roty_rot; try apply rotz_rot; try apply m3rot_id;
      try (apply rot_axis_rot; exact Hk).
    (* spherical *) apply (qtoMatrix_rot O). exact Hk.
  Qed.

  Lemma poseFf_rot (M : Model) q : WF M -> (forall i, 0 < i < nbodies M -> joint_wf M q i) ->
    forall f i, 0 < i < nbodies M -> i <= f -> m3rot O (fst (poseFf M q f i)).
  Proof.
    intros W Hj. induction f as [|f IH]; intros i [Hi Hn] Hf; [lia|].
    cbn [poseFf].
    assert (Hp : m3rot O (fst (if Nat.eqb (getlam M i) 0 then (m3id O, v3zero O) else poseFf M q f (getlam M i)))).
    { destruct (Nat.eqb (getlam M i) 0) eqn:E; [apply m3rot_id|]. apply Nat.eqb_neq in E.
      pose proof (wf_parent M W i (conj Hi Hn)) as Hl. unfold getlam in *. apply IH; lia. }
    destruct (if Nat.eqb (getlam M i) 0 then (m3id O, v3zero O) else poseFf M q f (getlam M i)) as [Rp pp].
    cbn [fst] in *. destruct (Hj i (conj Hi Hn)) as [HT Hk].
    apply m3rot_mul; [apply m3rot_mul; [exact Hp | apply (rotT O); exact HT]|].
    unfold joint_R. apply (rotT O). apply joint_XJ_rot. split; assumption.
  Qed.

  (* the orientation returned for a movable body is a rotation matrix (orthonormal, det = 1) *)
  Theorem orient_is_rotation (M : Model) (w : WS) q (id : N) : WF M -> ws_len w (nbodies M) ->
    (forall i, 0 < i < nbodies M -> joint_wf M q i) ->
    (id < fixed_disc)%N -> 0 < N.to_nat id < nbodies M ->
    m3rot O (snd (calc_orient O M w q id true)).
  Proof.
    intros W L Hj Hid Hi. rewrite orient_movable by assumption.
    apply (rotT O). unfold poseF. apply poseFf_rot; auto.
  Qed.
End C04.
