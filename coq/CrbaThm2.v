(* C03: half qd^T H qd is the kinetic energy -- instantiation of CrbaThm.crba_energy for the workspace left by the
   position update, and identification with Utils::CalcKineticEnergy. *)
From Coq Require Import List Bool Arith NArith Lia Ring Field.
From RV Require Import Scalar Laws Tac LinAlg3 Spatial Quat SpatialLaws QuatLaws ListArr ListLemmas ModelDef JointDef KinDef LinDef DynDef ConsDef UtilDef
     Tree C14Thm WsLemmas KinThm KinThm2 C04Thm DynThm LinThm ConsThm JacThm JacThm2 JacThm3 DimThm EnergyThm SymThm QuadThm ComThm CrbaThm.
Import ListNotations.

Section Inst.
  Context {T : Type} (O : Ops T) {FL : FieldLaws O} {TL : TrigLaws O}.
  Add Field FlFcrba3 : (@fl_field T O FL).
  Local Notation t0 := (o0 O).
  Local Notation Model := (@Model T). Local Notation WS := (@WS T).
  Variable M : Model.
  Variable q : list T.
  Hypothesis W : WF M.
  Hypothesis cust_inj : forall i j, 0 < i < nbodies M -> 0 < j < nbodies M -> i <> j ->
    is_custom (jkind (getJ M i)) = true -> is_custom (jkind (getJ M j)) = true -> jcust (getJ M i) <> jcust (getJ M j).
  Hypothesis Hjw : forall i, 0 < i < nbodies M -> joint_wf O M q i.
  Variable qd : list T.
  Hypothesis Hqd : length qd = dof_count M.
  Let NB := nbodies M.
  Let n := dof_count M.

  (* the position update leaves the declared joint transforms in X_lambda *)
  Lemma ukc_q_Xl (w : WS) : ws_len w NB -> forall i, 0 < i < NB -> gXl O (ukc_q O M w q) i = XlF O M q i.
  Proof.
    intros Hlen. rewrite ukc_q_is_fold. unfold body_range.
    pose proof (wf_pos M W) as Hpos. fold NB in Hpos.
    pose proof (fold_iota_inv (ukc_q_step O M q)
      (fun w' k => ws_len w' NB /\ forall i, 0 < i < k -> i < NB -> gXl O w' i = XlF O M q i) (Nat.pred NB) 1 w) as K.
    replace (1 + Nat.pred NB) with NB in K by lia.
    destruct K as [_ K].
    - split; [exact Hlen|intros; lia].
    - intros w' k Hk [L I]. unfold ukc_q_step. cbv zeta.
      set (w1 := jcalc O M w' k q (vzeros t0 (q_size M))).
      assert (L1 : ws_len w1 NB) by (apply jcalc_len; exact L).
      split.
      + unfold ws_len in *. cbn [wXl wXb wv wa wc wvJ wcJ wS wf wpA wU wmS wmU wmDinv wmu wIc wIA wd wu wcS wcU wcDinv wcu JointDef.w_Xb].
        rewrite upd_length. exact L1.
      + intros i Hi Hn. unfold gXl. cbn [wXl JointDef.w_Xb]. fold (gXl O w1 i).
        destruct (Nat.eq_dec i k) as [->|ne].
        * apply (@jcalc_Xl T O FL); [destruct L as (L0 & _); rewrite L0; lia | apply (wf_kind M W); unfold NB in *; lia].
        * unfold w1, jcalc. rewrite (proj1 (jcalc_other O true M w' k q (vzeros t0 (q_size M)) i ne)). apply I; lia.
    - intros i Hi. apply K; lia.
  Qed.
  Lemma XlF_rot i : 0 < i < NB -> m3rot O (stE (XlF O M q i)).
  Proof.
    intros Hi. unfold XlF. cbn [st_mul stE]. apply (m3rot_mul O).
    - apply (joint_XJ_rot O M q i). apply Hjw. exact Hi.
    - exact (proj1 (Hjw i Hi)).
  Qed.

  Theorem crba_quadratic_form_is_twice_kinetic_energy (w0 : WS) : Good O M w0 ->
    let H := snd (crba O M (ukc_q O M w0 q) q (zerosM O n n) false) in
    odot O qd (mvmul O H qd) = bsum O (fun j => svdot O (vF O M q qd j) (rbi_mulv O (getI O M j) (vF O M q qd j))) NB.
  Proof.
    intros Hg. cbv zeta. rewrite (crba_false_phase2 O M).
    set (w := ukc_q O M w0 q).
    assert (Lw : ws_len w NB) by (apply (proj1 (ukc_q_spec O M w0 q W (proj1 Hg)))).
    assert (LIc : length (wIc w) = NB) by (unfold ws_len in Lw; decompose [and] Lw; assumption).
    change (fold_left (fun w1 i => w_Ic w1 (upd (wIc w1) i (getI O M i))) (body_range M) w) with (com_reset O M w).
    destruct (com_reset_spec O M W w LIc) as (L1 & G1 & X1).
    assert (SK : SameKin M w (com_reset O M w)).
    { unfold SameKin. repeat split; try exact L1; try exact X1;
        unfold com_reset; apply (fold_left_inv_eq (fun w' => _ w')); intros; reflexivity. }
    pose proof (crba_energy O M W qd Hqd (fun j => gXl O w j) (fun j => jS O M w j)
                  (w_Slen O M q W cust_inj w0 Hg)
                  (fun k Hk => eq_ind_r (fun X => m3rot O (stE X)) (XlF_rot k Hk) (ukc_q_Xl w0 (proj1 Hg) k Hk))
                  (vB O M q qd) eq_refl) as K.
    specialize (K (fun i Hi => eq_trans (w_Hv O M q W cust_inj qd Hqd w0 Hg i Hi)
                                 (f_equal (fun X => svadd O (st_apply O X (vB O M q qd (getlam M i)))
                                                       (cols_mulv O (jS O M w i) (qd_seg O M i qd)))
                                          (eq_sym (ukc_q_Xl w0 (proj1 Hg) i Hi))))).
    specialize (K w (fun j => eq_refl) (fun j => eq_refl) (zerosM O n n) (com_reset O M w) SK G1 (zerosM_wf O n)
                  (fun r s => mget_zeros O n n r s)).
    unfold Q in K. rewrite K. unfold energy. apply (bsum_ext O M). intros j Hj.
    unfold vB. destruct (Nat.eqb_spec j 0); [lia|reflexivity].
  Qed.

  Lemma fold_left_ext_in {A B} (f g : A -> B -> A) (l : list B) : forall a,
    (forall a b, In b l -> f a b = g a b) -> fold_left f l a = fold_left g l a.
  Proof.
    induction l as [|b l IH]; intros a E; cbn; [reflexivity|].
    rewrite (E a b (or_introl eq_refl)). apply IH. intros a' b' Hb. apply E. right. exact Hb.
  Qed.
  (* ... and Utils::CalcKineticEnergy (flag set, any workspace) returns half of it *)
  Theorem crba_half_quadratic_form_is_kinetic_energy (w0 w1 : WS) : Good O M w0 -> Good O M w1 ->
    let H := snd (crba O M (ukc_q O M w0 q) q (zerosM O n n) false) in
    omul O (ohalf O) (odot O qd (mvmul O H qd)) = snd (calc_kinetic_energy O M w1 q qd true).
  Proof.
    intros G0 G1. cbv zeta. rewrite (crba_quadratic_form_is_twice_kinetic_energy w0 G0).
    unfold calc_kinetic_energy. cbn [snd]. unfold update_kinematics_custom.
    destruct (ukc_qd_spec O M (ukc_q O M w1 q) q qd W (ukc_q_good O M w1 q W G1)) as (_ & _ & V).
    unfold bsum. rewrite <- (fsum_scale O). unfold fsum, body_range. fold NB.
    apply fold_left_ext_in. intros acc i Hi. apply in_iota in Hi. rewrite (V i ltac:(unfold NB in *; lia)). reflexivity.
  Qed.
End Inst.
