(* C03 equation of motion.  Proved: NonlinearEffects equals InverseDynamics at zero acceleration, joint by joint,
   for every well-formed tree, joint kind (incl. Euler / helical / custom first joints) and incoming workspaces;
   the dense solver used for H^-1 comparisons is correct (LinThm).  Symmetry / positive definiteness of H,
   H qdd + N = ID(qdd), M^-1 tau and the L^T L factorisation are decided by correspondence and the L3 oracle
   (H_spec from the first-principles inverse dynamics, residuals of the factorisation and of the solves). *)
From Coq Require Import List Arith.
From RV Require Import Scalar Laws LinAlg3 Spatial ListArr ModelDef JointDef KinDef LinDef DynDef ConsDef C14Thm WsLemmas KinThm DynThm NleThm C04Thm UtilDef EnergyThm SymThm CrbaThm CrbaThm2 CrbaThm3 IdLinThm.
Section P.
  Context {T : Type} (O : Ops T) {FL : FieldLaws O}.
  Theorem C03_nonlinear_effects_is_inverse_dynamics_at_zero_acceleration
    (M : @Model T) q qd (w1 w2 : @WS T) tau1 tau2 i : WF M ->
    (forall i j, 0 < i < nbodies M -> 0 < j < nbodies M -> i <> j ->
       is_custom (jkind (getJ M i)) = true -> is_custom (jkind (getJ M j)) = true -> jcust (getJ M i) <> jcust (getJ M j)) ->
    order_ok M = true ->
    Good O M w1 -> Good O M w2 -> dof_count M <= length tau1 -> dof_count M <= length tau2 -> 0 < i < nbodies M ->
    vslice (o0 O) (snd (nonlinear_effects O M w1 q qd tau1 None)) (jq (getJ M i)) (jdof (getJ M i)) =
    vslice (o0 O) (snd (inverse_dynamics O M w2 q qd (vzeros (o0 O) (dof_count M)) tau2 None)) (jq (getJ M i)) (jdof (getJ M i)).
  Proof.
    intros W C Ord. destruct (order_ok_spec O M Ord) as [Hc Hr].
    exact (nle_is_id_at_zero_acceleration O M q qd W C Hc Hr w1 w2 tau1 tau2 i).
  Qed.
  (* the outward passes of NonlinearEffects leave the same body velocities, accelerations, forces as RNEA at qdd = 0 *)
  Theorem C03_nonlinear_effects_outward_pass (M : @Model T) q qd (w : @WS T) : WF M ->
    (forall i j, 0 < i < nbodies M -> 0 < j < nbodies M -> i <> j ->
       is_custom (jkind (getJ M i)) = true -> is_custom (jkind (getJ M j)) = true -> jcust (getJ M i) <> jcust (getJ M j)) ->
    order_ok M = true -> Good O M w ->
    InvF O M q qd (vzeros (o0 O) (dof_count M))
      (fold_left (nle_step O M) (body_range M)
         (fold_left (fun w i => jcalc O M w i q qd) (tl (update_order M)) (nle_init O M w))) (nbodies M).
  Proof.
    intros W C Ord. destruct (order_ok_spec O M Ord) as [Hc Hr].
    exact (nle_forward_spec O M q qd W C Hc Hr w).
  Qed.
End P.
Section P2.
  Context {T : Type} (O : Ops T) {FL : FieldLaws O} {TL : TrigLaws O}.
  (* H is symmetric: every workspace whose motion subspaces have the joints' sizes ... *)
  Theorem C03_inertia_matrix_symmetric (M : @Model T) (w : @WS T) q : WF M ->
    (forall k, 0 < k < nbodies M -> length (jS O M w k) = jdof (getJ M k)) ->
    let n := dof_count M in
    forall i j, i < n -> j < n ->
      mget (o0 O) (snd (crba O M w q (zerosM O n n) false)) i j = mget (o0 O) (snd (crba O M w q (zerosM O n n) false)) j i.
  Proof. intros W HS. exact (crba_symmetric O M W w q HS). Qed.
  (* ... in particular the workspace left by the position update, from any well-formed workspace *)
  Theorem C03_inertia_matrix_symmetric_after_position_update (M : @Model T) (w0 : @WS T) q : WF M ->
    (forall i j, 0 < i < nbodies M -> 0 < j < nbodies M -> i <> j ->
       is_custom (jkind (getJ M i)) = true -> is_custom (jkind (getJ M j)) = true -> jcust (getJ M i) <> jcust (getJ M j)) ->
    Good O M w0 ->
    let n := dof_count M in
    forall i j, i < n -> j < n ->
      mget (o0 O) (snd (crba O M (ukc_q O M w0 q) q (zerosM O n n) false)) i j =
      mget (o0 O) (snd (crba O M (ukc_q O M w0 q) q (zerosM O n n) false)) j i.
  Proof. intros W C Hg. exact (crba_symmetric_after_position_update O M W C w0 q Hg). Qed.
  (* half qd^T H qd is the kinetic energy: for the matrix written by CompositeRigidBodyAlgorithm (flag cleared after
     the position update, from any well-formed workspace) and EVERY generalized velocity, the quadratic form is the
     sum over the bodies of v_i . (I_i v_i) with v the velocity recursion of C06 ... *)
  Theorem C03_inertia_matrix_quadratic_form_is_twice_kinetic_energy (M : @Model T) q qd (w0 : @WS T) : WF M ->
    (forall i j, 0 < i < nbodies M -> 0 < j < nbodies M -> i <> j ->
       is_custom (jkind (getJ M i)) = true -> is_custom (jkind (getJ M j)) = true -> jcust (getJ M i) <> jcust (getJ M j)) ->
    (forall i, 0 < i < nbodies M -> joint_wf O M q i) -> length qd = dof_count M -> Good O M w0 ->
    let n := dof_count M in
    let H := snd (crba O M (ukc_q O M w0 q) q (zerosM O n n) false) in
    odot O qd (mvmul O H qd) =
    ComThm.bsum O (fun j => svdot O (vF O M q qd j) (rbi_mulv O (getI O M j) (vF O M q qd j))) (nbodies M).
  Proof. intros W C J L G. exact (crba_quadratic_form_is_twice_kinetic_energy O M q W C J qd L w0 G). Qed.
  (* ... and half of it is what Utils::CalcKineticEnergy returns (flag set, any other well-formed workspace) *)
  Theorem C03_half_qd_H_qd_is_CalcKineticEnergy (M : @Model T) q qd (w0 w1 : @WS T) : WF M ->
    (forall i j, 0 < i < nbodies M -> 0 < j < nbodies M -> i <> j ->
       is_custom (jkind (getJ M i)) = true -> is_custom (jkind (getJ M j)) = true -> jcust (getJ M i) <> jcust (getJ M j)) ->
    (forall i, 0 < i < nbodies M -> joint_wf O M q i) -> length qd = dof_count M -> Good O M w0 -> Good O M w1 ->
    let n := dof_count M in
    let H := snd (crba O M (ukc_q O M w0 q) q (zerosM O n n) false) in
    omul O (ohalf O) (odot O qd (mvmul O H qd)) = snd (calc_kinetic_energy O M w1 q qd true).
  Proof. intros W C J L G0 G1. exact (crba_half_quadratic_form_is_kinetic_energy O M q W C J qd L w0 w1 G0 G1). Qed.
  (* H = sum over the bodies of J_i^T I_i J_i, in bilinear form: for all generalized velocities x, y
        x^T H y = sum_i v_i(x) . (I_i v_i(y)),
     where v_i(x) is the body velocity generated by x -- by C05_spatial_jacobian_times_qdot_is_body_velocity exactly
     what the body spatial Jacobian maps x to: mvmul (G_i(q)) x = svlist (v_i(x)).  (Polarisation of the quadratic
     statement with the symmetry of H; needs 1 + 1 <> 0 in the scalar field.) *)
  Theorem C03_inertia_matrix_is_sum_of_JT_I_J (M : @Model T) q (w0 : @WS T) (x y : list T) : WF M ->
    (forall i j, 0 < i < nbodies M -> 0 < j < nbodies M -> i <> j ->
       is_custom (jkind (getJ M i)) = true -> is_custom (jkind (getJ M j)) = true -> jcust (getJ M i) <> jcust (getJ M j)) ->
    (forall i, 0 < i < nbodies M -> joint_wf O M q i) -> o2 O <> o0 O -> Good O M w0 ->
    length x = dof_count M -> length y = dof_count M ->
    let n := dof_count M in
    let H := snd (crba O M (ukc_q O M w0 q) q (zerosM O n n) false) in
    odot O x (mvmul O H y) =
    ComThm.bsum O (fun j => svdot O (vF O M q x j) (rbi_mulv O (getI O M j) (vF O M q y j))) (nbodies M).
  Proof. intros W C J N2 G. exact (inertia_matrix_is_sum_JT_I_J O M q W C J N2 w0 G x y). Qed.
  (* tau = H qdd + N: inverse dynamics is affine in qddot with linear part H, component by component -- for any
     three well-formed workspaces (the one CRBA runs on after the position update, and those of the two inverse
     dynamics calls).  ID(q, qd, 0) is the bias vector N by C03_nonlinear_effects_is_inverse_dynamics_at_zero_
     acceleration.  Premises beyond WF: massless virtual bodies and an empty root joint (true of constructed models),
     1 + 1 <> 0, joint frames are rotations. *)
  Theorem C03_inverse_dynamics_is_H_qddot_plus_bias (M : @Model T) q qd qdd (w0 w1 w2 : @WS T) : WF M ->
    (forall i j, 0 < i < nbodies M -> 0 < j < nbodies M -> i <> j ->
       is_custom (jkind (getJ M i)) = true -> is_custom (jkind (getJ M j)) = true -> jcust (getJ M i) <> jcust (getJ M j)) ->
    (forall i u, 0 < i < nbodies M -> bvirtual (getbody O M i) = true -> rbi_mulv O (getI O M i) u = svzero O) ->
    jq (getJ M 0) + jdof (getJ M 0) = 0 ->
    (forall i, 0 < i < nbodies M -> joint_wf O M q i) -> o2 O <> o0 O ->
    Good O M w0 -> Good O M w1 -> Good O M w2 -> length qdd = dof_count M ->
    let n := dof_count M in
    let z := vzeros (o0 O) n in
    let H := snd (crba O M (ukc_q O M w0 q) q (zerosM O n n) false) in
    forall r, r < n ->
      nth r (snd (inverse_dynamics O M w1 q qd qdd z None)) (o0 O) =
      oadd O (nth r (snd (inverse_dynamics O M w2 q qd z z None)) (o0 O)) (nth r (mvmul O H qdd) (o0 O)).
  Proof. intros W C V R J N2 G0 G1 G2 L. exact (id_affine_in_qddot O M q qd W C V R J N2 w0 w1 w2 qdd G0 G1 G2 L). Qed.
  (* ... and with NonlinearEffects itself: tau = H qdd + N for every qddot, literally *)
  Theorem C03_inverse_dynamics_is_H_qddot_plus_nonlinear_effects (M : @Model T) q qd qdd (w0 w1 w2 : @WS T) : WF M ->
    (forall i j, 0 < i < nbodies M -> 0 < j < nbodies M -> i <> j ->
       is_custom (jkind (getJ M i)) = true -> is_custom (jkind (getJ M j)) = true -> jcust (getJ M i) <> jcust (getJ M j)) ->
    (forall i u, 0 < i < nbodies M -> bvirtual (getbody O M i) = true -> rbi_mulv O (getI O M i) u = svzero O) ->
    jq (getJ M 0) + jdof (getJ M 0) = 0 ->
    (forall i, 0 < i < nbodies M -> joint_wf O M q i) -> o2 O <> o0 O -> order_ok M = true ->
    Good O M w0 -> Good O M w1 -> Good O M w2 -> length qdd = dof_count M ->
    let n := dof_count M in
    let z := vzeros (o0 O) n in
    let H := snd (crba O M (ukc_q O M w0 q) q (zerosM O n n) false) in
    forall r, r < n ->
      nth r (snd (inverse_dynamics O M w1 q qd qdd z None)) (o0 O) =
      oadd O (nth r (snd (nonlinear_effects O M w2 q qd z None)) (o0 O)) (nth r (mvmul O H qdd) (o0 O)).
  Proof. intros W C V R J N2 Ord G0 G1 G2 L. exact (id_is_H_qddot_plus_nle O M q qd W C V R J N2 w0 w1 w2 qdd Ord G0 G1 G2 L). Qed.
End P2.
Print Assumptions C03_nonlinear_effects_is_inverse_dynamics_at_zero_acceleration.
Print Assumptions C03_nonlinear_effects_outward_pass.
Print Assumptions C03_inertia_matrix_symmetric.
Print Assumptions C03_inertia_matrix_symmetric_after_position_update.
Print Assumptions C03_inertia_matrix_quadratic_form_is_twice_kinetic_energy.
Print Assumptions C03_half_qd_H_qd_is_CalcKineticEnergy.
Print Assumptions C03_inertia_matrix_is_sum_of_JT_I_J.
Print Assumptions C03_inverse_dynamics_is_H_qddot_plus_bias.
Print Assumptions C03_inverse_dynamics_is_H_qddot_plus_nonlinear_effects.
