(* C03 equation of motion.  Proved: NonlinearEffects equals InverseDynamics at zero acceleration, joint by joint,
   for every well-formed tree, joint kind (incl. Euler / helical / custom first joints) and incoming workspaces;
   the dense solver used for H^-1 comparisons is correct (LinThm).  Symmetry / positive definiteness of H,
   H qdd + N = ID(qdd), M^-1 tau and the L^T L factorisation are decided by correspondence and the L3 oracle
   (H_spec from the first-principles inverse dynamics, residuals of the factorisation and of the solves). *)
From Coq Require Import List Arith.
From RV Require Import Scalar Laws ListArr ModelDef JointDef KinDef LinDef DynDef C14Thm WsLemmas KinThm DynThm NleThm.
Section P.
  Context {T : Type} (O : Ops T) {FL : FieldLaws O}.
  Theorem C03_nonlinear_effects_is_inverse_dynamics_at_zero_acceleration
    (M : @Model T) q qd (w1 w2 : @WS T) tau1 tau2 i : WF M ->
    (forall i j, 0 < i < nbodies M -> 0 < j < nbodies M -> i <> j ->
       is_custom (jkind (getJ M i)) = true -> is_custom (jkind (getJ M j)) = true -> jcust (getJ M i) <> jcust (getJ M j)) ->
    order_ok M = true ->
    Good O M w1 -> Good O M w2 -> dof_count M <= length tau1 -> dof_count M <= length tau2 -> 0 < i < nbodies M ->
    vslice (o0 O) (snd (nonlinear_effects O M w1 q qd tau1 None)) (jq (getJ M i)) (jdof (getJ M i)) =
    vslice (o0 O) (snd (inverse_dynamics O M w2 q qd (vzeros (o0 O) (dof_count M)) tau2 None)) (jq (getJ M i)) (jdof (getJ M i)).
  Proof.
    intros W C Ord. destruct (order_ok_spec O M Ord) as [Hc Hr].
    exact (nle_is_id_at_zero_acceleration O M q qd W C Hc Hr w1 w2 tau1 tau2 i).
  Qed.
  (* the outward passes of NonlinearEffects leave the same body velocities, accelerations, forces as RNEA at qdd = 0 *)
  Theorem C03_nonlinear_effects_outward_pass (M : @Model T) q qd (w : @WS T) : WF M ->
    (forall i j, 0 < i < nbodies M -> 0 < j < nbodies M -> i <> j ->
       is_custom (jkind (getJ M i)) = true -> is_custom (jkind (getJ M j)) = true -> jcust (getJ M i) <> jcust (getJ M j)) ->
    order_ok M = true -> Good O M w ->
    InvF O M q qd (vzeros (o0 O) (dof_count M))
      (fold_left (nle_step O M) (body_range M)
         (fold_left (fun w i => jcalc O M w i q qd) (tl (update_order M)) (nle_init O M w))) (nbodies M).
  Proof.
    intros W C Ord. destruct (order_ok_spec O M Ord) as [Hc Hr].
    exact (nle_forward_spec O M q qd W C Hc Hr w).
  Qed.
End P.
Print Assumptions C03_nonlinear_effects_is_inverse_dynamics_at_zero_acceleration.
Print Assumptions C03_nonlinear_effects_outward_pass.
