(* C12: whole-body momentum of CalcCenterOfMass after UpdateKinematics (flag cleared): the accumulated spatial
   momentum and its rate are the sums of the bodies' momenta  I_j v_j  and  I_j a_j + v_j x* I_j v_j  (v, a the
   recursions of C06) transposed to base coordinates; the centre-of-mass velocity is the linear part over the mass. *)
From Coq Require Import List Bool Arith NArith Lia Ring Field.
From RV Require Import Scalar Laws Tac LinAlg3 Spatial Quat SpatialLaws QuatLaws ListArr ListLemmas ModelDef JointDef KinDef LinDef LinThm DynDef UtilDef
     Tree C14Thm WsLemmas KinThm KinThm2 C04Thm DynThm KinThm3 JacThm JacThm2 JacThm3 ComThm ComThm2.
Import ListNotations.

Section Com3.
  Context {T : Type} (O : Ops T) {FL : FieldLaws O} {TL : TrigLaws O}.
  Add Field FlFcom3 : (@fl_field T O FL).
  Local Notation t0 := (o0 O).
  Local Notation Model := (@Model T). Local Notation WS := (@WS T).
  Variable M : Model.
  Variables q qd qdd : list T.
  Hypothesis W : WF M.
  Hypothesis cust_inj : forall i j, 0 < i < nbodies M -> 0 < j < nbodies M -> i <> j ->
    is_custom (jkind (getJ M i)) = true -> is_custom (jkind (getJ M j)) = true -> jcust (getJ M i) <> jcust (getJ M j).
  Hypothesis Hjw : forall i, 0 < i < nbodies M -> joint_wf O M q i.
  Let NB := nbodies M.

  Definition hF (j : nat) : SV T := rbi_mulv O (getI O M j) (vF O M q qd j).
  Definition hdF (j : nat) : SV T :=
    svadd O (rbi_mulv O (getI O M j) (aU O M q qd qdd j)) (crossf O (vF O M q qd j) (rbi_mulv O (getI O M j) (vF O M q qd j))).

  Theorem whole_body_momentum (pr : SV T -> T) (pr_add : forall a b, pr (svadd O a b) = oadd O (pr a) (pr b))
          (pr_0 : pr (svzero O) = t0) (w0 : WS) : Good O M w0 ->
    let w := update_kinematics O M w0 q qd qdd in
    let r := com_sweep O M w in
    pr (snd (fst r)) = bsum O (fun j => pr (st_applyT O (XbF O M q j) (hF j))) NB /\
    pr (snd r) = bsum O (fun j => pr (st_applyT O (XbF O M q j) (hdF j))) NB.
  Proof.
    intros Hg. cbv zeta.
    pose proof (uk_good O M q qd qdd W w0 Hg) as Gw.
    pose proof (uk_a_spec O M q qd qdd W cust_inj w0 Hg) as S. cbv zeta in S.
    set (w := update_kinematics O M w0 q qd qdd) in *.
    assert (HX : forall i, 0 < i < NB -> Chain O M w i).
    { intros i Hi. destruct (S i Hi) as (_ & _ & _ & Xb & Xl). unfold Chain. rewrite Xb, Xl.
      rewrite (XbF_unfold O M q i W Hi).
      destruct (Nat.eqb_spec (getlam M i) 0); [reflexivity|].
      pose proof (wf_parent M W i Hi) as Hl. fold (getlam M i) in Hl.
      destruct (S (getlam M i) ltac:(unfold NB in *; lia)) as (_ & _ & _ & Xbl & _). rewrite Xbl. reflexivity. }
    assert (HR : forall i, 0 < i < NB -> m3rot O (stE (gXb O w i))).
    { intros i Hi. destruct (S i Hi) as (_ & _ & _ & Xb & _). rewrite Xb.
      rewrite <- (w_Xb O M q W w0 Hg i Hi).
      apply (w_rot O M q W (vzeros t0 (dof_count M)) (vzeros_length _ _) Hjw w0 Hg i Hi). }
    destruct (com_sweep_momentum O M W pr pr_add pr_0 w (proj1 Gw) HX HR) as [A B].
    split.
    - rewrite A. apply (bsum_ext O M). intros j Hj. destruct (S j ltac:(unfold NB in *; lia)) as (V & _ & _ & Xb & _).
      unfold body_h, hF. rewrite Xb, V. reflexivity.
    - rewrite B. apply (bsum_ext O M). intros j Hj. destruct (S j ltac:(unfold NB in *; lia)) as (V & _ & Ac & Xb & _).
      unfold body_hd, hdF. rewrite Xb, V, Ac. reflexivity.
  Qed.
End Com3.
