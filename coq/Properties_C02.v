(* C02 forward dynamics inverts inverse dynamics.  Proved here: the matrix-based (Lagrangian) route returns
   the unique qdd with H qdd + C = tau, where C is inverse dynamics at zero acceleration and H the CRBA matrix,
   for every linear-solver choice that returns a solution of the system (uniqueness); and that acceleration put back
   into InverseDynamics (from any well-formed workspace) returns tau component by component -- forward dynamics by
   the Lagrangian route inverts inverse dynamics (f_ext = NULL).  That the articulated-body routine and
   M^-1 (tau - N) do the same is decided by the residual oracle. *)
From Coq Require Import List.
From RV Require Import Scalar Laws LinAlg3 Spatial ListArr LinDef LinThm ModelDef JointDef KinDef DynDef ConsDef ConsThm DimThm C14Thm KinThm C04Thm FdlThm.
Import ListNotations.
Section P.
  Context {T : Type} (O : Ops T) {FL : FieldLaws O}.
  Hypothesis oeqb_spec : forall x y : T, oeqb O x y = true <-> x = y.
  Theorem C02_lagrangian_route_solves_equation_of_motion (M : @Model T) (w : @WS T) q qd tau fext w' qdd Hm C :
    forward_dynamics_lagrangian O M w q qd tau fext = (w', Some qdd, Hm, C) ->
    WFm (dof_count M) Hm -> length C = dof_count M -> length tau = dof_count M ->
    vadd O (mvmul O Hm qdd) C = tau.
  Proof. exact (fd_lagrangian_solves O oeqb_spec M w q qd tau fext w' qdd Hm C). Qed.
  (* whatever a linear solver returns, if it solves H x = tau - C it is the model's qdd: the solver choices agree *)
  Theorem C02_linear_solvers_agree n A b x y : WFm n A -> length b = n -> solve_pp O A b = Some x ->
    length y = n -> mvmul O A y = b -> y = x.
  Proof.
    intros WA Lb S Ly E. apply (solve_pp_unique O oeqb_spec n A b x y WA Lb S Ly).
    apply (Sol_mvmul O n A b y (proj1 WA) Lb). exact E.
  Qed.
  Theorem C02_lagrangian_route_solves_equation_of_motion_any_model (M : @Model T) (w : @WS T) q qd tau fext w' qdd Hm C :
    length tau = dof_count M ->
    forward_dynamics_lagrangian O M w q qd tau fext = (w', Some qdd, Hm, C) ->
    vadd O (mvmul O Hm qdd) C = tau.
  Proof. exact (fd_lagrangian_solves_sized O oeqb_spec M w q qd tau fext w' qdd Hm C). Qed.
End P.
Section P2.
  Context {T : Type} (O : Ops T) {FL : FieldLaws O} {TL : TrigLaws O}.
  Hypothesis oeqb_spec : forall x y : T, oeqb O x y = true <-> x = y.
  Theorem C02_lagrangian_forward_dynamics_inverts_inverse_dynamics
    (M : @Model T) q qd (w0 w1 : @WS T) (tau : list T) w' qdd H C : WF M ->
    (forall i j, 0 < i < nbodies M -> 0 < j < nbodies M -> i <> j ->
       is_custom (jkind (getJ M i)) = true -> is_custom (jkind (getJ M j)) = true -> jcust (getJ M i) <> jcust (getJ M j)) ->
    (forall i u, 0 < i < nbodies M -> bvirtual (getbody O M i) = true -> rbi_mulv O (getI O M i) u = svzero O) ->
    jq (getJ M 0) + jdof (getJ M 0) = 0 ->
    (forall i, 0 < i < nbodies M -> joint_wf O M q i) -> o2 O <> o0 O ->
    Good O M w0 -> Good O M w1 -> length tau = dof_count M ->
    forward_dynamics_lagrangian O M w0 q qd tau None = (w', Some qdd, H, C) ->
    forall r, r < dof_count M ->
      nth r (snd (inverse_dynamics O M w1 q qd qdd (vzeros (o0 O) (dof_count M)) None)) (o0 O) = nth r tau (o0 O).
  Proof.
    intros W Cj V R J N2 G0 G1 L E.
    exact (fdl_inverts_inverse_dynamics O oeqb_spec M q qd W Cj V R J N2 w0 w1 tau w' qdd H C G0 G1 L E).
  Qed.
End P2.
Print Assumptions C02_lagrangian_route_solves_equation_of_motion.
Print Assumptions C02_linear_solvers_agree.
Print Assumptions C02_lagrangian_route_solves_equation_of_motion_any_model.
Print Assumptions C02_lagrangian_forward_dynamics_inverts_inverse_dynamics.
