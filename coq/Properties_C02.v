(* C02 forward dynamics inverts inverse dynamics.  Proved here: the matrix-based (Lagrangian) route returns
   the unique qdd with H qdd + C = tau, where C is inverse dynamics at zero acceleration and H the CRBA matrix,
   for every linear-solver choice that returns a solution of the system (uniqueness).  That the articulated-body
   routine and M^-1 (tau - N) reproduce tau through InverseDynamics is decided by the residual oracle. *)
From Coq Require Import List.
From RV Require Import Scalar Laws ListArr LinDef LinThm ModelDef DynDef ConsDef ConsThm DimThm.
Import ListNotations.
Section P.
  Context {T : Type} (O : Ops T) {FL : FieldLaws O}.
  Hypothesis oeqb_spec : forall x y : T, oeqb O x y = true <-> x = y.
  Theorem C02_lagrangian_route_solves_equation_of_motion (M : @Model T) (w : @WS T) q qd tau fext w' qdd Hm C :
    forward_dynamics_lagrangian O M w q qd tau fext = (w', Some qdd, Hm, C) ->
    WFm (dof_count M) Hm -> length C = dof_count M -> length tau = dof_count M ->
    vadd O (mvmul O Hm qdd) C = tau.
  Proof. exact (fd_lagrangian_solves O oeqb_spec M w q qd tau fext w' qdd Hm C). Qed.
  (* whatever a linear solver returns, if it solves H x = tau - C it is the model's qdd: the solver choices agree *)
  Theorem C02_linear_solvers_agree n A b x y : WFm n A -> length b = n -> solve_pp O A b = Some x ->
    length y = n -> mvmul O A y = b -> y = x.
  Proof.
    intros WA Lb S Ly E. apply (solve_pp_unique O oeqb_spec n A b x y WA Lb S Ly).
    apply (Sol_mvmul O n A b y (proj1 WA) Lb). exact E.
  Qed.
  Theorem C02_lagrangian_route_solves_equation_of_motion_any_model (M : @Model T) (w : @WS T) q qd tau fext w' qdd Hm C :
    length tau = dof_count M ->
    forward_dynamics_lagrangian O M w q qd tau fext = (w', Some qdd, Hm, C) ->
    vadd O (mvmul O Hm qdd) C = tau.
  Proof. exact (fd_lagrangian_solves_sized O oeqb_spec M w q qd tau fext w' qdd Hm C). Qed.
End P.
Print Assumptions C02_lagrangian_route_solves_equation_of_motion.
Print Assumptions C02_linear_solvers_agree.
Print Assumptions C02_lagrangian_route_solves_equation_of_motion_any_model.
