(* L1: fixed-size linear algebra: 3-vectors, 3x3 matrices. *)
From Coq Require Import List Bool.
From RV Require Import Scalar.
Import ListNotations.

Section LA3.
  Context {T : Type} (O : Ops T).
  Local Notation "0" := (o0 O). Local Notation "1" := (o1 O).
  Local Infix "+" := (oadd O). Local Infix "*" := (omul O). Local Infix "-" := (osub O).
  Local Notation "- x" := (oopp O x).

  Record V3 : Type := mkV3 { vx : T; vy : T; vz : T }.
  Record M3 : Type := mkM3 { m00 : T; m01 : T; m02 : T;
                             m10 : T; m11 : T; m12 : T;
                             m20 : T; m21 : T; m22 : T }.

  Definition v3zero : V3 := mkV3 0 0 0.
  Definition v3add (a b : V3) := mkV3 (vx a + vx b) (vy a + vy b) (vz a + vz b).
  Definition v3sub (a b : V3) := mkV3 (vx a - vx b) (vy a - vy b) (vz a - vz b).
  Definition v3opp (a : V3) := mkV3 (- vx a) (- vy a) (- vz a).
  Definition v3scale (s : T) (a : V3) := mkV3 (s * vx a) (s * vy a) (s * vz a).
  Definition v3dot (a b : V3) : T := vx a * vx b + vy a * vy b + vz a * vz b.
  Definition v3cross (a b : V3) : V3 :=
    mkV3 (vy a * vz b - vz a * vy b) (vz a * vx b - vx a * vz b) (vx a * vy b - vy a * vx b).
  Definition v3nth (a : V3) (k : nat) : T := match k with 0 => vx a | 1 => vy a | _ => vz a end.
  Definition v3norm2 (a : V3) : T := v3dot a a.
  Definition v3norm (a : V3) : T := osqrt O (v3norm2 a).
  Definition v3list (a : V3) : list T := [vx a; vy a; vz a].
  Definition v3of (l : list T) : V3 := mkV3 (nth 0 l 0) (nth 1 l 0) (nth 2 l 0).

  Definition m3zero : M3 := mkM3 0 0 0 0 0 0 0 0 0.
  Definition m3id : M3 := mkM3 1 0 0 0 1 0 0 0 1.
  Definition m3add (a b : M3) : M3 :=
    mkM3 (m00 a + m00 b) (m01 a + m01 b) (m02 a + m02 b)
         (m10 a + m10 b) (m11 a + m11 b) (m12 a + m12 b)
         (m20 a + m20 b) (m21 a + m21 b) (m22 a + m22 b).
  Definition m3sub (a b : M3) : M3 :=
    mkM3 (m00 a - m00 b) (m01 a - m01 b) (m02 a - m02 b)
         (m10 a - m10 b) (m11 a - m11 b) (m12 a - m12 b)
         (m20 a - m20 b) (m21 a - m21 b) (m22 a - m22 b).
  Definition m3opp (a : M3) : M3 :=
    mkM3 (- m00 a) (- m01 a) (- m02 a) (- m10 a) (- m11 a) (- m12 a) (- m20 a) (- m21 a) (- m22 a).
  Definition m3scale (s : T) (a : M3) : M3 :=
    mkM3 (s * m00 a) (s * m01 a) (s * m02 a) (s * m10 a) (s * m11 a) (s * m12 a)
         (s * m20 a) (s * m21 a) (s * m22 a).
  Definition m3T (a : M3) : M3 :=
    mkM3 (m00 a) (m10 a) (m20 a) (m01 a) (m11 a) (m21 a) (m02 a) (m12 a) (m22 a).
  Definition m3mul (a b : M3) : M3 :=
    mkM3 (m00 a * m00 b + m01 a * m10 b + m02 a * m20 b)
         (m00 a * m01 b + m01 a * m11 b + m02 a * m21 b)
         (m00 a * m02 b + m01 a * m12 b + m02 a * m22 b)
         (m10 a * m00 b + m11 a * m10 b + m12 a * m20 b)
         (m10 a * m01 b + m11 a * m11 b + m12 a * m21 b)
         (m10 a * m02 b + m11 a * m12 b + m12 a * m22 b)
         (m20 a * m00 b + m21 a * m10 b + m22 a * m20 b)
         (m20 a * m01 b + m21 a * m11 b + m22 a * m21 b)
         (m20 a * m02 b + m21 a * m12 b + m22 a * m22 b).
  Definition m3v (a : M3) (v : V3) : V3 :=
    mkV3 (m00 a * vx v + m01 a * vy v + m02 a * vz v)
         (m10 a * vx v + m11 a * vy v + m12 a * vz v)
         (m20 a * vx v + m21 a * vy v + m22 a * vz v).
  (* a^T v *)
  Definition m3Tv (a : M3) (v : V3) : V3 :=
    mkV3 (m00 a * vx v + m10 a * vy v + m20 a * vz v)
         (m01 a * vx v + m11 a * vy v + m21 a * vz v)
         (m02 a * vx v + m12 a * vy v + m22 a * vz v).
  (* VectorCrossMatrix *)
  Definition v3crossm (v : V3) : M3 :=
    mkM3 0 (- vz v) (vy v)
         (vz v) 0 (- vx v)
         (- vy v) (vx v) 0.
  Definition m3row (a : M3) (k : nat) : V3 :=
    match k with 0 => mkV3 (m00 a) (m01 a) (m02 a) | 1 => mkV3 (m10 a) (m11 a) (m12 a)
               | _ => mkV3 (m20 a) (m21 a) (m22 a) end.
  Definition m3col (a : M3) (k : nat) : V3 := m3row (m3T a) k.
  Definition m3get (a : M3) (i j : nat) : T := v3nth (m3row a i) j.
  Definition m3ofcols (a b c : V3) : M3 :=
    mkM3 (vx a) (vx b) (vx c) (vy a) (vy b) (vy c) (vz a) (vz b) (vz c).
  Definition m3ofrows (a b c : V3) : M3 :=
    mkM3 (vx a) (vy a) (vz a) (vx b) (vy b) (vz b) (vx c) (vy c) (vz c).
  Definition m3trace (a : M3) : T := m00 a + m11 a + m22 a.
  Definition m3det (a : M3) : T :=
    m00 a * (m11 a * m22 a - m12 a * m21 a)
    - m01 a * (m10 a * m22 a - m12 a * m20 a)
    + m02 a * (m10 a * m21 a - m11 a * m20 a).
  Definition m3outer (a b : V3) : M3 :=
    mkM3 (vx a * vx b) (vx a * vy b) (vx a * vz b)
         (vy a * vx b) (vy a * vy b) (vy a * vz b)
         (vz a * vx b) (vz a * vy b) (vz a * vz b).
  Definition m3list (a : M3) : list T :=
    [m00 a; m01 a; m02 a; m10 a; m11 a; m12 a; m20 a; m21 a; m22 a].

  (* orthonormality as nine equations (premise of many theorems) *)
  Definition m3orth (E : M3) : Prop := m3mul E (m3T E) = m3id.
  Definition m3rot (E : M3) : Prop := m3orth E /\ m3det E = 1.
End LA3.

Arguments V3 : clear implicits. Arguments M3 : clear implicits.
Arguments mkV3 {T}. Arguments mkM3 {T}.
Arguments vx {T}. Arguments vy {T}. Arguments vz {T}.
Arguments m00 {T}. Arguments m01 {T}. Arguments m02 {T}.
Arguments m10 {T}. Arguments m11 {T}. Arguments m12 {T}.
Arguments m20 {T}. Arguments m21 {T}. Arguments m22 {T}.
