(* C10 constraint impulses: G qd+ = v+, H (qd+ - qd-) + G^T Lambda = 0 (written H qd+ + G^T Lambda = H qd-),
   uniqueness (the three methods agree), and a feasible pre-impact velocity is returned unchanged. *)
From Coq Require Import List.
From RV Require Import Scalar Laws ListArr LinDef LinThm ModelDef KinDef DynDef ConsDef ConsThm C14Thm DimThm KinThm JointDef EnergyThm SymThm.
Import ListNotations.
Section P.
  Context {T : Type} (O : Ops T) {FL : FieldLaws O}.
  Hypothesis oeqb_spec : forall x y : T, oeqb O x y = true <-> x = y.
  Theorem C10_impulse_equations (M : @Model T) (w : @WS T) q qdm cs vplus w' qdp Lam Hm G :
    constraint_impulses O M w q qdm cs vplus = (w', Some (qdp, Lam)) ->
    let n := dof_count M in let m := length cs in
    Hm = snd (crba O M (ukc_q O M w q) q (zerosM O n n) false) ->
    G = cons_G O M (fst (crba O M (ukc_q O M w q) q (zerosM O n n) false)) cs ->
    WFm n Hm -> (forall k, k < m -> length (nth k G []) = n) -> length vplus = m ->
    vadd O (mvmul O Hm qdp) (mTvmul O G n Lam) = mvmul O Hm qdm /\ mvmul O G qdp = vplus.
  Proof. exact (impulses_equations O oeqb_spec M w q qdm cs vplus w' qdp Lam Hm G). Qed.
  Theorem C10_feasible_velocity_unchanged (M : @Model T) (w : @WS T) q qdm cs vplus w' qdp Lam Hm G :
    constraint_impulses O M w q qdm cs vplus = (w', Some (qdp, Lam)) ->
    let n := dof_count M in let m := length cs in
    Hm = snd (crba O M (ukc_q O M w q) q (zerosM O n n) false) ->
    G = cons_G O M (fst (crba O M (ukc_q O M w q) q (zerosM O n n) false)) cs ->
    WFm n Hm -> (forall k, k < m -> length (nth k G []) = n) -> length vplus = m -> length qdm = n ->
    mvmul O G qdm = vplus -> qdp = qdm /\ Lam = vzeros (o0 O) m.
  Proof. exact (impulses_feasible_unchanged O oeqb_spec M w q qdm cs vplus w' qdp Lam Hm G). Qed.
  (* uniqueness of the KKT solution: every method returning a pair that satisfies the two equations returns this pair *)
  Theorem C10_methods_agree H G n m c gam u x u' x' :
    WFm n H -> length G = m -> (forall k, k < m -> length (nth k G []) = n) ->
    length c = n -> length gam = m -> kkt_solve O H G c gam n m = Some (u, x) ->
    length u' = n -> length x' = m -> KKTeq O H G n c gam u' x' -> u' = u /\ x' = x.
  Proof. intros WH LG LGr. exact (kkt_solve_unique O oeqb_spec H G n m WH LG LGr c gam u x u' x'). Qed.
  Theorem C10_impulse_equations_constructed_models (M : @Model T) (w : @WS T) q qdm cs vplus w' qdp Lam :
    WF M -> length vplus = length cs ->
    constraint_impulses O M w q qdm cs vplus = (w', Some (qdp, Lam)) ->
    let n := dof_count M in
    let Hm := snd (crba O M (ukc_q O M w q) q (zerosM O n n) false) in
    let G := cons_G O M (fst (crba O M (ukc_q O M w q) q (zerosM O n n) false)) cs in
    vadd O (mvmul O Hm qdp) (mTvmul O G n Lam) = mvmul O Hm qdm /\ mvmul O G qdp = vplus.
  Proof. intros W. exact (impulses_equations_sized O oeqb_spec M w q qdm cs vplus w' qdp Lam (wf_qdot M W)). Qed.
End P.
Section P2.
  Context {T : Type} (O : Ops T) {FL : FieldLaws O} {TL : TrigLaws O}.
  Hypothesis oeqb_spec : forall x y : T, oeqb O x y = true <-> x = y.
  (* With v+ = 0:  qd-^T H qd-  -  qd+^T H qd+  =  (qd- - qd+)^T H (qd- - qd+)  (Carnot): twice the kinetic energy lost
     is the quadratic form of the velocity jump, so the energy cannot increase for a positive semi-definite H. *)
  Theorem C10_energy_loss_is_energy_of_velocity_jump (M : @Model T) (w0 : @WS T) q qdm cs w' qdp Lam : WF M ->
    (forall i j, 0 < i < nbodies M -> 0 < j < nbodies M -> i <> j ->
       is_custom (jkind (getJ M i)) = true -> is_custom (jkind (getJ M j)) = true -> jcust (getJ M i) <> jcust (getJ M j)) ->
    Good O M w0 -> length qdm = dof_count M ->
    constraint_impulses O M w0 q qdm cs (vzeros (o0 O) (length cs)) = (w', Some (qdp, Lam)) ->
    let n := dof_count M in
    let Hm := snd (crba O M (ukc_q O M w0 q) q (zerosM O n n) false) in
    osub O (odot O qdm (mvmul O Hm qdm)) (odot O qdp (mvmul O Hm qdp)) =
    odot O (vsub O qdm qdp) (mvmul O Hm (vsub O qdm qdp)).
  Proof. intros W C. exact (impulse_energy_loss O oeqb_spec M W C w0 q qdm cs w' qdp Lam). Qed.
End P2.
Print Assumptions C10_impulse_equations.
Print Assumptions C10_feasible_velocity_unchanged.
Print Assumptions C10_methods_agree.
Print Assumptions C10_impulse_equations_constructed_models.
Print Assumptions C10_energy_loss_is_energy_of_velocity_jump.
