(* C12: the spatial momentum and momentum rate accumulated by CalcCenterOfMass equal the sums over the bodies of
   the body momenta I_j v_j (resp. I_j a_j + v_j x* I_j v_j) brought to base coordinates with X_base_j^T -- for
   every well-formed tree whose X_base are composed from the joint transforms and are rotations. *)
From Coq Require Import List Bool Arith NArith Lia Ring Field.
From RV Require Import Scalar Laws Tac LinAlg3 Spatial Quat SpatialLaws ListArr ListLemmas ModelDef JointDef KinDef LinDef LinThm DynDef UtilDef
     Tree C14Thm WsLemmas KinThm JacThm2 ComThm.
Import ListNotations.

Section Com2.
  Context {T : Type} (O : Ops T) {FL : FieldLaws O}.
  Add Field FlFcom2 : (@fl_field T O FL).
  Local Notation t0 := (o0 O).
  Local Notation Model := (@Model T). Local Notation WS := (@WS T).
  Variable M : Model.
  Hypothesis W : WF M.
  Let NB := nbodies M.

  (* transposed transforms compose (by duality with st_apply) *)
  Lemma svdot_ext (a b : SV T) : (forall v, svdot O v a = svdot O v b) -> a = b.
  Proof.
    intros H. destruct a as [a0 a1 a2 a3 a4 a5], b as [b0 b1 b2 b3 b4 b5].
    pose proof (H (mkSV (o1 O) t0 t0 t0 t0 t0)) as H0. pose proof (H (mkSV t0 (o1 O) t0 t0 t0 t0)) as H1.
    pose proof (H (mkSV t0 t0 (o1 O) t0 t0 t0)) as H2. pose proof (H (mkSV t0 t0 t0 (o1 O) t0 t0)) as H3.
    pose proof (H (mkSV t0 t0 t0 t0 (o1 O) t0)) as H4. pose proof (H (mkSV t0 t0 t0 t0 t0 (o1 O))) as H5.
    cbv_sc_all. f_equal; nz.
  Qed.
  Lemma applyT_mul (X Y : ST T) f : m3rot O (stE Y) -> st_applyT O Y (st_applyT O X f) = st_applyT O (st_mul O X Y) f.
  Proof.
    intros HY. apply svdot_ext. intros v.
    rewrite <- !(apply_dual O). rewrite (st_apply_mul O) by exact HY. reflexivity.
  Qed.
  Lemma applyT_add (X : ST T) a b : st_applyT O X (svadd O a b) = svadd O (st_applyT O X a) (st_applyT O X b).
  Proof. l1_split; ring. Qed.

  Section Mom.
    Variable pr : SV T -> T.
    Hypothesis pr_add : forall a b, pr (svadd O a b) = oadd O (pr a) (pr b).
    Variable w1 : WS.
    Hypothesis HX : forall i, 0 < i < NB -> Chain O M w1 i.
    Hypothesis HR : forall i, 0 < i < NB -> m3rot O (stE (gXb O w1 i)).

    (* sel = which of the two momentum arrays and totals *)
    Definition st_hc (st : CSt (T:=T)) : list (SV T) := snd (fst (fst (fst (fst st)))).
    Definition st_hd (st : CSt (T:=T)) : list (SV T) := snd (fst (fst (fst st))).
    Definition st_ht (st : CSt (T:=T)) : SV T := snd (fst st).
    Definition st_hdt (st : CSt (T:=T)) : SV T := snd st.

    Definition PInv (tc td : T) (st : CSt (T:=T)) (k : nat) : Prop :=
      length (st_hc st) = NB /\ length (st_hd st) = NB /\ wXb (st_w st) = wXb w1 /\ wXl (st_w st) = wXl w1 /\
      oadd O (pr (st_ht st)) (bsum O (fun j => pr (st_applyT O (gXb O w1 j) (nth j (st_hc st) (svzero O)))) k) = tc /\
      oadd O (pr (st_hdt st)) (bsum O (fun j => pr (st_applyT O (gXb O w1 j) (nth j (st_hd st) (svzero O)))) k) = td.

    Lemma com_step_pinv tc td st k : 1 <= k <= Nat.pred NB -> PInv tc td st (S k) -> PInv tc td (com_step O M st k) k.
    Proof.
      intros Hk (Lc & Ld & EXb & EXl & Ec & Ed). destruct st as [[[[[w hc] hd] It] ht] hdt].
      unfold st_w, st_hc, st_hd, st_ht, st_hdt in *. cbn [fst snd] in *.
      unfold com_step. rewrite (bsum_S O M) in Ec, Ed by lia.
      assert (Hk' : 0 < k < NB) by (unfold NB in *; lia).
      assert (GXl : gXl O w k = gXl O w1 k) by (unfold gXl; rewrite EXl; reflexivity).
      pose proof (HX k Hk') as Hx. unfold Chain in Hx.
      destruct (Nat.eqb_spec (getlam M k) 0) as [e|ne]; unfold PInv, st_w, st_hc, st_hd, st_ht, st_hdt; cbn [fst snd].
      - repeat split; try assumption.
        + rewrite pr_add, GXl, <- Hx. rewrite <- Ec. ring.
        + rewrite pr_add, GXl, <- Hx. rewrite <- Ed. ring.
      - pose proof (wf_parent M W k Hk') as Hl. fold (getlam M k) in Hl.
        assert (Hp : 0 < getlam M k < NB) by (unfold NB in *; lia).
        cbn [wXb wXl w_Ic]. repeat split; try assumption; try (rewrite upd_length; assumption).
        + rewrite (bsum_bump O M (fun j => pr (st_applyT O (gXb O w1 j) (nth j hc (svzero O)))) _ (getlam M k)
                     (pr (st_applyT O (gXb O w1 k) (nth k hc (svzero O))))).
          * rewrite <- Ec. ring.
          * lia.
          * rewrite nth_upd_eq by lia. rewrite applyT_add, pr_add, (applyT_mul _ _ _ (HR _ Hp)), GXl, <- Hx. reflexivity.
          * intros j Hj. rewrite nth_upd_neq by auto. reflexivity.
        + rewrite (bsum_bump O M (fun j => pr (st_applyT O (gXb O w1 j) (nth j hd (svzero O)))) _ (getlam M k)
                     (pr (st_applyT O (gXb O w1 k) (nth k hd (svzero O))))).
          * rewrite <- Ed. ring.
          * lia.
          * rewrite nth_upd_eq by lia. rewrite applyT_add, pr_add, (applyT_mul _ _ _ (HR _ Hp)), GXl, <- Hx. reflexivity.
          * intros j Hj. rewrite nth_upd_neq by auto. reflexivity.
    Qed.
  End Mom.

  Definition body_h (w : WS) (j : nat) : SV T := rbi_mulv O (getI O M j) (gv O w j).
  Definition body_hd (w : WS) (j : nat) : SV T :=
    svadd O (rbi_mulv O (getI O M j) (ga O w j)) (crossf O (gv O w j) (rbi_mulv O (getI O M j) (gv O w j))).

  Theorem com_sweep_momentum (pr : SV T -> T) (pr_add : forall a b, pr (svadd O a b) = oadd O (pr a) (pr b))
          (pr_0 : pr (svzero O) = t0) (w : WS) : ws_len w NB ->
    (forall i, 0 < i < NB -> Chain O M w i) -> (forall i, 0 < i < NB -> m3rot O (stE (gXb O w i))) ->
    let r := com_sweep O M w in
    pr (snd (fst r)) = bsum O (fun j => pr (st_applyT O (gXb O w j) (body_h w j))) NB /\
    pr (snd r) = bsum O (fun j => pr (st_applyT O (gXb O w j) (body_hd w j))) NB.
  Proof.
    intros L HX HR. cbv zeta. rewrite (com_sweep_unfold O M). cbv zeta. fold NB.
    assert (LIc : length (wIc w) = NB) by (unfold ws_len in L; decompose [and] L; assumption).
    destruct (com_reset_spec O M W w LIc) as (L1 & G1 & X1).
    assert (Xb1 : wXb (com_reset O M w) = wXb w).
    { unfold com_reset. apply (fold_left_inv_eq (fun w' => wXb w')). intros; reflexivity. }
    assert (V1 : wv (com_reset O M w) = wv w /\ wa (com_reset O M w) = wa w).
    { unfold com_reset. split; [apply (fold_left_inv_eq (fun w' => wv w'))|apply (fold_left_inv_eq (fun w' => wa w'))]; intros; reflexivity. }
    set (w1 := com_reset O M w) in *.
    assert (HX1 : forall i, 0 < i < NB -> Chain O M w1 i).
    { intros i Hi. unfold Chain, gXb, gXl. rewrite Xb1, X1. apply HX. exact Hi. }
    assert (HR1 : forall i, 0 < i < NB -> m3rot O (stE (gXb O w1 i))).
    { intros i Hi. unfold gXb. rewrite Xb1. apply HR. exact Hi. }
    set (hc0 := map (fun i => rbi_mulv O (gIc O w1 i) (gv O w1 i)) (iota 0 NB)).
    set (hd0 := map (fun i => svadd O (rbi_mulv O (gIc O w1 i) (ga O w1 i))
                                 (crossf O (gv O w1 i) (rbi_mulv O (gIc O w1 i) (gv O w1 i)))) (iota 0 NB)).
    set (st0 := (w1, hc0, hd0, rbi_zero O, svzero O, svzero O)).
    pose proof (wf_pos M W) as Hpos. fold NB in Hpos.
    set (tc := bsum O (fun j => pr (st_applyT O (gXb O w j) (body_h w j))) NB).
    set (td := bsum O (fun j => pr (st_applyT O (gXb O w j) (body_hd w j))) NB).
    assert (N0 : forall (f : nat -> SV T) j, j < NB -> nth j (map f (iota 0 NB)) (svzero O) = f j).
    { assert (NI : forall n a j, j < n -> nth j (iota a n) 0 = a + j)
        by (induction n as [|n IHn]; intros a j Hj; [lia| destruct j; cbn; [lia| rewrite IHn by lia; lia]]).
      intros f j Hj. rewrite (nth_indep _ (svzero O) (f 0)) by (rewrite map_length, iota_length; exact Hj).
      rewrite (map_nth f). rewrite NI by exact Hj. reflexivity. }
    assert (K : PInv pr w1 tc td (fold_left (com_step O M) (rev_range M) st0) 1).
    { unfold rev_range, body_range. fold NB.
      apply (fold_rev_iota_inv (com_step O M) (PInv pr w1 tc td)).
      - replace (S (Nat.pred NB)) with NB by lia. unfold PInv, st0, st_w, st_hc, st_hd, st_ht, st_hdt. cbn [fst snd].
        repeat split; try reflexivity.
        + unfold hc0. rewrite map_length. apply iota_length.
        + unfold hd0. rewrite map_length. apply iota_length.
        + unfold tc. rewrite (bsum_ext O M _ (fun j => pr (st_applyT O (gXb O w j) (body_h w j)))); [rewrite pr_0; ring|].
          intros j Hj. unfold hc0. rewrite N0 by lia. rewrite G1 by exact Hj. unfold gXb, gv, body_h, gv. rewrite Xb1, (proj1 V1). reflexivity.
        + unfold td. rewrite (bsum_ext O M _ (fun j => pr (st_applyT O (gXb O w j) (body_hd w j)))); [rewrite pr_0; ring|].
          intros j Hj. unfold hd0. rewrite N0 by lia. rewrite G1 by exact Hj. unfold gXb, gv, ga, body_hd, gv, ga. rewrite Xb1, (proj1 V1), (proj2 V1). reflexivity.
      - intros st k Hk HI. apply (com_step_pinv pr pr_add w1 HX1 HR1); assumption. }
    destruct (fold_left (com_step O M) (rev_range M) st0) as [[[[[w2 hc2] hd2] It2] ht2] hdt2].
    destruct K as (_ & _ & _ & _ & Kc & Kd). unfold st_hc, st_hd, st_ht, st_hdt in Kc, Kd. cbn [fst snd] in Kc, Kd |- *.
    assert (Zc : bsum O (fun j => pr (st_applyT O (gXb O w1 j) (nth j hc2 (svzero O)))) 1 = t0) by reflexivity.
    assert (Zd : bsum O (fun j => pr (st_applyT O (gXb O w1 j) (nth j hd2 (svzero O)))) 1 = t0) by reflexivity.
    rewrite Zc in Kc. rewrite Zd in Kd. split; [rewrite <- Kc|rewrite <- Kd]; ring.
  Qed.
End Com2.
