(* C14 Model construction stays well-formed; rejected additions change nothing. *)
From Coq Require Import List NArith.
From RV Require Import Scalar LinAlg3 Spatial ListArr ModelDef C14Thm KinThm GoodThm.
Section P.
  Context {T : Type} (O : Ops T).
  (* An addition that is rejected returns the model exactly as it was (every joint kind,
     every parent class, named or unnamed). *)
  Theorem C14_rejected_addition_changes_nothing (M M' : @Model T) parent X sp b nm :
    add_body O M parent X sp b nm = (M', RRejected) -> M' = M.
  Proof. exact (add_body_reject_frame O M M' parent X sp b nm). Qed.
  (* One addition preserves well-formedness, adds at most six bodies, and the returned id
     is a body id that is valid as a parent of later additions. *)
  Theorem C14_addition_preserves_wellformedness (M M' : @Model T) parent X sp b nm res :
    WF M -> valid_parent M parent -> small M 6 ->
    add_body O M parent X sp b nm = (M', res) ->
    WF M' /\ nbodies M <= nbodies M' <= nbodies M + 6 /\
    length (fixedb M) <= length (fixedb M') <= S (length (fixedb M)) /\
    match res with
    | ROk id => valid_parent M' id /\ is_body_id M' id = true
    | RRejected => M' = M
    end.
  Proof. exact (add_body_WF O M M' parent X sp b nm res). Qed.
  (* After ANY sequence of AddBody / AppendBody calls (valid parent ids, below the id bound)
     starting from the empty model the model is well-formed: parents precede children,
     contiguous q indices, sizes, equal array lengths, fixed bodies resolve to movable parents. *)
  Theorem C14_every_construction_sequence_is_wellformed (ops : list (AddOp (T:=T))) (M' : @Model T) :
    run O (model0 O) ops = Some M' -> WF M'.
  Proof. exact (construction_from_empty_WF O ops M'). Qed.
  (* Every model built from the empty model is well-formed AND carries a workspace satisfying the invariant
     `Good` that the theorems of C01-C13 assume of their incoming workspace (arities match the joint kinds, constant
     motion-subspace entries in place, custom joints registered), and its custom joints occupy pairwise distinct
     slots (the other standing hypothesis of those theorems): both are discharged by construction. *)
  Theorem C14_constructed_models_satisfy_the_workspace_invariant
    (oeqb_spec : forall x y : T, oeqb O x y = true <-> x = y) (ops : list (AddOp (T:=T))) (M' : @Model T) :
    run O (model0 O) ops = Some M' -> WF M' /\ Good O M' (ws M') /\ CustInj M'.
  Proof. exact (constructed_models_are_good O oeqb_spec ops M'). Qed.
  (* ... and the root joint keeps its empty coordinate range (a premise of C03_inverse_dynamics_is_H_qddot_plus_bias) *)
  Theorem C14_constructed_models_root_joint_is_empty (ops : list (AddOp (T:=T))) (M' : @Model T) :
    run O (model0 O) ops = Some M' -> jq (getJ M' 0) + jdof (getJ M' 0) = 0.
  Proof. exact (constructed_models_root_joint O ops M'). Qed.
End P.
Print Assumptions C14_rejected_addition_changes_nothing.
Print Assumptions C14_addition_preserves_wellformedness.
Print Assumptions C14_every_construction_sequence_is_wellformed.
Print Assumptions C14_constructed_models_satisfy_the_workspace_invariant.
Print Assumptions C14_constructed_models_root_joint_is_empty.
