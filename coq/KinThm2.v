(* C06: the full update (UpdateKinematics) leaves the same body velocities as the selective one
   (UpdateKinematicsCustom with Q and QDot): both equal the recursion vF. *)
From Coq Require Import List Bool Arith NArith Lia Ring Field.
From RV Require Import Scalar LinAlg3 Spatial Quat Tac Laws SpatialLaws ListArr ModelDef JointDef KinDef C14Thm WsLemmas KinThm.
Import ListNotations.

Section Kin2.
  Context {T : Type} (O : Ops T) {FL : FieldLaws O}.
  Local Notation Model := (@Model T). Local Notation WS := (@WS T).

  Definition uk_step (M : Model) (q qd qdd : list T) (w : WS) (i : nat) : WS :=
    let lam := getlam M i in
    let w := jcalc O M w i q qd in
    let w := if Nat.eqb lam 0
             then w_v (w_Xb w (upd (wXb w) i (gXl O w i))) (upd (wv w) i (gvJ O w i))
             else w_v (w_Xb w (upd (wXb w) i (st_mul O (gXl O w i) (gXb O w lam))))
                      (upd (wv w) i (svadd O (st_apply O (gXl O w i) (gv O w lam)) (gvJ O w i))) in
    let w := w_c w (upd (wc w) i (svadd O (gcJ O w i) (crossm O (gv O w i) (gvJ O w i)))) in
    let a1 := svadd O (st_apply O (gXl O w i) (ga O w lam)) (gc O w i) in
    w_a w (upd (wa w) i (svadd O a1 (cols_mulv O (jS O M w i) (qdd_seg O M i qdd)))).
  Lemma uk_is_fold M w q qd qdd :
    update_kinematics O M w q qd qdd = fold_left (uk_step M q qd qdd) (body_range M) (w_a w (upd (wa w) 0 (svzero O))).
  Proof. reflexivity. Qed.

  Definition InvU (M : Model) q qd (w : WS) (k : nat) : Prop :=
    Good O M w /\ forall j, 0 < j < k -> gv O w j = vF O M q qd j.

  Lemma uk_step_inv (M : Model) q qd qdd w i : WF M -> 0 < i < nbodies M ->
    InvU M q qd w i -> InvU M q qd (uk_step M q qd qdd w i) (S i).
  Proof.
    intros W [Hi Hn] ((Hlen & Hg) & Hinv). unfold uk_step.
    set (w1 := jcalc O M w i q qd).
    assert (Hlen1 : ws_len w1 (nbodies M)) by (apply jcalc_len; exact Hlen).
    pose proof (jcalc_untouched O true M w i q qd) as U. cbv zeta in U. fold (jcalc O M w i q qd) in U. fold w1 in U.
    destruct U as (UXb & Uv & _).
    assert (HXl : gXl O w1 i = XlF O M q i).
    { apply (@jcalc_Xl T O FL); [destruct Hlen as (L & _); rewrite L; exact Hn | apply (wf_kind M W); auto]. }
    destruct (jcalc_full_vals O M w i q qd (nbodies M) Hlen Hn (proj1 (Hg i (conj Hi Hn))) (proj2 (Hg i (conj Hi Hn))))
      as (_ & HvJ & _). fold w1 in HvJ.
    assert (Hg1 : forall j, 0 < j < nbodies M -> WsInvJ O M w1 j /\ kind_dof M w1 j).
    { intros j Hj. apply (jcalc_full_inv O M w i q qd (nbodies M)); auto; intros j' Hj'; apply Hg; exact Hj'. }
    destruct (Nat.eqb (getlam M i) 0) eqn:E.
    - split.
      + split.
        * unfold ws_len in *; cbn. rewrite !upd_length. decompose [and] Hlen1. repeat split; assumption.
        * intros j Hj. destruct (Hg1 j Hj) as [A B]. split.
          -- revert A. apply WsInvJ_ext; reflexivity.
          -- revert B. apply kind_dof_ext. reflexivity.
      + intros j [Hj0 Hj]. unfold gv; cbn.
        destruct (Nat.eq_dec j i) as [->|Hne].
        * rewrite nth_upd_eq by (destruct Hlen1 as (_ & _ & L & _); rewrite L; exact Hn).
          rewrite (vF_unfold O M q qd i W (conj Hi Hn)), E. exact HvJ.
        * rewrite nth_upd_neq by auto. rewrite Uv. apply Hinv. lia.
    - split.
      + split.
        * unfold ws_len in *; cbn. rewrite !upd_length. decompose [and] Hlen1. repeat split; assumption.
        * intros j Hj. destruct (Hg1 j Hj) as [A B]. split.
          -- revert A. apply WsInvJ_ext; reflexivity.
          -- revert B. apply kind_dof_ext. reflexivity.
      + intros j [Hj0 Hj]. unfold gv; cbn.
        destruct (Nat.eq_dec j i) as [->|Hne].
        * rewrite nth_upd_eq by (destruct Hlen1 as (_ & _ & L & _); rewrite L; exact Hn).
          rewrite (vF_unfold O M q qd i W (conj Hi Hn)), E. rewrite HXl, HvJ.
          apply Nat.eqb_neq in E.
          f_equal. f_equal. unfold gv. rewrite Uv. apply Hinv.
          pose proof (wf_parent M W i (conj Hi Hn)). unfold getlam in *. lia.
        * rewrite nth_upd_neq by auto. rewrite Uv. apply Hinv. lia.
  Qed.

  Theorem uk_v_spec (M : Model) (w : WS) q qd qdd : WF M -> Good O M w ->
    let w' := update_kinematics O M w q qd qdd in
    Good O M w' /\ forall i, 0 < i < nbodies M -> gv O w' i = vF O M q qd i.
  Proof.
    intros W Hg. cbv zeta. rewrite uk_is_fold. unfold body_range.
    pose proof (wf_pos M W) as Hpos.
    assert (K : InvU M q qd (fold_left (uk_step M q qd qdd) (iota 1 (Nat.pred (nbodies M))) (w_a w (upd (wa w) 0 (svzero O)))) (1 + Nat.pred (nbodies M))).
    { apply (fold_iota_inv (uk_step M q qd qdd) (InvU M q qd)).
      - split; [|intros j Hj; lia]. destruct Hg as [L G]. split.
        + unfold ws_len in *; cbn. rewrite upd_length. exact L.
        + intros j Hj. destruct (G j Hj) as [A B]. split; [revert A; apply WsInvJ_ext; reflexivity | revert B; apply kind_dof_ext; reflexivity].
      - intros w' i Hi HI. apply uk_step_inv; auto. lia. }
    replace (1 + Nat.pred (nbodies M)) with (nbodies M) in K by lia. exact K.
  Qed.

  (* the full and the selective update leave identical body velocities *)
  Theorem uk_ukc_same_velocities (M : Model) (w1 w2 : WS) q qd qdd i : WF M -> Good O M w1 -> Good O M w2 ->
    0 < i < nbodies M ->
    gv O (update_kinematics O M w1 q qd qdd) i = gv O (update_kinematics_custom O M w2 (Some q) (Some qd) None) i.
  Proof.
    intros W G1 G2 Hi.
    destruct (uk_v_spec M w1 q qd qdd W G1) as [_ V1]. rewrite (V1 i Hi).
    unfold update_kinematics_custom.
    destruct (ukc_qd_spec O M (ukc_q O M w2 q) q qd W (ukc_q_good O M w2 q W G2)) as (_ & _ & V2).
    rewrite (V2 i Hi). reflexivity.
  Qed.
End Kin2.
