(* C13 Results do not depend on what was computed before (no stale workspace). *)
From Coq Require Import List NArith.
From RV Require Import Scalar LinAlg3 Spatial Quat Laws ListArr ModelDef JointDef KinDef LinDef DynDef C14Thm WsLemmas KinThm KinThm2 DynThm NleThm KinThm3 C04Thm JacThm JacThm2 JacThm3 ConsDef CrbaGen.
Section P.
  Context {T : Type} (O : Ops T) {FL : FieldLaws O}.
  (* jcalc never writes X_base, v, a, c, f, pA, U, ..., and writes X_lambda, v_J, c_J, S only at its own index *)
  Theorem C13_jcalc_frame full (M : @Model T) (w : @WS T) i q qd :
    let w' := jcalc_gen O full M w i q qd in
    wXb w' = wXb w /\ wv w' = wv w /\ wa w' = wa w /\ wc w' = wc w /\ wf w' = wf w /\ wpA w' = wpA w /\
    wU w' = wU w /\ wmU w' = wmU w /\ wmDinv w' = wmDinv w /\ wmu w' = wmu w /\ wIc w' = wIc w /\
    wIA w' = wIA w /\ wd w' = wd w /\ wu w' = wu w /\ wcU w' = wcU w /\ wcDinv w' = wcDinv w /\ wcu w' = wcu w.
  Proof. exact (jcalc_untouched O full M w i q qd). Qed.
  (* what jcalc does write is a function of model and state only, given the construction invariant on the
     entries it reads without writing (S of fixed-axis joints, structural zeros of multdof3_S, v_J off-axis) *)
  Theorem C13_jcalc_values (M : @Model T) (w : @WS T) i q qd n :
    ws_len w n -> i < n -> WsInvJ O M w i -> kind_dof M w i ->
    let w' := jcalc O M w i q qd in
    jS O M w' i = SF O M q i /\ gvJ O w' i = vJF O M q qd i /\ WsInvJ O M w' i.
  Proof. exact (jcalc_full_vals O M w i q qd n). Qed.
  Theorem C13_jcalc_keeps_invariant (M : @Model T) (w : @WS T) i q qd n :
    ws_len w n -> i < n -> (forall j, 0 < j < n -> kind_dof M w j) -> (forall j, 0 < j < n -> WsInvJ O M w j) -> 0 < i ->
    forall j, 0 < j < n -> WsInvJ O M (jcalc O M w i q qd) j /\ kind_dof M (jcalc O M w i q qd) j.
  Proof. exact (jcalc_full_inv O M w i q qd n). Qed.
  (* position-level state: identical for any two incoming workspaces *)
  Theorem C13_position_update (M : @Model T) (w1 w2 : @WS T) q i : WF M ->
    ws_len w1 (nbodies M) -> ws_len w2 (nbodies M) -> 0 < i < nbodies M ->
    gXb O (ukc_q O M w1 q) i = gXb O (ukc_q O M w2 q) i.
  Proof. exact (ukc_q_ws_independent O M w1 w2 q i). Qed.
  (* point velocity (6-D) with the update flag set *)
  Theorem C13_point_velocity (M : @Model T) (w1 w2 : @WS T) q qd (id : N) pt : WF M ->
    Good O M w1 -> Good O M w2 -> (id < fixed_disc)%N -> 0 < N.to_nat id < nbodies M ->
    snd (calc_point_velocity6 O M w1 q qd id pt true) = snd (calc_point_velocity6 O M w2 q qd id pt true).
  Proof. exact (point_velocity_ws_independent O M w1 w2 q qd id pt). Qed.
  (* inverse dynamics: every joint's generalized force *)
  Theorem C13_inverse_dynamics (M : @Model T) q qd qdd (w1 w2 : @WS T) tau1 tau2 i : WF M ->
    (forall i j, 0 < i < nbodies M -> 0 < j < nbodies M -> i <> j ->
       is_custom (jkind (getJ M i)) = true -> is_custom (jkind (getJ M j)) = true -> jcust (getJ M i) <> jcust (getJ M j)) ->
    Good O M w1 -> Good O M w2 -> dof_count M <= length tau1 -> dof_count M <= length tau2 -> 0 < i < nbodies M ->
    vslice (o0 O) (snd (inverse_dynamics O M w1 q qd qdd tau1 None)) (jq (getJ M i)) (jdof (getJ M i)) =
    vslice (o0 O) (snd (inverse_dynamics O M w2 q qd qdd tau2 None)) (jq (getJ M i)) (jdof (getJ M i)).
  Proof. intros W C. exact (id_ws_independent O M q qd qdd W C w1 w2 tau1 tau2 i). Qed.
  (* the bias force vector: every joint's segment *)
  Theorem C13_nonlinear_effects (M : @Model T) q qd (w1 w2 : @WS T) tau1 tau2 i : WF M ->
    (forall i j, 0 < i < nbodies M -> 0 < j < nbodies M -> i <> j ->
       is_custom (jkind (getJ M i)) = true -> is_custom (jkind (getJ M j)) = true -> jcust (getJ M i) <> jcust (getJ M j)) ->
    order_ok M = true ->
    Good O M w1 -> Good O M w2 -> dof_count M <= length tau1 -> dof_count M <= length tau2 -> 0 < i < nbodies M ->
    vslice (o0 O) (snd (nonlinear_effects O M w1 q qd tau1 None)) (jq (getJ M i)) (jdof (getJ M i)) =
    vslice (o0 O) (snd (nonlinear_effects O M w2 q qd tau2 None)) (jq (getJ M i)) (jdof (getJ M i)).
  Proof.
    intros W C Ord G1 G2 L1 L2 Hi. destruct (order_ok_spec O M Ord) as [Hc Hr].
    rewrite (nle_is_id_at_zero_acceleration O M q qd W C Hc Hr w1 w1 tau1 tau1 i G1 G1 L1 L1 Hi).
    rewrite (nle_is_id_at_zero_acceleration O M q qd W C Hc Hr w2 w1 tau2 tau1 i G2 G1 L2 L1 Hi).
    reflexivity.
  Qed.
  (* the full kinematics update: body velocities, velocity-product terms, accelerations and base transforms *)
  Theorem C13_full_kinematics_update (M : @Model T) q qd qdd (w1 w2 : @WS T) i : WF M ->
    (forall i j, 0 < i < nbodies M -> 0 < j < nbodies M -> i <> j ->
       is_custom (jkind (getJ M i)) = true -> is_custom (jkind (getJ M j)) = true -> jcust (getJ M i) <> jcust (getJ M j)) ->
    Good O M w1 -> Good O M w2 -> 0 < i < nbodies M ->
    let a := update_kinematics O M w1 q qd qdd in let b := update_kinematics O M w2 q qd qdd in
    gv O a i = gv O b i /\ gc O a i = gc O b i /\ ga O a i = ga O b i /\ gXb O a i = gXb O b i.
  Proof.
    intros W C G1 G2 Hi. cbv zeta.
    destruct (uk_a_spec O M q qd qdd W C w1 G1 i Hi) as (A1 & B1 & C1 & D1 & _).
    destruct (uk_a_spec O M q qd qdd W C w2 G2 i Hi) as (A2 & B2 & C2 & D2 & _).
    rewrite A1, A2, B1, B2, C1, C2, D1, D2. repeat split; reflexivity.
  Qed.
  (* point acceleration (6-D) with the update flag set *)
  Theorem C13_point_acceleration (M : @Model T) (w1 w2 : @WS T) q qd qdd (id : N) pt : WF M ->
    (forall i j, 0 < i < nbodies M -> 0 < j < nbodies M -> i <> j ->
       is_custom (jkind (getJ M i)) = true -> is_custom (jkind (getJ M j)) = true -> jcust (getJ M i) <> jcust (getJ M j)) ->
    Good O M w1 -> Good O M w2 -> (id < fixed_disc)%N -> 0 < N.to_nat id < nbodies M ->
    snd (calc_point_acceleration6 O M w1 q qd qdd id pt true) = snd (calc_point_acceleration6 O M w2 q qd qdd id pt true).
  Proof. intros W C. exact (point_acceleration_ws_independent O M q qd qdd W C w1 w2 id pt). Qed.
End P.
Section P2.
  Context {T : Type} (O : Ops T) {FL : FieldLaws O} {TL : TrigLaws O}.
  (* the three Jacobians with the update flag set *)
  Theorem C13_jacobians (M : @Model T) q (w1 w2 : @WS T) (id : N) (p : V3 T) G6 G3 : WF M ->
    (forall i j, 0 < i < nbodies M -> 0 < j < nbodies M -> i <> j ->
       is_custom (jkind (getJ M i)) = true -> is_custom (jkind (getJ M j)) = true -> jcust (getJ M i) <> jcust (getJ M j)) ->
    Good O M w1 -> Good O M w2 -> (id < fixed_disc)%N -> 0 < N.to_nat id < nbodies M ->
    point_jacobian6 O M (ukc_q O M w1 q) id p G6 = point_jacobian6 O M (ukc_q O M w2 q) id p G6 /\
    point_jacobian O M (ukc_q O M w1 q) id p G3 = point_jacobian O M (ukc_q O M w2 q) id p G3 /\
    body_spatial_jacobian O M (ukc_q O M w1 q) id G6 = body_spatial_jacobian O M (ukc_q O M w2 q) id G6.
  Proof.
    intros W C G1 G2. 
    exact (jacobians_ws_independent O M q W C (vzeros (o0 O) (dof_count M)) (vzeros_length _ _) w1 w2 id p G6 G3 G1 G2).
  Qed.
  (* the joint-space inertia matrix (flag cleared after the position update), entry by entry *)
  Theorem C13_inertia_matrix (M : @Model T) q (w1 w2 : @WS T) : WF M ->
    (forall i j, 0 < i < nbodies M -> 0 < j < nbodies M -> i <> j ->
       is_custom (jkind (getJ M i)) = true -> is_custom (jkind (getJ M j)) = true -> jcust (getJ M i) <> jcust (getJ M j)) ->
    (forall i, 0 < i < nbodies M -> joint_wf O M q i) -> o2 O <> o0 O -> Good O M w1 -> Good O M w2 ->
    let n := dof_count M in
    forall r s, r < n -> s < n ->
      mget (o0 O) (snd (crba O M (ukc_q O M w1 q) q (zerosM O n n) false)) r s =
      mget (o0 O) (snd (crba O M (ukc_q O M w2 q) q (zerosM O n n) false)) r s.
  Proof. exact (crba_after_position_update_ws_independent O M q w1 w2). Qed.
End P2.
Print Assumptions C13_jcalc_frame. Print Assumptions C13_jcalc_values. Print Assumptions C13_jcalc_keeps_invariant.
Print Assumptions C13_position_update. Print Assumptions C13_point_velocity. Print Assumptions C13_inverse_dynamics.
Print Assumptions C13_nonlinear_effects. Print Assumptions C13_full_kinematics_update. Print Assumptions C13_point_acceleration.
Print Assumptions C13_jacobians.
Print Assumptions C13_inertia_matrix.
