(* L1 laws: quaternions (C16). *)
From Coq Require Import List Bool Ring Field.
From Coq Require Import NsatzTactic.
From RV Require Import Scalar LinAlg3 Spatial Quat Tac Laws SpatialLaws.
Section S.
  Context {T : Type} (O : Ops T) {FL : FieldLaws O}.
  Add Field FlF : (@fl_field T O FL).
  Local Notation "0" := (o0 O). Local Notation "1" := (o1 O).
  Local Infix "+" := (oadd O). Local Infix "*" := (omul O). Local Infix "-" := (osub O).

  Definition qunit (q : Qt T) : Prop := qnorm2 O q = 1.

  (* rbdl's E-matrices compose in the opposite order of the quaternion product *)
  Theorem qtoMatrix_mul p q : qunit p -> qunit q ->
    qtoMatrix O (qmul O p q) = m3mul O (qtoMatrix O q) (qtoMatrix O p).
  Proof.
    unfold qunit. destruct p, q. cbv_sc. intros Hp Hq. ext_rec; cbv_sc; nz.
  Qed.
  Theorem qmul_norm p q : qnorm2 O (qmul O p q) = qnorm2 O p * qnorm2 O q.
  Proof. destruct p, q. cbv_sc. ring. Qed.
  Theorem qmul_assoc p q r : qmul O (qmul O p q) r = qmul O p (qmul O q r).
  Proof. l1_split; ring. Qed.
  Theorem qmul_conj q : qmul O q (qconj O q) = mkQt 0 0 0 (qnorm2 O q).
  Proof. l1_split; ring. Qed.
  Theorem qtoMatrix_rot q : qunit q -> m3rot O (qtoMatrix O q).
  Proof.
    unfold qunit, m3rot, m3orth. destruct q. cbv_sc. intro Hq. split.
    - ext_rec; cbv_sc; nz.
    - nz.
  Qed.
  Theorem qtoMatrix_conj q : qtoMatrix O (qconj O q) = m3T (qtoMatrix O q).
  Proof. l1_split; ring. Qed.
  Theorem qtoMatrix_neg q : qtoMatrix O (qneg O q) = qtoMatrix O q.
  Proof. l1_split; ring. Qed.
  (* rotate = multiplication by the matrix (of a unit quaternion) *)
  Theorem qrotate_matrix q v : qunit q -> qrotate O q v = m3v O (qtoMatrix O q) v.
  Proof.
    unfold qunit. destruct q, v. cbv_sc. intro Hq. ext_rec; cbv_sc; nz.
  Qed.
  (* the rate map is tangent to the unit sphere ... *)
  Theorem omegaToQDot_tangent q w : qdot4 O q (qomegaToQDot O q w) = 0.
  Proof. destruct q, w. cbv_sc. ring. Qed.
  (* ... and reproduces the body-frame angular velocity: 2 conj(q) * qdot = (w, 0) *)
  Theorem omegaToQDot_omega q w : qunit q ->
    qscale O (qmul O (qconj O q) (qomegaToQDot O q w)) (o2 O) = mkQt (vx w) (vy w) (vz w) 0.
  Proof.
    unfold qunit. destruct q, w. cbv_sc. intro Hq.
    pose proof (@o2_neq0 T O FL) as H2. cbv_sc_all.
    ext_rec; cbv_sc.
    1-3: match goal with |- ?l = ?r => transitivity (omul O r (oadd O (oadd O (oadd O (omul O qx qx) (omul O qy qy)) (omul O qz qz)) (omul O qw qw))); [field; exact H2 | rewrite Hq; ring] end.
    field; exact H2.
  Qed.
  (* matrix form: with E = toMatrix q and dq = omegaToQDot q w,  dE = -[w]x E *)
  Definition qtoMatrix_D (q dq : Qt T) : M3 T :=
    let x := qx q in let y := qy q in let z := qz q in let w := qw q in
    let dx := qx dq in let dy := qy dq in let dz := qz dq in let dw := qw dq in
    let two := o2 O in
    mkM3 (0 - two*(dy*y+y*dy) - two*(dz*z+z*dz)) (two*(dx*y+x*dy) + two*(dw*z+w*dz)) (two*(dx*z+x*dz) - two*(dw*y+w*dy))
         (two*(dx*y+x*dy) - two*(dw*z+w*dz)) (0 - two*(dx*x+x*dx) - two*(dz*z+z*dz)) (two*(dy*z+y*dz) + two*(dw*x+w*dx))
         (two*(dx*z+x*dz) + two*(dw*y+w*dy)) (two*(dy*z+y*dz) - two*(dw*x+w*dx)) (0 - two*(dx*x+x*dx) - two*(dy*y+y*dy)).
  Theorem omegaToQDot_matrix q w : qunit q ->
    qtoMatrix_D q (qomegaToQDot O q w) = m3opp O (m3mul O (v3crossm O w) (qtoMatrix O q)).
  Proof.
    unfold qunit. destruct q, w. cbv_sc. intro Hq.
    pose proof (@o2_neq0 T O FL) as H2. cbv_sc_all.
    assert (Hh : omul O (oadd O 1 1) (odiv O 1 (oadd O 1 1)) = 1) by (field; exact H2).
    set (h := odiv O 1 (oadd O 1 1)) in *. clearbody h. clear H2.
    ext_rec; cbv_sc; nz.
  Qed.

  (* fromMatrix (header formula) inverts toMatrix up to sign, away from w = 0 *)
  Theorem fromMatrix_toMatrix_hdr q :
    qunit q ->
    let s := osqrt O (1 + m00 (qtoMatrix O q) + m11 (qtoMatrix O q) + m22 (qtoMatrix O q)) in
    s * s = 1 + m00 (qtoMatrix O q) + m11 (qtoMatrix O q) + m22 (qtoMatrix O q) ->
    s <> 0 ->
    qfromMatrix_hdr O (qtoMatrix O q) = q \/ qfromMatrix_hdr O (qtoMatrix O q) = qneg O q.
  Proof.
    unfold qunit. destruct q as [x y z w]. cbv_sc. intros Hq.
    set (s := osqrt O _). clearbody s. intros Hs Hs0.
    pose proof (@o2_neq0 T O FL) as H2. cbv_sc_all.
    assert (Hd : omul O (osub O s (omul O (oadd O 1 1) w)) (oadd O s (omul O (oadd O 1 1) w)) = 0) by nz.
    assert (Hor : s = omul O (oadd O 1 1) w \/ s = oopp O (omul O (oadd O 1 1) w)).
    { destruct (fl_eqdec (osub O s (omul O (oadd O 1 1) w)) 0) as [e|ne].
      - left. transitivity (oadd O (osub O s (omul O (oadd O 1 1) w)) (omul O (oadd O 1 1) w)); [ring | rewrite e; ring].
      - right. assert (K : oadd O s (omul O (oadd O 1 1) w) = 0).
        { transitivity (omul O (oinv O (osub O s (omul O (oadd O 1 1) w))) (omul O (osub O s (omul O (oadd O 1 1) w)) (oadd O s (omul O (oadd O 1 1) w)))).
          - field. exact ne.
          - rewrite Hd. ring. }
        transitivity (osub O (oadd O s (omul O (oadd O 1 1) w)) (omul O (oadd O 1 1) w)); [ring | rewrite K; ring]. }
    assert (Hw0 : w <> 0).
    { intro e. destruct Hor as [e1|e1]; apply Hs0; rewrite e1, e; ring. }
    destruct Hor as [e|e]; [left|right]; subst s; ext_rec; cbv_sc; field;
      repeat split; try assumption; apply (mul_neq0 O); assumption.
  Qed.
End S.
