(* L2: src/Dynamics.cc -- InverseDynamics, NonlinearEffects, CompositeRigidBodyAlgorithm,
   ForwardDynamics (ABA), ForwardDynamicsLagrangian, CalcMInvTimesTau (workspace-passing). *)
From Coq Require Import List Bool Arith NArith.
From RV Require Import Scalar LinAlg3 Spatial Quat ListArr ModelDef JointDef KinDef LinDef.
Import ListNotations.

Section D.
  Context {T : Type} (O : Ops T).
  Local Notation t0 := (o0 O). Local Notation t1 := (o1 O).
  Local Notation SV := (SV T). Local Notation ST := (ST T). Local Notation V3 := (V3 T).
  Local Notation M66 := (M66 T).
  Local Notation Model := (@Model T). Local Notation WS := (@WS T).

  Definition rev_range (M : Model) : list nat := rev (body_range M).
  Definition grav_sv (M : Model) (sign : bool) : SV :=
    let g := gravity M in
    if sign then svof (v3zero O) g else svof (v3zero O) (v3opp O g).
  Definition fext_at (fext : option (list SV)) (i : nat) : option SV :=
    match fext with Some l => Some (nth i l (svzero O)) | None => None end.
  Definition sv_is_zero (v : SV) : bool := forallb (fun x => oeqb O x t0) (svlist v).
  Definition tau_seg (M : Model) (i : nat) (tau : list T) : list T :=
    vslice t0 tau (jq (getJ M i)) (jdof (getJ M i)).
  Definition body_force (M : Model) (w : WS) (i : nat) : SV :=
    svadd O (rbi_mulv O (getI O M i) (ga O w i))
            (crossf O (gv O w i) (rbi_mulv O (getI O M i) (gv O w i))).

  (* the common inward pass: Tau = S^T f, f[lambda] += X^T f *)
  Definition inward_tau (M : Model) (w : WS) (tau : list T) : WS * list T :=
    fold_left (fun (st : WS * list T) i =>
      let '(w, tau) := st in
      let tau := vset_seg tau (jq (getJ M i)) (cols_Tmul O (jS O M w i) (gf O w i)) in
      let lam := getlam M i in
      let w := if Nat.eqb lam 0 then w
               else w_f w (upd (wf w) lam (svadd O (gf O w lam) (st_applyT O (gXl O w i) (gf O w i)))) in
      (w, tau)) (rev_range M) (w, tau).

  Definition inverse_dynamics (M : Model) (w : WS) (q qd qdd : list T) (tau : list T)
             (fext : option (list SV)) : WS * list T :=
    let w := w_v w (upd (wv w) 0 (svzero O)) in
    let w := w_a w (upd (wa w) 0 (grav_sv M false)) in
    let w := fold_left (fun w i =>
      let lam := getlam M i in
      let w := jcalc O M w i q qd in
      let w := w_v w (upd (wv w) i (svadd O (st_apply O (gXl O w i) (gv O w lam)) (gvJ O w i))) in
      let w := w_c w (upd (wc w) i (svadd O (gcJ O w i) (crossm O (gv O w i) (gvJ O w i)))) in
      let w := w_a w (upd (wa w) i (svadd O (svadd O (st_apply O (gXl O w i) (ga O w lam)) (gc O w i))
                                            (cols_mulv O (jS O M w i) (qdd_seg O M i qdd)))) in
      w_f w (upd (wf w) i (if bvirtual (getbody O M i) then svzero O else body_force M w i))
      ) (body_range M) w in
    let w := match fext with
      | None => w
      | Some fe =>
        fold_left (fun w i =>
          let w := w_Xb w (upd (wXb w) i (st_mul O (gXl O w i) (gXb O w (getlam M i)))) in
          w_f w (upd (wf w) i (svsub O (gf O w i) (st_applyAdj O (gXb O w i) (nth i fe (svzero O)))))
        ) (body_range M) w
      end in
    inward_tau M w tau.

  (* run-time form of the premise "the joint update order lists every movable body" of the NLE theorems *)
  Definition order_ok (M : Model) : bool :=
    forallb (fun i => existsb (Nat.eqb i) (tl (update_order M))) (body_range M) &&
    forallb (fun i => Nat.ltb 0 i && Nat.ltb i (nbodies M)) (tl (update_order M)).

  (* NonlinearEffects -- as repaired by the "fix:" commits (c_J kept, X_base refreshed, external forces on
     massless bodies applied) *)
  Definition nonlinear_effects (M : Model) (w : WS) (q qd : list T) (tau : list T)
             (fext : option (list SV)) : WS * list T :=
    let sg := grav_sv M false in
    let w := w_v w (upd (wv w) 0 (svzero O)) in
    let w := w_a w (upd (wa w) 0 sg) in
    let w := fold_left (fun w i => jcalc O M w i q qd) (tl (update_order M)) w in
    let w := fold_left (fun w i =>
      let lam := getlam M i in
      let w := if Nat.eqb lam 0
        then let w := w_v w (upd (wv w) i (gvJ O w i)) in
             let w := w_c w (upd (wc w) i (svadd O (gcJ O w i) (crossm O (gv O w i) (gvJ O w i)))) in
             w_a w (upd (wa w) i (svadd O (st_apply O (gXl O w i) sg) (gc O w i)))
        else let w := w_v w (upd (wv w) i (svadd O (st_apply O (gXl O w i) (gv O w lam)) (gvJ O w i))) in
             let w := w_c w (upd (wc w) i (svadd O (gcJ O w i) (crossm O (gv O w i) (gvJ O w i)))) in
             w_a w (upd (wa w) i (svadd O (st_apply O (gXl O w i) (ga O w lam)) (gc O w i))) in
      let w := match fext with
               | Some _ => w_Xb w (upd (wXb w) i (st_mul O (gXl O w i) (gXb O w lam)))
               | None => w end in
      let f := if bvirtual (getbody O M i) then svzero O else body_force M w i in
      let f := match fext_at fext i with
               | Some fe => if sv_is_zero fe then f else svsub O f (st_applyAdj O (gXb O w i) fe)
               | None => f end in
      w_f w (upd (wf w) i f)
      ) (body_range M) w in
    inward_tau M w tau.

  (* CompositeRigidBodyAlgorithm *)
  Definition crba (M : Model) (w : WS) (q : list T) (H : Mat (T:=T)) (upd_kin : bool) : WS * Mat (T:=T) :=
    let w := fold_left (fun w i =>
      let w := if upd_kin then jcalc_X_lambda_S O M w i q else w in
      w_Ic w (upd (wIc w) i (getI O M i))) (body_range M) w in
    fold_left (fun (st : WS * Mat (T:=T)) i =>
      let '(w, H) := st in
      let lam := getlam M i in
      let w := if Nat.eqb lam 0 then w
               else w_Ic w (upd (wIc w) lam (rbi_add O (gIc O w lam) (st_applyT_rbi O (gXl O w i) (gIc O w i)))) in
      let qi := jq (getJ M i) in
      let Si := jS O M w i in
      let F := map (rbi_mulv O (gIc O w i)) Si in
      let H := mset_block H qi qi (map (fun s => map (fun f => svdot O s f) F) Si) in
      (* walk towards the base *)
      let '(H, _, _) :=
        fold_left (fun (acc : Mat (T:=T) * list SV * nat) _ =>
          let '(H, F, j) := acc in
          if Nat.eqb (getlam M j) 0 then acc else
          let F := map (st_applyT O (gXl O w j)) F in
          let j := getlam M j in
          let qj := jq (getJ M j) in
          let Sj := jS O M w j in
          let blk := map (fun f => map (fun s => svdot O f s) Sj) F in   (* dof_i x dof_j *)
          let H := mset_block H qi qj blk in
          let H := mset_block H qj qi (mtranspose_n t0 blk (length Sj)) in
          (H, F, j)) (body_range M) (H, F, i) in
      (w, H)) (rev_range M) (w, H).

  (* U Dinv U^T as a 6x6 matrix, U given by columns *)
  Definition cols_D_colsT (U : list SV) (Dinv : Mat (T:=T)) : M66 :=
    fold_left (fun acc a =>
      fold_left (fun acc b =>
        m66add O acc (m66scale O (mget t0 Dinv a b) (m66outer O (nth a U (svzero O)) (nth b U (svzero O)))))
        (iota 0 (length U)) acc) (iota 0 (length U)) (m66zero O).
  Definition safe_inverse (D : Mat (T:=T)) : Mat (T:=T) :=
    match minverse O D with Some X => X | None => map (map (fun _ => odiv O t1 t0)) D end.
  Definition m3_of_mat (A : Mat (T:=T)) : M3 T :=
    let g := mget t0 A in mkM3 (g 0 0) (g 0 1) (g 0 2) (g 1 0) (g 1 1) (g 1 2) (g 2 0) (g 2 1) (g 2 2).
  Definition mat_of_m3 (A : M3 T) : Mat (T:=T) :=
    [[m00 A; m01 A; m02 A]; [m10 A; m11 A; m12 A]; [m20 A; m21 A; m22 A]].

  (* per-joint ABA quantities as stored in the workspace: (U, Dinv, u) *)
  Definition aba_get (M : Model) (w : WS) (i : nat) : list SV * Mat (T:=T) * list T :=
    let J := getJ M i in
    match jkind J with
    | JCustom _ => (nth (jcust J) (wcU w) [], nth (jcust J) (wcDinv w) [], nth (jcust J) (wcu w) [])
    | _ => if Nat.eqb (jdof J) 1
           then ([gU O w i], [[odiv O t1 (vget t0 (wd w) i)]], [vget t0 (wu w) i])
           else (nth i (wmU w) (m63zero O), mat_of_m3 (nth i (wmDinv w) (m3zero O)), v3list (nth i (wmu w) (v3zero O)))
    end.
  Definition aba_set_UD (M : Model) (w : WS) (i : nat) (U : list SV) (D : Mat (T:=T)) : WS :=
    let J := getJ M i in
    match jkind J with
    | JCustom _ => w_cDinv (w_cU w (upd (wcU w) (jcust J) U)) (upd (wcDinv w) (jcust J) (safe_inverse D))
    | _ => if Nat.eqb (jdof J) 1
           then w_d (w_U w (upd (wU w) i (nth 0 U (svzero O)))) (upd (wd w) i (mget t0 D 0 0))
           else w_mDinv (w_mU w (upd (wmU w) i U)) (upd (wmDinv w) i (m3_of_mat (safe_inverse D)))
    end.
  Definition aba_set_u (M : Model) (w : WS) (i : nat) (u : list T) : WS :=
    let J := getJ M i in
    match jkind J with
    | JCustom _ => w_cu w (upd (wcu w) (jcust J) u)
    | _ => if Nat.eqb (jdof J) 1 then w_u w (upd (wu w) i (nth 0 u t0))
           else w_mu w (upd (wmu w) i (v3of O u))
    end.

  (* second ABA pass for body i; with_bias = false is the CalcMInvTimesTau inertia pass *)
  Definition aba_inertia_step (M : Model) (w : WS) (i : nat) : WS :=
    let Si := jS O M w i in
    let U := map (m66v O (gIA O w i)) Si in
    let D := map (fun s => map (fun u => svdot O s u) U) Si in
    let w := aba_set_UD M w i U D in
    let lam := getlam M i in
    if Nat.eqb lam 0 then w else
    let '(U, Dinv, _) := aba_get M w i in
    let Ia := m66sub O (gIA O w i) (cols_D_colsT U Dinv) in
    let X := gXl O w i in
    w_IA w (upd (wIA w) lam (m66add O (gIA O w lam)
             (m66mul O (m66mul O (st_toMatrixTranspose O X) Ia) (st_toMatrix O X)))).

  Definition forward_dynamics (M : Model) (w : WS) (q qd tau : list T) (qdd : list T)
             (fext : option (list SV)) : WS * list T :=
    let w := w_v w (upd (wv w) 0 (svzero O)) in
    let w := fold_left (fun w i =>
      let lam := getlam M i in
      let w := jcalc O M w i q qd in
      let w := w_Xb w (upd (wXb w) i (if Nat.eqb lam 0 then gXl O w i else st_mul O (gXl O w i) (gXb O w lam))) in
      let w := w_v w (upd (wv w) i (svadd O (st_apply O (gXl O w i) (gv O w lam)) (gvJ O w i))) in
      let w := w_c w (upd (wc w) i (svadd O (gcJ O w i) (crossm O (gv O w i) (gvJ O w i)))) in
      let w := w_IA w (upd (wIA w) i (rbi_toMatrix O (getI O M i))) in
      let pA := crossf O (gv O w i) (rbi_mulv O (getI O M i) (gv O w i)) in
      let pA := match fext_at fext i with
                | Some fe => if sv_is_zero fe then pA else svsub O pA (st_applyAdj O (gXb O w i) fe)
                | None => pA end in
      w_pA w (upd (wpA w) i pA)) (body_range M) w in
    let w := fold_left (fun w i =>
      let Si := jS O M w i in
      let U := map (m66v O (gIA O w i)) Si in
      let D := map (fun s => map (fun u => svdot O s u) U) Si in
      let w := aba_set_UD M w i U D in
      let w := aba_set_u M w i (vsub O (tau_seg M i tau) (cols_Tmul O Si (gpA O w i))) in
      let lam := getlam M i in
      if Nat.eqb lam 0 then w else
      let '(U, Dinv, u) := aba_get M w i in
      let Ia := m66sub O (gIA O w i) (cols_D_colsT U Dinv) in
      let pa := svadd O (svadd O (gpA O w i) (m66v O Ia (gc O w i))) (cols_mulv O U (mvmul O Dinv u)) in
      let X := gXl O w i in
      let w := w_IA w (upd (wIA w) lam (m66add O (gIA O w lam)
                 (m66mul O (m66mul O (st_toMatrixTranspose O X) Ia) (st_toMatrix O X)))) in
      w_pA w (upd (wpA w) lam (svadd O (gpA O w lam) (st_applyT O X pa)))
      ) (rev_range M) w in
    let w := w_a w (upd (wa w) 0 (grav_sv M false)) in
    fold_left (fun (st : WS * list T) i =>
      let '(w, qdd) := st in
      let lam := getlam M i in
      let a1 := svadd O (st_apply O (gXl O w i) (ga O w lam)) (gc O w i) in
      let '(U, Dinv, u) := aba_get M w i in
      let qdd_i := mvmul O Dinv (vsub O u (cols_Tmul O U a1)) in
      let w := w_a w (upd (wa w) i (svadd O a1 (cols_mulv O (jS O M w i) qdd_i))) in
      (w, vset_seg qdd (jq (getJ M i)) qdd_i)) (body_range M) (w, qdd).

  (* ForwardDynamicsLagrangian: the dense solve is the model's own elimination *)
  Definition forward_dynamics_lagrangian (M : Model) (w : WS) (q qd tau : list T)
             (fext : option (list SV)) : WS * option (list T) * Mat (T:=T) * list T :=
    let n := dof_count M in
    let '(w, C) := inverse_dynamics M w q qd (vzeros t0 n) (vzeros t0 n) fext in
    let '(w, H) := crba M w q (mzeros t0 n n) false in
    (w, solve_pp O H (vsub O tau C), H, C).

  (* CalcMInvTimesTau *)
  Definition minv_times_tau (M : Model) (w : WS) (q tau : list T) (qdd : list T) (upd_kin : bool)
    : WS * list T :=
    let w := w_a (w_v w (upd (wv w) 0 (svzero O))) (upd (wa w) 0 (svzero O)) in
    let w := if upd_kin then
      fold_left (fun w i =>
        let w := jcalc_X_lambda_S O M w (nth i (update_order M) 0) q in
        let w := w_vJ w (upd (wvJ w) i (svzero O)) in
        let w := w_v w (upd (wv w) i (svzero O)) in
        let w := w_c w (upd (wc w) i (svzero O)) in
        let w := w_pA w (upd (wpA w) i (svzero O)) in
        w_IA w (upd (wIA w) i (rbi_toMatrix O (getI O M i)))) (body_range M) w
      else w in
    let w := fold_left (fun w i => w_pA w (upd (wpA w) i (svzero O))) (body_range M) w in
    let w := if upd_kin then fold_left (fun w i => aba_inertia_step M w i) (rev_range M) w else w in
    let w := fold_left (fun w i =>
      let w := aba_set_u M w i (vsub O (tau_seg M i tau) (cols_Tmul O (jS O M w i) (gpA O w i))) in
      let lam := getlam M i in
      if Nat.eqb lam 0 then w else
      let '(U, Dinv, u) := aba_get M w i in
      let pa := svadd O (gpA O w i) (cols_mulv O U (mvmul O Dinv u)) in
      w_pA w (upd (wpA w) lam (svadd O (gpA O w lam) (st_applyT O (gXl O w i) pa)))
      ) (rev_range M) w in
    fold_left (fun (st : WS * list T) i =>
      let '(w, qdd) := st in
      let lam := getlam M i in
      let a1 := svadd O (st_apply O (gXl O w i) (ga O w lam)) (gc O w i) in
      let '(U, Dinv, u) := aba_get M w i in
      let qdd_i := mvmul O Dinv (vsub O u (cols_Tmul O U a1)) in
      let w := w_a w (upd (wa w) i (svadd O a1 (cols_mulv O (jS O M w i) qdd_i))) in
      (w, vset_seg qdd (jq (getJ M i)) qdd_i)) (body_range M) (w, qdd).
End D.
