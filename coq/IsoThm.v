(* C20: instances of a state-passing model do not interfere.  For ANY step function (in particular every L2
   routine, whose only state is the Model / ConstraintSet value it is given), in any interleaved history over any
   number of instances, the outputs and the final state of instance i are those of i's own operations run alone. *)
From Coq Require Import List Arith Bool.
Import ListNotations.
Section Iso.
  Variables (St Op Out : Type).
  Variable step : St -> Op -> St * Out.
  Definition upd_inst (s : nat -> St) (i : nat) (x : St) : nat -> St := fun j => if Nat.eqb j i then x else s j.
  Fixpoint run_hist (s : nat -> St) (h : list (nat * Op)) : (nat -> St) * list (nat * Out) :=
    match h with
    | [] => (s, [])
    | (i, o) :: r => let '(x, out) := step (s i) o in
                     let '(s', outs) := run_hist (upd_inst s i x) r in (s', (i, out) :: outs)
    end.
  Fixpoint run_alone (x : St) (ops : list Op) : St * list Out :=
    match ops with
    | [] => (x, [])
    | o :: r => let '(x', out) := step x o in let '(x'', outs) := run_alone x' r in (x'', out :: outs)
    end.
  Definition ops_of (i : nat) (h : list (nat * Op)) : list Op := map snd (filter (fun p => Nat.eqb (fst p) i) h).
  Definition outs_of (i : nat) (l : list (nat * Out)) : list Out := map snd (filter (fun p => Nat.eqb (fst p) i) l).

  Theorem instances_do_not_interfere : forall h s i,
    fst (run_hist s h) i = fst (run_alone (s i) (ops_of i h)) /\
    outs_of i (snd (run_hist s h)) = snd (run_alone (s i) (ops_of i h)).
  Proof.
    induction h as [|[j o] r IH]; intros s i; cbn [run_hist ops_of outs_of filter map fst snd run_alone].
    - split; reflexivity.
    - destruct (step (s j) o) as [x out] eqn:E.
      destruct (run_hist (upd_inst s j x) r) as [s' outs] eqn:ER.
      specialize (IH (upd_inst s j x) i). rewrite ER in IH. cbn [fst snd] in IH.
      unfold ops_of, outs_of in *. cbn [filter map fst snd].
      destruct (Nat.eqb_spec j i) as [->|Hne].
      + cbn [map snd run_alone]. rewrite E.
        unfold upd_inst in IH. rewrite Nat.eqb_refl in IH.
        destruct (run_alone x (map snd (filter (fun p : nat * Op => Nat.eqb (fst p) i) r))) as [x2 o2].
        cbn [fst snd] in *. destruct IH as [A B]. split; [exact A|]. rewrite B. reflexivity.
      + unfold upd_inst in IH.
        replace (Nat.eqb i j) with false in IH by (symmetry; apply Nat.eqb_neq; congruence).
        exact IH.
  Qed.
End Iso.
