(* C03: the joint-space inertia matrix written by CompositeRigidBodyAlgorithm is symmetric, for every well-formed
   model, every workspace and every q.  The algorithm writes a diagonal block S_i^T Ic_i S_i and, walking to the
   base, pairs of blocks (qi,qj) / (qj,qi) that are transposes of each other; the coordinate ranges of distinct
   joints are disjoint (WF), so no later write disturbs the mirror image of an earlier one. *)
From Coq Require Import List Bool Arith NArith Lia Ring.
From RV Require Import Scalar Laws Tac LinAlg3 Spatial Quat ListArr ListLemmas ModelDef JointDef KinDef LinDef DynDef ConsDef
     Tree C14Thm WsLemmas KinThm DynThm LinThm ConsThm IdcThm JacThm JacThm3 DimThm EnergyThm.
Import ListNotations.

Section BlockWrite.
  Context {T : Type} (O : Ops T).
  Local Notation t0 := (o0 O).
  Local Notation Mat := (@Mat T).
  Local Notation ent := (entry O).

  Lemma mset_block_row (B : Mat) c : forall (A : Mat) r i, r + length B <= length A ->
    nth i (mset_block A r c B) [] =
    if (r <=? i) && (i <? r + length B) then vset_seg (nth i A []) c (nth (i - r) B []) else nth i A [].
  Proof.
    unfold mset_block. induction B as [|b B IH]; intros A r i HA; cbn [fold_left fst snd length] in *.
    - destruct (Nat.leb_spec r i), (Nat.ltb_spec i (r + 0)); cbn [andb]; try reflexivity; lia.
    - rewrite IH by (rewrite upd_length; lia).
      destruct (Nat.leb_spec (S r) i), (Nat.ltb_spec i (S r + length B)); cbn [andb];
      destruct (Nat.leb_spec r i), (Nat.ltb_spec i (r + S (length B))); cbn [andb]; try lia.
      + rewrite nth_upd_neq by lia. replace (i - r) with (S (i - S r)) by lia. reflexivity.
      + rewrite nth_upd_neq by lia. reflexivity.
      + assert (i = r) by lia. subst i. rewrite nth_upd_eq by lia. rewrite Nat.sub_diag. reflexivity.
      + rewrite nth_upd_neq by lia. reflexivity.
  Qed.

  Lemma ent_block_in (A B : Mat) r c nc i j : r + length B <= length A ->
    length (nth (i - r) B []) = nc -> c + nc <= length (nth i A []) ->
    r <= i < r + length B -> c <= j < c + nc ->
    ent (mset_block A r c B) i j = ent B (i - r) (j - c).
  Proof.
    intros HA HB Hc Hi Hj. unfold entry. rewrite mset_block_row by exact HA.
    destruct (Nat.leb_spec r i), (Nat.ltb_spec i (r + length B)); cbn [andb]; try lia.
    replace j with (c + (j - c)) at 1 by lia. apply nth_vset_seg_in; lia.
  Qed.
  Lemma ent_block_out (A B : Mat) r c nc i j : r + length B <= length A ->
    (r <= i < r + length B -> length (nth (i - r) B []) = nc) ->
    ~ (r <= i < r + length B /\ c <= j < c + nc) ->
    ent (mset_block A r c B) i j = ent A i j.
  Proof.
    intros HA HB Hn. unfold entry. rewrite mset_block_row by exact HA.
    destruct (Nat.leb_spec r i), (Nat.ltb_spec i (r + length B)); cbn [andb]; try reflexivity.
    apply nth_vset_seg_out. rewrite HB by lia. lia.
  Qed.

  (* a symmetric block written on the diagonal *)
  Lemma sym_diag (A D : Mat) n q d : WFm n A -> symmetric O n A -> length D = d ->
    (forall k, k < d -> length (nth k D []) = d) -> q + d <= n ->
    (forall a b, a < d -> b < d -> ent D a b = ent D b a) ->
    symmetric O n (mset_block A q q D).
  Proof.
    intros [LA RA] SA LD RD Hq SD i j Hi Hj.
    destruct (le_dec q i), (lt_dec i (q + d)), (le_dec q j), (lt_dec j (q + d));
      try (rewrite (ent_block_out A D q q d i j), (ent_block_out A D q q d j i);
           [apply SA; assumption | lia | intros; apply RD; lia | lia | lia | intros; apply RD; lia | lia]).
    rewrite (ent_block_in A D q q d i j), (ent_block_in A D q q d j i);
      try lia; try (apply RD; lia); try (rewrite RA by lia; lia).
    apply SD; lia.
  Qed.

  (* a block and its transpose written at mirrored, non-overlapping positions *)
  Lemma sym_pair (A B Bt : Mat) n qi di qj dj : WFm n A -> symmetric O n A ->
    length B = di -> (forall k, k < di -> length (nth k B []) = dj) ->
    length Bt = dj -> (forall k, k < dj -> length (nth k Bt []) = di) ->
    (forall a b, a < di -> b < dj -> ent Bt b a = ent B a b) ->
    qi + di <= n -> qj + dj <= n -> (qj + dj <= qi \/ qi + di <= qj) ->
    symmetric O n (mset_block (mset_block A qi qj B) qj qi Bt).
  Proof.
    intros WA SA LB RB LBt RBt Tr Hi Hj Dis i j Li Lj.
    pose proof (mset_block_dims B A qi qj) as D1.
    assert (W1 : WFm n (mset_block A qi qj B)) by (eapply wfm_of_dims; [exact D1|exact WA]).
    destruct WA as [LA RA]. destruct W1 as [L1 R1].
    set (A1 := mset_block A qi qj B) in *.
    assert (in1 : forall a b, qi <= a < qi + di -> qj <= b < qj + dj -> ent A1 a b = ent B (a - qi) (b - qj)).
    { intros a b Ha Hb. apply (ent_block_in A B qi qj dj); try lia; [apply RB; lia | rewrite RA by lia; lia]. }
    assert (out1 : forall a b, ~ (qi <= a < qi + di /\ qj <= b < qj + dj) -> ent A1 a b = ent A a b).
    { intros a b Hn. apply (ent_block_out A B qi qj dj); try lia. intros; apply RB; lia. }
    assert (in2 : forall a b, qj <= a < qj + dj -> qi <= b < qi + di ->
                  ent (mset_block A1 qj qi Bt) a b = ent Bt (a - qj) (b - qi)).
    { intros a b Ha Hb. apply (ent_block_in A1 Bt qj qi di); try lia; [apply RBt; lia | rewrite R1 by lia; lia]. }
    assert (out2 : forall a b, ~ (qj <= a < qj + dj /\ qi <= b < qi + di) ->
                   ent (mset_block A1 qj qi Bt) a b = ent A1 a b).
    { intros a b Hn. apply (ent_block_out A1 Bt qj qi di); try lia. intros; apply RBt; lia. }
    destruct (le_dec qj i), (lt_dec i (qj + dj)), (le_dec qi j), (lt_dec j (qi + di));
      try (destruct (le_dec qi i), (lt_dec i (qi + di)), (le_dec qj j), (lt_dec j (qj + dj));
           try (rewrite (out2 i j), (out2 j i), (out1 i j), (out1 j i) by lia; apply SA; assumption);
           rewrite (out2 i j), (in2 j i), (in1 i j) by lia; symmetry; apply Tr; lia).
    rewrite (in2 i j), (out2 j i), (in1 j i) by lia. apply Tr; lia.
  Qed.

  Lemma ent_mtn (B : Mat) c a b : b < c -> a < length B -> ent (mtranspose_n t0 B c) b a = ent B a b.
  Proof.
    intros Hb Ha. unfold entry. rewrite (nth_mtn O) by exact Hb. apply (nth_mcol O). exact Ha.
  Qed.
End BlockWrite.

Section CrbaSym.
  Context {T : Type} (O : Ops T) {FL : FieldLaws O}.
  Add Field FlFsy : (@fl_field T O FL).
  Local Notation t0 := (o0 O).
  Local Notation Model := (@Model T). Local Notation WS := (@WS T).
  Local Notation Mat := (@Mat T).
  Local Notation ent := (entry O).

  Lemma rbi_mulv_sym (I : RBI T) (a b : SV T) : svdot O a (rbi_mulv O I b) = svdot O b (rbi_mulv O I a).
  Proof. l1_split. ring. Qed.

  Variable M : Model.
  Hypothesis W : WF M.
  Let NB := nbodies M.
  Let n := dof_count M.

  Lemma nth_map_d {A B} (f : A -> B) (l : list A) k (da : A) (db : B) : k < length l -> nth k (map f l) db = f (nth k l da).
  Proof. intros Hk. rewrite (nth_indep _ db (f da)) by (rewrite map_length; exact Hk). apply map_nth. Qed.

  (* the walk towards the base keeps H symmetric *)
  Lemma crba_walk_sym (w2 : WS) (i : nat) (Hi : 0 < i < NB)
    (HS : forall k, 0 < k < NB -> length (jS O M w2 k) = jdof (getJ M k)) :
    forall (l : list nat) (acc : Mat * list (SV T) * nat),
      WFm n (fst (fst acc)) -> symmetric O n (fst (fst acc)) -> length (snd (fst acc)) = jdof (getJ M i) ->
      0 < snd acc <= i ->
      let r := fold_left (fun (acc : Mat * list (SV T) * nat) (_ : nat) =>
          let '(H, F, j) := acc in
          if Nat.eqb (getlam M j) 0 then acc else
          let F := map (st_applyT O (gXl O w2 j)) F in
          let j := getlam M j in
          let qj := jq (getJ M j) in
          let Sj := jS O M w2 j in
          let blk := map (fun f => map (fun s => svdot O f s) Sj) F in
          let H := mset_block H (jq (getJ M i)) qj blk in
          let H := mset_block H qj (jq (getJ M i)) (mtranspose_n t0 blk (length Sj)) in
          (H, F, j)) l acc in
      WFm n (fst (fst r)) /\ symmetric O n (fst (fst r)).
  Proof.
    induction l as [|x l IH]; intros [[Ha Fa] ja] WA SA LF Hj; cbn [fold_left fst snd] in *; [split; assumption|].
    destruct (Nat.eqb_spec (getlam M ja) 0) as [E0|N0].
    - apply IH; cbn [fst snd]; assumption.
    - pose proof (wf_parent M W ja ltac:(unfold NB in *; lia)) as Hl. fold (getlam M ja) in Hl.
      set (j' := getlam M ja) in *.
      assert (Lj : length (jS O M w2 j') = jdof (getJ M j')) by (apply HS; unfold NB in *; lia).
      pose proof (jq_mono M W j' i ltac:(lia) ltac:(unfold NB in *; lia)) as Mono.
      pose proof (jq_bound M W i ltac:(unfold NB in *; lia)) as Bi.
      pose proof (jq_bound M W j' ltac:(unfold NB in *; lia)) as Bj. fold n in Bi, Bj.
      set (blk := map (fun f => map (fun s => svdot O f s) (jS O M w2 j')) (map (st_applyT O (gXl O w2 ja)) Fa)).
      assert (Lb : length blk = jdof (getJ M i)) by (unfold blk; rewrite !map_length; exact LF).
      assert (Rb : forall k, k < jdof (getJ M i) -> length (nth k blk []) = jdof (getJ M j')).
      { intros k Hk. unfold blk.
        rewrite (nth_map_d _ _ k (svzero O) []) by (rewrite map_length; lia). rewrite map_length. exact Lj. }
      apply IH; cbn [fst snd].
      + eapply wfm_of_dims; [|exact WA].
        eapply SameDims_trans; [apply mset_block_dims|apply mset_block_dims].
      + rewrite Lj.
        apply (sym_pair O Ha blk (mtranspose_n t0 blk (jdof (getJ M j'))) n (jq (getJ M i)) (jdof (getJ M i)) (jq (getJ M j')) (jdof (getJ M j')));
          try assumption; try lia.
        * apply (mtn_length O).
        * intros k Hk. rewrite (nth_mtn O) by exact Hk. rewrite (mcol_length O). exact Lb.
        * intros a b Ha' Hb'. apply ent_mtn; lia.
      + rewrite map_length. exact LF.
      + lia.
  Qed.

  (* second phase of CRBA, for any workspace whose motion subspaces have the joints' sizes *)
  Definition crba_phase2 (w : WS) (H : Mat) : WS * Mat :=
    fold_left (fun (st : WS * Mat) i =>
      let '(w, H) := st in
      let lam := getlam M i in
      let w := if Nat.eqb lam 0 then w
               else w_Ic w (upd (wIc w) lam (rbi_add O (gIc O w lam) (st_applyT_rbi O (gXl O w i) (gIc O w i)))) in
      let qi := jq (getJ M i) in
      let Si := jS O M w i in
      let F := map (rbi_mulv O (gIc O w i)) Si in
      let H := mset_block H qi qi (map (fun s => map (fun f => svdot O s f) F) Si) in
      let '(H, _, _) :=
        fold_left (fun (acc : Mat * list (SV T) * nat) _ =>
          let '(H, F, j) := acc in
          if Nat.eqb (getlam M j) 0 then acc else
          let F := map (st_applyT O (gXl O w j)) F in
          let j := getlam M j in
          let qj := jq (getJ M j) in
          let Sj := jS O M w j in
          let blk := map (fun f => map (fun s => svdot O f s) Sj) F in
          let H := mset_block H qi qj blk in
          let H := mset_block H qj qi (mtranspose_n t0 blk (length Sj)) in
          (H, F, j)) (body_range M) (H, F, i) in
      (w, H)) (rev_range M) (w, H).

  Lemma in_rev_range i : In i (rev_range M) -> 0 < i < NB.
  Proof. unfold rev_range, body_range. rewrite <- in_rev, in_iota. unfold NB. lia. Qed.

  Lemma fold_left_inv_in {A B} (P : A -> Prop) (f : A -> B -> A) (l : list B) (a : A) :
    P a -> (forall a b, In b l -> P a -> P (f a b)) -> P (fold_left f l a).
  Proof.
    revert a; induction l as [|b l IH]; intros a Ha Hs; cbn; [exact Ha|].
    apply IH; [apply Hs; [left; reflexivity|exact Ha]|]. intros a' b' Hin. apply Hs. right. exact Hin.
  Qed.

  Lemma crba_phase2_sym (w : WS) (H : Mat) :
    (forall k, 0 < k < NB -> length (jS O M w k) = jdof (getJ M k)) -> WFm n H -> symmetric O n H ->
    WFm n (snd (crba_phase2 w H)) /\ symmetric O n (snd (crba_phase2 w H)).
  Proof.
    intros HS WH SH. unfold crba_phase2.
    apply (fold_left_inv_in (fun st : WS * Mat =>
             (forall k, 0 < k < NB -> length (jS O M (fst st) k) = jdof (getJ M k)) /\ WFm n (snd st) /\ symmetric O n (snd st))
             _ (rev_range M) (w, H)
             (conj HS (conj WH SH))
          ).
    intros [w1 H1] i Hin (HS1 & W1 & S1). cbn [fst snd] in *. apply in_rev_range in Hin.
    set (w2 := if Nat.eqb (getlam M i) 0 then w1
               else w_Ic w1 (upd (wIc w1) (getlam M i) (rbi_add O (gIc O w1 (getlam M i)) (st_applyT_rbi O (gXl O w1 i) (gIc O w1 i))))).
    assert (HS2 : forall k, 0 < k < NB -> length (jS O M w2 k) = jdof (getJ M k)).
    { intros k Hk. unfold w2. destruct (Nat.eqb (getlam M i) 0); [apply HS1; exact Hk|]. exact (HS1 k Hk). }
    pose proof (jq_bound M W i ltac:(unfold NB in *; lia)) as Bi. fold n in Bi.
    set (D := map (fun s => map (fun f => svdot O s f) (map (rbi_mulv O (gIc O w2 i)) (jS O M w2 i))) (jS O M w2 i)).
    assert (LD : length D = jdof (getJ M i)) by (unfold D; rewrite map_length; apply HS2; exact Hin).
    assert (RD : forall k, k < jdof (getJ M i) -> length (nth k D []) = jdof (getJ M i)).
    { intros k Hk. unfold D. rewrite (nth_map_d _ _ k (svzero O) []) by (rewrite HS2 by exact Hin; exact Hk).
      rewrite !map_length. apply HS2. exact Hin. }
    assert (SD : forall a b, a < jdof (getJ M i) -> b < jdof (getJ M i) -> ent D a b = ent D b a).
    { intros a b Ha Hb. unfold entry, D.
      rewrite (nth_map_d _ _ a (svzero O) []) by (rewrite HS2 by exact Hin; exact Ha).
      rewrite (nth_map_d _ _ b (svzero O) []) by (rewrite HS2 by exact Hin; exact Hb).
      rewrite (nth_map_d _ _ b (svzero O) t0) by (rewrite map_length, HS2 by exact Hin; exact Hb).
      rewrite (nth_map_d _ _ a (svzero O) t0) by (rewrite map_length, HS2 by exact Hin; exact Ha).
      rewrite (nth_map_d _ _ b (svzero O) (svzero O)) by (rewrite HS2 by exact Hin; exact Hb).
      rewrite (nth_map_d _ _ a (svzero O) (svzero O)) by (rewrite HS2 by exact Hin; exact Ha).
      apply rbi_mulv_sym. }
    pose proof (sym_diag O H1 D n (jq (getJ M i)) (jdof (getJ M i)) W1 S1 LD RD Bi SD) as S2.
    assert (W2 : WFm n (mset_block H1 (jq (getJ M i)) (jq (getJ M i)) D))
      by (eapply wfm_of_dims; [apply mset_block_dims|exact W1]).
    pose proof (crba_walk_sym w2 i Hin HS2 (body_range M)
                  (mset_block H1 (jq (getJ M i)) (jq (getJ M i)) D, map (rbi_mulv O (gIc O w2 i)) (jS O M w2 i), i)
                  W2 S2 ltac:(cbn [fst snd]; rewrite map_length; apply HS2; exact Hin) ltac:(cbn [snd]; lia)) as K.
    cbv zeta in K. fold w2. fold D.
    match goal with |- context [fold_left ?f (body_range M) ?a] =>
      match type of K with context [fold_left ?g (body_range M) a] => change g with f in K end;
      destruct (fold_left f (body_range M) a) as [[H3 F3] j3] end.
    cbn [fst snd] in *. split; [exact HS2|exact K].
  Qed.

  Lemma zeros_sym : symmetric O n (zerosM O n n).
  Proof. intros i j Hi Hj. exact (eq_trans (mget_zeros O n n i j) (eq_sym (mget_zeros O n n j i))). Qed.
End CrbaSym.

Section CrbaSymTop.
  Context {T : Type} (O : Ops T) {FL : FieldLaws O} {TL : TrigLaws O}.
  Hypothesis oeqb_spec : forall x y : T, oeqb O x y = true <-> x = y.
  Local Notation t0 := (o0 O).
  Local Notation Model := (@Model T). Local Notation WS := (@WS T).
  Variable M : Model.
  Hypothesis W : WF M.
  Let NB := nbodies M.
  Let n := dof_count M.

  (* CRBA called with update_kinematics = false: phase 1 only resets the composite inertias *)
  Lemma crba_false_phase2 (w : WS) q H :
    crba O M w q H false =
    crba_phase2 O M (fold_left (fun w i => w_Ic w (upd (wIc w) i (getI O M i))) (body_range M) w) H.
  Proof. reflexivity. Qed.

  Theorem crba_symmetric (w : WS) q :
    (forall k, 0 < k < NB -> length (jS O M w k) = jdof (getJ M k)) ->
    symmetric O n (snd (crba O M w q (zerosM O n n) false)).
  Proof.
    intros HS. rewrite crba_false_phase2.
    apply (crba_phase2_sym O M W); [|apply zerosM_wf|apply zeros_sym].
    apply (fold_left_inv (fun w' : WS => forall k, 0 < k < NB -> length (jS O M w' k) = jdof (getJ M k))); [exact HS|].
    intros w' b Hw' k Hk. exact (Hw' k Hk).
  Qed.

  Hypothesis cust_inj : forall i j, 0 < i < nbodies M -> 0 < j < nbodies M -> i <> j ->
    is_custom (jkind (getJ M i)) = true -> is_custom (jkind (getJ M j)) = true -> jcust (getJ M i) <> jcust (getJ M j).

  Theorem crba_symmetric_after_position_update (w0 : WS) q : Good O M w0 ->
    symmetric O n (snd (crba O M (ukc_q O M w0 q) q (zerosM O n n) false)).
  Proof.
    intros Hg. apply crba_symmetric. intros k Hk.
    exact (w_Slen O M q W cust_inj w0 Hg k Hk).
  Qed.

  (* C10: with v+ = 0 the kinetic energy lost in the impact is the kinetic energy of the velocity jump *)
  Theorem impulse_energy_loss (w0 : WS) q qdm cs w' qdp Lam : Good O M w0 -> length qdm = n ->
    constraint_impulses O M w0 q qdm cs (vzeros t0 (length cs)) = (w', Some (qdp, Lam)) ->
    let Hm := snd (crba O M (ukc_q O M w0 q) q (zerosM O n n) false) in
    osub O (odot O qdm (mvmul O Hm qdm)) (odot O qdp (mvmul O Hm qdp)) =
    odot O (vsub O qdm qdp) (mvmul O Hm (vsub O qdm qdp)).
  Proof.
    intros Hg Lq E. cbv zeta.
    pose proof (impulses_equations_sized O oeqb_spec M w0 q qdm cs (vzeros t0 (length cs)) w' qdp Lam
                  (wf_qdot M W) ltac:(unfold vzeros; apply repeat_length) E) as [Emom Efeas]. cbv zeta in Emom, Efeas. fold n in Emom, Efeas.
    assert (Lens : length qdp = n /\ length Lam = length cs).
    { unfold constraint_impulses in E. fold n in E.
      destruct (crba O M (ukc_q O M w0 q) q (zerosM O n n) false) as [w1 H1]. unfold kkt_solve in E.
      destruct (solve_pp O _ _) as [x|]; [|discriminate]. inversion E; subst. split; apply vslice_length. }
    destruct Lens as [Lp Ll].
    apply (carnot O _ (cons_G O M (fst (crba O M (ukc_q O M w0 q) q (zerosM O n n) false)) cs) n (length cs) qdm qdp Lam).
    - apply crba_wf.
    - apply crba_symmetric_after_position_update. exact Hg.
    - unfold cons_G. apply map_length.
    - intros k Hk. rewrite cons_G_rows by exact Hk. exact (wf_qdot M W).
    - exact Lq.
    - exact Lp.
    - exact Ll.
    - exact Emom.
    - exact Efeas.
  Qed.
End CrbaSymTop.
