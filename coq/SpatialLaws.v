(* L1 laws: the algebraic identities of C16 (and the lemmas every tree-level
   proof uses).  Proofs only; the model files contain no proofs. *)
From Coq Require Import List Bool Ring Field.
From Coq Require Import NsatzTactic.
From RV Require Import Scalar LinAlg3 Spatial Quat Tac Laws.

Section SpatialLaws.
  Context {T : Type} (O : Ops T) {FL : FieldLaws O}.
  Add Field FlF : (@fl_field T O FL).

  Local Notation "0" := (o0 O). Local Notation "1" := (o1 O).
  Local Infix "+" := (oadd O). Local Infix "*" := (omul O). Local Infix "-" := (osub O).

  Ltac rg := l1_split; ring.

  (* ---- orthonormality in component form ---- *)
  Definition orth_eqs (E : M3 T) : Prop :=
    m00 E * m00 E + m01 E * m01 E + m02 E * m02 E = 1 /\
    m10 E * m10 E + m11 E * m11 E + m12 E * m12 E = 1 /\
    m20 E * m20 E + m21 E * m21 E + m22 E * m22 E = 1 /\
    m00 E * m10 E + m01 E * m11 E + m02 E * m12 E = 0 /\
    m00 E * m20 E + m01 E * m21 E + m02 E * m22 E = 0 /\
    m10 E * m20 E + m11 E * m21 E + m12 E * m22 E = 0.
  Lemma orth_eqs_of E : m3orth O E -> orth_eqs E.
  Proof.
    unfold m3orth, orth_eqs. destruct E; cbv_sc. intro H. injection H. intros. repeat split; assumption.
  Qed.
  (* E E^T = I  ->  E^T E = I   (square matrices over an integral domain) *)
  Lemma orth_T E : m3orth O E -> m3orth O (m3T E).
  Proof.
    intro H. pose proof (orth_eqs_of E H) as (A & B & C & D & F & G); clear H.
    unfold m3orth. destruct E. cbv_sc_all. ext_rec; cbv_sc; nz.
  Qed.

  (* rotations: every entry equals its cofactor *)
  Definition cof_eqs (E : M3 T) : Prop :=
    m00 E = m11 E * m22 E - m12 E * m21 E /\ m01 E = m12 E * m20 E - m10 E * m22 E /\
    m02 E = m10 E * m21 E - m11 E * m20 E /\ m10 E = m02 E * m21 E - m01 E * m22 E /\
    m11 E = m00 E * m22 E - m02 E * m20 E /\ m12 E = m01 E * m20 E - m00 E * m21 E /\
    m20 E = m01 E * m12 E - m02 E * m11 E /\ m21 E = m02 E * m10 E - m00 E * m12 E /\
    m22 E = m00 E * m11 E - m01 E * m10 E.
  Lemma cof_eqs_of E : m3rot O E -> cof_eqs E.
  Proof.
    intros [H Hd]. pose proof (orth_eqs_of E H) as (A & B & C & D & F & G); clear H.
    unfold cof_eqs. destruct E. cbv_sc_all. repeat split; nz.
  Qed.
  Lemma rotT E : m3rot O E -> m3rot O (m3T E).
  Proof.
    intros [H Hd]. split; [apply orth_T; exact H|]. rewrite <- Hd. destruct E; cbv_sc; ring.
  Qed.
  (* rotations commute with the cross product *)
  Lemma rot_cross E a b : m3rot O E -> m3v O E (v3cross O a b) = v3cross O (m3v O E a) (m3v O E b).
  Proof.
    intro H. pose proof (cof_eqs_of E H) as (c0 & c1 & c2 & c3 & c4 & c5 & c6 & c7 & c8); clear H.
    destruct E, a, b. cbv_sc_all. ext_rec; cbv_sc.
    - rewrite c0, c1, c2 at 1. ring.
    - rewrite c3, c4, c5 at 1. ring.
    - rewrite c6, c7, c8 at 1. ring.
  Qed.
  Lemma orth_Tv E w : m3orth O E -> m3Tv O E (m3v O E w) = w.
  Proof.
    intro H. pose proof (orth_eqs_of _ (orth_T _ H)) as (A & B & C & D & F & G); clear H.
    destruct E, w. cbv_sc_all. ext_rec; cbv_sc; nz.
  Qed.
  Lemma orth_vT E w : m3orth O E -> m3v O E (m3Tv O E w) = w.
  Proof.
    intro H. pose proof (orth_eqs_of _ H) as (A & B & C & D & F & G); clear H.
    destruct E, w. cbv_sc_all. ext_rec; cbv_sc; nz.
  Qed.

  (* ---- 1. compact operations = 6x6 matrix definitions ---- *)
  Theorem apply_is_matrix X v : st_apply O X v = m66v O (st_toMatrix O X) v.
  Proof. rg. Qed.
  Theorem applyT_is_matrix X f : st_applyT O X f = m66Tv O (st_toMatrix O X) f.
  Proof. rg. Qed.
  Theorem applyT_is_matrixTranspose X f : st_applyT O X f = m66v O (st_toMatrixTranspose O X) f.
  Proof. rg. Qed.
  Theorem toMatrixTranspose_is_T X : st_toMatrixTranspose O X = m66T (st_toMatrix O X).
  Proof. rg. Qed.
  Theorem applyAdj_is_matrix X f : st_applyAdj O X f = m66v O (st_toMatrixAdjoint O X) f.
  Proof. rg. Qed.
  Theorem rbi_mulv_is_matrix I v : rbi_mulv O I v = m66v O (rbi_toMatrix O I) v.
  Proof. rg. Qed.
  Theorem rbi_add_is_matrix a b : rbi_toMatrix O (rbi_add O a b) = m66add O (rbi_toMatrix O a) (rbi_toMatrix O b).
  Proof. rg. Qed.
  Theorem rbi_fromMatrix_toMatrix I : rbi_fromMatrix O (rbi_toMatrix O I) = I.
  Proof. rg. Qed.
  (* duality: (X v) . f = v . (X^T f) *)
  Theorem apply_dual X v f : svdot O (st_apply O X v) f = svdot O v (st_applyT O X f).
  Proof. rg. Qed.

  (* ---- 2. composition: associativity, identity, inverse ---- *)
  Theorem st_mul_assoc X Y Z : st_mul O (st_mul O X Y) Z = st_mul O X (st_mul O Y Z).
  Proof. rg. Qed.
  Theorem st_mul_id_l X : st_mul O (stid O) X = X.
  Proof. rg. Qed.
  Theorem st_mul_id_r X : st_mul O X (stid O) = X.
  Proof. rg. Qed.
  Theorem st_mul_inv_r X : m3orth O (stE X) -> st_mul O X (st_inv O X) = stid O.
  Proof.
    intro H. pose proof (orth_eqs_of _ H) as (A & B & C & D & F & G); clear H.
    destruct X as [E r]; destruct E, r. cbv_sc_all. ext_rec; cbv_sc; nz.
  Qed.
  Theorem st_mul_inv_l X : m3orth O (stE X) -> st_mul O (st_inv O X) X = stid O.
  Proof.
    intro H. pose proof (orth_eqs_of _ (orth_T _ H)) as (A & B & C & D & F & G); clear H.
    destruct X as [E r]; destruct E, r. cbv_sc_all. ext_rec; cbv_sc; nz.
  Qed.
  Theorem m66v_mul A B v : m66v O (m66mul O A B) v = m66v O A (m66v O B v).
  Proof. rg. Qed.
  Lemma svang_svof (a b : V3 T) : svang (svof a b) = a.
  Proof. destruct a, b; reflexivity. Qed.
  Lemma svlin_svof (a b : V3 T) : svlin (svof a b) = b.
  Proof. destruct a, b; reflexivity. Qed.
  Lemma m3v_mul A B w : m3v O (m3mul O A B) w = m3v O A (m3v O B w).
  Proof. rg. Qed.
  Theorem st_apply_mul X Y v : m3rot O (stE Y) ->
    st_apply O (st_mul O X Y) v = st_apply O X (st_apply O Y v).
  Proof.
    intro H. destruct H as [Ho Hd].
    assert (Hc : forall a b, m3v O (stE Y) (v3cross O a b) = v3cross O (m3v O (stE Y) a) (m3v O (stE Y) b))
      by (intros; apply rot_cross; split; assumption).
    pose proof (orth_vT (stE Y) (str X) Ho) as Hv.
    unfold st_apply, st_mul; cbn [stE str]. rewrite svang_svof, svlin_svof.
    set (EY := stE Y) in *. set (EX := stE X). set (rX := str X) in *. set (rY := str Y).
    set (w := svang v). set (l := svlin v).
    f_equal; [apply m3v_mul|].
    rewrite <- Hv at 2. rewrite <- Hc. clearbody EY EX rX rY w l. l1_split; ring.
  Qed.
  Theorem apply_inv_apply X v : m3rot O (stE X) -> st_apply O (st_inv O X) (st_apply O X v) = v.
  Proof.
    intro H. rewrite <- st_apply_mul by exact H. rewrite st_mul_inv_l by (apply H).
    l1_split; ring.
  Qed.
  Theorem st_toMatrix_mul X Y : m3rot O (stE Y) ->
    st_toMatrix O (st_mul O X Y) = m66mul O (st_toMatrix O X) (st_toMatrix O Y).
  Proof.
    intro H. pose proof (cof_eqs_of _ H) as (c0 & c1 & c2 & c3 & c4 & c5 & c6 & c7 & c8).
    pose proof (orth_eqs_of _ (proj1 H)) as (A & B & C & D & F & G); clear H.
    destruct X as [EX rX], Y as [EY rY]; destruct EX, EY, rX, rY. cbv_sc_all.
    ext_rec; cbv_sc; try ring; nz.
  Qed.
  Theorem inv_matrix X : m3rot O (stE X) ->
    m66mul O (st_toMatrix O (st_inv O X)) (st_toMatrix O X) = m66id O.
  Proof.
    intro H. rewrite <- st_toMatrix_mul by exact H. rewrite st_mul_inv_l by apply H. l1_split; ring.
  Qed.

  (* ---- 3. cross products ---- *)
  Theorem crossm_is_matrix v w : crossm O v w = m66v O (crossm_mat O v) w.
  Proof. rg. Qed.
  Theorem crossf_is_matrix v f : crossf O v f = m66v O (crossf_mat O v) f.
  Proof. rg. Qed.
  Theorem crossf_neg_crossmT v : crossf_mat O v = m66scale O (oopp O 1) (m66T (crossm_mat O v)).
  Proof. rg. Qed.
  Theorem crossf_dual v w f : svdot O (crossm O v w) f = oopp O (svdot O w (crossf O v f)).
  Proof. rg. Qed.

  (* ---- 4. power invariance under a common change of frame ---- *)
  Theorem power_invariant X v f : m3orth O (stE X) ->
    svdot O (st_apply O X v) (st_applyAdj O X f) = svdot O v f.
  Proof.
    intro H. pose proof (orth_eqs_of _ (orth_T _ H)) as (A & B & C & D & F & G); clear H.
    destruct X as [E r]; destruct E, r, v, f. cbv_sc_all. nz.
  Qed.
End SpatialLaws.
