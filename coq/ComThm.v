(* C12: the total mass returned by CalcCenterOfMass is the sum of the masses of the bodies 1..N-1 (the movable
   bodies with everything rigidly attached to them), for every well-formed tree and every workspace: the inward
   accumulation of the composite inertias moves mass from a body to its parent (or to the total) and loses none. *)
From Coq Require Import List Bool Arith NArith Lia Ring Field.
From RV Require Import Scalar Laws Tac LinAlg3 Spatial Quat ListArr ListLemmas ModelDef JointDef KinDef LinDef LinThm DynDef UtilDef
     Tree C14Thm WsLemmas KinThm.
Import ListNotations.

Section Com.
  Context {T : Type} (O : Ops T) {FL : FieldLaws O}.
  Add Field FlFcom : (@fl_field T O FL).
  Local Notation t0 := (o0 O).
  Local Notation Model := (@Model T). Local Notation WS := (@WS T).
  Variable M : Model.
  Hypothesis W : WF M.
  Let NB := nbodies M.

  (* sum of f over the bodies 1 .. k-1 *)
  Definition bsum (f : nat -> T) (k : nat) : T := fsum O f (iota 1 (Nat.pred k)) t0.
  Lemma bsum_S f k : 0 < k -> bsum f (S k) = oadd O (bsum f k) (f k).
  Proof.
    intros Hk. unfold bsum. cbn [Nat.pred]. destruct k as [|k]; [lia|]. cbn [Nat.pred].
    rewrite iota_snoc, (fsum_app O). cbn [fsum fold_left]. reflexivity.
  Qed.
  Lemma bsum_ext f g k : (forall j, 0 < j < k -> f j = g j) -> bsum f k = bsum g k.
  Proof. intros H. unfold bsum. apply (fsum_ext O). intros j Hj. apply in_iota in Hj. apply H. lia. Qed.
  (* changing one term *)
  Lemma fsum_bump f g l delta : forall m a, a <= l < a + m ->
    g l = oadd O (f l) delta -> (forall j, j <> l -> g j = f j) ->
    fsum O g (iota a m) t0 = oadd O (fsum O f (iota a m) t0) delta.
  Proof.
    induction m as [|m IH]; intros a Hl Hg Ho; [lia|].
    cbn [iota]. rewrite !(fsum_cons O), !(fsum_acc O _ (iota (S a) m) (oadd O t0 _)).
    destruct (Nat.eq_dec a l) as [->|ne].
    - rewrite Hg. rewrite (fsum_ext O g f) by (intros j Hj; apply in_iota in Hj; apply Ho; lia). ring.
    - rewrite (Ho a ne). rewrite (IH (S a)) by (try assumption; lia). ring.
  Qed.
  Lemma bsum_bump f g l delta k : 0 < l < k -> g l = oadd O (f l) delta -> (forall j, j <> l -> g j = f j) ->
    bsum g k = oadd O (bsum f k) delta.
  Proof. intros Hl. unfold bsum. apply fsum_bump. lia. Qed.

  Lemma rm_add (a b : RBI T) : rm (rbi_add O a b) = oadd O (rm a) (rm b).
  Proof. destruct a, b. reflexivity. Qed.
  Lemma rm_applyT (X : ST T) (I : RBI T) : rm (st_applyT_rbi O X I) = rm I.
  Proof. destruct X, I. reflexivity. Qed.

  (* phase 1: the composite inertias are reset to the body inertias *)
  Definition com_reset (w : WS) : WS := fold_left (fun w i => w_Ic w (upd (wIc w) i (getI O M i))) (body_range M) w.
  Lemma com_reset_spec (w : WS) : length (wIc w) = NB ->
    length (wIc (com_reset w)) = NB /\ (forall j, 0 < j < NB -> gIc O (com_reset w) j = getI O M j) /\
    wXl (com_reset w) = wXl w.
  Proof.
    intros L. unfold com_reset, body_range. pose proof (wf_pos M W) as Hpos. fold NB in Hpos.
    pose proof (fold_iota_inv (fun w i => w_Ic w (upd (wIc w) i (getI O M i)))
                  (fun w' k => length (wIc w') = NB /\ (forall j, 0 < j < k -> gIc O w' j = getI O M j) /\ wXl w' = wXl w)
                  (Nat.pred NB) 1 w) as K.
    replace (1 + Nat.pred NB) with NB in K by lia. apply K; clear K.
    - split; [exact L|split; [intros j Hj; lia|reflexivity]].
    - intros w' i Hi (L' & G & X). cbn [wIc w_Ic wXl]. split; [rewrite upd_length; exact L'|split; [|exact X]].
      intros j Hj. unfold gIc. cbn [wIc w_Ic]. destruct (Nat.eq_dec j i) as [->|ne].
      + apply nth_upd_eq. lia.
      + rewrite nth_upd_neq by auto. apply G. lia.
  Qed.

  (* phase 2 *)
  Definition CSt : Type := (WS * list (SV T) * list (SV T) * RBI T * SV T * SV T)%type.
  Definition com_step (st : CSt) (i : nat) : CSt :=
    let '(w, hc, hd, It, ht, hdt) := st in
    let lam := getlam M i in
    let X := gXl O w i in
    if Nat.eqb lam 0 then
      (w, hc, hd, rbi_add O It (st_applyT_rbi O X (gIc O w i)),
       svadd O ht (st_applyT O X (nth i hc (svzero O))),
       svadd O hdt (st_applyT O X (nth i hd (svzero O))))
    else
      (w_Ic w (upd (wIc w) lam (rbi_add O (gIc O w lam) (st_applyT_rbi O X (gIc O w i)))),
       upd hc lam (svadd O (nth lam hc (svzero O)) (st_applyT O X (nth i hc (svzero O)))),
       upd hd lam (svadd O (nth lam hd (svzero O)) (st_applyT O X (nth i hd (svzero O)))),
       It, ht, hdt).
  Definition st_w (st : CSt) : WS := fst (fst (fst (fst (fst st)))).
  Definition st_It (st : CSt) : RBI T := snd (fst (fst st)).

  Definition MInv (total : T) (st : CSt) (k : nat) : Prop :=
    length (wIc (st_w st)) = NB /\
    oadd O (rm (st_It st)) (bsum (fun j => rm (gIc O (st_w st) j)) k) = total.

  Lemma com_step_inv total st k : 1 <= k <= Nat.pred NB -> MInv total st (S k) -> MInv total (com_step st k) k.
  Proof.
    intros Hk [L E]. destruct st as [[[[[w hc] hd] It] ht] hdt]. unfold st_w, st_It in *. cbn [fst snd] in *.
    unfold com_step. rewrite bsum_S in E by lia.
    destruct (Nat.eqb_spec (getlam M k) 0) as [e|ne]; unfold MInv, st_w, st_It; cbn [fst snd].
    - split; [exact L|]. rewrite rm_add, rm_applyT. rewrite <- E. ring.
    - pose proof (wf_parent M W k ltac:(unfold NB in *; lia)) as Hl. fold (getlam M k) in Hl.
      cbn [wIc w_Ic]. split; [rewrite upd_length; exact L|].
      rewrite (bsum_bump (fun j => rm (gIc O w j)) _ (getlam M k) (rm (gIc O w k))).
      + rewrite <- E. ring.
      + lia.
      + unfold gIc at 1. cbn [wIc w_Ic]. rewrite nth_upd_eq by lia. rewrite rm_add, rm_applyT. reflexivity.
      + intros j Hj. unfold gIc at 1. cbn [wIc w_Ic]. rewrite nth_upd_neq by auto. reflexivity.
  Qed.

  Lemma com_sweep_unfold (w : WS) :
    com_sweep O M w =
    let w1 := com_reset w in
    let hc := map (fun i => rbi_mulv O (gIc O w1 i) (gv O w1 i)) (iota 0 NB) in
    let hd := map (fun i => svadd O (rbi_mulv O (gIc O w1 i) (ga O w1 i))
                               (crossf O (gv O w1 i) (rbi_mulv O (gIc O w1 i) (gv O w1 i)))) (iota 0 NB) in
    let '(w2, _, _, It, ht, hdt) := fold_left com_step (rev_range M) (w1, hc, hd, rbi_zero O, svzero O, svzero O) in
    (w2, It, ht, hdt).
  Proof. reflexivity. Qed.

  Theorem com_sweep_total_mass (w : WS) : length (wIc w) = NB ->
    rm (snd (fst (fst (com_sweep O M w)))) = bsum (fun j => rm (getI O M j)) NB.
  Proof.
    intros L. rewrite com_sweep_unfold. cbv zeta.
    destruct (com_reset_spec w L) as (L1 & G1 & _).
    set (w1 := com_reset w) in *.
    set (st0 := (w1, _, _, rbi_zero O, svzero O, svzero O)).
    pose proof (wf_pos M W) as Hpos. fold NB in Hpos.
    assert (K : MInv (bsum (fun j => rm (getI O M j)) NB) (fold_left com_step (rev_range M) st0) 1).
    { unfold rev_range, body_range. fold NB.
      apply (fold_rev_iota_inv com_step (MInv (bsum (fun j => rm (getI O M j)) NB))).
      - replace (S (Nat.pred NB)) with NB by lia. unfold MInv, st0, st_w, st_It. cbn [fst snd]. split; [exact L1|].
        rewrite (bsum_ext (fun j => rm (gIc O w1 j)) (fun j => rm (getI O M j))) by (intros j Hj; rewrite G1 by exact Hj; reflexivity).
        cbn [rbi_zero rm]. ring.
      - intros st k Hk HI. apply com_step_inv; assumption. }
    destruct (fold_left com_step (rev_range M) st0) as [[[[[w2 hc2] hd2] It2] ht2] hdt2].
    destruct K as [_ K]. unfold st_w, st_It in K. cbn [fst snd] in K |- *.
    assert (Z : bsum (fun j => rm (gIc O w2 j)) 1 = t0) by reflexivity.
    rewrite Z in K. rewrite <- K. ring.
  Qed.

  Lemma fold_left_inv_eq {A B C} (p : A -> C) (f : A -> B -> A) (l : list B) (a : A) :
    (forall a b, p (f a b) = p a) -> p (fold_left f l a) = p a.
  Proof. intros H. revert a; induction l as [|b l IH]; intros a; cbn; [reflexivity|]. rewrite IH. apply H. Qed.

  (* ---------- centre of mass: the first moment of mass accumulated by the sweep ---------- *)
  (* first moment (mass x centre of mass) of I seen from the frame X maps from *)
  Definition mom (X : ST T) (I : RBI T) : V3 T := v3add O (m3Tv O (stE X) (rh I)) (v3scale O (rm I) (str X)).
  Lemma rh_add (a b : RBI T) : rh (rbi_add O a b) = v3add O (rh a) (rh b).
  Proof. destruct a, b. reflexivity. Qed.
  Lemma rh_applyT (X : ST T) (I : RBI T) : rh (st_applyT_rbi O X I) = mom X I.
  Proof. destruct X, I. reflexivity. Qed.
  Lemma mom_add X a b : mom X (rbi_add O a b) = v3add O (mom X a) (mom X b).
  Proof. unfold mom. rewrite rh_add, rm_add. destruct X as [E r], E, r, (rh a), (rh b). cbv_sc. f_equal; ring. Qed.
  Lemma mom_compose X Y I : mom Y (st_applyT_rbi O X I) = mom (st_mul O X Y) I.
  Proof.
    unfold mom at 1. rewrite rh_applyT, rm_applyT. unfold mom.
    destruct X as [E r], Y as [F s], E, F, r, s, (rh I). cbv_sc. f_equal; ring.
  Qed.
  (* for a body given by mass, centre of mass c and central inertia: mass x (position of c in the outer frame) *)
  Lemma mom_of_mci X m c Ic : mom X (rbi_from_mci O m c Ic) = v3scale O m (v3add O (str X) (m3Tv O (stE X) c)).
  Proof. destruct X as [E r], E, r, c. cbv_sc. f_equal; ring. Qed.

  Section Moment.
    Variable pr : V3 T -> T.                         (* a coordinate *)
    Hypothesis pr_add : forall a b, pr (v3add O a b) = oadd O (pr a) (pr b).
    Variable w1 : WS.                                (* the workspace after phase 1 *)
    Hypothesis HX : forall i, 0 < i < NB ->
      gXb O w1 i = if Nat.eqb (getlam M i) 0 then gXl O w1 i else st_mul O (gXl O w1 i) (gXb O w1 (getlam M i)).

    Definition HInv (total : T) (st : CSt) (k : nat) : Prop :=
      length (wIc (st_w st)) = NB /\ wXb (st_w st) = wXb w1 /\ wXl (st_w st) = wXl w1 /\
      oadd O (pr (rh (st_It st))) (bsum (fun j => pr (mom (gXb O w1 j) (gIc O (st_w st) j))) k) = total.

    Lemma com_step_hinv total st k : 1 <= k <= Nat.pred NB -> HInv total st (S k) -> HInv total (com_step st k) k.
    Proof.
      intros Hk (L & EXb & EXl & E). destruct st as [[[[[w hc] hd] It] ht] hdt]. unfold st_w, st_It in *. cbn [fst snd] in *.
      unfold com_step. rewrite bsum_S in E by lia.
      assert (Hk' : 0 < k < NB) by (unfold NB in *; lia).
      assert (GXl : gXl O w k = gXl O w1 k) by (unfold gXl; rewrite EXl; reflexivity).
      pose proof (HX k Hk') as Hx.
      destruct (Nat.eqb_spec (getlam M k) 0) as [e|ne]; unfold HInv, st_w, st_It; cbn [fst snd].
      - repeat split; try assumption. rewrite rh_add, pr_add, rh_applyT, GXl, <- Hx. rewrite <- E. ring.
      - pose proof (wf_parent M W k Hk') as Hl. fold (getlam M k) in Hl.
        cbn [wIc w_Ic wXb wXl]. repeat split; try assumption; [rewrite upd_length; exact L|].
        rewrite (bsum_bump (fun j => pr (mom (gXb O w1 j) (gIc O w j))) _ (getlam M k) (pr (mom (gXb O w1 k) (gIc O w k)))).
        + rewrite <- E. ring.
        + lia.
        + unfold gIc at 1. cbn [wIc w_Ic]. rewrite nth_upd_eq by lia.
          fold (gIc O w (getlam M k)). rewrite mom_add, pr_add, mom_compose, GXl, <- Hx. reflexivity.
        + intros j Hj. unfold gIc at 1. cbn [wIc w_Ic]. rewrite nth_upd_neq by auto. reflexivity.
    Qed.
  End Moment.

  Theorem com_sweep_first_moment (pr : V3 T -> T) (pr_add : forall a b, pr (v3add O a b) = oadd O (pr a) (pr b))
          (pr_0 : pr (v3zero O) = t0) (w : WS) : length (wIc w) = NB ->
    (forall i, 0 < i < NB ->
      gXb O w i = if Nat.eqb (getlam M i) 0 then gXl O w i else st_mul O (gXl O w i) (gXb O w (getlam M i))) ->
    pr (rh (snd (fst (fst (com_sweep O M w))))) = bsum (fun j => pr (mom (gXb O w j) (getI O M j))) NB.
  Proof.
    intros L HX. rewrite com_sweep_unfold. cbv zeta.
    destruct (com_reset_spec w L) as (L1 & G1 & X1).
    assert (Xb1 : wXb (com_reset w) = wXb w).
    { unfold com_reset. apply (fold_left_inv_eq (fun w' => wXb w')). intros; reflexivity. }
    set (w1 := com_reset w) in *.
    assert (HX1 : forall i, 0 < i < NB ->
      gXb O w1 i = if Nat.eqb (getlam M i) 0 then gXl O w1 i else st_mul O (gXl O w1 i) (gXb O w1 (getlam M i))).
    { intros i Hi. unfold gXb, gXl. rewrite Xb1, X1. apply HX. exact Hi. }
    set (st0 := (w1, _, _, rbi_zero O, svzero O, svzero O)).
    pose proof (wf_pos M W) as Hpos. fold NB in Hpos.
    set (total := bsum (fun j => pr (mom (gXb O w j) (getI O M j))) NB).
    assert (K : HInv pr w1 total (fold_left com_step (rev_range M) st0) 1).
    { unfold rev_range, body_range. fold NB.
      apply (fold_rev_iota_inv com_step (HInv pr w1 total)).
      - replace (S (Nat.pred NB)) with NB by lia. unfold HInv, st0, st_w, st_It. cbn [fst snd]. repeat split; try assumption; try reflexivity.
        unfold total.
        rewrite (bsum_ext (fun j => pr (mom (gXb O w1 j) (gIc O w1 j))) (fun j => pr (mom (gXb O w j) (getI O M j)))).
        + cbn [rbi_zero rh]. rewrite pr_0. ring.
        + intros j Hj. rewrite G1 by exact Hj. unfold gXb. rewrite Xb1. reflexivity.
      - intros st k Hk HI. apply (com_step_hinv pr pr_add w1 HX1); assumption. }
    destruct (fold_left com_step (rev_range M) st0) as [[[[[w2 hc2] hd2] It2] ht2] hdt2].
    destruct K as (_ & _ & _ & K). unfold st_w, st_It in K. cbn [fst snd] in K |- *.
    assert (Z : bsum (fun j => pr (mom (gXb O w1 j) (gIc O w2 j))) 1 = t0) by reflexivity.
    rewrite Z in K. rewrite <- K. ring.
  Qed.


  (* the position update leaves X_base composed from the joint transforms it wrote *)
  Definition Chain (w' : WS) (i : nat) : Prop :=
    gXb O w' i = if Nat.eqb (getlam M i) 0 then gXl O w' i else st_mul O (gXl O w' i) (gXb O w' (getlam M i)).
  Definition ChainInv (w' : WS) (k : nat) : Prop := ws_len w' NB /\ forall i, 0 < i < k -> i < NB -> Chain w' i.
  Lemma ukc_q_step_chain q w' k : 1 <= k < 1 + Nat.pred NB -> ChainInv w' k -> ChainInv (ukc_q_step O M q w' k) (S k).
  Proof.
    intros Hk [L I]. unfold ukc_q_step.
    set (w1 := jcalc O M w' k q (vzeros t0 (q_size M))).
    assert (L1 : ws_len w1 NB) by (apply jcalc_len; exact L).
    pose proof (jcalc_untouched O true M w' k q (vzeros t0 (q_size M))) as U. cbv zeta in U.
    fold (jcalc O M w' k q (vzeros t0 (q_size M))) in U. fold w1 in U. destruct U as (UXb & _).
    assert (LXb : length (wXb w1) = NB) by (unfold ws_len in L1; decompose [and] L1; assumption).
    split.
    - unfold ws_len in *. cbn [wXl wXb wv wa wc wvJ wcJ wS wf wpA wU wmS wmU wmDinv wmu wIc wIA wd wu wcS wcU wcDinv wcu w_Xb].
      rewrite upd_length. exact L1.
    - intros i Hi Hn. unfold Chain, gXb, gXl. cbn [wXb wXl w_Xb].
      destruct (Nat.eq_dec i k) as [->|ne].
      + rewrite nth_upd_eq by lia.
        pose proof (wf_parent M W k ltac:(unfold NB in *; lia)) as Hl. fold (getlam M k) in Hl.
        destruct (Nat.eqb_spec (getlam M k) 0); [reflexivity|].
        unfold gXb. rewrite nth_upd_neq by lia. reflexivity.
      + rewrite nth_upd_neq by auto.
        pose proof (wf_parent M W i ltac:(unfold NB in *; lia)) as Hl. fold (getlam M i) in Hl.
        rewrite (nth_upd_neq _ _ k (getlam M i)) by lia.
        assert (E : gXl O w1 i = gXl O w' i)
          by (unfold w1, jcalc; apply (proj1 (jcalc_other O true M w' k q (vzeros t0 (q_size M)) i ne))).
        fold (gXl O w1 i). rewrite E, UXb. apply I; lia.
  Qed.
  Lemma ukc_q_chain (w : WS) q : ws_len w NB -> forall i, 0 < i < NB -> Chain (ukc_q O M w q) i.
  Proof.
    intros Hlen. rewrite ukc_q_is_fold. unfold body_range.
    pose proof (wf_pos M W) as Hpos. fold NB in Hpos.
    pose proof (fold_iota_inv (ukc_q_step O M q) ChainInv (Nat.pred NB) 1 w) as K.
    replace (1 + Nat.pred NB) with NB in K by lia.
    destruct K as [_ K].
    - split; [exact Hlen|intros; lia].
    - intros w' k Hk. apply ukc_q_step_chain. lia.
    - intros i Hi. apply K; lia.
  Qed.

  (* CalcCenterOfMass after the position update: mass x com = sum over the bodies of mass_j x (position of the
     body's centre of mass in base coordinates), coordinate by coordinate *)
  Theorem center_of_mass_is_mass_weighted_mean (w0 : WS) q qd qdd : ws_len w0 NB ->
    let w := ukc_q O M w0 q in
    let C := snd (calc_center_of_mass O M w q qd qdd false) in
    c_mass C <> t0 ->
    omul O (c_mass C) (vx (c_com C)) = bsum (fun j => vx (mom (gXb O w j) (getI O M j))) NB /\
    omul O (c_mass C) (vy (c_com C)) = bsum (fun j => vy (mom (gXb O w j) (getI O M j))) NB /\
    omul O (c_mass C) (vz (c_com C)) = bsum (fun j => vz (mom (gXb O w j) (getI O M j))) NB.
  Proof.
    intros L. cbv zeta.
    assert (Lq : ws_len (ukc_q O M w0 q) NB) by (apply (proj1 (ukc_q_spec O M w0 q W L))).
    assert (LIc : length (wIc (ukc_q O M w0 q)) = NB) by (unfold ws_len in Lq; decompose [and] Lq; assumption).
    pose proof (ukc_q_chain w0 q L) as HC.
    pose proof (com_sweep_first_moment (fun v => vx v) (fun a b => match a, b with mkV3 _ _ _, mkV3 _ _ _ => eq_refl end) eq_refl _ LIc HC) as Kx.
    pose proof (com_sweep_first_moment (fun v => vy v) (fun a b => match a, b with mkV3 _ _ _, mkV3 _ _ _ => eq_refl end) eq_refl _ LIc HC) as Ky.
    pose proof (com_sweep_first_moment (fun v => vz v) (fun a b => match a, b with mkV3 _ _ _, mkV3 _ _ _ => eq_refl end) eq_refl _ LIc HC) as Kz.
    unfold calc_center_of_mass. destruct (com_sweep O M (ukc_q O M w0 q)) as [[[w2 It] ht] hdt].
    cbn [fst snd c_mass c_com vx vy vz] in *. intros Hm.
    rewrite <- Kx, <- Ky, <- Kz. repeat split; field; exact Hm.
  Qed.

  (* the position / velocity / acceleration updates do not touch the composite-inertia array *)
  Lemma jcalc_Ic (w : WS) i q qd : wIc (jcalc O M w i q qd) = wIc w.
  Proof.
    pose proof (jcalc_untouched O true M w i q qd) as U. cbv zeta in U.
    fold (jcalc O M w i q qd) in U. decompose [and] U. assumption.
  Qed.
  Lemma ukc_Ic (w : WS) q qd qdd : wIc (update_kinematics_custom O M w q qd qdd) = wIc w.
  Proof.
    unfold update_kinematics_custom.
    assert (A : forall w q', wIc (ukc_q O M w q') = wIc w).
    { intros w' q'. unfold ukc_q. apply (fold_left_inv_eq (fun w'' => wIc w'')). intros w'' i. cbn [wIc w_Xb]. apply jcalc_Ic. }
    assert (B : forall w q' qd', wIc (ukc_qd O M w q' qd') = wIc w).
    { intros w' q' qd'. unfold ukc_qd. apply (fold_left_inv_eq (fun w'' => wIc w'')). intros w'' i. cbn [wIc w_c w_v]. apply jcalc_Ic. }
    assert (C : forall w qdd', wIc (ukc_qdd O M w qdd') = wIc w).
    { intros w' qdd'. unfold ukc_qdd. apply (fold_left_inv_eq (fun w'' => wIc w'')). intros w'' i. reflexivity. }
    destruct q as [q'|], qd as [qd'|], qdd as [qdd'|]; rewrite ?C, ?B, ?A; reflexivity.
  Qed.

  Theorem center_of_mass_total_mass (w : WS) q qd qdd b : length (wIc w) = NB ->
    c_mass (snd (calc_center_of_mass O M w q qd qdd b)) = bsum (fun j => rm (getI O M j)) NB.
  Proof.
    intros L. unfold calc_center_of_mass.
    set (w1 := if b then update_kinematics_custom O M w (Some q) (Some qd) qdd else w).
    assert (L1 : length (wIc w1) = NB) by (unfold w1; destruct b; [rewrite ukc_Ic|]; exact L).
    pose proof (com_sweep_total_mass w1 L1) as K.
    destruct (com_sweep O M w1) as [[[w2 It] ht] hdt]. cbn [fst snd] in K. cbn [snd c_mass]. exact K.
  Qed.
End Com.
