(* C14: model construction.  (a) a rejected addition returns the model unchanged;
   (b) structural well-formedness is an invariant of every sequence of additions. *)
From Coq Require Import List Bool Arith NArith Lia.
From RV Require Import Scalar LinAlg3 Spatial Quat ListArr ModelDef.
Import ListNotations.

Ltac splits := repeat match goal with |- _ /\ _ => split end.

Section C14.
  Context {T : Type} (O : Ops T).
  Local Notation Model := (@Model T).

  (* ------------------------------------------------------------------ (a) rejection frame *)
  Lemma name_taken_0 (M : Model) : name_taken M 0%N = false.
  Proof. reflexivity. Qed.

  Lemma add_movable_spec (M : Model) parent X j b nm :
    (name_taken M nm = true /\ add_movable O M parent X j b nm = (M, RRejected)) \/
    (name_taken M nm = false /\ exists M', add_movable O M parent X j b nm = (M', ROk (N.of_nat (nbodies M)))
        /\ names M' = add_name M nm (N.of_nat (nbodies M)) /\ customs M' = customs M /\ fixedb M' = fixedb M
        /\ nbodies M' = S (nbodies M)).
  Proof.
    unfold add_movable. destruct (name_taken M nm) eqn:E; [left; auto|right; split; auto].
    destruct (is_fixed_id M parent); eexists; (split; [reflexivity|]); cbn; repeat split;
      unfold nbodies; cbn; rewrite app_length; cbn; lia.
  Qed.

  Lemma name_taken_add0 (M M' : Model) nm : names M' = add_name M 0%N (N.of_nat (nbodies M)) -> name_taken M' nm = name_taken M nm.
  Proof. unfold add_name, name_taken, name_lookup; cbn. intros ->. reflexivity. Qed.

  Lemma add_emulated_ok : forall axes (M : Model) parent X b nm,
    axes <> [] -> name_taken M nm = false ->
    exists M' id, add_emulated O M parent X axes b nm = (M', ROk id).
  Proof.
    induction axes as [|a rest IH]; intros M parent X b nm Hne Hnt; [congruence|].
    destruct rest as [|a2 rest'].
    - cbn. destruct (add_movable_spec M parent X (classify_axis O a) b nm) as [[E _]|[_ (M' & E & _)]]; [congruence|].
      rewrite E. eauto.
    - cbn [add_emulated].
      destruct (add_movable_spec M parent X (classify_axis O a) (null_body O) 0%N) as [[E _]|[_ (M1 & E & Hn & _)]].
      { rewrite name_taken_0 in E. discriminate. }
      rewrite E. apply IH; [discriminate|]. rewrite (name_taken_add0 M M1 nm Hn). exact Hnt.
  Qed.

  Theorem add_body_reject_frame (M M' : Model) parent X sp b nm :
    add_body O M parent X sp b nm = (M', RRejected) -> M' = M.
  Proof.
    unfold add_body. destruct (name_taken M nm) eqn:Hnt; [intro H; injection H; auto|].
    assert (MV : forall j, add_movable O M parent X j b nm = (M', RRejected) -> M' = M).
    { intros j H. destruct (add_movable_spec M parent X j b nm) as [[E _]|[_ (M2 & E & _)]]; congruence. }
    destruct sp; try (apply MV).
    - (* fixed *) unfold add_fixed. rewrite Hnt. destruct (is_fixed_id M parent);
        match goal with |- context [body_join ?o ?a ?x ?bb] => destruct (body_join o a x bb) end;
        intro H; injection H; auto; discriminate.
    - (* floating base *)
      destruct (add_movable_spec M parent X (joint3 JTransXYZ (tx O) (ty O) (tz O)) (null_body O) 0%N) as [[E _]|[_ (M1 & E & Hn & _)]].
      { rewrite name_taken_0 in E; discriminate. }
      rewrite E.
      destruct (add_movable_spec M1 (N.of_nat (nbodies M)) (stid O) (joint3 JSpherical (ez O) (ey O) (ex O)) b nm) as [[E2 _]|[_ (M2 & E2 & _)]].
      { rewrite (name_taken_add0 M M1 nm Hn) in E2. congruence. }
      rewrite E2. discriminate.
    - (* emulated *)
      destruct ((2 <=? length axes) && (length axes <=? 6))%bool eqn:Hl; [|intro H; injection H; auto].
      assert (axes <> []) by (destruct axes; [discriminate|discriminate]).
      destruct (add_emulated_ok axes M parent X b nm H Hnt) as (M2 & id & E). rewrite E. discriminate.
    - (* custom *)
      match goal with |- add_movable O ?M1 _ _ ?j _ _ = _ -> _ =>
        destruct (add_movable_spec M1 parent X j b nm) as [[E _]|[_ (M2 & E & _)]] end.
      { unfold name_taken, name_lookup in *; cbn in *. congruence. }
      rewrite E. discriminate.
    - intro H; injection H; auto.
  Qed.

  (* ------------------------------------------------------------------ (b) well-formedness *)
  Definition ws_len (w : @WS T) (n : nat) : Prop :=
    length (wXl w) = n /\ length (wXb w) = n /\ length (wv w) = n /\ length (wa w) = n /\ length (wc w) = n /\
    length (wvJ w) = n /\ length (wcJ w) = n /\ length (wS w) = n /\ length (wf w) = n /\ length (wpA w) = n /\
    length (wU w) = n /\ length (wmS w) = n /\ length (wmU w) = n /\ length (wmDinv w) = n /\ length (wmu w) = n /\
    length (wIc w) = n /\ length (wIA w) = n /\ length (wd w) = n /\ length (wu w) = n /\
    length (wcS w) = length (wcU w) /\ length (wcS w) = length (wcDinv w) /\ length (wcS w) = length (wcu w).

  Definition last_joint (M : Model) : Joint := nth (Nat.pred (length (joints M))) (joints M) (root_joint).

  Record WF (M : Model) : Prop := mkWF {
    wf_pos : 0 < nbodies M;
    wf_lambda : length (lambda M) = nbodies M;
    wf_joints : length (joints M) = nbodies M;
    wf_XT : length (X_T M) = nbodies M;
    wf_I : length (mI M) = nbodies M;
    wf_w : length (w_index M) = nbodies M;
    wf_mu : length (mu M) = nbodies M;
    wf_ws : ws_len (ws M) (nbodies M);
    wf_customs : length (wcS (ws M)) = length (customs M);
    wf_parent : forall i, 0 < i < nbodies M -> nth i (lambda M) 0 < i;           (* parents precede children *)
    wf_q : forall i, S i < nbodies M ->                                          (* contiguous coordinate indices *)
           jq (nth (S i) (joints M) root_joint) = jq (nth i (joints M) root_joint) + jdof (nth i (joints M) root_joint);
    wf_dof : dof_count M = jq (last_joint M) + jdof (last_joint M);
    wf_qdot : qdot_size M = dof_count M;
    wf_qsize : q_size M = dof_count M + count_sph (joints M);                    (* one extra q per spherical joint *)
    wf_fixed : forall f, In f (fixedb M) -> fparent f < nbodies M;               (* fixed bodies resolve to a movable parent *)
    wf_lq : length (lambda_q M) = S (dof_count M);
    wf_kind : forall i, 0 < i < nbodies M -> jkind (nth i (joints M) root_joint) <> JRoot
  }.

  Lemma WF_model0 : WF (model0 O).
  Proof.
    constructor; cbn; try reflexivity; try lia; try (repeat split; reflexivity);
      try (intros; lia); try (intros f []).
  Qed.

  Definition valid_parent (M : Model) (p : N) : Prop :=
    (N.to_nat p < nbodies M /\ is_fixed_id M p = false) \/
    (is_fixed_id M p = true /\ fidx p < length (fixedb M)).

  Lemma length_updf {A} (d : A) l i f : length (updf d l i f) = length l.
  Proof. unfold updf. apply upd_length. Qed.


  Lemma renumber_w_length (l : list (@Joint T)) d c : length (renumber_w l d c) = length l.
  Proof. revert d c; induction l as [|a l IH]; intros; cbn; auto. destruct (jkind a); cbn; rewrite IH; reflexivity. Qed.

  Lemma vzeros_length (z : T) n : length (vzeros z n) = n.
  Proof. apply repeat_length. Qed.

  Lemma ws_push_len (w : @WS T) a r n : ws_len w n -> ws_len (ws_push O w a r (S n)) (S n).
  Proof.
    unfold ws_len, ws_push; cbn. intros H. decompose [and] H. clear H.
    rewrite !app_length, !vzeros_length. cbn [length]. repeat split; try lia; assumption.
  Qed.

  Lemma add_movable_WF (M : Model) parent X j b nm M' id :
    WF M -> valid_parent M parent -> jkind j <> JRoot ->
    add_movable O M parent X j b nm = (M', ROk id) ->
    WF M' /\ nbodies M' = S (nbodies M) /\ fixedb M' = fixedb M /\ id = N.of_nat (nbodies M) /\ customs M' = customs M
    /\ wcS (ws M') = wcS (ws M).
  Proof.
    intros W Vp Hk. unfold add_movable. destruct (name_taken M nm); [discriminate|].
    destruct (if is_fixed_id M parent then (fparent (getfixed O M (fidx parent)), fxf (getfixed O M (fidx parent)))
              else (N.to_nat parent, stid O)) as [mp mpX] eqn:Empx.
    intro H. injection H as <- <-.
    assert (Hmp : mp < nbodies M).
    { destruct Vp as [[Hlt Hf]|[Hf Hi]]; rewrite Hf in Empx; injection Empx as <- _; [exact Hlt|].
      apply (wf_fixed M W). unfold getfixed. apply nth_In. exact Hi. }
    destruct W as [Wpos Wl Wj Wx Wi Ww Wm Wws Wc Wp Wq Wd Wqd Wqs Wf Wlq Wk].
    unfold last_joint in *. unfold nbodies in *.
    split; [|cbn; rewrite app_length; cbn; repeat split; lia].
    constructor; unfold nbodies, last_joint;
      cbn [bodies lambda joints X_T mI w_index mu ws customs dof_count qdot_size q_size fixedb lambda_q];
      rewrite ?renumber_w_length, ?length_updf, ?app_length, ?map_length, ?iota_length; cbn [length]; try lia.
    - (* ws *) replace (length (bodies M) + 1) with (S (length (bodies M))) by lia. apply ws_push_len. exact Wws.
    - (* customs *) unfold ws_push; cbn. exact Wc.
    - (* parents precede children *)
      intros i [Hi0 Hi]. destruct (Nat.eq_dec i (length (bodies M))) as [->|Hne].
      + rewrite app_nth2 by lia. rewrite Wl, Nat.sub_diag. cbn. exact Hmp.
      + rewrite app_nth1 by lia. apply Wp. lia.
    - (* contiguous q indices *)
      intros i Hi. destruct (Nat.eq_dec (S i) (length (bodies M))) as [He|Hne].
      + rewrite (app_nth2 _ _ _ (n := S i)) by lia. rewrite Wj, He, Nat.sub_diag. cbn [nth jq].
        rewrite app_nth1 by lia. replace (Nat.pred (length (bodies M))) with i by lia. reflexivity.
      + rewrite !app_nth1 by lia. apply Wq. lia.
    - (* dof count *)
      replace (Nat.pred (length (joints M) + 1)) with (length (joints M)) by lia.
      rewrite app_nth2 by lia. rewrite Nat.sub_diag. cbn [nth jq jdof]. lia.
    - (* fixed bodies *) intros f Hf. specialize (Wf f Hf). lia.
    - (* joint kinds *)
      intros i [Hi0 Hi]. destruct (Nat.eq_dec i (length (bodies M))) as [->|Hne].
      + rewrite app_nth2 by lia. rewrite Wj, Nat.sub_diag. cbn. exact Hk.
      + rewrite app_nth1 by lia. apply Wk. lia.
  Qed.

  Lemma add_fixed_WF (M : Model) parent X b nm M' id :
    WF M -> valid_parent M parent ->
    add_fixed O M parent X b nm = (M', ROk id) ->
    WF M' /\ nbodies M' = nbodies M /\ length (fixedb M') = S (length (fixedb M)) /\ customs M' = customs M
    /\ wcS (ws M') = wcS (ws M) /\ id = (N.of_nat (length (fixedb M)) + fixed_disc)%N.
  Proof.
    intros W Vp. unfold add_fixed. destruct (name_taken M nm); [discriminate|].
    destruct (if is_fixed_id M parent then (fparent (getfixed O M (fidx parent)), st_mul O X (fxf (getfixed O M (fidx parent))))
              else (N.to_nat parent, X)) as [mp pX] eqn:Empx.
    assert (Hmp : mp < nbodies M).
    { destruct Vp as [[Hlt Hf]|[Hf Hi]]; rewrite Hf in Empx; injection Empx as <- _; [exact Hlt|].
      apply (wf_fixed M W). unfold getfixed. apply nth_In. exact Hi. }
    destruct (body_join O (getbody O M mp) pX b) as [pb|]; [|discriminate].
    intro H. injection H as <- <-.
    destruct W as [Wpos Wl Wj Wx Wi Ww Wm Wws Wc Wp Wq Wd Wqd Wqs Wf Wlq Wk].
    unfold nbodies in *.
    split; [|cbn; rewrite ?upd_length, ?app_length; cbn; repeat split; lia].
    constructor; unfold nbodies, last_joint in *;
      cbn [bodies lambda joints X_T mI w_index mu ws customs dof_count qdot_size q_size fixedb lambda_q];
      rewrite ?upd_length; try assumption; try lia.
    intros f Hf. apply in_app_or in Hf. destruct Hf as [Hf|[<-|[]]]; [apply Wf; exact Hf|cbn; exact Hmp].
  Qed.

  (* the size bound of the property ("up to a bound"): ids stay below the discriminator *)
  Definition small (M : Model) (k : nat) : Prop :=
    (N.of_nat (nbodies M + k) < fixed_disc)%N /\ (N.of_nat (length (fixedb M)) + 1 < fixed_disc)%N.

  Lemma movable_id_valid (M : Model) : (N.of_nat (nbodies M) < fixed_disc)%N ->
    forall M', nbodies M' = S (nbodies M) -> valid_parent M' (N.of_nat (nbodies M)).
  Proof.
    intros Hs M' Hn. left. rewrite Nat2N.id. split; [lia|].
    unfold is_fixed_id. apply N.leb_gt in Hs. rewrite Hs. reflexivity.
  Qed.

  Lemma fixed_id_valid (M M' : Model) : (N.of_nat (length (fixedb M)) + 1 < fixed_disc)%N ->
    length (fixedb M') = S (length (fixedb M)) ->
    valid_parent M' (N.of_nat (length (fixedb M)) + fixed_disc)%N.
  Proof.
    intros Hs Hl. right. unfold is_fixed_id, fidx.
    replace (N.of_nat (length (fixedb M)) + fixed_disc - fixed_disc)%N with (N.of_nat (length (fixedb M))) by lia.
    rewrite Nat2N.id. split; [|lia].
    assert (A : (fixed_disc <=? N.of_nat (length (fixedb M)) + fixed_disc)%N = true) by (apply N.leb_le; lia).
    assert (B : (N.of_nat (length (fixedb M)) + fixed_disc <? uint_max)%N = true) by (apply N.ltb_lt; unfold uint_max, fixed_disc in *; lia).
    assert (C : (N.of_nat (length (fixedb M)) <? N.of_nat (length (fixedb M')))%N = true) by (apply N.ltb_lt; lia).
    rewrite A, B, C. reflexivity.
  Qed.

  Lemma valid_parent_mono (M M' : Model) p :
    valid_parent M p -> nbodies M <= nbodies M' -> fixedb M' = fixedb M -> valid_parent M' p.
  Proof.
    unfold valid_parent, is_fixed_id. intros [[H1 H2]|[H1 H2]] Hn Hf; rewrite Hf; [left|right]; split; auto; lia.
  Qed.

  Lemma classify_not_root a : jkind (classify_axis O a) <> JRoot.
  Proof. unfold classify_axis; cbn. repeat match goal with |- context [if ?b then _ else _] => destruct b end; discriminate. Qed.

  Lemma nr_joint3 k (a b c : SV T) : k <> JRoot -> jkind (joint3 k a b c) <> JRoot.
  Proof. cbn. auto. Qed.
  Lemma nr_mk k (ax : list (SV T)) d q c : k <> JRoot -> jkind (mkJoint k ax d q c) <> JRoot.
  Proof. cbn. auto. Qed.

  Lemma add_emulated_WF : forall axes (M : Model) parent X b nm M' id,
    WF M -> valid_parent M parent -> (N.of_nat (nbodies M + length axes) < fixed_disc)%N ->
    add_emulated O M parent X axes b nm = (M', ROk id) ->
    WF M' /\ valid_parent M' id /\ nbodies M < nbodies M' <= nbodies M + length axes /\ fixedb M' = fixedb M
    /\ customs M' = customs M /\ id = N.of_nat (Nat.pred (nbodies M')).
  Proof.
    induction axes as [|a rest IH]; intros M parent X b nm M' id W Vp Hs H; [discriminate|].
    destruct rest as [|a2 rest'].
    - cbn in H. destruct (add_movable_WF _ _ _ _ _ _ _ _ W Vp (classify_not_root a) H) as (W' & Hn & Hf & Hid & Hc & _).
      subst id. cbn [length] in *.
      splits; auto; try lia; try (apply (movable_id_valid M); [lia | exact Hn]); try (rewrite Hn; reflexivity).
    - cbn [add_emulated] in H.
      destruct (add_movable O M parent X (classify_axis O a) (null_body O) 0%N) as [M1 r1] eqn:E1.
      destruct r1 as [id1|]; [|discriminate].
      destruct (add_movable_WF _ _ _ _ _ _ _ _ W Vp (classify_not_root a) E1) as (W1 & Hn1 & Hf1 & Hid1 & Hc1 & _).
      assert (V1 : valid_parent M1 id1).
      { subst id1. apply (movable_id_valid M); [cbn [length] in Hs; lia | exact Hn1]. }
      assert (Hs1 : (N.of_nat (nbodies M1 + length (a2 :: rest')) < fixed_disc)%N).
      { rewrite Hn1. cbn [length] in *. lia. }
      destruct (IH M1 id1 (stid O) b nm M' id W1 V1 Hs1 H) as (W' & V' & Hn' & Hf' & Hc' & Hid').
      splits; auto; cbn [length] in *; try lia; congruence.
  Qed.

  Lemma WF_custom_reg (M : Model) c :
    WF M ->
    WF (mkModel (lambda M) (lambda_q M) (mu M) (dof_count M) (q_size M) (qdot_size M) (prev_id M)
          (gravity M) (joints M) (X_T M) (w_index M) (mI M) (bodies M) (fixedb M) (names M)
          (customs M ++ [c]) (update_order M)
          (let w := ws M in
           mkWS (wXl w) (wXb w) (wv w) (wa w) (wc w) (wvJ w) (wcJ w) (wS w) (wf w) (wpA w) (wU w)
                (wmS w) (wmU w) (wmDinv w) (wmu w) (wIc w) (wIA w) (wd w) (wu w)
                (wcS w ++ [repeat (svzero O) (cdof c)]) (wcU w ++ [[]]) (wcDinv w ++ [[]]) (wcu w ++ [[]]))).
  Proof.
    intros [Wpos Wl Wj Wx Wi Ww Wm Wws Wc Wp Wq Wd Wqd Wqs Wf Wlq Wk].
    constructor; unfold nbodies, last_joint in *; cbn; try assumption.
    - unfold ws_len in *; cbn. decompose [and] Wws. rewrite !app_length; cbn. repeat split; try assumption; lia.
    - rewrite !app_length; cbn; lia.
  Qed.

  Theorem add_body_WF (M M' : Model) parent X sp b nm res :
    WF M -> valid_parent M parent -> small M 6 ->
    add_body O M parent X sp b nm = (M', res) ->
    WF M' /\ nbodies M <= nbodies M' <= nbodies M + 6 /\ length (fixedb M) <= length (fixedb M') <= S (length (fixedb M))
    /\ match res with
       | ROk id => valid_parent M' id /\ is_body_id M' id = true
       | RRejected => M' = M
       end.
  Proof.
    intros W Vp [Hs1 Hs2] H.
    destruct res as [id|]; [|apply add_body_reject_frame in H; subst; splits; auto; lia].
    cbv beta iota. unfold add_body in H. destruct (name_taken M nm); [discriminate|].
    assert (IDm : forall M2 : Model, nbodies M2 = S (nbodies M) -> is_body_id M2 (N.of_nat (nbodies M)) = true).
    { intros M2 Hn. unfold is_body_id. rewrite Hn.
      assert (A : (0 <? N.of_nat (nbodies M))%N = true) by (apply N.ltb_lt; pose proof (wf_pos M W); lia).
      assert (B : (N.of_nat (nbodies M) <? N.of_nat (S (nbodies M)))%N = true) by (apply N.ltb_lt; lia).
      rewrite A, B. reflexivity. }
    assert (MV : forall j, jkind j <> JRoot -> add_movable O M parent X j b nm = (M', ROk id) ->
       WF M' /\ nbodies M <= nbodies M' <= nbodies M + 6 /\ length (fixedb M) <= length (fixedb M') <= S (length (fixedb M))
       /\ (valid_parent M' id /\ is_body_id M' id = true)).
    { intros j Hkj Hj. destruct (add_movable_WF _ _ _ _ _ _ _ _ W Vp Hkj Hj) as (W' & Hn & Hf & Hid & _).
      subst id. rewrite Hf.
      splits; auto; try lia; try (apply (movable_id_valid M); [lia|exact Hn]); try (apply IDm; exact Hn). }
    destruct sp; try (eapply MV; [|exact H]; try apply classify_not_root; cbn; discriminate); try discriminate.
    - (* fixed *)
      destruct (add_fixed_WF _ _ _ _ _ _ _ W Vp H) as (W' & Hn & Hf & _ & _ & Hid).
      subst id.
      pose proof (fixed_id_valid M M' Hs2 Hf) as V.
      assert (IDf : is_body_id M' (N.of_nat (length (fixedb M)) + fixed_disc)%N = true).
      { destruct V as [[_ K]|[K _]]; unfold is_body_id; rewrite K; [|apply orb_true_r].
        exfalso. revert K. unfold is_fixed_id.
        assert (A : (fixed_disc <=? N.of_nat (length (fixedb M)) + fixed_disc)%N = true) by (apply N.leb_le; lia).
        assert (B : (N.of_nat (length (fixedb M)) + fixed_disc <? uint_max)%N = true) by (apply N.ltb_lt; unfold uint_max, fixed_disc in *; lia).
        assert (C : (N.of_nat (length (fixedb M)) + fixed_disc - fixed_disc <? N.of_nat (length (fixedb M')))%N = true) by (apply N.ltb_lt; lia).
        rewrite A, B, C. cbn. intro K2; discriminate K2. }
      splits; auto; try lia.
    - (* floating base *)
      destruct (add_movable O M parent X (joint3 JTransXYZ (tx O) (ty O) (tz O)) (null_body O) 0%N) as [M1 r1] eqn:E1.
      destruct r1 as [id1|]; [|cbn in H; discriminate]. cbn in H.
      destruct (add_movable_WF _ _ _ _ _ _ _ _ W Vp (nr_joint3 JTransXYZ _ _ _ ltac:(discriminate)) E1) as (W1 & Hn1 & Hf1 & Hid1 & _).
      assert (V1 : valid_parent M1 id1) by (subst id1; apply (movable_id_valid M); [lia|exact Hn1]).
      destruct (add_movable_WF _ _ _ _ _ _ _ _ W1 V1 (nr_joint3 JSpherical _ _ _ ltac:(discriminate)) H) as (W' & Hn & Hf & Hid & _).
      subst id. rewrite Hf, Hf1.
      assert (V2 : valid_parent M' (N.of_nat (nbodies M1))) by (apply (movable_id_valid M1); [lia|exact Hn]).
      assert (ID2 : is_body_id M' (N.of_nat (nbodies M1)) = true).
      { unfold is_body_id. rewrite Hn.
        assert (A : (0 <? N.of_nat (nbodies M1))%N = true) by (apply N.ltb_lt; lia).
        assert (B : (N.of_nat (nbodies M1) <? N.of_nat (S (nbodies M1)))%N = true) by (apply N.ltb_lt; lia).
        rewrite A, B. reflexivity. }
      splits; auto; try lia.
    - (* emulated *)
      destruct ((2 <=? length axes) && (length axes <=? 6))%bool eqn:Hl; [|discriminate].
      apply andb_prop in Hl. destruct Hl as [Hl1 Hl2]. apply Nat.leb_le in Hl1, Hl2.
      assert (Hsa : (N.of_nat (nbodies M + length axes) < fixed_disc)%N) by lia.
      destruct (add_emulated_WF axes M parent X b nm M' id W Vp Hsa H) as (W' & V' & Hn' & Hf' & _ & Hid').
      rewrite Hf'.
      assert (ID2 : is_body_id M' id = true).
      { subst id. unfold is_body_id.
        assert (A : (0 <? N.of_nat (Nat.pred (nbodies M')))%N = true) by (apply N.ltb_lt; pose proof (wf_pos M W); lia).
        assert (B : (N.of_nat (Nat.pred (nbodies M')) <? N.of_nat (nbodies M'))%N = true) by (apply N.ltb_lt; lia).
        rewrite A, B. reflexivity. }
      splits; auto; try lia.
    - (* custom *)
      match type of H with add_movable O ?MM _ _ _ _ _ = _ => set (M1 := MM) in * end.
      assert (W1 : WF M1) by (apply WF_custom_reg; exact W).
      assert (V1 : valid_parent M1 parent) by (apply (valid_parent_mono M); auto).
      destruct (add_movable_WF _ _ _ _ _ _ _ _ W1 V1 (nr_mk (JCustom c) _ _ _ _ ltac:(discriminate)) H) as (W' & Hn & Hf & Hid & _).
      subst id. change (nbodies M1) with (nbodies M) in *. change (fixedb M1) with (fixedb M) in *.
      rewrite Hf.
      splits; auto; try lia; try (apply (movable_id_valid M); [lia|exact Hn]); try (apply IDm; exact Hn).
  Qed.

  (* ---- sequences of construction calls ---- *)
  Record AddOp := mkOp { op_parent : option N; op_X : ST T; op_sp : @JSpec T; op_b : @Body T; op_nm : N }.
  Definition valid_parentb (M : Model) (p : N) : bool :=
    if is_fixed_id M p then Nat.ltb (fidx p) (length (fixedb M)) else Nat.ltb (N.to_nat p) (nbodies M).
  Lemma valid_parentb_spec M p : valid_parentb M p = true -> valid_parent M p.
  Proof.
    unfold valid_parentb, valid_parent. destruct (is_fixed_id M p) eqn:E; intro H; apply Nat.ltb_lt in H; [right|left]; auto.
  Qed.
  (* one public call; None when the caller violates the precondition (unknown parent id) or the size bound *)
  Definition step (M : Model) (op : AddOp) : option Model :=
    let p := match op_parent op with Some p => p | None => prev_id M end in
    if (valid_parentb M p && N.ltb (N.of_nat (nbodies M + 6)) fixed_disc && N.ltb (N.of_nat (length (fixedb M)) + 1) fixed_disc)%bool
    then Some (fst (add_body O M p (op_X op) (op_sp op) (op_b op) (op_nm op)))
    else None.
  Fixpoint run (M : Model) (ops : list AddOp) : option Model :=
    match ops with [] => Some M | op :: t => match step M op with Some M' => run M' t | None => None end end.

  Theorem construction_WF : forall ops (M M' : Model), WF M -> run M ops = Some M' -> WF M'.
  Proof.
    induction ops as [|op t IH]; intros M M' W H; cbn in H; [injection H as <-; exact W|].
    destruct (step M op) as [M1|] eqn:E; [|discriminate].
    apply (IH M1 M'); [|exact H].
    unfold step in E.
    destruct (valid_parentb M _ && _ && _)%bool eqn:C; [|discriminate].
    apply andb_prop in C. destruct C as [C C3]. apply andb_prop in C. destruct C as [C1 C2].
    apply N.ltb_lt in C2, C3. injection E as <-.
    destruct (add_body O M _ (op_X op) (op_sp op) (op_b op) (op_nm op)) as [M2 r] eqn:E2.
    destruct (add_body_WF _ _ _ _ _ _ _ _ W (valid_parentb_spec _ _ C1) (conj C2 C3) E2) as (W2 & _).
    exact W2.
  Qed.
  Corollary construction_from_empty_WF ops M' : run (model0 O) ops = Some M' -> WF M'.
  Proof. apply construction_WF. apply WF_model0. Qed.
End C14.
