(* The generated L1 definitions (what the headers say now) equal the hand
   model the theorems are about.  Fixed text: a change in the headers that
   alters a formula makes exactly the corresponding lemma fail. *)
From Coq Require Import List Bool Ring Field.
From RV Require Import Scalar LinAlg3 Spatial Quat Tac.
From RV.Gen Require Import GenSpatial GenQuat.

Section Bridge.
  Context {T : Type} (O : Ops T).
  Hypothesis Fth : field_theory (o0 O) (o1 O) (oadd O) (omul O) (osub O) (oopp O) (odiv O) (oinv O) eq.
  Add Field Ff : Fth.

  Ltac br := l1_split; ring.

  Lemma B_VectorCrossMatrix v : G_VectorCrossMatrix O v = v3crossm O v. Proof. br. Qed.
  Lemma B_rbi_mulv I v : G_rbi_mulv O I v = rbi_mulv O I v. Proof. br. Qed.
  Lemma B_rbi_add a b : G_rbi_add O a b = rbi_add O a b. Proof. br. Qed.
  Lemma B_rbi_createFromMatrix this Ic : G_rbi_createFromMatrix O this Ic = rbi_fromMatrix O Ic. Proof. br. Qed.
  Lemma B_rbi_toMatrix I : G_rbi_toMatrix O I = rbi_toMatrix O I. Proof. br. Qed.
  Lemma B_rbi_setSpatialMatrix I : G_rbi_setSpatialMatrix O I = rbi_toMatrix O I. Proof. br. Qed.
  Lemma B_rbi_createFromMassComInertiaC m c Ic :
    G_rbi_createFromMassComInertiaC O m c Ic = rbi_from_mci O m c Ic. Proof. br. Qed.
  Lemma B_st_apply X v : G_st_apply O X v = st_apply O X v. Proof. br. Qed.
  Lemma B_st_applyTranspose X f : G_st_applyTranspose O X f = st_applyT O X f. Proof. br. Qed.
  Lemma B_st_apply_rbi X I : G_st_apply_rbi O X I = st_apply_rbi O X I. Proof. br. Qed.
  Lemma B_st_applyTranspose_rbi X I : G_st_applyTranspose_rbi O X I = st_applyT_rbi O X I. Proof. br. Qed.
  Lemma B_st_applyAdjoint X f : G_st_applyAdjoint O X f = st_applyAdj O X f. Proof. br. Qed.
  Lemma B_st_toMatrix X : G_st_toMatrix O X = st_toMatrix O X. Proof. br. Qed.
  Lemma B_st_toMatrixAdjoint X : G_st_toMatrixAdjoint O X = st_toMatrixAdjoint O X. Proof. br. Qed.
  Lemma B_st_toMatrixTranspose X : G_st_toMatrixTranspose O X = st_toMatrixTranspose O X. Proof. br. Qed.
  Lemma B_st_inverse X : G_st_inverse O X = st_inv O X. Proof. br. Qed.
  Lemma B_st_mul X Y : G_st_mul O X Y = st_mul O X Y. Proof. br. Qed.
  Lemma B_Xrot q a : G_Xrot O q a = Xrot O q a. Proof. br. Qed.
  Lemma B_Xrotx q : G_Xrotx O q = Xrotx O q. Proof. br. Qed.
  Lemma B_Xroty q : G_Xroty O q = Xroty O q. Proof. br. Qed.
  Lemma B_Xrotz q : G_Xrotz O q = Xrotz O q. Proof. br. Qed.
  Lemma B_Xtrans r : G_Xtrans O r = Xtrans O r. Proof. br. Qed.
  Lemma B_crossm_mat v : G_crossm_mat O v = crossm_mat O v. Proof. br. Qed.
  Lemma B_crossm a b : G_crossm O a b = crossm O a b. Proof. br. Qed.
  Lemma B_crossf_mat v : G_crossf_mat O v = crossf_mat O v. Proof. br. Qed.
  Lemma B_crossf a b : G_crossf O a b = crossf O a b. Proof. br. Qed.

  Lemma B_quat_scale q s : G_quat_scale O q s = qscale O q s. Proof. br. Qed.
  Lemma B_quat_mul p q : G_quat_mul O p q = qmul O p q. Proof. br. Qed.
  Lemma B_quat_toMatrix q : G_quat_toMatrix O q = qtoMatrix O q. Proof. br. Qed.
  Lemma B_quat_conjugate q : G_quat_conjugate O q = qconj O q. Proof. br. Qed.
  Lemma B_quat_rotate q v : G_quat_rotate O q v = qrotate O q v. Proof. br. Qed.
  Lemma B_quat_omegaToQDot q w : G_quat_omegaToQDot O q w = qomegaToQDot O q w. Proof. br. Qed.
  (* the two with divisions: syntactically equal up to ring normalisation of
     numerators and denominators; no side condition is needed because the
     division structure is identical *)
  Lemma B_quat_fromAxisAngle a ang : G_quat_fromAxisAngle O a ang = qfromAxisAngle O a ang.
  Proof. l1_split; try reflexivity; try ring. Qed.
  Lemma B_quat_fromMatrix m : G_quat_fromMatrix O m = qfromMatrix O m.
  Proof.
    destruct m. unfold G_quat_fromMatrix, qfromMatrix, qfromMatrix_hdr. cbv_sc.
    repeat match goal with |- context [if ?b then _ else _] => destruct b end;
    ext_rec; cbv_sc; try reflexivity; try ring;
    repeat match goal with |- odiv O ?a ?b = odiv O ?c ?d =>
      replace a with c by ring; replace b with d by ring; reflexivity end.
  Qed.
End Bridge.
