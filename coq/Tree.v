(* Generic lemmas for the two tree recursions of the algorithms (arrays as lists,
   parent array lam with lam i < i):  descending loops and the inward sweep
      for i = n-1 downto 1:  if lam i <> 0 then y[lam i] += h i (y[i])
   which leaves in y[i] (i >= 1) the value of the recursion over children
      Y i = y0 i + sum_{c : lam c = i} h c (Y c)          (arbitrary, also non-linear, h). *)
From Coq Require Import List Arith Lia.
From RV Require Import ListArr.
Import ListNotations.

Lemma iota_snoc a m : iota a (S m) = iota a m ++ [a + m].
Proof.
  revert a; induction m as [|m IH]; intros a.
  - cbn. rewrite Nat.add_0_r. reflexivity.
  - change (iota a (S (S m))) with (a :: iota (S a) (S m)). rewrite (IH (S a)).
    cbn. f_equal. f_equal. f_equal. lia.
Qed.
Lemma rev_iota_S m : rev (iota 1 (S m)) = S m :: rev (iota 1 m).
Proof. rewrite iota_snoc, rev_app_distr. reflexivity. Qed.

(* invariant through a descending loop k = m, m-1, ..., 1 *)
Lemma fold_rev_iota_inv {St : Type} (step : St -> nat -> St) (Inv : St -> nat -> Prop) :
  forall m w, Inv w (S m) -> (forall w k, 1 <= k <= m -> Inv w (S k) -> Inv (step w k) k) ->
  Inv (fold_left step (rev (iota 1 m)) w) 1.
Proof.
  induction m as [|m IH]; intros w H Hs; [cbn; exact H|].
  rewrite rev_iota_S. cbn [fold_left]. apply IH.
  - apply Hs; [lia|exact H].
  - intros w' k Hk. apply Hs. lia.
Qed.

Section Sweep.
  Variable V : Type.
  Variable d : V.
  Variable add : V -> V -> V.
  Variable zero : V.
  Hypothesis add_comm : forall a b, add a b = add b a.
  Hypothesis add_assoc : forall a b c, add a (add b c) = add (add a b) c.
  Hypothesis add_0_r : forall a, add a zero = a.
  Variable n : nat.
  Variable lam : nat -> nat.
  Hypothesis lam_lt : forall i, 0 < i -> i < n -> lam i < i.
  Variable h : nat -> V -> V.

  Definition sw_step (y : list V) (k : nat) : list V :=
    if Nat.eqb (lam k) 0 then y else upd y (lam k) (add (nth (lam k) y d) (h k (nth k y d))).
  Definition sweep (y0 : list V) : list V := fold_left sw_step (rev (iota 1 (n - 1))) y0.

  (* sum over c in [lo, lo+cnt) with lam c = i of g c *)
  Fixpoint csum (g : nat -> V) (i lo cnt : nat) : V :=
    match cnt with
    | 0 => zero
    | S c => if Nat.eqb (lam lo) i then add (g lo) (csum g i (S lo) c) else csum g i (S lo) c
    end.
  Lemma csum_ext g g' i lo cnt : (forall c, lo <= c < lo + cnt -> g c = g' c) -> csum g i lo cnt = csum g' i lo cnt.
  Proof. revert lo; induction cnt; simpl; intros; auto.
    rewrite (IHcnt (S lo)) by (intros; apply H; lia). rewrite (H lo) by lia. reflexivity. Qed.

  Definition SInv (y0 y : list V) (k : nat) : Prop :=
    length y = n /\
    forall i, 0 < i < n -> nth i y d = add (nth i y0 d) (csum (fun c => h c (nth c y d)) i k (n - k)).

  Lemma sw_step_inv y0 y k : 1 <= k -> k < n -> SInv y0 y (S k) -> SInv y0 (sw_step y k) k.
  Proof.
    intros Hk Hkn [Hlen Hinv]. unfold sw_step, SInv.
    assert (Hl : lam k < k) by (apply lam_lt; lia).
    replace (n - k) with (S (n - S k)) by lia. cbn [csum].
    destruct (Nat.eqb (lam k) 0) eqn:E0.
    - apply Nat.eqb_eq in E0. split; [exact Hlen|]. intros i Hi.
      destruct (Nat.eqb_spec (lam k) i) as [e|ne]; [lia|]. apply Hinv; exact Hi.
    - apply Nat.eqb_neq in E0. split; [rewrite upd_length; exact Hlen|]. intros i Hi.
      assert (Hext : forall c, k <= c -> nth c (upd y (lam k) (add (nth (lam k) y d) (h k (nth k y d)))) d = nth c y d).
      { intros c Hc. apply nth_upd_neq. lia. }
      rewrite (csum_ext (fun c => h c (nth c (upd y (lam k) (add (nth (lam k) y d) (h k (nth k y d)))) d))
                        (fun c => h c (nth c y d))) by (intros; rewrite Hext by lia; reflexivity).
      rewrite (Hext k) by lia.
      destruct (Nat.eqb_spec (lam k) i) as [e|ne].
      + subst i. rewrite nth_upd_eq by lia. rewrite Hinv by lia.
        rewrite <- !add_assoc. f_equal. apply add_comm.
      + rewrite nth_upd_neq by auto. apply Hinv; auto.
  Qed.

  Theorem sweep_spec y0 : length y0 = n -> 0 < n ->
    let Y := sweep y0 in
    length Y = n /\
    forall i, 0 < i < n -> nth i Y d = add (nth i y0 d) (csum (fun c => h c (nth c Y d)) i 1 (n - 1)).
  Proof.
    intros Hy0 Hn Y. unfold Y, sweep.
    apply (fold_rev_iota_inv sw_step (SInv y0)).
    - replace (S (n - 1)) with n by lia. split; [exact Hy0|]. intros i Hi.
      rewrite Nat.sub_diag. cbn. rewrite add_0_r. reflexivity.
    - intros w k Hk HI. apply sw_step_inv; auto; lia.
  Qed.
End Sweep.

(* the fixpoint equation of the inward sweep determines Y on 1..n-1 *)
Section Unique.
  Variable V : Type.
  Variable add : V -> V -> V.
  Variable zero : V.
  Variable n : nat.
  Variable lam : nat -> nat.
  Hypothesis lam_lt : forall i, 0 < i -> i < n -> lam i < i.
  Variable h : nat -> V -> V.
  Lemma csum_children g g' i : forall cnt lo, lo + cnt <= n -> 0 < lo ->
    (forall c, lo <= c < lo + cnt -> lam c = i -> g c = g' c) ->
    csum V add zero lam g i lo cnt = csum V add zero lam g' i lo cnt.
  Proof.
    induction cnt as [|cnt IH]; intros lo Hn Hlo H; cbn; [reflexivity|].
    destruct (Nat.eqb_spec (lam lo) i) as [e|ne].
    - rewrite (H lo) by (auto; lia). f_equal. apply IH; try lia. intros c Hc. apply H. lia.
    - apply IH; try lia. intros c Hc. apply H. lia.
  Qed.
  Theorem sweep_unique (f Y Y' : nat -> V) :
    (forall i, 0 < i < n -> Y i = add (f i) (csum V add zero lam (fun c => h c (Y c)) i 1 (n - 1))) ->
    (forall i, 0 < i < n -> Y' i = add (f i) (csum V add zero lam (fun c => h c (Y' c)) i 1 (n - 1))) ->
    forall i, 0 < i < n -> Y i = Y' i.
  Proof.
    intros H H'.
    assert (K : forall m i, n - i <= m -> 0 < i < n -> Y i = Y' i).
    { induction m as [|m IH]; intros i Hm Hi; [lia|].
      rewrite (H i Hi), (H' i Hi). f_equal. apply csum_children; try lia.
      intros c Hc Hl. f_equal. apply IH; [|lia].
      assert (lam c < c) by (apply lam_lt; lia). lia. }
    intros i Hi. apply (K (n - i)); auto.
  Qed.
End Unique.
