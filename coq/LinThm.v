(* Correctness of the dense solver of the model (LinDef.solve_pp, Gaussian elimination with
   partial pivoting) over any field with decidable equality:
     solve_pp A b = Some x  ->  A x = b   and x is the only solution.
   The library solves the same systems with Eigen; the model's solver stands in for them and
   the two are compared through residual tolerances (DESIGN 2.4). *)
From Coq Require Import List Bool Arith Lia Ring Field.
From RV Require Import Scalar Laws ListArr LinDef ListLemmas Tree.
Import ListNotations.

Lemma fold_iota_inv' {St : Type} (step : St -> nat -> St) (Inv : St -> nat -> Prop) :
  forall m k w, Inv w k -> (forall w i, k <= i < k + m -> Inv w i -> Inv (step w i) (S i)) ->
  Inv (fold_left step (iota k m) w) (k + m).
Proof.
  induction m as [|m IH]; intros k w H Hs; cbn.
  - rewrite Nat.add_0_r. exact H.
  - replace (k + S m) with (S k + m) by lia. apply IH.
    + apply Hs; [lia|exact H].
    + intros w' i Hi. apply Hs. lia.
Qed.
Lemma fold_rev_iota0_inv {St : Type} (step : St -> nat -> St) (Inv : St -> nat -> Prop) :
  forall m w, Inv w m -> (forall w k, k < m -> Inv w (S k) -> Inv (step w k) k) ->
  Inv (fold_left step (rev (iota 0 m)) w) 0.
Proof.
  induction m as [|m IH]; intros w H Hs; [cbn; exact H|].
  rewrite iota_snoc, rev_app_distr. cbn [rev app fold_left Nat.add]. apply IH.
  - apply Hs; [lia|exact H].
  - intros w' k Hk. apply Hs. lia.
Qed.
Lemma iota_app a k m : iota a (k + m) = iota a k ++ iota (a + k) m.
Proof.
  revert a; induction k as [|k IH]; intros a; cbn.
  - rewrite Nat.add_0_r. reflexivity.
  - rewrite IH. do 3 f_equal. lia.
Qed.

Section LinThm.
  Context {T : Type} (O : Ops T) {FL : FieldLaws O}.
  Hypothesis oeqb_spec : forall x y : T, oeqb O x y = true <-> x = y.
  Add Field FlFlin : (@fl_field T O FL).
  Local Notation t0 := (o0 O).
  Local Notation Mat := (@Mat T). Local Notation Vec := (@Vec T).

  (* ---------- dot products ---------- *)
  Lemma odot_upd : forall (r x : list T) i v, i < length x -> length r = length x ->
    odot O r (upd x i v) = oadd O (odot O r x) (omul O (nth i r t0) (osub O v (nth i x t0))).
  Proof.
    induction r as [|a r IH]; intros [|b x] i v Hi Hl; simpl in *; try lia.
    destruct i; simpl.
    - ring.
    - rewrite IH by lia. ring.
  Qed.
  Lemma odot_vsub_scale : forall (r s x : list T) d, length r = length s ->
    odot O (vsub O r (vscale O d s)) x = osub O (odot O r x) (omul O d (odot O s x)).
  Proof.
    unfold vsub, vscale.
    induction r as [|a r IH]; intros [|b s] [|c x] d Hl; simpl in *; try lia; try ring.
    rewrite IH by lia. ring.
  Qed.
  Lemma nth_vsub_scale : forall (r s : list T) k d, length r = length s -> k < length r ->
    nth k (vsub O r (vscale O d s)) t0 = osub O (nth k r t0) (omul O d (nth k s t0)).
  Proof.
    unfold vsub, vscale.
    induction r as [|a r IH]; intros [|b s] k d Hl Hk; simpl in *; try lia.
    destruct k; [reflexivity|]. apply IH; lia.
  Qed.
  Lemma vsub_scale_length (r s : list T) d : length r = length s -> length (vsub O r (vscale O d s)) = length r.
  Proof. intros H. unfold vsub, vscale. rewrite map_length, combine_length, map_length. lia. Qed.

  Definition fsum (f : nat -> T) (l : list nat) (a : T) : T := fold_left (fun s j => oadd O s (f j)) l a.
  Lemma fsum_acc f l : forall a, fsum f l a = oadd O a (fsum f l t0).
  Proof.
    unfold fsum. induction l as [|j l IH]; intros a; cbn [fold_left].
    - ring.
    - rewrite IH. rewrite (IH (oadd O t0 (f j))). ring.
  Qed.
  Lemma fsum_ext f g l a : (forall j, In j l -> f j = g j) -> fsum f l a = fsum g l a.
  Proof.
    unfold fsum. revert a; induction l as [|j l IH]; intros a H; cbn [fold_left]; [reflexivity|].
    rewrite (H j) by (left; reflexivity). apply IH. intros k Hk. apply H. right. exact Hk.
  Qed.
  Lemma fsum_zero f l a : (forall j, In j l -> f j = t0) -> fsum f l a = a.
  Proof.
    unfold fsum. revert a; induction l as [|j l IH]; intros a H; cbn [fold_left]; [reflexivity|].
    rewrite (H j) by (left; reflexivity). rewrite IH.
    - ring.
    - intros k Hk. apply H. right. exact Hk.
  Qed.
  Lemma fsum_shift f : forall k a z, fsum f (iota (S a) k) z = fsum (fun j => f (S j)) (iota a k) z.
  Proof. unfold fsum. induction k as [|k IH]; intros a z; cbn [iota fold_left]; [reflexivity|]. apply IH. Qed.
  Lemma fsum_cons f j l a : fsum f (j :: l) a = fsum f l (oadd O a (f j)).
  Proof. reflexivity. Qed.
  Lemma fsum_app f l1 l2 a : fsum f (l1 ++ l2) a = fsum f l2 (fsum f l1 a).
  Proof. unfold fsum. apply fold_left_app. Qed.
  Lemma odot_fsum : forall (r x : list T), length r = length x ->
    odot O r x = fsum (fun j => omul O (nth j r t0) (nth j x t0)) (iota 0 (length r)) t0.
  Proof.
    induction r as [|a r IH]; intros [|b x] Hl; simpl in Hl; try lia; [reflexivity|].
    cbn [odot length iota]. rewrite fsum_cons, fsum_acc, fsum_shift. cbn [nth]. rewrite <- IH by lia. ring.
  Qed.

  (* ---------- systems ---------- *)
  Definition WFm (n : nat) (A : Mat) : Prop := length A = n /\ forall i, i < n -> length (nth i A []) = n.
  Definition Sol (n : nat) (A : Mat) (b : Vec) (x : Vec) : Prop :=
    forall i, i < n -> odot O (nth i A []) x = vg O b i.
  Definition Tri (n k : nat) (A : Mat) : Prop := forall c i, c < k -> c < i -> i < n -> mg O A i c = t0.
  Definition Piv (k : nat) (A : Mat) : Prop := forall c, c < k -> mg O A c c <> t0.

  Lemma Sol_mvmul n A b x : length A = n -> length b = n -> (Sol n A b x <-> mvmul O A x = b).
  Proof.
    intros HA Hb. unfold Sol, mvmul, vg, vget. split.
    - intros H. apply (list_ext t0).
      + rewrite map_length. lia.
      + rewrite map_length. intros k Hk.
        rewrite (nth_indep _ t0 (odot O [] x)) by (rewrite map_length; exact Hk).
        rewrite (map_nth (fun r => odot O r x) A [] k). apply H. lia.
    - intros H i Hi. rewrite <- H.
      rewrite (nth_indep _ t0 (odot O [] x)) by (rewrite map_length; lia).
      rewrite (map_nth (fun r => odot O r x) A [] i). reflexivity.
  Qed.

  (* row i of an upper-triangular system *)
  Lemma row_solve n U x i : Tri n n U -> WFm n U -> length x = n -> i < n ->
    odot O (nth i U []) x =
    oadd O (omul O (mg O U i i) (vg O x i))
           (fsum (fun j => omul O (mg O U i j) (vg O x j)) (iota (S i) (n - S i)) t0).
  Proof.
    intros HT [HA HR] Hx Hi.
    rewrite odot_fsum by (rewrite HR by exact Hi; lia).
    rewrite HR by exact Hi.
    replace n with (i + S (n - S i)) at 1 by lia.
    rewrite iota_app. cbn [Nat.add iota]. rewrite fsum_app, fsum_cons.
    rewrite (fsum_zero _ (iota 0 i)).
    - rewrite fsum_acc. unfold mg, vg, mget, vget. ring.
    - intros j Hj. apply in_iota in Hj. pose proof (HT j i ltac:(lia) ltac:(lia) Hi) as Z.
      unfold mg, mget in Z. rewrite Z. ring.
  Qed.

  (* ---------- row swap ---------- *)
  Lemma nth_swap {X} (d : X) (l : list X) i j r : i < length l -> j < length l ->
    nth r (swap_rows d l i j) d = if Nat.eqb r j then nth i l d else if Nat.eqb r i then nth j l d else nth r l d.
  Proof.
    intros Hi Hj. unfold swap_rows.
    destruct (Nat.eqb_spec r j) as [->|Nj].
    - apply nth_upd_eq. rewrite upd_length. exact Hj.
    - rewrite nth_upd_neq by congruence.
      destruct (Nat.eqb_spec r i) as [->|Ni].
      + apply nth_upd_eq. exact Hi.
      + apply nth_upd_neq. congruence.
  Qed.
  Lemma swap_length {X} (d : X) (l : list X) i j : length (swap_rows d l i j) = length l.
  Proof. unfold swap_rows. rewrite !upd_length. reflexivity. Qed.
  Lemma argmax_range (A : Mat) c : forall rows best, In (argmax_abs O A c rows best) (best :: rows).
  Proof.
    induction rows as [|r rows IH]; intros best; cbn [argmax_abs]; [left; reflexivity|].
    destruct (oltb O _ _).
    - destruct (IH r) as [E|E]; [right; left; exact E|right; right; exact E].
    - destruct (IH best) as [E|E]; [left; exact E|right; right; exact E].
  Qed.

  (* ---------- one elimination column ---------- *)
  Definition RowsAfter (n j : nat) (piv : T) (A0 : Mat) (b0 : Vec) (ab : Mat * Vec) (i : nat) : Prop :=
    length (fst ab) = n /\ length (snd ab) = n /\
    forall r, r < n ->
      if (Nat.ltb j r && Nat.ltb r i)%bool
      then nth r (fst ab) [] = vsub O (nth r A0 []) (vscale O (odiv O (mg O A0 r j) piv) (nth j A0 []))
           /\ vg O (snd ab) r = osub O (vg O b0 r) (omul O (odiv O (mg O A0 r j) piv) (vg O b0 j))
      else nth r (fst ab) [] = nth r A0 [] /\ vg O (snd ab) r = vg O b0 r.

  Lemma elim_row_inv n j piv A0 b0 ab i : j < i -> i < n ->
    RowsAfter n j piv A0 b0 ab i -> RowsAfter n j piv A0 b0 (elim_row O j piv ab i) (S i).
  Proof.
    intros Hji Hin (HA & Hb & HR). unfold RowsAfter, elim_row. cbn [fst snd].
    split; [rewrite upd_length; exact HA|]. split; [rewrite upd_length; exact Hb|].
    intros r Hr.
    pose proof (HR i Hin) as Ri. pose proof (HR j ltac:(lia)) as Rj.
    replace (Nat.ltb j i && Nat.ltb i i)%bool with false in Ri
      by (symmetry; apply andb_false_iff; right; apply Nat.ltb_ge; lia).
    replace (Nat.ltb j j && Nat.ltb j i)%bool with false in Rj
      by (symmetry; apply andb_false_iff; left; apply Nat.ltb_ge; lia).
    destruct Ri as [RiA Rib]. destruct Rj as [RjA Rjb].
    destruct (Nat.eq_dec r i) as [->|Nri].
    - replace (Nat.ltb j i && Nat.ltb i (S i))%bool with true
        by (symmetry; apply andb_true_iff; split; apply Nat.ltb_lt; lia).
      unfold vg, vget. rewrite !nth_upd_eq by lia.
      unfold mg, mget, vg, vget in *. rewrite RiA, RjA, Rib, Rjb. split; reflexivity.
    - unfold vg, vget. rewrite !nth_upd_neq by congruence.
      specialize (HR r Hr).
      replace (Nat.ltb r (S i)) with (Nat.ltb r i).
      + exact HR.
      + destruct (Nat.ltb_spec r i), (Nat.ltb_spec r (S i)); try reflexivity; lia.
  Qed.

  Lemma elim_rows_spec n j piv A0 b0 : length A0 = n -> length b0 = n -> j < n ->
    RowsAfter n j piv A0 b0 (fold_left (elim_row O j piv) (iota (S j) (n - S j)) (A0, b0)) n.
  Proof.
    intros HA Hb Hj.
    pose proof (fold_iota_inv' (elim_row O j piv) (RowsAfter n j piv A0 b0) (n - S j) (S j) (A0, b0)) as K.
    replace (S j + (n - S j)) with n in K by lia. apply K; clear K.
    - split; [exact HA|]. split; [exact Hb|]. intros r Hr. cbn [fst snd].
      replace (Nat.ltb j r && Nat.ltb r (S j))%bool with false; [split; reflexivity|].
      symmetry. destruct (Nat.ltb_spec j r), (Nat.ltb_spec r (S j)); try reflexivity; lia.
    - intros w i Hi HI. apply elim_row_inv; [lia|lia|exact HI].
  Qed.

  Record EInv (n k : nat) (A : Mat) (b : Vec) (A' : Mat) (b' : Vec) : Prop := {
    ei_wf : WFm n A'; ei_b : length b' = n; ei_tri : Tri n k A'; ei_piv : Piv k A';
    ei_sol : forall x, Sol n A b x <-> Sol n A' b' x }.

  Lemma elim_col_inv n j A b A1 b1 U c : j < n -> EInv n j A b A1 b1 ->
    elim_col O n (Some (A1, b1)) j = Some (U, c) -> EInv n (S j) A b U c.
  Proof.
    intros Hj [[HA HR] Hb HT HP HS]. unfold elim_col.
    set (p := argmax_abs O A1 j (iota j (n - j)) j).
    assert (Hp : j <= p < n).
    { pose proof (argmax_range A1 j (iota j (n - j)) j) as Q. fold p in Q.
      destruct Q as [E|E]; [lia|]. apply in_iota in E. lia. }
    set (A0 := swap_rows [] A1 j p). set (b0 := swap_rows t0 b1 j p).
    destruct (oeqb O (mg O A0 j j) t0) eqn:Hpiv; [discriminate|].
    assert (Hne : mg O A0 j j <> t0).
    { intros e. apply oeqb_spec in e. congruence. }
    set (piv := mg O A0 j j) in *.
    intros E. injection E as E.
    pose proof (elim_rows_spec n j piv A0 b0) as RS.
    rewrite E in RS. cbn [fst snd] in RS.
    assert (HA0 : length A0 = n) by (unfold A0; rewrite swap_length; exact HA).
    assert (Hb0 : length b0 = n) by (unfold b0; rewrite swap_length; exact Hb).
    destruct (RS HA0 Hb0 Hj) as (HU & Hc & Rows). clear RS.
    (* rows of A0 / b0 *)
    assert (RA0 : forall r, nth r A0 [] = if Nat.eqb r p then nth j A1 [] else if Nat.eqb r j then nth p A1 [] else nth r A1 []).
    { intros r. unfold A0. apply nth_swap; lia. }
    assert (Rb0 : forall r, vg O b0 r = if Nat.eqb r p then vg O b1 j else if Nat.eqb r j then vg O b1 p else vg O b1 r).
    { intros r. unfold b0, vg, vget. apply nth_swap; lia. }
    assert (LA0 : forall r, r < n -> length (nth r A0 []) = n).
    { intros r Hr. rewrite RA0. destruct (Nat.eqb r p); [apply HR; lia|]. destruct (Nat.eqb r j); apply HR; lia. }
    assert (T0 : Tri n j A0).
    { intros cc i Hc1 Hc2 Hi. unfold mg, mget. rewrite RA0.
      destruct (Nat.eqb_spec i p); [apply (HT cc j); lia|].
      destruct (Nat.eqb_spec i j); [apply (HT cc p); lia|]. apply (HT cc i); lia. }
    assert (S0 : forall x, Sol n A1 b1 x <-> Sol n A0 b0 x).
    { intros x. unfold Sol. split; intros H i Hi.
      - rewrite RA0, Rb0. destruct (Nat.eqb_spec i p); [apply H; lia|].
        destruct (Nat.eqb_spec i j); apply H; lia.
      - destruct (Nat.eq_dec i p) as [->|Np].
        + pose proof (H j Hj) as Q. rewrite RA0, Rb0 in Q.
          destruct (Nat.eqb_spec j p) as [e|ne]; [rewrite <- e; exact Q|].
          rewrite Nat.eqb_refl in Q. exact Q.
        + destruct (Nat.eq_dec i j) as [->|Nj].
          * pose proof (H p ltac:(lia)) as Q. rewrite RA0, Rb0 in Q. rewrite Nat.eqb_refl in Q. exact Q.
          * pose proof (H i Hi) as Q. rewrite RA0, Rb0 in Q.
            destruct (Nat.eqb_spec i p); [contradiction|]. destruct (Nat.eqb_spec i j); [contradiction|]. exact Q. }
    (* rows of U / c *)
    assert (RU : forall r, r < n -> r <= j -> nth r U [] = nth r A0 [] /\ vg O c r = vg O b0 r).
    { intros r Hr Hrj. specialize (Rows r Hr).
      replace (Nat.ltb j r && Nat.ltb r n)%bool with false in Rows; [exact Rows|].
      symmetry. apply andb_false_iff. left. apply Nat.ltb_ge. lia. }
    assert (RL : forall r, r < n -> j < r ->
               nth r U [] = vsub O (nth r A0 []) (vscale O (odiv O (mg O A0 r j) piv) (nth j A0 []))
               /\ vg O c r = osub O (vg O b0 r) (omul O (odiv O (mg O A0 r j) piv) (vg O b0 j))).
    { intros r Hr Hrj. specialize (Rows r Hr).
      replace (Nat.ltb j r && Nat.ltb r n)%bool with true in Rows; [exact Rows|].
      symmetry. apply andb_true_iff. split; apply Nat.ltb_lt; lia. }
    constructor.
    - split; [exact HU|]. intros i Hi. destruct (le_lt_dec i j) as [L|L].
      + destruct (RU i Hi L) as [e _]. rewrite e. apply LA0. exact Hi.
      + destruct (RL i Hi L) as [e _]. rewrite e. rewrite vsub_scale_length; [apply LA0; exact Hi|].
        rewrite !LA0 by lia. reflexivity.
    - exact Hc.
    - intros cc i Hc1 Hc2 Hi. unfold mg, mget.
      destruct (le_lt_dec i j) as [L|L].
      + destruct (RU i Hi L) as [e _]. rewrite e. apply (T0 cc i); lia.
      + destruct (RL i Hi L) as [e _]. rewrite e.
        rewrite nth_vsub_scale by (rewrite !LA0 by lia; lia).
        destruct (Nat.eq_dec cc j) as [->|Ncj].
        * unfold piv, mg, mget. field. exact Hne.
        * pose proof (T0 cc i ltac:(lia) ltac:(lia) Hi) as Z1. pose proof (T0 cc j ltac:(lia) ltac:(lia) Hj) as Z2.
          unfold mg, mget in Z1, Z2. rewrite Z1, Z2. ring.
    - intros cc Hc1. unfold mg, mget. destruct (RU cc ltac:(lia) ltac:(lia)) as [e _]. rewrite e.
      destruct (Nat.eq_dec cc j) as [->|Ncj]; [exact Hne|].
      rewrite RA0. destruct (Nat.eqb_spec cc p); [lia|]. destruct (Nat.eqb_spec cc j); [lia|].
      apply HP. lia.
    - intros x. rewrite HS, S0. unfold Sol. split; intros H i Hi.
      + destruct (le_lt_dec i j) as [L|L].
        * destruct (RU i Hi L) as [e1 e2]. rewrite e1, e2. apply H. exact Hi.
        * destruct (RL i Hi L) as [e1 e2]. rewrite e1, e2.
          rewrite odot_vsub_scale by (rewrite !LA0 by lia; reflexivity).
          rewrite (H i Hi), (H j Hj). reflexivity.
      + destruct (le_lt_dec i j) as [L|L].
        * destruct (RU i Hi L) as [e1 e2]. rewrite <- e1, <- e2. apply H. exact Hi.
        * destruct (RL i Hi L) as [e1 e2]. pose proof (H i Hi) as Q. rewrite e1, e2 in Q.
          rewrite odot_vsub_scale in Q by (rewrite !LA0 by lia; reflexivity).
          pose proof (H j Hj) as Qj. destruct (RU j Hj ltac:(lia)) as [f1 f2]. rewrite f1, f2 in Qj.
          rewrite Qj in Q.
          transitivity (oadd O (osub O (odot O (nth i A0 []) x) (omul O (odiv O (mg O A0 i j) piv) (vg O b0 j)))
                               (omul O (odiv O (mg O A0 i j) piv) (vg O b0 j))); [ring|].
          rewrite Q. ring.
  Qed.

  Lemma elim_none n l : fold_left (elim_col O n) l None = None.
  Proof. induction l; cbn; auto. Qed.

  Lemma elim_all n A b : forall m k A1 b1 U c, k + m <= n -> EInv n k A b A1 b1 ->
    fold_left (elim_col O n) (iota k m) (Some (A1, b1)) = Some (U, c) -> EInv n (k + m) A b U c.
  Proof.
    induction m as [|m IH]; intros k A1 b1 U c Hk HI H.
    - cbn in H. injection H as <- <-. rewrite Nat.add_0_r. exact HI.
    - cbn [iota fold_left] in H.
      destruct (elim_col O n (Some (A1, b1)) k) as [[A2 b2]|] eqn:E.
      + replace (k + S m) with (S k + m) by lia. apply (IH (S k) A2 b2); [lia| |exact H].
        apply (elim_col_inv n k A b A1 b1); [lia|exact HI|exact E].
      + rewrite elim_none in H. discriminate.
  Qed.

  (* ---------- back substitution ---------- *)
  Lemma back_subst_sol n U c : WFm n U -> length c = n -> Tri n n U -> Piv n U ->
    length (back_subst O n U c) = n /\ Sol n U c (back_subst O n U c).
  Proof.
    intros HW Hc HT HP. unfold back_subst.
    pose proof (fold_rev_iota0_inv (back_row O n U c)
      (fun x i => length x = n /\ forall k, i <= k -> k < n -> odot O (nth k U []) x = vg O c k) n (vzeros t0 n)) as K.
    cbv beta in K. destruct K as [L S0].
    - split; [unfold vzeros; apply repeat_length|]. intros k H1 H2. lia.
    - intros x i Hi [Lx Sx]. unfold back_row.
      set (v := odiv O _ _).
      split; [rewrite upd_length; exact Lx|].
      intros k Hk1 Hk2. destruct (Nat.eq_dec k i) as [->|Nk].
      + rewrite (row_solve n U _ i HT HW) by (try rewrite upd_length; lia).
        unfold vg at 1, vget. rewrite nth_upd_eq by lia.
        rewrite (fsum_ext _ (fun j => omul O (mg O U i j) (vg O x j))).
        * unfold v. unfold fsum. field. apply HP. exact Hi.
        * intros j Hj. apply in_iota in Hj. unfold vg, vget. rewrite nth_upd_neq by lia. reflexivity.
      + destruct HW as [HA HR]. rewrite odot_upd by (try rewrite HR by lia; lia).
        rewrite Sx by lia. pose proof (HT i k ltac:(lia) ltac:(lia) Hk2) as Z. unfold mg, mget in Z. rewrite Z. ring.
    - split; [exact L|]. intros i Hi. apply S0; lia.
  Qed.

  Lemma tri_unique n U c x y : WFm n U -> Tri n n U -> Piv n U -> length x = n -> length y = n ->
    Sol n U c x -> Sol n U c y -> x = y.
  Proof.
    intros HW HT HP Lx Ly Sx Sy.
    assert (P : forall d k, d <= n -> n - d <= k -> k < n -> vg O x k = vg O y k).
    { induction d as [|d IH]; intros k Hd H1 H2; [lia|].
      destruct (Nat.eq_dec k (n - S d)) as [e|ne]; [|apply IH; lia].
      pose proof (Sx k H2) as Ex. pose proof (Sy k H2) as Ey.
      rewrite (row_solve n U x k HT HW Lx H2) in Ex. rewrite (row_solve n U y k HT HW Ly H2) in Ey.
      rewrite (fsum_ext _ (fun j => omul O (mg O U k j) (vg O y j))) in Ex.
      2:{ intros j Hj. apply in_iota in Hj. rewrite (IH j) by lia. reflexivity. }
      set (s := fsum _ _ _) in *. pose proof (HP k H2) as Hne.
      transitivity (odiv O (osub O (oadd O (omul O (mg O U k k) (vg O x k)) s) s) (mg O U k k)); [field; exact Hne|].
      rewrite Ex, <- Ey. field. exact Hne. }
    apply (list_ext t0); [lia|]. intros k Hk. apply (P n k); lia.
  Qed.

  (* ---------- the solver ---------- *)
  Lemma einv_init n A b : WFm n A -> length b = n -> EInv n 0 A b A b.
  Proof.
    intros HW Hb. constructor; auto.
    - intros c i H; lia.
    - intros c H; lia.
    - intros x; reflexivity.
  Qed.

  Theorem solve_pp_sound n A b x : WFm n A -> length b = n -> solve_pp O A b = Some x ->
    length x = n /\ Sol n A b x.
  Proof.
    intros HW Hb. unfold solve_pp. cbv zeta. destruct HW as [HA HR]. rewrite HA.
    destruct (fold_left _ _ _) as [[U c]|] eqn:E; [|discriminate].
    intros H. injection H as <-.
    pose proof (elim_all n A b n 0 A b U c ltac:(lia) (einv_init n A b (conj HA HR) Hb) E) as [HW' Hc HT HP HS].
    cbn [Nat.add] in *.
    destruct (back_subst_sol n U c HW' Hc HT HP) as [L S0].
    split; [exact L|]. apply HS. exact S0.
  Qed.

  Theorem solve_pp_unique n A b x y : WFm n A -> length b = n -> solve_pp O A b = Some x ->
    length y = n -> Sol n A b y -> y = x.
  Proof.
    intros HW Hb. unfold solve_pp. cbv zeta. destruct HW as [HA HR]. rewrite HA.
    destruct (fold_left _ _ _) as [[U c]|] eqn:E; [|discriminate].
    intros H Ly Sy. injection H as <-.
    pose proof (elim_all n A b n 0 A b U c ltac:(lia) (einv_init n A b (conj HA HR) Hb) E) as [HW' Hc HT HP HS].
    cbn [Nat.add] in *.
    destruct (back_subst_sol n U c HW' Hc HT HP) as [L S0].
    apply (tri_unique n U c); auto. apply HS. exact Sy.
  Qed.

  Theorem solve_pp_mvmul n A b x : WFm n A -> length b = n -> solve_pp O A b = Some x -> mvmul O A x = b.
  Proof.
    intros HW Hb H. destruct (solve_pp_sound n A b x HW Hb H) as [_ S0].
    apply (Sol_mvmul n); [exact (proj1 HW)|exact Hb|exact S0].
  Qed.
End LinThm.
