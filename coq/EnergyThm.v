(* C10: Carnot's identity for impulsive constraints.  If H is symmetric, H qd+ + G^T Lambda = H qd- and G qd+ = 0,
   then  qd-^T H qd-  -  qd+^T H qd+  =  (qd- - qd+)^T H (qd- - qd+):  the kinetic energy lost in the impact is the
   kinetic energy of the velocity jump, hence non-negative for a positive semi-definite H. *)
From Coq Require Import List Bool Arith Lia Ring Field.
From RV Require Import Scalar Laws ListArr ListLemmas LinDef LinThm ConsThm IdcThm.
Import ListNotations.

Section Energy.
  Context {T : Type} (O : Ops T) {FL : FieldLaws O}.
  Add Field FlFen : (@fl_field T O FL).
  Local Notation t0 := (o0 O).
  Local Notation Mat := (@Mat T).

  (* finite double sums commute *)
  Lemma fsum_add f g l : fsum O (fun i => oadd O (f i) (g i)) l t0 = oadd O (fsum O f l t0) (fsum O g l t0).
  Proof.
    induction l as [|a l IH]; [cbn; ring|].
    rewrite !(fsum_cons O), !(fsum_acc O _ l (oadd O t0 _)), IH. ring.
  Qed.
  Lemma fsum_scale k f l : fsum O (fun i => omul O k (f i)) l t0 = omul O k (fsum O f l t0).
  Proof.
    induction l as [|a l IH]; [cbn; ring|].
    rewrite !(fsum_cons O), !(fsum_acc O _ l (oadd O t0 _)), IH. ring.
  Qed.
  Lemma fsum_zero_fun l : fsum O (fun _ => t0) l t0 = t0.
  Proof. apply (fsum_zero O). reflexivity. Qed.
  Lemma fsum_swap (f : nat -> nat -> T) l1 : forall l2,
    fsum O (fun i => fsum O (fun j => f i j) l2 t0) l1 t0 = fsum O (fun j => fsum O (fun i => f i j) l1 t0) l2 t0.
  Proof.
    induction l1 as [|a l1 IH]; intros l2.
    - cbn [fsum fold_left]. symmetry. apply fsum_zero_fun.
    - rewrite (fsum_cons O), (fsum_acc O), IH.
      rewrite (fsum_ext O (fun j => fsum O (fun i => f i j) (a :: l1) t0)
                          (fun j => oadd O (f a j) (fsum O (fun i => f i j) l1 t0))).
      + rewrite fsum_add. change (fun j : nat => f a j) with (f a). ring.
      + intros j _. rewrite (fsum_cons O), (fsum_acc O). ring.
  Qed.

  (* x^T (A y) as a double sum *)
  Definition entry (A : Mat) i j := nth j (nth i A []) t0.
  Lemma quad_fsum (A : Mat) r c (x y : list T) : length A = r -> (forall i, i < r -> length (nth i A []) = c) ->
    length x = r -> length y = c ->
    odot O x (mvmul O A y) = fsum O (fun i => fsum O (fun j => omul O (nth i x t0) (omul O (entry A i j) (nth j y t0))) (iota 0 c) t0) (iota 0 r) t0.
  Proof.
    intros HA HR Hx Hy.
    rewrite (odot_fsum O) by (rewrite (mvmul_length O); lia). rewrite Hx.
    apply (fsum_ext O). intros i Hi. apply in_iota in Hi.
    rewrite (nth_mvmul O) by lia. rewrite (odot_fsum O) by (rewrite HR by lia; lia). rewrite HR by lia.
    rewrite <- fsum_scale. apply (fsum_ext O). intros j _. unfold entry. ring.
  Qed.

  Lemma nth_mcol (G : Mat) i k : k < length G -> nth k (mcol t0 G i) t0 = nth i (nth k G []) t0.
  Proof.
    intros Hk. unfold mcol. rewrite (nth_indep _ t0 ((fun r : list T => nth i r t0) [])) by (rewrite map_length; exact Hk).
    rewrite (map_nth (fun r : list T => nth i r t0)). reflexivity.
  Qed.

  (* transposition: x^T (G^T lam) = (G x)^T lam *)
  Lemma transpose_duality (G : Mat) n m (x lam : list T) : length G = m -> (forall k, k < m -> length (nth k G []) = n) ->
    length x = n -> length lam = m ->
    odot O x (mTvmul O G n lam) = odot O (mvmul O G x) lam.
  Proof.
    intros HG HR Hx Hl.
    assert (L : odot O x (mTvmul O G n lam) =
                fsum O (fun i => fsum O (fun k => omul O (nth i x t0) (omul O (entry G k i) (nth k lam t0))) (iota 0 m) t0) (iota 0 n) t0).
    { unfold mTvmul. rewrite (odot_fsum O) by (rewrite (mvmul_length O); unfold mTn; rewrite (mtn_length O); lia). rewrite Hx.
      apply (fsum_ext O). intros i Hi. apply in_iota in Hi.
      rewrite (nth_mvmul O) by (unfold mTn; rewrite (mtn_length O); lia). unfold mTn. rewrite (nth_mtn O) by lia.
      rewrite (odot_fsum O) by (rewrite (mcol_length O); lia). rewrite (mcol_length O), HG.
      rewrite <- fsum_scale. apply (fsum_ext O). intros k Hk. apply in_iota in Hk.
      rewrite nth_mcol by lia. unfold entry. ring. }
    rewrite L, fsum_swap.
    rewrite (odot_fsum O) by (rewrite (mvmul_length O); lia). rewrite (mvmul_length O), HG.
    apply (fsum_ext O). intros k Hk. apply in_iota in Hk.
    rewrite (nth_mvmul O) by lia. rewrite (odot_fsum O) by (rewrite HR by lia; lia). rewrite HR by lia.
    transitivity (omul O (nth k lam t0) (fsum O (fun i => omul O (nth i (nth k G []) t0) (nth i x t0)) (iota 0 n) t0)); [|ring].
    rewrite <- fsum_scale. apply (fsum_ext O). intros i _. unfold entry. ring.
  Qed.

  Definition symmetric (n : nat) (H : Mat) : Prop := forall i j, i < n -> j < n -> entry H i j = entry H j i.
  Lemma quad_sym (H : Mat) n (x y : list T) : WFm n H -> symmetric n H -> length x = n -> length y = n ->
    odot O x (mvmul O H y) = odot O y (mvmul O H x).
  Proof.
    intros [HA HR] Hs Hx Hy.
    rewrite (quad_fsum H n n x y HA HR Hx Hy), (quad_fsum H n n y x HA HR Hy Hx), fsum_swap.
    apply (fsum_ext O). intros i Hi. apply (fsum_ext O). intros j Hj. apply in_iota in Hi, Hj.
    rewrite (Hs j i) by lia. ring.
  Qed.

  (* linearity of the dot product and of A * (.) in list form *)
  Lemma odot_vsub_l : forall (a b x : list T), length a = length b ->
    odot O (vsub O a b) x = osub O (odot O a x) (odot O b x).
  Proof.
    unfold vsub. induction a as [|p a IH]; intros [|q b] [|c x] Hl; simpl in *; try lia; try ring.
    rewrite IH by lia. ring.
  Qed.
  Lemma odot_vadd_r : forall (a x y : list T), length x = length y ->
    odot O a (vadd O x y) = oadd O (odot O a x) (odot O a y).
  Proof.
    unfold vadd. induction a as [|p a IH]; intros [|q x] [|c y] Hl; simpl in *; try lia; try ring.
    rewrite IH by lia. ring.
  Qed.
  Lemma mvmul_vsub (A : Mat) (x y : list T) : length x = length y ->
    mvmul O A (vsub O x y) = vsub O (mvmul O A x) (mvmul O A y).
  Proof.
    intros Hl. unfold mvmul. induction A as [|r A IH]; cbn; [reflexivity|].
    unfold vsub at 2. cbn [combine map fst snd]. fold (vsub O (map (fun r0 => odot O r0 x) A) (map (fun r0 => odot O r0 y) A)).
    rewrite <- IH. f_equal. apply (odot_vsub_r O). exact Hl.
  Qed.

  Theorem carnot (H G : Mat) n m (qm qp Lam : list T) :
    WFm n H -> symmetric n H -> length G = m -> (forall k, k < m -> length (nth k G []) = n) ->
    length qm = n -> length qp = n -> length Lam = m ->
    vadd O (mvmul O H qp) (mTvmul O G n Lam) = mvmul O H qm ->      (* momentum balance *)
    mvmul O G qp = vzeros t0 m ->                                  (* v+ = 0 *)
    osub O (odot O qm (mvmul O H qm)) (odot O qp (mvmul O H qp)) =
    odot O (vsub O qm qp) (mvmul O H (vsub O qm qp)).
  Proof.
    intros WH Hs HG HR Lm Lp Ll Emom Efeas.
    assert (Lg : length (mTvmul O G n Lam) = n) by (unfold mTvmul, mTn; rewrite (mvmul_length O), (mtn_length O); reflexivity).
    assert (Lhp : length (mvmul O H qp) = n) by (rewrite (mvmul_length O); exact (proj1 WH)).
    assert (Lhm : length (mvmul O H qm) = n) by (rewrite (mvmul_length O); exact (proj1 WH)).
    (* qp . (G^T Lam) = (G qp) . Lam = 0 *)
    assert (Z : odot O qp (mTvmul O G n Lam) = t0).
    { rewrite (transpose_duality G n m qp Lam HG HR Lp Ll), Efeas. apply (odot_zeros_l O). }
    (* qp . H qm = qp . H qp *)
    assert (A : odot O qp (mvmul O H qm) = odot O qp (mvmul O H qp)).
    { rewrite <- Emom. rewrite odot_vadd_r by lia. rewrite Z. ring. }
    rewrite mvmul_vsub by lia.
    rewrite odot_vsub_l by lia. rewrite !(odot_vsub_r O) by lia.
    rewrite (quad_sym H n qm qp WH Hs Lm Lp). rewrite A. ring.
  Qed.
End Energy.
