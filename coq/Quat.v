(* L1: quaternions (x,y,z,w), rbdl conventions. *)
From Coq Require Import List Bool.
From RV Require Import Scalar LinAlg3.
Import ListNotations.

Section Quat.
  Context {T : Type} (O : Ops T).
  Local Notation "0" := (o0 O). Local Notation "1" := (o1 O). Local Notation "2" := (o2 O).
  Local Infix "+" := (oadd O). Local Infix "*" := (omul O). Local Infix "-" := (osub O).
  Local Infix "/" := (odiv O).
  Local Notation "- x" := (oopp O x).

  Record Qt : Type := mkQt { qx : T; qy : T; qz : T; qw : T }.
  Definition qid : Qt := mkQt 0 0 0 1.
  Definition qscale (q : Qt) (s : T) : Qt := mkQt (qx q * s) (qy q * s) (qz q * s) (qw q * s).
  Definition qmul (p q : Qt) : Qt :=
    mkQt (qw p * qx q + qx p * qw q + qy p * qz q - qz p * qy q)
         (qw p * qy q + qy p * qw q + qz p * qx q - qx p * qz q)
         (qw p * qz q + qz p * qw q + qx p * qy q - qy p * qx q)
         (qw p * qw q - qx p * qx q - qy p * qy q - qz p * qz q).
  Definition qconj (q : Qt) : Qt := mkQt (- qx q) (- qy q) (- qz q) (qw q).
  Definition qnorm2 (q : Qt) : T := qx q * qx q + qy q * qy q + qz q * qz q + qw q * qw q.
  Definition qdot4 (p q : Qt) : T := qx p * qx q + qy p * qy q + qz p * qz q + qw p * qw q.
  Definition qneg (q : Qt) : Qt := mkQt (- qx q) (- qy q) (- qz q) (- qw q).
  Definition qtoMatrix (q : Qt) : M3 T :=
    let x := qx q in let y := qy q in let z := qz q in let w := qw q in
    mkM3 (1 - 2*y*y - 2*z*z) (2*x*y + 2*w*z) (2*x*z - 2*w*y)
         (2*x*y - 2*w*z) (1 - 2*x*x - 2*z*z) (2*y*z + 2*w*x)
         (2*x*z + 2*w*y) (2*y*z - 2*w*x) (1 - 2*x*x - 2*y*y).
  Definition qrotate (q : Qt) (v : V3 T) : V3 T :=
    let vq := mkQt (vx v) (vy v) (vz v) 0 in
    let r := qmul (qconj q) (qmul vq q) in mkV3 (qx r) (qy r) (qz r).
  Definition qomegaToQDot (q : Qt) (w : V3 T) : Qt :=
    let h := ohalf O in
    mkQt (h * qw q * vx w + h * (- qz q) * vy w + h * qy q * vz w)
         (h * qz q * vx w + h * qw q * vy w + h * (- qx q) * vz w)
         (h * (- qy q) * vx w + h * qx q * vy w + h * qw q * vz w)
         (h * (- qx q) * vx w + h * (- qy q) * vy w + h * (- qz q) * vz w).
  (* as in the header: only valid when 1 + trace > 0 *)
  Definition qfromMatrix_hdr (m : M3 T) : Qt :=
    let w := osqrt O (1 + m00 m + m11 m + m22 m) * ohalf O in
    let w4 := w * o4 O in
    mkQt ((m12 m - m21 m) / w4) ((m20 m - m02 m) / w4) ((m01 m - m10 m) / w4) w.
  (* four-branch conversion (the header after the "fix:" commit): valid for every rotation *)
  Definition qfromMatrix (m : M3 T) : Qt :=
    let tr := m00 m + m11 m + m22 m in
    if oltb O 0 tr then qfromMatrix_hdr m
    else if (oltb O (m11 m) (m00 m) && oltb O (m22 m) (m00 m))%bool then
      let x := osqrt O (1 + m00 m - m11 m - m22 m) * ohalf O in
      let x4 := x * o4 O in
      mkQt x ((m01 m + m10 m) / x4) ((m02 m + m20 m) / x4) ((m12 m - m21 m) / x4)
    else if oltb O (m22 m) (m11 m) then
      let y := osqrt O (1 + m11 m - m00 m - m22 m) * ohalf O in
      let y4 := y * o4 O in
      mkQt ((m01 m + m10 m) / y4) y ((m12 m + m21 m) / y4) ((m20 m - m02 m) / y4)
    else
      let z := osqrt O (1 + m22 m - m00 m - m11 m) * ohalf O in
      let z4 := z * o4 O in
      mkQt ((m02 m + m20 m) / z4) ((m12 m + m21 m) / z4) z ((m01 m - m10 m) / z4).
  Definition qfromAxisAngle (a : V3 T) (ang : T) : Qt :=
    let d := v3norm O a in
    let s2 := osin O (ang * ohalf O) / d in
    mkQt (vx a * s2) (vy a * s2) (vz a * s2) (ocos O (ang * ohalf O)).
  Definition qlist (q : Qt) : list T := [qx q; qy q; qz q; qw q].
  Definition qnormalize (q : Qt) : Qt :=
    let n := osqrt O (qnorm2 q) in mkQt (qx q / n) (qy q / n) (qz q / n) (qw q / n).
End Quat.
Arguments Qt : clear implicits.
Arguments mkQt {T}. Arguments qx {T}. Arguments qy {T}. Arguments qz {T}. Arguments qw {T}.
