(* C19: loading frames by name is issuing the API calls with the ids those names stand for; a successfully added
   named body is found under its name afterwards and earlier names keep their ids. *)
From Coq Require Import List Bool NArith Lia.
From RV Require Import Scalar LinAlg3 Spatial ListArr ModelDef LuaDef.
Import ListNotations.
Section LuaThm.
  Context {T : Type} (O : Ops T).
  Local Notation Model := (@Model T).

  (* the loader's parent resolution is the API call with the id registered for the name *)
  Theorem lua_add_is_api_call (M : Model) (f : Frame) p :
    name_lookup M (f_parent f) = Some p -> f_parent f <> 0%N -> p <> uint_max ->
    lua_add O M f = add_body O M p (f_X f) (f_joint f) (f_body f) (f_name f).
  Proof.
    intros H H0 Hp. unfold lua_add, lua_parent. rewrite H.
    destruct (N.eqb_spec (f_parent f) 0); [contradiction|]. destruct (N.eqb_spec p uint_max); [contradiction|]. reflexivity.
  Qed.
  Lemma find_app_none {A} (f : A -> bool) l1 l2 : find f l1 = None -> find f (l1 ++ l2) = find f l2.
  Proof. induction l1 as [|a l IH]; cbn; [reflexivity|]. destruct (f a); [discriminate|exact IH]. Qed.
  Lemma find_app_some {A} (f : A -> bool) l1 l2 x : find f l1 = Some x -> find f (l1 ++ l2) = Some x.
  Proof. induction l1 as [|a l IH]; cbn; [discriminate|]. destruct (f a); [auto|exact IH]. Qed.

  (* registering a fresh name: it resolves to the new id, every other name resolves as before *)
  Lemma lookup_add_name (M : Model) nm id other :
    nm <> 0%N -> name_lookup M nm = None ->
    let names' := add_name M nm id in
    (match find (fun p => N.eqb (fst p) nm) names' with Some p => Some (snd p) | None => None end) = Some id /\
    (other <> nm ->
     (match find (fun p => N.eqb (fst p) other) names' with Some p => Some (snd p) | None => None end) = name_lookup M other).
  Proof.
    intros Hn Hf. cbv zeta. unfold add_name, name_lookup in *.
    destruct (N.eqb_spec nm 0); [contradiction|]. split.
    - destruct (find (fun p : N * N => N.eqb (fst p) nm) (names M)) eqn:E; [discriminate|].
      rewrite (find_app_none _ _ _ E). cbn. rewrite N.eqb_refl. reflexivity.
    - intros Ho. destruct (find (fun p : N * N => N.eqb (fst p) other) (names M)) eqn:E.
      + rewrite (find_app_some _ _ _ _ E). reflexivity.
      + rewrite (find_app_none _ _ _ E). cbn. destruct (N.eqb_spec nm other); [congruence|reflexivity].
  Qed.

  (* a movable body added under a fresh name is found under that name; other names keep their ids *)
  Theorem add_movable_registers_name (M M' : Model) p X j b nm id other :
    nm <> 0%N -> name_lookup M nm = None ->
    add_movable O M p X j b nm = (M', ROk id) ->
    name_lookup M' nm = Some id /\ (other <> nm -> name_lookup M' other = name_lookup M other).
  Proof.
    intros Hn Hf H. unfold add_movable in H.
    assert (NT : name_taken M nm = false).
    { unfold name_taken. rewrite Hf. apply andb_false_r. }
    rewrite NT in H.
    destruct (if is_fixed_id M p then _ else _) as [mp mpX] in H.
    cbv zeta in H. injection H as <- <-. unfold name_lookup at 1 3. cbn [names].
    apply (lookup_add_name M nm _ other Hn Hf).
  Qed.
End LuaThm.
