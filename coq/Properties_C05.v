(* C05 Jacobians.  Proved: all three Jacobians are one column fill (jac_fill) over the joints on the path from the
   (movable reference of the) body to the base, and entries in columns of degrees of freedom that are not on that
   path are left untouched -- zero for a zero-initialised matrix; the point Jacobian is rows 3..5 of the 6-D one
   column by column.  G(q) qdot = velocity: the spatial Jacobian times qdot is the body velocity of the velocity
   recursion, and both point Jacobians times qdot are what CalcPointVelocity6D / CalcPointVelocity return (movable
   bodies; any two incoming workspaces).  The derivative reading is decided by the L3 oracle (jets). *)
From Coq Require Import List NArith.
From RV Require Import Scalar Laws LinAlg3 Spatial ListArr LinDef ModelDef JointDef KinDef C14Thm WsLemmas KinThm C04Thm JacThm JacThm2 JacThm3.
Import ListNotations.
Section P.
  Context {T : Type} (O : Ops T).
  Definition off_path (M : @Model T) (w : @WS T) (refb j : nat) : Prop :=
    forall b, In b (path_to_base M (nbodies M) refb) ->
      j < jq (getJ M b) \/ jq (getJ M b) + length (jS O M w b) <= j.
  Theorem C05_point_jacobian_off_path_zero (M : @Model T) (w : @WS T) id p i j :
    off_path M w (fst (ref_body O M id)) j ->
    mget (o0 O) (point_jacobian O M w id p (mzeros (o0 O) 3 (qdot_size M))) i j = o0 O.
  Proof. intros H. unfold point_jacobian. apply jacobian_off_path_columns_zero. exact H. Qed.
  Theorem C05_point_jacobian6_off_path_zero (M : @Model T) (w : @WS T) id p i j :
    off_path M w (fst (ref_body O M id)) j ->
    mget (o0 O) (point_jacobian6 O M w id p (mzeros (o0 O) 6 (qdot_size M))) i j = o0 O.
  Proof. intros H. unfold point_jacobian6. apply jacobian_off_path_columns_zero. exact H. Qed.
  Theorem C05_body_spatial_jacobian_off_path_zero (M : @Model T) (w : @WS T) id i j :
    off_path M w (fst (ref_body O M id)) j ->
    mget (o0 O) (body_spatial_jacobian O M w id (mzeros (o0 O) 6 (qdot_size M))) i j = o0 O.
  Proof.
    intros H. unfold body_spatial_jacobian. destruct (ref_body O M id) as [rb fx]. cbn [fst] in H.
    apply jacobian_off_path_columns_zero. exact H.
  Qed.
  (* a caller-provided non-zero matrix keeps its entries there *)
  Theorem C05_fill_leaves_other_columns (M : @Model T) (w : @WS T) (f : SV T -> list T) refb G i j :
    off_path M w refb j -> mget (o0 O) (jac_fill O M w G refb f) i j = mget (o0 O) G i j.
  Proof. intros H. apply jac_fill_other. exact H. Qed.
  Theorem C05_point_jacobian_is_linear_part_of_6D (M : @Model T) (w : @WS T) id p s :
    let pt := mkST (m3id O) (b2b O M w id p) in
    v3list (svlin (st_apply O pt s)) = skipn 3 (svlist (st_apply O pt s)).
  Proof. exact (point_jacobians_same_columns O M w id p s). Qed.
End P.
Section Q.
  Context {T : Type} (O : Ops T) {FL : FieldLaws O} {TL : TrigLaws O}.
  (* G(q) qdot = velocity: the body spatial Jacobian of every movable body, computed on the workspace left by the
     position update from ANY incoming workspace, times qdot is the body's spatial velocity v_b of the velocity
     recursion (C06), for every well-formed tree, joint kind and arity on the path, and every qdot *)
  Theorem C05_spatial_jacobian_times_qdot_is_body_velocity (M : @Model T) q qd (w0 : @WS T) (id : N) :
    WF M ->
    (forall i j, 0 < i < nbodies M -> 0 < j < nbodies M -> i <> j ->
       is_custom (jkind (getJ M i)) = true -> is_custom (jkind (getJ M j)) = true -> jcust (getJ M i) <> jcust (getJ M j)) ->
    length qd = dof_count M -> (forall i, 0 < i < nbodies M -> joint_wf O M q i) -> Good O M w0 ->
    (id < fixed_disc)%N -> 0 < N.to_nat id < nbodies M ->
    mvmul O (body_spatial_jacobian O M (ukc_q O M w0 q) id (mzeros (o0 O) 6 (dof_count M))) qd = svlist (vF O M q qd (N.to_nat id)).
  Proof. intros W C Lq Jw G. exact (spatial_jacobian_times_qd O M q W C qd Lq Jw w0 G id). Qed.
  (* ... and the point Jacobians times qdot are the results of CalcPointVelocity6D / CalcPointVelocity, whatever the
     two incoming workspaces hold *)
  Theorem C05_point_jacobian6_times_qdot_is_point_velocity (M : @Model T) q qd (w0 w1 : @WS T) (id : N) (p : V3 T) :
    WF M ->
    (forall i j, 0 < i < nbodies M -> 0 < j < nbodies M -> i <> j ->
       is_custom (jkind (getJ M i)) = true -> is_custom (jkind (getJ M j)) = true -> jcust (getJ M i) <> jcust (getJ M j)) ->
    length qd = dof_count M -> (forall i, 0 < i < nbodies M -> joint_wf O M q i) -> Good O M w0 -> Good O M w1 ->
    (id < fixed_disc)%N -> 0 < N.to_nat id < nbodies M ->
    mvmul O (point_jacobian6 O M (ukc_q O M w0 q) id p (mzeros (o0 O) 6 (dof_count M))) qd =
    svlist (snd (calc_point_velocity6 O M w1 q qd id p true)).
  Proof. intros W C Lq Jw. exact (point_jacobian6_is_point_velocity O M q W C qd Lq Jw w0 w1 id p). Qed.
  Theorem C05_point_jacobian_times_qdot_is_point_velocity (M : @Model T) q qd (w0 w1 : @WS T) (id : N) (p : V3 T) :
    WF M ->
    (forall i j, 0 < i < nbodies M -> 0 < j < nbodies M -> i <> j ->
       is_custom (jkind (getJ M i)) = true -> is_custom (jkind (getJ M j)) = true -> jcust (getJ M i) <> jcust (getJ M j)) ->
    length qd = dof_count M -> (forall i, 0 < i < nbodies M -> joint_wf O M q i) -> Good O M w0 -> Good O M w1 ->
    (id < fixed_disc)%N -> 0 < N.to_nat id < nbodies M ->
    mvmul O (point_jacobian O M (ukc_q O M w0 q) id p (mzeros (o0 O) 3 (dof_count M))) qd =
    v3list (snd (calc_point_velocity O M w1 q qd id p true)).
  Proof. intros W C Lq Jw. exact (point_jacobian_is_point_velocity O M q W C qd Lq Jw w0 w1 id p). Qed.
End Q.
Print Assumptions C05_point_jacobian_off_path_zero. Print Assumptions C05_point_jacobian6_off_path_zero.
Print Assumptions C05_body_spatial_jacobian_off_path_zero. Print Assumptions C05_fill_leaves_other_columns.
Print Assumptions C05_point_jacobian_is_linear_part_of_6D.
Print Assumptions C05_spatial_jacobian_times_qdot_is_body_velocity.
Print Assumptions C05_point_jacobian6_times_qdot_is_point_velocity. Print Assumptions C05_point_jacobian_times_qdot_is_point_velocity.
