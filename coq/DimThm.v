(* Sizes of the quantities assembled by CalcConstrainedSystemVariables and by the dynamics routines: the
   joint-space inertia matrix written by CRBA into an n x n matrix stays n x n, the bias force vector has n
   entries, every row of G has qdot_size entries, gamma has one entry per constraint row.  With these the size
   hypotheses of the KKT theorems are discharged for well-formed models. *)
From Coq Require Import List Bool Arith NArith Lia.
From RV Require Import Scalar LinAlg3 Spatial Quat ListArr ListLemmas ModelDef JointDef KinDef LinDef DynDef ConsDef
     C14Thm LinThm ConsThm IdcThm JacThm.
Import ListNotations.

Section Dim.
  Context {T : Type} (O : Ops T).
  Local Notation t0 := (o0 O).
  Local Notation Model := (@Model T). Local Notation WS := (@WS T).
  Local Notation Mat := (@Mat T).

  Definition SameDims (A B : Mat) : Prop := length A = length B /\ forall i, length (nth i A []) = length (nth i B []).
  Lemma SameDims_refl A : SameDims A A. Proof. split; reflexivity. Qed.
  Lemma SameDims_trans A B C : SameDims A B -> SameDims B C -> SameDims A C.
  Proof. intros [a1 a2] [b1 b2]. split; [congruence|]. intros i. rewrite a2. apply b2. Qed.

  Lemma upd_row_dims (A : Mat) k (r : list T) : length r = length (nth k A []) -> SameDims (upd A k r) A.
  Proof.
    intros H. split; [apply upd_length|]. intros i.
    destruct (Nat.eq_dec i k) as [->|N].
    - destruct (lt_dec k (length A)) as [L|L].
      + rewrite nth_upd_eq by exact L. exact H.
      + rewrite (upd_oob A k r) by lia. reflexivity.
    - rewrite nth_upd_neq by congruence. reflexivity.
  Qed.
  Lemma mset_block_dims (B : Mat) : forall (A : Mat) r c, SameDims (mset_block A r c B) A.
  Proof.
    unfold mset_block.
    assert (K : forall (B : Mat) (A0 A : Mat) r c, SameDims A A0 ->
               SameDims (fst (fold_left (fun (acc : Mat * nat) row =>
                  (upd (fst acc) (snd acc) (vset_seg (nth (snd acc) (fst acc) []) c row), S (snd acc))) B (A, r))) A0).
    { clear. induction B as [|row B IH]; intros A0 A r c HA; cbn [fold_left fst snd]; [exact HA|].
      apply IH. eapply SameDims_trans; [|exact HA]. apply upd_row_dims. apply vset_seg_length. }
    intros A r c. apply K. apply SameDims_refl.
  Qed.

  Lemma fold_left_inv {A B} (P : A -> Prop) (f : A -> B -> A) (l : list B) (a : A) :
    P a -> (forall a b, P a -> P (f a b)) -> P (fold_left f l a).
  Proof. revert a; induction l as [|b l IH]; intros a Ha Hs; cbn; [exact Ha|]. apply IH; [apply Hs; exact Ha|exact Hs]. Qed.

  Lemma crba_walk_dims (M : Model) (w2 : WS) (qi : nat) (H : Mat) :
    forall (l : list nat) (acc : Mat * list (SV T) * nat), SameDims (fst (fst acc)) H ->
      SameDims (fst (fst (fold_left (fun (acc : Mat * list (SV T) * nat) (_ : nat) =>
          let '(H, F, j) := acc in
          if Nat.eqb (getlam M j) 0 then acc else
          let F := map (st_applyT O (gXl O w2 j)) F in
          let j := getlam M j in
          let qj := jq (getJ M j) in
          let Sj := jS O M w2 j in
          let blk := map (fun f => map (fun s => svdot O f s) Sj) F in
          let H := mset_block H qi qj blk in
          let H := mset_block H qj qi (mtranspose_n t0 blk (length Sj)) in
          (H, F, j)) l acc))) H.
  Proof.
    induction l as [|x l IH]; intros [[Ha Fa] ja] HA; cbn [fold_left]; [exact HA|].
    apply IH. cbn [fst] in HA. destruct (Nat.eqb (getlam M ja) 0); [exact HA|]. cbn [fst].
    eapply SameDims_trans; [apply mset_block_dims|]. eapply SameDims_trans; [apply mset_block_dims|exact HA].
  Qed.

  Theorem crba_dims (M : Model) (w : WS) q (H : Mat) b : SameDims (snd (crba O M w q H b)) H.
  Proof.
    unfold crba.
    apply (fold_left_inv (fun st : WS * Mat => SameDims (snd st) H)); [apply SameDims_refl|].
    intros [w1 H1] i HI. cbn [snd] in HI. cbv zeta.
    match goal with |- context [fold_left ?f (body_range M) (?h0, ?f0, i)] =>
      assert (E0 : SameDims h0 H) by (eapply SameDims_trans; [apply mset_block_dims|exact HI]);
      assert (K : SameDims (fst (fst (fold_left f (body_range M) (h0, f0, i)))) H) by (apply crba_walk_dims; exact E0);
      destruct (fold_left f (body_range M) (h0, f0, i)) as [[H3 F3] j3]
    end.
    cbn [fst snd] in *. exact K.
  Qed.

  Lemma zerosM_wf n : WFm n (zerosM O n n).
  Proof.
    unfold zerosM, mzeros, vzeros. split; [apply repeat_length|]. intros i Hi.
    rewrite (nth_indep _ [] (repeat t0 n)) by (rewrite repeat_length; exact Hi). rewrite nth_repeat. apply repeat_length.
  Qed.
  Lemma wfm_of_dims n (A B : Mat) : SameDims A B -> WFm n B -> WFm n A.
  Proof. intros [d1 d2] [b1 b2]. split; [congruence|]. intros i Hi. rewrite d2. apply b2. exact Hi. Qed.
  Theorem crba_wf (M : Model) (w : WS) q n b : WFm n (snd (crba O M w q (zerosM O n n) b)).
  Proof. eapply wfm_of_dims; [apply crba_dims|apply zerosM_wf]. Qed.

  (* the inward pass only overwrites segments of tau *)
  Lemma inward_tau_length (M : Model) (w : WS) tau : length (snd (inward_tau O M w tau)) = length tau.
  Proof.
    unfold inward_tau.
    apply (fold_left_inv (fun st : WS * list T => length (snd st) = length tau)); [reflexivity|].
    intros [w1 t1] i HI. cbn [snd] in *. rewrite vset_seg_length. exact HI.
  Qed.
  Theorem nle_length (M : Model) (w : WS) q qd tau fext : length (snd (nonlinear_effects O M w q qd tau fext)) = length tau.
  Proof. unfold nonlinear_effects. apply inward_tau_length. Qed.
  Theorem id_length (M : Model) (w : WS) q qd qdd tau fext : length (snd (inverse_dynamics O M w q qd qdd tau fext)) = length tau.
  Proof. unfold inverse_dynamics. apply inward_tau_length. Qed.

  Lemma cons_row_G_length (M : Model) (w : WS) r : length (cons_row_G O M w r) = qdot_size M.
  Proof.
    unfold cons_row_G, rowTmat, mTvmul. destruct r; rewrite (mvmul_length O); unfold mTn; apply (mtn_length O).
  Qed.
  Lemma cons_G_rows (M : Model) (w : WS) cs k : k < length cs -> length (nth k (cons_G O M w cs) []) = qdot_size M.
  Proof.
    intros Hk. unfold cons_G.
    rewrite (nth_indep _ [] (cons_row_G O M w (nth k cs (RContact 0%N (v3zero O) (v3zero O))))) by (rewrite map_length; exact Hk).
    rewrite (map_nth (cons_row_G O M w)). apply cons_row_G_length.
  Qed.

  (* the assembled system of CalcConstrainedSystemVariables has the sizes the KKT theorems ask for *)
  Theorem ccsv_sizes (M : Model) (w : WS) q qd cs upd fext : qdot_size M = dof_count M ->
    let Sy := snd (calc_constrained_system_variables O M w q qd cs upd fext) in
    let n := dof_count M in let m := length cs in
    WFm n (cH Sy) /\ length (cC Sy) = n /\ length (cG Sy) = m /\ (forall k, k < m -> length (nth k (cG Sy) []) = n) /\
    length (cgamma Sy) = m.
  Proof.
    intros Hq. unfold calc_constrained_system_variables. cbv zeta.
    set (w0 := if upd then _ else _).
    pose proof (nle_length M w0 q qd (vzeros t0 (dof_count M)) fext) as LN.
    destruct (nonlinear_effects O M w0 q qd (vzeros t0 (dof_count M)) fext) as [w1 C]. cbn [snd] in LN.
    pose proof (crba_wf M w1 q (dof_count M) false) as WH.
    destruct (crba O M w1 q (zerosM O (dof_count M) (dof_count M)) false) as [w2 H]. cbn [snd] in *.
    cbn [snd cH cC cG cgamma]. repeat split.
    - exact (proj1 WH).
    - exact (proj2 WH).
    - rewrite LN. unfold vzeros. apply repeat_length.
    - unfold cons_G. apply map_length.
    - intros k Hk. rewrite cons_G_rows by exact Hk. exact Hq.
    - rewrite map_length, !combine_length, !map_length, combine_length, iota_length. lia.
  Qed.
End Dim.

(* the KKT theorems without size hypotheses, for models whose velocity and dof counts agree (C14: every constructed model) *)
Section Sized.
  Context {T : Type} (O : Ops T) {FL : Laws.FieldLaws O}.
  Hypothesis oeqb_spec : forall x y : T, oeqb O x y = true <-> x = y.
  Local Notation t0 := (o0 O).

  Theorem fdc_equations_sized (M : @Model T) (w : @WS T) q qd tau cs fext w' Sy qdd lam :
    qdot_size M = dof_count M -> length tau = dof_count M ->
    forward_dynamics_constraints O M w q qd tau cs fext = (w', Sy, Some (qdd, lam)) ->
    vadd O (mvmul O (cH Sy) qdd) (cC Sy) = vadd O tau (mTvmul O (cG Sy) (dof_count M) lam) /\
    mvmul O (cG Sy) qdd = cgamma Sy.
  Proof.
    intros Hq Lt E.
    pose proof (ccsv_sizes O M w q qd cs true fext Hq) as Z. cbv zeta in Z.
    assert (ES : Sy = snd (calc_constrained_system_variables O M w q qd cs true fext)).
    { unfold forward_dynamics_constraints in E. cbv zeta in E.
      destruct (calc_constrained_system_variables O M w q qd cs true fext) as [w1 S1].
      destruct (kkt_solve O _ _ _ _ _ _) as [[u x]|]; [|discriminate]. injection E as _ <- _ _. reflexivity. }
    rewrite <- ES in Z. destruct Z as (A & B & C & D & G).
    exact (fdc_equations O oeqb_spec M w q qd tau cs fext w' Sy qdd lam E A C D B Lt G).
  Qed.

  Theorem fd_lagrangian_solves_sized (M : @Model T) (w : @WS T) q qd tau fext w' qdd Hm C :
    length tau = dof_count M ->
    forward_dynamics_lagrangian O M w q qd tau fext = (w', Some qdd, Hm, C) ->
    vadd O (mvmul O Hm qdd) C = tau.
  Proof.
    intros Lt E.
    assert (Z : WFm (dof_count M) Hm /\ length C = dof_count M).
    { unfold forward_dynamics_lagrangian in E. cbv zeta in E.
      pose proof (id_length O M w q qd (vzeros t0 (dof_count M)) (vzeros t0 (dof_count M)) fext) as LI.
      destruct (inverse_dynamics O M w q qd _ _ fext) as [w1 C1]. cbn [snd] in LI.
      pose proof (crba_wf O M w1 q (dof_count M) false) as WH. unfold zerosM in WH.
      destruct (crba O M w1 q _ false) as [w2 H2]. cbn [snd] in WH.
      injection E as _ _ <- <-. split; [exact WH|]. rewrite LI. unfold vzeros. apply repeat_length. }
    destruct Z as [WH LC].
    exact (fd_lagrangian_solves O oeqb_spec M w q qd tau fext w' qdd Hm C E WH LC Lt).
  Qed.

  Theorem idc_equations_sized (M : @Model T) (w : @WS T) q qd qdes cs act relaxed fext w' Sy qdd tau lam :
    qdot_size M = dof_count M -> length act = dof_count M -> length qdes = dof_count M ->
    inverse_dynamics_constraints O M w q qd qdes cs act relaxed fext = (w', Sy, Some (qdd, tau, lam)) ->
    let n := dof_count M in
    mvmul O (cG Sy) qdd = cgamma Sy /\
    (forall i, i < n -> nth i act false = false -> vget t0 tau i = t0) /\
    (forall i, i < n -> oadd O (odot O (nth i (cH Sy) []) qdd) (vget t0 (cC Sy) i) =
                        oadd O (vget t0 tau i) (odot O (nth i (mTn O (cG Sy) n) []) lam)) /\
    (relaxed = false -> forall i, i < n -> nth i act false = true -> vget t0 qdd i = vget t0 qdes i).
  Proof.
    intros Hq La Lq E.
    pose proof (ccsv_sizes O M w q qd cs true fext Hq) as Z. cbv zeta in Z.
    assert (ES : Sy = snd (calc_constrained_system_variables O M w q qd cs true fext)).
    { unfold inverse_dynamics_constraints in E. cbv zeta in E.
      destruct (calc_constrained_system_variables O M w q qd cs true fext) as [w1 S1].
      destruct (solve_pp O _ _) as [z|]; [|discriminate]. injection E as _ <- _ _ _. reflexivity. }
    rewrite <- ES in Z. destruct Z as (A & B & C & D & G).
    exact (idc_equations O oeqb_spec M w q qd qdes cs act relaxed fext w' Sy qdd tau lam E A C D B G La Lq).
  Qed.

  Theorem impulses_equations_sized (M : @Model T) (w : @WS T) q qdm cs vplus w' qdp Lam :
    qdot_size M = dof_count M -> length vplus = length cs ->
    constraint_impulses O M w q qdm cs vplus = (w', Some (qdp, Lam)) ->
    let n := dof_count M in
    let Hm := snd (crba O M (ukc_q O M w q) q (zerosM O n n) false) in
    let G := cons_G O M (fst (crba O M (ukc_q O M w q) q (zerosM O n n) false)) cs in
    vadd O (mvmul O Hm qdp) (mTvmul O G n Lam) = mvmul O Hm qdm /\ mvmul O G qdp = vplus.
  Proof.
    intros Hq Lv E. cbv zeta.
    apply (impulses_equations O oeqb_spec M w q qdm cs vplus w' qdp Lam _ _ E eq_refl eq_refl).
    - apply crba_wf.
    - intros k Hk. rewrite cons_G_rows by exact Hk. exact Hq.
    - exact Lv.
  Qed.
End Sized.
