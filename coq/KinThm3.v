(* C06: UpdateKinematics leaves, besides the velocities (KinThm2), the velocity-product terms c_i and the body
   accelerations of the recursion  a_i = X_i a_lambda(i) + c_i + S_i qdd_i  with a_0 = 0 (no gravity term),
   c_i = c_J,i + v_i x v_J,i  -- for every well-formed tree, joint kind and incoming workspace. *)
From Coq Require Import List Bool Arith NArith Lia Ring Field.
From RV Require Import Scalar LinAlg3 Spatial Quat Tac Laws SpatialLaws ListArr ModelDef JointDef KinDef C14Thm WsLemmas KinThm KinThm2 DynThm.
Import ListNotations.

Section Kin3.
  Context {T : Type} (O : Ops T) {FL : FieldLaws O}.
  Local Notation Model := (@Model T). Local Notation WS := (@WS T).
  Variable M : Model.
  Variables q qd qdd : list T.
  Hypothesis W : WF M.
  Hypothesis cust_inj : forall i j, 0 < i < nbodies M -> 0 < j < nbodies M -> i <> j ->
    is_custom (jkind (getJ M i)) = true -> is_custom (jkind (getJ M j)) = true -> jcust (getJ M i) <> jcust (getJ M j).
  Let n := nbodies M.

  Definition cU i := svadd O (cJF O M q qd i) (crossm O (vF O M q qd i) (vJF O M q qd i)).
  Fixpoint aUf (fuel i : nat) : SV T :=
    match fuel with
    | 0 => svzero O
    | S f => if Nat.eqb i 0 then svzero O
             else svadd O (svadd O (st_apply O (XlF O M q i) (aUf f (getlam M i))) (cU i))
                          (cols_mulv O (SF O M q i) (qdd_seg O M i qdd))
    end.
  Definition aU i := aUf i i.
  Lemma aUf_fuel : forall f f' i, i < n -> i <= f -> i <= f' -> aUf f i = aUf f' i.
  Proof.
    induction f as [|f IH]; intros f' i Hn Hf Hf'.
    - assert (i = 0) by lia. subst. destruct f'; reflexivity.
    - destruct f' as [|f']; [assert (i = 0) by lia; subst; reflexivity|]. cbn.
      destruct (Nat.eqb i 0) eqn:E; [reflexivity|]. apply Nat.eqb_neq in E.
      pose proof (wf_parent M W i) as Hl. unfold getlam, n in *. f_equal. f_equal. f_equal. apply IH; lia.
  Qed.
  Lemma aU_unfold i : 0 < i < n ->
    aU i = svadd O (svadd O (st_apply O (XlF O M q i) (aU (getlam M i))) (cU i)) (cols_mulv O (SF O M q i) (qdd_seg O M i qdd)).
  Proof.
    intros [Hi Hn]. unfold aU. destruct i; [lia|]. cbn [aUf Nat.eqb].
    pose proof (wf_parent M W (S i)) as Hl. unfold getlam, n in *. f_equal. f_equal. f_equal. apply aUf_fuel; unfold n; lia.
  Qed.

  Ltac wsimp := cbn [wXl wXb wv wa wc wvJ wcJ wS wf wpA wU wmS wmU wmDinv wmu wIc wIA wd wu wcS wcU wcDinv wcu
                     w_Xl w_Xb w_v w_a w_c w_vJ w_cJ w_S w_f w_pA w_U w_mS w_mU w_mDinv w_mu w_Ic w_IA w_d w_u
                     w_cS w_cU w_cDinv w_cu] in *.

  Definition InvA (w : WS) (k : nat) : Prop :=
    Good O M w /\ ga O w 0 = svzero O /\
    forall j, 0 < j < k -> gv O w j = vF O M q qd j /\ gc O w j = cU j /\ ga O w j = aU j /\ jS O M w j = SF O M q j /\
                           gXb O w j = XbF O M q j /\ gXl O w j = XlF O M q j.

  Lemma uk_step_invA w i : 0 < i < n -> InvA w i -> InvA (uk_step O M q qd qdd w i) (S i).
  Proof.
    intros [Hi Hn] ((Hlen & Hg) & Ha0 & Hinv). unfold uk_step.
    set (w1 := jcalc O M w i q qd).
    assert (Hlen1 : ws_len w1 n) by (apply jcalc_len; exact Hlen).
    pose proof (jcalc_untouched O true M w i q qd) as U. cbv zeta in U. fold (jcalc O M w i q qd) in U. fold w1 in U.
    destruct U as (UXb & Uv & Ua & Uc & Uf & _).
    assert (Hkind : jkind (getJ M i) <> JRoot) by (apply (wf_kind M W); unfold n in *; auto).
    assert (HXl : gXl O w1 i = XlF O M q i).
    { apply (@jcalc_Xl T O FL); [destruct Hlen as (L & _); rewrite L; exact Hn | exact Hkind]. }
    destruct (jcalc_full_vals O M w i q qd n Hlen Hn (proj1 (Hg i (conj Hi Hn))) (proj2 (Hg i (conj Hi Hn))))
      as (HS & HvJ & _). fold w1 in HS, HvJ.
    pose proof (jcalc_full_cJ O M w i q qd n Hlen Hn Hkind (proj1 (Hg i (conj Hi Hn)))) as HcJ. fold w1 in HcJ.
    assert (Hg1 : Good O M w1).
    { split; [exact Hlen1|]. intros j Hj. apply (jcalc_full_inv O M w i q qd n); auto; intros j' Hj'; apply Hg; exact Hj'. }
    pose proof (wf_parent M W i (conj Hi Hn)) as Hlam. fold (getlam M i) in Hlam.
    assert (Hlen1' := Hlen1). unfold ws_len in Hlen1'. decompose [and] Hlen1'. clear Hlen1'.
    assert (Hal : ga O w1 (getlam M i) = aU (getlam M i)).
    { unfold ga. rewrite Ua. destruct (Nat.eq_dec (getlam M i) 0) as [e|ne]; [rewrite e; exact Ha0|].
      apply (proj1 (proj2 (proj2 (Hinv (getlam M i) ltac:(lia))))). }
    (* the velocity written in either branch is vF i *)
    set (w2 := if Nat.eqb (getlam M i) 0
               then w_v (w_Xb w1 (upd (wXb w1) i (gXl O w1 i))) (upd (wv w1) i (gvJ O w1 i))
               else w_v (w_Xb w1 (upd (wXb w1) i (st_mul O (gXl O w1 i) (gXb O w1 (getlam M i)))))
                        (upd (wv w1) i (svadd O (st_apply O (gXl O w1 i) (gv O w1 (getlam M i))) (gvJ O w1 i)))).
    assert (E2 : wXb w2 = upd (wXb w1) i (XbF O M q i) /\ wv w2 = upd (wv w1) i (vF O M q qd i) /\ wa w2 = wa w1 /\ wc w2 = wc w1 /\ wXl w2 = wXl w1 /\
                 wvJ w2 = wvJ w1 /\ wcJ w2 = wcJ w1 /\ wS w2 = wS w1 /\ wmS w2 = wmS w1 /\ wcS w2 = wcS w1 /\ ws_len w2 n).
    { unfold w2. rewrite (vF_unfold O M q qd i W (conj Hi Hn)), (XbF_unfold O M q i W (conj Hi Hn)).
      destruct (Nat.eqb (getlam M i) 0) eqn:E; wsimp.
      - rewrite HvJ, HXl. repeat split; try reflexivity; wsimp; rewrite ?upd_length; assumption.
      - apply Nat.eqb_neq in E. rewrite HXl, HvJ.
        assert (Hvl : gv O w1 (getlam M i) = vF O M q qd (getlam M i)).
        { unfold gv. rewrite Uv. apply (proj1 (Hinv (getlam M i) ltac:(lia))). }
        assert (Hxl : gXb O w1 (getlam M i) = XbF O M q (getlam M i)).
        { unfold gXb. rewrite UXb. apply (proj2 (proj2 (proj2 (proj2 (Hinv (getlam M i) ltac:(lia)))))). }
        rewrite Hvl, Hxl. repeat split; try reflexivity; wsimp; rewrite ?upd_length; assumption. }
    destruct E2 as (E2X & E2v & E2a & E2c & E2Xl & E2vJ & E2cJ & E2S & E2mS & E2cS & L2).
    clearbody w2.
    assert (Ev : gv O w2 i = vF O M q qd i) by (unfold gv; rewrite E2v; apply nth_upd_eq; lia).
    set (w3 := w_c w2 _). set (w4 := w_a w3 _).
    assert (Ec : gc O w3 i = cU i).
    { unfold w3, gc; wsimp. rewrite nth_upd_eq by (rewrite E2c; lia).
      rewrite Ev. unfold gcJ, gvJ. rewrite E2cJ, E2vJ. fold (gcJ O w1 i). fold (gvJ O w1 i). rewrite HcJ, HvJ. reflexivity. }
    assert (Ea : ga O w4 i = aU i).
    { unfold w4, ga; wsimp. rewrite nth_upd_eq by (unfold w3; wsimp; rewrite E2a; lia).
      rewrite Ec. unfold w3, gXl; wsimp. rewrite E2Xl, E2a. fold (gXl O w1 i). fold (ga O w1 (getlam M i)).
      rewrite (jS_ext O M w1 _ i) by (wsimp; assumption). rewrite HXl, Hal, HS. symmetry. apply aU_unfold. auto. }
    assert (L2' := L2). unfold ws_len in L2'. decompose [and] L2'. clear L2'.
    subst w4 w3.
    split; [|split].
    - apply (good_ext O M w1); wsimp; try assumption.
      unfold ws_len; wsimp. rewrite !upd_length. repeat split; assumption.
    - unfold ga; wsimp. rewrite (nth_upd_neq _ _ i 0) by lia. rewrite E2a, Ua. exact Ha0.
    - intros j [Hj0 Hj]. destruct (Nat.eq_dec j i) as [->|Hne].
      + repeat split.
        * unfold gv; wsimp. exact Ev.
        * unfold gc; wsimp. exact Ec.
        * unfold ga; wsimp. exact Ea.
        * rewrite (jS_ext O M w1) by (wsimp; assumption). exact HS.
        * unfold gXb; wsimp. rewrite E2X. apply nth_upd_eq. lia.
        * unfold gXl; wsimp. rewrite E2Xl. exact HXl.
      + assert (Hjk : 0 < j < i) by lia. destruct (Hinv j Hjk) as (A & B & C & D & F & G).
        repeat split.
        * unfold gv; wsimp. rewrite E2v, nth_upd_neq by auto. rewrite Uv. exact A.
        * unfold gc; wsimp. rewrite nth_upd_neq by auto. rewrite E2c, Uc. exact B.
        * unfold ga; wsimp. rewrite nth_upd_neq by auto. rewrite E2a, Ua. exact C.
        * rewrite (jS_ext O M w1) by (wsimp; assumption). unfold w1, jcalc.
          rewrite (jS_frame O M cust_inj); auto; unfold n in *; lia.
        * unfold gXb; wsimp. rewrite E2X, nth_upd_neq by auto. rewrite UXb. exact F.
        * unfold gXl; wsimp. rewrite E2Xl. fold (gXl O w1 j). unfold w1, jcalc.
          rewrite (proj1 (jcalc_other O true M w i q qd j Hne)). exact G.
  Qed.

  Lemma uk_good (w : WS) : Good O M w -> Good O M (update_kinematics O M w q qd qdd).
  Proof. intros Hg. exact (proj1 (uk_v_spec O M w q qd qdd W Hg)). Qed.

  Theorem uk_a_spec (w : WS) : Good O M w ->
    let w' := update_kinematics O M w q qd qdd in
    forall i, 0 < i < n -> gv O w' i = vF O M q qd i /\ gc O w' i = cU i /\ ga O w' i = aU i /\ gXb O w' i = XbF O M q i /\
                          gXl O w' i = XlF O M q i.
  Proof.
    intros Hg. cbv zeta. rewrite uk_is_fold. unfold body_range.
    pose proof (wf_pos M W) as Hpos. fold n in Hpos.
    assert (K : InvA (fold_left (uk_step O M q qd qdd) (iota 1 (Nat.pred n)) (w_a w (upd (wa w) 0 (svzero O)))) (1 + Nat.pred n)).
    { apply (fold_iota_inv (uk_step O M q qd qdd) InvA).
      - destruct Hg as [L G]. assert (L' := L). unfold ws_len in L'. decompose [and] L'. clear L'.
        split; [|split].
        + split.
          * unfold ws_len in *; wsimp. rewrite upd_length. exact L.
          * intros j Hj. destruct (G j Hj) as [A B]. split; [revert A; apply WsInvJ_ext; reflexivity | revert B; apply kind_dof_ext; reflexivity].
        + unfold ga; wsimp. apply nth_upd_eq. unfold n in *. lia.
        + intros j Hj. lia.
      - intros w' i Hi HI. apply uk_step_invA; auto. lia. }
    replace (1 + Nat.pred n) with n in K by lia.
    intros i Hi. destruct K as (_ & _ & K). destruct (K i Hi) as (A & B & C & _ & F & G). auto.
  Qed.

  (* the 6-D point acceleration of a movable body is a function of model, state and point only *)
  Theorem point_acceleration_ws_independent (w1 w2 : WS) (id : N) pt : Good O M w1 -> Good O M w2 ->
    (id < fixed_disc)%N -> 0 < N.to_nat id < n ->
    snd (calc_point_acceleration6 O M w1 q qd qdd id pt true) = snd (calc_point_acceleration6 O M w2 q qd qdd id pt true).
  Proof.
    intros G1 G2 Hid Hi.
    assert (Z : forall w, Good O M w -> Good O M (zero_a0 O (zero_v0 O w))).
    { intros w [L G]. split.
      - unfold ws_len, zero_a0, zero_v0 in *; cbn. rewrite !upd_length. exact L.
      - intros j Hj. destruct (G j Hj) as [A B]. split; [revert A; apply WsInvJ_ext; reflexivity | revert B; apply kind_dof_ext; reflexivity]. }
    unfold calc_point_acceleration6. cbn [snd]. unfold point_acceleration6_nk, ref_point.
    assert (Hf : is_fixed_id M id = false).
    { unfold is_fixed_id. apply N.leb_gt in Hid. rewrite Hid. reflexivity. }
    rewrite Hf. unfold point_X, world_orient.
    replace (N.leb fixed_disc (N.of_nat (N.to_nat id))) with false by (symmetry; apply N.leb_gt; lia).
    rewrite !N2Nat.id.
    destruct (uk_a_spec _ (Z _ G1) _ Hi) as (V1 & _ & A1 & X1 & _).
    destruct (uk_a_spec _ (Z _ G2) _ Hi) as (V2 & _ & A2 & X2 & _).
    rewrite V1, V2, A1, A2, X1, X2. reflexivity.
  Qed.
End Kin3.
