(* C07: equivalent descriptions.  A specialised Euler / XYZ-translation joint is the chain of its three 1-DoF
   joints (transform and motion subspace), a floating-base joint is TranslationXYZ followed by a spherical joint,
   a fixed attachment is the parent with the joined inertia, the user-defined re-implementations coincide with the
   built-in joints. *)
From Coq Require Import List Bool Arith NArith Lia Ring Field.
From RV Require Import Scalar LinAlg3 Spatial Quat Tac Laws SpatialLaws ListArr ModelDef JointDef KinDef C14Thm WsLemmas C16Thm.
Import ListNotations.

Section C07.
  Context {T : Type} (O : Ops T) {FL : FieldLaws O} {TL : TrigLaws O}.
  Add Field FlF7 : (@fl_field T O FL).
  Local Notation t0 := (o0 O). Local Notation t1 := (o1 O).
  Local Notation Model := (@Model T).

  (* ---- transforms: (X3 X2 X1) X_T  =  (X3 id) ((X2 id) (X1 X_T)): three revolute joints with joint frames X_T, id, id *)
  Lemma chain3 (X3 X2 X1 XT : ST T) :
    st_mul O (st_mul O X3 (st_mul O X2 X1)) XT =
    st_mul O (st_mul O X3 (stid O)) (st_mul O (st_mul O X2 (stid O)) (st_mul O X1 XT)).
  Proof. rewrite !(@st_mul_id_r T O FL). rewrite !(@st_mul_assoc T O FL). reflexivity. Qed.

  Theorem euler_joint_transform_is_chain (M : Model) q i :
    let qi := jq (getJ M i) in
    let q0 := vget t0 q qi in let q1 := vget t0 q (S qi) in let q2 := vget t0 q (S (S qi)) in
    let XT := getXT O M i in
    match jkind (getJ M i) with
    | JEulerZYX => XlF O M q i = st_mul O (st_mul O (Xrotx O q2) (stid O)) (st_mul O (st_mul O (Xroty O q1) (stid O)) (st_mul O (Xrotz O q0) XT))
    | JEulerXYZ => XlF O M q i = st_mul O (st_mul O (Xrotz O q2) (stid O)) (st_mul O (st_mul O (Xroty O q1) (stid O)) (st_mul O (Xrotx O q0) XT))
    | JEulerYXZ => XlF O M q i = st_mul O (st_mul O (Xrotz O q2) (stid O)) (st_mul O (st_mul O (Xrotx O q1) (stid O)) (st_mul O (Xroty O q0) XT))
    | JEulerZXY => XlF O M q i = st_mul O (st_mul O (Xroty O q2) (stid O)) (st_mul O (st_mul O (Xrotx O q1) (stid O)) (st_mul O (Xrotz O q0) XT))
    | JTransXYZ => XlF O M q i = st_mul O (st_mul O (Xtrans O (mkV3 t0 t0 q2)) (stid O))
                                   (st_mul O (st_mul O (Xtrans O (mkV3 t0 q1 t0)) (stid O)) (st_mul O (Xtrans O (mkV3 q0 t0 t0)) XT))
    | _ => True
    end.
  Proof.
    cbv zeta. unfold XlF, joint_XJ. destruct (jkind (getJ M i)); try exact I; try apply chain3.
    rewrite !(@st_mul_id_r T O FL). rewrite <- !(@st_mul_assoc T O FL). f_equal. l1_split; ring.
  Qed.

  (* ---- motion subspaces: the columns of the Euler joint's S are the chain's axes moved into the child frame *)
  Theorem euler_zyx_S_is_chain (q0 q1 q2 a b c : T) :
    let el := euler_lit O JEulerZYX (osin O q0) (ocos O q0) (osin O q1) (ocos O q1) (osin O q2) (ocos O q2) a b c in
    m63_sets O (m63zero O) (snd (fst el)) =
    [st_apply O (st_mul O (Xrotx O q2) (Xroty O q1)) (ez O); st_apply O (Xrotx O q2) (ey O); ex O].
  Proof.
    pose proof (@tl_cs T O TL q1) as T1. pose proof (@tl_cs T O TL q2) as T2.
    cbv zeta. unfold euler_lit, m63_sets, m63zero, st_apply, st_mul, Xrotx, Xroty, rotx, roty, ex, ey, ez. cbn.
    repeat (apply f_equal2; [l1_split; try ring|]); try reflexivity.
  Qed.
  Theorem euler_xyz_S_is_chain (q0 q1 q2 a b c : T) :
    let el := euler_lit O JEulerXYZ (osin O q0) (ocos O q0) (osin O q1) (ocos O q1) (osin O q2) (ocos O q2) a b c in
    m63_sets O (m63zero O) (snd (fst el)) =
    [st_apply O (st_mul O (Xrotz O q2) (Xroty O q1)) (ex O); st_apply O (Xrotz O q2) (ey O); ez O].
  Proof.
    cbv zeta. unfold euler_lit, m63_sets, m63zero, st_apply, st_mul, Xrotz, Xroty, rotz, roty, ex, ey, ez. cbn.
    repeat (apply f_equal2; [l1_split; try ring|]); try reflexivity.
  Qed.
  Theorem euler_yxz_S_is_chain (q0 q1 q2 a b c : T) :
    let el := euler_lit O JEulerYXZ (osin O q0) (ocos O q0) (osin O q1) (ocos O q1) (osin O q2) (ocos O q2) a b c in
    m63_sets O (m63zero O) (snd (fst el)) =
    [st_apply O (st_mul O (Xrotz O q2) (Xrotx O q1)) (ey O); st_apply O (Xrotz O q2) (ex O); ez O].
  Proof.
    cbv zeta. unfold euler_lit, m63_sets, m63zero, st_apply, st_mul, Xrotz, Xrotx, rotz, rotx, ex, ey, ez. cbn.
    repeat (apply f_equal2; [l1_split; try ring|]); try reflexivity.
  Qed.
  Theorem euler_zxy_S_is_chain (q0 q1 q2 a b c : T) :
    let el := euler_lit O JEulerZXY (osin O q0) (ocos O q0) (osin O q1) (ocos O q1) (osin O q2) (ocos O q2) a b c in
    m63_sets O (m63zero O) (snd (fst el)) =
    [st_apply O (st_mul O (Xroty O q2) (Xrotx O q1)) (ez O); st_apply O (Xroty O q2) (ex O); ey O].
  Proof.
    cbv zeta. unfold euler_lit, m63_sets, m63zero, st_apply, st_mul, Xroty, Xrotx, roty, rotx, ex, ey, ez. cbn.
    repeat (apply f_equal2; [l1_split; try ring|]); try reflexivity.
  Qed.

  (* ---- floating base = TranslationXYZ (massless body) followed by a spherical joint ---- *)
  Theorem floating_base_is_txyz_then_spherical (M : Model) p X b nm : name_taken M nm = false ->
    add_body O M p X SFloat b nm =
    match add_movable O M p X (joint3 JTransXYZ (tx O) (ty O) (tz O)) (null_body O) 0%N with
    | (M1, ROk id) => add_movable O M1 id (stid O) (joint3 JSpherical (ez O) (ey O) (ex O)) b nm
    | r => r
    end.
  Proof. intros H. unfold add_body. rewrite H. reflexivity. Qed.

  (* ---- a body attached by a fixed joint: the parent carries the joined inertia, nothing else of the tree changes ---- *)
  Theorem fixed_attachment_is_premerged (M M' : Model) p X b nm id : is_fixed_id M p = false ->
    add_fixed O M p X b nm = (M', ROk id) ->
    exists pb, body_join O (getbody O M (N.to_nat p)) X b = Some pb /\
      bodies M' = upd (bodies M) (N.to_nat p) pb /\ mI M' = upd (mI M) (N.to_nat p) (body_rbi O pb) /\
      lambda M' = lambda M /\ joints M' = joints M /\ X_T M' = X_T M /\ dof_count M' = dof_count M /\
      q_size M' = q_size M /\ qdot_size M' = qdot_size M /\ gravity M' = gravity M /\ ws M' = ws M /\
      lambda_q M' = lambda_q M /\ mu M' = mu M /\ w_index M' = w_index M /\ customs M' = customs M /\
      update_order M' = update_order M.
  Proof.
    intros Hf. unfold add_fixed. destruct (name_taken M nm); [discriminate|]. rewrite Hf.
    destruct (body_join O (getbody O M (N.to_nat p)) X b) as [pb|] eqn:E; [|discriminate].
    intros H. injection H as <- _. exists pb. repeat split; reflexivity.
  Qed.

  (* ---- user-defined joints re-implementing built-in ones ---- *)
  Theorem custom_revx_is_revx (q qd : list T) :
    fst (fst (custom_lit O CRevX q qd)) = Xrotx O (vget t0 q 0) /\ snd (fst (custom_lit O CRevX q qd)) = [ex O].
  Proof. split; reflexivity. Qed.
  Theorem custom_eulerzyx_is_eulerzyx (q qd : list T) :
    let q0 := vget t0 q 0 in let q1 := vget t0 q 1 in let q2 := vget t0 q 2 in
    fst (fst (custom_lit O CEulerZYX q qd)) = st_mul O (Xrotx O q2) (st_mul O (Xroty O q1) (Xrotz O q0)) /\
    snd (fst (custom_lit O CEulerZYX q qd)) =
      [st_apply O (st_mul O (Xrotx O q2) (Xroty O q1)) (ez O); st_apply O (Xrotx O q2) (ey O); ex O].
  Proof.
    cbv zeta. split.
    - unfold custom_lit. cbn [fst snd]. l1_split; ring.
    - unfold custom_lit. cbn [fst snd]. apply euler_zyx_S_is_chain.
  Qed.
End C07.
