(* Quadratic forms of list matrices under block writes (for the CRBA energy theorem). *)
From Coq Require Import List Bool Arith Lia Ring.
From RV Require Import Scalar Laws ListArr ListLemmas LinDef LinThm ConsThm IdcThm DimThm EnergyThm SymThm.
Import ListNotations.

Section Quad.
  Context {T : Type} (O : Ops T) {FL : FieldLaws O}.
  Add Field FlFquad : (@fl_field T O FL).
  Local Notation t0 := (o0 O).
  Local Notation Mat := (@Mat T).
  Local Notation ent := (entry O).

  Lemma fsum_from (h : nat -> T) : forall r m, fsum O h (iota r m) t0 = fsum O (fun a => h (r + a)) (iota 0 m) t0.
  Proof.
    intros r. revert h. induction r as [|r IH]; intros h m; [reflexivity|].
    rewrite (fsum_shift O). rewrite (IH (fun j => h (S j)) m). apply (fsum_ext O). intros a _. f_equal.
  Qed.
  Lemma fsum_window (h : nat -> T) r m n : r + m <= n ->
    fsum O (fun i => if (r <=? i) && (i <? r + m) then h i else t0) (iota 0 n) t0 = fsum O (fun a => h (r + a)) (iota 0 m) t0.
  Proof.
    intros Hn. replace n with (r + (m + (n - r - m))) by lia.
    rewrite (iota_app 0 r), (iota_app (0 + r) m). rewrite !(fsum_app O).
    rewrite (fsum_zero O _ (iota 0 r)).
    2:{ intros j Hj. apply in_iota in Hj. destruct (Nat.leb_spec r j); [lia|reflexivity]. }
    rewrite (fsum_zero O _ (iota (0 + r + m) _)).
    2:{ intros j Hj. apply in_iota in Hj. destruct (Nat.leb_spec r j), (Nat.ltb_spec j (r + m)); cbn [andb]; try reflexivity; lia. }
    cbn [Nat.add]. rewrite <- fsum_from. apply (fsum_ext O). intros j Hj. apply in_iota in Hj.
    destruct (Nat.leb_spec r j), (Nat.ltb_spec j (r + m)); cbn [andb]; try reflexivity; lia.
  Qed.

  (* x^T (H with B written at (r,c)) y = x^T H y + x[r..]^T B y[c..]  when H was zero on the block *)
  Lemma quad_block (H B : Mat) n r c nr nc (x y : list T) :
    WFm n H -> length x = n -> length y = n -> length B = nr -> (forall a, a < nr -> length (nth a B []) = nc) ->
    r + nr <= n -> c + nc <= n ->
    (forall i j, r <= i < r + nr -> c <= j < c + nc -> ent H i j = t0) ->
    odot O x (mvmul O (mset_block H r c B) y) =
    oadd O (odot O x (mvmul O H y)) (odot O (vslice t0 x r nr) (mvmul O B (vslice t0 y c nc))).
  Proof.
    intros [LH RH] Lx Ly LB RB Hr Hc Z.
    assert (W' : WFm n (mset_block H r c B)) by (eapply wfm_of_dims; [apply mset_block_dims|split; assumption]).
    rewrite (quad_fsum O _ n n x y (proj1 W') (proj2 W') Lx Ly).
    rewrite (quad_fsum O H n n x y LH RH Lx Ly).
    rewrite (quad_fsum O B nr nc (vslice t0 x r nr) (vslice t0 y c nc) LB RB (vslice_length _ _ _ _) (vslice_length _ _ _ _)).
    set (g := fun i j => if (r <=? i) && (i <? r + nr) then (if (c <=? j) && (j <? c + nc)
                          then omul O (nth i x t0) (omul O (ent B (i - r) (j - c)) (nth j y t0)) else t0) else t0).
    rewrite (fsum_ext O _ (fun i => oadd O (fsum O (fun j => omul O (nth i x t0) (omul O (ent H i j) (nth j y t0))) (iota 0 n) t0)
                                            (fsum O (fun j => g i j) (iota 0 n) t0))).
    2:{ intros i Hi. apply in_iota in Hi. rewrite <- (fsum_add O). apply (fsum_ext O). intros j Hj. apply in_iota in Hj.
        unfold g. destruct (Nat.leb_spec r i), (Nat.ltb_spec i (r + nr)); cbn [andb];
          try (rewrite (ent_block_out O H B r c nc i j) by (try lia; intros; apply RB; lia); ring).
        destruct (Nat.leb_spec c j), (Nat.ltb_spec j (c + nc)); cbn [andb];
          try (rewrite (ent_block_out O H B r c nc i j) by (try lia; intros; apply RB; lia); ring).
        rewrite (ent_block_in O H B r c nc i j) by (try lia; try (apply RB; lia); rewrite RH by lia; lia).
        rewrite (Z i j) by lia. ring. }
    rewrite (fsum_add O). f_equal.
    (* the window sums *)
    transitivity (fsum O (fun i => if (r <=? i) && (i <? r + nr)
                                   then fsum O (fun b => omul O (nth i x t0) (omul O (ent B (i - r) b) (nth (c + b) y t0))) (iota 0 nc) t0
                                   else t0) (iota 0 n) t0).
    { apply (fsum_ext O). intros i Hi. unfold g.
      destruct ((r <=? i) && (i <? r + nr)); [|apply (fsum_zero O); reflexivity].
      rewrite (fsum_window (fun j => omul O (nth i x t0) (omul O (ent B (i - r) (j - c)) (nth j y t0))) c nc n Hc).
      apply (fsum_ext O). intros b _. replace (c + b - c) with b by lia. reflexivity. }
    rewrite (fsum_window (fun i => fsum O (fun b => omul O (nth i x t0) (omul O (ent B (i - r) b) (nth (c + b) y t0))) (iota 0 nc) t0) r nr n Hr).
    apply (fsum_ext O). intros a Ha. apply in_iota in Ha. apply (fsum_ext O). intros b Hb. apply in_iota in Hb.
    replace (r + a - r) with a by lia. rewrite !vslice_nth by lia. reflexivity.
  Qed.
End Quad.
