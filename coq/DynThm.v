(* Inverse dynamics (RNEA): the outward pass computes the body velocities, accelerations and
   net forces as pure functions of model and state; the inward pass returns, for every joint,
   S_i^T Y_i with Y the subtree force; together with VPower.v: the virtual-power form of
   d'Alembert's principle (C01), for any incoming workspace (C13). *)
From Coq Require Import List Bool Arith NArith Lia Ring Field.
From RV Require Import Scalar LinAlg3 Spatial Quat Tac Laws SpatialLaws ListArr ListLemmas ModelDef JointDef KinDef LinDef DynDef
     C14Thm WsLemmas KinThm Tree VPower.
Import ListNotations.

Section ID.
  Context {T : Type} (O : Ops T) {FL : FieldLaws O}.
  Add Field FlF : (@fl_field T O FL).
  Local Notation Model := (@Model T). Local Notation WS := (@WS T).
  Local Notation t0 := (o0 O).

  Variable M : Model.
  Variables q qd qdd : list T.
  Hypothesis W : WF M.
  (* distinct custom joints use distinct slots of mCustomJoints (established by AddBodyCustomJoint) *)
  Hypothesis cust_inj : forall i j, 0 < i < nbodies M -> 0 < j < nbodies M -> i <> j ->
    is_custom (jkind (getJ M i)) = true -> is_custom (jkind (getJ M j)) = true -> jcust (getJ M i) <> jcust (getJ M j).

  Let n := nbodies M.
  Definition a0 : SV T := grav_sv O M false.

  Fixpoint vIf (fuel i : nat) : SV T :=
    match fuel with
    | 0 => svzero O
    | S f => if Nat.eqb i 0 then svzero O
             else svadd O (st_apply O (XlF O M q i) (vIf f (getlam M i))) (vJF O M q qd i)
    end.
  Definition vI i := vIf i i.
  Definition cI i := svadd O (cJF O M q qd i) (crossm O (vI i) (vJF O M q qd i)).
  Fixpoint aIf (fuel i : nat) : SV T :=
    match fuel with
    | 0 => a0
    | S f => if Nat.eqb i 0 then a0
             else svadd O (svadd O (st_apply O (XlF O M q i) (aIf f (getlam M i))) (cI i))
                          (cols_mulv O (SF O M q i) (qdd_seg O M i qdd))
    end.
  Definition aI i := aIf i i.
  Definition fI i : SV T :=
    if bvirtual (getbody O M i) then svzero O
    else svadd O (rbi_mulv O (getI O M i) (aI i)) (crossf O (vI i) (rbi_mulv O (getI O M i) (vI i))).

  Lemma vIf_fuel : forall f f' i, i < n -> i <= f -> i <= f' -> vIf f i = vIf f' i.
  Proof.
    induction f as [|f IH]; intros f' i Hn Hf Hf'.
    - assert (i = 0) by lia. subst. destruct f'; reflexivity.
    - destruct f' as [|f']; [assert (i = 0) by lia; subst; reflexivity|]. cbn.
      destruct (Nat.eqb i 0) eqn:E; [reflexivity|]. apply Nat.eqb_neq in E.
      pose proof (wf_parent M W i) as Hl. unfold getlam, n in *. f_equal. f_equal. apply IH; lia.
  Qed.
  Lemma vI_unfold i : 0 < i < n -> vI i = svadd O (st_apply O (XlF O M q i) (vI (getlam M i))) (vJF O M q qd i).
  Proof.
    intros [Hi Hn]. unfold vI. destruct i; [lia|]. cbn [vIf Nat.eqb].
    pose proof (wf_parent M W (S i)) as Hl. unfold getlam, n in *. f_equal. f_equal. apply vIf_fuel; unfold n; lia.
  Qed.
  Lemma vI_0 : vI 0 = svzero O. Proof. reflexivity. Qed.
  Lemma aIf_fuel : forall f f' i, i < n -> i <= f -> i <= f' -> aIf f i = aIf f' i.
  Proof.
    induction f as [|f IH]; intros f' i Hn Hf Hf'.
    - assert (i = 0) by lia. subst. destruct f'; reflexivity.
    - destruct f' as [|f']; [assert (i = 0) by lia; subst; reflexivity|]. cbn.
      destruct (Nat.eqb i 0) eqn:E; [reflexivity|]. apply Nat.eqb_neq in E.
      pose proof (wf_parent M W i) as Hl. unfold getlam, n in *. f_equal. f_equal. f_equal. apply IH; lia.
  Qed.
  Lemma aI_unfold i : 0 < i < n ->
    aI i = svadd O (svadd O (st_apply O (XlF O M q i) (aI (getlam M i))) (cI i)) (cols_mulv O (SF O M q i) (qdd_seg O M i qdd)).
  Proof.
    intros [Hi Hn]. unfold aI. destruct i; [lia|]. cbn [aIf Nat.eqb].
    pose proof (wf_parent M W (S i)) as Hl. unfold getlam, n in *. f_equal. f_equal. f_equal. apply aIf_fuel; unfold n; lia.
  Qed.
  Lemma aI_0 : aI 0 = a0. Proof. reflexivity. Qed.

  (* ---- frame property of jS ---- *)
  Lemma jS_frame full (w : WS) i j qq qqd : 0 < i < n -> 0 < j < n -> i <> j ->
    jS O M (jcalc_gen O full M w i qq qqd) j = jS O M w j.
  Proof.
    intros Hi Hj Hne. unfold jS.
    destruct (jcalc_other O full M w i qq qqd j (not_eq_sym Hne)) as (_ & _ & _ & HS & HmS).
    destruct (jkind (getJ M j)) eqn:Ej; try reflexivity; try (rewrite HS, HmS; reflexivity).
    destruct (is_custom (jkind (getJ M i))) eqn:Ci.
    - apply jcalc_cS_other. apply not_eq_sym. apply cust_inj; auto. rewrite Ej. reflexivity.
    - (* jcalc on a non-custom joint does not write the custom store at all *)
      unfold gcS. rewrite (jcalc_cS_noncustom O full M w i qq qqd Ci). reflexivity.
  Qed.

  Ltac wsimp := cbn [wXl wXb wv wa wc wvJ wcJ wS wf wpA wU wmS wmU wmDinv wmu wIc wIA wd wu wcS wcU wcDinv wcu
                     w_Xl w_Xb w_v w_a w_c w_vJ w_cJ w_S w_f w_pA w_U w_mS w_mU w_mDinv w_mu w_Ic w_IA w_d w_u
                     w_cS w_cU w_cDinv w_cu] in *.

  (* ---- outward pass of InverseDynamics ---- *)
  Definition id_fwd_step (w : WS) (i : nat) : WS :=
    let lam := getlam M i in
    let w := jcalc O M w i q qd in
    let w := w_v w (upd (wv w) i (svadd O (st_apply O (gXl O w i) (gv O w lam)) (gvJ O w i))) in
    let w := w_c w (upd (wc w) i (svadd O (gcJ O w i) (crossm O (gv O w i) (gvJ O w i)))) in
    let w := w_a w (upd (wa w) i (svadd O (svadd O (st_apply O (gXl O w i) (ga O w lam)) (gc O w i))
                                          (cols_mulv O (jS O M w i) (qdd_seg O M i qdd)))) in
    w_f w (upd (wf w) i (if bvirtual (getbody O M i) then svzero O else body_force O M w i)).
  Definition id_init (w : WS) : WS :=
    let w := w_v w (upd (wv w) 0 (svzero O)) in w_a w (upd (wa w) 0 (grav_sv O M false)).
  Lemma id_unfold w tau :
    inverse_dynamics O M w q qd qdd tau None = inward_tau O M (fold_left id_fwd_step (body_range M) (id_init w)) tau.
  Proof. reflexivity. Qed.

  Definition InvF (w : WS) (k : nat) : Prop :=
    Good O M w /\ gv O w 0 = svzero O /\ ga O w 0 = a0 /\
    forall j, 0 < j < k -> gv O w j = vI j /\ ga O w j = aI j /\ gf O w j = fI j /\ gXl O w j = XlF O M q j /\ jS O M w j = SF O M q j.

  Lemma good_ext (w w' : WS) :
    ws_len w' n -> wS w' = wS w -> wvJ w' = wvJ w -> wcJ w' = wcJ w -> wmS w' = wmS w -> wcS w' = wcS w ->
    Good O M w -> Good O M w'.
  Proof.
    intros L e1 e2 e3 e4 e5 [_ G]. split; [exact L|]. intros j Hj. destruct (G j Hj) as [A B]. split.
    - revert A. apply WsInvJ_ext; unfold gS, gvJ, gcJ, gmS; rewrite ?e1, ?e2, ?e3, ?e4; reflexivity.
    - revert B. apply kind_dof_ext. rewrite e5. reflexivity.
  Qed.
  Lemma jS_ext (w w' : WS) j : wS w' = wS w -> wmS w' = wmS w -> wcS w' = wcS w -> jS O M w' j = jS O M w j.
  Proof. intros e1 e2 e3. unfold jS, gS, gmS, gcS. rewrite e1, e2, e3. reflexivity. Qed.

  Lemma id_fwd_step_inv w i : 0 < i < n -> InvF w i -> InvF (id_fwd_step w i) (S i).
  Proof.
    intros [Hi Hn] ((Hlen & Hg) & Hv0 & Ha0 & Hinv). unfold id_fwd_step.
    set (w1 := jcalc O M w i q qd).
    assert (Hlen1 : ws_len w1 n) by (apply jcalc_len; exact Hlen).
    pose proof (jcalc_untouched O true M w i q qd) as U. cbv zeta in U. fold (jcalc O M w i q qd) in U. fold w1 in U.
    destruct U as (UXb & Uv & Ua & Uc & Uf & _).
    assert (Hkind : jkind (getJ M i) <> JRoot) by (apply (wf_kind M W); unfold n in *; auto).
    assert (HXl : gXl O w1 i = XlF O M q i).
    { apply (@jcalc_Xl T O FL); [destruct Hlen as (L & _); rewrite L; exact Hn | exact Hkind]. }
    destruct (jcalc_full_vals O M w i q qd n Hlen Hn (proj1 (Hg i (conj Hi Hn))) (proj2 (Hg i (conj Hi Hn))))
      as (HS & HvJ & _). fold w1 in HS, HvJ.
    pose proof (jcalc_full_cJ O M w i q qd n Hlen Hn Hkind (proj1 (Hg i (conj Hi Hn)))) as HcJ. fold w1 in HcJ.
    assert (Hg1 : Good O M w1).
    { split; [exact Hlen1|]. intros j Hj. apply (jcalc_full_inv O M w i q qd n); auto; intros j' Hj'; apply Hg; exact Hj'. }
    pose proof (wf_parent M W i (conj Hi Hn)) as Hlam. fold (getlam M i) in Hlam.
    assert (Hlen1' := Hlen1). unfold ws_len in Hlen1'. decompose [and] Hlen1'. clear Hlen1'.
    (* values read at the parent *)
    assert (Hvl : gv O w1 (getlam M i) = vI (getlam M i)).
    { unfold gv. rewrite Uv. destruct (Nat.eq_dec (getlam M i) 0) as [e|ne]; [rewrite e; exact Hv0|].
      apply (proj1 (Hinv (getlam M i) ltac:(lia))). }
    assert (Hal : ga O w1 (getlam M i) = aI (getlam M i)).
    { unfold ga. rewrite Ua. destruct (Nat.eq_dec (getlam M i) 0) as [e|ne]; [rewrite e; exact Ha0|].
      apply (proj1 (proj2 (Hinv (getlam M i) ltac:(lia)))). }
    set (w2 := w_v w1 _). set (w3 := w_c w2 _). set (w4 := w_a w3 _).
    assert (Ev : gv O w2 i = vI i).
    { unfold w2, gv; wsimp. rewrite nth_upd_eq by lia. fold (gv O w1 (getlam M i)). rewrite HXl, Hvl, HvJ.
      symmetry. apply vI_unfold. auto. }
    assert (Ec : gc O w3 i = cI i).
    { unfold w3, gc; wsimp. rewrite nth_upd_eq by (unfold w2; wsimp; lia).
      rewrite Ev. unfold w2, gcJ, gvJ; wsimp. fold (gcJ O w1 i). fold (gvJ O w1 i). rewrite HcJ, HvJ. reflexivity. }
    assert (Ea : ga O w4 i = aI i).
    { unfold w4, ga; wsimp. rewrite nth_upd_eq by (unfold w3, w2; wsimp; lia).
      rewrite Ec. unfold w3, w2, gXl; wsimp. fold (gXl O w1 i). fold (ga O w1 (getlam M i)).
      rewrite (jS_ext w1 _ i) by reflexivity. rewrite HXl, Hal, HS. symmetry. apply aI_unfold. auto. }
    subst w4 w3 w2.
    split; [|split; [|split]].
    - apply (good_ext w1); try reflexivity; [|exact Hg1].
      unfold ws_len; wsimp. rewrite !upd_length. repeat split; assumption.
    - unfold gv; wsimp. rewrite !(nth_upd_neq _ _ i 0) by lia. rewrite Uv. exact Hv0.
    - unfold ga; wsimp. rewrite !(nth_upd_neq _ _ i 0) by lia. rewrite Ua. exact Ha0.
    - intros j [Hj0 Hj]. destruct (Nat.eq_dec j i) as [->|Hne].
      + repeat split.
        * unfold gv; wsimp. exact Ev.
        * unfold ga; wsimp. exact Ea.
        * unfold gf; wsimp. rewrite nth_upd_eq by (wsimp; lia).
          unfold fI. destruct (bvirtual (getbody O M i)); [reflexivity|].
          unfold body_force. rewrite Ea. unfold gv in *; wsimp. rewrite Ev. reflexivity.
        * unfold gXl; wsimp. exact HXl.
        * rewrite (jS_ext w1) by reflexivity. exact HS.
      + assert (Hjk : 0 < j < i) by lia. destruct (Hinv j Hjk) as (A & B & C & D & E).
        repeat split.
        * unfold gv; wsimp. rewrite nth_upd_neq by auto. rewrite Uv. exact A.
        * unfold ga; wsimp. rewrite nth_upd_neq by auto. rewrite Ua. exact B.
        * unfold gf; wsimp. rewrite nth_upd_neq by auto. rewrite Uf. exact C.
        * unfold gXl; wsimp. fold (gXl O w1 j). unfold w1, jcalc.
          rewrite (proj1 (jcalc_other O true M w i q qd j Hne)). exact D.
        * rewrite (jS_ext w1) by reflexivity. unfold w1, jcalc. rewrite jS_frame; auto; unfold n in *; lia.
  Qed.

  Theorem id_forward_spec (w : WS) : Good O M w ->
    InvF (fold_left id_fwd_step (body_range M) (id_init w)) n.
  Proof.
    intros [Hlen Hg]. unfold body_range. pose proof (wf_pos M W) as Hpos. fold n in Hpos.
    pose proof (fold_iota_inv id_fwd_step InvF (Nat.pred n) 1 (id_init w)) as K.
    replace (1 + Nat.pred n) with n in K by lia. unfold n in K at 1. apply K; clear K.
    - assert (L := Hlen). unfold ws_len in L. decompose [and] L. clear L.
      split; [|split; [|split]].
      + apply (good_ext w); try reflexivity; [|split; assumption].
        unfold id_init, ws_len; wsimp. rewrite !upd_length. repeat split; assumption.
      + unfold id_init, gv; wsimp. apply nth_upd_eq. unfold n in *. lia.
      + unfold id_init, ga; wsimp. apply nth_upd_eq. unfold n in *. lia.
      + intros j Hj. lia.
    - intros w' i Hi HI. apply id_fwd_step_inv; auto; lia.
  Qed.

  (* ---- inward pass ---- *)
  Definition XT (c : nat) (y : SV T) : SV T := st_applyT O (XlF O M q c) y.
  Definition id_bwd_step (st : WS * list T) (i : nat) : WS * list T :=
    let '(w, tau) := st in
    let tau := vset_seg tau (jq (getJ M i)) (cols_Tmul O (jS O M w i) (gf O w i)) in
    let lam := getlam M i in
    let w := if Nat.eqb lam 0 then w
             else w_f w (upd (wf w) lam (svadd O (gf O w lam) (st_applyT O (gXl O w i) (gf O w i)))) in
    (w, tau).
  Lemma inward_unfold w tau : inward_tau O M w tau = fold_left id_bwd_step (rev_range M) (w, tau).
  Proof. reflexivity. Qed.

  Lemma svadd_comm a b : svadd O a b = svadd O b a. Proof. l1_split; ring. Qed.
  Lemma svadd_assoc a b c : svadd O a (svadd O b c) = svadd O (svadd O a b) c. Proof. l1_split; ring. Qed.
  Lemma svadd_0_r a : svadd O a (svzero O) = a. Proof. l1_split; ring. Qed.

  (* q-index layout: the coordinate ranges of distinct joints do not overlap *)
  Lemma jq_mono : forall j i, j < i -> i < n -> jq (getJ M j) + jdof (getJ M j) <= jq (getJ M i).
  Proof.
    intros j i Hji Hi. induction i as [|i IH]; [lia|].
    pose proof (wf_q M W i) as Hq. unfold getJ in *. fold n in Hq.
    destruct (Nat.eq_dec j i) as [->|Hne].
    - rewrite Hq by lia. lia.
    - assert (j < i) by lia. rewrite Hq by lia. specialize (IH ltac:(lia) ltac:(lia)). lia.
  Qed.
  Lemma jq_bound i : i < n -> jq (getJ M i) + jdof (getJ M i) <= dof_count M.
  Proof.
    intros Hi. pose proof (wf_dof M W) as Hd. unfold last_joint in Hd. rewrite (wf_joints M W) in Hd. fold n in Hd.
    destruct (Nat.eq_dec i (Nat.pred n)) as [->|Hne]; [unfold getJ; lia|].
    pose proof (jq_mono i (Nat.pred n) ltac:(lia) ltac:(pose proof (wf_pos M W); unfold n; lia)). unfold getJ in *. lia.
  Qed.

  Variable w0 : WS.                 (* the state after the outward pass *)
  Hypothesis F0 : InvF w0 n.
  Hypothesis SFlen : forall i, 0 < i < n -> length (SF O M q i) = jdof (getJ M i).
  Let f0 : list (SV T) := wf w0.

  Definition InvB (tau0 : list T) (st : WS * list T) (k : nat) : Prop :=
    let '(w, tau) := st in
    wXl w = wXl w0 /\ wS w = wS w0 /\ wmS w = wmS w0 /\ wcS w = wcS w0 /\
    SInv (SV T) (svzero O) (svadd O) (svzero O) n (getlam M) XT f0 (wf w) k /\
    length tau = length tau0 /\
    forall i, k <= i < n -> vslice t0 tau (jq (getJ M i)) (jdof (getJ M i)) = cols_Tmul O (SF O M q i) (nth i (wf w) (svzero O)).

  Lemma lam_lt' : forall i, 0 < i -> i < n -> getlam M i < i.
  Proof. intros i H1 H2. apply (wf_parent M W). unfold n in *. lia. Qed.

  Lemma id_bwd_step_inv tau0 st k : dof_count M <= length tau0 -> 1 <= k -> k < n ->
    InvB tau0 st (S k) -> InvB tau0 (id_bwd_step st k) k.
  Proof.
    intros Hd Hk Hkn. destruct st as [w tau]. intros (EXl & ES & EmS & EcS & HS & Hlt & Hseg).
    destruct F0 as (_ & _ & _ & F).
    assert (HjS : jS O M w k = SF O M q k).
    { rewrite (jS_ext w0 w k ES EmS EcS). apply (F k). lia. }
    assert (HXl : gXl O w k = XlF O M q k).
    { unfold gXl. rewrite EXl. apply (F k). lia. }
    pose proof (sw_step_inv (SV T) (svzero O) (svadd O) (svzero O) svadd_comm svadd_assoc n (getlam M) lam_lt' XT f0 (wf w) k Hk Hkn HS) as HS'.
    unfold id_bwd_step.
    assert (Hstep : wf (if Nat.eqb (getlam M k) 0 then w
                        else w_f w (upd (wf w) (getlam M k) (svadd O (gf O w (getlam M k)) (st_applyT O (gXl O w k) (gf O w k)))))
                    = sw_step (SV T) (svzero O) (svadd O) (getlam M) XT (wf w) k).
    { unfold sw_step. destruct (Nat.eqb (getlam M k) 0); [reflexivity|]. wsimp. unfold gf, XT. rewrite HXl. reflexivity. }
    assert (Hkeep : forall i, k <= i -> nth i (sw_step (SV T) (svzero O) (svadd O) (getlam M) XT (wf w) k) (svzero O) = nth i (wf w) (svzero O)).
    { intros i Hi. unfold sw_step. destruct (Nat.eqb (getlam M k) 0); [reflexivity|].
      apply nth_upd_neq. pose proof (lam_lt' k ltac:(lia) Hkn). lia. }
    set (w' := if Nat.eqb (getlam M k) 0 then w else _) in *.
    assert (E4 : wXl w' = wXl w /\ wS w' = wS w /\ wmS w' = wmS w /\ wcS w' = wcS w).
    { unfold w'. destruct (Nat.eqb (getlam M k) 0); repeat split; reflexivity. }
    destruct E4 as (e1 & e2 & e3 & e4).
    repeat split; try congruence.
    - rewrite Hstep. apply HS'.
    - rewrite Hstep. apply HS'.
    - rewrite vset_seg_length. exact Hlt.
    - intros i Hi. rewrite Hstep, Hkeep by lia.
      destruct (Nat.eq_dec i k) as [->|Hne].
      + rewrite HjS. unfold gf.
        replace (jdof (getJ M k)) with (length (cols_Tmul O (SF O M q k) (nth k (wf w) (svzero O)))).
        2:{ unfold cols_Tmul. rewrite map_length. apply SFlen. lia. }
        apply vslice_vset_seg_same. unfold cols_Tmul. rewrite map_length, SFlen by lia.
        pose proof (jq_bound k Hkn). lia.
      + rewrite vslice_vset_seg_other; [apply Hseg; lia|].
        right. unfold cols_Tmul. rewrite map_length, HjS, SFlen by lia. apply jq_mono; lia.
  Qed.

  (* joint forces and subtree forces after InverseDynamics' inward pass *)
  Theorem id_backward_spec tau0 : dof_count M <= length tau0 ->
    let '(w, tau) := inward_tau O M w0 tau0 in
    let Y i := nth i (wf w) (svzero O) in
    (forall i, 0 < i < n -> Y i = svadd O (fI i) (csum (SV T) (svadd O) (svzero O) (getlam M) (fun c => XT c (Y c)) i 1 (n - 1))) /\
    (forall i, 0 < i < n -> vslice t0 tau (jq (getJ M i)) (jdof (getJ M i)) = cols_Tmul O (SF O M q i) (Y i)).
  Proof.
    intros Hd. rewrite inward_unfold. unfold rev_range, body_range. fold n.
    pose proof (wf_pos M W) as Hpos. fold n in Hpos.
    assert (K : InvB tau0 (fold_left id_bwd_step (rev (iota 1 (Nat.pred n))) (w0, tau0)) 1).
    { apply (fold_rev_iota_inv id_bwd_step (InvB tau0)).
      - unfold InvB. repeat split; try reflexivity.
        + destruct F0 as ((L & _) & _). unfold ws_len in L. decompose [and] L. unfold f0. unfold n in *. congruence.
        + intros i Hi. replace (n - S (Nat.pred n)) with 0 by lia. cbn. rewrite svadd_0_r. reflexivity.
        + intros i Hi. lia.
      - intros st k Hk HI. apply id_bwd_step_inv; auto; lia. }
    destruct (fold_left id_bwd_step (rev (iota 1 (Nat.pred n))) (w0, tau0)) as [w tau].
    destruct K as (_ & _ & _ & _ & (HL & HY) & _ & Hseg).
    split.
    - intros i Hi. rewrite (HY i Hi). f_equal.
      destruct F0 as (_ & _ & _ & F). unfold f0. apply (F i). lia.
    - intros i Hi. apply Hseg. lia.
  Qed.
End ID.

Section C01.
  Context {T : Type} (O : Ops T) {FL : FieldLaws O}.
  Add Field FlF1 : (@fl_field T O FL).
  Local Notation Model := (@Model T). Local Notation WS := (@WS T).
  Local Notation t0 := (o0 O).

  Lemma m63_sets_length (m : M63 (T:=T)) l : length (m63_sets O m l) = length m.
  Proof. revert m; induction l as [|[[r c] x] l IH]; intros m; cbn; auto. rewrite IH. unfold m63_set. apply upd_length. Qed.
  Lemma SF_length (M : Model) (w : WS) q i : kind_dof M w i -> length (SF O M q i) = jdof (getJ M i).
  Proof.
    unfold kind_dof, SF. destruct (jkind (getJ M i)) as [| | | | | | | | | | | | |c]; intro H; try contradiction;
      try (rewrite H; reflexivity); try (rewrite H, m63_sets_length; reflexivity).
    destruct H as [H _]. rewrite H. destruct c; reflexivity.
  Qed.

  Lemma svdot_cols (S : list (SV T)) : forall x Y, svdot O (cols_mulv O S x) Y = odot O x (cols_Tmul O S Y).
  Proof.
    induction S as [|s S IH]; intros x Y.
    - cbn. destruct x; destruct Y; cbv_sc; ring.
    - destruct x as [|a x].
      + cbn. destruct Y; cbv_sc; ring.
      + change (cols_Tmul O (s :: S) Y) with (svdot O s Y :: cols_Tmul O S Y). cbn [cols_mulv odot]. rewrite <- IH. destruct s, Y. set (r := cols_mulv O S x). destruct r. cbv_sc. ring.
  Qed.
  Lemma csum_eq (lam : nat -> nat) (g : nat -> SV T) i : forall cnt lo,
    csum (SV T) (svadd O) (svzero O) lam g i lo cnt = csumV (SV T) (svadd O) (svzero O) lam g i lo cnt.
  Proof. induction cnt; intros; cbn; [reflexivity|]. rewrite IHcnt. reflexivity. Qed.

  Lemma dot_add_l' (a b f : SV T) : svdot O (svadd O a b) f = oadd O (svdot O a f) (svdot O b f). Proof. l1_split; ring. Qed.
  Lemma dot_add_r' (a f g : SV T) : svdot O a (svadd O f g) = oadd O (svdot O a f) (svdot O a g). Proof. l1_split; ring. Qed.
  Lemma dot_0_l' (f : SV T) : svdot O (svzero O) f = t0. Proof. l1_split; ring. Qed.
  Lemma dot_0_r' (a : SV T) : svdot O a (svzero O) = t0. Proof. l1_split; ring. Qed.
  Lemma apply_zero_dot (X : ST T) (f : SV T) : svdot O (st_apply O X (svzero O)) f = t0. Proof. l1_split; ring. Qed.

  Variable M : Model.
  Variables q qd qdd : list T.
  Hypothesis W : WF M.
  Hypothesis cust_inj : forall i j, 0 < i < nbodies M -> 0 < j < nbodies M -> i <> j ->
    is_custom (jkind (getJ M i)) = true -> is_custom (jkind (getJ M j)) = true -> jcust (getJ M i) <> jcust (getJ M j).
  Let n := nbodies M.

  (* C01, part 1: every joint's generalized force is the projection S_i^T Y_i of the subtree force, and Y is
     the net force of the body plus the subtree forces of its children moved to the body frame *)
  Theorem id_structure (w : WS) tau0 : Good O M w -> dof_count M <= length tau0 ->
    let '(w', tau) := inverse_dynamics O M w q qd qdd tau0 None in
    let Y i := nth i (wf w') (svzero O) in
    (forall i, 0 < i < n -> Y i = svadd O (fI O M q qd qdd i)
         (csum (SV T) (svadd O) (svzero O) (getlam M) (fun c => XT O M q c (Y c)) i 1 (n - 1))) /\
    (forall i, 0 < i < n -> vslice t0 tau (jq (getJ M i)) (jdof (getJ M i)) = cols_Tmul O (SF O M q i) (Y i)).
  Proof.
    intros Hg Hd. rewrite id_unfold.
    pose proof (id_forward_spec O M q qd qdd W cust_inj w Hg) as F.
    apply (id_backward_spec O M q qd qdd W _ F); [|exact Hd].
    intros i Hi. destruct F as ((_ & G) & _). eapply SF_length. apply (proj2 (G i Hi)).
  Qed.

  (* C01, part 2 (d'Alembert in virtual-power form): for EVERY virtual joint velocity qd', the power of the
     returned generalized forces equals the power of the per-body net forces on the body velocities that
     qd' produces:  sum_i qd'_i . tau_i = sum_j v'_j . f_j  *)
  Theorem id_virtual_power (w : WS) tau0 (qd' : list T) : Good O M w -> dof_count M <= length tau0 ->
    let '(w', tau) := inverse_dynamics O M w q qd qdd tau0 None in
    ksum T t0 (oadd O) (fun i => odot O (qd_seg O M i qd') (vslice t0 tau (jq (getJ M i)) (jdof (getJ M i)))) 1 (n - 1) =
    ksum T t0 (oadd O) (fun j => svdot O (vI O M q qd' j) (fI O M q qd qdd j)) 1 (n - 1).
  Proof.
    intros Hg Hd. pose proof (id_structure w tau0 Hg Hd) as K.
    destruct (inverse_dynamics O M w q qd qdd tau0 None) as [w' tau]. destruct K as [HY Hseg].
    set (Y := fun i => nth i (wf w') (svzero O)) in *.
    symmetry.
    assert (Yeq : forall i, 0 < i < n -> Y i = svadd O (fI O M q qd qdd i)
              (csumV (SV T) (svadd O) (svzero O) (getlam M) (fun c => XT O M q c (Y c)) i 1 (n - 1))).
    { intros i Hi. unfold Y at 1. rewrite (HY i Hi). f_equal; try apply csum_eq. }
    assert (veq : forall i, 0 < i -> i < n -> vI O M q qd' i =
              svadd O (st_apply O (XlF O M q i) (vI O M q qd' (getlam M i))) (vJF O M q qd' i)).
    { intros i H1 H2. apply (vI_unfold O M q qd' W). unfold n in *. lia. }
    assert (lamlt : forall i, 0 < i -> i < n -> getlam M i < i).
    { intros i H1 H2; apply (wf_parent M W); unfold n in *; lia. }
    assert (Hn : 0 < n) by (pose proof (wf_pos M W); unfold n; lia).
    pose proof (virtual_power T t0 (o1 O) (oadd O) (omul O) (osub O) (oopp O) (F_R (@fl_field T O FL))
               (SV T) (svadd O) (svzero O) (svdot O) dot_add_l' dot_add_r' dot_0_l' dot_0_r'
               n (getlam M) lamlt
               (fun c v => st_apply O (XlF O M q c) v) (XT O M q)
               (fun c v f => @apply_dual T O FL (XlF O M q c) v f) (fun c f => apply_zero_dot (XlF O M q c) f)
               (fI O M q qd qdd) Y (fun i => vJF O M q qd' i) (vI O M q qd') Yeq eq_refl veq Hn) as VP.
    etransitivity; [exact VP|].
    apply ksum_ext. intros i Hi. unfold vJF. rewrite svdot_cols. f_equal. symmetry. apply Hseg. lia.
  Qed.
End C01.

(* C13 for InverseDynamics: every joint's force is the same whatever the workspace held before *)
Section C13ID.
  Context {T : Type} (O : Ops T) {FL : FieldLaws O}.
  Local Notation Model := (@Model T). Local Notation WS := (@WS T).
  Variable M : Model.
  Variables q qd qdd : list T.
  Hypothesis W : WF M.
  Hypothesis cust_inj : forall i j, 0 < i < nbodies M -> 0 < j < nbodies M -> i <> j ->
    is_custom (jkind (getJ M i)) = true -> is_custom (jkind (getJ M j)) = true -> jcust (getJ M i) <> jcust (getJ M j).
  Theorem id_ws_independent (w1 w2 : WS) tau1 tau2 i : Good O M w1 -> Good O M w2 ->
    dof_count M <= length tau1 -> dof_count M <= length tau2 -> 0 < i < nbodies M ->
    vslice (o0 O) (snd (inverse_dynamics O M w1 q qd qdd tau1 None)) (jq (getJ M i)) (jdof (getJ M i)) =
    vslice (o0 O) (snd (inverse_dynamics O M w2 q qd qdd tau2 None)) (jq (getJ M i)) (jdof (getJ M i)).
  Proof.
    intros G1 G2 L1 L2 Hi.
    pose proof (id_structure O M q qd qdd W cust_inj w1 tau1 G1 L1) as K1.
    pose proof (id_structure O M q qd qdd W cust_inj w2 tau2 G2 L2) as K2.
    destruct (inverse_dynamics O M w1 q qd qdd tau1 None) as [w1' t1].
    destruct (inverse_dynamics O M w2 q qd qdd tau2 None) as [w2' t2].
    destruct K1 as [Y1 S1]. destruct K2 as [Y2 S2]. cbn [snd].
    rewrite (S1 i Hi), (S2 i Hi). f_equal.
    apply (sweep_unique (SV T) (svadd O) (svzero O) (nbodies M) (getlam M)
             ltac:(intros j H1 H2; apply (wf_parent M W); lia) (XT O M q) (fI O M q qd qdd)
             (fun i => nth i (wf w1') (svzero O)) (fun i => nth i (wf w2') (svzero O)) Y1 Y2 i Hi).
  Qed.
End C13ID.
