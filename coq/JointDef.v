(* L2: jcalc, jcalc_X_lambda_S, jcalc_XJ  (src/Joint.cc), workspace-passing. *)
From Coq Require Import List Bool Arith NArith.
From RV Require Import Scalar LinAlg3 Spatial Quat ListArr ModelDef.
Import ListNotations.

Section J.
  Context {T : Type} (O : Ops T).
  Local Notation t0 := (o0 O). Local Notation t1 := (o1 O).
  Local Infix "+" := (oadd O). Local Infix "*" := (omul O). Local Infix "-" := (osub O).
  Local Notation "- x" := (oopp O x).
  Local Notation SV := (SV T). Local Notation ST := (ST T). Local Notation V3 := (V3 T).
  Local Notation Model := (@Model T). Local Notation WS := (@WS T).

  (* functional record updates of the workspace *)
  Definition w_Xl (w : WS) x := mkWS x (wXb w) (wv w) (wa w) (wc w) (wvJ w) (wcJ w) (wS w) (wf w) (wpA w) (wU w) (wmS w) (wmU w) (wmDinv w) (wmu w) (wIc w) (wIA w) (wd w) (wu w) (wcS w) (wcU w) (wcDinv w) (wcu w).
  Definition w_Xb (w : WS) x := mkWS (wXl w) x (wv w) (wa w) (wc w) (wvJ w) (wcJ w) (wS w) (wf w) (wpA w) (wU w) (wmS w) (wmU w) (wmDinv w) (wmu w) (wIc w) (wIA w) (wd w) (wu w) (wcS w) (wcU w) (wcDinv w) (wcu w).
  Definition w_v (w : WS) x := mkWS (wXl w) (wXb w) x (wa w) (wc w) (wvJ w) (wcJ w) (wS w) (wf w) (wpA w) (wU w) (wmS w) (wmU w) (wmDinv w) (wmu w) (wIc w) (wIA w) (wd w) (wu w) (wcS w) (wcU w) (wcDinv w) (wcu w).
  Definition w_a (w : WS) x := mkWS (wXl w) (wXb w) (wv w) x (wc w) (wvJ w) (wcJ w) (wS w) (wf w) (wpA w) (wU w) (wmS w) (wmU w) (wmDinv w) (wmu w) (wIc w) (wIA w) (wd w) (wu w) (wcS w) (wcU w) (wcDinv w) (wcu w).
  Definition w_c (w : WS) x := mkWS (wXl w) (wXb w) (wv w) (wa w) x (wvJ w) (wcJ w) (wS w) (wf w) (wpA w) (wU w) (wmS w) (wmU w) (wmDinv w) (wmu w) (wIc w) (wIA w) (wd w) (wu w) (wcS w) (wcU w) (wcDinv w) (wcu w).
  Definition w_vJ (w : WS) x := mkWS (wXl w) (wXb w) (wv w) (wa w) (wc w) x (wcJ w) (wS w) (wf w) (wpA w) (wU w) (wmS w) (wmU w) (wmDinv w) (wmu w) (wIc w) (wIA w) (wd w) (wu w) (wcS w) (wcU w) (wcDinv w) (wcu w).
  Definition w_cJ (w : WS) x := mkWS (wXl w) (wXb w) (wv w) (wa w) (wc w) (wvJ w) x (wS w) (wf w) (wpA w) (wU w) (wmS w) (wmU w) (wmDinv w) (wmu w) (wIc w) (wIA w) (wd w) (wu w) (wcS w) (wcU w) (wcDinv w) (wcu w).
  Definition w_S (w : WS) x := mkWS (wXl w) (wXb w) (wv w) (wa w) (wc w) (wvJ w) (wcJ w) x (wf w) (wpA w) (wU w) (wmS w) (wmU w) (wmDinv w) (wmu w) (wIc w) (wIA w) (wd w) (wu w) (wcS w) (wcU w) (wcDinv w) (wcu w).
  Definition w_f (w : WS) x := mkWS (wXl w) (wXb w) (wv w) (wa w) (wc w) (wvJ w) (wcJ w) (wS w) x (wpA w) (wU w) (wmS w) (wmU w) (wmDinv w) (wmu w) (wIc w) (wIA w) (wd w) (wu w) (wcS w) (wcU w) (wcDinv w) (wcu w).
  Definition w_pA (w : WS) x := mkWS (wXl w) (wXb w) (wv w) (wa w) (wc w) (wvJ w) (wcJ w) (wS w) (wf w) x (wU w) (wmS w) (wmU w) (wmDinv w) (wmu w) (wIc w) (wIA w) (wd w) (wu w) (wcS w) (wcU w) (wcDinv w) (wcu w).
  Definition w_U (w : WS) x := mkWS (wXl w) (wXb w) (wv w) (wa w) (wc w) (wvJ w) (wcJ w) (wS w) (wf w) (wpA w) x (wmS w) (wmU w) (wmDinv w) (wmu w) (wIc w) (wIA w) (wd w) (wu w) (wcS w) (wcU w) (wcDinv w) (wcu w).
  Definition w_mS (w : WS) x := mkWS (wXl w) (wXb w) (wv w) (wa w) (wc w) (wvJ w) (wcJ w) (wS w) (wf w) (wpA w) (wU w) x (wmU w) (wmDinv w) (wmu w) (wIc w) (wIA w) (wd w) (wu w) (wcS w) (wcU w) (wcDinv w) (wcu w).
  Definition w_mU (w : WS) x := mkWS (wXl w) (wXb w) (wv w) (wa w) (wc w) (wvJ w) (wcJ w) (wS w) (wf w) (wpA w) (wU w) (wmS w) x (wmDinv w) (wmu w) (wIc w) (wIA w) (wd w) (wu w) (wcS w) (wcU w) (wcDinv w) (wcu w).
  Definition w_mDinv (w : WS) x := mkWS (wXl w) (wXb w) (wv w) (wa w) (wc w) (wvJ w) (wcJ w) (wS w) (wf w) (wpA w) (wU w) (wmS w) (wmU w) x (wmu w) (wIc w) (wIA w) (wd w) (wu w) (wcS w) (wcU w) (wcDinv w) (wcu w).
  Definition w_mu (w : WS) x := mkWS (wXl w) (wXb w) (wv w) (wa w) (wc w) (wvJ w) (wcJ w) (wS w) (wf w) (wpA w) (wU w) (wmS w) (wmU w) (wmDinv w) x (wIc w) (wIA w) (wd w) (wu w) (wcS w) (wcU w) (wcDinv w) (wcu w).
  Definition w_Ic (w : WS) x := mkWS (wXl w) (wXb w) (wv w) (wa w) (wc w) (wvJ w) (wcJ w) (wS w) (wf w) (wpA w) (wU w) (wmS w) (wmU w) (wmDinv w) (wmu w) x (wIA w) (wd w) (wu w) (wcS w) (wcU w) (wcDinv w) (wcu w).
  Definition w_IA (w : WS) x := mkWS (wXl w) (wXb w) (wv w) (wa w) (wc w) (wvJ w) (wcJ w) (wS w) (wf w) (wpA w) (wU w) (wmS w) (wmU w) (wmDinv w) (wmu w) (wIc w) x (wd w) (wu w) (wcS w) (wcU w) (wcDinv w) (wcu w).
  Definition w_d (w : WS) x := mkWS (wXl w) (wXb w) (wv w) (wa w) (wc w) (wvJ w) (wcJ w) (wS w) (wf w) (wpA w) (wU w) (wmS w) (wmU w) (wmDinv w) (wmu w) (wIc w) (wIA w) x (wu w) (wcS w) (wcU w) (wcDinv w) (wcu w).
  Definition w_u (w : WS) x := mkWS (wXl w) (wXb w) (wv w) (wa w) (wc w) (wvJ w) (wcJ w) (wS w) (wf w) (wpA w) (wU w) (wmS w) (wmU w) (wmDinv w) (wmu w) (wIc w) (wIA w) (wd w) x (wcS w) (wcU w) (wcDinv w) (wcu w).
  Definition w_cS (w : WS) x := mkWS (wXl w) (wXb w) (wv w) (wa w) (wc w) (wvJ w) (wcJ w) (wS w) (wf w) (wpA w) (wU w) (wmS w) (wmU w) (wmDinv w) (wmu w) (wIc w) (wIA w) (wd w) (wu w) x (wcU w) (wcDinv w) (wcu w).
  Definition w_cU (w : WS) x := mkWS (wXl w) (wXb w) (wv w) (wa w) (wc w) (wvJ w) (wcJ w) (wS w) (wf w) (wpA w) (wU w) (wmS w) (wmU w) (wmDinv w) (wmu w) (wIc w) (wIA w) (wd w) (wu w) (wcS w) x (wcDinv w) (wcu w).
  Definition w_cDinv (w : WS) x := mkWS (wXl w) (wXb w) (wv w) (wa w) (wc w) (wvJ w) (wcJ w) (wS w) (wf w) (wpA w) (wU w) (wmS w) (wmU w) (wmDinv w) (wmu w) (wIc w) (wIA w) (wd w) (wu w) (wcS w) (wcU w) x (wcu w).
  Definition w_cu (w : WS) x := mkWS (wXl w) (wXb w) (wv w) (wa w) (wc w) (wvJ w) (wcJ w) (wS w) (wf w) (wpA w) (wU w) (wmS w) (wmU w) (wmDinv w) (wmu w) (wIc w) (wIA w) (wd w) (wu w) (wcS w) (wcU w) (wcDinv w) x.

  (* readers with defaults *)
  Definition gXl (w : WS) i := nth i (wXl w) (stid O).
  Definition gXb (w : WS) i := nth i (wXb w) (stid O).
  Definition gv (w : WS) i := nth i (wv w) (svzero O).
  Definition ga (w : WS) i := nth i (wa w) (svzero O).
  Definition gc (w : WS) i := nth i (wc w) (svzero O).
  Definition gvJ (w : WS) i := nth i (wvJ w) (svzero O).
  Definition gcJ (w : WS) i := nth i (wcJ w) (svzero O).
  Definition gS (w : WS) i := nth i (wS w) (svzero O).
  Definition gf (w : WS) i := nth i (wf w) (svzero O).
  Definition gpA (w : WS) i := nth i (wpA w) (svzero O).
  Definition gU (w : WS) i := nth i (wU w) (svzero O).
  Definition gmS (w : WS) i : M63 := nth i (wmS w) (m63zero O).
  Definition gmU (w : WS) i : M63 := nth i (wmU w) (m63zero O).
  Definition gIc (w : WS) i := nth i (wIc w) (rbi_zero O).
  Definition gIA (w : WS) i := nth i (wIA w) (m66zero O).
  Definition gcS (w : WS) k : list SV := nth k (wcS w) [].

  Definition sv_set (v : SV) (k : nat) (x : T) : SV :=
    match k with
    | 0 => mkSV x (s1 v) (s2 v) (s3 v) (s4 v) (s5 v) | 1 => mkSV (s0 v) x (s2 v) (s3 v) (s4 v) (s5 v)
    | 2 => mkSV (s0 v) (s1 v) x (s3 v) (s4 v) (s5 v) | 3 => mkSV (s0 v) (s1 v) (s2 v) x (s4 v) (s5 v)
    | 4 => mkSV (s0 v) (s1 v) (s2 v) (s3 v) x (s5 v) | _ => mkSV (s0 v) (s1 v) (s2 v) (s3 v) (s4 v) x
    end.
  (* multdof3_S[i](r,c) = x *)
  Definition m63_set (m : M63) (r c : nat) (x : T) : M63 :=
    upd m c (sv_set (nth c m (svzero O)) r x).
  Fixpoint m63_sets (m : M63) (l : list (nat * nat * T)) : M63 :=
    match l with [] => m | (r, c, x) :: t => m63_sets (m63_set m r c x) t end.
  (* S * qd for a column list *)
  Fixpoint cols_mulv (cols : list SV) (x : list T) : SV :=
    match cols, x with
    | c :: cs, a :: xs => svadd O (svscale O a c) (cols_mulv cs xs)
    | _, _ => svzero O
    end.
  (* S^T f *)
  Definition cols_Tmul (cols : list SV) (f : SV) : list T := map (fun c => svdot O c f) cols.

  Definition get_quat (M : Model) (i : nat) (q : list T) : Qt T :=
    let qi := jq (getJ M i) in
    mkQt (vget t0 q qi) (vget t0 q (S qi)) (vget t0 q (S (S qi))) (vget t0 q (nth i (w_index M) 0)).

  Definition jaxis (M : Model) (i : nat) : SV := nth 0 (jaxes (getJ M i)) (svzero O).

  Definition jcalc_XJ (M : Model) (i : nat) (q : list T) : ST :=
    let a := jaxis M i in let qi := vget t0 q (jq (getJ M i)) in
    match jkind (getJ M i) with
    | JRevolute => Xrot O qi (svang a)
    | JPrismatic => Xtrans O (v3scale O qi (svlin a))
    | JHelical => st_mul O (Xrot O qi (svang a)) (Xtrans O (v3scale O qi (svlin a)))
    | _ => stid O
    end.

  (* Euler-type literals of src/Joint.cc: (E, S entries, c_J angular part) *)
  Definition euler_lit (k : JKind) (s0 c0 s1 c1 s2 c2 qd0 qd1 qd2 : T)
    : M3 T * list (nat * nat * T) * V3 :=
    match k with
    | JEulerZYX =>
      (mkM3 (c0*c1) (s0*c1) (- s1)
            (c0*s1*s2 - s0*c2) (s0*s1*s2 + c0*c2) (c1*s2)
            (c0*s1*c2 + s0*s2) (s0*s1*c2 - c0*s2) (c1*c2),
       [(0,0,- s1); (0,2,t1); (1,0,c1*s2); (1,1,c2); (2,0,c1*c2); (2,1,- s2)],
       mkV3 (- c1*qd0*qd1)
            (- s1*s2*qd0*qd1 + c1*c2*qd0*qd2 - s2*qd1*qd2)
            (- s1*c2*qd0*qd1 - c1*s2*qd0*qd2 - c2*qd1*qd2))
    | JEulerXYZ =>
      (mkM3 (c2*c1) (s2*c0 + c2*s1*s0) (s2*s0 - c2*s1*c0)
            (- s2*c1) (c2*c0 - s2*s1*s0) (c2*s0 + s2*s1*c0)
            s1 (- c1*s0) (c1*c0),
       [(0,0,c2*c1); (0,1,s2); (1,0,- s2*c1); (1,1,c2); (2,0,s1); (2,2,t1)],
       mkV3 (- s2*c1*qd2*qd0 - c2*s1*qd1*qd0 + c2*qd2*qd1)
            (- c2*c1*qd2*qd0 + s2*s1*qd1*qd0 - s2*qd2*qd1)
            (c1*qd1*qd0))
    | JEulerYXZ =>
      (mkM3 (c2*c0 + s2*s1*s0) (s2*c1) (- c2*s0 + s2*s1*c0)
            (- s2*c0 + c2*s1*s0) (c2*c1) (s2*s0 + c2*s1*c0)
            (c1*s0) (- s1) (c1*c0),
       [(0,0,s2*c1); (0,1,c2); (1,0,c2*c1); (1,1,- s2); (2,0,- s1); (2,2,t1)],
       mkV3 (c2*c1*qd2*qd0 - s2*s1*qd1*qd0 - s2*qd2*qd1)
            (- s2*c1*qd2*qd0 - c2*s1*qd1*qd0 - c2*qd2*qd1)
            (- c1*qd1*qd0))
    | _ (* JEulerZXY *) =>
      (mkM3 (- s0*s1*s2 + c0*c2) (s0*c2 + s1*s2*c0) (- s2*c1)
            (- s0*c1) (c0*c1) s1
            (s0*s1*c2 + s2*c0) (s0*s2 - s1*c0*c2) (c1*c2),
       [(0,0,- s2*c1); (0,1,c2); (1,0,s1); (1,2,t1); (2,0,c1*c2); (2,1,s2)],
       mkV3 ((- c1*c2*qd2 + s1*s2*qd1)*qd0 - s2*qd1*qd2)
            (c1*qd1*qd0)
            ((- s1*c2*qd1 - c1*s2*qd2)*qd0 + c2*qd2*qd1))
    end.

  (* harness custom joints: (XJ, S columns, c_J) *)
  Definition custom_lit (c : CKind) (q qd : list T) : ST * list SV * SV :=
    match c with
    | CRevX => (Xrotx O (vget t0 q 0), [ex O], svzero O)
    | CEulerZYX =>
        let q0 := vget t0 q 0 in let q1 := vget t0 q 1 in let q2 := vget t0 q 2 in
        let el := euler_lit JEulerZYX (osin O q0) (ocos O q0) (osin O q1) (ocos O q1)
                              (osin O q2) (ocos O q2) (vget t0 qd 0) (vget t0 qd 1) (vget t0 qd 2) in
        (mkST (fst (fst el)) (v3zero O), m63_sets (m63zero O) (snd (fst el)), svof (snd el) (v3zero O))
    | CRzTx =>   (* rotation about z by q0, then translation q1 along the rotated x axis *)
        (st_mul O (Xtrans O (mkV3 (vget t0 q 1) t0 t0)) (Xrotz O (vget t0 q 0)),
         [mkSV t0 t0 t1 t0 (vget t0 q 1) t0; tx O],
         mkSV t0 t0 t0 t0 (vget t0 qd 0 * vget t0 qd 1) t0)
    end.

  (* X_lambda, S part shared by jcalc and jcalc_X_lambda_S; `full` = jcalc (also v_J, c_J) *)
  Definition jcalc_gen (full : bool) (M : Model) (w : WS) (i : nat) (q qd : list T) : WS :=
    let J := getJ M i in let qi := jq J in let XT := getXT O M i in
    let q0 := vget t0 q qi in
    let qd3 := [vget t0 qd qi; vget t0 qd (S qi); vget t0 qd (S (S qi))] in
    match jkind J with
    | JRevX =>
        let w1 := w_Xl w (upd (wXl w) i (mkST (m3mul O (rotx O (osin O q0) (ocos O q0)) (stE XT)) (str XT))) in
        if full then w_vJ w1 (upd (wvJ w1) i (sv_set (gvJ w1 i) 0 (vget t0 qd qi)))
        else w_S w1 (upd (wS w1) i (sv_set (gS w1 i) 0 t1))
    | JRevY =>
        let w1 := w_Xl w (upd (wXl w) i (mkST (m3mul O (roty O (osin O q0) (ocos O q0)) (stE XT)) (str XT))) in
        if full then w_vJ w1 (upd (wvJ w1) i (sv_set (gvJ w1 i) 1 (vget t0 qd qi)))
        else w_S w1 (upd (wS w1) i (sv_set (gS w1 i) 1 t1))
    | JRevZ =>
        let w1 := w_Xl w (upd (wXl w) i (mkST (m3mul O (rotz O (osin O q0) (ocos O q0)) (stE XT)) (str XT))) in
        if full then w_vJ w1 (upd (wvJ w1) i (sv_set (gvJ w1 i) 2 (vget t0 qd qi)))
        else w_S w1 (upd (wS w1) i (sv_set (gS w1 i) 2 t1))
    | JHelical =>
        let XJ := jcalc_XJ M i q in
        let a := jaxis M i in
        let trans := m3v O (stE XJ) (svlin a) in
        let Sn := svof (svang a) trans in
        let w1 := w_S (w_Xl w (upd (wXl w) i (st_mul O XJ XT))) (upd (wS w) i Sn) in
        if full then
          let Jqd := vget t0 qd qi in
          let cc := v3scale O (- Jqd * Jqd) (v3cross O (svang Sn) trans) in
          w_cJ (w_vJ w1 (upd (wvJ w1) i (svscale O Jqd Sn))) (upd (wcJ w1) i (svof (v3zero O) cc))
        else w1
    | JRevolute | JPrismatic =>
        let w1 := w_Xl w (upd (wXl w) i (st_mul O (jcalc_XJ M i q) XT)) in
        if full then w_vJ w1 (upd (wvJ w1) i (svscale O (vget t0 qd qi) (gS w1 i)))
        else w_S w1 (upd (wS w1) i (jaxis M i))
    | JSpherical =>
        let XJ := mkST (qtoMatrix O (get_quat M i q)) (v3zero O) in
        let w1 := w_Xl w (upd (wXl w) i (st_mul O XJ XT)) in
        let w2 := w_mS w1 (upd (wmS w1) i (m63_sets (gmS w1 i) [(0,0,t1); (1,1,t1); (2,2,t1)])) in
        if full then w_vJ w2 (upd (wvJ w2) i (svof (v3of O qd3) (v3zero O))) else w2
    | JEulerZYX | JEulerXYZ | JEulerYXZ | JEulerZXY =>
        let q1 := vget t0 q (S qi) in let q2 := vget t0 q (S (S qi)) in
        let el := euler_lit (jkind J) (osin O q0) (ocos O q0) (osin O q1) (ocos O q1)
                               (osin O q2) (ocos O q2) (nth 0 qd3 t0) (nth 1 qd3 t0) (nth 2 qd3 t0) in
        let E := fst (fst el) in let Sl := snd (fst el) in let cj := snd el in
        let w1 := w_Xl w (upd (wXl w) i (st_mul O (mkST E (v3zero O)) XT)) in
        let mS := m63_sets (gmS w1 i) Sl in
        let w2 := w_mS w1 (upd (wmS w1) i mS) in
        if full then
          w_cJ (w_vJ w2 (upd (wvJ w2) i (cols_mulv mS qd3))) (upd (wcJ w2) i (svof cj (v3zero O)))
        else w2
    | JTransXYZ =>
        let q1 := vget t0 q (S qi) in let q2 := vget t0 q (S (S qi)) in
        let mS := m63_sets (gmS w i) [(3,0,t1); (4,1,t1); (5,2,t1)] in
        let w2 := w_mS w (upd (wmS w) i mS) in
        if full then
          let w3 := w_cJ (w_vJ w2 (upd (wvJ w2) i (cols_mulv mS qd3))) (upd (wcJ w2) i (svzero O)) in
          w_Xl w3 (upd (wXl w3) i (mkST (stE XT) (v3add O (str XT) (m3Tv O (stE XT) (mkV3 q0 q1 q2)))))
        else
          w_Xl w2 (upd (wXl w2) i (st_mul O (mkST (m3id O) (mkV3 q0 q1 q2)) XT))
    | JCustom c =>
        let k := jcust J in
        let cl := custom_lit c (vslice t0 q qi (cdof c)) (vslice t0 qd qi (cdof c)) in
        let XJ := fst (fst cl) in let Sc := snd (fst cl) in let cj := snd cl in
        let w1 := w_cS (w_Xl w (upd (wXl w) i (st_mul O XJ XT))) (upd (wcS w) k Sc) in
        if full then
          w_cJ (w_vJ w1 (upd (wvJ w1) i (cols_mulv Sc (vslice t0 qd qi (cdof c))))) (upd (wcJ w1) i cj)
        else w1
    | JRoot => w
    end.
  Definition jcalc := jcalc_gen true.
  Definition jcalc_X_lambda_S M w i q := jcalc_gen false M w i q [].

  (* the motion-subspace columns of joint i as the algorithms read them *)
  Definition jS (M : Model) (w : WS) (i : nat) : list SV :=
    let J := getJ M i in
    match jkind J with
    | JCustom _ => gcS w (jcust J)
    | JRoot => []
    | _ => if Nat.eqb (jdof J) 1 then [gS w i] else gmS w i
    end.
End J.
