(* C15: Body::Join is the rigid union; Separate undoes Join (also for a massless remainder). *)
From Coq Require Import List Bool Ring Field.
From RV Require Import Scalar LinAlg3 Spatial Quat Tac Laws SpatialLaws ListArr ModelDef SpecDef.

Section C15.
  Context {T : Type} (O : Ops T) {FL : FieldLaws O}.
  Add Field FlF : (@fl_field T O FL).
  Hypothesis oeqb_spec : forall x y : T, oeqb O x y = true <-> x = y.
  Local Notation t0 := (o0 O). Local Notation t1 := (o1 O).

  Lemma oeqb_false x y : oeqb O x y = false -> x <> y.
  Proof. intros H e. apply oeqb_spec in e. congruence. Qed.

  (* symmetric inertia (the property quantifies over physical bodies) *)
  Definition m3sym (A : M3 T) : Prop := m01 A = m10 A /\ m02 A = m20 A /\ m12 A = m21 A.

  (* Join gives the mass, centre of mass and centroidal inertia of the rigid union *)
  Theorem join_is_union a X b r :
    m3orth O (stE X) -> m3sym (binertia a) -> m3sym (binertia b) ->
    body_join O a X b = Some r ->
    (oeqb O (bmass b) t0 && m3_is_zero O (binertia b) = false)%bool ->
    let '(m, c, Iu) := spec_union O false (bmass a) (bcom a) (binertia a) X (bmass b) (bcom b) (binertia b) in
    bmass r = m /\ bcom r = c /\ binertia r = Iu.
  Proof.
    intros Ho Hs Hsb. unfold body_join, body_combine. intros Hj Hz. rewrite Hz in Hj.
    destruct (oeqb O (oadd O (bmass a) (bmass b)) t0) eqn:Hm; [discriminate|].
    apply oeqb_false in Hm. injection Hj as <-. cbn [bmass bcom binertia].
    pose proof (orth_eqs_of O _ (orth_T O _ Ho)) as (A & B & C & D & F & G).
    destruct a as [ma ca Ia va], b as [mb cb Ib vb], X as [E rr].
    cbn [bmass bcom binertia stE str] in *. unfold m3sym in *.
    destruct ca, cb, Ia, Ib, E, rr. destruct Hs as (S1 & S2 & S3). destruct Hsb as (S4 & S5 & S6). cbn [LinAlg3.m01 LinAlg3.m10 LinAlg3.m02 LinAlg3.m20 LinAlg3.m12 LinAlg3.m21] in *. subst.
    unfold spec_union. cbv_sc. cbv_sc_all.
    repeat split; ext_rec; cbv_sc; field; assumption.
  Qed.

  (* Separate after Join restores the first body (remainder with non-zero mass) *)
  Theorem separate_join a X b r r' :
    m3sym (binertia a) -> m3sym (binertia b) -> bvirtual a = false ->
    body_join O a X b = Some r -> body_separate O r X b = Some r' ->
    bmass a <> t0 -> r' = a.
  Proof.
    intros Hs Hsb Hv. unfold body_join, body_separate, body_combine. intros Hj Hsep Hma.
    destruct (oeqb O (bmass b) t0 && m3_is_zero O (binertia b))%bool eqn:Hz.
    { injection Hj as <-. injection Hsep as <-. reflexivity. }
    destruct (oeqb O (oadd O (bmass a) (bmass b)) t0) eqn:Hm; [discriminate|].
    apply oeqb_false in Hm. injection Hj as <-. cbn [bmass bcom binertia] in Hsep.
    destruct (oeqb O (osub O (oadd O (bmass a) (bmass b)) (bmass b)) t0) eqn:Hm2.
    { apply oeqb_spec in Hm2. exfalso. apply Hma. rewrite <- Hm2. ring. }
    injection Hsep as <-.
    destruct a as [ma ca Ia va], b as [mb cb Ib vb], X as [E rr].
    cbn [bmass bcom binertia bvirtual stE str] in *. unfold m3sym in *.
    destruct ca, cb, Ia, Ib, E, rr. destruct Hs as (S1 & S2 & S3). destruct Hsb as (S4 & S5 & S6). cbn [LinAlg3.m01 LinAlg3.m10 LinAlg3.m02 LinAlg3.m20 LinAlg3.m12 LinAlg3.m21] in *. subst.
    f_equal; ext_rec; cbv_sc; field; repeat split; try assumption;
      intro K; apply Hma; rewrite <- K; ring.
  Qed.

  (* ... and when the remainder is massless the inertia that is left over is restored *)
  Theorem separate_join_massless a X b r r' :
    m3sym (binertia a) -> m3sym (binertia b) -> bmass a = t0 ->
    body_join O a X b = Some r -> body_separate O r X b = Some r' ->
    (oeqb O (bmass b) t0 && m3_is_zero O (binertia b) = false)%bool ->
    bmass r' = t0 /\ bcom r' = v3zero O /\ binertia r' = binertia a.
  Proof.
    intros Hs Hsb Hma. unfold body_join, body_separate, body_combine. intros Hj Hsep Hz. rewrite Hz in Hj, Hsep.
    destruct (oeqb O (oadd O (bmass a) (bmass b)) t0) eqn:Hm; [discriminate|].
    apply oeqb_false in Hm. injection Hj as <-. cbn [bmass bcom binertia] in Hsep.
    assert (Hm2 : oeqb O (osub O (oadd O (bmass a) (bmass b)) (bmass b)) t0 = true).
    { apply oeqb_spec. rewrite Hma. ring. }
    rewrite Hm2 in Hsep. injection Hsep as <-. cbn [bmass bcom binertia].
    split; [reflexivity|split; [reflexivity|]].
    destruct a as [ma ca Ia va], b as [mb cb Ib vb], X as [E rr].
    cbn [bmass bcom binertia bvirtual stE str] in *. unfold m3sym in *.
    destruct ca, cb, Ia, Ib, E, rr. destruct Hs as (S1 & S2 & S3). destruct Hsb as (S4 & S5 & S6). cbn [LinAlg3.m01 LinAlg3.m10 LinAlg3.m02 LinAlg3.m20 LinAlg3.m12 LinAlg3.m21] in *. subst.
    assert (Hmb : mb <> t0) by (intro K; apply Hm; rewrite K; ring).
    ext_rec; cbv_sc; field; repeat split; assumption.
  Qed.
End C15.
