(* C08: the accelerations and constraint forces returned by constrained forward dynamics satisfy the equations of
   motion in terms of inverse dynamics:  ID(q, qd, qdd) = tau + G^T lambda  component by component (f_ext = NULL),
   besides G qdd = gamma. *)
From Coq Require Import List Bool Arith NArith Lia Ring Field.
From RV Require Import Scalar Laws Tac LinAlg3 Spatial Quat SpatialLaws QuatLaws ListArr ListLemmas ModelDef JointDef KinDef LinDef DynDef ConsDef UtilDef
     Tree VPower C14Thm WsLemmas KinThm KinThm2 C04Thm DynThm NleThm LinThm ConsThm IdcThm JacThm JacThm2 JacThm3 DimThm EnergyThm SymThm QuadThm ComThm
     CrbaThm CrbaThm2 CrbaThm3 IdLinThm CrbaGen.
Import ListNotations.

Section Fdc.
  Context {T : Type} (O : Ops T) {FL : FieldLaws O} {TL : TrigLaws O}.
  Add Field FlFfdc : (@fl_field T O FL).
  Hypothesis oeqb_spec : forall x y : T, oeqb O x y = true <-> x = y.
  Local Notation t0 := (o0 O).
  Local Notation Model := (@Model T). Local Notation WS := (@WS T).
  Variable M : Model.
  Variables q qd : list T.
  Hypothesis W : WF M.
  Hypothesis cust_inj : forall i j, 0 < i < nbodies M -> 0 < j < nbodies M -> i <> j ->
    is_custom (jkind (getJ M i)) = true -> is_custom (jkind (getJ M j)) = true -> jcust (getJ M i) <> jcust (getJ M j).
  Hypothesis virtual_massless : forall i u, 0 < i < nbodies M -> bvirtual (getbody O M i) = true -> rbi_mulv O (getI O M i) u = svzero O.
  Hypothesis root_joint_empty : jq (getJ M 0) + jdof (getJ M 0) = 0.
  Hypothesis Hjw : forall i, 0 < i < nbodies M -> joint_wf O M q i.
  Hypothesis two_nz : o2 O <> t0.
  Hypothesis Ord : order_ok M = true.
  Let NB := nbodies M.
  Let n := dof_count M.
  Let z := vzeros t0 n.

  Lemma nle_leaves_kinok (w : WS) tau0 : Good O M w -> KinOK O M q (fst (nonlinear_effects O M w q qd tau0 None)).
  Proof.
    intros Hg. destruct (order_ok_spec O M Ord) as [Hc Hr].
    rewrite (nle_unfold O M q qd).
    pose proof (nle_forward_spec O M q qd W cust_inj Hc Hr w Hg) as F.
    set (w1 := fold_left (nle_step O M) (body_range M) _) in *.
    destruct F as ((L1 & G1) & _ & _ & F).
    assert (P : let r := inward_tau O M w1 tau0 in
                wXl (fst r) = wXl w1 /\ wS (fst r) = wS w1 /\ wmS (fst r) = wmS w1 /\ wcS (fst r) = wcS w1 /\ ws_len (fst r) NB).
    { cbv zeta. rewrite (inward_unfold O M).
      apply (fold_left_inv (fun st : WS * list T =>
               wXl (fst st) = wXl w1 /\ wS (fst st) = wS w1 /\ wmS (fst st) = wmS w1 /\ wcS (fst st) = wcS w1 /\ ws_len (fst st) NB)).
      - cbn [fst]. exact (conj eq_refl (conj eq_refl (conj eq_refl (conj eq_refl L1)))).
      - intros [wx tx] i (A & B & C & D & L). unfold id_bwd_step. cbn [fst].
        destruct (Nat.eqb (getlam M i) 0); cbn [fst]; [exact (conj A (conj B (conj C (conj D L))))|].
        cbn [wXl wS wmS wcS w_f].
        split; [exact A|]. split; [exact B|]. split; [exact C|]. split; [exact D|].
        unfold ws_len in *. cbn [wXl wXb wv wa wc wvJ wcJ wS wf wpA wU wmS wmU wmDinv wmu wIc wIA wd wu wcS wcU wcDinv wcu w_f].
        rewrite upd_length. exact L. }
    cbv zeta in P. destruct P as (A & B & C & D & L).
    split; [exact L|]. intros i Hi. destruct (F i Hi) as (_ & _ & _ & EX & ES).
    split; [unfold gXl; rewrite A; exact EX|]. split.
    - rewrite (jS_ext O M w1 _ i B C D). exact ES.
    - eapply (SF_length O). exact (proj2 (G1 i Hi)).
  Qed.

  Theorem fdc_equations_of_motion (w0 w1 : WS) (tau : list T) cs w' Sy qdd lam : Good O M w0 -> Good O M w1 ->
    length tau = n ->
    forward_dynamics_constraints O M w0 q qd tau cs None = (w', Sy, Some (qdd, lam)) ->
    (forall r, r < n ->
       nth r (snd (inverse_dynamics O M w1 q qd qdd z None)) t0 =
       oadd O (nth r tau t0) (nth r (mTvmul O (cG Sy) n lam) t0)) /\
    mvmul O (cG Sy) qdd = cgamma Sy.
  Proof.
    intros G0 G1 Lt E.
    destruct (fdc_equations_sized O oeqb_spec M w0 q qd tau cs None w' Sy qdd lam (wf_qdot M W) Lt E) as [EM EG].
    split; [|exact EG]. fold n in EM.
    (* what H and C are *)
    unfold forward_dynamics_constraints in E. cbv zeta in E.
    unfold calc_constrained_system_variables in E. cbv zeta in E. fold n in E. fold z in E.
    set (wq := ukc_q O M w0 q) in *.
    assert (Gq : Good O M wq) by (apply (ukc_q_good O M w0 q W G0)).
    pose proof (nle_leaves_kinok wq z Gq) as KO.
    pose proof (nle_length O M wq q qd z None) as LC.
    destruct (nonlinear_effects O M wq q qd z None) as [wn Cn] eqn:EN. cbn [fst snd] in KO, LC.
    pose proof (gen_wf O M q wn) as WH. pose proof (gen_bilinear O M q W Hjw two_nz wn KO) as BL.
    cbv zeta in WH, BL. fold n in WH, BL.
    destruct (crba O M wn q (zerosM O n n) false) as [wc Hc] eqn:EC. cbn [snd] in WH, BL.
    match type of E with (_, ?S, match ?K with _ => _ end) = _ => destruct K as [[u x]|] eqn:EK; [|discriminate] end.
    injection E as _ ES Eq El. subst Sy qdd lam. cbn [cH cC cG] in *.
    assert (Lz : length z = n) by (unfold z; apply vzeros_length). rewrite Lz in LC.
    assert (Lq : length u = n).
    { unfold kkt_solve in EK. destruct (solve_pp O _ _) as [y|]; [|discriminate]. injection EK as <- _. apply vslice_length. }
    intros r Hr.
    pose proof (id_affine_gen O M q qd W cust_inj virtual_massless root_joint_empty Hc w1 w0 u WH BL G1 G0 Lq r Hr) as A.
    pose proof (nle_is_id0_componentwise O M q qd W cust_inj root_joint_empty wq w0 Ord Gq G0 r Hr) as B.
    cbv zeta in A. fold n in A, B. fold z in A, B. rewrite EN in B. cbn [snd] in B.
    rewrite A, <- B.
    assert (LHq : length (mvmul O Hc u) = n) by (rewrite (mvmul_length O); exact (proj1 WH)).
    assert (LG : length (mTvmul O (cons_G O M wc cs) n (vneg O x)) = n)
      by (unfold mTvmul, mTn; rewrite (mvmul_length O), (mtn_length O); reflexivity).
    pose proof (f_equal (fun v => nth r v t0) EM) as Er. cbv beta in Er.
    rewrite !(nth_vadd O) in Er by lia. rewrite <- Er. ring.
  Qed.
  (* H and C of CalcConstrainedSystemVariables are the linear part and the zero-acceleration value of inverse dynamics *)
  Lemma csys_identifies (w0 : WS) cs : Good O M w0 ->
    let Sy := snd (calc_constrained_system_variables O M w0 q qd cs true None) in
    WFm n (cH Sy) /\
    (forall x y, length x = n -> length y = n -> odot O x (mvmul O (cH Sy) y) = cross O M q x y) /\
    (forall wb r, Good O M wb -> r < n -> nth r (cC Sy) t0 = nth r (snd (inverse_dynamics O M wb q qd z z None)) t0).
  Proof.
    intros G0. cbv zeta.
    unfold calc_constrained_system_variables. cbv zeta. fold n. fold z.
    set (wq := ukc_q O M w0 q).
    assert (Gq : Good O M wq) by (apply (ukc_q_good O M w0 q W G0)).
    pose proof (nle_leaves_kinok wq z Gq) as KO.
    assert (NC : forall wb r, Good O M wb -> r < n ->
              nth r (snd (nonlinear_effects O M wq q qd z None)) t0 = nth r (snd (inverse_dynamics O M wb q qd z z None)) t0).
    { intros wb r Gb Hr. exact (nle_is_id0_componentwise O M q qd W cust_inj root_joint_empty wq wb Ord Gq Gb r Hr). }
    destruct (nonlinear_effects O M wq q qd z None) as [wn Cn]. cbn [fst snd] in KO, NC.
    pose proof (gen_wf O M q wn) as WH. pose proof (gen_bilinear O M q W Hjw two_nz wn KO) as BL.
    cbv zeta in WH, BL. fold n in WH, BL.
    destruct (crba O M wn q (zerosM O n n) false) as [wc Hc]. cbn [snd cH cC] in *.
    split; [exact WH|]. split; [exact BL|exact NC].
  Qed.

  (* C11: constrained inverse dynamics -- the returned qdd, tau, lambda satisfy  ID(q, qd, qdd) = tau + G^T lambda *)
  Theorem idc_equations_of_motion (w0 w1 : WS) (qdes : list T) cs act relaxed w' Sy qdd tau lam : Good O M w0 -> Good O M w1 ->
    length act = n -> length qdes = n ->
    inverse_dynamics_constraints O M w0 q qd qdes cs act relaxed None = (w', Sy, Some (qdd, tau, lam)) ->
    forall r, r < n ->
      nth r (snd (inverse_dynamics O M w1 q qd qdd z None)) t0 =
      oadd O (vget t0 tau r) (odot O (nth r (mTn O (cG Sy) n) []) lam).
  Proof.
    intros G0 G1 La Lq E.
    destruct (idc_equations_sized O oeqb_spec M w0 q qd qdes cs act relaxed None w' Sy qdd tau lam (wf_qdot M W) La Lq E)
      as (_ & _ & EM & _). cbv zeta in EM. fold n in EM.
    assert (ES : Sy = snd (calc_constrained_system_variables O M w0 q qd cs true None)).
    { unfold inverse_dynamics_constraints in E. cbv zeta in E.
      destruct (calc_constrained_system_variables O M w0 q qd cs true None) as [wa S1].
      destruct (solve_pp O _ _) as [y|]; [|discriminate]. injection E as _ <- _ _ _. reflexivity. }
    destruct (csys_identifies w0 cs G0) as (WH & BL & NC). cbv zeta in WH, BL, NC. rewrite <- ES in WH, BL, NC.
    assert (Lqdd : length qdd = n).
    { unfold inverse_dynamics_constraints in E. cbv zeta in E.
      destruct (calc_constrained_system_variables O M w0 q qd cs true None) as [wa S1].
      destruct (solve_pp O _ _) as [y|]; [|discriminate]. injection E as _ _ <- _ _. fold n. apply vslice_length. }
    intros r Hr.
    pose proof (id_affine_gen O M q qd W cust_inj virtual_massless root_joint_empty (cH Sy) w1 w0 qdd WH BL G1 G0 Lqdd r Hr) as A.
    cbv zeta in A. fold n in A. fold z in A.
    rewrite A, <- (NC w0 r G0 Hr).
    rewrite (nth_mvmul O) by (rewrite (proj1 WH); exact Hr).
    pose proof (EM r Hr) as Er. unfold vget in Er |- *. rewrite <- Er. ring.
  Qed.
End Fdc.
