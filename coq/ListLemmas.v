(* Lemmas about segment writes / reads of dynamic vectors (VectorNd as list). *)
From Coq Require Import List Arith Lia.
From RV Require Import ListArr.
Import ListNotations.

Section Seg.
  Context {T : Type} (z : T).
  Lemma vset_seg_length (xs : list T) : forall v i, length (vset_seg v i xs) = length v.
  Proof. induction xs as [|x t IH]; intros; cbn; auto. rewrite IH, upd_length. reflexivity. Qed.
  Lemma nth_vset_seg_out (xs : list T) : forall v i j, j < i \/ i + length xs <= j ->
    nth j (vset_seg v i xs) z = nth j v z.
  Proof.
    induction xs as [|x t IH]; intros v i j H; cbn; auto.
    rewrite IH by (cbn in H; lia). apply nth_upd_neq. cbn in H; lia.
  Qed.
  Lemma nth_vset_seg_in (xs : list T) : forall v i k, i + length xs <= length v -> k < length xs ->
    nth (i + k) (vset_seg v i xs) z = nth k xs z.
  Proof.
    induction xs as [|x t IH]; intros v i k Hl Hk; cbn in *; [lia|].
    destruct k as [|k].
    - rewrite Nat.add_0_r. rewrite nth_vset_seg_out by lia. apply nth_upd_eq. lia.
    - replace (i + S k) with (S i + k) by lia. apply IH; [rewrite upd_length; lia | lia].
  Qed.
  Lemma vslice_nth : forall n v i k, k < n -> nth k (vslice z v i n) z = nth (i + k) v z.
  Proof.
    induction n as [|n IH]; intros v i k Hk; [lia|]. cbn. destruct k as [|k].
    - rewrite Nat.add_0_r. reflexivity.
    - rewrite IH by lia. f_equal. lia.
  Qed.
  Lemma vslice_length : forall n v i, length (vslice z v i n) = n.
  Proof. induction n; intros; cbn; auto. Qed.
  Lemma vslice_ext : forall n v v' i, (forall k, k < n -> nth (i + k) v z = nth (i + k) v' z) ->
    vslice z v i n = vslice z v' i n.
  Proof.
    induction n as [|n IH]; intros v v' i H; cbn; auto. f_equal.
    - unfold vget. specialize (H 0). rewrite Nat.add_0_r in H. apply H. lia.
    - apply IH. intros k Hk. replace (S i + k) with (i + S k) by lia. apply H. lia.
  Qed.
  Lemma list_ext (a b : list T) : length a = length b -> (forall k, k < length a -> nth k a z = nth k b z) -> a = b.
  Proof.
    revert b; induction a as [|x a IH]; intros [|y b] Hl H; cbn in *; try lia; auto.
    f_equal; [apply (H 0); lia | apply IH; [lia | intros k Hk; apply (H (S k)); lia]].
  Qed.
  Lemma vslice_vset_seg_same (xs : list T) v i : i + length xs <= length v ->
    vslice z (vset_seg v i xs) i (length xs) = xs.
  Proof.
    intro Hl. apply list_ext; [apply vslice_length|]. intros k Hk. rewrite vslice_length in Hk.
    rewrite vslice_nth by exact Hk. apply nth_vset_seg_in; auto.
  Qed.
  Lemma vslice_vset_seg_other (xs : list T) v i j n : j + n <= i \/ i + length xs <= j ->
    vslice z (vset_seg v i xs) j n = vslice z v j n.
  Proof. intro H. apply vslice_ext. intros k Hk. apply nth_vset_seg_out. lia. Qed.
End Seg.
