(* Arrays as lists: the C++ std::vector / VectorNd / MatrixNd of the model. *)
From Coq Require Import List Bool Arith Lia.
Import ListNotations.

Section Arr.
  Context {A : Type}.
  Fixpoint upd (l : list A) (i : nat) (x : A) : list A :=
    match l, i with
    | [], _ => []
    | _ :: t, 0 => x :: t
    | a :: t, S j => a :: upd t j x
    end.
  Lemma upd_length l i x : length (upd l i x) = length l.
  Proof. revert i; induction l; destruct i; simpl; auto. Qed.
  Lemma nth_upd_eq d l i x : i < length l -> nth i (upd l i x) d = x.
  Proof. revert i; induction l; destruct i; simpl; intros; try lia; auto. apply IHl; lia. Qed.
  Lemma nth_upd_neq d l i j x : i <> j -> nth j (upd l i x) d = nth j l d.
  Proof. revert i j; induction l; destruct i, j; simpl; intros; try lia; auto. Qed.
  Definition updf (d : A) (l : list A) (i : nat) (f : A -> A) : list A := upd l i (f (nth i l d)).
End Arr.

(* iota a n = [a; a+1; ...; a+n-1] *)
Fixpoint iota (a n : nat) : list nat := match n with 0 => [] | S k => a :: iota (S a) k end.
Lemma iota_length a n : length (iota a n) = n.
Proof. revert a; induction n; simpl; auto. Qed.
Lemma in_iota a n x : In x (iota a n) <-> a <= x < a + n.
Proof. revert a; induction n; simpl; intros; [lia|]. rewrite IHn. lia. Qed.

(* dynamic vectors and matrices over any scalar type *)
Section Mat.
  Context {T : Type} (z : T).
  Definition vzeros (n : nat) : list T := repeat z n.
  Definition mzeros (r c : nat) : list (list T) := repeat (vzeros c) r.
  Definition mget (m : list (list T)) (i j : nat) : T := nth j (nth i m []) z.
  Definition mset (m : list (list T)) (i j : nat) (x : T) : list (list T) :=
    upd m i (upd (nth i m []) j x).
  Definition vget (v : list T) (i : nat) : T := nth i v z.
  (* write a segment starting at index i *)
  Fixpoint vset_seg (v : list T) (i : nat) (xs : list T) : list T :=
    match xs with [] => v | x :: t => vset_seg (upd v i x) (S i) t end.
  Fixpoint vslice (v : list T) (i n : nat) : list T :=
    match n with 0 => [] | S k => vget v i :: vslice v (S i) k end.
  Definition mcol (m : list (list T)) (j : nat) : list T := map (fun r => nth j r z) m.
  Fixpoint mtranspose_n (m : list (list T)) (c : nat) : list (list T) :=
    match c with 0 => [] | S k => mtranspose_n m k ++ [mcol m k] end.
  Definition mtranspose (m : list (list T)) : list (list T) :=
    mtranspose_n m (length (hd [] m)).
End Mat.
