(* L2: constraint sets (src/Constraints.cc, Constraint_Contact.cc, Constraint_Loop.cc):
   constraint Jacobian G, gamma, position / velocity errors, Baumgarte terms, the KKT systems of
   constrained forward dynamics and of the impulse computation.  The three solution methods of
   the library (direct, range-space sparse, null-space) solve the same KKT system; the model
   solves it once with the elimination of LinDef (results are compared through tolerances). *)
From Coq Require Import List Bool Arith NArith.
From RV Require Import Scalar LinAlg3 Spatial Quat ListArr ModelDef JointDef KinDef LinDef DynDef.
Import ListNotations.

Section Cons.
  Context {T : Type} (O : Ops T).
  Local Notation t0 := (o0 O). Local Notation t1 := (o1 O).
  Local Notation SV := (SV T). Local Notation ST := (ST T). Local Notation V3 := (V3 T).
  Local Notation Model := (@Model T). Local Notation WS := (@WS T).

  (* one row of the constraint system *)
  Inductive CRow :=
  | RContact (id : N) (pt : V3) (nrm : V3)
  | RLoop (idp ids : N) (Xp Xs : ST) (axis : SV) (baum : bool) (tstab : T).
  Definition CSet := list CRow.

  Definition zerosM r c : Mat (T:=T) := mzeros t0 r c.
  Definition rowTmat (v : list T) (G : Mat (T:=T)) (cols : nat) : list T := mTvmul O G cols v.

  (* predecessor frame in base coordinates: (E : frame -> base, r : frame origin) *)
  Definition loop_frame (M : Model) (w : WS) (id : N) (X : ST) : ST :=
    mkST (m3mul O (m3T (world_orient O M w id)) (stE X)) (b2b O M w id (str X)).
  (* constraint axis "in base coordinates" AS THE LIBRARY COMPUTES IT: SpatialTransform(E, r).apply(axis) with
     E : frame -> base and r the frame origin in base coordinates.  For axes with a rotational part and r <> 0
     this is not the rotated axis (open finding D8a, see known_findings.txt); the intended value is axis_rot. *)
  Definition axis_base (F : ST) (ax : SV) : SV := st_apply O F ax.
  Definition axis_rot (F : ST) (ax : SV) : SV := svof (m3v O (stE F) (svang ax)) (m3v O (stE F) (svlin ax)).

  Definition cons_row_G (M : Model) (w : WS) (r : CRow) : list T :=
    let n := qdot_size M in
    match r with
    | RContact id pt nrm => rowTmat (v3list nrm) (point_jacobian O M w id pt (zerosM 3 n)) n
    | RLoop idp ids Xp Xs ax _ _ =>
        let GA := point_jacobian6 O M w idp (str Xp) (zerosM 6 n) in
        let GB := point_jacobian6 O M w ids (str Xs) (zerosM 6 n) in
        rowTmat (svlist (axis_base (loop_frame M w idp Xp) ax)) (msub O GB GA) n
    end.
  Definition cons_G (M : Model) (w : WS) (cs : CSet) : Mat (T:=T) := map (cons_row_G M w) cs.

  (* -1/2 of the axial vector of the skew part of the relative rotation (= sin(angle) * axis) *)
  Definition rot_err (R : M3 T) : V3 :=
    let h := oopp O (ohalf O) in
    mkV3 (omul O h (osub O (m12 R) (m21 R))) (omul O h (osub O (m20 R) (m02 R))) (omul O h (osub O (m01 R) (m10 R))).
  Definition cons_row_err (M : Model) (w : WS) (r : CRow) : T :=
    match r with
    | RContact _ _ _ => t0
    | RLoop idp ids Xp Xs ax _ _ =>
        let A := loop_frame M w idp Xp in let B := loop_frame M w ids Xs in
        let R := m3mul O (m3T (stE A)) (stE B) in
        let lin := m3Tv O (stE A) (v3sub O (str B) (str A)) in
        svdot O ax (svof (rot_err R) lin)
    end.
  (* velocity error: needs the body velocities in the workspace (v[0] is zeroed as the queries do) *)
  Definition cons_row_errd (M : Model) (w : WS) (qd : list T) (G : Mat (T:=T)) (k : nat) (r : CRow) : T :=
    match r with
    | RContact id pt nrm => v3dot O (svlin (point_velocity6_nk O M (zero_v0 O w) id pt)) nrm
    | RLoop _ _ _ _ _ _ _ => odot O (nth k G []) qd
    end.
  (* gamma: needs v and the zero-qddot accelerations in the workspace *)
  Definition cons_row_gamma (M : Model) (w : WS) (r : CRow) : T :=
    let w := zero_a0 O (zero_v0 O w) in
    match r with
    | RContact id pt nrm => oopp O (v3dot O nrm (svlin (point_acceleration6_nk O M w id pt)))
    | RLoop idp ids Xp Xs ax _ _ =>
        let F := loop_frame M w idp Xp in
        let vA := point_velocity6_nk O M w idp (str Xp) in let vB := point_velocity6_nk O M w ids (str Xs) in
        let aA := point_acceleration6_nk O M w idp (str Xp) in let aB := point_acceleration6_nk O M w ids (str Xs) in
        let e := axis_base F ax in
        let f := crossm O vA e in
        osub O (oopp O (svdot O e (svsub O aB aA))) (svdot O f (svsub O vB vA))
    end.
  Definition baumgarte (r : CRow) (err errd : T) : T :=
    match r with
    | RLoop _ _ _ _ _ true ts =>
        let k := odiv O t1 ts in
        osub O (oopp O (omul O (omul O (o2 O) k) errd)) (omul O (omul O k k) err)
    | _ => t0
    end.

  Record CSys := mkCSys { cH : Mat (T:=T); cC : list T; cG : Mat (T:=T); cgamma : list T; cerr : list T; cerrd : list T }.

  (* CalcConstrainedSystemVariables *)
  Definition calc_constrained_system_variables (M : Model) (w : WS) (q qd : list T) (cs : CSet)
             (upd_kin : bool) (fext : option (list SV)) : WS * CSys :=
    let n := dof_count M in
    let w := if upd_kin then ukc_q O M w q else w in
    let '(w, C) := nonlinear_effects O M w q qd (vzeros t0 n) fext in
    let '(w, H) := crba O M w q (zerosM n n) false in
    let G := cons_G M w cs in
    let err := map (cons_row_err M w) cs in
    let errd := map (fun kr => cons_row_errd M w qd G (fst kr) (snd kr)) (combine (iota 0 (length cs)) cs) in
    let w := zero_v0 O w in
    let w := ukc_qdd O M w (vzeros t0 n) in
    let gam := map (cons_row_gamma M w) cs in
    let gam := map (fun p => oadd O (fst (fst p)) (baumgarte (snd p) (fst (snd (fst p))) (snd (snd (fst p)))))
                   (combine (combine gam (combine err errd)) cs) in
    ((match cs with [] => w | _ => zero_a0 O w end), mkCSys H C G gam err errd).

  (* KKT matrix [H G^T; G 0] and its solution *)
  Definition kkt_matrix (H G : Mat (T:=T)) (n m : nat) : Mat (T:=T) :=
    let GT := mTn O G n in
    map (fun p => fst p ++ snd p) (combine H GT) ++ map (fun r => r ++ vzeros t0 m) G.
  Definition kkt_solve (H G : Mat (T:=T)) (c gam : list T) (n m : nat) : option (list T * list T) :=
    match solve_pp O (kkt_matrix H G n m) (c ++ gam) with
    | Some x => Some (vslice t0 x 0 n, vslice t0 x n m)
    | None => None
    end.

  (* ForwardDynamicsConstraints{Direct,RangeSpaceSparse,NullSpace}: qddot and the constraint forces lambda
     with  H qdd + C = tau + G^T lambda,  G qdd = gamma *)
  Definition forward_dynamics_constraints (M : Model) (w : WS) (q qd tau : list T) (cs : CSet)
             (fext : option (list SV)) : WS * CSys * option (list T * list T) :=
    let '(w, Sy) := calc_constrained_system_variables M w q qd cs true fext in
    let n := dof_count M in let m := length cs in
    (w, Sy, match kkt_solve (cH Sy) (cG Sy) (vsub O tau (cC Sy)) (cgamma Sy) n m with
           | Some (qdd, x) => Some (qdd, vneg O x)
           | None => None end).

  (* ComputeConstraintImpulses*: H (qd+ - qd-) + G^T Lambda = 0, G qd+ = v+ *)
  Definition constraint_impulses (M : Model) (w : WS) (q qdm : list T) (cs : CSet) (vplus : list T)
    : WS * option (list T * list T) :=
    let n := dof_count M in let m := length cs in
    let w := ukc_q O M w q in
    let '(w, H) := crba O M w q (zerosM n n) false in
    let G := cons_G M w cs in
    (w, kkt_solve H G (mvmul O H qdm) vplus n m).
  (* ---------- constrained inverse dynamics with an actuation map (src/Constraints.cc:1846-2077) ----------
     The library eliminates block-wise (u = S qdd*, v from (G P^T) v = gamma - G S^T u, lambda from P-rows) or,
     for the relaxed operator, by a null-space method.  The model states the same operators as ONE square
     linear system in (qdd, lambda): row i of the dynamics block is either the prescription of an actuated
     acceleration or the force balance of an unactuated coordinate. *)
  Definition mask_row (act : list bool) (r : list T) : list T :=
    map (fun p : bool * T => if fst p then snd p else t0) (combine act r).
  Definition idc_rows (H G : Mat (T:=T)) (n nc : nat) (act : list bool) (relaxed : bool) : Mat (T:=T) :=
    let GT := mTn O G n in
    let w100 := onat O 100 in
    map (fun i =>
      let Hi := nth i H [] in
      if nth i act false then
        (if relaxed then vadd O Hi (vscale O w100 (mask_row act Hi)) ++ vneg O (nth i GT [])
         else unitv O n i ++ vzeros t0 nc)
      else Hi ++ vneg O (nth i GT [])) (iota 0 n)
    ++ map (fun r => r ++ vzeros t0 nc) G.
  Definition idc_rhs (H : Mat (T:=T)) (C gam qdes : list T) (n : nat) (act : list bool) (relaxed : bool) : list T :=
    let w100 := onat O 100 in
    map (fun i =>
      if nth i act false then
        (if relaxed then omul O w100 (odot O (mask_row act (nth i H [])) qdes) else vget t0 qdes i)
      else oopp O (vget t0 C i)) (iota 0 n) ++ gam.
  Definition idc_tau (H G : Mat (T:=T)) (C qdes qdd lam : list T) (n : nat) (act : list bool) (relaxed : bool) : list T :=
    let GT := mTn O G n in
    let w100 := onat O 100 in
    map (fun i =>
      if nth i act false then
        (if relaxed
         then oadd O (omul O w100 (odot O (mask_row act (nth i H [])) (vsub O qdes qdd))) (vget t0 C i)
         else osub O (oadd O (odot O (nth i H []) qdd) (vget t0 C i)) (odot O (nth i GT []) lam))
      else t0) (iota 0 n).
  Definition inverse_dynamics_constraints (M : Model) (w : WS) (q qd qdes : list T) (cs : CSet) (act : list bool)
             (relaxed : bool) (fext : option (list SV)) : WS * CSys * option (list T * list T * list T) :=
    let '(w, Sy) := calc_constrained_system_variables M w q qd cs true fext in
    let n := dof_count M in let nc := length cs in
    (w, Sy,
     match solve_pp O (idc_rows (cH Sy) (cG Sy) n nc act relaxed) (idc_rhs (cH Sy) (cC Sy) (cgamma Sy) qdes n act relaxed) with
     | Some z => let qdd := vslice t0 z 0 n in let lam := vslice t0 z n nc in
                 Some (qdd, idc_tau (cH Sy) (cG Sy) (cC Sy) qdes qdd lam n act relaxed, lam)
     | None => None
     end).
  (* G P^T: the columns of G that belong to the unactuated coordinates *)
  Definition gpt (G : Mat (T:=T)) (act : list bool) : Mat (T:=T) :=
    map (fun r => map snd (filter (fun p : bool * T => negb (fst p)) (combine act r))) G.
End Cons.
Arguments CRow : clear implicits. Arguments RContact {T}. Arguments RLoop {T}.
