(* L1 laws: transformation of rigid-body inertias (C16), heavier nsatz proofs. *)
From Coq Require Import List Bool Ring Field.
From Coq Require Import NsatzTactic.
From RV Require Import Scalar LinAlg3 Spatial Quat Tac Laws SpatialLaws.
Section S.
  Context {T : Type} (O : Ops T) {FL : FieldLaws O}.
  Add Field FlF : (@fl_field T O FL).

  Ltac rot_hyps H :=
    let c0 := fresh "c" in let c1 := fresh "c" in let c2 := fresh "c" in let c3 := fresh "c" in
    let c4 := fresh "c" in let c5 := fresh "c" in let c6 := fresh "c" in let c7 := fresh "c" in
    let c8 := fresh "c" in
    let A := fresh "A" in let B := fresh "B" in let C := fresh "C" in let D := fresh "D" in
    let F := fresh "F" in let G := fresh "G" in
    pose proof (cof_eqs_of O _ H) as (c0 & c1 & c2 & c3 & c4 & c5 & c6 & c7 & c8);
    pose proof (orth_eqs_of O _ (orth_T O _ (proj1 H))) as (A & B & C & D & F & G); clear H.

  (* X^T I X as a 6x6 product *)
  Theorem applyT_rbi_is_matrix X I : m3rot O (stE X) ->
    rbi_toMatrix O (st_applyT_rbi O X I) =
    m66mul O (st_toMatrixTranspose O X) (m66mul O (rbi_toMatrix O I) (st_toMatrix O X)).
  Proof.
    intro H. rot_hyps H.
    destruct X as [E r]; destruct E, r, I as [m h Ixx Iyx Iyy Izx Izy Izz]; destruct h. cbv_sc_all.
    ext_rec; cbv_sc; try ring; nz.
  Qed.

  (* X^* I X^{-1}, stated without an inverse:  I' X = X^* I *)
  Theorem apply_rbi_is_matrix X I : m3rot O (stE X) ->
    m66mul O (rbi_toMatrix O (st_apply_rbi O X I)) (st_toMatrix O X) =
    m66mul O (st_toMatrixAdjoint O X) (rbi_toMatrix O I).
  Proof.
    intro H. rot_hyps H.
    destruct X as [E r]; destruct E, r, I as [m h Ixx Iyx Iyy Izx Izy Izz]; destruct h. cbv_sc_all.
    ext_rec; cbv_sc; try ring; nz.
  Qed.
End S.
