(* Extraction of the executable model (L2) and specification (L3) to OCaml.
   ExtrOcamlBasic only: bool, option, unit, list, prod, sumbool map to OCaml's;
   nat, N, positive stay the extracted inductive types; no Extract Constant. *)
From Coq Require Extraction ExtrOcamlBasic.
From Coq Require Import List NArith.
From RV Require Import Scalar LinAlg3 Spatial Quat ListArr ModelDef JointDef KinDef LinDef DynDef UtilDef ConsDef IkDef BezDef LuaDef JetDef SpecDef BalDef.
Extraction Language OCaml.
Extraction "model.ml"
  mkOps onat oabs
  model0 add_body append_body set_params set_gravity set_ws get_body_id get_body_name is_fixed_id is_body_id
  get_parent_body_id get_joint_frame body_join body_separate
  jcalc jcalc_X_lambda_S jS
  update_kinematics update_kinematics_custom calc_b2b calc_base2b calc_orient calc_point_jacobian
  calc_point_jacobian6 calc_body_spatial_jacobian calc_point_velocity calc_point_velocity6
  calc_point_acceleration calc_point_acceleration6
  inverse_dynamics nonlinear_effects order_ok crba forward_dynamics forward_dynamics_lagrangian minv_times_tau
  gauss_elim_pivot solve_pp minverse sparse_factorize_ltl sparse_solve_lx sparse_solve_ltx
  mvmul mTn mmmul mzeros vzeros mident
  calc_center_of_mass calc_zmp calc_potential_energy calc_kinetic_energy
  jet_ops spec0 spec_add spec_set poses point_of kstates k_point k_vel k_acc tau_np whole_body spec_union energy_rate spec_phi_jets cons_G cons_row_err calc_constrained_system_variables forward_dynamics_constraints constraint_impulses kkt_solve kkt_matrix inverse_dynamics_constraints idc_rows gpt lua_parent bez_val bez_du bez_dydx corner_cp corner_ok calc_u ssf_value ssf_deriv ssf_shift ssf_scale ik1 ik2 ik1_rows ik2_rows madd mscale assembly_q assembly_qdot apply_delta cons_row_errd ukc_qd mTvmul b2b world_orient ukc_q fpe_state fpe_solve fpe_iters
  rbi_toMatrix m66list st_apply st_applyT st_applyAdj st_inv st_mul st_apply_rbi st_applyT_rbi rbi_mulv
  crossm crossf qmul qtoMatrix qrotate qomegaToQDot qfromMatrix_hdr qfromMatrix qconj Xrot
  st_toMatrix st_toMatrixAdjoint st_toMatrixTranspose rbi_from_mci rbi_fromMatrix rbi_add m66mul m66v.
