(* C06 velocities and accelerations.  Proved: the velocity pass leaves in v[i] the recursion
   v_i = X_i v_parent + S_i qd_i (v of a base-attached body = its joint velocity) for every tree, joint kind and
   incoming workspace; the full update and the selective update leave identical body velocities; the 6-D point
   velocity is a function of model, state and point only; the full update leaves the velocity-product terms
   c_i = c_J,i + v_i x v_J,i and the accelerations a_i = X_i a_parent + c_i + S_i qdd_i (a_0 = 0).  That these are the time derivatives of the pose is
   decided by the L3 oracle (2-jets of the pose composed from the construction calls). *)
From Coq Require Import List NArith.
From RV Require Import Scalar LinAlg3 Spatial Quat Laws ListArr ModelDef JointDef KinDef C14Thm WsLemmas KinThm KinThm2 DynThm KinThm3.
Section P.
  Context {T : Type} (O : Ops T) {FL : FieldLaws O}.
  Theorem C06_velocity_pass_recursion (M : @Model T) (w : @WS T) q qd : WF M -> Good O M w ->
    let w' := ukc_qd O M w q qd in
    Good O M w' /\ wXb w' = wXb w /\ forall i, 0 < i < nbodies M -> gv O w' i = vF O M q qd i.
  Proof. exact (ukc_qd_spec O M w q qd). Qed.
  Theorem C06_velocity_recursion_unfolded (M : @Model T) q qd i : WF M -> 0 < i < nbodies M ->
    vF O M q qd i = if Nat.eqb (getlam M i) 0 then vJF O M q qd i
                    else svadd O (st_apply O (XlF O M q i) (vF O M q qd (getlam M i))) (vJF O M q qd i).
  Proof. exact (vF_unfold O M q qd i). Qed.
  Theorem C06_full_update_velocities (M : @Model T) (w : @WS T) q qd qdd : WF M -> Good O M w ->
    let w' := update_kinematics O M w q qd qdd in
    Good O M w' /\ forall i, 0 < i < nbodies M -> gv O w' i = vF O M q qd i.
  Proof. exact (uk_v_spec O M w q qd qdd). Qed.
  Theorem C06_full_and_selective_update_agree (M : @Model T) (w1 w2 : @WS T) q qd qdd i : WF M ->
    Good O M w1 -> Good O M w2 -> 0 < i < nbodies M ->
    gv O (update_kinematics O M w1 q qd qdd) i = gv O (update_kinematics_custom O M w2 (Some q) (Some qd) None) i.
  Proof. exact (uk_ukc_same_velocities O M w1 w2 q qd qdd i). Qed.
  Theorem C06_point_velocity_function_of_state (M : @Model T) (w1 w2 : @WS T) q qd (id : N) pt : WF M ->
    Good O M w1 -> Good O M w2 -> (id < fixed_disc)%N -> 0 < N.to_nat id < nbodies M ->
    snd (calc_point_velocity6 O M w1 q qd id pt true) = snd (calc_point_velocity6 O M w2 q qd id pt true).
  Proof. exact (point_velocity_ws_independent O M w1 w2 q qd id pt). Qed.
  Theorem C06_full_update_accelerations (M : @Model T) (w : @WS T) q qd qdd : WF M ->
    (forall i j, 0 < i < nbodies M -> 0 < j < nbodies M -> i <> j ->
       is_custom (jkind (getJ M i)) = true -> is_custom (jkind (getJ M j)) = true -> jcust (getJ M i) <> jcust (getJ M j)) ->
    Good O M w ->
    let w' := update_kinematics O M w q qd qdd in
    forall i, 0 < i < nbodies M ->
      gv O w' i = vF O M q qd i /\ gc O w' i = cU O M q qd i /\ ga O w' i = aU O M q qd qdd i /\ gXb O w' i = XbF O M q i /\
      gXl O w' i = XlF O M q i.
  Proof. intros W C. exact (uk_a_spec O M q qd qdd W C w). Qed.
  Theorem C06_acceleration_recursion_unfolded (M : @Model T) q qd qdd i : WF M -> 0 < i < nbodies M ->
    aU O M q qd qdd i = svadd O (svadd O (st_apply O (XlF O M q i) (aU O M q qd qdd (getlam M i))) (cU O M q qd i))
                                (cols_mulv O (SF O M q i) (qdd_seg O M i qdd)).
  Proof. intros W. exact (aU_unfold O M q qd qdd W i). Qed.
  Theorem C06_point_acceleration_function_of_state (M : @Model T) (w1 w2 : @WS T) q qd qdd (id : N) pt : WF M ->
    (forall i j, 0 < i < nbodies M -> 0 < j < nbodies M -> i <> j ->
       is_custom (jkind (getJ M i)) = true -> is_custom (jkind (getJ M j)) = true -> jcust (getJ M i) <> jcust (getJ M j)) ->
    Good O M w1 -> Good O M w2 -> (id < fixed_disc)%N -> 0 < N.to_nat id < nbodies M ->
    snd (calc_point_acceleration6 O M w1 q qd qdd id pt true) = snd (calc_point_acceleration6 O M w2 q qd qdd id pt true).
  Proof. intros W C. exact (point_acceleration_ws_independent O M q qd qdd W C w1 w2 id pt). Qed.
End P.
Print Assumptions C06_velocity_pass_recursion. Print Assumptions C06_velocity_recursion_unfolded.
Print Assumptions C06_full_update_velocities. Print Assumptions C06_full_and_selective_update_agree.
Print Assumptions C06_point_velocity_function_of_state.
Print Assumptions C06_full_update_accelerations. Print Assumptions C06_acceleration_recursion_unfolded.
Print Assumptions C06_point_acceleration_function_of_state.
