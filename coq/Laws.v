(* The algebraic premises of the theorems, bundled as type classes over an
   operation dictionary.  They are *hypotheses* of every theorem that uses
   them (Section Context), never axioms: a theorem `forall T O, FieldLaws O -> ...`
   is instantiated at R (Inst_R.v) and Qc (Inst_Qc.v) with proved instances. *)
From Coq Require Import List Bool Ring Field.
From Coq Require Import NsatzTactic Ncring Cring Integral_domain.
From RV Require Import Scalar.

Class FieldLaws {T : Type} (O : Ops T) : Prop := {
  fl_field : field_theory (o0 O) (o1 O) (oadd O) (omul O) (osub O) (oopp O) (odiv O) (oinv O) eq;
  fl_eqdec : forall x y : T, x = y \/ x <> y;
  fl_char0 : forall n : nat, onat O (S n) <> o0 O
}.
Class TrigLaws {T : Type} (O : Ops T) : Prop := {
  tl_cs : forall x : T, oadd O (omul O (ocos O x) (ocos O x)) (omul O (osin O x) (osin O x)) = o1 O
}.

Section Derive.
  Context {T : Type} (O : Ops T) {FL : FieldLaws O}.
  Definition fl_ring : ring_theory (o0 O) (o1 O) (oadd O) (omul O) (osub O) (oopp O) eq := F_R fl_field.
  Add Field FlF : fl_field.

  Ltac unf := cbv -[o0 o1 oadd omul osub oopp odiv oinv].
  Ltac unfin H := cbv -[o0 o1 oadd omul osub oopp odiv oinv] in H.
  Section Inst.
  Context (Rops : @Ring_ops T (o0 O) (o1 O) (oadd O) (omul O) (osub O) (oopp O) eq).
  Lemma fl_Ring : @Ring T (o0 O) (o1 O) (oadd O) (omul O) (osub O) (oopp O) eq Rops.
  Proof.
    constructor; try (intros; unf; ring).
    - exact eq_equivalence.
    - intros a b Hab c d Hcd; cbv in Hab, Hcd; subst; reflexivity.
    - intros a b Hab c d Hcd; cbv in Hab, Hcd; subst; reflexivity.
    - intros a b Hab c d Hcd; cbv in Hab, Hcd; subst; reflexivity.
    - intros a b Hab; cbv in Hab; subst; reflexivity.
  Qed.
  Context (Rri : @Ring T (o0 O) (o1 O) (oadd O) (omul O) (osub O) (oopp O) eq Rops).
  Lemma fl_Cring : @Cring T (o0 O) (o1 O) (oadd O) (omul O) (osub O) (oopp O) eq Rops Rri.
  Proof. intros x y; unf; ring. Qed.
  Context (Rcr : @Cring T (o0 O) (o1 O) (oadd O) (omul O) (osub O) (oopp O) eq Rops Rri).
  Lemma fl_ID : @Integral_domain T (o0 O) (o1 O) (oadd O) (omul O) (osub O) (oopp O) eq Rops Rri Rcr.
  Proof.
    constructor.
    - intros x y H. unf. unfin H.
      destruct (fl_eqdec x (o0 O)) as [e|ne]; [left; exact e|right].
      transitivity (omul O (oinv O x) (omul O x y)).
      + rewrite (ARmul_assoc (Rth_ARth eq_equivalence (Eq_ext _ _ _) fl_ring)).
        rewrite (Finv_l fl_field _ ne). ring.
      + rewrite H. ring.
    - unf.
      exact (F_1_neq_0 fl_field).
  Qed.
  End Inst.

  Lemma mul_neq0 x y : x <> o0 O -> y <> o0 O -> omul O x y <> o0 O.
  Proof.
    intros Hx Hy H. apply Hy.
    transitivity (omul O (oinv O x) (omul O x y)).
    - field. exact Hx.
    - rewrite H. ring.
  Qed.
  Lemma o2_neq0 : o2 O <> o0 O.
  Proof. exact (fl_char0 1). Qed.


End Derive.

(* nsatz over a FieldLaws dictionary.  The stock tactic collects equalities
   from the most recent hypothesis upwards and stops at the first hypothesis
   that is an application but not an equality, and it needs the four class
   instances as local hypotheses; so pose them and move them to the top. *)
Ltac nz :=
  match goal with
  | FL : @FieldLaws ?T ?O |- _ =>
    let a := fresh "Rops" in let b := fresh "Rri" in let c := fresh "Rcr" in let d := fresh "Rid" in
    pose proof (@Build_Ring_ops T (o0 O) (o1 O) (oadd O) (omul O) (osub O) (oopp O) eq) as a;
    pose proof (@fl_Ring T O FL a) as b;
    pose proof (@fl_Cring T O FL a b) as c; pose proof (@fl_ID T O FL a b c) as d;
    move d at top; move c at top; move b at top; move a at top;
    nsatz
  end.
