(* C01 Inverse dynamics equals first-principles Newton-Euler mechanics (spatial / virtual-power form). *)
From Coq Require Import List NArith.
From RV Require Import Scalar LinAlg3 Spatial Quat Laws ListArr ModelDef JointDef KinDef LinDef DynDef C14Thm WsLemmas KinThm Tree VPower DynThm.
Section P.
  Context {T : Type} (O : Ops T) {FL : FieldLaws O}.
  Variable M : @Model T.
  Variables q qd qdd : list T.
  Hypothesis W : WF M.
  Hypothesis cust_inj : forall i j, 0 < i < nbodies M -> 0 < j < nbodies M -> i <> j ->
    is_custom (jkind (getJ M i)) = true -> is_custom (jkind (getJ M j)) = true -> jcust (getJ M i) <> jcust (getJ M j).
  (* The outward pass: for ANY workspace satisfying the construction invariant, after it every body carries
     v_i = X_i v_parent + S_i qd_i, a_i = X_i a_parent + c_i + S_i qdd_i (a_0 = -g) and the net force
     f_i = I_i a_i + v_i x* I_i v_i (zero for virtual bodies), X_i and S_i being the declared joint
     transform / motion subspace (C04). *)
  Theorem C01_outward_pass (w : @WS T) : Good O M w ->
    InvF O M q qd qdd (fold_left (id_fwd_step O M q qd qdd) (body_range M) (id_init O M w)) (nbodies M).
  Proof. exact (id_forward_spec O M q qd qdd W cust_inj w). Qed.
  (* Every joint's generalized force is S_i^T Y_i, where the subtree force Y_i is the net force of body i
     plus the subtree forces of its children transformed to body i (all joint arities, incl. custom). *)
  Theorem C01_joint_force_is_projected_subtree_force (w : @WS T) tau0 : Good O M w -> dof_count M <= length tau0 ->
    let '(w', tau) := inverse_dynamics O M w q qd qdd tau0 None in
    let Y i := nth i (wf w') (svzero O) in
    (forall i, 0 < i < nbodies M -> Y i = svadd O (fI O M q qd qdd i)
         (csum (SV T) (svadd O) (svzero O) (getlam M) (fun c => XT O M q c (Y c)) i 1 (nbodies M - 1))) /\
    (forall i, 0 < i < nbodies M -> vslice (o0 O) tau (jq (getJ M i)) (jdof (getJ M i)) = cols_Tmul O (SF O M q i) (Y i)).
  Proof. exact (id_structure O M q qd qdd W cust_inj w tau0). Qed.
  (* d'Alembert's principle in virtual-power form: for EVERY virtual joint velocity qd' the power of the returned
     generalized forces equals the power of the per-body net forces on the body velocities that qd' produces
     (v' is the same velocity recursion that UpdateKinematics computes, C06). *)
  Theorem C01_dAlembert_virtual_power (w : @WS T) tau0 (qd' : list T) : Good O M w -> dof_count M <= length tau0 ->
    let '(w', tau) := inverse_dynamics O M w q qd qdd tau0 None in
    ksum T (o0 O) (oadd O) (fun i => odot O (qd_seg O M i qd') (vslice (o0 O) tau (jq (getJ M i)) (jdof (getJ M i)))) 1 (nbodies M - 1) =
    ksum T (o0 O) (oadd O) (fun j => svdot O (vI O M q qd' j) (fI O M q qd qdd j)) 1 (nbodies M - 1).
  Proof. exact (id_virtual_power O M q qd qdd W cust_inj w tau0 qd'). Qed.
End P.
Print Assumptions C01_outward_pass. Print Assumptions C01_joint_force_is_projected_subtree_force.
Print Assumptions C01_dAlembert_virtual_power.
