(* C12: the zero-moment point formula. *)
From Coq Require Import List Ring Field.
From RV Require Import Scalar LinAlg3 Spatial Laws Tac ListArr ModelDef UtilDef.
Section UtilThm.
  Context {T : Type} (O : Ops T) {FL : FieldLaws O}.
  Add Field FlFutil : (@fl_field T O FL).
  Local Notation V3 := (V3 T).
  (* the returned point lies on the plane through `point` with normal `normal` ... *)
  Lemma zmp_on_plane (normal point n0 f : V3) : v3dot O normal f <> o0 O ->
    v3dot O normal (v3sub O (zmp_point O normal point n0 f) point) = o0 O.
  Proof.
    destruct normal as [nx ny nz], point as [px py pz], n0 as [ax ay az], f as [fx fy fz].
    unfold zmp_point, v3dot, v3sub, v3add, v3cross, v3scale. cbn. intros H. field. exact H.
  Qed.
  (* ... and the moment of the wrench about it, n0 - z x f, is parallel to the normal (no tangential moment) *)
  Lemma zmp_no_tangential_moment (normal point n0 f : V3) : v3dot O normal f <> o0 O ->
    v3cross O normal (v3sub O n0 (v3cross O (zmp_point O normal point n0 f) f)) = v3zero O.
  Proof.
    destruct normal as [nx ny nz], point as [px py pz], n0 as [ax ay az], f as [fx fy fz].
    unfold zmp_point, v3dot, v3sub, v3add, v3cross, v3scale, v3zero. cbn. intros H.
    f_equal; field; exact H.
  Qed.
  (* it is the only such point when normal.f <> 0 *)
  Lemma zmp_unique (normal point n0 f z : V3) : v3dot O normal f <> o0 O ->
    v3dot O normal (v3sub O z point) = o0 O ->
    v3cross O normal (v3sub O n0 (v3cross O z f)) = v3zero O ->
    z = zmp_point O normal point n0 f.
  Proof.
    destruct normal as [nx ny nz], point as [px py pz], n0 as [ax ay az], f as [fx fy fz], z as [zx zy zz].
    unfold zmp_point, v3dot, v3sub, v3add, v3cross, v3scale, v3zero. cbn. intros H Hp Hm.
    injection Hm as M1 M2 M3.
    set (nf := oadd O (oadd O (omul O nx fx) (omul O ny fy)) (omul O nz fz)) in *.
    assert (E1 : omul O zx nf = oadd O (osub O (omul O ny az) (omul O nz ay)) (omul O (oadd O (oadd O (omul O nx px) (omul O ny py)) (omul O nz pz)) fx)) by (unfold nf; nz).
    assert (E2 : omul O zy nf = oadd O (osub O (omul O nz ax) (omul O nx az)) (omul O (oadd O (oadd O (omul O nx px) (omul O ny py)) (omul O nz pz)) fy)) by (unfold nf; nz).
    assert (E3 : omul O zz nf = oadd O (osub O (omul O nx ay) (omul O ny ax)) (omul O (oadd O (oadd O (omul O nx px) (omul O ny py)) (omul O nz pz)) fz)) by (unfold nf; nz).
    f_equal.
    - rewrite <- E1. field. exact H.
    - rewrite <- E2. field. exact H.
    - rewrite <- E3. field. exact H.
  Qed.
End UtilThm.
