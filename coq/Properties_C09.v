(* C09 constraint error terms.  What is proved here is what the reported quantities are; that G qdot is the
   time derivative of the position error and gamma = -(dG/dt) qdot is decided by the L3 oracle (2-jets of the
   error function), with the open findings D8a / D8b (known_findings.txt). *)
From Coq Require Import List.
From RV Require Import Scalar Laws LinAlg3 Spatial ListArr LinDef ModelDef KinDef DynDef ConsDef ConsThm.
Import ListNotations.
Section P.
  Context {T : Type} (O : Ops T) {FL : FieldLaws O}.
  Theorem C09_contact_position_error_zero (M : @Model T) (w : @WS T) id pt nrm :
    cons_row_err O M w (RContact id pt nrm) = o0 O.
  Proof. exact (contact_err_zero O M w id pt nrm). Qed.
  Theorem C09_contact_velocity_error_is_normal_velocity (M : @Model T) (w : @WS T) qd G k id pt nrm :
    cons_row_errd O M w qd G k (RContact id pt nrm) = v3dot O (svlin (point_velocity6_nk O M (zero_v0 O w) id pt)) nrm.
  Proof. exact (contact_errd_normal_velocity O M w qd G k id pt nrm). Qed.
  Theorem C09_loop_velocity_error_is_G_qdot (M : @Model T) (w : @WS T) qd G k idp ids Xp Xs ax bm ts :
    cons_row_errd O M w qd G k (RLoop idp ids Xp Xs ax bm ts) = odot O (nth k G []) qd.
  Proof. exact (loop_errd_is_G_qd O M w qd G k idp ids Xp Xs ax bm ts). Qed.
  (* sine-scaled relative rotation: a relative rotation by an angle about a reports sin(angle) * a *)
  Theorem C09_rotation_error_sine_scaled (s c : T) (a : V3 T) :
    rot_err O (m3T (rot_axis O s c a)) = v3scale O s a.
  Proof. exact (rot_err_axis_angle O s c a). Qed.
  Theorem C09_rotation_error_zero_when_aligned : rot_err O (m3id O) = v3zero O.
  Proof. exact (rot_err_identity O). Qed.
  Theorem C09_baumgarte_term idp ids Xp Xs ax ts err errd : ts <> o0 O ->
    baumgarte O (RLoop idp ids Xp Xs ax true ts) err errd =
    osub O (oopp O (omul O (omul O (o2 O) (oinv O ts)) errd)) (omul O (omul O (oinv O ts) (oinv O ts)) err).
  Proof. exact (baumgarte_term O idp ids Xp Xs ax ts err errd). Qed.
End P.
Print Assumptions C09_contact_position_error_zero.
Print Assumptions C09_contact_velocity_error_is_normal_velocity.
Print Assumptions C09_loop_velocity_error_is_G_qdot.
Print Assumptions C09_rotation_error_sine_scaled.
Print Assumptions C09_rotation_error_zero_when_aligned.
Print Assumptions C09_baumgarte_term.
