(* L2: the rbdl Model (parameters + explicit workspace) and its construction
   state machine: Model(), AddBody (fixed / specialised / 1-DoF / emulated /
   floating base / custom), AppendBody, the id/name accessors, the inertial
   setters, Body::Join / Body::Separate.   Anchors: src/Model.cc,
   include/rbdl/Model.h, include/rbdl/Joint.h, include/rbdl/Body.h. *)
From Coq Require Import List Bool Arith NArith.
From RV Require Import Scalar LinAlg3 Spatial Quat ListArr.
Import ListNotations.

(* harness custom joints (re-implementations through the CustomJoint interface) *)
Inductive CKind := CRevX | CEulerZYX | CRzTx.
Definition cdof (c : CKind) : nat := match c with CRevX => 1 | CEulerZYX => 3 | CRzTx => 2 end.

Inductive JKind :=
| JRoot | JRevolute | JPrismatic | JRevX | JRevY | JRevZ | JSpherical
| JEulerZYX | JEulerXYZ | JEulerYXZ | JEulerZXY | JTransXYZ | JHelical | JCustom (c : CKind).

Definition jkind_eqb (a b : JKind) : bool :=
  match a, b with
  | JRoot, JRoot | JRevolute, JRevolute | JPrismatic, JPrismatic | JRevX, JRevX | JRevY, JRevY
  | JRevZ, JRevZ | JSpherical, JSpherical | JEulerZYX, JEulerZYX | JEulerXYZ, JEulerXYZ
  | JEulerYXZ, JEulerYXZ | JEulerZXY, JEulerZXY | JTransXYZ, JTransXYZ | JHelical, JHelical => true
  | JCustom _, JCustom _ => true      (* one JointType value for all custom joints *)
  | _, _ => false
  end.
Definition is_custom (k : JKind) : bool := match k with JCustom _ => true | _ => false end.

Definition fixed_disc : N := 2147483647%N.          (* UINT_MAX / 2 *)
Definition uint_max : N := 4294967295%N.

Section Def.
  Context {T : Type} (O : Ops T).
  Local Notation t0 := (o0 O). Local Notation t1 := (o1 O).
  Local Infix "+" := (oadd O). Local Infix "*" := (omul O). Local Infix "-" := (osub O).
  Local Infix "/" := (odiv O).
  Local Notation SV := (SV T). Local Notation ST := (ST T). Local Notation RBI := (RBI T).
  Local Notation M66 := (M66 T). Local Notation V3 := (V3 T). Local Notation M3 := (M3 T).

  (* ---------- bodies ---------- *)
  Record Body := mkBody { bmass : T; bcom : V3; binertia : M3; bvirtual : bool }.
  Record FixedBody := mkFB { fmass : T; fcom : V3; finertia : M3; fparent : nat; fxf : ST }.
  Definition fb_to_body (f : FixedBody) : Body := mkBody (fmass f) (fcom f) (finertia f) false.
  Definition body_rbi (b : Body) : RBI := rbi_from_mci O (bmass b) (bcom b) (binertia b).

  Definition m3_is_zero (m : M3) : bool := forallb (fun x => oeqb O x t0) (m3list m).
  Definition v3_is_zero (v : V3) : bool := forallb (fun x => oeqb O x t0) (v3list v).
  Definition sv_eqb (a b : SV) : bool :=
    forallb (fun p => oeqb O (fst p) (snd p)) (combine (svlist a) (svlist b)).

  (* Body::TransformInertiaToBodyFrame *)
  Definition transform_inertia_to_body_frame (X : ST) (b : Body) : M3 :=
    let initial_com := v3add O (m3Tv O (stE X) (bcom b)) (str X) in
    let inertia_initial := rbi_I (body_rbi b) in
    let cx := v3crossm O (bcom b) in
    let inertia_initial_com := m3sub O inertia_initial (m3mul O (m3scale O (bmass b) cx) (m3T cx)) in
    let rotated := m3mul O (m3mul O (m3T (stE X)) inertia_initial_com) (stE X) in
    let ic := v3crossm O initial_com in
    m3add O rotated (m3mul O (m3scale O (bmass b) ic) (m3T ic)).

  (* Body::Join / Body::Separate: None = the library throws *)
  Definition body_combine (sub : bool) (this : Body) (X : ST) (other : Body) : option Body :=
    if oeqb O (bmass other) t0 && m3_is_zero (binertia other) then Some this
    else
      let om := bmass other in
      let nm := if sub then bmass this - om else bmass this + om in
      if oeqb O nm t0 then
        (if sub then Some (mkBody t0 (v3zero O)
                             (m3sub O (rbi_I (body_rbi this)) (transform_inertia_to_body_frame X other)) false)
         else None)
      else
        let ocom := v3add O (m3Tv O (stE X) (bcom other)) (str X) in
        let wsum := if sub then v3sub O (v3scale O (bmass this) (bcom this)) (v3scale O om ocom)
                    else v3add O (v3scale O (bmass this) (bcom this)) (v3scale O om ocom) in
        let ncom := v3scale O (t1 / nm) wsum in
        let thisI := rbi_I (body_rbi this) in
        let oI := transform_inertia_to_body_frame X other in
        let isum := if sub then m3sub O thisI oI else m3add O thisI oI in
        let nx := v3crossm O ncom in
        Some (mkBody nm ncom (m3sub O isum (m3mul O (m3scale O nm nx) (m3T nx))) false).
  Definition body_join := body_combine false.
  Definition body_separate := body_combine true.

  (* ---------- joints ---------- *)
  Record Joint := mkJoint { jkind : JKind; jaxes : list SV; jdof : nat; jq : nat; jcust : nat }.
  Definition ax (a b c d e f : T) : SV := mkSV a b c d e f.
  Definition root_joint : Joint := mkJoint JRoot [] 0 0 0.

  (* what the caller passes to AddBody *)
  Inductive JSpec :=
  | SFixed | SRevX | SRevY | SRevZ | SRev (a : V3) | SPris (a : V3) | SAxis (a : SV)
  | SSph | SEZYX | SEXYZ | SEYXZ | SEZXY | STXYZ | SFloat
  | SEmu (axes : list SV) | SCustom (c : CKind) | SBad.

  (* Joint(const SpatialVector&) classification *)
  Definition classify_axis (a : SV) : Joint :=
    let k := if sv_eqb a (ax t1 t0 t0 t0 t0 t0) then JRevX
             else if sv_eqb a (ax t0 t1 t0 t0 t0 t0) then JRevY
             else if sv_eqb a (ax t0 t0 t1 t0 t0 t0) then JRevZ
             else if oeqb O (s0 a) t0 && oeqb O (s1 a) t0 && oeqb O (s2 a) t0 then JPrismatic
             else JHelical in
    mkJoint k [a] 1 0 0.

  Definition joint3 (k : JKind) (a b c : SV) : Joint := mkJoint k [a; b; c] 3 0 0.
  Definition ex := ax t1 t0 t0 t0 t0 t0. Definition ey := ax t0 t1 t0 t0 t0 t0. Definition ez := ax t0 t0 t1 t0 t0 t0.
  Definition tx := ax t0 t0 t0 t1 t0 t0. Definition ty := ax t0 t0 t0 t0 t1 t0. Definition tz := ax t0 t0 t0 t0 t0 t1.

  (* ---------- workspace ---------- *)
  Definition M63 := list SV.                      (* columns *)
  Definition m63zero : M63 := [svzero O; svzero O; svzero O].
  Record WS := mkWS {
    wXl : list ST; wXb : list ST;
    wv : list SV; wa : list SV; wc : list SV; wvJ : list SV; wcJ : list SV; wS : list SV;
    wf : list SV; wpA : list SV; wU : list SV;
    wmS : list M63; wmU : list M63; wmDinv : list M3; wmu : list V3;
    wIc : list RBI; wIA : list M66; wd : list T; wu : list T;
    wcS : list (list SV); wcU : list (list SV); wcDinv : list (list (list T)); wcu : list (list T)
  }.

  Record Model := mkModel {
    lambda : list nat; lambda_q : list nat; mu : list (list nat);
    dof_count : nat; q_size : nat; qdot_size : nat; prev_id : N;
    gravity : V3; joints : list Joint; X_T : list ST; w_index : list nat;
    mI : list RBI; bodies : list Body; fixedb : list FixedBody;
    names : list (N * N); customs : list CKind; update_order : list nat;
    ws : WS
  }.

  Definition nbodies (M : Model) : nat := length (bodies M).
  Definition dbody : Body := mkBody t0 (v3zero O) (m3zero O) false.
  Definition dfixed : FixedBody := mkFB t0 (v3zero O) (m3zero O) 0 (stid O).
  Definition getJ (M : Model) (i : nat) : Joint := nth i (joints M) root_joint.
  Definition getXT (M : Model) (i : nat) : ST := nth i (X_T M) (stid O).
  Definition getI (M : Model) (i : nat) : RBI := nth i (mI M) (rbi_zero O).
  Definition getlam (M : Model) (i : nat) : nat := nth i (lambda M) 0.
  Definition getbody (M : Model) (i : nat) : Body := nth i (bodies M) dbody.
  Definition getfixed (M : Model) (i : nat) : FixedBody := nth i (fixedb M) dfixed.

  Definition ws0 : WS :=
    mkWS [stid O] [stid O] [svzero O] [svzero O] [svzero O] [svzero O] [svzero O] [svzero O]
         [svzero O] [svzero O] [svzero O] [m63zero] [m63zero] [m3zero O] [v3zero O]
         [rbi_zero O] [m66id O] [t0] [t0] [] [] [] [].

  Definition model0 : Model :=
    mkModel [0] [0] [[]] 0 0 0 0%N (mkV3 t0 (oopp O (odiv O (onat O 981) (onat O 100))) t0)
            [root_joint] [stid O] [0] [rbi_zero O] [mkBody t0 (v3zero O) (m3zero O) false] []
            [(1%N, 0%N)] [] [] ws0.       (* name 1 stands for "ROOT"; name 0 = unnamed *)

  (* ---------- id predicates and accessors ---------- *)
  Definition is_fixed_id (M : Model) (id : N) : bool :=
    (N.leb fixed_disc id && N.ltb id uint_max && N.ltb (id - fixed_disc) (N.of_nat (length (fixedb M))))%bool.
  Definition is_body_id (M : Model) (id : N) : bool :=
    ((N.ltb 0 id && N.ltb id (N.of_nat (nbodies M))) || is_fixed_id M id)%bool.
  Definition fidx (id : N) : nat := N.to_nat (id - fixed_disc).
  Definition name_lookup (M : Model) (nm : N) : option N :=
    match find (fun p => N.eqb (fst p) nm) (names M) with Some p => Some (snd p) | None => None end.
  Definition get_body_id (M : Model) (nm : N) : N :=
    match name_lookup M nm with Some id => id | None => uint_max end.
  Definition get_body_name (M : Model) (id : N) : option N :=
    match find (fun p => N.eqb (snd p) id) (names M) with Some p => Some (fst p) | None => None end.
  (* walk up over virtual bodies (bounded by the number of bodies) *)
  Fixpoint skip_virtual (M : Model) (fuel child parent : nat) : nat * nat :=
    match fuel with
    | 0 => (child, parent)
    | S k => if bvirtual (getbody M parent) then skip_virtual M k parent (getlam M parent)
             else (child, parent)
    end.
  Definition get_parent_body_id (M : Model) (id : N) : N :=
    if N.leb fixed_disc id then N.of_nat (fparent (getfixed M (fidx id)))
    else let i := N.to_nat id in
         N.of_nat (snd (skip_virtual M (nbodies M) i (getlam M i))).
  Definition get_joint_frame (M : Model) (id : N) : ST :=
    if N.leb fixed_disc id then fxf (getfixed M (fidx id))
    else let i := N.to_nat id in
         getXT M (fst (skip_virtual M (nbodies M) i (getlam M i))).

  (* ---------- AddBody ---------- *)
  Inductive Res := ROk (id : N) | RRejected.

  Definition name_taken (M : Model) (nm : N) : bool :=
    (negb (N.eqb nm 0) && match name_lookup M nm with Some _ => true | None => false end)%bool.
  Definition add_name (M : Model) (nm id : N) : list (N * N) :=
    if N.eqb nm 0 then names M else names M ++ [(nm, id)].

  Definition ws_push (w : WS) (axis0 : SV) (rbi : RBI) (n : nat) : WS :=
    mkWS (wXl w ++ [stid O]) (wXb w ++ [stid O])
         (wv w ++ [svzero O]) (wa w ++ [svzero O]) (wc w ++ [svzero O])
         (wvJ w ++ [axis0]) (wcJ w ++ [svzero O]) (wS w ++ [axis0])
         (wf w ++ [svzero O]) (wpA w ++ [svzero O]) (wU w ++ [svzero O])
         (wmS w ++ [m63zero]) (wmU w ++ [m63zero]) (wmDinv w ++ [m3zero O]) (wmu w ++ [v3zero O])
         (wIc w ++ [rbi]) (wIA w ++ [m66zero O]) (vzeros t0 n) (vzeros t0 n)
         (wcS w) (wcU w) (wcDinv w) (wcu w).

  (* spherical joints keep their w components after all other coordinates *)
  Fixpoint renumber_w (js : list Joint) (dof cnt : nat) : list nat :=
    match js with
    | [] => []
    | j :: t => match jkind j with
                | JSpherical => (Nat.add dof cnt) :: renumber_w t dof (S cnt)
                | _ => 0 :: renumber_w t dof cnt
                end
    end.
  Definition count_sph (js : list Joint) : nat :=
    length (filter (fun j => match jkind j with JSpherical => true | _ => false end) js).

  (* mJointUpdateOrder: indices grouped by joint type in order of first appearance *)
  Fixpoint group_order (fuel : nat) (l : list (JKind * nat)) : list nat :=
    match fuel, l with
    | S k, (t, _) :: _ =>
        map snd (filter (fun p => jkind_eqb (fst p) t) l)
        ++ group_order k (filter (fun p => negb (jkind_eqb (fst p) t)) l)
    | _, _ => []
    end.

  (* the movable-joint path of Model::AddBody (joint already resolved) *)
  Definition add_movable (M : Model) (parent : N) (X : ST) (j : Joint) (b : Body) (nm : N)
    : Model * Res :=
    if name_taken M nm then (M, RRejected) else
    let '(mp, mpX) := if is_fixed_id M parent
                      then let f := getfixed M (fidx parent) in (fparent f, fxf f)
                      else (N.to_nat parent, stid O) in
    let n := nbodies M in
    let last := nth (Nat.pred (length (joints M))) (joints M) root_joint in
    let lq_last := Nat.add (jq last) (jdof last) in
    let q_index := Nat.add (jq last) (jdof last) in
    let j' := mkJoint (jkind j) (jaxes j) (jdof j) q_index (jcust j) in
    let joints' := joints M ++ [j'] in
    let dof' := Nat.add (dof_count M) (jdof j) in
    let axis0 := nth 0 (jaxes j) (svzero O) in
    let rbi := body_rbi b in
    let M' := mkModel (lambda M ++ [mp]) (lambda_q M ++ map (fun i => Nat.add lq_last i) (iota 0 (jdof j)))
                (updf [] (mu M ++ [[]]) mp (fun l => l ++ [n]))
                dof' (Nat.add dof' (count_sph joints')) (Nat.add (qdot_size M) (jdof j)) (N.of_nat n)
                (gravity M) joints' (X_T M ++ [st_mul O X mpX]) (renumber_w joints' dof' 0)
                (mI M ++ [rbi]) (bodies M ++ [b]) (fixedb M) (add_name M nm (N.of_nat n)) (customs M)
                (group_order (S n) (combine (map jkind joints') (iota 0 (S n))))
                (ws_push (ws M) axis0 rbi (S n)) in
    (M', ROk (N.of_nat n)).

  Definition add_fixed (M : Model) (parent : N) (X : ST) (b : Body) (nm : N) : Model * Res :=
    if name_taken M nm then (M, RRejected) else
    let '(mp, pX) := if is_fixed_id M parent
                     then let f := getfixed M (fidx parent) in (fparent f, st_mul O X (fxf f))
                     else (N.to_nat parent, X) in
    match body_join (getbody M mp) pX b with
    | None => (M, RRejected)
    | Some pb =>
      let fb := mkFB (bmass b) (bcom b) (binertia b) mp pX in
      let id := (N.of_nat (length (fixedb M)) + fixed_disc)%N in
      let M' := mkModel (lambda M) (lambda_q M) (mu M) (dof_count M) (q_size M) (qdot_size M) id
                  (gravity M) (joints M) (X_T M) (w_index M)
                  (upd (mI M) mp (body_rbi pb)) (upd (bodies M) mp pb) (fixedb M ++ [fb])
                  (add_name M nm id) (customs M) (update_order M) (ws M) in
      (M', ROk id)
    end.

  Definition null_body : Body := mkBody t0 (v3zero O) (m3zero O) true.

  (* AddBodyMultiDofJoint for an axis list: intermediate massless bodies *)
  Fixpoint add_emulated (M : Model) (parent : N) (X : ST) (axes : list SV) (b : Body) (nm : N)
    : Model * Res :=
    match axes with
    | [] => (M, RRejected)
    | [a] => add_movable M parent X (classify_axis a) b nm
    | a :: rest =>
        match add_movable M parent X (classify_axis a) null_body 0%N with
        | (M1, ROk id) => add_emulated M1 id (stid O) rest b nm
        | r => r
        end
    end.

  Definition add_body (M : Model) (parent : N) (X : ST) (sp : JSpec) (b : Body) (nm : N) : Model * Res :=
    if name_taken M nm then (M, RRejected) else
    match sp with
    | SFixed => add_fixed M parent X b nm
    | SRevX => add_movable M parent X (mkJoint JRevX [ex] 1 0 0) b nm
    | SRevY => add_movable M parent X (mkJoint JRevY [ey] 1 0 0) b nm
    | SRevZ => add_movable M parent X (mkJoint JRevZ [ez] 1 0 0) b nm
    | SRev a => add_movable M parent X (mkJoint JRevolute [ax (vx a) (vy a) (vz a) t0 t0 t0] 1 0 0) b nm
    | SPris a => add_movable M parent X (mkJoint JPrismatic [ax t0 t0 t0 (vx a) (vy a) (vz a)] 1 0 0) b nm
    | SAxis a => add_movable M parent X (classify_axis a) b nm
    | SSph => add_movable M parent X (joint3 JSpherical ez ey ex) b nm
    | SEZYX => add_movable M parent X (joint3 JEulerZYX ez ey ex) b nm
    | SEXYZ => add_movable M parent X (joint3 JEulerXYZ ex ey ez) b nm
    | SEYXZ => add_movable M parent X (joint3 JEulerYXZ ey ex ez) b nm
    | SEZXY => add_movable M parent X (joint3 JEulerZXY ez ex ey) b nm
    | STXYZ => add_movable M parent X (joint3 JTransXYZ tx ty tz) b nm
    | SFloat =>
        match add_movable M parent X (joint3 JTransXYZ tx ty tz) null_body 0%N with
        | (M1, ROk id) => add_movable M1 id (stid O) (joint3 JSpherical ez ey ex) b nm
        | r => r
        end
    | SEmu axes =>
        if (Nat.leb 2 (length axes) && Nat.leb (length axes) 6)%bool
        then add_emulated M parent X axes b nm else (M, RRejected)
    | SCustom c =>
        let k := length (customs M) in
        let M1 := mkModel (lambda M) (lambda_q M) (mu M) (dof_count M) (q_size M) (qdot_size M) (prev_id M)
                    (gravity M) (joints M) (X_T M) (w_index M) (mI M) (bodies M) (fixedb M) (names M)
                    (customs M ++ [c]) (update_order M)
                    (let w := ws M in
                     mkWS (wXl w) (wXb w) (wv w) (wa w) (wc w) (wvJ w) (wcJ w) (wS w) (wf w) (wpA w) (wU w)
                          (wmS w) (wmU w) (wmDinv w) (wmu w) (wIc w) (wIA w) (wd w) (wu w)
                          (wcS w ++ [repeat (svzero O) (cdof c)]) (wcU w ++ [[]]) (wcDinv w ++ [[]])
                          (wcu w ++ [[]])) in
        add_movable M1 parent X (mkJoint (JCustom c) (repeat (svzero O) (cdof c)) (cdof c) 0 k) b nm
    | SBad => (M, RRejected)
    end.
  Definition append_body (M : Model) := add_body M (prev_id M).

  (* ---------- inertial setters ---------- *)
  Definition set_bodies_I (M : Model) (bs : list Body) (fs : list FixedBody) (i : nat) : Model :=
    let rbi := body_rbi (nth i bs dbody) in
    let w := ws M in
    mkModel (lambda M) (lambda_q M) (mu M) (dof_count M) (q_size M) (qdot_size M) (prev_id M)
      (gravity M) (joints M) (X_T M) (w_index M) (upd (mI M) i rbi) bs fs (names M) (customs M)
      (update_order M)
      (mkWS (wXl w) (wXb w) (wv w) (wa w) (wc w) (wvJ w) (wcJ w) (wS w) (wf w) (wpA w) (wU w)
            (wmS w) (wmU w) (wmDinv w) (wmu w) (upd (wIc w) i rbi) (wIA w) (wd w) (wu w)
            (wcS w) (wcU w) (wcDinv w) (wcu w)).

  (* SetBodyMass / SetBodyInertia / SetBodyCenterOfMass / SetBodyInertialParameters:
     `chg` edits the (fixed or movable) body's own parameters *)
  Definition set_params (M : Model) (id : N) (chg : Body -> Body) : option Model :=
    if is_fixed_id M id then
      let f := getfixed M (fidx id) in
      let p := fparent f in
      match body_separate (getbody M p) (fxf f) (fb_to_body f) with
      | None => None
      | Some pb1 =>
        let nb := chg (fb_to_body f) in
        let f' := mkFB (bmass nb) (bcom nb) (binertia nb) p (fxf f) in
        match body_join pb1 (fxf f) (fb_to_body f') with
        | None => None
        | Some pb2 => Some (set_bodies_I M (upd (bodies M) p pb2) (upd (fixedb M) (fidx id) f') p)
        end
      end
    else
      let i := N.to_nat id in
      let b := getbody M i in
      let nb := chg b in
      Some (set_bodies_I M (upd (bodies M) i (mkBody (bmass nb) (bcom nb) (binertia nb) (bvirtual b)))
                         (fixedb M) i).

  Definition set_gravity (M : Model) (g : V3) : Model :=
    mkModel (lambda M) (lambda_q M) (mu M) (dof_count M) (q_size M) (qdot_size M) (prev_id M)
      g (joints M) (X_T M) (w_index M) (mI M) (bodies M) (fixedb M) (names M) (customs M)
      (update_order M) (ws M).
  Definition set_ws (M : Model) (w : WS) : Model :=
    mkModel (lambda M) (lambda_q M) (mu M) (dof_count M) (q_size M) (qdot_size M) (prev_id M)
      (gravity M) (joints M) (X_T M) (w_index M) (mI M) (bodies M) (fixedb M) (names M) (customs M)
      (update_order M) w.
End Def.
