(* Extensionality lemmas for the L1 records and the generic tactics used by
   every algebraic proof:  destruct records, split the equation per component,
   compute, close with ring / field / nsatz. *)
From Coq Require Import List Bool.
From RV Require Import Scalar LinAlg3 Spatial Quat.

Lemma v3_ext {T} (a b : V3 T) : vx a = vx b -> vy a = vy b -> vz a = vz b -> a = b.
Proof. destruct a, b; simpl; intros; subst; reflexivity. Qed.
Lemma m3_ext {T} (a b : M3 T) :
  m00 a = m00 b -> m01 a = m01 b -> m02 a = m02 b -> m10 a = m10 b -> m11 a = m11 b -> m12 a = m12 b ->
  m20 a = m20 b -> m21 a = m21 b -> m22 a = m22 b -> a = b.
Proof. destruct a, b; simpl; intros; subst; reflexivity. Qed.
Lemma sv_ext {T} (a b : SV T) :
  s0 a = s0 b -> s1 a = s1 b -> s2 a = s2 b -> s3 a = s3 b -> s4 a = s4 b -> s5 a = s5 b -> a = b.
Proof. destruct a, b; simpl; intros; subst; reflexivity. Qed.
Lemma st_ext {T} (a b : ST T) : stE a = stE b -> str a = str b -> a = b.
Proof. destruct a, b; simpl; intros; subst; reflexivity. Qed.
Lemma rbi_ext {T} (a b : RBI T) :
  rm a = rm b -> rh a = rh b -> rIxx a = rIxx b -> rIyx a = rIyx b -> rIyy a = rIyy b ->
  rIzx a = rIzx b -> rIzy a = rIzy b -> rIzz a = rIzz b -> a = b.
Proof. destruct a, b; simpl; intros; subst; reflexivity. Qed.
Lemma m66_ext {T} (a b : M66 T) : bUL a = bUL b -> bUR a = bUR b -> bLL a = bLL b -> bLR a = bLR b -> a = b.
Proof. destruct a, b; simpl; intros; subst; reflexivity. Qed.
Lemma qt_ext {T} (a b : Qt T) : qx a = qx b -> qy a = qy b -> qz a = qz b -> qw a = qw b -> a = b.
Proof. destruct a, b; simpl; intros; subst; reflexivity. Qed.

Ltac destr_rec :=
  repeat match goal with
  | x : V3 _ |- _ => destruct x
  | x : M3 _ |- _ => destruct x
  | x : SV _ |- _ => destruct x
  | x : ST _ |- _ => destruct x
  | x : RBI _ |- _ => destruct x
  | x : M66 _ |- _ => destruct x
  | x : Qt _ |- _ => destruct x
  end.

Ltac ext_rec :=
  repeat match goal with
  | |- @eq (V3 _) _ _ => apply v3_ext
  | |- @eq (M3 _) _ _ => apply m3_ext
  | |- @eq (SV _) _ _ => apply sv_ext
  | |- @eq (ST _) _ _ => apply st_ext
  | |- @eq (RBI _) _ _ => apply rbi_ext
  | |- @eq (M66 _) _ _ => apply m66_ext
  | |- @eq (Qt _) _ _ => apply qt_ext
  end.

(* component-wise reduction of an L1 equation to scalar goals *)
Ltac cbv_sc := cbv -[o0 o1 oadd omul osub oopp odiv oinv osqrt ocos osin oatan2 oltb oeqb].
Ltac l1_split := intros; destr_rec; ext_rec; cbv_sc.
Ltac cbv_sc_all := cbv -[o0 o1 oadd omul osub oopp odiv oinv osqrt ocos osin oatan2 oltb oeqb] in *.
