(* C07 equivalent descriptions of one mechanism.  Proved at the level of what each description puts into the
   algorithms: joint transform and motion subspace of the specialised 3-DoF joints equal those of the chain of three
   1-DoF joints (all four Euler orders, XYZ translation); the floating-base joint is by construction
   TranslationXYZ + spherical; a fixed attachment changes nothing but the parent's inertia, which becomes the rigid
   union (C15); the user-defined re-implementations have the same transform and motion subspace as the built-in
   joints.  Identical physics of the twins for every routine, incl. emulated joints, sibling reordering and the
   spherical / Euler pair, is decided by the twin runs (both descriptions built in one process and compared). *)
From Coq Require Import List NArith.
From RV Require Import Scalar LinAlg3 Spatial Laws ListArr ModelDef JointDef KinDef WsLemmas C07Thm.
Import ListNotations.
Section P.
  Context {T : Type} (O : Ops T) {FL : FieldLaws O} {TL : TrigLaws O}.
  Theorem C07_three_dof_joint_transform_is_chain_of_one_dof_joints (M : @Model T) q i :
    let qi := jq (getJ M i) in
    let q0 := vget (o0 O) q qi in let q1 := vget (o0 O) q (S qi) in let q2 := vget (o0 O) q (S (S qi)) in
    let XT := getXT O M i in
    match jkind (getJ M i) with
    | JEulerZYX => XlF O M q i = st_mul O (st_mul O (Xrotx O q2) (stid O)) (st_mul O (st_mul O (Xroty O q1) (stid O)) (st_mul O (Xrotz O q0) XT))
    | JEulerXYZ => XlF O M q i = st_mul O (st_mul O (Xrotz O q2) (stid O)) (st_mul O (st_mul O (Xroty O q1) (stid O)) (st_mul O (Xrotx O q0) XT))
    | JEulerYXZ => XlF O M q i = st_mul O (st_mul O (Xrotz O q2) (stid O)) (st_mul O (st_mul O (Xrotx O q1) (stid O)) (st_mul O (Xroty O q0) XT))
    | JEulerZXY => XlF O M q i = st_mul O (st_mul O (Xroty O q2) (stid O)) (st_mul O (st_mul O (Xrotx O q1) (stid O)) (st_mul O (Xrotz O q0) XT))
    | JTransXYZ => XlF O M q i = st_mul O (st_mul O (Xtrans O (mkV3 (o0 O) (o0 O) q2)) (stid O))
                                   (st_mul O (st_mul O (Xtrans O (mkV3 (o0 O) q1 (o0 O))) (stid O)) (st_mul O (Xtrans O (mkV3 q0 (o0 O) (o0 O))) XT))
    | _ => True
    end.
  Proof. exact (euler_joint_transform_is_chain O M q i). Qed.
  Theorem C07_euler_zyx_motion_subspace_is_chain q0 q1 q2 a b c :
    m63_sets O (m63zero O) (snd (fst (euler_lit O JEulerZYX (osin O q0) (ocos O q0) (osin O q1) (ocos O q1) (osin O q2) (ocos O q2) a b c))) =
    [st_apply O (st_mul O (Xrotx O q2) (Xroty O q1)) (ez O); st_apply O (Xrotx O q2) (ey O); ex O].
  Proof. exact (euler_zyx_S_is_chain O q0 q1 q2 a b c). Qed.
  Theorem C07_euler_xyz_motion_subspace_is_chain q0 q1 q2 a b c :
    m63_sets O (m63zero O) (snd (fst (euler_lit O JEulerXYZ (osin O q0) (ocos O q0) (osin O q1) (ocos O q1) (osin O q2) (ocos O q2) a b c))) =
    [st_apply O (st_mul O (Xrotz O q2) (Xroty O q1)) (ex O); st_apply O (Xrotz O q2) (ey O); ez O].
  Proof. exact (euler_xyz_S_is_chain O q0 q1 q2 a b c). Qed.
  Theorem C07_euler_yxz_motion_subspace_is_chain q0 q1 q2 a b c :
    m63_sets O (m63zero O) (snd (fst (euler_lit O JEulerYXZ (osin O q0) (ocos O q0) (osin O q1) (ocos O q1) (osin O q2) (ocos O q2) a b c))) =
    [st_apply O (st_mul O (Xrotz O q2) (Xrotx O q1)) (ey O); st_apply O (Xrotz O q2) (ex O); ez O].
  Proof. exact (euler_yxz_S_is_chain O q0 q1 q2 a b c). Qed.
  Theorem C07_euler_zxy_motion_subspace_is_chain q0 q1 q2 a b c :
    m63_sets O (m63zero O) (snd (fst (euler_lit O JEulerZXY (osin O q0) (ocos O q0) (osin O q1) (ocos O q1) (osin O q2) (ocos O q2) a b c))) =
    [st_apply O (st_mul O (Xroty O q2) (Xrotx O q1)) (ez O); st_apply O (Xroty O q2) (ex O); ey O].
  Proof. exact (euler_zxy_S_is_chain O q0 q1 q2 a b c). Qed.
  Theorem C07_floating_base_is_translation_then_spherical (M : @Model T) p X b nm : name_taken M nm = false ->
    add_body O M p X SFloat b nm =
    match add_movable O M p X (joint3 JTransXYZ (tx O) (ty O) (tz O)) (null_body O) 0%N with
    | (M1, ROk id) => add_movable O M1 id (stid O) (joint3 JSpherical (ez O) (ey O) (ex O)) b nm
    | r => r
    end.
  Proof. exact (floating_base_is_txyz_then_spherical O M p X b nm). Qed.
  Theorem C07_fixed_attachment_is_premerged_inertia (M M' : @Model T) p X b nm id : is_fixed_id M p = false ->
    add_fixed O M p X b nm = (M', ROk id) ->
    exists pb, body_join O (getbody O M (N.to_nat p)) X b = Some pb /\
      bodies M' = upd (bodies M) (N.to_nat p) pb /\ mI M' = upd (mI M) (N.to_nat p) (body_rbi O pb) /\
      lambda M' = lambda M /\ joints M' = joints M /\ X_T M' = X_T M /\ dof_count M' = dof_count M /\
      q_size M' = q_size M /\ qdot_size M' = qdot_size M /\ gravity M' = gravity M /\ ws M' = ws M /\
      lambda_q M' = lambda_q M /\ mu M' = mu M /\ w_index M' = w_index M /\ customs M' = customs M /\
      update_order M' = update_order M.
  Proof. exact (fixed_attachment_is_premerged O M M' p X b nm id). Qed.
  Theorem C07_custom_revolute_is_builtin (q qd : list T) :
    fst (fst (custom_lit O CRevX q qd)) = Xrotx O (vget (o0 O) q 0) /\ snd (fst (custom_lit O CRevX q qd)) = [ex O].
  Proof. exact (custom_revx_is_revx O q qd). Qed.
  Theorem C07_custom_euler_is_builtin (q qd : list T) :
    let q0 := vget (o0 O) q 0 in let q1 := vget (o0 O) q 1 in let q2 := vget (o0 O) q 2 in
    fst (fst (custom_lit O CEulerZYX q qd)) = st_mul O (Xrotx O q2) (st_mul O (Xroty O q1) (Xrotz O q0)) /\
    snd (fst (custom_lit O CEulerZYX q qd)) =
      [st_apply O (st_mul O (Xrotx O q2) (Xroty O q1)) (ez O); st_apply O (Xrotx O q2) (ey O); ex O].
  Proof. exact (custom_eulerzyx_is_eulerzyx O q qd). Qed.
End P.
Print Assumptions C07_three_dof_joint_transform_is_chain_of_one_dof_joints.
Print Assumptions C07_euler_zyx_motion_subspace_is_chain. Print Assumptions C07_euler_xyz_motion_subspace_is_chain.
Print Assumptions C07_euler_yxz_motion_subspace_is_chain. Print Assumptions C07_euler_zxy_motion_subspace_is_chain.
Print Assumptions C07_floating_base_is_translation_then_spherical. Print Assumptions C07_fixed_attachment_is_premerged_inertia.
Print Assumptions C07_custom_revolute_is_builtin. Print Assumptions C07_custom_euler_is_builtin.
