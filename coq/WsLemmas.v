(* Frame lemmas for jcalc: which workspace fields it writes, where, and that the values
   it writes do not depend on the incoming workspace (the basis of C13 and of every
   tree-level theorem). *)
From Coq Require Import List Bool Arith NArith Lia.
From Coq Require Import Ring Field.
From RV Require Import Scalar LinAlg3 Spatial Quat Tac Laws ListArr ModelDef JointDef C14Thm.
Import ListNotations.

Section WsL.
  Context {T : Type} (O : Ops T).
  Local Notation Model := (@Model T). Local Notation WS := (@WS T).
  Local Notation t0 := (o0 O).

  Ltac jc_cases M i :=
    unfold jcalc, jcalc_X_lambda_S, jcalc_gen;
    destruct (jkind (getJ M i)) as [| | | | | | | | | | | | |c];
    try match goal with |- context [euler_lit ?O ?k ?a ?b ?c0 ?d ?e ?f ?g ?h ?ii] =>
          destruct (euler_lit O k a b c0 d e f g h ii) as [[? ?] ?] end;
    try match goal with |- context [custom_lit ?O ?c ?a ?b] => destruct (custom_lit O c a b) as [[? ?] ?] end.

  (* fields jcalc never writes *)
  Lemma jcalc_untouched full (M : Model) (w : WS) i q qd :
    let w' := jcalc_gen O full M w i q qd in
    wXb w' = wXb w /\ wv w' = wv w /\ wa w' = wa w /\ wc w' = wc w /\ wf w' = wf w /\ wpA w' = wpA w /\
    wU w' = wU w /\ wmU w' = wmU w /\ wmDinv w' = wmDinv w /\ wmu w' = wmu w /\ wIc w' = wIc w /\
    wIA w' = wIA w /\ wd w' = wd w /\ wu w' = wu w /\ wcU w' = wcU w /\ wcDinv w' = wcDinv w /\ wcu w' = wcu w.
  Proof.
    cbv zeta. jc_cases M i; destruct full; cbn; repeat split; reflexivity.
  Qed.

  (* lengths are preserved *)
  Lemma jcalc_len full (M : Model) (w : WS) i q qd n :
    ws_len w n -> ws_len (jcalc_gen O full M w i q qd) n.
  Proof.
    unfold ws_len. intro H. decompose [and] H. clear H.
    jc_cases M i; destruct full; cbn; rewrite ?upd_length; repeat split; assumption.
  Qed.
  Lemma jcalc_cS_len full (M : Model) (w : WS) i q qd :
    length (wcS (jcalc_gen O full M w i q qd)) = length (wcS w).
  Proof. jc_cases M i; destruct full; cbn; rewrite ?upd_length; reflexivity. Qed.

  (* per-body fields are only written at index i *)
  Lemma jcalc_other full (M : Model) (w : WS) i q qd j : j <> i ->
    let w' := jcalc_gen O full M w i q qd in
    gXl O w' j = gXl O w j /\ gvJ O w' j = gvJ O w j /\ gcJ O w' j = gcJ O w j /\ gS O w' j = gS O w j /\
    gmS O w' j = gmS O w j.
  Proof.
    intro Hne. cbv zeta. unfold gXl, gvJ, gcJ, gS, gmS.
    jc_cases M i; destruct full; cbn; rewrite ?(nth_upd_neq _ _ i j) by auto; repeat split; reflexivity.
  Qed.
  (* the custom-joint S store is only written at the joint's own slot *)
  Lemma jcalc_cS_other full (M : Model) (w : WS) i q qd k : k <> jcust (getJ M i) ->
    gcS (jcalc_gen O full M w i q qd) k = gcS w k.
  Proof.
    intro Hne. unfold gcS. jc_cases M i; destruct full; cbn; rewrite ?(nth_upd_neq _ _ _ k) by auto; reflexivity.
  Qed.

End WsL.

(* ---- the declared joint transform and the value jcalc writes ---- *)
Section JointSpec.
  Context {T : Type} (O : Ops T) {FL : FieldLaws O}.
  Add Field FlF : (@fl_field T O FL).
  Local Notation Model := (@Model T). Local Notation WS := (@WS T).
  Local Notation t0 := (o0 O).

  (* X_J = (E_J, r_J): E_J^T is the rotation of the joint (child -> parent), r_J its translation,
     composed from elementary rotations about coordinate / declared axes *)
  Definition joint_XJ (M : Model) (q : list T) (i : nat) : ST T :=
    let J := getJ M i in let qi := jq J in
    let q0 := vget t0 q qi in let q1 := vget t0 q (S qi) in let q2 := vget t0 q (S (S qi)) in
    match jkind J with
    | JRevX => Xrotx O q0 | JRevY => Xroty O q0 | JRevZ => Xrotz O q0
    | JRevolute | JPrismatic | JHelical => jcalc_XJ O M i q
    | JSpherical => mkST (qtoMatrix O (get_quat O M i q)) (v3zero O)
    | JEulerZYX => st_mul O (Xrotx O q2) (st_mul O (Xroty O q1) (Xrotz O q0))
    | JEulerXYZ => st_mul O (Xrotz O q2) (st_mul O (Xroty O q1) (Xrotx O q0))
    | JEulerYXZ => st_mul O (Xrotz O q2) (st_mul O (Xrotx O q1) (Xroty O q0))
    | JEulerZXY => st_mul O (Xroty O q2) (st_mul O (Xrotx O q1) (Xrotz O q0))
    | JTransXYZ => Xtrans O (mkV3 q0 q1 q2)
    | JCustom c => fst (fst (custom_lit O c (vslice t0 q qi (cdof c)) []))
    | JRoot => stid O
    end.
  Definition XlF (M : Model) (q : list T) (i : nat) : ST T := st_mul O (joint_XJ M q i) (getXT O M i).

  Lemma custom_XJ_indep c q qd qd' : fst (fst (custom_lit O c q qd)) = fst (fst (custom_lit O c q qd')).
  Proof. destruct c; reflexivity. Qed.

  Ltac fin := ext_rec; cbv_sc; ring.
  Theorem jcalc_Xl full (M : Model) (w : WS) i q qd :
    i < length (wXl w) -> jkind (getJ M i) <> JRoot ->
    gXl O (jcalc_gen O full M w i q qd) i = XlF M q i.
  Proof.
    intros Hi Hr. unfold XlF, joint_XJ, gXl, jcalc_gen.
    destruct (jkind (getJ M i)) as [| | | | | | | | | | | | |c] eqn:Ek; [congruence| | | | | | | | | | | | |].
    all: try (destruct full; cbn; rewrite nth_upd_eq by exact Hi; try reflexivity;
              destruct (getXT O M i) as [E r]; destruct E, r; fin).
    - (* custom *)
      pose proof (custom_XJ_indep c (vslice t0 q (jq (getJ M i)) (cdof c)) (vslice t0 qd (jq (getJ M i)) (cdof c)) []) as K.
      destruct (custom_lit O c (vslice t0 q (jq (getJ M i)) (cdof c)) []) as [[XJ Sc] cj].
      destruct (custom_lit O c (vslice t0 q (jq (getJ M i)) (cdof c)) (vslice t0 qd (jq (getJ M i)) (cdof c))) as [[XJ' Sc'] cj'].
      cbn in K. subst XJ'. destruct full; cbn; rewrite nth_upd_eq by exact Hi; reflexivity.
  Qed.
End JointSpec.
