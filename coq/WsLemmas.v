(* Frame lemmas for jcalc: which workspace fields it writes, where, and that the values
   it writes do not depend on the incoming workspace (the basis of C13 and of every
   tree-level theorem). *)
From Coq Require Import List Bool Arith NArith Lia.
From Coq Require Import Ring Field.
From RV Require Import Scalar LinAlg3 Spatial Quat Tac Laws ListArr ModelDef JointDef C14Thm.
Import ListNotations.

Section WsL.
  Context {T : Type} (O : Ops T).
  Local Notation Model := (@Model T). Local Notation WS := (@WS T).
  Local Notation t0 := (o0 O).

  Ltac jc_cases M i :=
    unfold jcalc, jcalc_X_lambda_S, jcalc_gen;
    destruct (jkind (getJ M i)) as [| | | | | | | | | | | | |c];
    try match goal with |- context [euler_lit ?O ?k ?a ?b ?c0 ?d ?e ?f ?g ?h ?ii] =>
          destruct (euler_lit O k a b c0 d e f g h ii) as [[? ?] ?] end;
    try match goal with |- context [custom_lit ?O ?c ?a ?b] => destruct (custom_lit O c a b) as [[? ?] ?] end.

  (* fields jcalc never writes *)
  Lemma jcalc_untouched full (M : Model) (w : WS) i q qd :
    let w' := jcalc_gen O full M w i q qd in
    wXb w' = wXb w /\ wv w' = wv w /\ wa w' = wa w /\ wc w' = wc w /\ wf w' = wf w /\ wpA w' = wpA w /\
    wU w' = wU w /\ wmU w' = wmU w /\ wmDinv w' = wmDinv w /\ wmu w' = wmu w /\ wIc w' = wIc w /\
    wIA w' = wIA w /\ wd w' = wd w /\ wu w' = wu w /\ wcU w' = wcU w /\ wcDinv w' = wcDinv w /\ wcu w' = wcu w.
  Proof.
    cbv zeta. jc_cases M i; destruct full; cbn; repeat split; reflexivity.
  Qed.

  (* lengths are preserved *)
  Lemma jcalc_len full (M : Model) (w : WS) i q qd n :
    ws_len w n -> ws_len (jcalc_gen O full M w i q qd) n.
  Proof.
    unfold ws_len. intro H. decompose [and] H. clear H.
    jc_cases M i; destruct full; cbn; rewrite ?upd_length; repeat split; assumption.
  Qed.
  Lemma jcalc_cS_len full (M : Model) (w : WS) i q qd :
    length (wcS (jcalc_gen O full M w i q qd)) = length (wcS w).
  Proof. jc_cases M i; destruct full; cbn; rewrite ?upd_length; reflexivity. Qed.

  (* per-body fields are only written at index i *)
  Lemma jcalc_other full (M : Model) (w : WS) i q qd j : j <> i ->
    let w' := jcalc_gen O full M w i q qd in
    gXl O w' j = gXl O w j /\ gvJ O w' j = gvJ O w j /\ gcJ O w' j = gcJ O w j /\ gS O w' j = gS O w j /\
    gmS O w' j = gmS O w j.
  Proof.
    intro Hne. cbv zeta. unfold gXl, gvJ, gcJ, gS, gmS.
    jc_cases M i; destruct full; cbn; rewrite ?(nth_upd_neq _ _ i j) by auto; repeat split; reflexivity.
  Qed.
  Lemma jcalc_cS_noncustom full (M : Model) (w : WS) i q qd : is_custom (jkind (getJ M i)) = false ->
    wcS (jcalc_gen O full M w i q qd) = wcS w.
  Proof. intro H. unfold jcalc_gen. destruct (jkind (getJ M i)); try discriminate; destruct full; reflexivity. Qed.
  (* the custom-joint S store is only written at the joint's own slot *)
  Lemma jcalc_cS_other full (M : Model) (w : WS) i q qd k : k <> jcust (getJ M i) ->
    gcS (jcalc_gen O full M w i q qd) k = gcS w k.
  Proof.
    intro Hne. unfold gcS. jc_cases M i; destruct full; cbn; rewrite ?(nth_upd_neq _ _ _ k) by auto; reflexivity.
  Qed.

End WsL.

(* ---- the declared joint transform and the value jcalc writes ---- *)
Section JointSpec.
  Context {T : Type} (O : Ops T) {FL : FieldLaws O}.
  Add Field FlF : (@fl_field T O FL).
  Local Notation Model := (@Model T). Local Notation WS := (@WS T).
  Local Notation t0 := (o0 O).

  (* X_J = (E_J, r_J): E_J^T is the rotation of the joint (child -> parent), r_J its translation,
     composed from elementary rotations about coordinate / declared axes *)
  Definition joint_XJ (M : Model) (q : list T) (i : nat) : ST T :=
    let J := getJ M i in let qi := jq J in
    let q0 := vget t0 q qi in let q1 := vget t0 q (S qi) in let q2 := vget t0 q (S (S qi)) in
    match jkind J with
    | JRevX => Xrotx O q0 | JRevY => Xroty O q0 | JRevZ => Xrotz O q0
    | JRevolute | JPrismatic | JHelical => jcalc_XJ O M i q
    | JSpherical => mkST (qtoMatrix O (get_quat O M i q)) (v3zero O)
    | JEulerZYX => st_mul O (Xrotx O q2) (st_mul O (Xroty O q1) (Xrotz O q0))
    | JEulerXYZ => st_mul O (Xrotz O q2) (st_mul O (Xroty O q1) (Xrotx O q0))
    | JEulerYXZ => st_mul O (Xrotz O q2) (st_mul O (Xrotx O q1) (Xroty O q0))
    | JEulerZXY => st_mul O (Xroty O q2) (st_mul O (Xrotx O q1) (Xrotz O q0))
    | JTransXYZ => Xtrans O (mkV3 q0 q1 q2)
    | JCustom c => fst (fst (custom_lit O c (vslice t0 q qi (cdof c)) []))
    | JRoot => stid O
    end.
  Definition XlF (M : Model) (q : list T) (i : nat) : ST T := st_mul O (joint_XJ M q i) (getXT O M i).

  Lemma custom_XJ_indep c q qd qd' : fst (fst (custom_lit O c q qd)) = fst (fst (custom_lit O c q qd')).
  Proof. destruct c; reflexivity. Qed.

  Ltac fin := ext_rec; cbv_sc; ring.
  Theorem jcalc_Xl full (M : Model) (w : WS) i q qd :
    i < length (wXl w) -> jkind (getJ M i) <> JRoot ->
    gXl O (jcalc_gen O full M w i q qd) i = XlF M q i.
  Proof.
    intros Hi Hr. unfold XlF, joint_XJ, gXl, jcalc_gen.
    destruct (jkind (getJ M i)) as [| | | | | | | | | | | | |c] eqn:Ek; [congruence| | | | | | | | | | | | |].
    all: try (destruct full; cbn; rewrite nth_upd_eq by exact Hi; try reflexivity;
              destruct (getXT O M i) as [E r]; destruct E, r; fin).
    - (* custom *)
      pose proof (custom_XJ_indep c (vslice t0 q (jq (getJ M i)) (cdof c)) (vslice t0 qd (jq (getJ M i)) (cdof c)) []) as K.
      destruct (custom_lit O c (vslice t0 q (jq (getJ M i)) (cdof c)) []) as [[XJ Sc] cj].
      destruct (custom_lit O c (vslice t0 q (jq (getJ M i)) (cdof c)) (vslice t0 qd (jq (getJ M i)) (cdof c))) as [[XJ' Sc'] cj'].
      cbn in K. subst XJ'. destruct full; cbn; rewrite nth_upd_eq by exact Hi; reflexivity.
  Qed.
End JointSpec.

(* ---- the workspace invariant: entries no routine rewrites keep their construction values ---- *)
Section WsInvariant.
  Context {T : Type} (O : Ops T) {FL : FieldLaws O}.
  Add Field FlF2 : (@fl_field T O FL).
  Local Notation Model := (@Model T). Local Notation WS := (@WS T).
  Local Notation t0 := (o0 O). Local Notation t1 := (o1 O).

  Definition svz := svzero O.
  (* a 6x3 block whose unassigned entries (per joint kind) are zero *)
  Definition mS_clean (k : JKind) (m : M63 (T:=T)) : Prop :=
    exists a b c d e f : T,
      match k with
      | JSpherical => m = [mkSV a t0 t0 t0 t0 t0; mkSV t0 b t0 t0 t0 t0; mkSV t0 t0 c t0 t0 t0]
      | JEulerZYX => m = [mkSV a b c t0 t0 t0; mkSV t0 d e t0 t0 t0; mkSV f t0 t0 t0 t0 t0]
      | JEulerXYZ => m = [mkSV a b c t0 t0 t0; mkSV d e t0 t0 t0 t0; mkSV t0 t0 f t0 t0 t0]
      | JEulerYXZ => m = [mkSV a b c t0 t0 t0; mkSV d e t0 t0 t0 t0; mkSV t0 t0 f t0 t0 t0]
      | JEulerZXY => m = [mkSV a b c t0 t0 t0; mkSV d t0 e t0 t0 t0; mkSV t0 f t0 t0 t0 t0]
      | JTransXYZ => m = [mkSV t0 t0 t0 a t0 t0; mkSV t0 t0 t0 t0 b t0; mkSV t0 t0 t0 t0 t0 c]
      | _ => True
      end.

  (* per-joint part of the invariant *)
  Definition WsInvJ (M : Model) (w : WS) (i : nat) : Prop :=
    let J := getJ M i in
    match jkind J with
    | JRevX => gS O w i = ex O /\ (exists x, gvJ O w i = mkSV x t0 t0 t0 t0 t0) /\ gcJ O w i = svz
    | JRevY => gS O w i = ey O /\ (exists x, gvJ O w i = mkSV t0 x t0 t0 t0 t0) /\ gcJ O w i = svz
    | JRevZ => gS O w i = ez O /\ (exists x, gvJ O w i = mkSV t0 t0 x t0 t0 t0) /\ gcJ O w i = svz
    | JRevolute | JPrismatic => gS O w i = jaxis O M i /\ gcJ O w i = svz
    | JSpherical => mS_clean JSpherical (gmS O w i) /\ gcJ O w i = svz
    | JEulerZYX | JEulerXYZ | JEulerYXZ | JEulerZXY | JTransXYZ => mS_clean (jkind J) (gmS O w i)
    | _ => True
    end.
  Definition WsInv (M : Model) (w : WS) : Prop := forall i, 0 < i < nbodies M -> WsInvJ M w i.

  (* motion subspace, joint velocity and bias acceleration as functions of model and state *)
  Definition SF (M : Model) (q : list T) (i : nat) : list (SV T) :=
    let J := getJ M i in let qi := jq J in
    let q0 := vget t0 q qi in let q1 := vget t0 q (S qi) in let q2 := vget t0 q (S (S qi)) in
    match jkind J with
    | JRevX => [ex O] | JRevY => [ey O] | JRevZ => [ez O]
    | JRevolute | JPrismatic => [jaxis O M i]
    | JHelical => [svof (svang (jaxis O M i)) (m3v O (stE (jcalc_XJ O M i q)) (svlin (jaxis O M i)))]
    | JSpherical => [ex O; ey O; ez O]
    | JEulerZYX | JEulerXYZ | JEulerYXZ | JEulerZXY =>
        m63_sets O (m63zero O) (snd (fst (euler_lit O (jkind J) (osin O q0) (ocos O q0) (osin O q1) (ocos O q1)
                                             (osin O q2) (ocos O q2) t0 t0 t0)))
    | JTransXYZ => [tx O; ty O; tz O]
    | JCustom c => snd (fst (custom_lit O c (vslice t0 q qi (cdof c)) []))
    | JRoot => []
    end.
  Definition qd_seg (M : Model) (i : nat) (qd : list T) : list T := vslice t0 qd (jq (getJ M i)) (jdof (getJ M i)).
  Definition vJF (M : Model) (q qd : list T) (i : nat) : SV T := cols_mulv O (SF M q i) (qd_seg M i qd).
End WsInvariant.

Section JcalcVals.
  Context {T : Type} (O : Ops T) {FL : FieldLaws O}.
  Add Field FlF3 : (@fl_field T O FL).
  Local Notation Model := (@Model T). Local Notation WS := (@WS T).
  Local Notation t0 := (o0 O). Local Notation t1 := (o1 O).

  (* DoF count and custom slot agree with the joint kind (established by construction) *)
  Definition kind_dof (M : Model) (w : WS) (i : nat) : Prop :=
    let J := getJ M i in
    match jkind J with
    | JRevX | JRevY | JRevZ | JRevolute | JPrismatic | JHelical => jdof J = 1
    | JSpherical | JEulerZYX | JEulerXYZ | JEulerYXZ | JEulerZXY | JTransXYZ => jdof J = 3
    | JCustom c => jdof J = cdof c /\ jcust J < length (wcS w)
    | JRoot => False
    end.

  Ltac wsimp := cbn [wXl wXb wv wa wc wvJ wcJ wS wf wpA wU wmS wmU wmDinv wmu wIc wIA wd wu wcS wcU wcDinv wcu
                     w_Xl w_Xb w_v w_a w_c w_vJ w_cJ w_S w_f w_pA w_U w_mS w_mU w_mDinv w_mu w_Ic w_IA w_d w_u
                     w_cS w_cU w_cDinv w_cu gXl gvJ gcJ gS gmS gcS] in *.
  Ltac upd_eq := repeat (rewrite nth_upd_eq by (rewrite ?upd_length; lia)).

  Lemma custom_S_indep c q qd qd' : snd (fst (custom_lit O c q qd)) = snd (fst (custom_lit O c q qd')).
  Proof. destruct c; reflexivity. Qed.
  Definition is_euler (k : JKind) : bool :=
    match k with JEulerZYX | JEulerXYZ | JEulerYXZ | JEulerZXY => true | _ => false end.
  Lemma euler_Sl_indep k s0 c0 s1 c1 s2 c2 a b c a' b' c' :
    snd (fst (euler_lit O k s0 c0 s1 c1 s2 c2 a b c)) = snd (fst (euler_lit O k s0 c0 s1 c1 s2 c2 a' b' c')).
  Proof. destruct k; reflexivity. Qed.
  Lemma euler_sets_clean k m s0 c0 s1 c1 s2 c2 a b c : is_euler k = true -> mS_clean O k m ->
    m63_sets O m (snd (fst (euler_lit O k s0 c0 s1 c1 s2 c2 a b c))) =
    m63_sets O (m63zero O) (snd (fst (euler_lit O k s0 c0 s1 c1 s2 c2 a b c))).
  Proof.
    intros Hk (x1 & x2 & x3 & x4 & x5 & x6 & Hm). destruct k; try discriminate; subst m; reflexivity.
  Qed.
  Lemma euler_sets_is_clean k s0 c0 s1 c1 s2 c2 a b c : is_euler k = true ->
    mS_clean O k (m63_sets O (m63zero O) (snd (fst (euler_lit O k s0 c0 s1 c1 s2 c2 a b c)))).
  Proof. intros Hk. destruct k; try discriminate; cbn; do 6 eexists; reflexivity. Qed.

  (* the three-dof joints with constant S *)
  Lemma sph_sets_clean m : mS_clean O JSpherical m -> m63_sets O m [(0,0,t1); (1,1,t1); (2,2,t1)] = [ex O; ey O; ez O].
  Proof. intros (a & b & c & _ & _ & _ & ->). reflexivity. Qed.
  Lemma txyz_sets_clean m : mS_clean O JTransXYZ m -> m63_sets O m [(3,0,t1); (4,1,t1); (5,2,t1)] = [tx O; ty O; tz O].
  Proof. intros (a & b & c & _ & _ & _ & ->). reflexivity. Qed.

  Lemma cols1 (s : SV T) x : svscale O x s = cols_mulv O [s] [x].
  Proof. destruct s; cbn; ext_rec; cbv_sc; ring. Qed.

  Theorem jcalc_full_vals (M : Model) (w : WS) i q qd n :
    ws_len w n -> i < n -> WsInvJ O M w i -> kind_dof M w i ->
    let w' := jcalc O M w i q qd in
    jS O M w' i = SF O M q i /\ gvJ O w' i = vJF O M q qd i /\ WsInvJ O M w' i.
  Proof.
    intros Hlen Hi Hinv Hk. cbv zeta.
    unfold ws_len in Hlen. decompose [and] Hlen. clear Hlen.
    unfold vJF, qd_seg, jS, WsInvJ, kind_dof, jcalc, jcalc_gen in *. unfold SF.
    unfold gS, gvJ, gcJ, gmS, gcS, gXl in *.
    destruct (jkind (getJ M i)) as [| | | | | | | | | | | | |c] eqn:Ek; [contradiction| | | | | | | | | | | | |];
      cbv zeta; wsimp.
    - (* revolute *) destruct Hinv as [HS Hc]. rewrite Hk. cbn [Nat.eqb vslice]. upd_eq. wsimp. rewrite HS.
      repeat split; auto. apply cols1.
    - (* prismatic *) destruct Hinv as [HS Hc]. rewrite Hk. cbn [Nat.eqb vslice]. upd_eq. wsimp. rewrite HS.
      repeat split; auto. apply cols1.
    - (* revx *) destruct Hinv as (HS & [x Hv] & Hc). rewrite Hk. cbn [Nat.eqb vslice]. upd_eq. rewrite Hv, HS.
      repeat split; auto; try (eexists; reflexivity). cbn. ext_rec; cbv_sc; ring.
    - destruct Hinv as (HS & [x Hv] & Hc). rewrite Hk. cbn [Nat.eqb vslice]. upd_eq. rewrite Hv, HS.
      repeat split; auto; try (eexists; reflexivity). cbn. ext_rec; cbv_sc; ring.
    - destruct Hinv as (HS & [x Hv] & Hc). rewrite Hk. cbn [Nat.eqb vslice]. upd_eq. rewrite Hv, HS.
      repeat split; auto; try (eexists; reflexivity). cbn. ext_rec; cbv_sc; ring.
    - (* spherical *) destruct Hinv as [Hm Hc]. rewrite Hk. cbn [Nat.eqb vslice]. upd_eq.
      rewrite (sph_sets_clean _ Hm). repeat split; auto.
      + cbn. ext_rec; cbv_sc; ring.
      + exists t1, t1, t1, t0, t0, t0. reflexivity.
    - (* euler zyx *) rewrite Hk. cbn [Nat.eqb vslice nth]. upd_eq.
      rewrite (euler_sets_clean JEulerZYX _ _ _ _ _ _ _ _ _ _ eq_refl Hinv).
      rewrite (euler_Sl_indep JEulerZYX _ _ _ _ _ _ _ _ _ t0 t0 t0).
      repeat split; auto. apply euler_sets_is_clean. reflexivity.
    - rewrite Hk. cbn [Nat.eqb vslice nth]. upd_eq.
      rewrite (euler_sets_clean JEulerXYZ _ _ _ _ _ _ _ _ _ _ eq_refl Hinv).
      rewrite (euler_Sl_indep JEulerXYZ _ _ _ _ _ _ _ _ _ t0 t0 t0).
      repeat split; auto. apply euler_sets_is_clean. reflexivity.
    - rewrite Hk. cbn [Nat.eqb vslice nth]. upd_eq.
      rewrite (euler_sets_clean JEulerYXZ _ _ _ _ _ _ _ _ _ _ eq_refl Hinv).
      rewrite (euler_Sl_indep JEulerYXZ _ _ _ _ _ _ _ _ _ t0 t0 t0).
      repeat split; auto. apply euler_sets_is_clean. reflexivity.
    - rewrite Hk. cbn [Nat.eqb vslice nth]. upd_eq.
      rewrite (euler_sets_clean JEulerZXY _ _ _ _ _ _ _ _ _ _ eq_refl Hinv).
      rewrite (euler_Sl_indep JEulerZXY _ _ _ _ _ _ _ _ _ t0 t0 t0).
      repeat split; auto. apply euler_sets_is_clean. reflexivity.
    - (* translation xyz *) rewrite Hk. cbn [Nat.eqb vslice nth]. upd_eq.
      rewrite (txyz_sets_clean _ Hinv). repeat split; auto.
      exists t1, t1, t1, t0, t0, t0. reflexivity.
    - (* helical *) rewrite Hk. cbn [Nat.eqb vslice]. upd_eq. wsimp. upd_eq. split; [reflexivity|split; [apply cols1|exact I]].
    - (* custom *) destruct Hk as [Hd Hc]. rewrite Hd. upd_eq.
      rewrite (custom_S_indep c _ (vslice t0 qd (jq (getJ M i)) (cdof c)) []).
      split; [reflexivity|split; [reflexivity|exact I]].
  Qed.
End JcalcVals.

Section InvFrame.
  Context {T : Type} (O : Ops T) {FL : FieldLaws O}.
  Local Notation Model := (@Model T). Local Notation WS := (@WS T).

  Lemma WsInvJ_ext (M : Model) (w w' : WS) j :
    gS O w' j = gS O w j -> gvJ O w' j = gvJ O w j -> gcJ O w' j = gcJ O w j -> gmS O w' j = gmS O w j ->
    WsInvJ O M w j -> WsInvJ O M w' j.
  Proof. unfold WsInvJ. intros -> -> -> ->. auto. Qed.

  Lemma jcalc_inv_other full (M : Model) (w : WS) i q qd j : j <> i ->
    WsInvJ O M w j -> WsInvJ O M (jcalc_gen O full M w i q qd) j.
  Proof.
    intros Hne H. destruct (jcalc_other O full M w i q qd j Hne) as (_ & A & B & C & D).
    apply (WsInvJ_ext M w); auto.
  Qed.
  Lemma kind_dof_ext (M : Model) (w w' : WS) j : length (wcS w') = length (wcS w) -> kind_dof M w j -> kind_dof M w' j.
  Proof. unfold kind_dof. intros ->. auto. Qed.

  (* jcalc keeps the whole invariant *)
  Theorem jcalc_full_inv (M : Model) (w : WS) i q qd n :
    ws_len w n -> i < n -> (forall j, 0 < j < n -> kind_dof M w j) ->
    (forall j, 0 < j < n -> WsInvJ O M w j) -> 0 < i ->
    forall j, 0 < j < n -> WsInvJ O M (jcalc O M w i q qd) j /\ kind_dof M (jcalc O M w i q qd) j.
  Proof.
    intros Hlen Hi Hk Hinv Hi0 j Hj. split.
    - destruct (Nat.eq_dec j i) as [->|Hne].
      + apply (jcalc_full_vals O M w i q qd n); auto.
      + apply jcalc_inv_other; auto.
    - apply (kind_dof_ext M w); [apply jcalc_cS_len | apply Hk; exact Hj].
  Qed.
End InvFrame.

(* ---- the joint bias acceleration c_J written (or left at its construction value) by jcalc ---- *)
Section CJ.
  Context {T : Type} (O : Ops T) {FL : FieldLaws O}.
  Add Field FlF4 : (@fl_field T O FL).
  Local Notation Model := (@Model T). Local Notation WS := (@WS T).
  Local Notation t0 := (o0 O). Local Notation t1 := (o1 O).

  Definition cJF (M : Model) (q qd : list T) (i : nat) : SV T :=
    let J := getJ M i in let qi := jq J in
    let q0 := vget t0 q qi in let q1 := vget t0 q (S qi) in let q2 := vget t0 q (S (S qi)) in
    match jkind J with
    | JHelical =>
        let Jqd := vget t0 qd qi in
        let a := jaxis O M i in
        let trans := m3v O (stE (jcalc_XJ O M i q)) (svlin a) in
        svof (v3zero O) (v3scale O (omul O (oopp O Jqd) Jqd) (v3cross O (svang a) trans))
    | JEulerZYX | JEulerXYZ | JEulerYXZ | JEulerZXY =>
        svof (snd (euler_lit O (jkind J) (osin O q0) (ocos O q0) (osin O q1) (ocos O q1) (osin O q2) (ocos O q2)
                     (vget t0 qd qi) (vget t0 qd (S qi)) (vget t0 qd (S (S qi))))) (v3zero O)
    | JCustom c => snd (custom_lit O c (vslice t0 q qi (cdof c)) (vslice t0 qd qi (cdof c)))
    | _ => svzero O
    end.

  Ltac wsimp := cbn [wXl wXb wv wa wc wvJ wcJ wS wf wpA wU wmS wmU wmDinv wmu wIc wIA wd wu wcS wcU wcDinv wcu
                     w_Xl w_Xb w_v w_a w_c w_vJ w_cJ w_S w_f w_pA w_U w_mS w_mU w_mDinv w_mu w_Ic w_IA w_d w_u
                     w_cS w_cU w_cDinv w_cu] in *.
  Ltac upd_eq := repeat (rewrite nth_upd_eq by (rewrite ?upd_length; lia)).

  Theorem jcalc_full_cJ (M : Model) (w : WS) i q qd n :
    ws_len w n -> i < n -> jkind (getJ M i) <> JRoot -> WsInvJ O M w i ->
    gcJ O (jcalc O M w i q qd) i = cJF M q qd i.
  Proof.
    intros Hlen Hi Hr Hinv.
    unfold ws_len in Hlen. decompose [and] Hlen. clear Hlen.
    unfold cJF, WsInvJ, jcalc, jcalc_gen in *. unfold gS, gvJ, gcJ, gmS, gcS, gXl in *.
    destruct (jkind (getJ M i)) as [| | | | | | | | | | | | |c] eqn:Ek; [congruence| | | | | | | | | | | | |];
      cbv zeta; wsimp; upd_eq; wsimp; upd_eq;
      try reflexivity; try (destruct Hinv as (_ & _ & Hc); exact Hc); try (destruct Hinv as (_ & Hc); exact Hc).
  Qed.
End CJ.
