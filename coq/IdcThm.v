(* C11: constrained inverse dynamics with an actuation map.  Whenever the operators return, the returned
   (qdd, tau, lambda) satisfy G qdd = gamma, tau = 0 on every unactuated coordinate and H qdd + C = tau + G^T lambda
   row by row; the exact operator reproduces the desired acceleration on every actuated coordinate. *)
From Coq Require Import List Bool Arith Lia Ring Field.
From RV Require Import Scalar Laws ListArr LinDef ListLemmas Tree LinThm LinAlg3 Spatial Quat ModelDef JointDef KinDef DynDef ConsDef ConsThm.
Import ListNotations.

Section Idc.
  Context {T : Type} (O : Ops T) {FL : FieldLaws O}.
  Hypothesis oeqb_spec : forall x y : T, oeqb O x y = true <-> x = y.
  Add Field FlFidc : (@fl_field T O FL).
  Local Notation t0 := (o0 O).
  Local Notation Mat := (@Mat T). Local Notation Vec := (@Vec T).

  Lemma nth_map_iota {A} (f : nat -> A) d : forall n a i, i < n -> nth i (map f (iota a n)) d = f (a + i).
  Proof.
    induction n as [|n IH]; intros a i Hi; [lia|]. cbn. destruct i as [|i].
    - rewrite Nat.add_0_r. reflexivity.
    - rewrite IH by lia. f_equal. lia.
  Qed.
  Lemma unitv_length n k : length (unitv O n k) = n.
  Proof. unfold unitv. rewrite map_length. apply iota_length. Qed.
  Lemma nth_unitv n k j : j < n -> nth j (unitv O n k) t0 = if Nat.eqb j k then o1 O else t0.
  Proof. intros H. unfold unitv. rewrite (nth_map_iota _ t0 n 0 j H). reflexivity. Qed.
  Lemma odot_unitv n (x : list T) i : length x = n -> i < n -> odot O (unitv O n i) x = nth i x t0.
  Proof.
    intros Hl Hi. rewrite (odot_fsum O) by (rewrite unitv_length; lia). rewrite unitv_length.
    replace n with (i + S (n - S i)) at 1 by lia.
    rewrite iota_app. cbn [Nat.add iota]. rewrite (fsum_app O), (fsum_cons O).
    rewrite (fsum_zero O _ (iota 0 i)).
    - rewrite (fsum_zero O).
      + rewrite nth_unitv by lia. rewrite Nat.eqb_refl. ring.
      + intros j Hj. apply in_iota in Hj. rewrite nth_unitv by lia.
        destruct (Nat.eqb_spec j i); [lia|]. ring.
    - intros j Hj. apply in_iota in Hj. rewrite nth_unitv by lia.
      destruct (Nat.eqb_spec j i); [lia|]. ring.
  Qed.
  Lemma odot_vneg_l : forall (a x : list T), odot O (vneg O a) x = oopp O (odot O a x).
  Proof. unfold vneg. induction a as [|y a IH]; intros [|b x]; simpl; try ring. rewrite IH. ring. Qed.
  Lemma odot_vadd_l : forall (a b x : list T), length a = length b ->
    odot O (vadd O a b) x = oadd O (odot O a x) (odot O b x).
  Proof.
    unfold vadd. induction a as [|y a IH]; intros [|z b] [|c x] Hl; simpl in *; try lia; try ring.
    rewrite IH by lia. ring.
  Qed.
  Lemma odot_vscale_l : forall k (a x : list T), odot O (vscale O k a) x = omul O k (odot O a x).
  Proof. unfold vscale. induction a as [|y a IH]; intros [|c x]; simpl; try ring. rewrite IH. ring. Qed.
  Lemma odot_vsub_r : forall (a x y : list T), length x = length y ->
    odot O a (vsub O x y) = osub O (odot O a x) (odot O a y).
  Proof.
    unfold vsub. induction a as [|z a IH]; intros [|b x] [|c y] Hl; simpl in *; try lia; try ring.
    rewrite IH by lia. ring.
  Qed.
  Lemma mask_row_length act (r : list T) : length (mask_row O act r) = Nat.min (length act) (length r).
  Proof. unfold mask_row. rewrite map_length, combine_length. reflexivity. Qed.

  Section Sys.
    Variables (H G : Mat) (C gam qdes : Vec) (act : list bool) (n nc : nat) (relaxed : bool).
    Hypothesis HH : WFm n H.
    Hypothesis HG : length G = nc.
    Hypothesis HGr : forall k, k < nc -> length (nth k G []) = n.
    Hypothesis HC : length C = n.
    Hypothesis Hgam : length gam = nc.
    Hypothesis Hact : length act = n.
    Hypothesis Hqdes : length qdes = n.

    Let GT := mTn O G n.
    Let w100 := onat O 100.
    Definition top_row (i : nat) : list T :=
      let Hi := nth i H [] in
      if nth i act false then
        (if relaxed then vadd O Hi (vscale O w100 (mask_row O act Hi)) ++ vneg O (nth i GT [])
         else unitv O n i ++ vzeros t0 nc)
      else Hi ++ vneg O (nth i GT []).
    Lemma idc_rows_top i : i < n -> nth i (idc_rows O H G n nc act relaxed) [] = top_row i.
    Proof.
      intros Hi. unfold idc_rows. rewrite app_nth1 by (rewrite map_length, iota_length; exact Hi).
      rewrite (nth_map_iota _ [] n 0 i Hi). reflexivity.
    Qed.
    Lemma idc_rows_bot k : k < nc -> nth (n + k) (idc_rows O H G n nc act relaxed) [] = nth k G [] ++ vzeros t0 nc.
    Proof.
      intros Hk. unfold idc_rows. rewrite app_nth2 by (rewrite map_length, iota_length; lia).
      rewrite map_length, iota_length. replace (n + k - n) with k by lia.
      rewrite (nth_indep _ [] ((fun r : list T => r ++ vzeros t0 nc) [])) by (rewrite map_length; lia).
      apply (map_nth (fun r : list T => r ++ vzeros t0 nc)).
    Qed.
    Lemma GT_row_length i : i < n -> length (nth i GT []) = nc.
    Proof. intros Hi. unfold GT, mTn. rewrite (nth_mtn O) by exact Hi. rewrite mcol_length. exact HG. Qed.
    Lemma idc_rows_wf : WFm (n + nc) (idc_rows O H G n nc act relaxed).
    Proof.
      destruct HH as [EH RH]. split.
      - unfold idc_rows. rewrite app_length, !map_length, iota_length. lia.
      - intros i Hi. destruct (lt_dec i n) as [L|L].
        + rewrite idc_rows_top by exact L. unfold top_row.
          destruct (nth i act false); [destruct relaxed|].
          * rewrite app_length. unfold vneg at 1. rewrite map_length, GT_row_length by exact L.
            rewrite (vadd_length O). unfold vscale. rewrite map_length, mask_row_length, RH by exact L. lia.
          * rewrite app_length, unitv_length. unfold vzeros. rewrite repeat_length. reflexivity.
          * rewrite app_length. unfold vneg. rewrite map_length, GT_row_length, RH by exact L. reflexivity.
        + replace i with (n + (i - n)) by lia. rewrite idc_rows_bot by lia.
          rewrite app_length, HGr by lia. unfold vzeros. rewrite repeat_length. reflexivity.
    Qed.
    Lemma idc_rhs_length : length (idc_rhs O H C gam qdes n act relaxed) = n + nc.
    Proof. unfold idc_rhs. rewrite app_length, map_length, iota_length. lia. Qed.
    Lemma idc_rhs_top i : i < n -> vg O (idc_rhs O H C gam qdes n act relaxed) i =
      if nth i act false then
        (if relaxed then omul O w100 (odot O (mask_row O act (nth i H [])) qdes) else vget t0 qdes i)
      else oopp O (vget t0 C i).
    Proof.
      intros Hi. unfold idc_rhs, vg, vget. rewrite app_nth1 by (rewrite map_length, iota_length; exact Hi).
      rewrite (nth_map_iota _ t0 n 0 i Hi). reflexivity.
    Qed.
    Lemma idc_rhs_bot k : k < nc -> vg O (idc_rhs O H C gam qdes n act relaxed) (n + k) = vg O gam k.
    Proof.
      intros Hk. unfold idc_rhs, vg, vget. rewrite app_nth2 by (rewrite map_length, iota_length; lia).
      rewrite map_length, iota_length. f_equal. lia.
    Qed.

    (* what a solution z = qdd ++ lam of the system satisfies *)
    Theorem idc_solution qdd lam : length qdd = n -> length lam = nc ->
      Sol O (n + nc) (idc_rows O H G n nc act relaxed) (idc_rhs O H C gam qdes n act relaxed) (qdd ++ lam) ->
      let tau := idc_tau O H G C qdes qdd lam n act relaxed in
      mvmul O G qdd = gam /\
      (forall i, i < n -> nth i act false = false -> vget t0 tau i = t0) /\
      (forall i, i < n -> oadd O (odot O (nth i H []) qdd) (vget t0 C i) = oadd O (vget t0 tau i) (odot O (nth i GT []) lam)) /\
      (relaxed = false -> forall i, i < n -> nth i act false = true -> vget t0 qdd i = vget t0 qdes i).
    Proof.
      intros Lq Ll S0. destruct HH as [EH RH]. cbv zeta.
      assert (Tau : forall i, i < n -> vget t0 (idc_tau O H G C qdes qdd lam n act relaxed) i =
                if nth i act false then
                  (if relaxed
                   then oadd O (omul O w100 (odot O (mask_row O act (nth i H [])) (vsub O qdes qdd))) (vget t0 C i)
                   else osub O (oadd O (odot O (nth i H []) qdd) (vget t0 C i)) (odot O (nth i GT []) lam))
                else t0).
      { intros i Hi. unfold idc_tau, vget. rewrite (nth_map_iota _ t0 n 0 i Hi). reflexivity. }
      assert (Row : forall i, i < n -> odot O (top_row i) (qdd ++ lam) = vg O (idc_rhs O H C gam qdes n act relaxed) i).
      { intros i Hi. rewrite <- idc_rows_top by exact Hi. apply S0. lia. }
      split; [|split; [|split]].
      - apply (list_ext t0); [rewrite (mvmul_length O); lia|]. rewrite (mvmul_length O). intros k Hk.
        rewrite (nth_mvmul O) by exact Hk.
        pose proof (S0 (n + k) ltac:(lia)) as Q. rewrite idc_rows_bot, idc_rhs_bot in Q by lia.
        rewrite (odot_app O) in Q by (rewrite HGr by lia; lia). rewrite (odot_zeros_l O) in Q.
        unfold vg, vget in Q. rewrite <- Q. ring.
      - intros i Hi Hu. rewrite Tau by exact Hi. rewrite Hu. reflexivity.
      - intros i Hi. rewrite Tau by exact Hi. pose proof (Row i Hi) as R. rewrite idc_rhs_top in R by exact Hi.
        unfold top_row in R. destruct (nth i act false) eqn:Ea; [destruct relaxed eqn:Er|].
        + rewrite (odot_app O) in R.
          2:{ rewrite (vadd_length O). unfold vscale. rewrite map_length, mask_row_length, RH by exact Hi. lia. }
          rewrite odot_vadd_l in R by (unfold vscale; rewrite map_length, mask_row_length, RH by exact Hi; lia).
          rewrite odot_vscale_l, odot_vneg_l in R.
          rewrite odot_vsub_r by lia.
          set (a := odot O (nth i H []) qdd) in *. set (mq := odot O (mask_row O act (nth i H [])) qdd) in *.
          set (md := odot O (mask_row O act (nth i H [])) qdes) in *. set (g := odot O (nth i GT []) lam) in *.
          assert (E : a = osub O (oadd O (omul O w100 md) g) (omul O w100 mq)) by (rewrite <- R; ring).
          rewrite E. unfold vget. ring.
        + unfold vget. ring.
        + rewrite (odot_app O) in R by (rewrite RH by exact Hi; lia). rewrite odot_vneg_l in R.
          unfold vget in *.
          transitivity (oadd O (oadd O (odot O (nth i H []) qdd) (oopp O (odot O (nth i GT []) lam)))
                               (oadd O (nth i C t0) (odot O (nth i GT []) lam))); [ring|].
          rewrite R. ring.
      - intros Er i Hi Ea. pose proof (Row i Hi) as R. rewrite idc_rhs_top in R by exact Hi.
        unfold top_row in R. rewrite Ea, Er in R.
        rewrite (odot_app O) in R by (rewrite unitv_length; lia).
        rewrite (odot_zeros_l O), (odot_unitv n qdd i Lq Hi) in R. unfold vget in *. rewrite <- R. ring.
    Qed.
  End Sys.

  Theorem idc_equations (M : @Model T) (w : @WS T) q qd qdes cs act relaxed fext w' Sy qdd tau lam :
    inverse_dynamics_constraints O M w q qd qdes cs act relaxed fext = (w', Sy, Some (qdd, tau, lam)) ->
    let n := dof_count M in let nc := length cs in
    WFm n (cH Sy) -> length (cG Sy) = nc -> (forall k, k < nc -> length (nth k (cG Sy) []) = n) ->
    length (cC Sy) = n -> length (cgamma Sy) = nc -> length act = n -> length qdes = n ->
    mvmul O (cG Sy) qdd = cgamma Sy /\
    (forall i, i < n -> nth i act false = false -> vget t0 tau i = t0) /\
    (forall i, i < n -> oadd O (odot O (nth i (cH Sy) []) qdd) (vget t0 (cC Sy) i) =
                        oadd O (vget t0 tau i) (odot O (nth i (mTn O (cG Sy) n) []) lam)) /\
    (relaxed = false -> forall i, i < n -> nth i act false = true -> vget t0 qdd i = vget t0 qdes i).
  Proof.
    unfold inverse_dynamics_constraints. cbv zeta.
    destruct (calc_constrained_system_variables O M w q qd cs true fext) as [w1 S1].
    destruct (solve_pp O _ _) as [z|] eqn:E; [|discriminate].
    intros Q. injection Q as <- <- <- <- <-.
    intros WH LG LGr LC Lg La Lq.
    pose proof (idc_rows_wf (cH S1) (cG S1) (cC S1) (cgamma S1) qdes act (dof_count M) (length cs) relaxed WH LG LGr LC Lg La Lq) as WR.
    pose proof (idc_rhs_length (cH S1) (cG S1) (cC S1) (cgamma S1) qdes act (dof_count M) (length cs) relaxed LG LC Lg La Lq) as LR.
    destruct (solve_pp_sound O oeqb_spec (dof_count M + length cs) _ _ z WR LR E) as [Lz Sz].
    apply (idc_solution (cH S1) (cG S1) (cC S1) (cgamma S1) qdes act (dof_count M) (length cs) relaxed WH LG LGr LC Lg La Lq);
      try apply vslice_length.
    rewrite <- (split_slices O z (dof_count M) (length cs) Lz). exact Sz.
  Qed.
End Idc.
