(* C05: G(q) qdot = velocity.  Stage 1: writing columns into a zero matrix and multiplying by a vector. *)
From Coq Require Import List Bool Arith NArith Lia Ring Field.
From RV Require Import Scalar Laws Tac ListArr ListLemmas LinDef LinThm LinAlg3 Spatial Quat SpatialLaws ModelDef JointDef KinDef Tree
     C14Thm WsLemmas KinThm DynThm ConsThm JacThm.
Import ListNotations.

Section Writes.
  Context {T : Type} (O : Ops T) {FL : FieldLaws O}.
  Add Field FlFj2 : (@fl_field T O FL).
  Local Notation t0 := (o0 O).
  Local Notation Mat := (list (list T)).

  Lemma odot_upd_l : forall (r x : list T) i v, i < length r -> length r = length x ->
    odot O (upd r i v) x = oadd O (odot O r x) (omul O (osub O v (nth i r t0)) (nth i x t0)).
  Proof.
    induction r as [|a r IH]; intros [|b x] i v Hi Hl; simpl in *; try lia.
    destruct i; simpl.
    - ring.
    - rewrite IH by lia. ring.
  Qed.

  (* ---- one column ---- *)
  Definition wstep (c : nat) (acc : Mat * nat) (x : T) : Mat * nat := (mset (fst acc) (snd acc) c x, S (snd acc)).
  Lemma wcol_length c : forall col G start, length (fst (fold_left (wstep c) col (G, start))) = length G.
  Proof.
    induction col as [|x col IH]; intros G start; cbn [fold_left]; [reflexivity|].
    unfold wstep at 2. cbn [fst snd]. rewrite IH. unfold mset. apply upd_length.
  Qed.
  Lemma wcol_row c : forall col G start r, start + length col <= length G ->
    nth r (fst (fold_left (wstep c) col (G, start))) [] =
    if (Nat.leb start r && Nat.ltb r (start + length col))%bool then upd (nth r G []) c (nth (r - start) col t0) else nth r G [].
  Proof.
    induction col as [|x col IH]; intros G start r Hl; cbn [fold_left length] in *.
    - rewrite Nat.add_0_r. destruct (Nat.leb_spec start r), (Nat.ltb_spec r start); cbn; try reflexivity; lia.
    - unfold wstep at 2. cbn [fst snd].
      rewrite IH by (unfold mset; rewrite upd_length; lia).
      unfold mset.
      destruct (Nat.eq_dec r start) as [->|Ne].
      + replace (Nat.leb (S start) start) with false by (symmetry; apply Nat.leb_gt; lia). cbn [andb].
        rewrite Nat.leb_refl. replace (Nat.ltb start (start + S (length col))) with true by (symmetry; apply Nat.ltb_lt; lia).
        cbn [andb]. rewrite nth_upd_eq by lia. rewrite Nat.sub_diag. reflexivity.
      + rewrite nth_upd_neq by congruence.
        destruct (Nat.leb_spec (S start) r) as [L|L].
        * replace (Nat.leb start r) with true by (symmetry; apply Nat.leb_le; lia).
          replace (Nat.ltb r (S start + length col)) with (Nat.ltb r (start + S (length col))) by (f_equal; lia).
          cbn [andb]. destruct (Nat.ltb r (start + S (length col))); [|reflexivity].
          replace (r - start) with (S (r - S start)) by lia. reflexivity.
        * replace (Nat.leb start r) with false by (symmetry; apply Nat.leb_gt; lia). reflexivity.
  Qed.

  (* ---- a block of columns: row r of the result ---- *)
  Lemma fold_iota_S {A} (f : A -> nat -> A) : forall m a x, fold_left f (iota (S a) m) x = fold_left (fun y k => f y (S k)) (iota a m) x.
  Proof. induction m as [|m IH]; intros a x; cbn [iota fold_left]; [reflexivity|]. apply IH. Qed.
  Lemma fold_left_ext {A B} (f g : A -> B -> A) : (forall a b, f a b = g a b) -> forall l x, fold_left f l x = fold_left g l x.
  Proof. intros H. induction l as [|b l IH]; intros x; cbn; [reflexivity|]. rewrite H. apply IH. Qed.
  Lemma mset_cols_length : forall cols (G : Mat) c, length (mset_cols G c cols) = length G.
  Proof.
    induction cols as [|col cols IH]; intros G c; cbn [mset_cols]; [reflexivity|].
    rewrite IH. change (fold_left _ col (G, 0)) with (fold_left (wstep c) col (G, 0)). apply wcol_length.
  Qed.
  Lemma mset_cols_row : forall cols (G : Mat) c r, (forall col, In col cols -> length col = length G) -> r < length G ->
    nth r (mset_cols G c cols) [] =
    fold_left (fun row k => upd row (c + k) (nth r (nth k cols []) t0)) (iota 0 (length cols)) (nth r G []).
  Proof.
    induction cols as [|col cols IH]; intros G c r Hc Hr; cbn [mset_cols length iota fold_left]; [reflexivity|].
    change (fold_left _ col (G, 0)) with (fold_left (wstep c) col (G, 0)).
    rewrite IH.
    - rewrite wcol_row by (rewrite (Hc col) by (left; reflexivity); lia).
      rewrite (Hc col) by (left; reflexivity). cbn [Nat.add Nat.leb andb].
      replace (Nat.ltb r (length G)) with true by (symmetry; apply Nat.ltb_lt; exact Hr).
      rewrite Nat.sub_0_r, Nat.add_0_r. cbn [nth].
      rewrite fold_iota_S. apply fold_left_ext. intros row k. cbn [nth]. f_equal. lia.
    - intros col' Hin. rewrite wcol_length. apply Hc. right. exact Hin.
    - rewrite wcol_length. exact Hr.
  Qed.

  (* ---- a row after writing m consecutive entries, and its dot product ---- *)
  Definition wrow (c : nat) (vals : nat -> T) (m : nat) (row : list T) : list T :=
    fold_left (fun row k => upd row (c + k) (vals k)) (iota 0 m) row.
  Lemma wrow_S c vals m row : wrow c vals (S m) row = upd (wrow c vals m row) (c + m) (vals m).
  Proof. unfold wrow. rewrite iota_snoc, fold_left_app. reflexivity. Qed.
  Lemma wrow_length c vals : forall m row, length (wrow c vals m row) = length row.
  Proof. induction m as [|m IH]; intros row; [reflexivity|]. rewrite wrow_S, upd_length. apply IH. Qed.
  Lemma wrow_other c vals : forall m row j, (j < c \/ c + m <= j) -> nth j (wrow c vals m row) t0 = nth j row t0.
  Proof.
    induction m as [|m IH]; intros row j H; [reflexivity|].
    rewrite wrow_S, nth_upd_neq by lia. apply IH. lia.
  Qed.
  Lemma wrow_odot c vals : forall m row qd, length row = length qd -> c + m <= length row ->
    (forall k, k < m -> nth (c + k) row t0 = t0) ->
    odot O (wrow c vals m row) qd =
    oadd O (odot O row qd) (fsum O (fun k => omul O (vals k) (nth (c + k) qd t0)) (iota 0 m) t0).
  Proof.
    induction m as [|m IH]; intros row qd Hl Hc Hz.
    - cbn. ring.
    - rewrite wrow_S. rewrite odot_upd_l by (rewrite wrow_length; lia).
      rewrite IH by (auto; lia). rewrite wrow_other by lia. rewrite (Hz m) by lia.
      rewrite iota_snoc, (fsum_app O). cbn [Nat.add]. rewrite (fsum_cons O). cbn [fsum fold_left]. ring.
  Qed.

  (* ---- blocks of columns written one after the other into a matrix ---- *)
  Section Blocks.
    Variables (rows n : nat) (qd : list T).
    Hypothesis Hqd : length qd = n.
    Definition Block : Type := nat * list (list T).
    Definition fill (G : Mat) (bs : list Block) : Mat := fold_left (fun G b => mset_cols G (fst b) (snd b)) bs G.
    Definition bterm (r : nat) (b : Block) : T :=
      fsum O (fun k => omul O (nth r (nth k (snd b) []) t0) (nth (fst b + k) qd t0)) (iota 0 (length (snd b))) t0.
    Fixpoint bsum (r : nat) (bs : list Block) : T := match bs with [] => t0 | b :: t => oadd O (bterm r b) (bsum r t) end.
    Definition block_ok (b : Block) : Prop := fst b + length (snd b) <= n /\ forall col, In col (snd b) -> length col = rows.
    Definition bdisj (b b' : Block) : Prop := fst b + length (snd b) <= fst b' \/ fst b' + length (snd b') <= fst b.
    Definition WFG (G : Mat) : Prop := length G = rows /\ forall i, i < rows -> length (nth i G []) = n.

    Lemma fill_step_wf G b : WFG G -> block_ok b -> WFG (mset_cols G (fst b) (snd b)).
    Proof.
      intros [HG HR] [Hb Hc]. split; [rewrite mset_cols_length; exact HG|].
      intros i Hi. rewrite mset_cols_row by (try (intros col Hin; rewrite HG; apply Hc; exact Hin); lia).
      fold (wrow (fst b) (fun k => nth i (nth k (snd b) []) t0) (length (snd b)) (nth i G [])).
      rewrite wrow_length. apply HR. exact Hi.
    Qed.

    Theorem fill_odot : forall bs G r, r < rows -> WFG G -> Forall block_ok bs -> ForallOrdPairs bdisj bs ->
      (forall b, In b bs -> forall k, k < length (snd b) -> nth (fst b + k) (nth r G []) t0 = t0) ->
      odot O (nth r (fill G bs) []) qd = oadd O (odot O (nth r G []) qd) (bsum r bs).
    Proof.
      induction bs as [|b bs IH]; intros G r Hr HW Hok Hdis Hz; cbn [fill fold_left bsum].
      - ring.
      - inversion Hok as [|b0 l0 Hb Hrest]; subst. inversion Hdis as [|b0 l0 Hd Hdrest]; subst.
        pose proof (fill_step_wf G b HW Hb) as HW'.
        fold (fill (mset_cols G (fst b) (snd b)) bs).
        assert (Erow : nth r (mset_cols G (fst b) (snd b)) [] =
                       wrow (fst b) (fun k => nth r (nth k (snd b) []) t0) (length (snd b)) (nth r G [])).
        { destruct HW as [HG HR]. destruct Hb as [Hb1 Hb2].
          rewrite mset_cols_row by (try (intros col Hin; rewrite HG; apply Hb2; exact Hin); lia). reflexivity. }
        rewrite IH; auto.
        + rewrite Erow. destruct HW as [HG HR]. destruct Hb as [Hb1 Hb2].
          rewrite wrow_odot.
          * unfold bterm. ring.
          * rewrite HR by exact Hr. lia.
          * rewrite HR by exact Hr. lia.
          * intros k Hk. apply Hz; [left; reflexivity|exact Hk].
        + intros b' Hin k Hk. rewrite Erow. rewrite wrow_other.
          * apply Hz; [right; exact Hin|exact Hk].
          * rewrite Forall_forall in Hd. destruct (Hd b' Hin) as [D|D]; lia.
    Qed.
  End Blocks.
End Writes.

(* Stage 3: the Jacobian fill over the path, multiplied by qdot, is the body's velocity. *)
Section JacVel.
  Context {T : Type} (O : Ops T) {FL : FieldLaws O}.
  Add Field FlFj3 : (@fl_field T O FL).
  Local Notation t0 := (o0 O).
  Local Notation Model := (@Model T). Local Notation WS := (@WS T).

  (* components of spatial vectors are linear *)
  Definition comp (r : nat) (x : SV T) : T := nth r (svlist x) t0.
  Lemma comp_add r a b : comp r (svadd O a b) = oadd O (comp r a) (comp r b).
  Proof. unfold comp. destruct a, b. destruct r as [|[|[|[|[|[|r]]]]]]; cbn; try ring. destruct r; cbn; ring. Qed.
  Lemma comp_scale r k a : comp r (svscale O k a) = omul O k (comp r a).
  Proof. unfold comp. destruct a. destruct r as [|[|[|[|[|[|r]]]]]]; cbn; try ring. destruct r; cbn; ring. Qed.
  Lemma comp_zero r : comp r (svzero O) = t0.
  Proof. unfold comp. destruct r as [|[|[|[|[|[|r]]]]]]; cbn; try reflexivity. destruct r; reflexivity. Qed.
  Lemma apply_add X a b : st_apply O X (svadd O a b) = svadd O (st_apply O X a) (st_apply O X b).
  Proof. l1_split; ring. Qed.
  Lemma apply_scale X k a : st_apply O X (svscale O k a) = svscale O k (st_apply O X a).
  Proof. l1_split; ring. Qed.
  Lemma apply_zero X : st_apply O X (svzero O) = svzero O.
  Proof. l1_split; ring. Qed.

  (* a linear map applied to S * a, componentwise, as the sum over the columns *)
  Lemma comp_cols (L : SV T -> SV T) (Ladd : forall a b, L (svadd O a b) = svadd O (L a) (L b))
        (Lsc : forall k a, L (svscale O k a) = svscale O k (L a)) (L0 : L (svzero O) = svzero O) r :
    forall (S : list (SV T)) (a : list T), length S <= length a ->
      comp r (L (cols_mulv O S a)) =
      fsum O (fun k => omul O (comp r (L (nth k S (svzero O)))) (nth k a t0)) (iota 0 (length S)) t0.
  Proof.
    induction S as [|s S IH]; intros a Hl.
    - cbn. rewrite L0. apply comp_zero.
    - destruct a as [|x a]; [cbn in Hl; lia|]. cbn [cols_mulv length iota].
      rewrite Ladd, comp_add, Lsc, comp_scale. rewrite (fsum_cons O), (fsum_acc O), (fsum_shift O).
      rewrite IH by (cbn in Hl; lia). cbn [nth]. ring.
  Qed.

  Variable M : Model.
  Hypothesis W : WF M.
  Let N := nbodies M.
  Let n := dof_count M.
  Variable w : WS.
  Variable qd : list T.
  Hypothesis Hqd : length qd = n.
  Hypothesis HS : forall i, 0 < i < N -> length (jS O M w i) = jdof (getJ M i).
  Hypothesis Hrot : forall i, 0 < i < N -> m3rot O (stE (gXb O w i)).
  (* the transforms and velocities the algorithms leave: X_base composed along the tree, v by the velocity recursion *)
  Variable Xl : nat -> ST T.
  Variable v : nat -> SV T.
  Hypothesis HX : forall i, 0 < i < N -> gXb O w i = if Nat.eqb (getlam M i) 0 then Xl i else st_mul O (Xl i) (gXb O w (getlam M i)).
  Hypothesis Hv0 : v 0 = svzero O.
  Hypothesis Hv : forall i, 0 < i < N ->
    v i = svadd O (st_apply O (Xl i) (v (getlam M i))) (cols_mulv O (jS O M w i) (qd_seg O M i qd)).

  (* velocity of body i in base coordinates *)
  Definition Vb (i : nat) : SV T := if Nat.eqb i 0 then svzero O else st_apply O (st_inv O (gXb O w i)) (v i).
  Definition vJb (i : nat) : SV T := st_apply O (st_inv O (gXb O w i)) (cols_mulv O (jS O M w i) (qd_seg O M i qd)).

  Lemma rot_T (E : M3 T) : m3rot O E -> m3rot O (m3T E).
  Proof. intros [Ho Hd]. split; [apply (@orth_T T O FL); exact Ho|]. rewrite <- Hd. destruct E. cbv_sc. ring. Qed.
  Lemma apply_apply_inv X x : m3rot O (stE X) -> st_apply O X (st_apply O (st_inv O X) x) = x.
  Proof.
    intros H. rewrite <- (@st_apply_mul T O FL) by (cbn [st_inv stE]; apply rot_T; exact H).
    rewrite (@st_mul_inv_r T O FL) by (apply H). l1_split; ring.
  Qed.

  Lemma Vb_step i : 0 < i < N -> Vb i = svadd O (Vb (getlam M i)) (vJb i).
  Proof.
    intros Hi. unfold Vb at 1. destruct (Nat.eqb_spec i 0); [lia|].
    rewrite (Hv i Hi), apply_add. fold (vJb i). f_equal.
    pose proof (wf_parent M W i Hi) as Hl. fold (getlam M i) in Hl.
    unfold Vb. destruct (Nat.eqb_spec (getlam M i) 0) as [e|ne].
    - rewrite e, Hv0, !apply_zero. reflexivity.
    - rewrite (HX i Hi). destruct (Nat.eqb_spec (getlam M i) 0); [contradiction|].
      assert (Hp : 0 < getlam M i < N) by (unfold N in *; lia).
      set (Xp := gXb O w (getlam M i)). set (x := v (getlam M i)).
      (* (Xl Xp)^-1 (Xl x) = Xp^-1 x *)
      pose proof (Hrot _ Hp) as Rp. fold Xp in Rp.
      assert (E : st_apply O (Xl i) x = st_apply O (st_mul O (Xl i) Xp) (st_apply O (st_inv O Xp) x)).
      { rewrite (@st_apply_mul T O FL) by exact Rp. rewrite apply_apply_inv by exact Rp. reflexivity. }
      rewrite E. rewrite (@apply_inv_apply T O FL); [reflexivity|].
      pose proof (Hrot i Hi) as Ri. rewrite (HX i Hi) in Ri. destruct (Nat.eqb_spec (getlam M i) 0); [contradiction|]. exact Ri.
  Qed.

  (* ---- the path ---- *)
  Lemma path_fuel : forall f f' j, j < N -> j <= f -> j <= f' -> path_to_base M f j = path_to_base M f' j.
  Proof.
    induction f as [|f IH]; intros f' j Hn Hf Hf'.
    - assert (j = 0) by lia. subst. destruct f'; reflexivity.
    - destruct f' as [|f']; [assert (j = 0) by lia; subst; reflexivity|]. cbn [path_to_base].
      destruct (Nat.eqb_spec j 0); [reflexivity|]. f_equal.
      pose proof (wf_parent M W j ltac:(unfold N in *; lia)) as Hl. fold (getlam M j) in Hl. apply IH; unfold N in *; lia.
  Qed.
  Lemma path_unfold j : 0 < j < N -> path_to_base M N j = j :: path_to_base M N (getlam M j).
  Proof.
    intros Hj.
    pose proof (wf_parent M W j ltac:(unfold N in *; lia)) as Hl. fold (getlam M j) in Hl.
    assert (E : path_to_base M N j = path_to_base M (S j) j) by (apply path_fuel; lia).
    rewrite E. cbn [path_to_base]. destruct (Nat.eqb_spec j 0); [lia|]. f_equal.
    apply path_fuel; lia.
  Qed.
  Lemma path_0 : path_to_base M N 0 = [].
  Proof. rewrite (path_fuel N 1 0) by (pose proof (wf_pos M W); unfold N; lia). reflexivity. Qed.
  Lemma path_bound : forall j, j < N -> forall x, In x (path_to_base M N j) -> 0 < x <= j.
  Proof.
    induction j as [j IH] using lt_wf_ind. intros Hj x Hx.
    destruct (Nat.eq_dec j 0) as [->|ne]; [rewrite path_0 in Hx; destruct Hx|].
    rewrite path_unfold in Hx by lia. destruct Hx as [<-|Hx]; [lia|].
    pose proof (wf_parent M W j ltac:(unfold N in *; lia)) as Hl. fold (getlam M j) in Hl.
    specialize (IH (getlam M j) Hl ltac:(lia) x Hx). lia.
  Qed.

  (* ---- the blocks written by jac_fill ---- *)
  Variable rows : nat.
  Variable B : ST T.                       (* the frame the columns are expressed in *)
  Variable proj : SV T -> list T.         (* svlist (6 rows) or its linear part (3 rows) *)
  Hypothesis Hproj_len : forall x, length (proj x) = rows.
  Variable off : nat.                      (* proj x = skipn off (svlist x) *)
  Hypothesis Hproj : forall x r, r < rows -> nth r (proj x) t0 = comp (off + r) x.
  Let f (s : SV T) : list T := proj (st_apply O B s).
  Definition blk (j : nat) : Block := (jq (getJ M j), map (fun s => f (st_apply O (st_inv O (gXb O w j)) s)) (jS O M w j)).
  Lemma jac_fill_is_fill G b : jac_fill O M w G b f = fill G (map blk (path_to_base M N b)).
  Proof.
    unfold jac_fill, fill. fold N. generalize (path_to_base M N b) as P. intros P. revert G.
    induction P as [|j P IH]; intros G; cbn [map fold_left]; [reflexivity|]. apply IH.
  Qed.

  Lemma bterm_blk r j : r < rows -> 0 < j < N ->
    bterm O qd r (blk j) = comp (off + r) (st_apply O B (vJb j)).
  Proof.
    intros Hr Hj. unfold bterm, blk, vJb. cbn [fst snd]. rewrite map_length.
    rewrite (comp_cols (fun x => st_apply O B (st_apply O (st_inv O (gXb O w j)) x))).
    - apply (fsum_ext O). intros k Hk. apply in_iota in Hk.
      rewrite (nth_indep _ [] (f (st_apply O (st_inv O (gXb O w j)) (svzero O)))) by (rewrite map_length; lia).
      rewrite (map_nth (fun s => f (st_apply O (st_inv O (gXb O w j)) s))). unfold f. rewrite Hproj by exact Hr.
      f_equal. unfold qd_seg. rewrite vslice_nth by (rewrite <- HS by exact Hj; lia). reflexivity.
    - intros a b. rewrite !apply_add. reflexivity.
    - intros k a. rewrite !apply_scale. reflexivity.
    - rewrite !apply_zero. reflexivity.
    - unfold qd_seg. rewrite vslice_length, HS by exact Hj. lia.
  Qed.

  Lemma bsum_path r : r < rows -> forall j, j < N ->
    bsum O qd r (map blk (path_to_base M N j)) = comp (off + r) (st_apply O B (Vb j)).
  Proof.
    intros Hr. induction j as [j IH] using lt_wf_ind. intros Hj.
    destruct (Nat.eq_dec j 0) as [->|ne].
    - rewrite path_0. cbn [map bsum]. unfold Vb. cbn [Nat.eqb]. rewrite apply_zero, comp_zero. reflexivity.
    - rewrite path_unfold by lia. cbn [map bsum].
      pose proof (wf_parent M W j ltac:(unfold N in *; lia)) as Hl. fold (getlam M j) in Hl.
      rewrite IH by lia. rewrite bterm_blk by (try exact Hr; lia).
      rewrite (Vb_step j) by lia. rewrite apply_add, comp_add. ring.
  Qed.

  Lemma blocks_ok b : b < N -> Forall (block_ok rows n) (map blk (path_to_base M N b)).
  Proof.
    intros Hb. apply Forall_forall. intros bk Hin. apply in_map_iff in Hin. destruct Hin as (j & <- & Hj).
    pose proof (path_bound b Hb j Hj) as Bj. split.
    - unfold blk. cbn [fst snd]. rewrite map_length, HS by (unfold N in *; lia).
      apply (jq_bound M W). unfold N in *. lia.
    - intros col Hc. unfold blk in Hc. cbn [snd] in Hc. apply in_map_iff in Hc. destruct Hc as (s0 & <- & _).
      unfold f. apply Hproj_len.
  Qed.
  Lemma blocks_disjoint : forall b, b < N -> ForallOrdPairs bdisj (map blk (path_to_base M N b)).
  Proof.
    induction b as [b IH] using lt_wf_ind. intros Hb.
    destruct (Nat.eq_dec b 0) as [->|ne]; [rewrite path_0; constructor|].
    rewrite path_unfold by lia. cbn [map].
    pose proof (wf_parent M W b ltac:(unfold N in *; lia)) as Hl. fold (getlam M b) in Hl.
    constructor; [|apply IH; lia].
    apply Forall_forall. intros bk Hin. apply in_map_iff in Hin. destruct Hin as (j & <- & Hj).
    pose proof (path_bound (getlam M b) ltac:(lia) j Hj) as Bj.
    right. unfold blk. cbn [fst snd]. rewrite map_length, HS by (unfold N in *; lia).
    apply (jq_mono M W); unfold N in *; lia.
  Qed.

  (* G(q) qdot, row by row *)
  Theorem jac_fill_times_qd b r : 0 < b < N -> r < rows ->
    odot O (nth r (jac_fill O M w (mzeros t0 rows n) b f) []) qd = comp (off + r) (st_apply O B (Vb b)).
  Proof.
    intros Hb Hr. rewrite jac_fill_is_fill.
    rewrite (fill_odot O rows n qd Hqd).
    - rewrite bsum_path by (try exact Hr; lia).
      assert (Z : odot O (nth r (mzeros t0 rows n) []) qd = t0).
      { unfold mzeros. rewrite (nth_indep _ [] (vzeros t0 n)) by (rewrite repeat_length; exact Hr).
        rewrite nth_repeat. apply (odot_zeros_l O). }
      rewrite Z. ring.
    - exact Hr.
    - split; [unfold mzeros; apply repeat_length|]. intros i Hi. unfold mzeros.
      rewrite (nth_indep _ [] (vzeros t0 n)) by (rewrite repeat_length; exact Hi). rewrite nth_repeat. unfold vzeros. apply repeat_length.
    - apply blocks_ok. lia.
    - apply blocks_disjoint. lia.
    - intros bk _ k _. exact (mget_zeros O rows n r (fst bk + k)).
  Qed.
End JacVel.
