(* C14 / C13: the workspace invariant `Good` (array sizes, and per joint: constant motion-subspace columns and
   never-written entries of the 3-DoF subspace, zero bias acceleration where the code never writes it, joint arity
   matching the joint kind, custom joints registered) is established by construction: every model reachable from
   the empty model by construction calls carries a workspace that satisfies it.  With the preservation lemmas of
   the routines (jcalc_full_inv, ukc_q_good, ...) the hypothesis `Good O M w` of the C01-C13 theorems is discharged
   for the workspace of every constructed model. *)
From Coq Require Import List Bool Arith NArith Lia.
From RV Require Import Scalar Laws LinAlg3 Spatial Quat ListArr ModelDef JointDef KinDef C14Thm WsLemmas KinThm.
Import ListNotations.

Section G.
  Context {T : Type} (O : Ops T).
  Hypothesis oeqb_spec : forall x y : T, oeqb O x y = true <-> x = y.
  Local Notation t0 := (o0 O). Local Notation t1 := (o1 O).
  Local Notation Model := (@Model T). Local Notation WS := (@WS T).
  Local Notation Joint := (@Joint T).

  Definition GoodJ (M : Model) : Prop := forall j, 0 < j < nbodies M -> WsInvJ O M (ws M) j /\ kind_dof M (ws M) j.

  (* what the joint handed to add_movable has to satisfy *)
  Definition JOK (j : Joint) (nc : nat) : Prop :=
    match jkind j with
    | JRevX => nth 0 (jaxes j) (svzero O) = ex O /\ jdof j = 1
    | JRevY => nth 0 (jaxes j) (svzero O) = ey O /\ jdof j = 1
    | JRevZ => nth 0 (jaxes j) (svzero O) = ez O /\ jdof j = 1
    | JRevolute | JPrismatic | JHelical => jdof j = 1
    | JSpherical | JEulerZYX | JEulerXYZ | JEulerYXZ | JEulerZXY | JTransXYZ => jdof j = 3
    | JCustom c => jdof j = cdof c /\ jcust j < nc
    | JRoot => False
    end.

  Lemma sv_eqb_eq (a b : SV T) : sv_eqb O a b = true -> a = b.
  Proof.
    destruct a, b. unfold sv_eqb. cbn. rewrite !andb_true_iff. intros (A & B & C & D & E & F & _).
    apply oeqb_spec in A, B, C, D, E, F. subst. reflexivity.
  Qed.
  Lemma classify_JOK (a : SV T) nc : JOK (classify_axis O a) nc.
  Proof.
    unfold classify_axis, JOK. cbn [jkind jaxes jdof nth].
    destruct (sv_eqb O a (ax t1 t0 t0 t0 t0 t0)) eqn:E1; [split; [apply sv_eqb_eq; exact E1|reflexivity]|].
    destruct (sv_eqb O a (ax t0 t1 t0 t0 t0 t0)) eqn:E2; [split; [apply sv_eqb_eq; exact E2|reflexivity]|].
    destruct (sv_eqb O a (ax t0 t0 t1 t0 t0 t0)) eqn:E3; [split; [apply sv_eqb_eq; exact E3|reflexivity]|].
    destruct (oeqb O (s0 a) t0 && oeqb O (s1 a) t0 && oeqb O (s2 a) t0); reflexivity.
  Qed.

  Lemma nth_app_last {A} (l : list A) x d n : length l = n -> nth n (l ++ [x]) d = x.
  Proof. intros <-. rewrite app_nth2 by lia. rewrite Nat.sub_diag. reflexivity. Qed.

  Lemma add_movable_GoodJ (M : Model) parent X j b nm M' id :
    WF M -> GoodJ M -> JOK j (length (wcS (ws M))) ->
    add_movable O M parent X j b nm = (M', ROk id) -> GoodJ M'.
  Proof.
    intros W G Hj. unfold add_movable. destruct (name_taken M nm); [discriminate|].
    destruct (if is_fixed_id M parent then (fparent (getfixed O M (fidx parent)), fxf (getfixed O M (fidx parent)))
              else (N.to_nat parent, stid O)) as [mp mpX].
    intro H. injection H as <- _.
    pose proof (wf_ws M W) as L. unfold ws_len in L. decompose [and] L. clear L.
    pose proof (wf_joints M W) as LJ.
    intros i [Hi0 Hi]. unfold nbodies in Hi. cbn [bodies] in Hi. rewrite app_length in Hi. cbn [length] in Hi. fold (nbodies M) in Hi.
    unfold WsInvJ, kind_dof, getJ, gS, gvJ, gcJ, gmS, jaxis, getJ.
    cbn [joints ws ws_push wS wvJ wcJ wmS wcS].
    destruct (Nat.eq_dec i (nbodies M)) as [->|ne].
    - (* the new body *)
      rewrite !(nth_app_last (joints M)) by assumption. cbn [jkind jaxes jdof jcust].
      rewrite (nth_app_last (wS (ws M))), (nth_app_last (wvJ (ws M))), (nth_app_last (wcJ (ws M))), (nth_app_last (wmS (ws M))) by assumption.
      unfold JOK in Hj. unfold svz, mS_clean, m63zero.
      destruct (jkind j); try contradiction; try (destruct Hj as [Ha Hd]; try rewrite Ha);
        repeat split; try assumption; try reflexivity;
        try (exists t1; reflexivity);
        try (exists t0, t0, t0, t0, t0, t0; reflexivity).
    - (* an old body *)
      assert (Hlt : i < nbodies M) by lia.
      rewrite !(app_nth1 (joints M)) by lia.
      rewrite (app_nth1 (wS (ws M))), (app_nth1 (wvJ (ws M))), (app_nth1 (wcJ (ws M))), (app_nth1 (wmS (ws M))) by lia.
      destruct (G i (conj Hi0 Hlt)) as [A B]. split; [exact A|exact B].
  Qed.

  Lemma add_fixed_GoodJ (M : Model) parent X b nm M' id :
    GoodJ M -> add_fixed O M parent X b nm = (M', ROk id) -> GoodJ M'.
  Proof.
    intros G. unfold add_fixed. destruct (name_taken M nm); [discriminate|].
    destruct (if is_fixed_id M parent then _ else _) as [mp pX].
    destruct (body_join O _ _ _) as [pb|]; [|discriminate].
    intro H. injection H as <- _.
    intros i Hi. unfold nbodies in Hi. cbn [bodies] in Hi. rewrite upd_length in Hi.
    exact (G i Hi).
  Qed.

  Lemma add_emulated_GoodJ : forall axes (M : Model) parent X b nm M' id,
    WF M -> valid_parent M parent -> (N.of_nat (nbodies M + length axes) < fixed_disc)%N -> GoodJ M ->
    add_emulated O M parent X axes b nm = (M', ROk id) -> GoodJ M'.
  Proof.
    induction axes as [|a rest IH]; intros M parent X b nm M' id W Vp Hs G H; [discriminate|].
    destruct rest as [|a2 rest'].
    - cbn in H. exact (add_movable_GoodJ _ _ _ _ _ _ _ _ W G (classify_JOK a _) H).
    - cbn [add_emulated] in H.
      destruct (add_movable O M parent X (classify_axis O a) (null_body O) 0%N) as [M1 r1] eqn:E1.
      destruct r1 as [id1|]; [|discriminate].
      destruct (add_movable_WF O _ _ _ _ _ _ _ _ W Vp (classify_not_root O a) E1) as (W1 & Hn1 & Hf1 & Hid1 & Hc1 & _).
      pose proof (add_movable_GoodJ _ _ _ _ _ _ _ _ W G (classify_JOK a _) E1) as G1.
      assert (V1 : valid_parent M1 id1).
      { subst id1. apply (movable_id_valid M); [cbn [length] in Hs; lia | exact Hn1]. }
      assert (Hs1 : (N.of_nat (nbodies M1 + length (a2 :: rest')) < fixed_disc)%N).
      { rewrite Hn1. cbn [length] in *. lia. }
      exact (IH M1 id1 (stid O) b nm M' id W1 V1 Hs1 G1 H).
  Qed.

  (* ---------- custom joints get pairwise distinct slots ---------- *)
  Definition CustInj (M : Model) : Prop :=
    forall i j, 0 < i < nbodies M -> 0 < j < nbodies M -> i <> j ->
      is_custom (jkind (getJ M i)) = true -> is_custom (jkind (getJ M j)) = true -> jcust (getJ M i) <> jcust (getJ M j).

  Lemma add_movable_CustInj (M : Model) parent X j b nm M' id :
    WF M -> CustInj M ->
    (is_custom (jkind j) = true -> forall i, 0 < i < nbodies M -> is_custom (jkind (getJ M i)) = true -> jcust (getJ M i) <> jcust j) ->
    add_movable O M parent X j b nm = (M', ROk id) -> CustInj M'.
  Proof.
    intros W C Fr. unfold add_movable. destruct (name_taken M nm); [discriminate|].
    destruct (if is_fixed_id M parent then (fparent (getfixed O M (fidx parent)), fxf (getfixed O M (fidx parent)))
              else (N.to_nat parent, stid O)) as [mp mpX].
    intro H. injection H as <- _.
    pose proof (wf_joints M W) as LJ.
    assert (Old : forall i, i < nbodies M -> nth i (joints M ++ [mkJoint (jkind j) (jaxes j) (jdof j)
                     (jq (nth (Nat.pred (length (joints M))) (joints M) root_joint) + jdof (nth (Nat.pred (length (joints M))) (joints M) root_joint)) (jcust j)]) root_joint = getJ M i)
      by (intros i Hi; unfold getJ; apply app_nth1; lia).
    set (j' := mkJoint (jkind j) (jaxes j) (jdof j)
                 (jq (nth (Nat.pred (length (joints M))) (joints M) root_joint) + jdof (nth (Nat.pred (length (joints M))) (joints M) root_joint)) (jcust j)) in *.
    assert (New : nth (nbodies M) (joints M ++ [j']) root_joint = j') by (apply nth_app_last; exact LJ).
    intros i k Hi Hk Hne. unfold nbodies in Hi, Hk. cbn [bodies] in Hi, Hk. rewrite app_length in Hi, Hk. cbn [length] in Hi, Hk.
    fold (nbodies M) in Hi, Hk. unfold getJ. cbn [joints].
    destruct (Nat.eq_dec i (nbodies M)) as [ei|ni]; destruct (Nat.eq_dec k (nbodies M)) as [ek|nk]; try lia.
    - subst i. rewrite New, (Old k) by lia. cbn [jkind jcust j']. intros Ci Ck E. apply (Fr Ci k ltac:(lia) Ck). symmetry. exact E.
    - subst k. rewrite New, (Old i) by lia. cbn [jkind jcust j']. intros Ci Ck. apply (Fr Ck i ltac:(lia) Ci).
    - rewrite (Old i), (Old k) by lia. apply C; auto; lia.
  Qed.
  Lemma classify_not_custom (a : SV T) : is_custom (jkind (classify_axis O a)) = true -> False.
  Proof.
    unfold classify_axis. cbn [jkind].
    destruct (sv_eqb O a _); [discriminate|]. destruct (sv_eqb O a _); [discriminate|]. destruct (sv_eqb O a _); [discriminate|].
    destruct (_ && _ && _)%bool; discriminate.
  Qed.
  Lemma add_emulated_CustInj : forall axes (M : Model) parent X b nm M' id,
    WF M -> valid_parent M parent -> (N.of_nat (nbodies M + length axes) < fixed_disc)%N -> CustInj M ->
    add_emulated O M parent X axes b nm = (M', ROk id) -> CustInj M'.
  Proof.
    induction axes as [|a rest IH]; intros M parent X b nm M' id W Vp Hs C H; [discriminate|].
    destruct rest as [|a2 rest'].
    - cbn in H. apply (add_movable_CustInj _ _ _ _ _ _ _ _ W C) in H; [exact H|]. intros K. destruct (classify_not_custom a K).
    - cbn [add_emulated] in H.
      destruct (add_movable O M parent X (classify_axis O a) (null_body O) 0%N) as [M1 r1] eqn:E1.
      destruct r1 as [id1|]; [|discriminate].
      destruct (add_movable_WF O _ _ _ _ _ _ _ _ W Vp (classify_not_root O a) E1) as (W1 & Hn1 & Hf1 & Hid1 & Hc1 & _).
      assert (C1 : CustInj M1) by (apply (add_movable_CustInj _ _ _ _ _ _ _ _ W C) in E1; [exact E1|intros K; destruct (classify_not_custom a K)]).
      assert (V1 : valid_parent M1 id1).
      { subst id1. apply (movable_id_valid M); [cbn [length] in Hs; lia | exact Hn1]. }
      assert (Hs1 : (N.of_nat (nbodies M1 + length (a2 :: rest')) < fixed_disc)%N).
      { rewrite Hn1. cbn [length] in *. lia. }
      exact (IH M1 id1 (stid O) b nm M' id W1 V1 Hs1 C1 H).
  Qed.
  Lemma add_fixed_CustInj (M : Model) parent X b nm M' id :
    CustInj M -> add_fixed O M parent X b nm = (M', ROk id) -> CustInj M'.
  Proof.
    intros C. unfold add_fixed. destruct (name_taken M nm); [discriminate|].
    destruct (if is_fixed_id M parent then _ else _) as [mp pX].
    destruct (body_join O _ _ _) as [pb|]; [|discriminate].
    intro H. injection H as <- _.
    intros i k Hi Hk. unfold nbodies in Hi, Hk. cbn [bodies] in Hi, Hk. rewrite upd_length in Hi, Hk.
    exact (C i k Hi Hk).
  Qed.

  Theorem add_body_CustInj (M M' : Model) parent X sp b nm res :
    WF M -> valid_parent M parent -> small M 6 -> GoodJ M -> CustInj M ->
    add_body O M parent X sp b nm = (M', res) -> CustInj M'.
  Proof.
    intros W Vp [Hs1 Hs2] G C H.
    destruct res as [id|]; [|apply (add_body_reject_frame O) in H; subst; exact C].
    unfold add_body in H. destruct (name_taken M nm); [discriminate|].
    assert (MV : forall j, is_custom (jkind j) = false -> add_movable O M parent X j b nm = (M', ROk id) -> CustInj M').
    { intros j Hj Hm. apply (add_movable_CustInj _ _ _ _ _ _ _ _ W C) in Hm; [exact Hm|]. rewrite Hj. discriminate. }
    destruct sp; try (eapply MV; [|exact H]; try reflexivity;
                      try (destruct (is_custom (jkind (classify_axis O a))) eqn:K; [destruct (classify_not_custom a K)|reflexivity]); fail);
      try discriminate.
    - exact (add_fixed_CustInj _ _ _ _ _ _ _ C H).
    - (* floating base *)
      destruct (add_movable O M parent X (joint3 JTransXYZ (tx O) (ty O) (tz O)) (null_body O) 0%N) as [M1 r1] eqn:E1.
      destruct r1 as [id1|]; [|cbn in H; discriminate]. cbn in H.
      destruct (add_movable_WF O _ _ _ _ _ _ _ _ W Vp (nr_joint3 JTransXYZ _ _ _ ltac:(discriminate)) E1) as (W1 & Hn1 & Hf1 & Hid1 & _).
      assert (C1 : CustInj M1) by (apply (add_movable_CustInj _ _ _ _ _ _ _ _ W C) in E1; [exact E1|cbn; discriminate]).
      apply (add_movable_CustInj _ _ _ _ _ _ _ _ W1 C1) in H; [exact H|cbn; discriminate].
    - (* emulated *)
      destruct ((2 <=? length axes) && (length axes <=? 6))%bool eqn:Hl; [|discriminate].
      apply andb_prop in Hl. destruct Hl as [Hl1 Hl2]. apply Nat.leb_le in Hl1, Hl2.
      assert (Hsa : (N.of_nat (nbodies M + length axes) < fixed_disc)%N) by lia.
      exact (add_emulated_CustInj axes M parent X b nm M' id W Vp Hsa C H).
    - (* custom: the new slot index is the number of slots so far, above every registered one *)
      match type of H with add_movable O ?MM _ _ _ _ _ = _ => set (M1 := MM) in * end.
      assert (W1 : WF M1) by (apply (WF_custom_reg O); exact W).
      assert (C1 : CustInj M1) by exact C.
      apply (add_movable_CustInj _ _ _ _ _ _ _ _ W1 C1) in H; [exact H|].
      intros _ i Hi Ci. change (getJ M1 i) with (getJ M i) in *. change (nbodies M1) with (nbodies M) in Hi.
      cbn [jcust]. destruct (G i Hi) as [_ B]. unfold kind_dof in B.
      destruct (jkind (getJ M i)); try discriminate. destruct B as [_ B]. rewrite (wf_customs M W) in B. lia.
  Qed.

  Theorem add_body_GoodJ (M M' : Model) parent X sp b nm res :
    WF M -> valid_parent M parent -> small M 6 -> GoodJ M ->
    add_body O M parent X sp b nm = (M', res) -> GoodJ M'.
  Proof.
    intros W Vp [Hs1 Hs2] G H.
    destruct res as [id|]; [|apply (add_body_reject_frame O) in H; subst; exact G].
    unfold add_body in H. destruct (name_taken M nm); [discriminate|].
    assert (MV : forall j, JOK j (length (wcS (ws M))) -> add_movable O M parent X j b nm = (M', ROk id) -> GoodJ M')
      by (intros j Hj Hm; exact (add_movable_GoodJ _ _ _ _ _ _ _ _ W G Hj Hm)).
    destruct sp; try (eapply MV; [|exact H]; try apply classify_JOK; unfold JOK; cbn; auto; fail); try discriminate.
    - exact (add_fixed_GoodJ _ _ _ _ _ _ _ G H).
    - (* floating base *)
      destruct (add_movable O M parent X (joint3 JTransXYZ (tx O) (ty O) (tz O)) (null_body O) 0%N) as [M1 r1] eqn:E1.
      destruct r1 as [id1|]; [|cbn in H; discriminate]. cbn in H.
      destruct (add_movable_WF O _ _ _ _ _ _ _ _ W Vp (nr_joint3 JTransXYZ _ _ _ ltac:(discriminate)) E1) as (W1 & Hn1 & Hf1 & Hid1 & _).
      assert (G1 : GoodJ M1) by (apply (add_movable_GoodJ _ _ _ _ _ _ _ _ W G) in E1; [exact E1|unfold JOK; cbn; reflexivity]).
      apply (add_movable_GoodJ _ _ _ _ _ _ _ _ W1 G1) in H; [exact H|unfold JOK; cbn; reflexivity].
    - (* emulated *)
      destruct ((2 <=? length axes) && (length axes <=? 6))%bool eqn:Hl; [|discriminate].
      apply andb_prop in Hl. destruct Hl as [Hl1 Hl2]. apply Nat.leb_le in Hl1, Hl2.
      assert (Hsa : (N.of_nat (nbodies M + length axes) < fixed_disc)%N) by lia.
      exact (add_emulated_GoodJ axes M parent X b nm M' id W Vp Hsa G H).
    - (* custom *)
      match type of H with add_movable O ?MM _ _ _ _ _ = _ => set (M1 := MM) in * end.
      assert (W1 : WF M1) by (apply (WF_custom_reg O); exact W).
      assert (G1 : GoodJ M1).
      { intros i Hi. destruct (G i Hi) as [A B]. split; [exact A|].
        revert B. unfold kind_dof. change (getJ M1 i) with (getJ M i).
        destruct (jkind (getJ M i)); auto. intros [B1 B2]. split; [exact B1|].
        unfold M1; cbn [ws wcS]. rewrite app_length. lia. }
      apply (add_movable_GoodJ _ _ _ _ _ _ _ _ W1 G1) in H; [exact H|].
      unfold JOK. cbn [jkind jdof jcust]. split; [reflexivity|].
      unfold M1; cbn [ws wcS]. rewrite app_length, (wf_customs M W). cbn. lia.
  Qed.

  Lemma GoodJ_model0 : GoodJ (model0 O).
  Proof. intros j Hj. cbn in Hj. lia. Qed.

  Theorem construction_GoodJ : forall ops (M M' : Model), WF M -> GoodJ M -> CustInj M -> run O M ops = Some M' -> GoodJ M' /\ CustInj M'.
  Proof.
    induction ops as [|op t IH]; intros M M' W G C0 H; cbn in H; [injection H as <-; split; assumption|].
    destruct (step O M op) as [M1|] eqn:E; [|discriminate].
    unfold step in E.
    destruct (valid_parentb M _ && _ && _)%bool eqn:C; [|discriminate].
    apply andb_prop in C. destruct C as [C C3]. apply andb_prop in C. destruct C as [C1 C2].
    apply N.ltb_lt in C2, C3. injection E as <-.
    destruct (add_body O M _ (op_X op) (op_sp op) (op_b op) (op_nm op)) as [M2 r] eqn:E2.
    destruct (add_body_WF O _ _ _ _ _ _ _ _ W (valid_parentb_spec _ _ C1) (conj C2 C3) E2) as (W2 & _).
    pose proof (add_body_GoodJ _ _ _ _ _ _ _ _ W (valid_parentb_spec _ _ C1) (conj C2 C3) G E2) as G2.
    pose proof (add_body_CustInj _ _ _ _ _ _ _ _ W (valid_parentb_spec _ _ C1) (conj C2 C3) G C0 E2) as C4.
    exact (IH M2 M' W2 G2 C4 H).
  Qed.

  (* every model built from the empty model carries a workspace satisfying the invariant of the C01-C13 theorems *)
  (* ---------- the root joint keeps its empty coordinate range ---------- *)
  Definition RootJ (M : Model) : Prop := jq (getJ M 0) + jdof (getJ M 0) = 0.
  Lemma add_movable_joint0 (M : Model) parent X j b nm M' id : WF M ->
    add_movable O M parent X j b nm = (M', ROk id) -> getJ M' 0 = getJ M 0.
  Proof.
    intros W. unfold add_movable. destruct (name_taken M nm); [discriminate|].
    destruct (if is_fixed_id M parent then _ else _) as [mp mpX].
    intro H. injection H as <- _. unfold getJ. cbn [joints]. apply app_nth1.
    rewrite (wf_joints M W). exact (wf_pos M W).
  Qed.
  Lemma add_emulated_joint0 : forall axes (M : Model) parent X b nm M' id,
    WF M -> valid_parent M parent -> (N.of_nat (nbodies M + length axes) < fixed_disc)%N ->
    add_emulated O M parent X axes b nm = (M', ROk id) -> getJ M' 0 = getJ M 0.
  Proof.
    induction axes as [|a rest IH]; intros M parent X b nm M' id W Vp Hs H; [discriminate|].
    destruct rest as [|a2 rest'].
    - cbn in H. exact (add_movable_joint0 _ _ _ _ _ _ _ _ W H).
    - cbn [add_emulated] in H.
      destruct (add_movable O M parent X (classify_axis O a) (null_body O) 0%N) as [M1 r1] eqn:E1.
      destruct r1 as [id1|]; [|discriminate].
      destruct (add_movable_WF O _ _ _ _ _ _ _ _ W Vp (classify_not_root O a) E1) as (W1 & Hn1 & Hf1 & Hid1 & Hc1 & _).
      assert (V1 : valid_parent M1 id1).
      { subst id1. apply (movable_id_valid M); [cbn [length] in Hs; lia | exact Hn1]. }
      assert (Hs1 : (N.of_nat (nbodies M1 + length (a2 :: rest')) < fixed_disc)%N).
      { rewrite Hn1. cbn [length] in *. lia. }
      rewrite (IH M1 id1 (stid O) b nm M' id W1 V1 Hs1 H). exact (add_movable_joint0 _ _ _ _ _ _ _ _ W E1).
  Qed.
  Theorem add_body_joint0 (M M' : Model) parent X sp b nm res :
    WF M -> valid_parent M parent -> small M 6 ->
    add_body O M parent X sp b nm = (M', res) -> getJ M' 0 = getJ M 0.
  Proof.
    intros W Vp [Hs1 Hs2] H.
    destruct res as [id|]; [|apply (add_body_reject_frame O) in H; subst; reflexivity].
    unfold add_body in H. destruct (name_taken M nm); [discriminate|].
    destruct sp; try (exact (add_movable_joint0 _ _ _ _ _ _ _ _ W H)); try discriminate.
    - unfold add_fixed in H. destruct (name_taken M nm); [discriminate|].
      destruct (if is_fixed_id M parent then _ else _) as [mp pX].
      destruct (body_join O _ _ _) as [pb|]; [|discriminate]. injection H as <- _. reflexivity.
    - destruct (add_movable O M parent X (joint3 JTransXYZ (tx O) (ty O) (tz O)) (null_body O) 0%N) as [M1 r1] eqn:E1.
      destruct r1 as [id1|]; [|cbn in H; discriminate]. cbn in H.
      destruct (add_movable_WF O _ _ _ _ _ _ _ _ W Vp (nr_joint3 JTransXYZ _ _ _ ltac:(discriminate)) E1) as (W1 & _).
      rewrite (add_movable_joint0 _ _ _ _ _ _ _ _ W1 H). exact (add_movable_joint0 _ _ _ _ _ _ _ _ W E1).
    - destruct ((2 <=? length axes) && (length axes <=? 6))%bool eqn:Hl; [|discriminate].
      apply andb_prop in Hl. destruct Hl as [Hl1 Hl2]. apply Nat.leb_le in Hl1, Hl2.
      assert (Hsa : (N.of_nat (nbodies M + length axes) < fixed_disc)%N) by lia.
      exact (add_emulated_joint0 axes M parent X b nm M' id W Vp Hsa H).
    - match type of H with add_movable O ?MM _ _ _ _ _ = _ => set (M1 := MM) in * end.
      assert (W1 : WF M1) by (apply (WF_custom_reg O); exact W).
      rewrite (add_movable_joint0 _ _ _ _ _ _ _ _ W1 H). reflexivity.
  Qed.
  Theorem construction_joint0 : forall ops (M M' : Model), WF M -> run O M ops = Some M' -> getJ M' 0 = getJ M 0.
  Proof.
    induction ops as [|op t IH]; intros M M' W H; cbn in H; [injection H as <-; reflexivity|].
    destruct (step O M op) as [M1|] eqn:E; [|discriminate].
    unfold step in E.
    destruct (valid_parentb M _ && _ && _)%bool eqn:C; [|discriminate].
    apply andb_prop in C. destruct C as [C C3]. apply andb_prop in C. destruct C as [C1 C2].
    apply N.ltb_lt in C2, C3. injection E as <-.
    destruct (add_body O M _ (op_X op) (op_sp op) (op_b op) (op_nm op)) as [M2 r] eqn:E2.
    destruct (add_body_WF O _ _ _ _ _ _ _ _ W (valid_parentb_spec _ _ C1) (conj C2 C3) E2) as (W2 & _).
    rewrite (IH M2 M' W2 H). exact (add_body_joint0 _ _ _ _ _ _ _ _ W (valid_parentb_spec _ _ C1) (conj C2 C3) E2).
  Qed.
  Corollary constructed_models_root_joint ops M' : run O (model0 O) ops = Some M' -> RootJ M'.
  Proof. intros H. unfold RootJ. rewrite (construction_joint0 ops _ _ (WF_model0 O) H). reflexivity. Qed.

  Lemma CustInj_model0 : CustInj (model0 O).
  Proof. intros i j Hi. cbn in Hi. lia. Qed.
  Theorem constructed_models_are_good ops M' : run O (model0 O) ops = Some M' ->
    WF M' /\ Good O M' (ws M') /\ CustInj M'.
  Proof.
    intros H. pose proof (construction_from_empty_WF O ops M' H) as W. split; [exact W|].
    destruct (construction_GoodJ ops _ _ (WF_model0 O) GoodJ_model0 CustInj_model0 H) as [G C].
    split; [split; [exact (wf_ws M' W)|exact G]|exact C].
  Qed.
End G.
