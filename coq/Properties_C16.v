(* C16 Spatial-algebra and quaternion operations satisfy their algebraic identities.
   Only statements; every proof is `exact <lemma>`.  The statements are about the
   G_* definitions, which tools/translate.py regenerates from the headers on every run. *)
From RV Require Import Scalar LinAlg3 Spatial Quat Laws QuatLaws C16Thm.
From RV.Gen Require Import GenSpatial GenQuat.
Section P.
  Context {T : Type} (O : Ops T) {FL : FieldLaws O}.
  Theorem C16_apply_is_matrix X v : G_st_apply O X v = m66v O (G_st_toMatrix O X) v.
  Proof. exact (g_apply_is_matrix O X v). Qed.
  Theorem C16_applyTranspose_is_matrix X f : G_st_applyTranspose O X f = m66v O (G_st_toMatrixTranspose O X) f.
  Proof. exact (g_applyTranspose_is_matrix O X f). Qed.
  Theorem C16_toMatrixTranspose_is_transpose X : G_st_toMatrixTranspose O X = m66T (G_st_toMatrix O X).
  Proof. exact (g_toMatrixTranspose_is_transpose O X). Qed.
  Theorem C16_applyAdjoint_is_matrix X f : G_st_applyAdjoint O X f = m66v O (G_st_toMatrixAdjoint O X) f.
  Proof. exact (g_applyAdjoint_is_matrix O X f). Qed.
  Theorem C16_inverse_apply X v : m3rot O (stE X) -> G_st_apply O (G_st_inverse O X) (G_st_apply O X v) = v.
  Proof. exact (g_inverse_apply O X v). Qed.
  Theorem C16_inverse_matrix X : m3rot O (stE X) -> m66mul O (G_st_toMatrix O (G_st_inverse O X)) (G_st_toMatrix O X) = m66id O.
  Proof. exact (g_inverse_matrix O X). Qed.
  Theorem C16_inertia_times_motion I v : G_rbi_mulv O I v = m66v O (G_rbi_toMatrix O I) v.
  Proof. exact (g_rbi_mulv_is_matrix O I v). Qed.
  Theorem C16_inertia_matrix_roundtrip this I : G_rbi_createFromMatrix O this (G_rbi_toMatrix O I) = I.
  Proof. exact (g_createFromMatrix_toMatrix O this I). Qed.
  Theorem C16_inertia_setSpatialMatrix I : G_rbi_setSpatialMatrix O I = G_rbi_toMatrix O I.
  Proof. exact (g_setSpatialMatrix_is_toMatrix O I). Qed.
  (* X^* I X^-1, stated as  I' X = X^* I *)
  Theorem C16_inertia_apply X I : m3rot O (stE X) ->
    m66mul O (G_rbi_toMatrix O (G_st_apply_rbi O X I)) (G_st_toMatrix O X) = m66mul O (G_st_toMatrixAdjoint O X) (G_rbi_toMatrix O I).
  Proof. exact (g_apply_rbi_is_matrix O X I). Qed.
  (* X^T I X *)
  Theorem C16_inertia_applyTranspose X I : m3rot O (stE X) ->
    G_rbi_toMatrix O (G_st_applyTranspose_rbi O X I) = m66mul O (G_st_toMatrixTranspose O X) (m66mul O (G_rbi_toMatrix O I) (G_st_toMatrix O X)).
  Proof. exact (g_applyTranspose_rbi_is_matrix O X I). Qed.
  Theorem C16_composition_associative X Y Z : G_st_mul O (G_st_mul O X Y) Z = G_st_mul O X (G_st_mul O Y Z).
  Proof. exact (g_mul_assoc O X Y Z). Qed.
  Theorem C16_composition_identity X : G_st_mul O (stid O) X = X /\ G_st_mul O X (stid O) = X.
  Proof. exact (g_mul_id O X). Qed.
  Theorem C16_composition_inverse X : m3orth O (stE X) ->
    G_st_mul O X (G_st_inverse O X) = stid O /\ G_st_mul O (G_st_inverse O X) X = stid O.
  Proof. exact (g_mul_inverse O X). Qed.
  Theorem C16_composition_is_application X Y v : m3rot O (stE Y) ->
    G_st_apply O (G_st_mul O X Y) v = G_st_apply O X (G_st_apply O Y v).
  Proof. exact (g_mul_is_composition O X Y v). Qed.
  Theorem C16_crossf_is_neg_transpose_crossm v : G_crossf_mat O v = m66scale O (oopp O (o1 O)) (m66T (G_crossm_mat O v)).
  Proof. exact (g_crossf_neg_crossm_transpose O v). Qed.
  Theorem C16_cross_vector_forms v w : G_crossm O v w = m66v O (G_crossm_mat O v) w /\ G_crossf O v w = m66v O (G_crossf_mat O v) w.
  Proof. exact (g_cross_vector_forms O v w). Qed.
  Theorem C16_power_invariant X v f : m3orth O (stE X) -> svdot O (G_st_apply O X v) (G_st_applyAdjoint O X f) = svdot O v f.
  Proof. exact (g_power_invariant O X v f). Qed.
  Theorem C16_apply_applyTranspose_dual X v f : svdot O (G_st_apply O X v) f = svdot O v (G_st_applyTranspose O X f).
  Proof. exact (g_apply_dual O X v f). Qed.
  Theorem C16_quaternion_product_composes p q : qunit O p -> qunit O q ->
    G_quat_toMatrix O (G_quat_mul O p q) = m3mul O (G_quat_toMatrix O q) (G_quat_toMatrix O p).
  Proof. exact (g_quat_mul_matrix O p q). Qed.
  Theorem C16_quaternion_matrix_is_rotation q : qunit O q -> m3rot O (G_quat_toMatrix O q).
  Proof. exact (g_quat_toMatrix_rotation O q). Qed.
  Theorem C16_quaternion_rotate q v : qunit O q -> G_quat_rotate O q v = m3v O (G_quat_toMatrix O q) v.
  Proof. exact (g_quat_rotate O q v). Qed.
  Theorem C16_rate_map_tangent q w : qdot4 O q (G_quat_omegaToQDot O q w) = o0 O.
  Proof. exact (g_omegaToQDot_tangent O q w). Qed.
  Theorem C16_rate_map_reproduces_omega q w : qunit O q ->
    qscale O (G_quat_mul O (G_quat_conjugate O q) (G_quat_omegaToQDot O q w)) (o2 O) = mkQt (vx w) (vy w) (vz w) (o0 O).
  Proof. exact (g_omegaToQDot_omega O q w). Qed.
End P.
Print Assumptions C16_apply_is_matrix. Print Assumptions C16_inverse_matrix. Print Assumptions C16_inertia_apply.
Print Assumptions C16_inertia_applyTranspose. Print Assumptions C16_composition_is_application.
Print Assumptions C16_power_invariant. Print Assumptions C16_quaternion_product_composes.
Print Assumptions C16_quaternion_matrix_is_rotation. Print Assumptions C16_rate_map_reproduces_omega.
