(* Kinematics: the Q-pass of UpdateKinematicsCustom computes, for every body, the product
   of the declared joint transforms along the path to the base -- for ANY incoming workspace
   (C04, C13). *)
From Coq Require Import List Bool Arith NArith Lia Ring Field.
From RV Require Import Scalar LinAlg3 Spatial Quat Tac Laws SpatialLaws ListArr ModelDef JointDef KinDef C14Thm WsLemmas.
Import ListNotations.

(* generic: an invariant indexed by the loop counter is carried through fold_left over iota *)
Lemma fold_iota_inv {St : Type} (step : St -> nat -> St) (Inv : St -> nat -> Prop) :
  forall m k w, Inv w k -> (forall w i, k <= i < k + m -> Inv w i -> Inv (step w i) (S i)) ->
  Inv (fold_left step (iota k m) w) (k + m).
Proof.
  induction m as [|m IH]; intros k w H Hs; cbn.
  - rewrite Nat.add_0_r. exact H.
  - replace (k + S m) with (S k + m) by lia. apply IH.
    + apply Hs; [lia|exact H].
    + intros w' i Hi. apply Hs. lia.
Qed.

Section Kin.
  Context {T : Type} (O : Ops T) {FL : FieldLaws O}.
  Local Notation Model := (@Model T). Local Notation WS := (@WS T).
  Local Notation t0 := (o0 O).

  (* X_base as a pure function: product of the X_lambda along the path to the base *)
  Fixpoint XbFf (M : Model) (q : list T) (fuel i : nat) : ST T :=
    match fuel with
    | 0 => stid O
    | S f => if Nat.eqb (getlam M i) 0 then XlF O M q i else st_mul O (XlF O M q i) (XbFf M q f (getlam M i))
    end.
  Definition XbF (M : Model) (q : list T) (i : nat) : ST T := XbFf M q i i.

  Lemma XbFf_fuel (M : Model) q : WF M -> forall f f' i, i < nbodies M -> i <= f -> i <= f' -> 0 < i ->
    XbFf M q f i = XbFf M q f' i.
  Proof.
    intros W. induction f as [|f IH]; intros f' i Hn Hf Hf' Hi; [lia|].
    destruct f' as [|f']; [lia|]. cbn.
    destruct (Nat.eqb (getlam M i) 0) eqn:E; [reflexivity|].
    apply Nat.eqb_neq in E. pose proof (wf_parent M W i (conj Hi Hn)) as Hl. unfold getlam in *.
    f_equal. apply IH; lia.
  Qed.
  Lemma XbF_unfold (M : Model) q i : WF M -> 0 < i < nbodies M ->
    XbF M q i = if Nat.eqb (getlam M i) 0 then XlF O M q i else st_mul O (XlF O M q i) (XbF M q (getlam M i)).
  Proof.
    intros W [Hi Hn]. unfold XbF. destruct i; [lia|]. cbn [XbFf].
    destruct (Nat.eqb (getlam M (S i)) 0) eqn:E; [reflexivity|]. apply Nat.eqb_neq in E.
    pose proof (wf_parent M W (S i) (conj Hi Hn)) as Hl. unfold getlam in *.
    f_equal. apply XbFf_fuel; auto; lia.
  Qed.

  (* one iteration of the Q-pass *)
  Definition ukc_q_step (M : Model) (q : list T) (w : WS) (i : nat) : WS :=
    let lam := getlam M i in
    let w := jcalc O M w i q (vzeros t0 (q_size M)) in
    w_Xb w (upd (wXb w) i (if Nat.eqb lam 0 then gXl O w i else st_mul O (gXl O w i) (gXb O w lam))).
  Lemma ukc_q_is_fold M w q : ukc_q O M w q = fold_left (ukc_q_step M q) (body_range M) w.
  Proof. reflexivity. Qed.

  Definition InvQ (M : Model) (q : list T) (w : WS) (k : nat) : Prop :=
    ws_len w (nbodies M) /\ forall j, 0 < j < k -> gXb O w j = XbF M q j.

  Lemma ukc_q_step_inv (M : Model) q w i : WF M -> 0 < i < nbodies M ->
    InvQ M q w i -> InvQ M q (ukc_q_step M q w i) (S i).
  Proof.
    intros W [Hi Hn] [Hlen Hinv]. unfold ukc_q_step.
    set (w1 := jcalc O M w i q (vzeros t0 (q_size M))).
    assert (Hlen1 : ws_len w1 (nbodies M)) by (apply jcalc_len; exact Hlen).
    assert (UXb : wXb w1 = wXb w) by (exact (proj1 (jcalc_untouched O true M w i q (vzeros t0 (q_size M))))).
    assert (HXl : gXl O w1 i = XlF O M q i).
    { apply (@jcalc_Xl T O FL); [destruct Hlen as (L & _); rewrite L; exact Hn | apply (wf_kind M W); auto]. }
    split.
    - unfold ws_len in *; cbn. rewrite upd_length. decompose [and] Hlen1. repeat split; assumption.
    - intros j [Hj0 Hj]. unfold gXb; cbn.
      destruct (Nat.eq_dec j i) as [->|Hne].
      + rewrite nth_upd_eq by (destruct Hlen1 as (_ & L & _); rewrite L; exact Hn).
        rewrite (XbF_unfold M q i W (conj Hi Hn)). rewrite HXl.
        destruct (Nat.eqb (getlam M i) 0) eqn:E; [reflexivity|]. apply Nat.eqb_neq in E.
        f_equal. unfold gXb. rewrite UXb. apply Hinv.
        pose proof (wf_parent M W i (conj Hi Hn)). unfold getlam in *. lia.
      + rewrite nth_upd_neq by auto. rewrite UXb. apply Hinv. lia.
  Qed.

  (* the Q-pass: X_base[i] = product of declared joint transforms, whatever the workspace held *)
  Theorem ukc_q_spec (M : Model) (w : WS) q : WF M -> ws_len w (nbodies M) ->
    ws_len (ukc_q O M w q) (nbodies M) /\
    forall i, 0 < i < nbodies M -> gXb O (ukc_q O M w q) i = XbF M q i.
  Proof.
    intros W Hlen. rewrite ukc_q_is_fold. unfold body_range.
    pose proof (wf_pos M W) as Hpos.
    assert (K : InvQ M q (fold_left (ukc_q_step M q) (iota 1 (Nat.pred (nbodies M))) w) (1 + Nat.pred (nbodies M))).
    { apply (fold_iota_inv (ukc_q_step M q) (InvQ M q)).
      - split; [exact Hlen|]. intros j Hj. lia.
      - intros w' i Hi HI. apply ukc_q_step_inv; auto. lia. }
    replace (1 + Nat.pred (nbodies M)) with (nbodies M) in K by lia. exact K.
  Qed.

  (* C13 for the position-level queries: the result does not depend on the incoming workspace *)
  Theorem ukc_q_ws_independent (M : Model) (w1 w2 : WS) q i : WF M ->
    ws_len w1 (nbodies M) -> ws_len w2 (nbodies M) -> 0 < i < nbodies M ->
    gXb O (ukc_q O M w1 q) i = gXb O (ukc_q O M w2 q) i.
  Proof.
    intros W L1 L2 Hi.
    rewrite (proj2 (ukc_q_spec M w1 q W L1) i Hi), (proj2 (ukc_q_spec M w2 q W L2) i Hi). reflexivity.
  Qed.
End Kin.

(* ---- velocity pass ---- *)
Section Vel.
  Context {T : Type} (O : Ops T) {FL : FieldLaws O}.
  Local Notation Model := (@Model T). Local Notation WS := (@WS T).
  Local Notation t0 := (o0 O).

  (* body-coordinate spatial velocity as a pure function: v_i = X_lambda_i v_parent + S_i qd_i *)
  Fixpoint vFf (M : Model) (q qd : list T) (fuel i : nat) : SV T :=
    match fuel with
    | 0 => svzero O
    | S f => if Nat.eqb (getlam M i) 0 then vJF O M q qd i
             else svadd O (st_apply O (XlF O M q i) (vFf M q qd f (getlam M i))) (vJF O M q qd i)
    end.
  Definition vF (M : Model) q qd i := vFf M q qd i i.

  Lemma vFf_fuel (M : Model) q qd : WF M -> forall f f' i, i < nbodies M -> i <= f -> i <= f' -> 0 < i ->
    vFf M q qd f i = vFf M q qd f' i.
  Proof.
    intros W. induction f as [|f IH]; intros f' i Hn Hf Hf' Hi; [lia|].
    destruct f' as [|f']; [lia|]. cbn.
    destruct (Nat.eqb (getlam M i) 0) eqn:E; [reflexivity|].
    apply Nat.eqb_neq in E. pose proof (wf_parent M W i (conj Hi Hn)) as Hl. unfold getlam in *.
    f_equal. f_equal. apply IH; lia.
  Qed.
  Lemma vF_unfold (M : Model) q qd i : WF M -> 0 < i < nbodies M ->
    vF M q qd i = if Nat.eqb (getlam M i) 0 then vJF O M q qd i
                  else svadd O (st_apply O (XlF O M q i) (vF M q qd (getlam M i))) (vJF O M q qd i).
  Proof.
    intros W [Hi Hn]. unfold vF. destruct i; [lia|]. cbn [vFf].
    destruct (Nat.eqb (getlam M (S i)) 0) eqn:E; [reflexivity|]. apply Nat.eqb_neq in E.
    pose proof (wf_parent M W (S i) (conj Hi Hn)) as Hl. unfold getlam in *.
    f_equal. f_equal. apply vFf_fuel; auto; lia.
  Qed.

  Definition ukc_qd_step (M : Model) (q qd : list T) (w : WS) (i : nat) : WS :=
    let lam := getlam M i in
    let w := jcalc O M w i q qd in
    let w := w_v w (upd (wv w) i (if Nat.eqb lam 0 then gvJ O w i
                                  else svadd O (st_apply O (gXl O w i) (gv O w lam)) (gvJ O w i))) in
    w_c w (upd (wc w) i (svadd O (gcJ O w i) (crossm O (gv O w i) (gvJ O w i)))).
  Lemma ukc_qd_is_fold M w q qd : ukc_qd O M w q qd = fold_left (ukc_qd_step M q qd) (body_range M) w.
  Proof. reflexivity. Qed.

  (* everything the construction establishes and no routine destroys *)
  Definition Good (M : Model) (w : WS) : Prop :=
    ws_len w (nbodies M) /\ (forall j, 0 < j < nbodies M -> WsInvJ O M w j /\ kind_dof M w j).

  Definition InvV (M : Model) q qd (w0 : WS) (w : WS) (k : nat) : Prop :=
    Good M w /\ wXb w = wXb w0 /\ forall j, 0 < j < k -> gv O w j = vF M q qd j.

  Lemma ukc_qd_step_inv (M : Model) q qd w0 w i : WF M -> 0 < i < nbodies M ->
    InvV M q qd w0 w i -> InvV M q qd w0 (ukc_qd_step M q qd w i) (S i).
  Proof.
    intros W [Hi Hn] ((Hlen & Hg) & HXb & Hinv). unfold ukc_qd_step.
    set (w1 := jcalc O M w i q qd).
    assert (Hlen1 : ws_len w1 (nbodies M)) by (apply jcalc_len; exact Hlen).
    pose proof (jcalc_untouched O true M w i q qd) as U. cbv zeta in U. fold (jcalc O M w i q qd) in U. fold w1 in U.
    destruct U as (UXb & Uv & _).
    assert (HXl : gXl O w1 i = XlF O M q i).
    { apply (@jcalc_Xl T O FL); [destruct Hlen as (L & _); rewrite L; exact Hn | apply (wf_kind M W); auto]. }
    destruct (jcalc_full_vals O M w i q qd (nbodies M) Hlen Hn (proj1 (Hg i (conj Hi Hn))) (proj2 (Hg i (conj Hi Hn))))
      as (_ & HvJ & _). fold w1 in HvJ.
    assert (Hg1 : forall j, 0 < j < nbodies M -> WsInvJ O M w1 j /\ kind_dof M w1 j).
    { intros j Hj. apply (jcalc_full_inv O M w i q qd (nbodies M)); auto; intros j' Hj'; apply Hg; exact Hj'. }
    split; [|split].
    - split.
      + unfold ws_len in *; cbn. rewrite !upd_length. decompose [and] Hlen1. repeat split; assumption.
      + intros j Hj. destruct (Hg1 j Hj) as [A B]. split.
        * revert A. apply WsInvJ_ext; reflexivity.
        * revert B. apply kind_dof_ext. reflexivity.
    - cbn. rewrite UXb. exact HXb.
    - intros j [Hj0 Hj]. unfold gv; cbn.
      destruct (Nat.eq_dec j i) as [->|Hne].
      + rewrite nth_upd_eq by (destruct Hlen1 as (_ & _ & L & _); rewrite L; exact Hn).
        rewrite (vF_unfold M q qd i W (conj Hi Hn)). rewrite HXl, HvJ.
        destruct (Nat.eqb (getlam M i) 0) eqn:E; [reflexivity|]. apply Nat.eqb_neq in E.
        f_equal. f_equal. unfold gv. rewrite Uv. apply Hinv.
        pose proof (wf_parent M W i (conj Hi Hn)). unfold getlam in *. lia.
      + rewrite nth_upd_neq by auto. rewrite Uv. apply Hinv. lia.
  Qed.

  Theorem ukc_qd_spec (M : Model) (w : WS) q qd : WF M -> Good M w ->
    let w' := ukc_qd O M w q qd in
    Good M w' /\ wXb w' = wXb w /\ forall i, 0 < i < nbodies M -> gv O w' i = vF M q qd i.
  Proof.
    intros W Hg. cbv zeta. rewrite ukc_qd_is_fold. unfold body_range.
    pose proof (wf_pos M W) as Hpos.
    assert (K : InvV M q qd w (fold_left (ukc_qd_step M q qd) (iota 1 (Nat.pred (nbodies M))) w) (1 + Nat.pred (nbodies M))).
    { apply (fold_iota_inv (ukc_qd_step M q qd) (InvV M q qd w)).
      - split; [exact Hg|split; [reflexivity|]]. intros j Hj. lia.
      - intros w' i Hi HI. apply ukc_qd_step_inv; auto. lia. }
    replace (1 + Nat.pred (nbodies M)) with (nbodies M) in K by lia. exact K.
  Qed.

  (* the Q-pass also keeps the invariant (jcalc with zero velocity) *)
  Lemma ukc_q_good (M : Model) (w : WS) q : WF M -> Good M w -> Good M (ukc_q O M w q).
  Proof.
    intros W Hg. rewrite ukc_q_is_fold. unfold body_range.
    pose proof (wf_pos M W) as Hpos.
    assert (K : (fun w (_ : nat) => Good M w) (fold_left (ukc_q_step O M q) (iota 1 (Nat.pred (nbodies M))) w) (1 + Nat.pred (nbodies M))).
    { apply (fold_iota_inv (ukc_q_step O M q) (fun w _ => Good M w)); [exact Hg|].
      intros w' i Hi [Hlen Hg']. unfold ukc_q_step.
      set (w1 := jcalc O M w' i q (vzeros t0 (q_size M))).
      assert (Hlen1 : ws_len w1 (nbodies M)) by (apply jcalc_len; exact Hlen).
      assert (Hg1 : forall j, 0 < j < nbodies M -> WsInvJ O M w1 j /\ kind_dof M w1 j).
      { intros j Hj. apply (jcalc_full_inv O M w' i q _ (nbodies M)); auto; try lia; intros j' Hj'; apply Hg'; exact Hj'. }
      split.
      - unfold ws_len in *; cbn. rewrite !upd_length. decompose [and] Hlen1. repeat split; assumption.
      - intros j Hj. destruct (Hg1 j Hj) as [A B]. split.
        + revert A. apply WsInvJ_ext; reflexivity.
        + revert B. apply kind_dof_ext. reflexivity. }
    exact K.
  Qed.

  (* point velocity: a function of the model, the state and the point only (C13), and linear in qd through vF *)
  Theorem point_velocity_ws_independent (M : Model) (w1 w2 : WS) q qd (id : N) pt : WF M ->
    Good M w1 -> Good M w2 -> (id < fixed_disc)%N -> 0 < N.to_nat id < nbodies M ->
    snd (calc_point_velocity6 O M w1 q qd id pt true) = snd (calc_point_velocity6 O M w2 q qd id pt true).
  Proof.
    intros W G1 G2 Hid Hi.
    assert (Z : forall w, Good M w -> Good M (zero_v0 O w)).
    { intros w [L G]. split.
      - unfold ws_len, zero_v0 in *; cbn. rewrite upd_length. exact L.
      - intros j Hj. destruct (G j Hj) as [A B]. split; [revert A; apply WsInvJ_ext; reflexivity | revert B; apply kind_dof_ext; reflexivity]. }
    unfold calc_point_velocity6. cbn [snd].
    unfold point_velocity6_nk, ref_point.
    assert (Hf : is_fixed_id M id = false).
    { unfold is_fixed_id. apply N.leb_gt in Hid. rewrite Hid. reflexivity. }
    rewrite Hf. unfold point_X, world_orient.
    replace (N.leb fixed_disc (N.of_nat (N.to_nat id))) with false by (symmetry; apply N.leb_gt; lia).
    rewrite !N2Nat.id.
    pose proof (ukc_q_good M _ q W (Z _ G1)) as Gq1. pose proof (ukc_q_good M _ q W (Z _ G2)) as Gq2.
    destruct (ukc_qd_spec M _ q qd W Gq1) as (_ & X1 & V1). destruct (ukc_qd_spec M _ q qd W Gq2) as (_ & X2 & V2).
    rewrite (V1 _ Hi), (V2 _ Hi). unfold gXb. rewrite X1, X2.
    fold (gXb O (ukc_q O M (zero_v0 O w1) q) (N.to_nat id)). fold (gXb O (ukc_q O M (zero_v0 O w2) q) (N.to_nat id)).
    rewrite (ukc_q_ws_independent O M (zero_v0 O w1) (zero_v0 O w2) q _ W (proj1 (Z _ G1)) (proj1 (Z _ G2)) Hi).
    reflexivity.
  Qed.
End Vel.
