(* Kinematics: the Q-pass of UpdateKinematicsCustom computes, for every body, the product
   of the declared joint transforms along the path to the base -- for ANY incoming workspace
   (C04, C13). *)
From Coq Require Import List Bool Arith NArith Lia Ring Field.
From RV Require Import Scalar LinAlg3 Spatial Quat Tac Laws SpatialLaws ListArr ModelDef JointDef KinDef C14Thm WsLemmas.
Import ListNotations.

(* generic: an invariant indexed by the loop counter is carried through fold_left over iota *)
Lemma fold_iota_inv {St : Type} (step : St -> nat -> St) (Inv : St -> nat -> Prop) :
  forall m k w, Inv w k -> (forall w i, k <= i < k + m -> Inv w i -> Inv (step w i) (S i)) ->
  Inv (fold_left step (iota k m) w) (k + m).
Proof.
  induction m as [|m IH]; intros k w H Hs; cbn.
  - rewrite Nat.add_0_r. exact H.
  - replace (k + S m) with (S k + m) by lia. apply IH.
    + apply Hs; [lia|exact H].
    + intros w' i Hi. apply Hs. lia.
Qed.

Section Kin.
  Context {T : Type} (O : Ops T) {FL : FieldLaws O}.
  Local Notation Model := (@Model T). Local Notation WS := (@WS T).
  Local Notation t0 := (o0 O).

  (* X_base as a pure function: product of the X_lambda along the path to the base *)
  Fixpoint XbFf (M : Model) (q : list T) (fuel i : nat) : ST T :=
    match fuel with
    | 0 => stid O
    | S f => if Nat.eqb (getlam M i) 0 then XlF O M q i else st_mul O (XlF O M q i) (XbFf M q f (getlam M i))
    end.
  Definition XbF (M : Model) (q : list T) (i : nat) : ST T := XbFf M q i i.

  Lemma XbFf_fuel (M : Model) q : WF M -> forall f f' i, i < nbodies M -> i <= f -> i <= f' -> 0 < i ->
    XbFf M q f i = XbFf M q f' i.
  Proof.
    intros W. induction f as [|f IH]; intros f' i Hn Hf Hf' Hi; [lia|].
    destruct f' as [|f']; [lia|]. cbn.
    destruct (Nat.eqb (getlam M i) 0) eqn:E; [reflexivity|].
    apply Nat.eqb_neq in E. pose proof (wf_parent M W i (conj Hi Hn)) as Hl. unfold getlam in *.
    f_equal. apply IH; lia.
  Qed.
  Lemma XbF_unfold (M : Model) q i : WF M -> 0 < i < nbodies M ->
    XbF M q i = if Nat.eqb (getlam M i) 0 then XlF O M q i else st_mul O (XlF O M q i) (XbF M q (getlam M i)).
  Proof.
    intros W [Hi Hn]. unfold XbF. destruct i; [lia|]. cbn [XbFf].
    destruct (Nat.eqb (getlam M (S i)) 0) eqn:E; [reflexivity|]. apply Nat.eqb_neq in E.
    pose proof (wf_parent M W (S i) (conj Hi Hn)) as Hl. unfold getlam in *.
    f_equal. apply XbFf_fuel; auto; lia.
  Qed.

  (* one iteration of the Q-pass *)
  Definition ukc_q_step (M : Model) (q : list T) (w : WS) (i : nat) : WS :=
    let lam := getlam M i in
    let w := jcalc O M w i q (vzeros t0 (q_size M)) in
    w_Xb w (upd (wXb w) i (if Nat.eqb lam 0 then gXl O w i else st_mul O (gXl O w i) (gXb O w lam))).
  Lemma ukc_q_is_fold M w q : ukc_q O M w q = fold_left (ukc_q_step M q) (body_range M) w.
  Proof. reflexivity. Qed.

  Definition InvQ (M : Model) (q : list T) (w : WS) (k : nat) : Prop :=
    ws_len w (nbodies M) /\ forall j, 0 < j < k -> gXb O w j = XbF M q j.

  Lemma ukc_q_step_inv (M : Model) q w i : WF M -> 0 < i < nbodies M ->
    InvQ M q w i -> InvQ M q (ukc_q_step M q w i) (S i).
  Proof.
    intros W [Hi Hn] [Hlen Hinv]. unfold ukc_q_step.
    set (w1 := jcalc O M w i q (vzeros t0 (q_size M))).
    assert (Hlen1 : ws_len w1 (nbodies M)) by (apply jcalc_len; exact Hlen).
    assert (UXb : wXb w1 = wXb w) by (exact (proj1 (jcalc_untouched O true M w i q (vzeros t0 (q_size M))))).
    assert (HXl : gXl O w1 i = XlF O M q i).
    { apply (@jcalc_Xl T O FL); [destruct Hlen as (L & _); rewrite L; exact Hn | apply (wf_kind M W); auto]. }
    split.
    - unfold ws_len in *; cbn. rewrite upd_length. decompose [and] Hlen1. repeat split; assumption.
    - intros j [Hj0 Hj]. unfold gXb; cbn.
      destruct (Nat.eq_dec j i) as [->|Hne].
      + rewrite nth_upd_eq by (destruct Hlen1 as (_ & L & _); rewrite L; exact Hn).
        rewrite (XbF_unfold M q i W (conj Hi Hn)). rewrite HXl.
        destruct (Nat.eqb (getlam M i) 0) eqn:E; [reflexivity|]. apply Nat.eqb_neq in E.
        f_equal. unfold gXb. rewrite UXb. apply Hinv.
        pose proof (wf_parent M W i (conj Hi Hn)). unfold getlam in *. lia.
      + rewrite nth_upd_neq by auto. rewrite UXb. apply Hinv. lia.
  Qed.

  (* the Q-pass: X_base[i] = product of declared joint transforms, whatever the workspace held *)
  Theorem ukc_q_spec (M : Model) (w : WS) q : WF M -> ws_len w (nbodies M) ->
    ws_len (ukc_q O M w q) (nbodies M) /\
    forall i, 0 < i < nbodies M -> gXb O (ukc_q O M w q) i = XbF M q i.
  Proof.
    intros W Hlen. rewrite ukc_q_is_fold. unfold body_range.
    pose proof (wf_pos M W) as Hpos.
    assert (K : InvQ M q (fold_left (ukc_q_step M q) (iota 1 (Nat.pred (nbodies M))) w) (1 + Nat.pred (nbodies M))).
    { apply (fold_iota_inv (ukc_q_step M q) (InvQ M q)).
      - split; [exact Hlen|]. intros j Hj. lia.
      - intros w' i Hi HI. apply ukc_q_step_inv; auto. lia. }
    replace (1 + Nat.pred (nbodies M)) with (nbodies M) in K by lia. exact K.
  Qed.

  (* C13 for the position-level queries: the result does not depend on the incoming workspace *)
  Theorem ukc_q_ws_independent (M : Model) (w1 w2 : WS) q i : WF M ->
    ws_len w1 (nbodies M) -> ws_len w2 (nbodies M) -> 0 < i < nbodies M ->
    gXb O (ukc_q O M w1 q) i = gXb O (ukc_q O M w2 q) i.
  Proof.
    intros W L1 L2 Hi.
    rewrite (proj2 (ukc_q_spec M w1 q W L1) i Hi), (proj2 (ukc_q_spec M w2 q W L2) i Hi). reflexivity.
  Qed.
End Kin.
