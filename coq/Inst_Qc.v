(* The hypothesis classes of the theorems are satisfiable: the rationals Qc carry FieldLaws,
   a decidable equality test meeting oeqb_spec, and (with the rational parametrisation of the
   circle, u = tan(angle/2)) TrigLaws.  Used for non-vacuity Examples evaluated with vm_compute. *)
From Coq Require Import List Bool QArith Qcanon Field Lia.
From RV Require Import Scalar Laws.
Import ListNotations.
Local Open Scope Qc_scope.

Definition qc_cos (u : Qc) : Qc := (1 - u * u) / (1 + u * u).
Definition qc_sin (u : Qc) : Qc := (u + u) / (1 + u * u).
Definition OQc : Ops Qc :=
  mkOps Qc 0 1 Qcplus Qcmult Qcminus Qcopp Qcdiv Qcinv (fun x => x) qc_cos qc_sin (fun _ _ => 0)
        (fun a b => match a ?= b with Lt => true | _ => false end) Qc_eq_bool.

Lemma onat_pos n : 0 < onat OQc (S n).
Proof.
  induction n as [|n IH].
  - reflexivity.
  - change (onat OQc (S (S n))) with (onat OQc (S n) + 1).
    apply Qclt_trans with (onat OQc (S n)); [exact IH|].
    apply Qclt_minus_iff. replace (onat OQc (S n) + 1 + - onat OQc (S n)) with 1 by ring. reflexivity.
Qed.

#[export] Instance FL_Qc : FieldLaws OQc.
Proof.
  constructor.
  - exact Qcft.
  - intros x y. destruct (Qc_eq_dec x y); [left|right]; assumption.
  - intros n e. pose proof (onat_pos n) as P. rewrite e in P. exact (Qclt_not_eq _ _ P eq_refl).
Qed.

Lemma sq_nonneg (u : Qc) : 0 <= u * u.
Proof.
  destruct (Qclt_le_dec u 0) as [L|L].
  - assert (N : 0 <= - u).
    { replace 0 with (- 0) by reflexivity. apply Qcopp_le_compat. apply Qclt_le_weak. exact L. }
    replace (u * u) with ((- u) * (- u)) by ring. replace 0 with (0 * - u) by ring.
    apply Qcmult_le_compat_r; exact N.
  - replace 0 with (0 * u) by ring. apply Qcmult_le_compat_r; exact L.
Qed.
Lemma sq_plus_one_neq0 (u : Qc) : 1 + u * u <> 0.
Proof.
  intros e. assert (P : 0 < 1 + u * u).
  { apply Qclt_le_trans with (1 + 0); [reflexivity|].
    apply Qcplus_le_compat; [apply Qcle_refl|apply sq_nonneg]. }
  rewrite e in P. exact (Qclt_not_eq _ _ P eq_refl).
Qed.

#[export] Instance TL_Qc : TrigLaws OQc.
Proof.
  constructor. intros u. cbn. unfold qc_cos, qc_sin. field. apply sq_plus_one_neq0.
Qed.

Lemma oeqb_spec_Qc : forall x y : Qc, oeqb OQc x y = true <-> x = y.
Proof. intros x y. cbn. split; [apply Qc_eq_bool_correct|intros ->]. unfold Qc_eq_bool. destruct (Qc_eq_dec y y); congruence. Qed.
(* the polarisation premise of C03_inertia_matrix_is_sum_of_JT_I_J is satisfiable *)
Lemma two_neq0_Qc : o2 OQc <> o0 OQc.
Proof. unfold o2. cbn. intro H. discriminate H. Qed.
