(* Virtual power over a kinematic tree (d'Alembert by summation by parts):
     sum_j v'_j . f_j  =  sum_i (S_i qd'_i) . Y_i
   for the subtree forces Y (fixpoint of the inward sweep) and the outward sweep v' of any
   virtual joint velocity; needs only the apply / applyTranspose duality. *)
From Coq Require Import List Arith Lia Ring.
Import ListNotations.
Section VP.
  Variable K : Type. Variables (k0 k1 : K) (kadd kmul ksub : K -> K -> K) (kopp : K -> K).
  Variable Kth : ring_theory k0 k1 kadd kmul ksub kopp (@eq K).
  Add Ring KR : Kth.
  Variable V : Type. Variables (vadd : V -> V -> V) (vzero : V) (dot : V -> V -> K).
  Hypothesis dot_add_l : forall a b f, dot (vadd a b) f = kadd (dot a f) (dot b f).
  Hypothesis dot_add_r : forall a f g, dot a (vadd f g) = kadd (dot a f) (dot a g).
  Hypothesis dot_0_l : forall f, dot vzero f = k0.
  Hypothesis dot_0_r : forall a, dot a vzero = k0.
  Variable n : nat. Variable lam : nat -> nat.
  Hypothesis lam_lt : forall i, 0 < i -> i < n -> lam i < i.
  Variables (X XT : nat -> V -> V).
  Hypothesis dual : forall c v f, dot (X c v) f = dot v (XT c f).
  Hypothesis X_zero : forall c f, dot (X c vzero) f = k0.

  Fixpoint ksum (g : nat -> K) (lo cnt : nat) : K := match cnt with 0 => k0 | S c => kadd (g lo) (ksum g (S lo) c) end.
  Fixpoint csumV (g : nat -> V) (i lo cnt : nat) : V :=
    match cnt with 0 => vzero | S c => if Nat.eqb (lam lo) i then vadd (g lo) (csumV g i (S lo) c) else csumV g i (S lo) c end.
  Fixpoint csumK (g : nat -> K) (i lo cnt : nat) : K :=
    match cnt with 0 => k0 | S c => if Nat.eqb (lam lo) i then kadd (g lo) (csumK g i (S lo) c) else csumK g i (S lo) c end.

  Lemma dot_csumV a g i lo cnt : dot a (csumV g i lo cnt) = csumK (fun c => dot a (g c)) i lo cnt.
  Proof. revert lo; induction cnt; intros; simpl; [apply dot_0_r|]. destruct (Nat.eqb (lam lo) i); [rewrite dot_add_r, IHcnt|rewrite IHcnt]; reflexivity. Qed.
  Lemma ksum_add g h lo cnt : ksum (fun c => kadd (g c) (h c)) lo cnt = kadd (ksum g lo cnt) (ksum h lo cnt).
  Proof. revert lo; induction cnt; intros; simpl; [ring| rewrite IHcnt; ring]. Qed.
  Lemma ksum_ext g h lo cnt : (forall c, lo <= c < lo+cnt -> g c = h c) -> ksum g lo cnt = ksum h lo cnt.
  Proof. revert lo; induction cnt; intros; simpl; auto. rewrite H by lia. rewrite (IHcnt (S lo)); auto. intros; apply H; lia. Qed.
  Lemma ksum_zero lo cnt : ksum (fun _ => k0) lo cnt = k0.
  Proof. revert lo; induction cnt; intros; simpl; [reflexivity| rewrite IHcnt; ring]. Qed.

  Lemma reindex g lo cnt : (forall c, lo <= c < lo+cnt -> lam c < n) ->
    ksum (fun j => csumK g j lo cnt) 0 n = ksum g lo cnt.
  Proof.
    revert lo; induction cnt; intros lo H; simpl.
    - apply ksum_zero.
    - rewrite (ksum_ext _ (fun j => kadd (if Nat.eqb (lam lo) j then g lo else k0) (csumK g j (S lo) cnt))).
      2:{ intros j _. destruct (Nat.eqb (lam lo) j); ring. }
      rewrite ksum_add. rewrite IHcnt by (intros; apply H; lia). f_equal.
      assert (Hl : lam lo < n) by (apply H; lia).
      clear IHcnt H.
      assert (forall base m, base <= lam lo < base + m -> ksum (fun j => if Nat.eqb (lam lo) j then g lo else k0) base m = g lo) as A.
      { intros base m; revert base; induction m; intros; simpl; [lia|].
        destruct (Nat.eqb_spec (lam lo) base).
        - rewrite (ksum_ext _ (fun _ => k0)). rewrite ksum_zero; ring. intros c Hc. destruct (Nat.eqb_spec (lam lo) c); [lia|reflexivity].
        - rewrite IHm by lia. ring. }
      apply A; lia.
  Qed.

  Variables (f Y s v' : nat -> V).
  Hypothesis Yeq : forall i, 0 < i < n -> Y i = vadd (f i) (csumV (fun c => XT c (Y c)) i 1 (n-1)).
  Hypothesis v0 : v' 0 = vzero.
  Hypothesis veq : forall i, 0 < i -> i < n -> v' i = vadd (X i (v' (lam i))) (s i).

  Theorem virtual_power : 0 < n ->
    ksum (fun j => dot (v' j) (f j)) 1 (n-1) = ksum (fun i => dot (s i) (Y i)) 1 (n-1).
  Proof.
    intros Hn.
    assert (E1 : forall j, j < n -> dot (v' j) (Y j) = kadd (dot (v' j) (f j)) (csumK (fun c => dot (X c (v' j)) (Y c)) j 1 (n-1))).
    { intros j Hj. destruct j as [|j'].
      - rewrite v0, !dot_0_l.
        assert (Z : forall lo cnt, csumK (fun c => dot (X c vzero) (Y c)) 0 lo cnt = k0).
        { intros lo cnt; revert lo; induction cnt; intros; simpl; auto. destruct (Nat.eqb (lam lo) 0); rewrite ?IHcnt, ?X_zero; ring. }
        rewrite Z. ring.
      - rewrite (Yeq (S j')) at 1 by lia. rewrite dot_add_r, dot_csumV. f_equal.
        generalize 1 (Nat.sub n 1). intros lo cnt; revert lo; induction cnt; intros; simpl; auto.
        destruct (Nat.eqb (lam lo) (S j')); rewrite ?IHcnt, ?dual; reflexivity. }
    assert (E2 : forall j, csumK (fun c => dot (X c (v' j)) (Y c)) j 1 (n-1) = csumK (fun c => dot (X c (v' (lam c))) (Y c)) j 1 (n-1)).
    { intros j. generalize 1 (Nat.sub n 1). intros lo cnt; revert lo; induction cnt; intros; simpl; auto.
      destruct (Nat.eqb_spec (lam lo) j); rewrite IHcnt; [subst j|]; reflexivity. }
    assert (E3 : ksum (fun j => dot (v' j) (Y j)) 0 n = kadd (ksum (fun j => dot (v' j) (f j)) 0 n) (ksum (fun c => dot (X c (v' (lam c))) (Y c)) 1 (n-1))).
    { rewrite <- (reindex (fun c => dot (X c (v' (lam c))) (Y c)) 1 (n-1)).
      - rewrite <- ksum_add. apply ksum_ext. intros j Hj. rewrite E1 by lia. rewrite E2. reflexivity.
      - intros c Hc. assert (lam c < c) by (apply lam_lt; lia). lia. }
    destruct n as [|m]; [lia|]. replace (Nat.sub (S m) 1) with m in * by lia. simpl in E3. rewrite v0, !dot_0_l in E3.
    assert (E4 : ksum (fun i => dot (v' i) (Y i)) 1 m = kadd (ksum (fun c => dot (X c (v' (lam c))) (Y c)) 1 m) (ksum (fun i => dot (s i) (Y i)) 1 m)).
    { rewrite <- ksum_add. apply ksum_ext. intros i Hi. rewrite (veq i) at 1 by lia. rewrite dot_add_l. reflexivity. }
    rewrite E4 in E3.
    set (A := ksum (fun c => dot (X c (v' (lam c))) (Y c)) 1 m) in *.
    set (B := ksum (fun i => dot (s i) (Y i)) 1 m) in *. set (C := ksum (fun j => dot (v' j) (f j)) 1 m) in *.
    assert (C = ksub (kadd k0 (kadd A B)) A) by (rewrite E3; ring). rewrite H. ring.
  Qed.
End VP.
