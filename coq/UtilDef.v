(* L2: src/rbdl_utils.cc -- CalcCenterOfMass, CalcZeroMomentPoint, energies. *)
From Coq Require Import List Bool Arith NArith.
From RV Require Import Scalar LinAlg3 Spatial Quat ListArr ModelDef JointDef KinDef LinDef DynDef.
Import ListNotations.

Section U.
  Context {T : Type} (O : Ops T).
  Local Notation t0 := (o0 O). Local Notation t1 := (o1 O).
  Local Notation SV := (SV T). Local Notation ST := (ST T). Local Notation V3 := (V3 T).
  Local Notation Model := (@Model T). Local Notation WS := (@WS T).

  Record CoMOut := mkCoM { c_mass : T; c_com : V3; c_vel : V3; c_acc : V3; c_angmom : V3; c_dangmom : V3 }.

  (* momentum-type inward accumulation towards the root: returns (Ic workspace, Itot, htot, hdot_tot) *)
  Definition com_sweep (M : Model) (w : WS) : WS * RBI T * SV * SV :=
    let n := nbodies M in
    let w := fold_left (fun w i => w_Ic w (upd (wIc w) i (getI O M i))) (body_range M) w in
    let hc := map (fun i => rbi_mulv O (gIc O w i) (gv O w i)) (iota 0 n) in
    let hd := map (fun i => svadd O (rbi_mulv O (gIc O w i) (ga O w i))
                               (crossf O (gv O w i) (rbi_mulv O (gIc O w i) (gv O w i)))) (iota 0 n) in
    let '(w, hc, hd, It, ht, hdt) :=
      fold_left (fun (st : WS * list SV * list SV * RBI T * SV * SV) i =>
        let '(w, hc, hd, It, ht, hdt) := st in
        let lam := getlam M i in
        let X := gXl O w i in
        if Nat.eqb lam 0 then
          (w, hc, hd, rbi_add O It (st_applyT_rbi O X (gIc O w i)),
           svadd O ht (st_applyT O X (nth i hc (svzero O))),
           svadd O hdt (st_applyT O X (nth i hd (svzero O))))
        else
          (w_Ic w (upd (wIc w) lam (rbi_add O (gIc O w lam) (st_applyT_rbi O X (gIc O w i)))),
           upd hc lam (svadd O (nth lam hc (svzero O)) (st_applyT O X (nth i hc (svzero O)))),
           upd hd lam (svadd O (nth lam hd (svzero O)) (st_applyT O X (nth i hd (svzero O)))),
           It, ht, hdt))
        (rev_range M) (w, hc, hd, rbi_zero O, svzero O, svzero O) in
    (w, It, ht, hdt).

  Definition calc_center_of_mass (M : Model) (w : WS) (q qd : list T) (qdd : option (list T))
             (upd_kin : bool) : WS * CoMOut :=
    let w := if upd_kin then update_kinematics_custom O M w (Some q) (Some qd) qdd else w in
    let '(w, It, ht, hdt) := com_sweep M w in
    let mass := rm It in
    let com := v3scale O (odiv O t1 mass) (rh It) in
    let comdiv := mkV3 (odiv O (vx (rh It)) mass) (odiv O (vy (rh It)) mass) (odiv O (vz (rh It)) mass) in
    let vel := mkV3 (odiv O (s3 ht) mass) (odiv O (s4 ht) mass) (odiv O (s5 ht) mass) in
    let acc := mkV3 (odiv O (s3 hdt) mass) (odiv O (s4 hdt) mass) (odiv O (s5 hdt) mass) in
    let am := svang (st_applyAdj O (Xtrans O comdiv) ht) in
    let dam := svang (st_applyAdj O (Xtrans O comdiv) hdt) in
    (w, mkCoM mass comdiv vel acc am dam).

  (* CalcZeroMomentPoint (as repaired: the plane passes through `point`) *)
  (* the point of the plane (normal, point) about which the wrench (n0 about the origin, f) has no tangential moment *)
  Definition zmp_point (normal point n0 f : V3) : V3 :=
    let nf := v3dot O normal f in
    let num := v3add O (v3cross O normal n0) (v3scale O (v3dot O normal point) f) in
    mkV3 (odiv O (vx num) nf) (odiv O (vy num) nf) (odiv O (vz num) nf).
  Definition calc_zmp (M : Model) (w : WS) (q qd qdd : list T) (normal point : V3) (upd_kin : bool)
    : WS * V3 :=
    let w := if upd_kin then update_kinematics_custom O M w (Some q) (Some qd) (Some qdd) else w in
    let '(w, It, _, hdt) := com_sweep M w in
    let mass := rm It in
    let com := mkV3 (odiv O (vx (rh It)) mass) (odiv O (vy (rh It)) mass) (odiv O (vz (rh It)) mass) in
    let Xc := Xtrans O com in
    let h1 := st_applyAdj O Xc hdt in
    let h2 := svsub O h1 (svscale O mass (svof (v3zero O) (gravity M))) in
    let h3 := st_applyAdj O (st_inv O Xc) h2 in
    (w, zmp_point normal point (svang h3) (svlin h3)).

  Definition calc_potential_energy (M : Model) (w : WS) (q : list T) (upd_kin : bool) : WS * T :=
    let '(w, c) := calc_center_of_mass M w q (vzeros t0 (qdot_size M)) None upd_kin in
    (w, omul O (c_mass c) (v3dot O (c_com c) (v3opp O (gravity M)))).

  Definition calc_kinetic_energy (M : Model) (w : WS) (q qd : list T) (upd_kin : bool) : WS * T :=
    let w := if upd_kin then update_kinematics_custom O M w (Some q) (Some qd) None else w in
    (w, fold_left (fun acc i =>
          oadd O acc (omul O (ohalf O) (svdot O (gv O w i) (rbi_mulv O (getI O M i) (gv O w i)))))
        (body_range M) t0).
End U.
