(* L0: the scalar abstraction.  Every model definition is polymorphic in a
   type T with a dictionary of operations; theorems assume ring/field laws
   as Section hypotheses (never axioms); the OCaml driver instantiates the
   dictionary with IEEE doubles, Examples instantiate it with Qc. *)
From Coq Require Import List Bool.
Import ListNotations.

Record Ops (T : Type) : Type := mkOps {
  o0 : T; o1 : T;
  oadd : T -> T -> T; omul : T -> T -> T; osub : T -> T -> T; oopp : T -> T;
  odiv : T -> T -> T; oinv : T -> T;
  osqrt : T -> T; ocos : T -> T; osin : T -> T;
  oatan2 : T -> T -> T;          (* oracle; only CalcAngularVelocityfromMatrix-like code *)
  oltb : T -> T -> bool; oeqb : T -> T -> bool
}.
Arguments o0 {T} _. Arguments o1 {T} _. Arguments oadd {T} _ _ _. Arguments omul {T} _ _ _.
Arguments osub {T} _ _ _. Arguments oopp {T} _ _. Arguments odiv {T} _ _ _. Arguments oinv {T} _ _.
Arguments osqrt {T} _ _. Arguments ocos {T} _ _. Arguments osin {T} _ _. Arguments oatan2 {T} _ _ _.
Arguments oltb {T} _ _ _. Arguments oeqb {T} _ _ _.

Declare Scope sc_scope.
Delimit Scope sc_scope with sc.

Section Derived.
  Context {T : Type} (O : Ops T).
  Definition o2 : T := oadd O (o1 O) (o1 O).
  Definition o3 : T := oadd O o2 (o1 O).
  Definition o4 : T := oadd O o2 o2.
  Definition ohalf : T := odiv O (o1 O) o2.
  Definition osq (x : T) : T := omul O x x.
  Definition oabs (x : T) : T := if oltb O x (o0 O) then oopp O x else x.
  Definition oleb (x y : T) : bool := negb (oltb O y x).
  (* small natural-number literals, as sums of o1 *)
  Fixpoint onat (n : nat) : T :=
    match n with 0 => o0 O | 1 => o1 O | S k => oadd O (onat k) (o1 O) end.
  (* sums and dot products of scalar lists *)
  Fixpoint osum (l : list T) : T := match l with [] => o0 O | x :: t => oadd O x (osum t) end.
  Fixpoint odot (a b : list T) : T :=
    match a, b with x :: a', y :: b' => oadd O (omul O x y) (odot a' b') | _, _ => o0 O end.
End Derived.
