(* C15 Join and Separate: rigid union and its inverse (incl. a massless remainder). *)
From RV Require Import Scalar LinAlg3 Spatial Laws ListArr ModelDef SpecDef C15Thm.
Section P.
  Context {T : Type} (O : Ops T) {FL : FieldLaws O}.
  Hypothesis oeqb_spec : forall x y : T, oeqb O x y = true <-> x = y.
  Theorem C15_join_is_rigid_union a X b r :
    m3orth O (stE X) -> m3sym (binertia a) -> m3sym (binertia b) ->
    body_join O a X b = Some r ->
    (oeqb O (bmass b) (o0 O) && m3_is_zero O (binertia b) = false)%bool ->
    let '(m, c, Iu) := spec_union O false (bmass a) (bcom a) (binertia a) X (bmass b) (bcom b) (binertia b) in
    bmass r = m /\ bcom r = c /\ binertia r = Iu.
  Proof. exact (join_is_union O oeqb_spec a X b r). Qed.
  Theorem C15_separate_undoes_join a X b r r' :
    m3sym (binertia a) -> m3sym (binertia b) -> bvirtual a = false ->
    body_join O a X b = Some r -> body_separate O r X b = Some r' ->
    bmass a <> o0 O -> r' = a.
  Proof. exact (separate_join O oeqb_spec a X b r r'). Qed.
  Theorem C15_separate_undoes_join_massless_remainder a X b r r' :
    m3sym (binertia a) -> m3sym (binertia b) -> bmass a = o0 O ->
    body_join O a X b = Some r -> body_separate O r X b = Some r' ->
    (oeqb O (bmass b) (o0 O) && m3_is_zero O (binertia b) = false)%bool ->
    bmass r' = o0 O /\ bcom r' = v3zero O /\ binertia r' = binertia a.
  Proof. exact (separate_join_massless O oeqb_spec a X b r r'). Qed.
End P.
Print Assumptions C15_join_is_rigid_union.
Print Assumptions C15_separate_undoes_join.
Print Assumptions C15_separate_undoes_join_massless_remainder.
