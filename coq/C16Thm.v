(* C16: the algebraic identities, stated about the GENERATED definitions (what the
   headers say now) by transport along the bridge lemmas. *)
From Coq Require Import List Bool Ring Field.
From RV Require Import Scalar LinAlg3 Spatial Quat Tac Laws SpatialLaws InertiaLaws QuatLaws GenBridge.
From RV.Gen Require Import GenSpatial GenQuat.

Section C16.
  Context {T : Type} (O : Ops T) {FL : FieldLaws O}.
  Let Fth := @fl_field T O FL.
  Local Tactic Notation "app" uconstr(l) := (apply l; try exact FL; try assumption).

  Lemma g_apply_is_matrix X v : G_st_apply O X v = m66v O (G_st_toMatrix O X) v.
  Proof. rewrite (B_st_apply O Fth), (B_st_toMatrix O Fth). app apply_is_matrix. Qed.
  Lemma g_applyTranspose_is_matrix X f : G_st_applyTranspose O X f = m66v O (G_st_toMatrixTranspose O X) f.
  Proof. rewrite (B_st_applyTranspose O Fth), (B_st_toMatrixTranspose O Fth). app applyT_is_matrixTranspose. Qed.
  Lemma g_toMatrixTranspose_is_transpose X : G_st_toMatrixTranspose O X = m66T (G_st_toMatrix O X).
  Proof. rewrite (B_st_toMatrixTranspose O Fth), (B_st_toMatrix O Fth). app toMatrixTranspose_is_T. Qed.
  Lemma g_applyAdjoint_is_matrix X f : G_st_applyAdjoint O X f = m66v O (G_st_toMatrixAdjoint O X) f.
  Proof. rewrite (B_st_applyAdjoint O Fth), (B_st_toMatrixAdjoint O Fth). app applyAdj_is_matrix. Qed.
  Lemma g_inverse_apply X v : m3rot O (stE X) -> G_st_apply O (G_st_inverse O X) (G_st_apply O X v) = v.
  Proof. intro H. rewrite !(B_st_apply O Fth), (B_st_inverse O Fth). app apply_inv_apply. Qed.
  Lemma g_inverse_matrix X : m3rot O (stE X) ->
    m66mul O (G_st_toMatrix O (G_st_inverse O X)) (G_st_toMatrix O X) = m66id O.
  Proof. intro H. rewrite !(B_st_toMatrix O Fth), (B_st_inverse O Fth). app inv_matrix. Qed.
  Lemma g_rbi_mulv_is_matrix I v : G_rbi_mulv O I v = m66v O (G_rbi_toMatrix O I) v.
  Proof. rewrite (B_rbi_mulv O Fth), (B_rbi_toMatrix O Fth). app rbi_mulv_is_matrix. Qed.
  Lemma g_setSpatialMatrix_is_toMatrix I : G_rbi_setSpatialMatrix O I = G_rbi_toMatrix O I.
  Proof. rewrite (B_rbi_setSpatialMatrix O Fth). symmetry. exact (B_rbi_toMatrix O Fth I). Qed.
  Lemma g_createFromMatrix_toMatrix this I : G_rbi_createFromMatrix O this (G_rbi_toMatrix O I) = I.
  Proof. rewrite (B_rbi_createFromMatrix O Fth), (B_rbi_toMatrix O Fth). app rbi_fromMatrix_toMatrix. Qed.
  Lemma g_apply_rbi_is_matrix X I : m3rot O (stE X) ->
    m66mul O (G_rbi_toMatrix O (G_st_apply_rbi O X I)) (G_st_toMatrix O X) =
    m66mul O (G_st_toMatrixAdjoint O X) (G_rbi_toMatrix O I).
  Proof.
    intro H. rewrite !(B_rbi_toMatrix O Fth), (B_st_apply_rbi O Fth), (B_st_toMatrix O Fth), (B_st_toMatrixAdjoint O Fth).
    app apply_rbi_is_matrix.
  Qed.
  Lemma g_applyTranspose_rbi_is_matrix X I : m3rot O (stE X) ->
    G_rbi_toMatrix O (G_st_applyTranspose_rbi O X I) =
    m66mul O (G_st_toMatrixTranspose O X) (m66mul O (G_rbi_toMatrix O I) (G_st_toMatrix O X)).
  Proof.
    intro H. rewrite !(B_rbi_toMatrix O Fth), (B_st_applyTranspose_rbi O Fth), (B_st_toMatrix O Fth), (B_st_toMatrixTranspose O Fth).
    app applyT_rbi_is_matrix.
  Qed.
  Lemma g_mul_assoc X Y Z : G_st_mul O (G_st_mul O X Y) Z = G_st_mul O X (G_st_mul O Y Z).
  Proof. rewrite !(B_st_mul O Fth). app st_mul_assoc. Qed.
  Lemma g_mul_id X : G_st_mul O (stid O) X = X /\ G_st_mul O X (stid O) = X.
  Proof. rewrite !(B_st_mul O Fth). split; [app st_mul_id_l | app st_mul_id_r]. Qed.
  Lemma g_mul_inverse X : m3orth O (stE X) ->
    G_st_mul O X (G_st_inverse O X) = stid O /\ G_st_mul O (G_st_inverse O X) X = stid O.
  Proof. intro H. rewrite !(B_st_mul O Fth), (B_st_inverse O Fth). split; [app st_mul_inv_r | app st_mul_inv_l]. Qed.
  Lemma g_mul_is_composition X Y v : m3rot O (stE Y) ->
    G_st_apply O (G_st_mul O X Y) v = G_st_apply O X (G_st_apply O Y v).
  Proof. intro H. rewrite !(B_st_apply O Fth), (B_st_mul O Fth). app st_apply_mul. Qed.
  Lemma g_crossf_neg_crossm_transpose v :
    G_crossf_mat O v = m66scale O (oopp O (o1 O)) (m66T (G_crossm_mat O v)).
  Proof. rewrite (B_crossf_mat O Fth), (B_crossm_mat O Fth). app crossf_neg_crossmT. Qed.
  Lemma g_cross_vector_forms v w : G_crossm O v w = m66v O (G_crossm_mat O v) w /\ G_crossf O v w = m66v O (G_crossf_mat O v) w.
  Proof. rewrite (B_crossm O Fth), (B_crossf O Fth), (B_crossm_mat O Fth), (B_crossf_mat O Fth).
    split; [app crossm_is_matrix | app crossf_is_matrix]. Qed.
  Lemma g_power_invariant X v f : m3orth O (stE X) ->
    svdot O (G_st_apply O X v) (G_st_applyAdjoint O X f) = svdot O v f.
  Proof. intro H. rewrite (B_st_apply O Fth), (B_st_applyAdjoint O Fth). app power_invariant. Qed.
  Lemma g_apply_dual X v f : svdot O (G_st_apply O X v) f = svdot O v (G_st_applyTranspose O X f).
  Proof. rewrite (B_st_apply O Fth), (B_st_applyTranspose O Fth). app apply_dual. Qed.

  Lemma g_quat_mul_matrix p q : qunit O p -> qunit O q ->
    G_quat_toMatrix O (G_quat_mul O p q) = m3mul O (G_quat_toMatrix O q) (G_quat_toMatrix O p).
  Proof. intros. rewrite !(B_quat_toMatrix O Fth), (B_quat_mul O Fth). app qtoMatrix_mul. Qed.
  Lemma g_quat_toMatrix_rotation q : qunit O q -> m3rot O (G_quat_toMatrix O q).
  Proof. intros. rewrite (B_quat_toMatrix O Fth). app qtoMatrix_rot. Qed.
  Lemma g_quat_rotate q v : qunit O q -> G_quat_rotate O q v = m3v O (G_quat_toMatrix O q) v.
  Proof. intros. rewrite (B_quat_rotate O Fth), (B_quat_toMatrix O Fth). app qrotate_matrix. Qed.
  Lemma g_omegaToQDot_tangent q w : qdot4 O q (G_quat_omegaToQDot O q w) = o0 O.
  Proof. rewrite (B_quat_omegaToQDot O Fth). app omegaToQDot_tangent. Qed.
  Lemma g_omegaToQDot_omega q w : qunit O q ->
    qscale O (G_quat_mul O (G_quat_conjugate O q) (G_quat_omegaToQDot O q w)) (o2 O) = mkQt (vx w) (vy w) (vz w) (o0 O).
  Proof. intros. rewrite (B_quat_mul O Fth), (B_quat_conjugate O Fth), (B_quat_omegaToQDot O Fth). app omegaToQDot_omega. Qed.
End C16.
