(* C08 constrained forward dynamics: the returned accelerations and constraint forces satisfy the motion
   and the constraint equations, and are the only pair that does (so all solution methods agree). *)
From Coq Require Import List.
From RV Require Import Scalar Laws LinAlg3 Spatial ListArr LinDef LinThm ModelDef JointDef KinDef DynDef ConsDef ConsThm C14Thm DimThm KinThm C04Thm FdcThm.
Import ListNotations.
Section P.
  Context {T : Type} (O : Ops T) {FL : FieldLaws O}.
  Hypothesis oeqb_spec : forall x y : T, oeqb O x y = true <-> x = y.
  (* the dense solver of the model: A x = b, and x is the only solution *)
  Theorem C08_solver_sound n A b x : WFm n A -> length b = n -> solve_pp O A b = Some x -> mvmul O A x = b.
  Proof. exact (solve_pp_mvmul O oeqb_spec n A b x). Qed.
  Theorem C08_solver_unique n A b x y : WFm n A -> length b = n -> solve_pp O A b = Some x ->
    length y = n -> Sol O n A b y -> y = x.
  Proof. exact (solve_pp_unique O oeqb_spec n A b x y). Qed.
  (* H qdd + C = tau + G^T lambda  and  G qdd = gamma (gamma includes the Baumgarte term) *)
  Theorem C08_motion_and_constraint_equations (M : @Model T) (w : @WS T) q qd tau cs fext w' Sy qdd lam :
    forward_dynamics_constraints O M w q qd tau cs fext = (w', Sy, Some (qdd, lam)) ->
    let n := dof_count M in let m := length cs in
    WFm n (cH Sy) -> length (cG Sy) = m -> (forall k, k < m -> length (nth k (cG Sy) []) = n) ->
    length (cC Sy) = n -> length tau = n -> length (cgamma Sy) = m ->
    vadd O (mvmul O (cH Sy) qdd) (cC Sy) = vadd O tau (mTvmul O (cG Sy) n lam) /\
    mvmul O (cG Sy) qdd = cgamma Sy.
  Proof. exact (fdc_equations O oeqb_spec M w q qd tau cs fext w' Sy qdd lam). Qed.
  (* any pair satisfying the two block equations is the returned pair: direct, range-space, null-space
     and (for contacts) the test-force method can only agree *)
  Theorem C08_methods_agree (M : @Model T) (w : @WS T) q qd tau cs fext w' Sy qdd lam qdd' x' :
    forward_dynamics_constraints O M w q qd tau cs fext = (w', Sy, Some (qdd, lam)) ->
    let n := dof_count M in let m := length cs in
    WFm n (cH Sy) -> length (cG Sy) = m -> (forall k, k < m -> length (nth k (cG Sy) []) = n) ->
    length (cC Sy) = n -> length tau = n -> length (cgamma Sy) = m ->
    length qdd' = n -> length x' = m ->
    KKTeq O (cH Sy) (cG Sy) n (vsub O tau (cC Sy)) (cgamma Sy) qdd' x' ->
    qdd' = qdd /\ vneg O x' = lam.
  Proof. exact (fdc_unique O oeqb_spec M w q qd tau cs fext w' Sy qdd lam qdd' x'). Qed.
  Theorem C08_baumgarte_term idp ids Xp Xs ax ts err errd : ts <> o0 O ->
    baumgarte O (RLoop idp ids Xp Xs ax true ts) err errd =
    osub O (oopp O (omul O (omul O (o2 O) (oinv O ts)) errd)) (omul O (omul O (oinv O ts) (oinv O ts)) err).
  Proof. exact (baumgarte_term O idp ids Xp Xs ax ts err errd). Qed.
  (* the same without size premises, for every well-formed (constructed, C14) model *)
  Theorem C08_motion_and_constraint_equations_constructed_models (M : @Model T) (w : @WS T) q qd tau cs fext w' Sy qdd lam :
    WF M -> length tau = dof_count M ->
    forward_dynamics_constraints O M w q qd tau cs fext = (w', Sy, Some (qdd, lam)) ->
    vadd O (mvmul O (cH Sy) qdd) (cC Sy) = vadd O tau (mTvmul O (cG Sy) (dof_count M) lam) /\
    mvmul O (cG Sy) qdd = cgamma Sy.
  Proof. intros W. exact (fdc_equations_sized O oeqb_spec M w q qd tau cs fext w' Sy qdd lam (wf_qdot M W)). Qed.
End P.
Section P3.
  Context {T : Type} (O : Ops T) {FL : FieldLaws O} {TL : TrigLaws O}.
  Hypothesis oeqb_spec : forall x y : T, oeqb O x y = true <-> x = y.
  (* the equations of motion WITH the constraint forces, in terms of inverse dynamics: the returned acceleration put
     into InverseDynamics (from any well-formed workspace) gives tau + G^T lambda component by component, and
     G qdd = gamma (f_ext = NULL; premises as for C03_inverse_dynamics_is_H_qddot_plus_nonlinear_effects) *)
  Theorem C08_inverse_dynamics_of_the_returned_acceleration_is_tau_plus_constraint_forces
    (M : @Model T) q qd (w0 w1 : @WS T) (tau : list T) cs w' Sy qdd lam : WF M ->
    (forall i j, 0 < i < nbodies M -> 0 < j < nbodies M -> i <> j ->
       is_custom (jkind (getJ M i)) = true -> is_custom (jkind (getJ M j)) = true -> jcust (getJ M i) <> jcust (getJ M j)) ->
    (forall i u, 0 < i < nbodies M -> bvirtual (getbody O M i) = true -> rbi_mulv O (getI O M i) u = svzero O) ->
    jq (getJ M 0) + jdof (getJ M 0) = 0 ->
    (forall i, 0 < i < nbodies M -> joint_wf O M q i) -> o2 O <> o0 O -> order_ok M = true ->
    Good O M w0 -> Good O M w1 -> length tau = dof_count M ->
    forward_dynamics_constraints O M w0 q qd tau cs None = (w', Sy, Some (qdd, lam)) ->
    (forall r, r < dof_count M ->
       nth r (snd (inverse_dynamics O M w1 q qd qdd (vzeros (o0 O) (dof_count M)) None)) (o0 O) =
       oadd O (nth r tau (o0 O)) (nth r (mTvmul O (cG Sy) (dof_count M) lam) (o0 O))) /\
    mvmul O (cG Sy) qdd = cgamma Sy.
  Proof.
    intros W C V R J N2 Ord G0 G1 L E.
    exact (fdc_equations_of_motion O oeqb_spec M q qd W C V R J N2 Ord w0 w1 tau cs w' Sy qdd lam G0 G1 L E).
  Qed.
End P3.
Print Assumptions C08_solver_sound.
Print Assumptions C08_solver_unique.
Print Assumptions C08_motion_and_constraint_equations.
Print Assumptions C08_methods_agree.
Print Assumptions C08_baumgarte_term.
(* non-vacuity: the hypotheses are met by Qc, and the solver succeeds on a regular KKT system *)
From Coq Require Import QArith Qcanon.
From RV Require Import Inst_Qc.
Definition qz (z : Z) : Qc := Q2Qc (inject_Z z).
Definition qm := map (map qz). Definition qv := map qz.
Example kkt_example : exists u x,
  kkt_solve OQc (qm [[2; 0]; [0; 1]]%Z) (qm [[1; 1]]%Z) (qv [1; 2]%Z) (qv [3]%Z) 2 1 = Some (u, x).
Proof. eexists. eexists. vm_compute. reflexivity. Qed.
Example kkt_example_wf : WFm 2 (qm [[2; 0]; [0; 1]]%Z).
Proof.
  split; [reflexivity|].
  intros [|[|i]] H; try reflexivity. exfalso. apply (PeanoNat.Nat.nlt_0_r i). apply le_S_n, le_S_n. exact H.
Qed.
Print Assumptions C08_motion_and_constraint_equations_constructed_models.
Print Assumptions C08_inverse_dynamics_of_the_returned_acceleration_is_tau_plus_constraint_forces.
