(* C05: the Jacobian fill writes only the columns of the joints on the path from the body to the base. *)
From Coq Require Import List Bool Arith NArith Lia.
From RV Require Import Scalar LinAlg3 Spatial Quat ListArr ModelDef JointDef KinDef.
Import ListNotations.

Section Jac.
  Context {T : Type} (O : Ops T).
  Local Notation t0 := (o0 O).
  Local Notation Model := (@Model T). Local Notation WS := (@WS T).

  Lemma upd_oob {A} (l : list A) i x : length l <= i -> upd l i x = l.
  Proof. revert i; induction l as [|a l IH]; intros [|i] H; cbn in *; try lia; auto. f_equal. apply IH. lia. Qed.

  Lemma mget_mset_other (G : list (list T)) r c x i j : (i <> r \/ j <> c) -> mget t0 (mset G r c x) i j = mget t0 G i j.
  Proof.
    intros H. unfold mget, mset. destruct (Nat.eq_dec i r) as [->|N].
    - destruct H as [H|H]; [congruence|].
      destruct (lt_dec r (length G)) as [L|L].
      + rewrite nth_upd_eq by exact L. apply nth_upd_neq. congruence.
      + rewrite upd_oob by lia. reflexivity.
    - rewrite nth_upd_neq by congruence. reflexivity.
  Qed.

  Lemma mset_cols_other : forall (cols : list (list T)) G c i j, (j < c \/ c + length cols <= j) ->
    mget t0 (mset_cols G c cols) i j = mget t0 G i j.
  Proof.
    induction cols as [|col cols IH]; intros G c i j H; cbn [mset_cols]; [reflexivity|].
    rewrite IH by (cbn [length] in H; lia).
    assert (K : forall (cl : list T) (G' : list (list T)) k, mget t0 (fst (fold_left (fun (acc : list (list T) * nat) x => (mset (fst acc) (snd acc) c x, S (snd acc))) cl (G', k))) i j = mget t0 G' i j).
    { intros cl. induction cl as [|x cl IHc]; intros G' k; cbn [fold_left fst snd]; [reflexivity|].
      rewrite IHc. apply mget_mset_other. right. cbn [length] in H. lia. }
    apply K.
  Qed.

  (* entries in columns that belong to no joint on the path are untouched *)
  Theorem jac_fill_other (M : Model) (w : WS) (f : SV T -> list T) refb : forall G i j,
    (forall b, In b (path_to_base M (nbodies M) refb) ->
       j < jq (getJ M b) \/ jq (getJ M b) + length (jS O M w b) <= j) ->
    mget t0 (jac_fill O M w G refb f) i j = mget t0 G i j.
  Proof.
    unfold jac_fill. generalize (path_to_base M (nbodies M) refb) as path.
    induction path as [|b path IH]; intros G i j H; cbn [fold_left]; [reflexivity|].
    rewrite IH by (intros b' Hb'; apply H; right; exact Hb').
    apply mset_cols_other. rewrite map_length. apply H. left. reflexivity.
  Qed.

  Lemma mget_zeros r c i j : mget t0 (mzeros t0 r c) i j = t0.
  Proof.
    unfold mget, mzeros, vzeros. destruct (lt_dec i r) as [L|L].
    - rewrite (nth_indep _ [] (repeat t0 c)) by (rewrite repeat_length; exact L).
      rewrite nth_repeat. destruct (lt_dec j c) as [L2|L2]; [apply nth_repeat|].
      apply nth_overflow. rewrite repeat_length. lia.
    - rewrite (nth_overflow (repeat (repeat t0 c) r)) by (rewrite repeat_length; lia). destruct j; reflexivity.
  Qed.

  Theorem jacobian_off_path_columns_zero (M : Model) (w : WS) (f : SV T -> list T) refb rows i j :
    (forall b, In b (path_to_base M (nbodies M) refb) ->
       j < jq (getJ M b) \/ jq (getJ M b) + length (jS O M w b) <= j) ->
    mget t0 (jac_fill O M w (mzeros t0 rows (qdot_size M)) refb f) i j = t0.
  Proof. intros H. rewrite jac_fill_other by exact H. apply mget_zeros. Qed.

  (* the point Jacobian is the linear part of the 6-D point Jacobian: same fill, rows 3..5 *)
  Lemma point_jacobians_same_columns (M : Model) (w : WS) id p s :
    let pt := mkST (m3id O) (b2b O M w id p) in
    v3list (svlin (st_apply O pt s)) = skipn 3 (svlist (st_apply O pt s)).
  Proof. reflexivity. Qed.
End Jac.
