(* C12 whole-body quantities.  Proved: the zero-moment point formula -- the returned point lies on the caller's
   plane (any point, any normal), the net wrench has no tangential moment about it, and it is the only such point.
   Balance addon: the estimator's two points lie on the caller's ground plane, the centre of mass sits at the
   reported height above its projection, the foot placement point at h tan(phi) along u, u perpendicular to k;
   the per-body term of the whole-body inertia is the parallel-axis expression of the library.
   Total mass: the value returned by CalcCenterOfMass is the sum of the body masses for every tree and workspace.
   Centre of mass (flag cleared after the position update): mass x com = sum of the bodies' first moments in base
   coordinates, which for a body (m, c, Ic) is m x (base position of c).
   CoM, momenta and energies are decided by the L3 oracle (sums over bodies of the definitions). *)
From Coq Require Import List.
From RV Require Import Scalar LinAlg3 Spatial Laws ListArr ModelDef JointDef KinDef UtilDef UtilThm BalDef BalThm C14Thm KinThm C04Thm KinThm3 ComThm ComThm2 ComThm3.
Section P.
  Context {T : Type} (O : Ops T) {FL : FieldLaws O}.
  Theorem C12_zmp_on_contact_plane (normal point n0 f : V3 T) : v3dot O normal f <> o0 O ->
    v3dot O normal (v3sub O (zmp_point O normal point n0 f) point) = o0 O.
  Proof. exact (zmp_on_plane O normal point n0 f). Qed.
  Theorem C12_zmp_no_tangential_moment (normal point n0 f : V3 T) : v3dot O normal f <> o0 O ->
    v3cross O normal (v3sub O n0 (v3cross O (zmp_point O normal point n0 f) f)) = v3zero O.
  Proof. exact (zmp_no_tangential_moment O normal point n0 f). Qed.
  Theorem C12_zmp_unique (normal point n0 f z : V3 T) : v3dot O normal f <> o0 O ->
    v3dot O normal (v3sub O z point) = o0 O ->
    v3cross O normal (v3sub O n0 (v3cross O z f)) = v3zero O ->
    z = zmp_point O normal point n0 f.
  Proof. exact (zmp_unique O normal point n0 f z). Qed.
  Theorem C12_foot_placement_geometry (M : @Model T) (w : @WS T) q qd point smallw b pi4 iters w' F phi fb r0F0 :
    let g2 := v3norm2 O (gravity M) in
    (omul O (osqrt O g2) (osqrt O g2) = g2) -> (g2 <> o0 O) ->
    (fpe_state O M w q qd point smallw b = (w', F)) ->
    (fpe_solve O F pi4 iters = Some (phi, fb, r0F0)) ->
    v3dot O (v3sub O (f_r0P0 F) point) (f_k F) = o0 O /\
    v3dot O (v3sub O r0F0 point) (f_k F) = o0 O /\
    v3sub O (f_r0C0 F) (f_r0P0 F) = v3scale O (f_h F) (f_k F) /\
    v3sub O r0F0 (f_r0P0 F) = v3scale O (omul O (f_h F) (odiv O (osin O phi) (ocos O phi))) (f_u F) /\
    v3dot O (f_u F) (f_k F) = o0 O.
  Proof. exact (fpe_geometry O M w q qd point smallw b pi4 iters w' F phi fb r0F0). Qed.
  Theorem C12_whole_body_inertia_term_is_parallel_axis (m : T) (c : V3 T) (Ic : M3 T) (X : ST T) (P : V3 T) :
    m3rot O (stE X) -> m3T Ic = Ic ->
    let d := v3sub O (v3sub O P (str X)) (m3Tv O (stE X) c) in
    rbi_about O (st_applyT_rbi O X (rbi_from_mci O m c Ic)) P =
    m3add O (m3mul O (m3mul O (m3T (stE X)) Ic) (stE X)) (m3scale O m (m3mul O (v3crossm O d) (m3T (v3crossm O d)))).
  Proof. exact (rbi_about_parallel_axis O m c Ic X P). Qed.
  Theorem C12_total_mass_is_sum_of_body_masses (M : @Model T) (w : @WS T) q qd qdd b : WF M ->
    length (wIc w) = nbodies M ->
    c_mass (snd (calc_center_of_mass O M w q qd qdd b)) = bsum O (fun j => rm (getI O M j)) (nbodies M).
  Proof. intros W. exact (center_of_mass_total_mass O M W w q qd qdd b). Qed.
  Theorem C12_center_of_mass_is_mass_weighted_mean (M : @Model T) (w0 : @WS T) q qd qdd : WF M ->
    ws_len w0 (nbodies M) ->
    let w := ukc_q O M w0 q in
    let C := snd (calc_center_of_mass O M w q qd qdd false) in
    c_mass C <> o0 O ->
    omul O (c_mass C) (vx (c_com C)) = bsum O (fun j => vx (mom O (gXb O w j) (getI O M j))) (nbodies M) /\
    omul O (c_mass C) (vy (c_com C)) = bsum O (fun j => vy (mom O (gXb O w j) (getI O M j))) (nbodies M) /\
    omul O (c_mass C) (vz (c_com C)) = bsum O (fun j => vz (mom O (gXb O w j) (getI O M j))) (nbodies M).
  Proof. intros W. exact (center_of_mass_is_mass_weighted_mean O M W w0 q qd qdd). Qed.
  Theorem C12_first_moment_of_a_body (X : ST T) m c Ic :
    mom O X (rbi_from_mci O m c Ic) = v3scale O m (v3add O (str X) (m3Tv O (stE X) c)).
  Proof. exact (mom_of_mci O X m c Ic). Qed.
End P.
Section P2.
  Context {T : Type} (O : Ops T) {FL : FieldLaws O} {TL : TrigLaws O}.
  (* Whole-body spatial momentum and its rate, as accumulated by CalcCenterOfMass (flag cleared) after
     UpdateKinematics from any well-formed workspace: every additive coordinate `pr` of the accumulated momentum is
     the sum over the bodies of that coordinate of X_base_j^T (I_j v_j), resp. X_base_j^T (I_j a_j + v_j x* I_j v_j),
     with X_base, v, a the recursions of C04 / C06 (the centre-of-mass velocity, acceleration, angular momentum and
     its rate are fixed functions of these two vectors, the mass and the centre of mass). *)
  Theorem C12_whole_body_momentum_and_rate (M : @Model T) q qd qdd (w0 : @WS T)
    (pr : SV T -> T) : (forall a b, pr (svadd O a b) = oadd O (pr a) (pr b)) -> pr (svzero O) = o0 O ->
    WF M ->
    (forall i j, 0 < i < nbodies M -> 0 < j < nbodies M -> i <> j ->
       is_custom (jkind (getJ M i)) = true -> is_custom (jkind (getJ M j)) = true -> jcust (getJ M i) <> jcust (getJ M j)) ->
    (forall i, 0 < i < nbodies M -> joint_wf O M q i) -> Good O M w0 ->
    let r := com_sweep O M (update_kinematics O M w0 q qd qdd) in
    pr (snd (fst r)) = bsum O (fun j => pr (st_applyT O (XbF O M q j) (hF O M q qd j))) (nbodies M) /\
    pr (snd r) = bsum O (fun j => pr (st_applyT O (XbF O M q j) (hdF O M q qd qdd j))) (nbodies M).
  Proof. intros A Z W C J G. exact (whole_body_momentum O M q qd qdd W C J pr A Z w0 G). Qed.
End P2.
Print Assumptions C12_zmp_on_contact_plane. Print Assumptions C12_zmp_no_tangential_moment. Print Assumptions C12_zmp_unique.
Print Assumptions C12_foot_placement_geometry. Print Assumptions C12_whole_body_inertia_term_is_parallel_axis.
Print Assumptions C12_total_mass_is_sum_of_body_masses.
Print Assumptions C12_center_of_mass_is_mass_weighted_mean. Print Assumptions C12_first_moment_of_a_body.
Print Assumptions C12_whole_body_momentum_and_rate.
