(* C12 whole-body quantities.  Proved: the zero-moment point formula -- the returned point lies on the caller's
   plane (any point, any normal), the net wrench has no tangential moment about it, and it is the only such point.
   Mass, CoM, momenta and energies are decided by the L3 oracle (sums over bodies of the definitions). *)
From Coq Require Import List.
From RV Require Import Scalar LinAlg3 Spatial Laws ListArr ModelDef UtilDef UtilThm.
Section P.
  Context {T : Type} (O : Ops T) {FL : FieldLaws O}.
  Theorem C12_zmp_on_contact_plane (normal point n0 f : V3 T) : v3dot O normal f <> o0 O ->
    v3dot O normal (v3sub O (zmp_point O normal point n0 f) point) = o0 O.
  Proof. exact (zmp_on_plane O normal point n0 f). Qed.
  Theorem C12_zmp_no_tangential_moment (normal point n0 f : V3 T) : v3dot O normal f <> o0 O ->
    v3cross O normal (v3sub O n0 (v3cross O (zmp_point O normal point n0 f) f)) = v3zero O.
  Proof. exact (zmp_no_tangential_moment O normal point n0 f). Qed.
  Theorem C12_zmp_unique (normal point n0 f z : V3 T) : v3dot O normal f <> o0 O ->
    v3dot O normal (v3sub O z point) = o0 O ->
    v3cross O normal (v3sub O n0 (v3cross O z f)) = v3zero O ->
    z = zmp_point O normal point n0 f.
  Proof. exact (zmp_unique O normal point n0 f z). Qed.
End P.
Print Assumptions C12_zmp_on_contact_plane. Print Assumptions C12_zmp_no_tangential_moment. Print Assumptions C12_zmp_unique.
