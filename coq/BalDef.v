(* L2: addons/balance/BalanceToolkit.cc -- CalculateFootPlacementEstimator: whole-body inertia, angular momentum and
   average angular velocity about the centre of mass and about its ground projection, the u-v-k frame, the
   projections onto it, the bisection for the foot-placement angle phi and the foot-placement point.
   The per-body term of the whole-body inertia is written division-free on the spatial inertia (m, h, I_O) of the
   body brought to base axes: I_O + m Px Px^T - Px hx^T - hx Px^T, the inertia about the point P (BalThm shows it
   equals the library's  E^T Ic E + m rx rx^T  with r = P - r_i - E^T c). *)
From Coq Require Import List Bool Arith NArith.
From RV Require Import Scalar LinAlg3 Spatial Quat ListArr ModelDef JointDef KinDef LinDef DynDef UtilDef.
Import ListNotations.

Section Bal.
  Context {T : Type} (O : Ops T).
  Local Notation t0 := (o0 O). Local Notation t1 := (o1 O).
  Local Notation V3 := (V3 T). Local Notation M3 := (M3 T).
  Local Notation Model := (@Model T). Local Notation WS := (@WS T).

  Definition rbi_about (I : RBI T) (P : V3) : M3 :=
    let Px := v3crossm O P in let hx := v3crossm O (rh I) in
    m3sub O (m3sub O (m3add O (rbi_I I) (m3scale O (rm I) (m3mul O Px (m3T Px)))) (m3mul O Px (m3T hx))) (m3mul O hx (m3T Px)).
  Definition fpe_JC0 (M : Model) (w : WS) (P : V3) : M3 :=
    fold_left (fun J i => m3add O J (rbi_about (st_applyT_rbi O (gXb O w i) (getI O M i)) P)) (body_range M) (m3zero O).

  Definition m3rows (A : M3) : list (list T) := [[m00 A; m01 A; m02 A]; [m10 A; m11 A; m12 A]; [m20 A; m21 A; m22 A]].
  Definition solve3 (A : M3) (b : V3) : option V3 :=
    match solve_pp O (m3rows A) (v3list b) with
    | Some [x; y; z] => Some (mkV3 x y z)
    | _ => None
    end.
  Definition omaxv (a b : T) : T := if oltb O a b then b else a.

  (* Eqn. 45 of Millard et al. as the library evaluates it *)
  Definition fpe_f (g m h nJn w0n vk vu phi : T) : T :=
    let c := ocos O phi in let c2 := omul O c c in let s := osin O phi in let h2 := omul O h h in
    let a := oadd O (omul O (omul O c2 w0n) nJn) (omul O (omul O (omul O c h) m) (oadd O (omul O s vk) (omul O c vu))) in
    oadd O (odiv O (omul O a a) (oadd O (omul O c2 nJn) (omul O h2 m)))
           (omul O (omul O (omul O (omul O (omul O (o2 O) (osub O c t1)) c) g) h) m).
  (* MAX_ITERATIONS steps of the left / right probing with halving step *)
  Fixpoint fpe_search (fuel : nat) (f : T -> T) (phi fb delta : T) : T * T :=
    match fuel with
    | 0 => (phi, fb)
    | S k =>
      let pl := osub O phi delta in let fl := f pl in
      let pr := oadd O phi delta in let fr := f pr in
      let '(phi1, fb1) := if oltb O (oabs O fl) (oabs O fb) && negb (oltb O (oabs O fr) (oabs O fl)) then (pl, fl) else (phi, fb) in
      let '(phi2, fb2) := if oltb O (oabs O fr) (oabs O fb1) && oltb O (oabs O fr) (oabs O fl) then (pr, fr) else (phi1, fb1) in
      fpe_search k f phi2 fb2 (omul O delta (ohalf O))
    end.

  Record FPE := mkFPE {
    f_k : V3; f_r0C0 : V3; f_v0C0 : V3; f_HC0 : V3; f_JC0 : M3; f_w0C0 : option V3;
    f_r0P0 : V3; f_JP0 : M3; f_HP0 : V3; f_w0P0 : option V3; f_n : V3; f_u : V3; f_h : T;
    f_nJC0n : T; f_v0C0u : T; f_v0C0k : T; f_w0C0n : option T; f_mass : T; f_g : T }.

  Definition fpe_ground_projection (r0C0 point k : V3) : V3 :=
    v3sub O r0C0 (v3scale O (v3dot O (v3sub O r0C0 point) k) k).
  Definition fpe_point (r0P0 u : V3) (h tanphi : T) : V3 := v3add O r0P0 (v3scale O (omul O h tanphi) u).

  Definition fpe_state (M : Model) (w : WS) (q qd : list T) (point : V3) (smallw : T) (upd_kin : bool) : WS * FPE :=
    let g := v3norm O (gravity M) in
    let k := v3scale O (odiv O (oopp O t1) g) (gravity M) in
    let '(w, c) := calc_center_of_mass O M w q qd None upd_kin in
    let m := c_mass c in let r0C0 := c_com c in let v0C0 := c_vel c in let HC0 := c_angmom c in
    let JC0 := fpe_JC0 M w r0C0 in
    let w0C0 := solve3 JC0 HC0 in
    let r0P0 := fpe_ground_projection r0C0 point k in
    let rPC0 := v3sub O r0C0 r0P0 in
    let rx := v3crossm O rPC0 in
    let JP0 := m3add O JC0 (m3scale O m (m3mul O rx (m3T rx))) in
    let HP0 := v3add O HC0 (m3v O rx (v3scale O m v0C0)) in
    let w0P0 := solve3 JP0 HP0 in
    let Hsmall := m3v O JP0 (mkV3 smallw smallw smallw) in
    let n0 := v3sub O HP0 (v3scale O (v3dot O HP0 k) k) in
    let n := v3scale O (odiv O t1 (omaxv (v3norm O n0) (v3norm O Hsmall))) n0 in
    let u := v3cross O n k in
    (w, mkFPE k r0C0 v0C0 HC0 JC0 w0C0 r0P0 JP0 HP0 w0P0 n u (v3dot O k (v3sub O r0C0 point))
         (v3dot O n (m3v O JC0 n)) (v3dot O u v0C0) (v3dot O k v0C0)
         (match w0C0 with Some x => Some (v3dot O n x) | None => None end) m g).

  Definition fpe_iters : nat := 15.   (* MAX_ITERATIONS *)
  (* phi, f at phi, and the foot placement point; pi4 = pi / 4 is supplied by the caller (a constant of the code) *)
  Definition fpe_solve (F : FPE) (pi4 : T) (iters : nat) : option (T * T * V3) :=
    match f_w0C0n F with
    | None => None
    | Some w0n =>
      let f := fpe_f (f_g F) (f_mass F) (f_h F) (f_nJC0n F) w0n (f_v0C0k F) (f_v0C0u F) in
      let '(phi, fb) := fpe_search iters f pi4 (f pi4) (omul O (ohalf O) pi4) in
      let tanphi := odiv O (osin O phi) (ocos O phi) in
      Some (phi, fb, fpe_point (f_r0P0 F) (f_u F) (f_h F) tanphi)
    end.
End Bal.
