(* C03: NonlinearEffects (as repaired by the fix commits) equals InverseDynamics at zero acceleration,
   joint by joint, for every tree, joint kind (incl. Euler / helical / custom joints attached to the base)
   and incoming workspace. *)
From Coq Require Import List Bool Arith NArith Lia Ring Field.
From RV Require Import Scalar LinAlg3 Spatial Quat Tac Laws SpatialLaws ListArr ListLemmas ModelDef JointDef KinDef LinDef DynDef
     C14Thm WsLemmas KinThm Tree VPower DynThm.
Import ListNotations.

Lemma order_ok_spec {T : Type} (O : Ops T) (M : @Model T) : order_ok M = true ->
  (forall i, 0 < i < nbodies M -> In i (tl (update_order M))) /\
  (forall i, In i (tl (update_order M)) -> 0 < i < nbodies M).
Proof.
  unfold order_ok. intros H. apply andb_true_iff in H. destruct H as [H1 H2].
  rewrite forallb_forall in H1, H2. split.
  - intros i Hi. assert (Hin : In i (body_range M)) by (unfold body_range; apply in_iota; lia).
    specialize (H1 i Hin). apply existsb_exists in H1. destruct H1 as (x & Hx & E).
    apply Nat.eqb_eq in E. subst. exact Hx.
  - intros i Hi. specialize (H2 i Hi). apply andb_true_iff in H2. destruct H2 as [A B].
    apply Nat.ltb_lt in A, B. lia.
Qed.

Section NLE.
  Context {T : Type} (O : Ops T) {FL : FieldLaws O}.
  Add Field FlFnle : (@fl_field T O FL).
  Local Notation Model := (@Model T). Local Notation WS := (@WS T).
  Local Notation t0 := (o0 O).

  Variable M : Model.
  Variables q qd : list T.
  Hypothesis W : WF M.
  Hypothesis cust_inj : forall i j, 0 < i < nbodies M -> 0 < j < nbodies M -> i <> j ->
    is_custom (jkind (getJ M i)) = true -> is_custom (jkind (getJ M j)) = true -> jcust (getJ M i) <> jcust (getJ M j).
  (* the joint update order lists every movable body (established by AddBody; checked at run time) *)
  Hypothesis Hcov : forall i, 0 < i < nbodies M -> In i (tl (update_order M)).
  Hypothesis Hrng : forall i, In i (tl (update_order M)) -> 0 < i < nbodies M.

  Let n := nbodies M.
  Let z : list T := vzeros t0 (dof_count M).
  Local Notation vI := (vI O M q qd). Local Notation aI := (aI O M q qd z). Local Notation fI := (fI O M q qd z).
  Local Notation cI := (cI O M q qd).

  Ltac wsimp := cbn [wXl wXb wv wa wc wvJ wcJ wS wf wpA wU wmS wmU wmDinv wmu wIc wIA wd wu wcS wcU wcDinv wcu
                     w_Xl w_Xb w_v w_a w_c w_vJ w_cJ w_S w_f w_pA w_U w_mS w_mU w_mDinv w_mu w_Ic w_IA w_d w_u
                     w_cS w_cU w_cDinv w_cu] in *.

  Definition Fi (w : WS) (i : nat) : Prop :=
    gXl O w i = XlF O M q i /\ jS O M w i = SF O M q i /\ gvJ O w i = vJF O M q qd i /\ gcJ O w i = cJF O M q qd i.

  Lemma jc_step w j : Good O M w -> 0 < j < n ->
    let w' := jcalc O M w j q qd in
    Good O M w' /\ Fi w' j /\ (forall i, 0 < i < n -> i <> j -> Fi w i -> Fi w' i) /\
    wv w' = wv w /\ wa w' = wa w.
  Proof.
    intros [Hlen Hg] [Hj Hn]. cbv zeta.
    set (w1 := jcalc O M w j q qd).
    assert (Hlen1 : ws_len w1 n) by (apply jcalc_len; exact Hlen).
    pose proof (jcalc_untouched O true M w j q qd) as U. cbv zeta in U. fold (jcalc O M w j q qd) in U. fold w1 in U.
    destruct U as (UXb & Uv & Ua & _).
    assert (Hkind : jkind (getJ M j) <> JRoot) by (apply (wf_kind M W); unfold n in *; auto).
    assert (HXl : gXl O w1 j = XlF O M q j).
    { apply (@jcalc_Xl T O FL); [destruct Hlen as (L & _); rewrite L; exact Hn | exact Hkind]. }
    destruct (jcalc_full_vals O M w j q qd n Hlen Hn (proj1 (Hg j (conj Hj Hn))) (proj2 (Hg j (conj Hj Hn))))
      as (HS & HvJ & _). fold w1 in HS, HvJ.
    pose proof (jcalc_full_cJ O M w j q qd n Hlen Hn Hkind (proj1 (Hg j (conj Hj Hn)))) as HcJ. fold w1 in HcJ.
    split; [|split; [|split; [|split]]].
    - split; [exact Hlen1|]. intros i Hi. apply (jcalc_full_inv O M w j q qd n); auto; intros j' Hj'; apply Hg; exact Hj'.
    - repeat split; assumption.
    - intros i Hi Hne (A & B & C & D).
      destruct (jcalc_other O true M w j q qd i Hne) as (E1 & E2 & E3 & _). fold (jcalc O M w j q qd) in E1, E2, E3. fold w1 in E1, E2, E3.
      repeat split.
      + rewrite E1. exact A.
      + unfold w1, jcalc. rewrite (jS_frame O M cust_inj true w j i q qd); auto; unfold n in *; lia.
      + rewrite E2. exact C.
      + rewrite E3. exact D.
    - exact Uv.
    - exact Ua.
  Qed.

  Lemma phase1 : forall L w, (forall j, In j L -> 0 < j < n) -> Good O M w ->
    let w' := fold_left (fun w i => jcalc O M w i q qd) L w in
    Good O M w' /\ (forall i, 0 < i < n -> (In i L \/ Fi w i) -> Fi w' i) /\ wv w' = wv w /\ wa w' = wa w.
  Proof.
    induction L as [|j L IH]; intros w HL Hg; cbn [fold_left].
    - split; [exact Hg|]. split; [|split; reflexivity]. intros i Hi [[]|H]. exact H.
    - destruct (jc_step w j Hg (HL j (or_introl eq_refl))) as (G1 & Fj & Fo & Ev & Ea).
      destruct (IH (jcalc O M w j q qd) (fun j' H => HL j' (or_intror H)) G1) as (G2 & F2 & Ev2 & Ea2).
      split; [exact G2|]. split; [|split; congruence].
      intros i Hi [[<-|Hin]|H].
      + apply F2; [exact Hi|]. right. exact Fj.
      + apply F2; [exact Hi|]. left. exact Hin.
      + apply F2; [exact Hi|]. destruct (Nat.eq_dec i j) as [->|Hne]; [right; exact Fj|].
        right. apply Fo; auto.
  Qed.

  (* ---- the propagation loop, f_ext = NULL ---- *)
  Definition nle_step (w : WS) (i : nat) : WS :=
    let sg := grav_sv O M false in
    let lam := getlam M i in
    let w := if Nat.eqb lam 0
      then let w := w_v w (upd (wv w) i (gvJ O w i)) in
           let w := w_c w (upd (wc w) i (svadd O (gcJ O w i) (crossm O (gv O w i) (gvJ O w i)))) in
           w_a w (upd (wa w) i (svadd O (st_apply O (gXl O w i) sg) (gc O w i)))
      else let w := w_v w (upd (wv w) i (svadd O (st_apply O (gXl O w i) (gv O w lam)) (gvJ O w i))) in
           let w := w_c w (upd (wc w) i (svadd O (gcJ O w i) (crossm O (gv O w i) (gvJ O w i)))) in
           w_a w (upd (wa w) i (svadd O (st_apply O (gXl O w i) (ga O w lam)) (gc O w i))) in
    w_f w (upd (wf w) i (if bvirtual (getbody O M i) then svzero O else body_force O M w i)).

  Definition nle_init (w : WS) : WS :=
    let w := w_v w (upd (wv w) 0 (svzero O)) in w_a w (upd (wa w) 0 (grav_sv O M false)).

  Lemma nle_unfold w tau :
    nonlinear_effects O M w q qd tau None =
    inward_tau O M (fold_left nle_step (body_range M)
                     (fold_left (fun w i => jcalc O M w i q qd) (tl (update_order M)) (nle_init w))) tau.
  Proof. reflexivity. Qed.

  Definition InvN (w : WS) (k : nat) : Prop :=
    Good O M w /\ (forall i, 0 < i < n -> Fi w i) /\ gv O w 0 = svzero O /\ ga O w 0 = a0 O M /\
    forall j, 0 < j < k -> gv O w j = vI j /\ ga O w j = aI j /\ gf O w j = fI j.

  Lemma apply_zero_add (X : ST T) (v : SV T) : svadd O (st_apply O X (svzero O)) v = v.
  Proof. l1_split; ring. Qed.
  Lemma svadd_zero_r (v : SV T) : svadd O v (svzero O) = v.
  Proof. l1_split; ring. Qed.
  Lemma cols_mulv_zeros : forall (S : list (SV T)) k, cols_mulv O S (vzeros t0 k) = svzero O.
  Proof.
    unfold vzeros. induction S as [|c S IH]; intros [|k]; cbn; try reflexivity.
    rewrite IH. l1_split; ring.
  Qed.
  Lemma vslice_zeros : forall k m a, vslice t0 (vzeros t0 m) a k = vzeros t0 k.
  Proof.
    unfold vzeros. induction k as [|k IH]; intros m a; cbn; [reflexivity|].
    rewrite IH. f_equal. unfold vget. destruct (lt_dec a m) as [L|L].
    - apply nth_repeat.
    - apply nth_overflow. rewrite repeat_length. lia.
  Qed.

  Lemma nle_step_inv w i : 0 < i < n -> InvN w i -> InvN (nle_step w i) (S i).
  Proof.
    intros [Hi Hn] ((Hlen & Hg) & HF & Hv0 & Ha0 & Hinv). unfold nle_step.
    destruct (HF i (conj Hi Hn)) as (HXl & HS & HvJ & HcJ).
    pose proof (wf_parent M W i (conj Hi Hn)) as Hlam. fold (getlam M i) in Hlam.
    assert (Hlen' := Hlen). unfold ws_len in Hlen'. decompose [and] Hlen'. clear Hlen'.
    set (sg := grav_sv O M false).
    (* the three kinematic writes, in both branches, leave v_i = vI i, c_i = cI i, a_i = aI i *)
    set (wk := if Nat.eqb (getlam M i) 0 then _ else _).
    assert (K : gv O wk i = vI i /\ ga O wk i = aI i /\ ws_len wk n /\
                wS wk = wS w /\ wvJ wk = wvJ w /\ wcJ wk = wcJ w /\ wmS wk = wmS w /\ wcS wk = wcS w /\ wXl wk = wXl w /\
                wf wk = wf w /\
                (forall j, j <> i -> gv O wk j = gv O w j /\ ga O wk j = ga O w j)).
    { unfold wk. destruct (Nat.eqb (getlam M i) 0) eqn:E.
      - apply Nat.eqb_eq in E.
        set (w2 := w_v w _). set (w3 := w_c w2 _). set (w4 := w_a w3 _).
        assert (Ev : gv O w2 i = vI i).
        { unfold w2, gv; wsimp. rewrite nth_upd_eq by lia. rewrite HvJ.
          rewrite (vI_unfold O M q qd W i (conj Hi Hn)), E. change (DynThm.vI O M q qd 0) with (svzero O).
          symmetry. apply apply_zero_add. }
        assert (Ec : gc O w3 i = cI i).
        { unfold w3, gc; wsimp. rewrite nth_upd_eq by (unfold w2; wsimp; lia).
          rewrite Ev. unfold w2, gcJ, gvJ; wsimp. fold (gcJ O w i). fold (gvJ O w i). rewrite HcJ, HvJ. reflexivity. }
        assert (Ea : ga O w4 i = aI i).
        { unfold w4, ga; wsimp. rewrite nth_upd_eq by (unfold w3, w2; wsimp; lia).
          rewrite Ec. unfold w3, w2, gXl; wsimp. fold (gXl O w i). rewrite HXl.
          rewrite (aI_unfold O M q qd z W i (conj Hi Hn)), E. change (DynThm.aI O M q qd z 0) with (a0 O M).
          unfold qdd_seg, z. rewrite vslice_zeros, cols_mulv_zeros, svadd_zero_r. reflexivity. }
        assert (Lk : ws_len w4 n) by (unfold w4, w3, w2, ws_len; wsimp; rewrite !upd_length; repeat split; assumption).
        assert (Ko : forall j, j <> i -> gv O w4 j = gv O w j /\ ga O w4 j = ga O w j).
        { intros j Hne. unfold w4, w3, w2, gv, ga; wsimp. split; apply nth_upd_neq; congruence. }
        assert (Ev4 : gv O w4 i = vI i) by (unfold w4, w3, gv in *; wsimp; exact Ev).
        exact (conj Ev4 (conj Ea (conj Lk (conj eq_refl (conj eq_refl (conj eq_refl (conj eq_refl (conj eq_refl (conj eq_refl (conj eq_refl Ko)))))))))).
      - apply Nat.eqb_neq in E.
        assert (Hvl : gv O w (getlam M i) = vI (getlam M i)) by (apply (Hinv (getlam M i)); lia).
        assert (Hal : ga O w (getlam M i) = aI (getlam M i)) by (apply (Hinv (getlam M i)); lia).
        set (w2 := w_v w _). set (w3 := w_c w2 _). set (w4 := w_a w3 _).
        assert (Ev : gv O w2 i = vI i).
        { unfold w2, gv; wsimp. rewrite nth_upd_eq by lia. fold (gv O w (getlam M i)). rewrite HXl, Hvl, HvJ.
          symmetry. apply (vI_unfold O M q qd W). auto. }
        assert (Ec : gc O w3 i = cI i).
        { unfold w3, gc; wsimp. rewrite nth_upd_eq by (unfold w2; wsimp; lia).
          rewrite Ev. unfold w2, gcJ, gvJ; wsimp. fold (gcJ O w i). fold (gvJ O w i). rewrite HcJ, HvJ. reflexivity. }
        assert (Ea : ga O w4 i = aI i).
        { unfold w4, ga; wsimp. rewrite nth_upd_eq by (unfold w3, w2; wsimp; lia).
          rewrite Ec. unfold w3, w2, gXl; wsimp. fold (gXl O w i). fold (ga O w (getlam M i)). rewrite HXl, Hal.
          rewrite (aI_unfold O M q qd z W i (conj Hi Hn)).
          unfold qdd_seg, z. rewrite vslice_zeros, cols_mulv_zeros, svadd_zero_r. reflexivity. }
        assert (Lk : ws_len w4 n) by (unfold w4, w3, w2, ws_len; wsimp; rewrite !upd_length; repeat split; assumption).
        assert (Ko : forall j, j <> i -> gv O w4 j = gv O w j /\ ga O w4 j = ga O w j).
        { intros j Hne. unfold w4, w3, w2, gv, ga; wsimp. split; apply nth_upd_neq; congruence. }
        assert (Ev4 : gv O w4 i = vI i) by (unfold w4, w3, gv in *; wsimp; exact Ev).
        exact (conj Ev4 (conj Ea (conj Lk (conj eq_refl (conj eq_refl (conj eq_refl (conj eq_refl (conj eq_refl (conj eq_refl (conj eq_refl Ko)))))))))). }
    clearbody wk. destruct K as (Ev & Ea & Lk & e1 & e2 & e3 & e4 & e5 & e6 & e7 & Ko).
    assert (Lk' := Lk). unfold ws_len in Lk'. decompose [and] Lk'. clear Lk'.
    set (fv := if bvirtual (getbody O M i) then svzero O else body_force O M wk i).
    assert (Ef : fv = fI i).
    { unfold fv, DynThm.fI. destruct (bvirtual (getbody O M i)); [reflexivity|].
      unfold body_force. rewrite Ea, Ev. reflexivity. }
    fold fv.
    split; [|split; [|split; [|split]]].
    - apply (good_ext O M wk); try reflexivity.
      + unfold ws_len; wsimp. rewrite !upd_length. repeat split; assumption.
      + apply (good_ext O M w); try assumption. split; assumption.
    - intros j Hj. destruct (HF j Hj) as (A & B & C & D). repeat split.
      + unfold gXl; wsimp. rewrite e6. exact A.
      + rewrite (jS_ext O M w _ j); [exact B| | |]; wsimp; assumption.
      + unfold gvJ; wsimp. rewrite e2. exact C.
      + unfold gcJ; wsimp. rewrite e3. exact D.
    - unfold gv; wsimp. fold (gv O wk 0). rewrite (proj1 (Ko 0 ltac:(lia))). exact Hv0.
    - unfold ga; wsimp. fold (ga O wk 0). rewrite (proj2 (Ko 0 ltac:(lia))). exact Ha0.
    - intros j [Hj0 Hj]. destruct (Nat.eq_dec j i) as [->|Hne].
      + repeat split.
        * unfold gv; wsimp. exact Ev.
        * unfold ga; wsimp. exact Ea.
        * unfold gf; wsimp. rewrite nth_upd_eq by lia. exact Ef.
      + destruct (Hinv j ltac:(lia)) as (A & B & C). destruct (Ko j Hne) as [K1 K2]. repeat split.
        * unfold gv; wsimp. fold (gv O wk j). rewrite K1. exact A.
        * unfold ga; wsimp. fold (ga O wk j). rewrite K2. exact B.
        * unfold gf; wsimp. rewrite nth_upd_neq by auto. rewrite e7. exact C.
  Qed.

  Theorem nle_forward_spec (w : WS) : Good O M w ->
    InvF O M q qd z (fold_left nle_step (body_range M)
                       (fold_left (fun w i => jcalc O M w i q qd) (tl (update_order M)) (nle_init w))) n.
  Proof.
    intros [Hlen Hg]. pose proof (wf_pos M W) as Hpos. fold n in Hpos.
    assert (L := Hlen). unfold ws_len in L. decompose [and] L. clear L.
    assert (G0 : Good O M (nle_init w)).
    { apply (good_ext O M w); try reflexivity; [|split; assumption].
      unfold nle_init, ws_len; wsimp. rewrite !upd_length. repeat split; assumption. }
    destruct (phase1 (tl (update_order M)) (nle_init w) Hrng G0) as (G1 & F1 & Ev1 & Ea1).
    set (w1 := fold_left (fun w i => jcalc O M w i q qd) (tl (update_order M)) (nle_init w)) in *.
    assert (I1 : InvN w1 1).
    { split; [exact G1|]. split; [|split; [|split]].
      - intros i Hi. apply F1; [exact Hi|]. left. apply Hcov. exact Hi.
      - unfold gv. rewrite Ev1. unfold nle_init; wsimp. apply nth_upd_eq. unfold n in *. lia.
      - unfold ga. rewrite Ea1. unfold nle_init; wsimp. apply nth_upd_eq. unfold n in *. lia.
      - intros j Hj. lia. }
    unfold body_range.
    pose proof (fold_iota_inv nle_step InvN (Nat.pred n) 1 w1 I1) as K.
    replace (1 + Nat.pred n) with n in K by lia.
    assert (K' : InvN (fold_left nle_step (iota 1 (Nat.pred n)) w1) n).
    { apply K. intros w' i Hi HI. apply nle_step_inv; [lia|exact HI]. }
    clear K. fold n. destruct K' as (G & F & V0 & A0 & J).
    split; [exact G|]. split; [exact V0|]. split; [exact A0|].
    intros j Hj. destruct (J j Hj) as (A & B & C). destruct (F j Hj) as (D & E & _).
    repeat split; assumption.
  Qed.

  (* NonlinearEffects = InverseDynamics with QDDot = 0, joint by joint *)
  Theorem nle_is_id_at_zero_acceleration (w1 w2 : WS) tau1 tau2 i : Good O M w1 -> Good O M w2 ->
    dof_count M <= length tau1 -> dof_count M <= length tau2 -> 0 < i < n ->
    vslice t0 (snd (nonlinear_effects O M w1 q qd tau1 None)) (jq (getJ M i)) (jdof (getJ M i)) =
    vslice t0 (snd (inverse_dynamics O M w2 q qd z tau2 None)) (jq (getJ M i)) (jdof (getJ M i)).
  Proof.
    intros G1 G2 L1 L2 Hi.
    pose proof (id_structure O M q qd z W cust_inj w2 tau2 G2 L2) as K2.
    pose proof (nle_forward_spec w1 G1) as F.
    assert (SL : forall i, 0 < i < nbodies M -> length (SF O M q i) = jdof (getJ M i)).
    { intros j Hj. destruct F as ((_ & G) & _). eapply SF_length. apply (proj2 (G j Hj)). }
    pose proof (id_backward_spec O M q qd z W _ F SL tau1 L1) as K1.
    rewrite nle_unfold.
    destruct (inward_tau O M _ tau1) as [w1' t1].
    destruct (inverse_dynamics O M w2 q qd z tau2 None) as [w2' t2].
    destruct K1 as [Y1 S1]. destruct K2 as [Y2 S2]. cbn [snd].
    rewrite (S1 i Hi), (S2 i Hi). f_equal.
    apply (sweep_unique (SV T) (svadd O) (svzero O) (nbodies M) (getlam M)
             ltac:(intros j H1 H2; apply (wf_parent M W); lia) (XT O M q) (DynThm.fI O M q qd z)
             (fun i => nth i (wf w1') (svzero O)) (fun i => nth i (wf w2') (svzero O)) Y1 Y2 i Hi).
  Qed.
End NLE.
