// C20: N threads, each with private Model / ConstraintSet instances, run routine sequences concurrently; every
// thread's results must be bit-identical to the same sequence run alone.  Built with -fsanitize=thread: a data
// race on any process-wide object is reported by the sanitizer even when the results happen to agree.
#include <rbdl/rbdl.h>
#include <rbdl/rbdl_utils.h>
#include <rbdl/Constraints.h>
#include "luamodel/luamodel.h"
#include "geometry/SmoothSegmentedFunction.h"
#include "muscle/MuscleFunctionFactory.h"
#include "muscle/Millard2016TorqueMuscle.h"
#include <thread>
#include <vector>
#include <cstdio>
#include <cstring>
#include <cstdlib>
#include <fstream>
#include <random>

using namespace RigidBodyDynamics;
using namespace RigidBodyDynamics::Math;

struct Rng { std::mt19937_64 g; Rng(unsigned long s) : g(s) {} double u(double a, double b) { return a + (b - a) * (double)(g() >> 11) / 9007199254740992.0; } int i(int n) { return (int)(g() % (unsigned long)n); } };

static void build_model(Model &m, Rng &r) {
  m.gravity = Vector3d(r.u(-3, 3), -9.81, r.u(-3, 3));
  int n = 2 + r.i(5); std::vector<unsigned> ids(1, 0);
  for (int k = 0; k < n; k++) {
    Body b(r.u(0.5, 3), Vector3d(r.u(-0.3, 0.3), r.u(-0.3, 0.3), r.u(-0.3, 0.3)), Vector3d(r.u(0.3, 2), r.u(0.3, 2), r.u(0.3, 2)));
    SpatialTransform X = Xrotz(r.u(-1, 1)) * Xrotx(r.u(-1, 1)) * Xtrans(Vector3d(r.u(-1, 1), r.u(-1, 1), r.u(-1, 1)));
    Joint j;
    switch (r.i(9)) {
      case 0: j = Joint(JointTypeRevoluteX); break; case 1: j = Joint(JointTypeRevoluteZ); break;
      case 2: j = Joint(JointTypeSpherical); break; case 3: j = Joint(JointTypeEulerZYX); break;
      case 4: j = Joint(JointTypeTranslationXYZ); break; case 5: j = Joint(JointTypeFixed); break;
      case 6: j = Joint(SpatialVector(0, 0, 1, 0, 0, 0), SpatialVector(0, 0, 0, 1, 0, 0)); break;
      case 7: j = Joint(SpatialVector(0, 1, 0, 0, 0.3, 0)); break;
      default: j = Joint(JointTypeFloatingBase); break;
    }
    unsigned parent = ids[r.i((int)ids.size())];
    ids.push_back(m.AddBody(parent, X, j, b));
  }
  if (m.dof_count == 0) m.AddBody(0, SpatialTransform(), Joint(JointTypeRevoluteY), Body(1., Vector3d(0.1, 0, 0), Vector3d(1, 1, 1)));
}
static VectorNd rq(Model &m, Rng &r) {
  VectorNd q = VectorNd::Zero(m.q_size); for (unsigned i = 0; i < m.q_size; i++) q[i] = r.u(-1, 1);
  for (unsigned i = 1; i < m.mJoints.size(); i++) if (m.mJoints[i].mJointType == JointTypeSpherical) {
    Quaternion qt(r.u(-1, 1), r.u(-1, 1), r.u(-1, 1), r.u(0.2, 1)); qt.normalize(); m.SetQuaternion(i, qt, q); }
  return q;
}
static VectorNd rv(unsigned n, Rng &r) { VectorNd v(n); for (unsigned i = 0; i < n; i++) v[i] = r.u(-2, 2); return v; }
static void put(std::vector<double> &o, const VectorNd &v) { for (int i = 0; i < v.size(); i++) o.push_back(v[i]); }
static void put(std::vector<double> &o, const MatrixNd &v) { for (int i = 0; i < v.rows(); i++) for (int j = 0; j < v.cols(); j++) o.push_back(v(i, j)); }
static void put3(std::vector<double> &o, const Vector3d &v) { for (int i = 0; i < 3; i++) o.push_back(v[i]); }

// one worker: everything it touches is private to it
static void work(unsigned long seed, int rounds, const std::string &luafile, std::vector<double> *res) {
  std::vector<double> &o = *res; Rng r(seed);
  Model m; build_model(m, r);
  ConstraintSet cs; unsigned last = (unsigned) m.mBodies.size() - 1;
  cs.AddContactConstraint(last, Vector3d(0.1, 0.2, 0.3), Vector3d(0, 0, 1));
  if (m.dof_count > 2) cs.AddContactConstraint(last, Vector3d(0.1, 0.2, 0.3), Vector3d(1, 0, 0));
  cs.Bind(m);
  Model lm; if (!luafile.empty()) { Addons::LuaModelReadFromFile(luafile.c_str(), &lm, false); }
  for (int k = 0; k < rounds; k++) {
    VectorNd q = rq(m, r), qd = rv(m.qdot_size, r), qdd = rv(m.qdot_size, r), tau = rv(m.qdot_size, r);
    switch (r.i(14)) {
      case 0: { VectorNd t = VectorNd::Zero(m.qdot_size); InverseDynamics(m, q, qd, qdd, t); put(o, t); break; }
      case 1: { VectorNd a = VectorNd::Zero(m.qdot_size); ForwardDynamics(m, q, qd, tau, a); put(o, a); break; }
      case 2: { MatrixNd H = MatrixNd::Zero(m.qdot_size, m.qdot_size); CompositeRigidBodyAlgorithm(m, q, H); put(o, H); break; }
      case 3: { VectorNd t = VectorNd::Zero(m.qdot_size); NonlinearEffects(m, q, qd, t); put(o, t); break; }
      case 4: { put3(o, CalcBodyToBaseCoordinates(m, q, last, Vector3d(0.2, -0.1, 0.3), true)); break; }
      case 5: { put3(o, CalcPointVelocity(m, q, qd, last, Vector3d(0.2, -0.1, 0.3), true)); put3(o, CalcPointAcceleration(m, q, qd, qdd, last, Vector3d(0.2, -0.1, 0.3), true)); break; }
      case 6: { MatrixNd G = MatrixNd::Zero(6, m.qdot_size); CalcPointJacobian6D(m, q, last, Vector3d(0.1, 0, 0), G, true); put(o, G); break; }
      case 7: { double mass; Vector3d com, cv, am; Utils::CalcCenterOfMass(m, q, qd, NULL, mass, com, &cv, NULL, &am, NULL, true); o.push_back(mass); put3(o, com); put3(o, cv); put3(o, am);
                o.push_back(Utils::CalcKineticEnergy(m, q, qd, true)); break; }
      case 8: { VectorNd a = VectorNd::Zero(m.qdot_size); ForwardDynamicsConstraintsDirect(m, q, qd, tau, cs, a); put(o, a); put(o, cs.force); break; }
      case 9: { VectorNd a = VectorNd::Zero(m.qdot_size); CalcMInvTimesTau(m, q, tau, a, true); put(o, a); break; }
      case 10: { if (lm.dof_count) { VectorNd lq = VectorNd::Zero(lm.q_size), lz = VectorNd::Zero(lm.qdot_size), t = VectorNd::Zero(lm.qdot_size);
                 for (unsigned i = 0; i < lm.q_size; i++) lq[i] = r.u(-1, 1); InverseDynamics(lm, lq, lz, lz, t); put(o, t); } break; }
      case 11: { VectorNd a = VectorNd::Zero(m.qdot_size); ForwardDynamicsLagrangian(m, q, qd, tau, a, (Math::LinearSolver)(1 + r.i(3))); put(o, a); break; }
      case 12: { MatrixNd G = MatrixNd::Zero(3, m.qdot_size); CalcPointJacobian(m, q, last, Vector3d(0.1, 0.2, 0), G, true); put(o, G);
                 put3(o, CalcBaseToBodyCoordinates(m, q, last, Vector3d(0.3, 0.2, 0.1), true)); break; }
      default: { Addons::Geometry::SmoothSegmentedFunction f;
                 Addons::Muscle::MuscleFunctionFactory::createFiberActiveForceLengthCurve(0.5, 0.75, 1.0, 1.5 + r.u(0, 0.2), 0.1, 0.75, r.u(0, 1), "fal", f);
                 double x = r.u(0.3, 1.8); o.push_back(f.calcValue(x)); o.push_back(f.calcDerivative(x, 1)); o.push_back(f.calcDerivative(x, 2)); break; }
    }
  }
}

int main(int argc, char **argv) {
  int nthreads = argc > 1 ? atoi(argv[1]) : 8, rounds = argc > 2 ? atoi(argv[2]) : 300; unsigned long seed = argc > 3 ? strtoul(argv[3], NULL, 10) : 1;
  std::string luafile = argc > 4 ? argv[4] : "";
  std::vector<std::vector<double> > conc(nthreads), alone(nthreads);
  { std::vector<std::thread> th;
    for (int t = 0; t < nthreads; t++) th.push_back(std::thread(work, seed * 1000 + t, rounds, luafile, &conc[t]));
    for (int t = 0; t < nthreads; t++) th[t].join(); }
  for (int t = 0; t < nthreads; t++) work(seed * 1000 + t, rounds, luafile, &alone[t]);
  int bad = 0; size_t total = 0;
  for (int t = 0; t < nthreads; t++) {
    total += alone[t].size();
    if (conc[t].size() != alone[t].size() || (conc[t].size() && memcmp(&conc[t][0], &alone[t][0], conc[t].size() * sizeof(double)) != 0)) {
      size_t k = 0; while (k < conc[t].size() && k < alone[t].size() && memcmp(&conc[t][k], &alone[t][k], sizeof(double)) == 0) k++;
      printf("MISMATCH thread %d (seed %lu): first difference at value %zu\n", t, seed * 1000 + t, k); bad++;
    }
  }
  printf("threads %d rounds %d seed %lu values %zu mismatching_threads %d\n", nthreads, rounds, seed, total, bad);
  return bad ? 1 : 0;
}
