// Correspondence driver: balance addon (C12) -- CalculateFootPlacementEstimator.
//   fpe <flag> <q> <qd> <point(3)> <smallw>
// The ground-plane normal handed to the routine is -gravity/|gravity| (the routine asserts that).
#include "driver_ext.h"
#include "balance/BalanceToolkit.h"
#include <cmath>
using namespace RigidBodyDynamics::Addons::Balance;

bool run_bal(Ctx &C, const std::string &cmd, Toks &T, long seq) {
  if (cmd != "fpe") return false;
  Model &m = *C.model;
  long flag = T.integer(); VectorNd q = T.vec(), qd = T.vec(); Vector3d point = T.v3(); double smallw = T.num();
  Vector3d normal = m.gravity * (-1.0 / m.gravity.norm());
  FootPlacementEstimatorInfo f;
  BalanceToolkit::CalculateFootPlacementEstimator(m, q, qd, point, normal, f, smallw, false, flag != 0);
  out.begin(seq, "fpe_k"); out.v3(f.k); out.end();
  out.begin(seq, "fpe_r0C0"); out.v3(f.r0C0); out.end();
  out.begin(seq, "fpe_v0C0"); out.v3(f.v0C0); out.end();
  out.begin(seq, "fpe_HC0"); out.v3(f.HC0); out.end();
  out.begin(seq, "fpe_JC0"); out.m3(f.JC0); out.end();
  out.begin(seq, "fpe_w0C0"); out.v3(f.w0C0); out.end();
  out.begin(seq, "fpe_r0P0"); out.v3(f.r0P0); out.end();
  out.begin(seq, "fpe_HP0"); out.v3(f.HP0); out.end();
  out.begin(seq, "fpe_JP0"); out.m3(f.JP0); out.end();
  out.begin(seq, "fpe_w0P0"); out.v3(f.w0P0); out.end();
  out.begin(seq, "fpe_n"); out.v3(f.n); out.end();
  out.begin(seq, "fpe_u"); out.v3(f.u); out.end();
  out.begin(seq, "fpe_h"); out.d(f.h); out.end();
  out.begin(seq, "fpe_proj"); out.d(f.nJC0n); out.d(f.v0C0u); out.d(f.v0C0k); out.d(f.w0C0n); out.end();
  out.begin(seq, "fpe_phi"); out.d(f.phi); out.d(f.f); out.end();
  out.begin(seq, "fpe_r0F0"); out.v3(f.r0F0); out.end();
  return true;
}
