// Curve commands of the correspondence driver: quintic Bezier toolkit, smooth segmented functions,
// muscle curve factories (addons/geometry, addons/muscle).
#include <cmath>
#include <cstring>
#include <iostream>
#include <fstream>
#include <sstream>
#include <limits>
#include <vector>
#include <string>
#include "driver_ext.h"
#include <rbdl/rbdl_errors.h>
#include "geometry/Function.h"
#define private public
#include "geometry/SmoothSegmentedFunction.h"
#undef private
#include "geometry/SegmentedQuinticBezierToolkit.h"
#include "muscle/MuscleFunctionFactory.h"
#include "muscle/Millard2016TorqueMuscle.h"

using namespace RigidBodyDynamics::Addons::Geometry;
using namespace RigidBodyDynamics::Addons::Muscle;


static SmoothSegmentedFunction g_curve; static bool g_have = false;

static VectorNd six(Toks &T) { VectorNd v(6); for (int k = 0; k < 6; k++) v[k] = T.num(); return v; }
static void thrown(long seq, const char *label) { out.begin(seq, label); out.s("throw"); out.end(); }

bool run_curves(Ctx &C, const std::string &cmd, Toks &T, long seq) {
  if (cmd == "bez") {
    std::string op = T.str();
    try {
      if (op == "val") { double u = T.num(); VectorNd p = six(T); out.begin(seq, "bezval"); out.d(SegmentedQuinticBezierToolkit::calcQuinticBezierCurveVal(u, p)); out.end(); }
      else if (op == "du") { long k = T.integer(); double u = T.num(); VectorNd p = six(T); out.begin(seq, "bezdu"); out.d(SegmentedQuinticBezierToolkit::calcQuinticBezierCurveDerivU(u, p, (int) k)); out.end(); }
      else if (op == "dydx") { long k = T.integer(); double u = T.num(); VectorNd x = six(T), y = six(T); out.begin(seq, "bezdydx"); out.d(SegmentedQuinticBezierToolkit::calcQuinticBezierCurveDerivDYDX(u, x, y, (int) k)); out.end(); }
      else if (op == "corner") {
        double x0 = T.num(), y0 = T.num(), d0 = T.num(), x1 = T.num(), y1 = T.num(), d1 = T.num(), c = T.num();
        MatrixNd m = SegmentedQuinticBezierToolkit::calcQuinticBezierCornerControlPoints(x0, y0, d0, x1, y1, d1, c);
        out.begin(seq, "corner"); for (int j = 0; j < 2; j++) for (int i = 0; i < 6; i++) out.d(m(i, j)); out.end();
      }
      else if (op == "calcu") { double ax = T.num(); VectorNd p = six(T); double tol = T.num(); long mi = T.integer();
        out.begin(seq, "calcu"); out.d(SegmentedQuinticBezierToolkit::calcU(ax, p, tol, (int) mi)); out.end(); }
    } catch (Errors::RBDLError &e) { thrown(seq, (op == "corner" || op == "calcu") ? op.c_str() : ("bez" + op).c_str()); }
    return true;
  }
  if (cmd == "curve") {
    std::string kind = T.str(); std::vector<double> a; while (T.more()) a.push_back(T.num());
    g_have = false;
    try {
      g_curve = SmoothSegmentedFunction();
      if (kind == "fal") MuscleFunctionFactory::createFiberActiveForceLengthCurve(a[0], a[1], a[2], a[3], a[4], a[5], a[6], "fal", g_curve);
      else if (kind == "fv") MuscleFunctionFactory::createFiberForceVelocityCurve(a[0], a[1], a[2], a[3], a[4], a[5], a[6], a[7], "fv", g_curve);
      else if (kind == "fvinv") MuscleFunctionFactory::createFiberForceVelocityInverseCurve(a[0], a[1], a[2], a[3], a[4], a[5], a[6], a[7], "fvinv", g_curve);
      else if (kind == "fcphi") MuscleFunctionFactory::createFiberCompressiveForcePennationCurve(a[0], a[1], a[2], "fcphi", g_curve);
      else if (kind == "fccos") MuscleFunctionFactory::createFiberCompressiveForceCosPennationCurve(a[0], a[1], a[2], "fccos", g_curve);
      else if (kind == "fcl") MuscleFunctionFactory::createFiberCompressiveForceLengthCurve(a[0], a[1], a[2], "fcl", g_curve);
      else if (kind == "fpe") MuscleFunctionFactory::createFiberForceLengthCurve(a[0], a[1], a[2], a[3], a[4], "fpe", g_curve);
      else if (kind == "ft") MuscleFunctionFactory::createTendonForceLengthCurve(a[0], a[1], a[2], a[3], "ft", g_curve);
      else if (kind == "raw") {   // raw nseg x0 x1 y0 y1 d0 d1 then nseg*(6 x, 6 y)
        int ns = (int) a[0]; MatrixNd mx(6, ns), my(6, ns); size_t k = 7;
        for (int s = 0; s < ns; s++) { for (int i = 0; i < 6; i++) mx(i, s) = a[k++]; for (int i = 0; i < 6; i++) my(i, s) = a[k++]; }
        g_curve.updSmoothSegmentedFunction(mx, my, a[1], a[2], a[3], a[4], a[5], a[6], "raw");
      }
      else { thrown(seq, "curve"); return true; }
      g_have = true;
      MatrixNd mx, my; g_curve.getXControlPoints(mx); g_curve.getYControlPoints(my);
      out.begin(seq, "curve"); out.s("ok"); out.end();
      out.begin(seq, "nseg"); out.u(mx.rows()); out.end();
      out.begin(seq, "xcp"); for (int s = 0; s < mx.rows(); s++) for (int i = 0; i < mx.cols(); i++) out.d(mx(s, i)); out.end();
      out.begin(seq, "ycp"); for (int s = 0; s < my.rows(); s++) for (int i = 0; i < my.cols(); i++) out.d(my(s, i)); out.end();
      // the same through the private members (the getters are under test)
      out.begin(seq, "xcp_raw"); for (size_t s = 0; s < g_curve._mXVec.size(); s++) for (int i = 0; i < 6; i++) out.d(g_curve._mXVec[s][i]); out.end();
      out.begin(seq, "ycp_raw"); for (size_t s = 0; s < g_curve._mYVec.size(); s++) for (int i = 0; i < 6; i++) out.d(g_curve._mYVec[s][i]); out.end();
      out.begin(seq, "dom"); out.d(g_curve._x0); out.d(g_curve._x1); out.d(g_curve._y0); out.d(g_curve._y1); out.d(g_curve._dydx0); out.d(g_curve._dydx1); out.end();
    } catch (Errors::RBDLError &e) { thrown(seq, "curve"); }
    return true;
  }
  if (cmd == "cval" || cmd == "cder" || cmd == "cinv" || cmd == "cshift" || cmd == "cscale") {
    if (!g_have) { out.begin(seq, cmd.c_str()); out.s("nocurve"); out.end(); return true; }
    // where: x <value> | j <segment> (start of that segment; nseg = end of the curve) | f <segment> <fraction> | e <0|1> <delta> (outside)
    struct W { static double x(Toks &T) {
      std::string w = T.str(); size_t ns = g_curve._mXVec.size();
      if (w == "x") return T.num();
      if (w == "j") { size_t s = (size_t) T.integer(); return s >= ns ? g_curve._mXVec[ns - 1][5] : g_curve._mXVec[s][0]; }
      if (w == "f") { size_t s = (size_t) T.integer(); double fr = T.num(); if (s >= ns) s = ns - 1; return g_curve._mXVec[s][0] + fr * (g_curve._mXVec[s][5] - g_curve._mXVec[s][0]); }
      long side = T.integer(); double d = T.num(); return side == 0 ? g_curve._x0 - d : g_curve._x1 + d; } };
    try {
      if (cmd == "cval") { double x = W::x(T); out.begin(seq, "cval"); out.d(g_curve.calcValue(x)); out.end(); }
      else if (cmd == "cder") { long k = T.integer(); double x = W::x(T); out.begin(seq, "cder"); out.d(g_curve.calcDerivative(x, (int) k)); out.end(); }
      else if (cmd == "cinv") { double fr = T.num(), gf = T.num();
        double y = g_curve._y0 + fr * (g_curve._y1 - g_curve._y0), xg = g_curve._x0 + gf * (g_curve._x1 - g_curve._x0);
        double x = g_curve.calcInverseValue(y, xg);
        out.begin(seq, "cinv"); out.d(x); out.end(); }
      else if (cmd == "cshift") { double dx = T.num(), dy = T.num(); g_curve.shift(dx, dy); out.begin(seq, "cshift"); out.s("ok"); out.end(); }
      else { double kx = T.num(), ky = T.num(); g_curve.scale(kx, ky); out.begin(seq, "cscale"); out.s("ok"); out.end(); }
    } catch (Errors::RBDLError &e) { thrown(seq, cmd.c_str()); }
    return true;
  }
  if (cmd == "tmuscle") {
    long ds = T.integer(), gender = T.integer(), age = T.integer(), jt = T.integer();
    double ang = T.num(), vel = T.num(), act = T.num();
    try {
      SubjectInformation si; si.gender = (GenderSet::item) gender; si.ageGroup = (AgeGroupSet::item) age; si.heightInMeters = 1.732; si.massInKg = 69.0;
      Millard2016TorqueMuscle tm((DataSet::item) ds, si, (int) jt, 0.0, 1.0, 1.0, "tm");
      double tau = tm.calcJointTorque(ang, vel, act);
      TorqueMuscleSummary sm; tm.calcActivation(ang, vel, tau, sm);
      TorqueMuscleInfo info; tm.calcTorqueMuscleInfo(ang, vel, act, info);
      double h = 1e-6;
      out.begin(seq, "tm_tau"); out.d(tau); out.d(info.jointTorque); out.end();
      out.begin(seq, "tm_act"); out.d(sm.activation); out.end();
      out.begin(seq, "tm_mult"); out.d(info.fiberActiveTorqueAngleMultiplier); out.d(info.fiberTorqueAngularVelocityMultiplier); out.d(info.fiberPassiveTorqueAngleMultiplier); out.end();
      out.begin(seq, "tm_partials"); out.d(info.DjointTorque_Dactivation); out.d(info.DjointTorque_DjointAngle); out.d(info.DjointTorque_DjointAngularVelocity); out.end();
      out.begin(seq, "tm_fd"); out.d(tm.calcJointTorque(ang, vel, act + h)); out.d(tm.calcJointTorque(ang, vel, act - h));
      out.d(tm.calcJointTorque(ang + h, vel, act)); out.d(tm.calcJointTorque(ang - h, vel, act));
      out.d(tm.calcJointTorque(ang, vel + h, act)); out.d(tm.calcJointTorque(ang, vel - h, act)); out.end();
    } catch (Errors::RBDLError &e) { thrown(seq, "tm_tau"); }
    return true;
  }
  return false;
}
