// Extension commands of the correspondence driver (constraint sets, addons).
#include "driver_ext.h"
struct ExtState { int dummy; };
void ext_free(ExtState *e) { delete e; }
bool run_ext(Ctx &C, const std::string &cmd, Toks &T, long seq) { return false; }
