// Extension commands of the correspondence driver: constraint sets.
#include "driver_ext.h"
#include <rbdl/Constraints.h>
#include <rbdl/rbdl_utils.h>
#include "luamodel/luamodel.h"
extern bool g_luamode;
#include <cmath>
#include <cstring>
#include <algorithm>

struct ExtState {
  ConstraintSet cs; bool bound; std::vector<double> vplus;
  ExtState() : bound(false) {}
};
void ext_free(ExtState *e) { delete e; }
static ExtState &E(Ctx &C) { if (!C.ext) C.ext = new ExtState(); return *C.ext; }
static void bind(Ctx &C) { ExtState &e = E(C); if (!e.bound) { e.cs.Bind(*C.model); e.bound = true; } }

// solve the consistent symmetric system A y = b by elimination with full pivoting; pivots below
// 1e-9 * max|A| are treated as zero and their unknowns set to zero (redundant constraints)
static VectorNd solve_consistent(MatrixNd A, VectorNd b) {
  int n = A.rows(); std::vector<int> colp(n); for (int i = 0; i < n; i++) colp[i] = i;
  double amax = 0.; for (int i = 0; i < n; i++) for (int j = 0; j < n; j++) amax = std::max(amax, fabs(A(i, j)));
  double thr = std::max(1e-9 * amax, 1e-14); int rank = 0;   // absolute floor: a Jacobian that is numerically zero has no pivot
  for (int k = 0; k < n; k++) {
    int pi = k, pj = k; double best = -1.;
    for (int i = k; i < n; i++) for (int j = k; j < n; j++) if (fabs(A(i, j)) > best) { best = fabs(A(i, j)); pi = i; pj = j; }
    if (best <= thr) break;
    A.row(k).swap(A.row(pi)); std::swap(b[k], b[pi]); A.col(k).swap(A.col(pj)); std::swap(colp[k], colp[pj]);
    for (int i = k + 1; i < n; i++) { double d = A(i, k) / A(k, k); for (int j = k; j < n; j++) A(i, j) -= d * A(k, j); b[i] -= d * b[k]; }
    rank = k + 1;
  }
  VectorNd z = VectorNd::Zero(n);
  for (int i = rank - 1; i >= 0; i--) { double s = b[i]; for (int j = i + 1; j < rank; j++) s -= A(i, j) * z[j]; z[i] = s / A(i, i); }
  VectorNd y = VectorNd::Zero(n); for (int i = 0; i < n; i++) y[colp[i]] = z[i];
  return y;
}
// velocity consistent with the constraints: qd - G^T (G G^T)^+ G qd
static VectorNd project(Ctx &C, const VectorNd &q, const VectorNd &qd) {
  Model &m = *C.model; ConstraintSet &cs = E(C).cs;
  MatrixNd G = MatrixNd::Zero(cs.size(), m.qdot_size); CalcConstraintsJacobian(m, q, cs, G, true);
  MatrixNd A = G * G.transpose(); VectorNd b = G * qd;
  return qd - G.transpose() * solve_consistent(A, b);
}

bool run_curves(Ctx &C, const std::string &cmd, Toks &T, long seq);
bool run_bal(Ctx &C, const std::string &cmd, Toks &T, long seq);
bool run_ext(Ctx &C, const std::string &cmd, Toks &T, long seq) {
  Model &m = *C.model;
  if (run_curves(C, cmd, T, seq)) return true;
  if (run_bal(C, cmd, T, seq)) return true;
  if (cmd == "luamode") { g_luamode = true; return true; }
  if (cmd == "luadecoy") {   // another description loaded earlier in the same process
    std::string path = T.str(); Model tmp;
    try { Addons::LuaModelReadFromFile(path.c_str(), &tmp, false); } catch (std::exception &e) {}
    return true;
  }
  if (cmd == "luaload") {
    std::string path = T.str(); bool withcons = T.more() && T.str() == "withcons";
    try {
      if (withcons) {
        std::vector<ConstraintSet> sets(1); std::vector<std::string> names(1, "cs");
        Addons::LuaModelReadFromFileWithConstraints(path.c_str(), &m, sets, names, false);
        E(C).cs = sets[0]; E(C).bound = true;
      } else Addons::LuaModelReadFromFile(path.c_str(), &m, false);
      out.begin(seq, "luaload"); out.s("ok"); out.end();
    } catch (std::exception &e) { out.begin(seq, "luaload"); out.s("throw"); out.end(); }
    return true;
  }
  if ((cmd == "contact" || cmd == "loop" || cmd == "loopauto") && g_luamode) return true;
  if (cmd == "csolver") { long k = T.integer(); E(C).cs.linear_solver = (LinearSolver)k; return true; }
  if (cmd == "contact") {
    unsigned id = C.ref(T.str()); Vector3d p = T.v3(), n = T.v3();
    E(C).cs.AddContactConstraint(id, p, n); return true;
  }
  if (cmd == "loop" || cmd == "loopauto") {
    unsigned idp = C.ref(T.str()), ids = C.ref(T.str());
    Matrix3d Ep = T.m3(); Vector3d rp = T.v3();
    SpatialTransform Xp(Ep, rp), Xs;
    if (cmd == "loop") { Matrix3d Es = T.m3(); Vector3d rs = T.v3(); Xs = SpatialTransform(Es, rs); }
    Vector3d off(0., 0., 0.); if (cmd == "loopauto") off = T.v3();
    long nax = T.integer(); std::vector<SpatialVector> ax; for (long k = 0; k < nax; k++) ax.push_back(T.sv());
    long baum = T.integer(); double ts = T.num();
    if (cmd == "loopauto") {
      VectorNd q0 = T.vec();
      UpdateKinematicsCustom(m, &q0, NULL, NULL);
      Matrix3d Rp = CalcBodyWorldOrientation(m, q0, idp, false).transpose();
      Vector3d pp = CalcBodyToBaseCoordinates(m, q0, idp, Vector3d(0., 0., 0.), false);
      Matrix3d Rs = CalcBodyWorldOrientation(m, q0, ids, false).transpose();
      Vector3d ps = CalcBodyToBaseCoordinates(m, q0, ids, Vector3d(0., 0., 0.), false);
      Matrix3d Ra = Rp * Ep; Vector3d ra = pp + Rp * rp;
      Xs = SpatialTransform(Rs.transpose() * Ra, Rs.transpose() * (ra + Ra * off - ps));
    }
    for (long k = 0; k < nax; k++) E(C).cs.AddLoopConstraint(idp, ids, Xp, Xs, ax[k], baum != 0, ts);
    return true;
  }
  if (cmd == "cjac") {
    bind(C); long flag = T.integer(); VectorNd q = T.vec(); ConstraintSet &cs = E(C).cs;
    MatrixNd G = MatrixNd::Zero(cs.size(), m.qdot_size); CalcConstraintsJacobian(m, q, cs, G, flag != 0);
    out.begin(seq, "G"); out.mat(G); out.end(); return true;
  }
  if (cmd == "cerr") {
    bind(C); long flag = T.integer(); VectorNd q = T.vec(); ConstraintSet &cs = E(C).cs;
    VectorNd e = VectorNd::Zero(cs.size()); CalcConstraintsPositionError(m, q, cs, e, flag != 0);
    out.line(seq, "err", e); return true;
  }
  if (cmd == "cverr") {
    bind(C); long flag = T.integer(); VectorNd q = T.vec(), qd = T.vec(); ConstraintSet &cs = E(C).cs;
    VectorNd e = VectorNd::Zero(cs.size()); CalcConstraintsVelocityError(m, q, qd, cs, e, flag != 0);
    out.line(seq, "errd", e); return true;
  }
  if (cmd == "csys") {
    bind(C); bool feas = false; if (T.t[T.i] == "feas") { T.str(); feas = true; }
    VectorNd q = T.vec(), qd = T.vec(), tau = T.vec();
    if (feas) { qd = project(C, q, qd); out.line(seq, "qd_feas", qd); } std::vector<SpatialVector> *fe = C.fext(T); ConstraintSet &cs = E(C).cs;
    CalcConstrainedSystemVariables(m, q, qd, tau, cs, true, fe);
    out.begin(seq, "H"); out.mat(cs.H); out.end(); out.line(seq, "C", cs.C);
    out.begin(seq, "G"); out.mat(cs.G); out.end(); out.line(seq, "gamma", cs.gamma);
    out.line(seq, "err", cs.err); out.line(seq, "errd", cs.errd); return true;
  }
  if (cmd == "fdc") {
    bind(C); std::string meth = T.str(); bool feas = false; if (T.t[T.i] == "feas") { T.str(); feas = true; }
    VectorNd q = T.vec(), qd = T.vec(), tau = T.vec(); std::vector<SpatialVector> *fe = C.fext(T);
    if (feas) { qd = project(C, q, qd); out.line(seq, "qd_feas", qd); }   // the model uses this very velocity
    ConstraintSet &cs = E(C).cs; VectorNd qdd = VectorNd::Zero(m.qdot_size);
    if (meth == "direct") ForwardDynamicsConstraintsDirect(m, q, qd, tau, cs, qdd, true, fe);
    else if (meth == "range") ForwardDynamicsConstraintsRangeSpaceSparse(m, q, qd, tau, cs, qdd, true, fe);
    else if (meth == "null") ForwardDynamicsConstraintsNullSpace(m, q, qd, tau, cs, qdd, true, fe);
    else if (meth == "kokkevis") ForwardDynamicsContactsKokkevis(m, q, qd, tau, cs, qdd);
    out.line(seq, "qdd", qdd); out.line(seq, "force", cs.force); return true;
  }
  if (cmd == "actuation") {
    bind(C); long k = T.integer(); std::vector<bool> a; for (long i = 0; i < k; i++) a.push_back(T.integer() != 0);
    E(C).cs.SetActuationMap(m, a); return true;
  }
  if (cmd == "idc") {
    bind(C); std::string meth = T.str(); bool feas = false, feasacc = false;
    while (T.t[T.i] == "feas" || T.t[T.i] == "feasacc") { if (T.str() == "feas") feas = true; else feasacc = true; }
    VectorNd q = T.vec(), qd = T.vec(), qdes = T.vec(); std::vector<SpatialVector> *fe = C.fext(T);
    if (feas) { qd = project(C, q, qd); out.line(seq, "qd_feas", qd); }   // the model uses this very velocity
    ConstraintSet &cs = E(C).cs;
    if (feasacc) {   // a desired acceleration consistent with the constraints: qdes - G^T (G G^T)^+ (G qdes - gamma)
      CalcConstrainedSystemVariables(m, q, qd, VectorNd::Zero(m.qdot_size), cs, true, fe);
      MatrixNd G = cs.G; VectorNd gam = cs.gamma;
      qdes = qdes - G.transpose() * solve_consistent(G * G.transpose(), G * qdes - gam);
    }
    VectorNd qdd = VectorNd::Zero(m.qdot_size), tau = VectorNd::Zero(m.qdot_size);
    try {
      if (meth == "exact") InverseDynamicsConstraints(m, q, qd, qdes, cs, qdd, tau, true, fe);
      else InverseDynamicsConstraintsRelaxed(m, q, qd, qdes, cs, qdd, tau, true, fe);
      out.line(seq, "qdd", qdd); out.line(seq, "tauc", tau); out.line(seq, "force", cs.force);
    } catch (Errors::RBDLError &e) { out.begin(seq, "status"); out.s("throw"); out.end(); }
    return true;
  }
  if (cmd == "fullact") {
    bind(C); VectorNd q = T.vec(), qd = T.vec(); std::vector<SpatialVector> *fe = C.fext(T);
    bool r = isConstrainedSystemFullyActuated(m, q, qd, E(C).cs, true, fe);
    out.begin(seq, "fullact"); out.u(r ? 1 : 0); out.end();
    out.begin(seq, "fullact_G"); out.mat(E(C).cs.G); out.end(); return true;   // the Jacobian the rank test saw
  }
  if (cmd == "ik1") {
    // ik1 nt {ref pt off}* Qstar Qinit step_tol lambda max_iter : targets are the point positions at Qstar plus an offset
    bool step = (T.str() == "step"); std::string sfx = step ? "" : "_full";
    long nt = T.integer(); std::vector<unsigned int> ids; std::vector<Vector3d> pts, offs, tps;
    for (long k = 0; k < nt; k++) { ids.push_back(C.ref(T.str())); pts.push_back(T.v3()); offs.push_back(T.v3()); }
    VectorNd qs = T.vec(), q0 = T.vec(); double stol = T.num(), lam = T.num(); long maxit = T.integer(); if (step) maxit = 1;
    UpdateKinematicsCustom(m, &qs, NULL, NULL);
    for (long k = 0; k < nt; k++) tps.push_back(CalcBodyToBaseCoordinates(m, qs, ids[k], pts[k], false) + offs[k]);
    VectorNd qres = q0;
    bool ok = InverseKinematics(m, q0, ids, pts, tps, qres, stol, lam, (unsigned) maxit);
    out.begin(seq, ("ikok" + sfx).c_str()); out.u(ok ? 1 : 0); out.end(); out.line(seq, ("ikq" + sfx).c_str(), qres); return true;
  }
  if (cmd == "ik2") {
    bool step = (T.str() == "step"); std::string sfx = step ? "" : "_full";
    long nc = T.integer(); InverseKinematicsConstraintSet cs;
    std::vector<std::string> kinds; std::vector<unsigned int> ids; std::vector<Vector3d> pts, offs; std::vector<double> wts;
    for (long k = 0; k < nc; k++) { kinds.push_back(T.str()); ids.push_back(C.ref(T.str())); pts.push_back(T.v3()); offs.push_back(T.v3()); wts.push_back(T.num()); }
    VectorNd qs = T.vec(), q0 = T.vec(); cs.step_tol = T.num(); cs.constraint_tol = T.num(); cs.lambda = T.num(); cs.max_steps = (unsigned) T.integer(); if (step) cs.max_steps = 1;
    UpdateKinematicsCustom(m, &qs, NULL, NULL);
    for (long k = 0; k < nc; k++) {
      Vector3d tp = CalcBodyToBaseCoordinates(m, qs, ids[k], pts[k], false) + offs[k];
      Matrix3d tO = CalcBodyWorldOrientation(m, qs, ids[k], false);
      const std::string &kind = kinds[k]; float wt = (float) wts[k];
      if (kind == "full") cs.AddFullConstraint(ids[k], pts[k], tp, tO, wt);
      else if (kind == "orient") cs.AddOrientationConstraint(ids[k], tO, wt);
      else if (kind == "pos") cs.AddPointConstraint(ids[k], pts[k], tp, wt);
      else if (kind == "posxy") cs.AddPointConstraintXY(ids[k], pts[k], tp, wt);
      else if (kind == "posz") cs.AddPointConstraintZ(ids[k], pts[k], tp, wt);
      else { double mass; Vector3d com; Utils::CalcCenterOfMass(m, qs, VectorNd::Zero(m.qdot_size), NULL, mass, com, NULL, NULL, NULL, NULL, false);
             cs.AddPointConstraintCoMXY(ids[k], com + offs[k], wt); }
    }
    VectorNd qres = q0;
    bool ok = InverseKinematics(m, q0, cs, qres);
    out.begin(seq, ("ikok" + sfx).c_str()); out.u(ok ? 1 : 0); out.end(); out.line(seq, ("ikq" + sfx).c_str(), qres);
    out.begin(seq, ("ikerr" + sfx).c_str()); out.d(cs.error_norm); out.end();
    if (!step) { out.begin(seq, "iksteps_full"); out.u(cs.num_steps); out.end(); } return true;
  }
  if (cmd == "asmq") {
    bind(C); bool step = (T.str() == "step"); std::string sfx = step ? "" : "_full";
    VectorNd q0 = T.vec(), wts = T.vec(); double tol = T.num(); long maxit = T.integer(); if (step) maxit = 1;
    VectorNd q = q0;
    try {
      bool ok = CalcAssemblyQ(m, q0, E(C).cs, q, wts, tol, (unsigned) maxit);
      out.begin(seq, ("asmok" + sfx).c_str()); out.u(ok ? 1 : 0); out.end(); out.line(seq, ("asmq" + sfx).c_str(), q);
    } catch (Errors::RBDLError &e) { out.begin(seq, "status"); out.s("throw"); out.end(); }
    return true;
  }
  if (cmd == "asmqd") {
    bind(C); VectorNd q = T.vec(), qd0 = T.vec(), wts = T.vec(); VectorNd qd = VectorNd::Zero(m.qdot_size);
    try { CalcAssemblyQDot(m, q, qd0, E(C).cs, qd, wts); out.line(seq, "asmqd", qd); }
    catch (Errors::RBDLError &e) { out.begin(seq, "status"); out.s("throw"); out.end(); }
    return true;
  }
  if (cmd == "imp") {
    bind(C); std::string meth = T.str(); VectorNd q = T.vec(), qdm = T.vec(), vp = T.vec(); ConstraintSet &cs = E(C).cs;
    for (int k = 0; k < vp.size() && k < cs.v_plus.size(); k++) cs.v_plus[k] = vp[k];
    VectorNd qdp = VectorNd::Zero(m.qdot_size);
    if (meth == "direct") ComputeConstraintImpulsesDirect(m, q, qdm, cs, qdp);
    else if (meth == "range") ComputeConstraintImpulsesRangeSpaceSparse(m, q, qdm, cs, qdp);
    else ComputeConstraintImpulsesNullSpace(m, q, qdm, cs, qdp);
    out.line(seq, "qdplus", qdp); out.line(seq, "impulse", cs.impulse); return true;
  }
  return false;
}
